(* The tangle complex model (Model/TngComplex.v): what one `eliminate` step does to the edge map, the keys and the
   tangles of the complex - for EVERY vertex list (no well-formedness needed: the statements are "whenever the step
   returns").  The semantic reading (d - c a^-1 b, d d = 0 is preserved) is in Proofs/TngPCpxSem.v. *)
From Coq Require Import List Arith Bool ZArith Lia.
Import ListNotations.
Require Import Yui.Model.Link Yui.Model.Tng Yui.Model.TngCob Yui.Model.TngStack Yui.Model.TngComplex.

(* ---------- keys ---------- *)
Lemma bits_eqb_eq a b : bits_eqb a b = true <-> a = b.
Proof.
  revert b. induction a as [|x a IH]; intros [|y b]; cbn [bits_eqb]; split; intros E; try reflexivity; try discriminate.
  - apply andb_true_iff in E. destruct E as [E1 E2]. apply eqb_prop in E1. apply IH in E2. now subst.
  - injection E as -> ->. rewrite eqb_reflx. cbn. now apply IH.
Qed.
Lemma key_eqb_eq k l : key_eqb k l = true <-> k = l.
Proof.
  destruct k as [s1 b1], l as [s2 b2]. unfold key_eqb. cbn [kstate klabel]. rewrite andb_true_iff, !bits_eqb_eq.
  split; [intros [-> ->]; reflexivity | intros [= -> ->]; now split].
Qed.
Lemma key_eqb_refl k : key_eqb k k = true.
Proof. now apply key_eqb_eq. Qed.
Lemma key_eqb_neq k l : key_eqb k l = false <-> k <> l.
Proof.
  split.
  - intros E1 E2. apply key_eqb_eq in E2. congruence.
  - intros E1. destruct (key_eqb k l) eqn:E2; [|reflexivity]. apply key_eqb_eq in E2. contradiction.
Qed.
Lemma key_eqb_sym k l : key_eqb k l = key_eqb l k.
Proof.
  destruct (key_eqb k l) eqn:E1; symmetry.
  - apply key_eqb_eq in E1. subst. apply key_eqb_refl.
  - apply key_eqb_neq. apply key_eqb_neq in E1. congruence.
Qed.
Lemma key_eqb_spec k l : reflect (k = l) (key_eqb k l).
Proof. destruct (key_eqb k l) eqn:E; constructor; [now apply key_eqb_eq | now apply key_eqb_neq]. Qed.

Lemma key_mem_In k ks : key_mem k ks = true <-> In k ks.
Proof.
  unfold key_mem. rewrite existsb_exists. split.
  - intros (x & Hi & He). apply key_eqb_eq in He. now subst.
  - intros Hi. exists k. split; [assumption|apply key_eqb_refl].
Qed.

(* ---------- vertex lists ---------- *)
Definition keeps_key (f : vertex -> vertex) : Prop := forall v, vkey (f v) = vkey v.
Definition keeps_out (f : vertex -> vertex) : Prop := forall v, vout (f v) = vout v.
Definition keeps_tng (f : vertex -> vertex) : Prop := forall v, vtng (f v) = vtng v.

Lemma keeps_set_in i : keeps_key (fun w => set_in w (i w)) /\ keeps_out (fun w => set_in w (i w)) /\
                       keeps_tng (fun w => set_in w (i w)).
Proof. repeat split. Qed.
Lemma keeps_set_out o : keeps_key (fun w => set_out w (o w)) /\ keeps_tng (fun w => set_out w (o w)).
Proof. repeat split. Qed.

Lemma find_v_upd vs k f j :
  keeps_key f -> find_v (upd_v vs k f) j = if key_eqb j k then option_map f (find_v vs j) else find_v vs j.
Proof.
  intros Kf. induction vs as [|v vs IH]; cbn [upd_v map find_v].
  - now destruct (key_eqb j k).
  - fold (upd_v vs k f). destruct (key_eqb_spec (vkey v) k) as [E1|E1].
    + rewrite Kf. destruct (key_eqb_spec (vkey v) j) as [E2|E2].
      * subst. rewrite key_eqb_refl. reflexivity.
      * rewrite IH. reflexivity.
    + destruct (key_eqb_spec (vkey v) j) as [E2|E2].
      * subst j. destruct (key_eqb_spec (vkey v) k); [contradiction|reflexivity].
      * apply IH.
Qed.
Lemma find_v_del vs k j : find_v (del_v vs k) j = if key_eqb j k then None else find_v vs j.
Proof.
  induction vs as [|v vs IH]; cbn [del_v filter find_v].
  - now destruct (key_eqb j k).
  - fold (del_v vs k). destruct (key_eqb_spec (vkey v) k) as [E1|E1]; cbn [negb find_v].
    + rewrite IH. destruct (key_eqb_spec j k) as [E2|E2]; [reflexivity|].
      destruct (key_eqb_spec (vkey v) j); [congruence|reflexivity].
    + destruct (key_eqb_spec (vkey v) j) as [E2|E2].
      * subst j. destruct (key_eqb_spec (vkey v) k); [contradiction|reflexivity].
      * apply IH.
Qed.
Lemma keys_upd vs k f : keeps_key f -> map vkey (upd_v vs k f) = map vkey vs.
Proof.
  intros Kf. unfold upd_v. rewrite map_map. apply map_ext. intros v. destruct (key_eqb (vkey v) k); [apply Kf|reflexivity].
Qed.
Lemma keys_del vs k : map vkey (del_v vs k) = filter (fun j => negb (key_eqb j k)) (map vkey vs).
Proof.
  induction vs as [|v vs IH]; [reflexivity|]. cbn [del_v filter map]. fold (del_v vs k).
  destruct (key_eqb (vkey v) k); cbn [negb map]; now rewrite IH.
Qed.
Lemma has_key_find vs k : has_key vs k = true <-> exists v, find_v vs k = Some v.
Proof. unfold has_key. destruct (find_v vs k); split; try discriminate; eauto. intros [? [=]]. Qed.

(* ---------- out-edge lists ---------- *)
Lemma find_e_del es l m : find_e (del_e es l) m = if key_eqb m l then None else find_e es m.
Proof.
  induction es as [|[k f] es IH]; cbn [del_e filter find_e fst].
  - now destruct (key_eqb m l).
  - fold (del_e es l). destruct (key_eqb_spec k l) as [E1|E1]; cbn [negb find_e].
    + rewrite IH. destruct (key_eqb_spec m l) as [E2|E2]; [reflexivity|].
      destruct (key_eqb_spec k m); [congruence|reflexivity].
    + destruct (key_eqb_spec k m) as [E2|E2].
      * subst m. destruct (key_eqb_spec k l); [contradiction|reflexivity].
      * apply IH.
Qed.
Lemma find_e_app es l f m :
  find_e (es ++ [(l, f)]) m =
  match find_e es m with Some g => Some g | None => if key_eqb l m then Some f else None end.
Proof.
  induction es as [|[k g] es IH]; cbn [app find_e]; [reflexivity|].
  destruct (key_eqb k m); [reflexivity|apply IH].
Qed.
Lemma key_mem_find_e es l : key_mem l (map fst es) = match find_e es l with Some _ => true | None => false end.
Proof.
  induction es as [|[k g] es IH]; [reflexivity|]. cbn [map fst key_mem existsb find_e].
  rewrite (key_eqb_sym l k). destruct (key_eqb k l); [reflexivity|]. apply IH.
Qed.

(* ---------- edges ---------- *)
Lemma edge_upd_in vs l g a b : keeps_key g -> keeps_out g -> edge (upd_v vs l g) a b = edge vs a b.
Proof.
  intros Kg Og. unfold edge. rewrite find_v_upd by assumption.
  destruct (key_eqb a l); [|reflexivity]. destruct (find_v vs a); cbn [option_map]; [now rewrite Og|reflexivity].
Qed.
Lemma edge_upd_out vs k g a b :
  keeps_key g ->
  edge (upd_v vs k g) a b =
  if key_eqb a k then match find_v vs a with None => None | Some v => find_e (vout (g v)) b end else edge vs a b.
Proof.
  intros Kg. unfold edge. rewrite find_v_upd by assumption.
  destruct (key_eqb a k); [|reflexivity]. now destruct (find_v vs a).
Qed.
Lemma has_edge_edge vs k l : has_edge vs k l = Some false -> edge vs k l = None.
Proof.
  unfold has_edge, edge. destruct (find_v vs k) as [v|]; [|discriminate]. unfold out_keys. rewrite key_mem_find_e.
  now destruct (find_e (vout v) l).
Qed.

(* the relation "same keys, same tangles" *)
Definition same_frame (s s' : list vertex) : Prop :=
  map vkey s' = map vkey s /\ forall j, option_map vtng (find_v s' j) = option_map vtng (find_v s j).
Lemma same_frame_refl s : same_frame s s.
Proof. now split. Qed.
Lemma same_frame_trans s1 s2 s3 : same_frame s1 s2 -> same_frame s2 s3 -> same_frame s1 s3.
Proof. intros [E1 T1] [E2 T2]. split; [congruence|]. intros j. now rewrite T2, T1. Qed.
Lemma same_frame_upd vs k g : keeps_key g -> keeps_tng g -> same_frame vs (upd_v vs k g).
Proof.
  intros Kg Tg. split; [now apply keys_upd|]. intros j. rewrite find_v_upd by assumption.
  destruct (key_eqb j k); [|reflexivity]. destruct (find_v vs j); cbn [option_map]; [now rewrite Tg|reflexivity].
Qed.

Definition nz (f : lccob) : option lccob := if is_nil f then None else Some f.

Lemma add_edge_spec vs k l f vs' :
  add_edge vs k l f = Some vs' ->
  same_frame vs vs' /\ is_nil f = false /\
  forall a b, edge vs' a b = if key_eqb a k && key_eqb b l then Some f else edge vs a b.
Proof.
  unfold add_edge. destruct (has_edge vs k l) as [[|]|] eqn:Ehe; try discriminate.
  destruct (is_nil f) eqn:Enil; [discriminate|]. destruct (has_key vs l); [|discriminate]. intros [= <-].
  split; [|split; [reflexivity|]].
  - eapply same_frame_trans; apply same_frame_upd; now intros v.
  - intros a b. rewrite edge_upd_in by (now intros v). rewrite edge_upd_out by (now intros v).
    destruct (key_eqb_spec a k) as [->|Ea]; cbn [andb]; [|reflexivity].
    pose proof (has_edge_edge _ _ _ Ehe) as Enone. unfold edge in *. unfold has_edge in Ehe.
    destruct (find_v vs k) as [v|]; [|discriminate]. cbn [set_out vout]. rewrite find_e_app.
    destruct (key_eqb_spec b l) as [->|Eb].
    + rewrite Enone. now rewrite key_eqb_refl.
    + destruct (find_e (vout v) b); [reflexivity|]. destruct (key_eqb_spec l b); [congruence|reflexivity].
Qed.

Lemma remove_edge_spec vs k l vs' f :
  remove_edge vs k l = Some (vs', f) ->
  same_frame vs vs' /\ edge vs k l = Some f /\
  forall a b, edge vs' a b = if key_eqb a k && key_eqb b l then None else edge vs a b.
Proof.
  unfold remove_edge. destruct (has_edge vs k l) as [[|]|]; try discriminate.
  destruct (edge vs k l) as [g|] eqn:Ee; [|discriminate]. destruct (has_key vs l); [|discriminate]. intros [= <- <-].
  split; [|split; [reflexivity|]].
  - eapply same_frame_trans; apply same_frame_upd; now intros v.
  - intros a b. rewrite edge_upd_out by (now intros v). rewrite find_v_upd by (now intros v).
    destruct (key_eqb_spec a k) as [->|Ea]; cbn [andb].
    + unfold edge. destruct (find_v vs k) as [v|] eqn:Ev.
      * destruct (key_eqb k l); cbn [option_map set_out set_in vout]; rewrite find_e_del;
          now destruct (key_eqb b l).
      * destruct (key_eqb k l); cbn [option_map]; now destruct (key_eqb b l).
    + now rewrite edge_upd_in by (now intros v).
Qed.

(* generic: a fold all of whose steps satisfy a preorder *)
Lemma fold_opt_inv {A S} (R : S -> S -> Prop) (f : S -> A -> option S) :
  (forall s, R s s) -> (forall s1 s2 s3, R s1 s2 -> R s2 s3 -> R s1 s3) ->
  (forall s x s', f s x = Some s' -> R s s') ->
  forall l s s', fold_opt f l s = Some s' -> R s s'.
Proof.
  intros Rr Rt Rf. induction l as [|x l IH]; intros s s' E; cbn [fold_opt] in E.
  - injection E as <-. apply Rr.
  - destruct (f s x) as [s1|] eqn:E1; [|discriminate]. eapply Rt; [eapply Rf; eassumption|now apply IH].
Qed.

(* ---------- remove_vertex ---------- *)
Definition keep_edges_but (k : tkey) (s s' : list vertex) : Prop :=
  same_frame s s' /\ forall a b, b <> k -> edge s' a b = edge s a b.
Lemma keep_edges_but_refl k s : keep_edges_but k s s.
Proof. split; [apply same_frame_refl|reflexivity]. Qed.
Lemma keep_edges_but_trans k s1 s2 s3 : keep_edges_but k s1 s2 -> keep_edges_but k s2 s3 -> keep_edges_but k s1 s3.
Proof.
  intros [F1 E1] [F2 E2]. split; [eapply same_frame_trans; eassumption|]. intros a b Hb. now rewrite E2, E1.
Qed.

Lemma remove_vertex_spec vs k vs' v :
  remove_vertex vs k = Some (vs', v) ->
  find_v vs k = Some v /\
  map vkey vs' = filter (fun j => negb (key_eqb j k)) (map vkey vs) /\
  (forall j, option_map vtng (find_v vs' j) = if key_eqb j k then None else option_map vtng (find_v vs j)) /\
  (forall a b, a <> k -> b <> k -> edge vs' a b = edge vs a b).
Proof.
  unfold remove_vertex. destruct (find_v vs k) as [v0|] eqn:Ev; [|discriminate].
  destruct (fold_opt _ (vin v0) (del_v vs k)) as [vs2|] eqn:E2; [|discriminate].
  destruct (fold_opt _ (out_keys v0) vs2) as [vs3|] eqn:E3; [|discriminate]. intros [= <- <-].
  assert (R2 : keep_edges_but k (del_v vs k) vs2).
  { revert E2. apply (fold_opt_inv (keep_edges_but k)); [apply keep_edges_but_refl|apply keep_edges_but_trans|].
    intros s j s' E. destruct (has_key s j); [|discriminate]. injection E as <-. split.
    - apply same_frame_upd; now intros u.
    - intros a b Hb. rewrite edge_upd_out by (now intros u). destruct (key_eqb a j) eqn:Ea; [|reflexivity].
      unfold edge. destruct (find_v s a) as [u|]; [|reflexivity]. cbn [set_out vout]. rewrite find_e_del.
      destruct (key_eqb_spec b k); [contradiction|reflexivity]. }
  assert (R3 : keep_edges_but k vs2 vs3).
  { revert E3. apply (fold_opt_inv (keep_edges_but k)); [apply keep_edges_but_refl|apply keep_edges_but_trans|].
    intros s j s' E. destruct (has_key s j); [|discriminate]. injection E as <-. split.
    - apply same_frame_upd; now intros u.
    - intros a b Hb. apply edge_upd_in; now intros u. }
  destruct (keep_edges_but_trans _ _ _ _ R2 R3) as [[Ek Et] Ee].
  split; [reflexivity|]. split; [now rewrite Ek, keys_del|]. split.
  - intros j. rewrite Et, find_v_del. now destruct (key_eqb j k).
  - intros a b Ha Hb. rewrite Ee by assumption. unfold edge. rewrite find_v_del.
    destruct (key_eqb_spec a k); [contradiction|reflexivity].
Qed.

(* ---------- one write of the elimination loop ---------- *)
Definition elim_write (s : list vertex) (q : tkey * tkey * lccob) : option (list vertex) :=
  let '(l0, l1, f) := q in
  match has_edge s l0 l1 with
  | None => None
  | Some he =>
      match (if he then option_map fst (remove_edge s l0 l1) else Some s) with
      | None => None
      | Some s1 => if is_nil f then Some s1 else add_edge s1 l0 l1 f
      end
  end.

Lemma elim_write_spec s l0 l1 f s' :
  elim_write s (l0, l1, f) = Some s' ->
  same_frame s s' /\ forall a b, edge s' a b = if key_eqb a l0 && key_eqb b l1 then nz f else edge s a b.
Proof.
  unfold elim_write. destruct (has_edge s l0 l1) as [he|] eqn:Ehe; [|discriminate].
  assert (E1 : forall s1, (if he then option_map fst (remove_edge s l0 l1) else Some s) = Some s1 ->
                same_frame s s1 /\ forall a b, edge s1 a b = if key_eqb a l0 && key_eqb b l1 then None else edge s a b).
  { intros s1 E. destruct he.
    - destruct (remove_edge s l0 l1) as [[s2 g]|] eqn:Er; [|discriminate]. cbn in E. injection E as <-.
      apply remove_edge_spec in Er. destruct Er as (F & _ & Ee). now split.
    - injection E as <-. split; [apply same_frame_refl|]. intros a b.
      destruct (key_eqb_spec a l0) as [->|]; [|reflexivity]. destruct (key_eqb_spec b l1) as [->|]; [|reflexivity].
      cbn [andb]. now apply has_edge_edge. }
  destruct (if he then option_map fst (remove_edge s l0 l1) else Some s) as [s1|]; [|discriminate].
  destruct (E1 s1 eq_refl) as [F1 Ee1]. unfold nz. destruct (is_nil f) eqn:Enil.
  - intros [= <-]. now split.
  - intros Ea. apply add_edge_spec in Ea. destruct Ea as (F2 & _ & Ee2). split; [eapply same_frame_trans; eassumption|].
    intros a b. rewrite Ee2, Ee1. now destruct (key_eqb a l0 && key_eqb b l1).
Qed.

Definition pair_mem (a b : tkey) (ps : list (tkey * tkey)) : bool :=
  existsb (fun p => key_eqb a (fst p) && key_eqb b (snd p)) ps.

Lemma elim_writes_spec (val : tkey -> tkey -> option lccob) keys values :
  Forall2 (fun (p : tkey * tkey) (q : tkey * tkey * lccob) =>
             fst (fst q) = fst p /\ snd (fst q) = snd p /\ val (fst p) (snd p) = Some (snd q)) keys values ->
  forall s s', fold_opt elim_write values s = Some s' ->
  same_frame s s' /\
  forall a b, edge s' a b = if pair_mem a b keys then match val a b with Some f => nz f | None => None end
                            else edge s a b.
Proof.
  induction 1 as [|p q keys values (E1 & E2 & E3) F2 IH]; intros s s' E; cbn [fold_opt] in E.
  - injection E as <-. split; [apply same_frame_refl|reflexivity].
  - destruct q as [[l0 l1] f]. cbn [fst snd] in *. subst l0 l1.
    destruct (elim_write s (fst p, snd p, f)) as [s1|] eqn:Ew; [|discriminate].
    apply elim_write_spec in Ew. destruct Ew as [Fw Eew]. destruct (IH _ _ E) as [Fi Eei].
    split; [eapply same_frame_trans; eassumption|]. intros a b. rewrite Eei, Eew. cbn [pair_mem existsb].
    fold (pair_mem a b keys). destruct (pair_mem a b keys); [now rewrite orb_true_r|]. rewrite orb_false_r.
    destruct (key_eqb_spec a (fst p)) as [->|]; [|reflexivity]. destruct (key_eqb_spec b (snd p)) as [->|]; [|reflexivity].
    cbn [andb]. now rewrite E3.
Qed.

Lemma map_opt_Forall2 {A B} (F : A -> option B) l r :
  map_opt F l = Some r -> Forall2 (fun x y => F x = Some y) l r.
Proof.
  revert r. induction l as [|x l IH]; intros r E; cbn [map_opt] in E.
  - injection E as <-. constructor.
  - destruct (F x) as [y|] eqn:Ex; [|discriminate]. destruct (map_opt F l) as [ys|]; [|discriminate].
    injection E as <-. constructor; [assumption|now apply IH].
Qed.

(* ---------- eliminate ---------- *)
(* the pairs whose entry is rewritten: (predecessors of k1 other than k0) x (successors of k0 other than k1) *)
Definition elim_ins (k0 : tkey) (v1 : vertex) : list tkey := filter (fun l0 => negb (key_eqb l0 k0)) (vin v1).
Definition elim_outs (k1 : tkey) (v0 : vertex) : list tkey := filter (fun l1 => negb (key_eqb l1 k1)) (out_keys v0).

Lemma pair_mem_product a b xs ys :
  pair_mem a b (flat_map (fun x => map (fun y => (x, y)) ys) xs) = key_mem a xs && key_mem b ys.
Proof.
  unfold pair_mem, key_mem.
  assert (Aux : forall x, existsb (fun p : tkey * tkey => key_eqb a (fst p) && key_eqb b (snd p))
                            (map (fun y => (x, y)) ys) = key_eqb a x && existsb (key_eqb b) ys).
  { intros x. induction ys as [|y ys IH]; cbn [map existsb fst snd]; [now rewrite andb_false_r|].
    rewrite IH. now destruct (key_eqb a x), (key_eqb b y). }
  induction xs as [|x xs IH]; cbn [flat_map existsb]; [reflexivity|].
  rewrite existsb_app, IH, Aux. now destruct (key_eqb a x), (existsb (key_eqb a) xs), (existsb (key_eqb b) ys).
Qed.

Theorem eliminate_spec c k0 k1 c' :
  cpx_eliminate c k0 k1 = Some c' ->
  exists a ainv v0 v1,
    edge (c_verts c) k0 k1 = Some a /\ lc_inv a = Some (Some ainv) /\
    find_v (c_verts c) k0 = Some v0 /\ find_v (c_verts c) k1 = Some v1 /\
    (* the constants *)
    c_h c' = c_h c /\ c_t c' = c_t c /\ c_shift c' = c_shift c /\ c_base c' = c_base c /\ c_xs c' = c_xs c /\
    (* the vertices: k0 and k1 are removed, nothing else changes *)
    map vkey (c_verts c') =
      filter (fun j => negb (key_eqb j k1)) (filter (fun j => negb (key_eqb j k0)) (map vkey (c_verts c))) /\
    (forall j, option_map vtng (find_v (c_verts c') j) =
               if key_eqb j k0 || key_eqb j k1 then None else option_map vtng (find_v (c_verts c) j)) /\
    (* the edges between the remaining vertices *)
    (forall l0 l1, l0 <> k0 -> l0 <> k1 -> l1 <> k0 -> l1 <> k1 ->
       edge (c_verts c') l0 l1 =
       if key_mem l0 (elim_ins k0 v1) && key_mem l1 (elim_outs k1 v0)
       then match elim_value (c_h c) (c_t c) (c_verts c) k0 k1 ainv l0 l1 with Some f => nz f | None => None end
       else edge (c_verts c) l0 l1) /\
    (* every rewritten entry has been computed (no panic) *)
    (forall l0 l1, key_mem l0 (elim_ins k0 v1) && key_mem l1 (elim_outs k1 v0) = true ->
       exists f, elim_value (c_h c) (c_t c) (c_verts c) k0 k1 ainv l0 l1 = Some f).
Proof.
  unfold cpx_eliminate. destruct (edge (c_verts c) k0 k1) as [a|] eqn:Ea; [|discriminate].
  destruct (lc_inv a) as [[ainv|]|] eqn:Einv; try discriminate.
  destruct (find_v (c_verts c) k1) as [v1|] eqn:Ev1; [|discriminate].
  destruct (find_v (c_verts c) k0) as [v0|] eqn:Ev0; [|discriminate].
  set (keys := flat_map _ _).
  destruct (map_opt _ keys) as [values|] eqn:Evals; [|discriminate].
  match goal with |- context [@fold_opt ?A ?S ?f values ?s0] =>
    destruct (@fold_opt A S f values s0) as [vs1|] eqn:Efold; [|discriminate] end.
  change (fold_opt elim_write values (c_verts c) = Some vs1) in Efold.
  destruct (remove_vertex vs1 k0) as [[vs2 u0]|] eqn:Er0; [|discriminate].
  destruct (remove_vertex vs2 k1) as [[vs3 u1]|] eqn:Er1; [|discriminate]. intros [= <-].
  exists a, ainv, v0, v1. split; [reflexivity|]. split; [exact Einv|]. repeat (split; [reflexivity|]).
  cbn [c_verts set_verts].
  apply map_opt_Forall2 in Evals.
  assert (F2 : Forall2 (fun (p : tkey * tkey) (q : tkey * tkey * lccob) =>
             fst (fst q) = fst p /\ snd (fst q) = snd p /\
             elim_value (c_h c) (c_t c) (c_verts c) k0 k1 ainv (fst p) (snd p) = Some (snd q)) keys values).
  { clear -Evals. induction Evals as [|p q ks vs E F IH]; constructor; [|assumption].
    destruct (elim_value _ _ _ _ _ _ (fst p) (snd p)) as [f|]; [|discriminate]. cbn in E. injection E as <-. now repeat split. }
  destruct (elim_writes_spec (elim_value (c_h c) (c_t c) (c_verts c) k0 k1 ainv) keys values F2 _ _ Efold) as [[Fk Ft] Fe].
  apply remove_vertex_spec in Er0. destruct Er0 as (_ & Rk0 & Rt0 & Re0).
  apply remove_vertex_spec in Er1. destruct Er1 as (_ & Rk1 & Rt1 & Re1).
  split; [now rewrite Rk1, Rk0, Fk|]. split; [|split].
  - intros j. rewrite Rt1, Rt0, Ft. destruct (key_eqb j k0), (key_eqb j k1); reflexivity.
  - intros l0 l1 N00 N01 N10 N11. rewrite Re1, Re0, Fe by assumption. unfold keys. now rewrite pair_mem_product.
  - intros l0 l1 Hm. rewrite <- pair_mem_product in Hm. change (pair_mem l0 l1 keys = true) in Hm.
    clear -F2 Hm. clearbody keys. induction F2 as [|p q ks vs (E1 & E2 & E3) F IH]; cbn [pair_mem existsb] in Hm; [discriminate|].
    apply orb_true_iff in Hm. destruct Hm as [Hm|Hm]; [|now apply IH].
    apply andb_true_iff in Hm. destruct Hm as [Hm1 Hm2]. apply key_eqb_eq in Hm1, Hm2. subst. eauto.
Qed.

(* ---------- validate ---------- *)
Lemma all_opt_fold l acc :
  fold_left (fun acc x => match acc, x with Some a, Some b => Some (a && b) | _, _ => None end) l acc = Some true ->
  acc = Some true /\ forall x : option bool, In x l -> x = Some true.
Proof.
  revert acc. induction l as [|y l IH]; intros acc E; cbn [fold_left] in E.
  - split; [assumption|]. intros x [].
  - apply IH in E. destruct E as [E1 E2]. destruct acc as [[|]|], y as [[|]|]; try discriminate.
    split; [reflexivity|]. intros x [<-|Hx]; [reflexivity|now apply E2].
Qed.
Lemma all_opt_true l : all_opt l = Some true -> forall x, In x l -> x = Some true.
Proof. intros E. exact (proj2 (all_opt_fold l (Some true) E)). Qed.

Lemma find_v_some vs k v : find_v vs k = Some v -> In v vs /\ vkey v = k.
Proof.
  induction vs as [|u vs IH]; cbn [find_v]; [discriminate|].
  destruct (key_eqb_spec (vkey u) k) as [E|E].
  - intros [= <-]. split; [now left|assumption].
  - intros Ev. destruct (IH Ev). split; [now right|assumption].
Qed.
Lemma find_e_some es l f : find_e es l = Some f -> In (l, f) es.
Proof.
  induction es as [|[k g] es IH]; cbn [find_e]; [discriminate|].
  destruct (key_eqb_spec k l) as [->|E]; [intros [= <-]; now left|]. intros Ef. right. now apply IH.
Qed.

(* what TngComplex::validate checks: in_edges records every edge, no edge is the zero combination, and every term of
   an edge k -> l is a cobordism from the tangle of k to the tangle of l (up to the unoriented equality of tangles) *)
Definition term_typed (s t : tng) (x : cob) : Prop :=
  exists s' t', cob_src x = Some s' /\ cob_tgt x = Some t' /\ tng_eqb s' s = true /\ tng_eqb t' t = true.

Theorem validate_sound c :
  cpx_validate c = Some true ->
  forall k l f, edge (c_verts c) k l = Some f ->
    exists vk vl, find_v (c_verts c) k = Some vk /\ find_v (c_verts c) l = Some vl /\
      In k (vin vl) /\ f <> [] /\ forall p, In p f -> term_typed (vtng vk) (vtng vl) (fst p).
Proof.
  unfold cpx_validate. intros Ev k l f Ee. unfold edge in Ee.
  destruct (find_v (c_verts c) k) as [u|] eqn:Eu; [|discriminate].
  destruct (find_v_some _ _ _ Eu) as [Hu Hk]. apply find_e_some in Ee.
  pose proof (all_opt_true _ Ev) as A1.
  specialize (A1 _ (in_map _ _ _ Hu)). cbv beta in A1.
  pose proof (all_opt_true _ A1) as A2. clear A1.
  (* the out-edge check *)
  assert (B2 : match find_v (c_verts c) l with None => Some false | Some w => Some (key_mem (vkey u) (vin w)) end = Some true).
  { apply A2. apply in_or_app. right. apply in_or_app. left.
    apply (in_map (fun l0 => match find_v (c_verts c) l0 with None => Some false | Some w => Some (key_mem (vkey u) (vin w)) end)).
    unfold out_keys. apply (in_map fst) in Ee. exact Ee. }
  destruct (find_v (c_verts c) l) as [w|] eqn:Ew; [|discriminate]. injection B2 as B2. apply key_mem_In in B2.
  (* the cobordism check *)
  assert (B3 : (fun e : tkey * lccob => match find_v (c_verts c) (fst e) with
                    | None => None
                    | Some w0 =>
                        if is_nil (snd e) then Some false
                        else all_opt (map (fun p : cob * Z => match cob_src (fst p), cob_tgt (fst p) with
                                                    | Some s, Some t => Some (tng_eqb s (vtng u) && tng_eqb t (vtng w0))
                                                    | _, _ => None
                                                    end) (snd e))
                    end) (l, f) = Some true).
  { apply A2. apply in_or_app. right. apply in_or_app. right. apply in_map_iff. exists (l, f). split; [reflexivity|exact Ee]. }
  cbn [fst snd] in B3. rewrite Ew in B3. destruct f as [|p0 f0]; [discriminate|]. cbn [is_nil] in B3.
  exists u, w. subst k. repeat split; try assumption; [discriminate|].
  intros p Hp. pose proof (all_opt_true _ B3 _ (in_map _ _ _ Hp)) as B4. cbv beta in B4.
  destruct (cob_src (fst p)) as [s'|] eqn:Es; [|discriminate]. destruct (cob_tgt (fst p)) as [t'|] eqn:Et; [|discriminate].
  injection B4 as B4. apply andb_true_iff in B4. destruct B4. exists s', t'. now repeat split.
Qed.

(* ---------- small facts ---------- *)
(* keys stay distinct under eliminate *)
Lemma eliminate_nodup c k0 k1 c' :
  cpx_eliminate c k0 k1 = Some c' -> NoDup (map vkey (c_verts c)) -> NoDup (map vkey (c_verts c')).
Proof.
  intros E Hn. apply eliminate_spec in E.
  destruct E as (a & ainv & v0 & v1 & _ & _ & _ & _ & _ & _ & _ & _ & _ & Hk & _). rewrite Hk.
  now apply NoDup_filter, NoDup_filter.
Qed.

(* connect_edges computes the sign of D(1, f) from weight(k0) - left.deg_shift.0 while the homological degree of k0
   is weight(k0) + left.deg_shift.0: the same parity, so the sign is (-1)^deg(k0) as the comment in the code says *)
Lemma connect_sign_is_degree (left : cpx) (k0 : tkey) :
  sign_of_parity (Z.of_nat (key_weight k0) - fst (c_shift left)) = sign_of_parity (key_deg left k0).
Proof.
  unfold sign_of_parity, key_deg. replace (Z.even (Z.of_nat (key_weight k0) - fst (c_shift left)))
    with (Z.even (Z.of_nat (key_weight k0) + fst (c_shift left))); [reflexivity|].
  rewrite Z.even_add, Z.even_sub. reflexivity.
Qed.
