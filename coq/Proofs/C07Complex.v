(* C07, part 3: the public route ChainComplexBase::homology_at (Model/HomologyCalc.v: [homology_at]) reduces to
   [calculate] on the two differential matrices picked by [d_matrix] (zero-column / zero-row matrices for
   missing neighbours), and the summand it returns carries the same rank, torsion and coordinate maps. *)
From Coq Require Import ZArith Arith List Lia Bool.
Require Import Yui.Base.Ring Yui.Base.MatF Yui.Base.MatL Yui.Model.HomologyCalc.
Require Import Yui.Proofs.C07Algebra Yui.Proofs.C07Calc.
Import ListNotations.

Section C07Complex.
  Context {R : Type} (o : ring_ops R).
  Variable isu : R -> bool.
  Variable snf : dmat R -> bool -> bool -> bool -> bool -> option (snf_result R).

  Lemma d_matrix_wf C i d : d_matrix o C i = Some d -> mwf d.
  Proof.
    unfold d_matrix. destruct (c_rank C i =? 0).
    - intros H. injection H as <-. apply mwf_dmk.
    - destruct (nr (c_dmat C i) =? c_rank C (i + c_ddeg C)); [|discriminate].
      intros H. injection H as <-. apply mwf_dmk.
  Qed.

  Lemma d_matrix_shape C i d :
    d_matrix o C i = Some d -> nr d = c_rank C (i + c_ddeg C) /\ nc d = c_rank C i.
  Proof.
    unfold d_matrix. destruct (c_rank C i =? 0) eqn:E.
    - intros H. injection H as <-. apply Nat.eqb_eq in E. split; [reflexivity|]. cbn [nc d_zero dmk]. now rewrite E.
    - destruct (nr (c_dmat C i) =? c_rank C (i + c_ddeg C)); [|discriminate].
      intros H. injection H as <-. split; reflexivity.
  Qed.

  (* the entries are those of the given matrix *)
  Lemma d_matrix_entries C i d :
    d_matrix o C i = Some d ->
    forall a b, (a < nr d)%nat -> (b < nc d)%nat -> mget o d a b = mget o (c_dmat C i) a b.
  Proof.
    unfold d_matrix. destruct (c_rank C i =? 0) eqn:E.
    - intros H. injection H as <-. cbn [nc d_zero dmk]. intros a b _ Hb. lia.
    - destruct (nr (c_dmat C i) =? c_rank C (i + c_ddeg C)); [|discriminate].
      intros H. injection H as <-. cbn [nr nc dmk]. intros a b Ha Hb. now apply mget_dmk.
  Qed.

  Lemma forward_mat_eq (t u : trans R) :
    f_mats t = f_mats u -> tgt_dim t = tgt_dim u -> forward_mat o t = forward_mat o u.
  Proof. intros H1 H2. unfold forward_mat. now rewrite H1, H2. Qed.
  Lemma backward_mat_eq (t u : trans R) :
    b_mats t = b_mats u -> tgt_dim t = tgt_dim u -> backward_mat o t = backward_mat o u.
  Proof. intros H1 H2. unfold backward_mat. now rewrite H1, H2. Qed.

  Theorem homology_at_calc C i h :
    homology_at o isu snf C i = Some h ->
    exists d0 d1 t,
      d_matrix o C (i - c_ddeg C)%Z = Some d0 /\ d_matrix o C i = Some d1 /\
      mwf d0 /\ mwf d1 /\ nr d0 = c_rank C i /\ nc d1 = c_rank C i /\
      calculate o isu snf d0 d1 true = Some (s_rank h, s_tors h, Some t) /\
      s_ngens h = c_rank C i /\ src_dim (s_trans h) = c_rank C i /\
      tgt_dim (s_trans h) = (s_rank h + length (s_tors h))%nat /\
      forward_mat o (s_trans h) = forward_mat o t /\ backward_mat o (s_trans h) = backward_mat o t.
  Proof.
    unfold homology_at. intros H.
    inv_bind H. rename d into d0. inv_bind H. rename d into d1. inv_bind H.
    destruct p as [[rank tors] tr].
    inv_bind H. rename s into h0. inv_bind H. rename t into tm.
    exists d0, d1.
    destruct (d_matrix_shape _ _ _ E) as [S0 _]. destruct (d_matrix_shape _ _ _ E0) as [_ S1].
    replace (i - c_ddeg C + c_ddeg C)%Z with i in S0 by lia.
    (* with_trans = true always yields a Trans *)
    assert (Htr : exists t, tr = Some t).
    { unfold calculate in E1. destruct (negb (nr d0 =? nc d1)); [discriminate|].
      destruct (d_is_zero o d0 && d_is_zero o d1).
      - injection E1 as _ _ <-. eexists; reflexivity.
      - inv_bind E1. inv_bind E1. inv_bind E1. injection E1 as _ _ <-. eexists; reflexivity. }
    destruct Htr as [t ->]. exists t.
    unfold summand_generate, summand_new in E2.
    destruct ((src_dim t =? src_dim t) && (tgt_dim t =? rank + length tors)) eqn:G; [|discriminate].
    injection E2 as <-. cbn [s_trans s_rank s_tors] in *.
    apply andb_true_iff in G. destruct G as [_ G]. apply Nat.eqb_eq in G.
    unfold trans_merged in E3. cbn [tgt_dim trans_id src_dim f_mats b_mats app] in E3.
    destruct (c_rank C i =? src_dim t) eqn:G2; [|discriminate]. injection E3 as <-.
    unfold summand_new in H. cbn [src_dim tgt_dim] in H.
    destruct ((c_rank C i =? c_rank C i) && (tgt_dim t =? rank + length tors)); [|discriminate].
    injection H as <-. cbn [s_rank s_tors s_trans s_ngens src_dim tgt_dim].
    split; [reflexivity|]. split; [reflexivity|].
    split; [exact (d_matrix_wf _ _ _ E)|]. split; [exact (d_matrix_wf _ _ _ E0)|].
    split; [exact S0|]. split; [exact S1|]. split; [exact E1|].
    split; [reflexivity|]. split; [reflexivity|]. split; [exact G|].
    split; [apply forward_mat_eq; reflexivity|apply backward_mat_eq; reflexivity].
  Qed.
End C07Complex.
