(* C15, machine integers: the width-checked mirrors w_* of Model/Euclid.v
   (1) coincide with the unbounded operations when no width is given (BigInt), and
   (2) never wrap silently: a [Some] result at a finite width is the unbounded result, and it fits. *)
From Coq Require Import ZArith Lia Bool.
Require Import Yui.Base.Ring Yui.Model.Euclid Yui.Proofs.C15Gcd Yui.Proofs.C15Int.
Local Open Scope Z_scope.

Lemma chk_none x : chk None x = Some x.
Proof. reflexivity. Qed.
Lemma chk_some w x y : chk w x = Some y -> y = x.
Proof. destruct w as [k|]; cbn; [destruct (fits k x)|]; congruence. Qed.
Lemma chk_fits k x y : chk (Some k) x = Some y -> - 2 ^ (k - 1) <= y < 2 ^ (k - 1).
Proof.
  cbn. destruct (fits k x) eqn:E; [|discriminate]. intros [= <-].
  unfold fits in E. apply andb_true_iff in E. lia.
Qed.

(* destruct every width check in hypothesis H (a failed check ends the case) *)
Ltac chk_cases H :=
  repeat match type of H with
  | context [chk (Some ?k) ?x] =>
      let E := fresh "E" in let y := fresh "y" in
      destruct (chk (Some k) x) as [y|] eqn:E; cbn [obind] in H; [apply chk_some in E; subst y|discriminate H]
  end.

(* ---------- (1) no width = the unbounded model ---------- *)
Lemma w_div_none a b : w_div None a b = int_div a b.
Proof. reflexivity. Qed.
Lemma w_rem_none a b : w_rem None a b = int_rem a b.
Proof. unfold w_rem, int_rem. destruct (b =? 0); reflexivity. Qed.
Lemma w_div_round_none a q : w_div_round None a q = int_div_round a q.
Proof.
  unfold w_div_round, int_div_round. rewrite w_div_none, w_rem_none.
  destruct (int_div a q) as [d|]; [|reflexivity]. destruct (int_rem a q) as [r|]; [|reflexivity]. cbn [obind chk].
  destruct (r =? 0); [reflexivity|]. destruct (0 <? r); destruct (0 <? q); cbn [obind]; reflexivity.
Qed.
Lemma w_is_unit_none a : w_is_unit None a = Some (int_is_unit a).
Proof. unfold w_is_unit, int_is_unit. cbn [chk obind]. destruct (a =? 1); reflexivity. Qed.
Lemma w_inv_none a : w_inv None a = Some (int_inv a).
Proof. unfold w_inv. rewrite w_is_unit_none. reflexivity. Qed.
Lemma w_normalized_none a : w_normalized None a = Some (normalized int_dict a).
Proof. unfold w_normalized, normalized, is_one. cbn. destruct (int_nunit a =? 1); reflexivity. Qed.
Lemma w_divides_none x y : w_divides None x y = divides int_dict x y.
Proof. unfold w_divides, divides, is_zero. rewrite w_rem_none. cbn. reflexivity. Qed.
Lemma w_gcd_none a b : w_gcd None a b = Some (int_gcd a b).
Proof. reflexivity. Qed.
Lemma w_lcm_none a b : w_lcm None a b = Some (int_lcm a b).
Proof.
  unfold w_lcm, int_lcm, Z.lcm. cbn [chk obind].
  destruct (Z.eqb_spec a 0) as [->|Ha]; cbn [andb].
  - destruct (b =? 0); reflexivity.
  - destruct (Z.gcd_divide_r a b) as [c Hc].
    assert (Hg : Z.gcd a b <> 0). { intros E. apply Z.gcd_eq_0 in E. lia. }
    rewrite Hc at 1 3. rewrite Z.quot_mul, Z.div_mul by assumption. reflexivity.
Qed.
Lemma w_egcd_loop_none : forall fuel r0 r1 s0 s1 t0 t1,
  w_egcd_loop None fuel r0 r1 s0 s1 t0 t1 = egcd_loop fuel r0 r1 s0 s1 t0 t1.
Proof.
  induction fuel as [|f IH]; intros; cbn [w_egcd_loop egcd_loop chk obind]; [reflexivity|].
  destruct (r0 =? 0); [reflexivity|]. apply IH.
Qed.
Lemma w_gcdx_none a b : w_gcdx None a b = int_gcdx a b.
Proof.
  unfold w_gcdx, int_gcdx. rewrite w_egcd_loop_none.
  destruct (egcd_loop _ _ _ _ _ _ _) as [[[d s] t]|]; [|reflexivity]. cbn [obind chk].
  destruct (0 <=? d); reflexivity.
Qed.

(* ---------- (2) a result at a finite width is the unbounded result ---------- *)
Lemma w_div_sound k a b v : w_div (Some k) a b = Some v -> int_div a b = Some v.
Proof. unfold w_div, int_div. destruct (b =? 0); [discriminate|]. intros H. apply chk_some in H. now subst. Qed.
Lemma w_rem_sound k a b v : w_rem (Some k) a b = Some v -> int_rem a b = Some v.
Proof. unfold w_rem, int_rem. destruct (b =? 0); [discriminate|]. intros H. chk_cases H. exact H. Qed.
Lemma w_div_round_sound k a q v : w_div_round (Some k) a q = Some v -> int_div_round a q = Some v.
Proof.
  unfold w_div_round, int_div_round. intros H.
  destruct (w_div (Some k) a q) as [d|] eqn:Ed; [|discriminate]. apply w_div_sound in Ed. rewrite Ed.
  destruct (w_rem (Some k) a q) as [r|] eqn:Er; [|discriminate]. apply w_rem_sound in Er. rewrite Er.
  cbn [obind] in *. destruct (r =? 0); [exact H|].
  destruct (0 <? r); destruct (0 <? q); cbn [obind] in H; chk_cases H;
    (destruct (negb _); [exact H|]); (destruct (Bool.eqb _ _); apply chk_some in H; now subst).
Qed.
Lemma w_is_unit_sound k a v : w_is_unit (Some k) a = Some v -> v = int_is_unit a.
Proof.
  unfold w_is_unit, int_is_unit. destruct (a =? 1); [intros [= <-]; reflexivity|]. intros H. chk_cases H.
  injection H as <-. reflexivity.
Qed.
Lemma w_normalized_sound k a v : w_normalized (Some k) a = Some v -> v = normalized int_dict a.
Proof.
  intros H. pose proof (w_normalized_none a) as N. unfold w_normalized in *.
  destruct (int_nunit a =? 1); [congruence|]. apply chk_some in H. cbn [chk] in N. congruence.
Qed.
Lemma w_divides_sound k x y v : w_divides (Some k) x y = Some v -> divides int_dict x y = Some v.
Proof.
  rewrite <- w_divides_none. unfold w_divides. destruct (x =? 0); [auto|]. intros H.
  destruct (w_rem (Some k) y x) as [r|] eqn:Er; [|discriminate]. apply w_rem_sound in Er.
  rewrite w_rem_none, Er. exact H.
Qed.
Lemma w_gcd_sound k a b v : w_gcd (Some k) a b = Some v -> v = int_gcd a b.
Proof. apply chk_some. Qed.
Lemma w_lcm_sound k a b v : w_lcm (Some k) a b = Some v -> v = int_lcm a b.
Proof.
  intros H. pose proof (w_lcm_none a b) as N. unfold w_lcm in *.
  destruct ((a =? 0) && (b =? 0)); [congruence|]. chk_cases H. cbn [chk obind] in N. congruence.
Qed.
Lemma w_egcd_loop_sound k : forall fuel r0 r1 s0 s1 t0 t1 v,
  w_egcd_loop (Some k) fuel r0 r1 s0 s1 t0 t1 = Some v -> egcd_loop fuel r0 r1 s0 s1 t0 t1 = Some v.
Proof.
  induction fuel as [|f IH]; intros r0 r1 s0 s1 t0 t1 v H; cbn [w_egcd_loop egcd_loop] in *; [discriminate|].
  destruct (r0 =? 0); [exact H|]. chk_cases H. apply IH. exact H.
Qed.
Lemma w_gcdx_sound k a b v : w_gcdx (Some k) a b = Some v -> int_gcdx a b = Some v.
Proof.
  unfold w_gcdx, int_gcdx. intros H.
  destruct (w_egcd_loop (Some k) _ _ _ _ _ _ _) as [[[d s] t]|] eqn:E; [|discriminate].
  apply w_egcd_loop_sound in E. rewrite E. cbn [obind] in *.
  destruct (0 <=? d); [exact H|]. chk_cases H. exact H.
Qed.
