(* C04 - jones_model is invariant under relabelling of the edges by a map that is injective on the labels
   of the code (for every code, valid or not; as options). *)
From Coq Require Import List Arith Bool ZArith Lia.
Require Import Yui.Model.Link Yui.Model.Jones.
Require Import Yui.Proofs.C18Base Yui.Proofs.C18Signs Yui.Proofs.C18Resolve.
Import ListNotations.

Lemma resolve_c_relabel : forall rho c r,
  resolve_c (relabel_c rho c) r = option_map (relabel_c rho) (resolve_c c r).
Proof. intros rho [[] ? ? ? ?] []; reflexivity. Qed.

Lemma resolve_at_relabel : forall rho l i r,
  resolve_at (relabel rho l) i r = option_map (relabel rho) (resolve_at l i r).
Proof.
  intros rho. induction l as [|c l IH]; intros i r; [reflexivity|].
  cbn [relabel map resolve_at]. fold (relabel rho l). rewrite is_resolved_relabel.
  destruct (is_resolved c).
  - rewrite IH. destruct (resolve_at l i r); reflexivity.
  - destruct i as [|i].
    + rewrite resolve_c_relabel. destruct (resolve_c c r); reflexivity.
    + rewrite IH. destruct (resolve_at l i r); reflexivity.
Qed.

Theorem resolved_by_relabel : forall rho s l,
  resolved_by (relabel rho l) s = option_map (relabel rho) (resolved_by l s).
Proof.
  intros rho. induction s as [|r s IH]; intros l; [reflexivity|].
  cbn [resolved_by]. rewrite resolve_at_relabel.
  destruct (resolve_at l 0 r) as [l1|]; [|reflexivity]. cbn [option_map]. apply IH.
Qed.

Lemma resolved_by_labels : forall s l l', resolved_by l s = Some l' -> edge_labels l' = edge_labels l.
Proof.
  intros s l l' H. destruct (resolved_by_spec s l) as [A B].
  destruct (le_lt_dec (length s) (crossing_num l)) as [L|L].
  - destruct (A L) as (l1 & E & EL & _). rewrite E in H. inversion H; subst. exact EL.
  - rewrite (B L) in H. discriminate.
Qed.

Theorem circles_relabel : forall rho l s, inj_on rho (edge_labels l) ->
  circles (relabel rho l) s = circles l s.
Proof.
  intros rho l s Hinj. unfold circles. rewrite resolved_by_relabel.
  destruct (resolved_by l s) as [l'|] eqn:R; [|reflexivity]. cbn [option_map].
  rewrite components_relabel by (rewrite (resolved_by_labels _ _ _ R); exact Hinj).
  destruct (components l') as [cs|]; [|reflexivity]. cbn [option_map]. rewrite map_length. reflexivity.
Qed.

Lemma jones_body_relabel : forall rho l, inj_on rho (edge_labels l) ->
  forall states, jones_body (relabel rho l) states = jones_body l states.
Proof.
  intros rho l Hinj. induction states as [|s rest IH]; [reflexivity|].
  cbn [jones_body]. rewrite circles_relabel, IH; auto.
Qed.

Theorem jones_relabel : forall rho l, inj_on rho (edge_labels l) ->
  jones_model (relabel rho l) = jones_model l.
Proof.
  intros rho l Hinj. unfold jones_model.
  destruct (writhe_relabel rho l Hinj) as [-> _]. rewrite crossing_num_relabel, jones_body_relabel; auto.
Qed.
