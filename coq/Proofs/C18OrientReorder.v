(* C18 - consequences of the orientation theorem (C18Orient.v):
   * the returned signs are those of an orientation o' that agrees with the given one on every component
     that passes under somewhere;
   * when every component passes under somewhere, the signs are those of the given orientation itself
     (the orientation compatible with the under-strand directions is then unique);
   * in that case a reordering of the crossings permutes the sign list accordingly, so the signed
     crossing numbers and the writhe do not change.
   For a component that never passes under the direction chosen by the code depends on the crossing order;
   without planarity (not modelled) the writhe of such a code can change under reordering:
   see [reorder_witness] at the end. *)
From Coq Require Import List Arith Bool Lia ZArith Permutation FinFun Relations.
Require Import Yui.Model.Link Yui.Proofs.C18Base Yui.Proofs.C18Traverse Yui.Proofs.C18Components
  Yui.Proofs.C18Signs Yui.Proofs.C18Main Yui.Proofs.C18Orient.
Import ListNotations.

(* every component passes under at some crossing *)
Definition NoOnlyOver (l : link) : Prop :=
  forall e, In e (edge_labels l) -> exists i, i < length l /\ conn l e (edge_at l (i, 0)).

Lemma conn_inv : forall l (rev : nat -> bool), (forall e e', thru l e e' -> rev e = rev e') ->
  forall e e', conn l e e' -> rev e = rev e'.
Proof. intros l rev H e e' C. induction C; auto. congruence. Qed.

Theorem signs_orientation_agree : forall l o, Valid l -> Unresolved l -> Oriented l o ->
  exists o', Oriented l o' /\
    (forall p, InR l p -> (exists i, i < length l /\ conn l (edge_at l p) (edge_at l (i, 0))) -> o' p = o p) /\
    crossing_signs l = Some (signs_of l o').
Proof.
  intros l o Hv Hu Ho. destruct (signs_orientation l Hv Hu o Ho) as (rev & Ht & Hun & E).
  exists (oxr l o rev). split; [apply oxr_Oriented; auto|]. split; auto.
  intros p Hp (i & Hi & C). unfold oxr. rewrite (conn_inv l rev Ht _ _ C), (Hun i Hi).
  destruct (o p); reflexivity.
Qed.

Theorem signs_orientation_unique : forall l o, Valid l -> Unresolved l -> Oriented l o -> NoOnlyOver l ->
  crossing_signs l = Some (signs_of l o).
Proof.
  intros l o Hv Hu Ho Hno. destruct (signs_orientation_agree l o Hv Hu Ho) as (o' & _ & Hag & E).
  rewrite E. f_equal. unfold signs_of. apply map_ext_in. intros i Hi. apply in_seq in Hi.
  unfold sgn_at. rewrite (Hag (i, 1)); auto.
  - split; cbn; lia.
  - apply Hno. apply edge_at_in_labels. split; cbn; lia.
Qed.

(* ---------------------------------------------------------------------------------------------- *)
Lemma count_label_perm : forall e a b, Permutation a b -> count_label e a = count_label e b.
Proof.
  intros e a b H. unfold count_label. induction H; cbn; auto.
  - destruct (e =? x); cbn; auto.
  - destruct (e =? x); destruct (e =? y); cbn; auto.
  - congruence.
Qed.
Lemma count_pos_perm : forall a b, Permutation a b -> count_pos a = count_pos b /\ count_neg a = count_neg b.
Proof.
  unfold count_pos, count_neg. intros a b H. induction H; cbn; auto.
  - destruct IHPermutation. destruct x; cbn; auto.
  - destruct x; destruct y; cbn; auto.
  - destruct IHPermutation1, IHPermutation2. split; congruence.
Qed.

Lemma Valid_perm : forall l l', Permutation l l' -> Valid l -> Valid l'.
Proof.
  intros l l' H Hv e He.
  assert (HP : Permutation (edge_labels l) (edge_labels l')) by (apply Permutation_flat_map; auto).
  rewrite <- (count_label_perm e _ _ HP). apply Hv. eapply Permutation_in; [apply Permutation_sym; exact HP|exact He].
Qed.

Section Reorder.
  Variables l l' : link.
  Variable g : nat -> nat.
  Hypothesis Hlen : length l' = length l.
  Hypothesis Hg : bFun (length l) g.
  Hypothesis Hinj : bInjective (length l) g.
  Hypothesis Hnth : forall x, x < length l -> cross_at l' x = cross_at l (g x).
  Hypothesis Hv : Valid l.
  Hypothesis Hv' : Valid l'.

  Definition phi (p : pos) : pos := (g (fst p), snd p).

  Lemma Hsurj : bSurjective (length l) g.
  Proof. apply bInjective_bSurjective; auto. Qed.

  Lemma phi_InR : forall p, InR l' p -> InR l (phi p).
  Proof. intros [i j] [A B]. cbn in *. split; cbn; auto. apply Hg. lia. Qed.
  Lemma phi_edge : forall p, InR l' p -> edge_at l' p = edge_at l (phi p).
  Proof. intros [i j] [A B]. unfold edge_at, phi. cbn in *. rewrite Hnth by lia. reflexivity. Qed.
  Lemma phi_inj : forall p q, InR l' p -> InR l' q -> phi p = phi q -> p = q.
  Proof.
    intros [i j] [i' j'] [A _] [A' _] E. cbn in *. unfold phi in E. cbn in E. inversion E; subst.
    f_equal. apply Hinj; auto; lia.
  Qed.
  Lemma phi_surj : forall r, InR l r -> exists p, InR l' p /\ phi p = r.
  Proof.
    intros [i j] [A B]. cbn in *. destruct (Hsurj i A) as (x & Hx & <-).
    exists (x, j). split; [split; cbn; auto; lia|reflexivity].
  Qed.
  Lemma phi_exit : forall p, InR l' p -> phi (exit_of l' p) = exit_of l (phi p).
  Proof. intros [i j] [A B]. unfold exit_of, phi. cbn in *. rewrite Hnth by lia. reflexivity. Qed.
  Lemma phi_tau : forall p, InR l' p -> phi (tau l' p) = tau l (phi p).
  Proof.
    intros p Hp. pose proof (tau_InR l' Hv' p Hp) as Ht.
    destruct (same_label_cases l Hv (phi p) (phi (tau l' p)) (phi_InR p Hp) (phi_InR _ Ht)) as [E|E]; auto.
    - rewrite <- !phi_edge by auto. apply (tau_label l' Hv'); auto.
    - exfalso. apply phi_inj in E; auto. apply (tau_neq l' Hv' p Hp); auto.
  Qed.

  Lemma thru_reorder : forall e e', thru l' e e' <-> thru l e e'.
  Proof.
    intros e e'. split.
    - intros (r & Hr & E1 & E2). exists (phi r). split; [apply phi_InR; auto|].
      rewrite <- phi_exit, <- !phi_edge by (auto; apply exit_InR; auto). auto.
    - intros (r & Hr & E1 & E2). destruct (phi_surj r Hr) as (r' & Hr' & <-). exists r'. split; auto.
      rewrite <- phi_exit, <- !phi_edge in * by (auto; apply exit_InR; auto). auto.
  Qed.
  Lemma conn_reorder : forall e e', conn l' e e' <-> conn l e e'.
  Proof.
    intros e e'. split; intros C; induction C;
      try (apply rt_step; apply thru_reorder; auto; fail); try apply rt_refl; eapply rt_trans; eauto.
  Qed.
  Lemma labels_reorder : forall e, In e (edge_labels l') <-> In e (edge_labels l).
  Proof.
    intros e. split; intros He; apply in_labels_edge_at in He; destruct He as [r [Hr <-]].
    - rewrite phi_edge by auto. apply edge_at_in_labels, phi_InR; auto.
    - destruct (phi_surj r Hr) as (r' & Hr' & <-). rewrite <- phi_edge by auto. apply edge_at_in_labels; auto.
  Qed.

  Variable o : pos -> bool.
  Hypothesis Ho : Oriented l o.

  Lemma Oriented_reorder : Oriented l' (fun p => o (phi p)).
  Proof.
    destruct Ho as (H1 & H2 & H3). split; [|split].
    - intros p Hp. rewrite phi_exit by auto. apply H1, phi_InR; auto.
    - intros p Hp. rewrite phi_tau by auto. apply H2, phi_InR; auto.
    - intros i Hi. unfold phi. cbn. apply H3. apply Hg. lia.
  Qed.
  Lemma Unresolved_reorder : Unresolved l -> Unresolved l'.
  Proof. intros Hu i Hi. rewrite Hnth by lia. apply Hu. apply Hg. lia. Qed.
  Lemma NoOnlyOver_reorder : NoOnlyOver l -> NoOnlyOver l'.
  Proof.
    intros Hno e He. apply labels_reorder in He. destruct (Hno e He) as (i & Hi & C).
    destruct (Hsurj i Hi) as (x & Hx & <-). exists x. split; [lia|].
    apply conn_reorder. rewrite (phi_edge (x, 0)) by (split; cbn; lia). exact C.
  Qed.
  Lemma sgn_at_reorder : forall i, i < length l -> sgn_at l' (fun p => o (phi p)) i = sgn_at l o (g i).
  Proof. intros i Hi. unfold sgn_at, phi. cbn [fst snd]. rewrite Hnth by lia. reflexivity. Qed.

  Lemma signs_reorder_perm : Permutation (signs_of l o) (signs_of l' (fun p => o (phi p))).
  Proof.
    unfold signs_of. rewrite Hlen.
    rewrite (map_ext_in (sgn_at l' (fun p => o (phi p))) (fun i => sgn_at l o (g i)))
      by (intros i Hi; apply in_seq in Hi; apply sgn_at_reorder; lia).
    rewrite <- (map_map g (sgn_at l o)). apply Permutation_map. apply Permutation_sym.
    apply NoDup_Permutation_bis.
    - apply NoDup_map_local; [|apply seq_NoDup]. intros a b Ha Hb. apply in_seq in Ha, Hb. apply Hinj; lia.
    - rewrite map_length. lia.
    - intros x Hx. apply in_map_iff in Hx. destruct Hx as [a [<- Ha]]. apply in_seq in Ha.
      apply in_seq. pose proof (Hg a ltac:(lia)). lia.
  Qed.
End Reorder.

(* reordering the crossings of a consistently oriented code in which every component passes under *)
Theorem signs_reorder : forall l l' o, Valid l -> Unresolved l -> Oriented l o -> NoOnlyOver l ->
  Permutation l l' ->
  exists sg sg', crossing_signs l = Some sg /\ crossing_signs l' = Some sg' /\ Permutation sg sg' /\
    signed_crossing_nums l' = signed_crossing_nums l /\ writhe l' = writhe l.
Proof.
  intros l l' o Hv Hu Ho Hno HP.
  pose proof (Valid_perm l l' HP Hv) as Hv'.
  destruct (proj1 (Permutation_nth l l' dummy_c) HP) as (Hlen & g & Hg & Hinj & Hnth).
  cbn zeta in *.
  pose proof (Oriented_reorder l l' g Hlen Hg Hinj Hnth Hv Hv' o Ho) as Ho'.
  pose proof (Unresolved_reorder l l' g Hlen Hg Hnth Hu) as Hu'.
  pose proof (NoOnlyOver_reorder l l' g Hlen Hg Hinj Hnth Hno) as Hno'.
  pose proof (signs_orientation_unique l o Hv Hu Ho Hno) as E.
  pose proof (signs_orientation_unique l' _ Hv' Hu' Ho' Hno') as E'.
  pose proof (signs_reorder_perm l l' g Hlen Hg Hinj Hnth o) as PS.
  exists (signs_of l o), (signs_of l' (fun p => o (phi g p))).
  split; auto. split; auto. split; auto.
  destruct (count_pos_perm _ _ PS) as [C1 C2].
  assert (SN : signed_crossing_nums l' = signed_crossing_nums l).
  { unfold signed_crossing_nums. rewrite E, E'. cbn [option_map]. rewrite C1, C2. reflexivity. }
  split; auto. unfold writhe. rewrite SN. reflexivity.
Qed.

(* a knot diagram (one component, at least one crossing) has no component that only passes over *)
Lemma knot_NoOnlyOver : forall l c, Valid l -> components l = Some [c] -> 0 < length l -> NoOnlyOver l.
Proof.
  intros l c Hv E Hl. destruct (components_valid l Hv) as (cs & E' & _ & _ & Cov & Cl).
  rewrite E in E'. inversion E'; subst cs; clear E'.
  assert (Hin : forall e, In e (edge_labels l) -> In e (pedges c)).
  { intros e He. apply Cov in He. cbn in He. rewrite app_nil_r in He. exact He. }
  intros e He. exists 0. split; auto.
  apply (Cl c ltac:(cbn; auto) e (Hin e He)). apply Hin. apply edge_at_in_labels. split; cbn; lia.
Qed.

(* Without planarity the hypothesis cannot be dropped: a valid, consistently oriented (non-planar) code
   with a component that only passes over (edges 3,4,5), whose writhe changes when two crossings are
   exchanged. *)
Definition reorder_witness : link := [mkX X 0 3 1 4; mkX X 1 5 2 4; mkX X 2 3 0 5].
Definition reorder_witness' : link := [mkX X 1 5 2 4; mkX X 0 3 1 4; mkX X 2 3 0 5].
Example reorder_witness_values :
  valid reorder_witness = true /\ Permutation reorder_witness reorder_witness' /\
  writhe reorder_witness = Some 1%Z /\ writhe reorder_witness' = Some (-1)%Z.
Proof. split; [reflexivity|]. split; [apply perm_swap|]. split; vm_compute; reflexivity. Qed.
