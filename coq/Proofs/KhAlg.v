(* The Frobenius algebra A = Z[X]/(X^2 - hX - t) used by the cube model: the list-valued structure
   constants [prod]/[coprod] of KhCube.v denote a commutative, associative multiplication and a
   cocommutative, coassociative comultiplication satisfying the Frobenius relation, for all h, t. *)
From Coq Require Import List Bool ZArith Lia Ring.
Require Import Yui.Model.KhCube.
Import ListNotations.
Open Scope Z_scope.

(* elements of A as pairs (a, b) = a*1 + b*X; of A(x)A as 4-tuples over the basis 1(x)1, 1(x)X, X(x)1, X(x)X *)
Definition A := (Z * Z)%type.
Definition AA := (Z * Z * Z * Z)%type.

Definition basis (x : bool) : A := if x then (0, 1) else (1, 0).
Definition basis2 (x y : bool) : AA :=
  match x, y with
  | false, false => (1, 0, 0, 0) | false, true => (0, 1, 0, 0)
  | true, false => (0, 0, 1, 0) | true, true => (0, 0, 0, 1)
  end.

Definition a_add (u v : A) : A := (fst u + fst v, snd u + snd v).
Definition a_scal (c : Z) (u : A) : A := (c * fst u, c * snd u).
Definition aa_add (u v : AA) : AA :=
  let '(a, b, c, d) := u in let '(a', b', c', d') := v in (a + a', b + b', c + c', d + d').
Definition aa_scal (k : Z) (u : AA) : AA := let '(a, b, c, d) := u in (k * a, k * b, k * c, k * d).

(* the algebra structure in closed form *)
Definition mul (h t : Z) (u v : A) : A :=
  let '(a, b) := u in let '(c, d) := v in (a * c + t * b * d, a * d + b * c + h * b * d).
Definition comul (h t : Z) (u : A) : AA :=
  let '(a, b) := u in (- h * a + t * b, a, a, b).

(* denotation of the structure-constant lists *)
Definition den1 (l : list (bool * Z)) : A :=
  fold_right (fun p acc => a_add (a_scal (snd p) (basis (fst p))) acc) (0, 0) l.
Definition den2 (l : list (bool * bool * Z)) : AA :=
  fold_right (fun p acc => aa_add (aa_scal (snd p) (basis2 (fst (fst p)) (snd (fst p)))) acc) (0, 0, 0, 0) l.

Ltac peq := repeat match goal with |- (_, _) = (_, _) => apply f_equal2 end; ring.
Ltac crunch :=
  unfold den1, den2, mul, comul, basis, basis2, a_add, a_scal, aa_add, aa_scal;
  cbn [fold_right fst snd]; peq.

Lemma den1_filter l : den1 (filter (fun p => negb (snd p =? 0)) l) = den1 l.
Proof.
  induction l as [|[x c] l IH]; [reflexivity|]. cbn [filter snd].
  destruct (Z.eqb_spec c 0) as [->|Hc]; cbn [negb den1 fold_right]; fold (den1 l);
    fold (den1 (filter (fun p => negb (snd p =? 0)) l)); rewrite IH; [|reflexivity].
  unfold a_add, a_scal. destruct (den1 l), x; cbn; peq.
Qed.

Lemma den2_filter l : den2 (filter (fun p => negb (snd p =? 0)) l) = den2 l.
Proof.
  induction l as [|[[x y] c] l IH]; [reflexivity|]. cbn [filter snd].
  destruct (Z.eqb_spec c 0) as [->|Hc]; cbn [negb den2 fold_right]; fold (den2 l);
    fold (den2 (filter (fun p => negb (snd p =? 0)) l)); rewrite IH; [|reflexivity].
  unfold aa_add, aa_scal. destruct (den2 l) as [[[a b] c'] d], x, y; cbn; peq.
Qed.

Lemma prod_den h t x y : den1 (prod h t x y) = mul h t (basis x) (basis y).
Proof. unfold prod. rewrite den1_filter. destruct x, y; crunch. Qed.

Lemma coprod_den h t x : den2 (coprod h t x) = comul h t (basis x).
Proof. unfold coprod. rewrite den2_filter. destruct x; crunch. Qed.

(* algebra laws *)
Lemma mul_comm h t u v : mul h t u v = mul h t v u.
Proof. destruct u, v. unfold mul. peq. Qed.
Lemma mul_assoc h t u v w : mul h t (mul h t u v) w = mul h t u (mul h t v w).
Proof. destruct u, v, w. unfold mul. peq. Qed.
Lemma mul_one h t u : mul h t (1, 0) u = u.
Proof. destruct u. unfold mul. peq. Qed.
Lemma mul_XX h t : mul h t (0, 1) (0, 1) = (t, h).     (* X^2 = h X + t *)
Proof. unfold mul. peq. Qed.

(* A (x) A as an A-bimodule, the flip, and (id (x) comul), (comul (x) id) on the 8-dimensional A^(x)3 *)
Definition lmul (h t : Z) (u : A) (w : AA) : AA :=       (* (u . ) (x) id *)
  let '(a, b) := u in let '(p, q, r, s) := w in
  (a * p + t * b * r, a * q + t * b * s, a * r + b * p + h * b * r, a * s + b * q + h * b * s).
Definition rmul (h t : Z) (w : AA) (u : A) : AA :=       (* id (x) ( . u) *)
  let '(a, b) := u in let '(p, q, r, s) := w in
  (a * p + t * b * q, a * q + b * p + h * b * q, a * r + t * b * s, a * s + b * r + h * b * s).
Definition flip (w : AA) : AA := let '(p, q, r, s) := w in (p, r, q, s).

Lemma comul_cocomm h t u : flip (comul h t u) = comul h t u.
Proof. destruct u. reflexivity. Qed.

(* Frobenius relation: comul (u v) = u . comul v = comul u . v *)
Lemma frobenius_l h t u v : comul h t (mul h t u v) = lmul h t u (comul h t v).
Proof. destruct u, v. unfold comul, mul, lmul. peq. Qed.
Lemma frobenius_r h t u v : comul h t (mul h t u v) = rmul h t (comul h t u) v.
Proof. destruct u, v. unfold comul, mul, rmul. peq. Qed.

(* coassociativity, with A^(x)3 as 8-tuples in the order 111,11X,1X1,1XX,X11,X1X,XX1,XXX *)
Definition AAA := (Z * Z * Z * Z * Z * Z * Z * Z)%type.
Definition comul_left (h t : Z) (w : AA) : AAA :=         (* comul (x) id *)
  let '(p, q, r, s) := w in
  (* 1(x)y -> comul 1 (x) y ; X(x)y -> comul X (x) y, comul 1 = (-h,1,1,0), comul X = (t,0,0,1) *)
  (- h * p + t * r, - h * q + t * s, p, q, p, q, r, s).
Definition comul_right (h t : Z) (w : AA) : AAA :=        (* id (x) comul *)
  let '(p, q, r, s) := w in
  (- h * p + t * q, p, p, q, - h * r + t * s, r, r, s).

Lemma comul_coassoc h t u : comul_left h t (comul h t u) = comul_right h t (comul h t u).
Proof. destruct u. unfold comul, comul_left, comul_right. peq. Qed.

(* counit eps(1) = 0, eps(X) = 1: (eps (x) id) comul = id *)
Definition eps (u : A) : Z := snd u.
Lemma counit_l h t u : (let '(p, q, r, s) := comul h t u in (r, s)) = u.
Proof. destruct u. reflexivity. Qed.
