(* QuadInt<I, D> (Model/QuadInt.v): the pairs (a, b) = a + b*omega with the product of qint.rs are the
   ring Z[X] / (X^2 - t X - e), where (t, e) = (1, (D-1)/4) for D = 1 (mod 4) and (0, D) for
   D = 2, 3 (mod 4): the minimal polynomial of omega = (1 + sqrt D)/2 resp. sqrt D.
   - at BigInt width every operation returns the value of the reference operation [qs_*]
     (the two shortcut branches of the product included);
   - at a machine width a returned value is that same value (an overflow is a panic, never a wrap);
   - the reference operations are the ring operations of Z[X]/(X^2 - t X - e): [qsem u] is the
     polynomial a + b X, and the product of two representatives differs from the representative of
     the product by the explicit multiple  b d (X^2 - t X - e);
   - the pairs with these operations satisfy the commutative-ring axioms; conj and norm are the
     conjugation and the (multiplicative) norm. *)
From Coq Require Import ZArith Bool Lia.
Require Import Yui.Base.Ring Yui.Model.Ints Yui.Model.QuadInt Yui.Proofs.C14Ints.
Open Scope Z_scope.

(* ---------- the minimal polynomial ---------- *)
Lemma mod4_cases D : D mod 4 = 0 \/ D mod 4 = 1 \/ D mod 4 = 2 \/ D mod 4 = 3.
Proof. pose proof (Z.mod_pos_bound D 4 ltac:(lia)). lia. Qed.

Lemma quot_e D : D mod 4 = 1 -> Z.quot (D - 1) 4 = (D - 1) / 4.
Proof.
  intros H. pose proof (Z.div_mod D 4 ltac:(lia)) as E.
  replace (D - 1) with (D / 4 * 4) by lia. now rewrite Z.quot_mul, Z.div_mul by lia.
Qed.

Lemma quot_e_neg D : D mod 4 = 1 -> Z.quot (1 - D) 4 = - ((D - 1) / 4).
Proof.
  intros H. pose proof (Z.div_mod D 4 ltac:(lia)) as E.
  replace (1 - D) with (- (D / 4) * 4) by lia. replace (D - 1) with (D / 4 * 4) by lia.
  now rewrite Z.quot_mul, Z.div_mul by lia.
Qed.

(* omega is a root of X^2 - t X - e; the discriminant t^2 + 4 e is D resp. 4 D *)
Lemma qi_poly_1 D : D mod 4 = 1 -> qi_t D = 1 /\ 4 * qi_e D = D - 1.
Proof.
  intros H. unfold qi_t, qi_e. rewrite H. change (1 =? 1) with true. cbv iota. split; [reflexivity|].
  pose proof (Z.div_mod D 4 ltac:(lia)) as E.
  replace (D - 1) with (D / 4 * 4) by lia. rewrite Z.div_mul by lia. lia.
Qed.

Lemma qi_poly_23 D : D mod 4 = 2 \/ D mod 4 = 3 -> qi_t D = 0 /\ qi_e D = D.
Proof.
  intros H. unfold qi_t, qi_e. destruct (D mod 4 =? 1) eqn:E; [apply Z.eqb_eq in E; lia|]. auto.
Qed.

Lemma qi_disc D : D mod 4 <> 0 ->
  qi_t D * qi_t D + 4 * qi_e D = (if D mod 4 =? 1 then D else 4 * D).
Proof.
  intros H. destruct (mod4_cases D) as [E|[E|E]]; [contradiction| |].
  - destruct (qi_poly_1 D E) as [-> E']. rewrite E. change (1 =? 1) with true. cbv iota. lia.
  - destruct (qi_poly_23 D E) as [-> ->].
    destruct (D mod 4 =? 1) eqn:F; [apply Z.eqb_eq in F; lia|]. lia.
Qed.

(* new: the assertion D % 4 != 0 (Rust's % truncates; D rem 4 = 0 iff D mod 4 = 0) *)
Lemma qi_new_spec D a b : qi_new D a b = if D mod 4 =? 0 then None else Some (a, b).
Proof.
  unfold qi_new.
  assert (E : (Z.rem D 4 =? 0) = (D mod 4 =? 0)).
  { destruct (Z.rem D 4 =? 0) eqn:E1, (D mod 4 =? 0) eqn:E2; try reflexivity.
    - apply Z.eqb_eq in E1. apply Z.eqb_neq in E2. exfalso. apply E2.
      apply Z.rem_divide in E1; [|lia]. apply Z.mod_divide; [lia|exact E1].
    - apply Z.eqb_neq in E1. apply Z.eqb_eq in E2. exfalso. apply E1.
      apply Z.mod_divide in E2; [|lia]. apply Z.rem_divide; [lia|exact E2]. }
  now rewrite E.
Qed.

(* ---------- BigInt components: every operation is the reference operation ---------- *)
Lemma qi_add_big x y : qi_add Big x y = Some (qs_add x y).
Proof. reflexivity. Qed.
Lemma qi_sub_big x y : qi_sub Big x y = Some (qs_sub x y).
Proof. reflexivity. Qed.
Lemma qi_neg_big x : qi_neg Big x = Some (qs_neg x).
Proof. reflexivity. Qed.

Lemma pair_eq (a b c d : Z) : a = c -> b = d -> (a, b) = (c, d).
Proof. now intros -> ->. Qed.

Ltac bigsimp := cbn [obind imul iadd isub ineg ck fitsb].

(* the product, including the shortcut branches  b = 0  and  d = 0  *)
Lemma qi_mul_big D x y : D mod 4 <> 0 -> qi_mul Big D x y = Some (qs_mul (qi_t D) (qi_e D) x y).
Proof.
  intros HD. destruct x as [a b], y as [c d]. unfold qi_mul, qs_mul, qi_class, qi_const. cbn [fst snd].
  destruct (b =? 0) eqn:Eb.
  { apply Z.eqb_eq in Eb. subst b. bigsimp. f_equal. apply pair_eq; ring. }
  destruct (d =? 0) eqn:Ed.
  { apply Z.eqb_eq in Ed. subst d. bigsimp. f_equal. apply pair_eq; ring. }
  destruct (mod4_cases D) as [E|[E|E]]; [contradiction| |].
  - destruct (qi_poly_1 D E) as [Et _]. rewrite Et. unfold qi_e. rewrite E. change (1 =? 1) with true. cbv iota.
    rewrite quot_e by exact E. bigsimp. f_equal. apply pair_eq; ring.
  - destruct (qi_poly_23 D E) as [Et Ee]. rewrite Et, Ee.
    destruct (D mod 4 =? 1) eqn:F1; [apply Z.eqb_eq in F1; lia|].
    assert (F2 : ((D mod 4 =? 2) || (D mod 4 =? 3)) = true).
    { apply orb_true_iff. rewrite !Z.eqb_eq. exact E. }
    rewrite F2. bigsimp. f_equal. apply pair_eq; ring.
Qed.

(* for D = 0 (mod 4) - a type that [new] refuses to construct - the general branch is the panic!() *)
Lemma qi_mul_big_bad D x y : D mod 4 = 0 -> snd x <> 0 -> snd y <> 0 -> qi_mul Big D x y = None.
Proof.
  intros HD Hb Hd. unfold qi_mul, qi_class. apply Z.eqb_neq in Hb, Hd. rewrite Hb, Hd, HD. reflexivity.
Qed.

Lemma qi_conj_big D x : D mod 4 <> 0 -> qi_conj Big D x = Some (qs_conj (qi_t D) x).
Proof.
  intros HD. destruct x as [a b]. unfold qi_conj, qs_conj, qi_class. cbn [fst snd].
  destruct (mod4_cases D) as [E|[E|E]]; [contradiction| |].
  - destruct (qi_poly_1 D E) as [Et _]. rewrite Et, E. change (1 =? 1) with true. cbv iota.
    bigsimp. f_equal. apply pair_eq; ring.
  - destruct (qi_poly_23 D E) as [Et _]. rewrite Et.
    destruct (D mod 4 =? 1) eqn:F1; [apply Z.eqb_eq in F1; lia|].
    assert (F2 : ((D mod 4 =? 2) || (D mod 4 =? 3)) = true).
    { apply orb_true_iff. rewrite !Z.eqb_eq. exact E. }
    rewrite F2. bigsimp. f_equal. apply pair_eq; ring.
Qed.

Lemma qi_norm_big D x : D mod 4 <> 0 -> qi_norm Big D x = Some (qs_norm (qi_t D) (qi_e D) x).
Proof.
  intros HD. destruct x as [a b]. unfold qi_norm, qs_norm, qi_class, qi_const. cbn [fst snd].
  destruct (mod4_cases D) as [E|[E|E]]; [contradiction| |].
  - destruct (qi_poly_1 D E) as [Et _]. rewrite Et. unfold qi_e. rewrite E. change (1 =? 1) with true. cbv iota.
    rewrite quot_e_neg by exact E. bigsimp. f_equal. ring.
  - destruct (qi_poly_23 D E) as [Et Ee]. rewrite Et, Ee.
    destruct (D mod 4 =? 1) eqn:F1; [apply Z.eqb_eq in F1; lia|].
    assert (F2 : ((D mod 4 =? 2) || (D mod 4 =? 3)) = true).
    { apply orb_true_iff. rewrite !Z.eqb_eq. exact E. }
    rewrite F2. bigsimp. f_equal. ring.
Qed.

(* ---------- machine widths: whatever QuadInt<iN, D> returns, QuadInt<BigInt, D> returns ---------- *)
Ltac qmono :=
  repeat first
    [ apply ole_refl | apply ole_none | apply ck_mono
    | apply iadd_mono | apply isub_mono | apply imul_mono | apply ineg_mono
    | apply ole_if | (apply ole_bind; [|intros ?]) ].

Lemma qi_add_mono w x y : ole (qi_add w x y) (qi_add Big x y).
Proof. unfold qi_add. qmono. Qed.
Lemma qi_sub_mono w x y : ole (qi_sub w x y) (qi_sub Big x y).
Proof. unfold qi_sub. qmono. Qed.
Lemma qi_neg_mono w x : ole (qi_neg w x) (qi_neg Big x).
Proof. unfold qi_neg. qmono. Qed.
Lemma qi_mul_mono w D x y : ole (qi_mul w D x y) (qi_mul Big D x y).
Proof. unfold qi_mul, qi_const. cbv zeta. qmono. Qed.
Lemma qi_conj_mono w D x : ole (qi_conj w D x) (qi_conj Big D x).
Proof. unfold qi_conj. cbv zeta. qmono. Qed.
Lemma qi_norm_mono w D x : ole (qi_norm w D x) (qi_norm Big D x).
Proof. unfold qi_norm, qi_const. cbv zeta. qmono. Qed.

(* a returned value is the exact value, at every width and for every D *)
Lemma qi_add_exact w x y r : qi_add w x y = Some r -> r = qs_add x y.
Proof. intros H. apply qi_add_mono in H. rewrite qi_add_big in H. now inversion H. Qed.
Lemma qi_sub_exact w x y r : qi_sub w x y = Some r -> r = qs_sub x y.
Proof. intros H. apply qi_sub_mono in H. rewrite qi_sub_big in H. now inversion H. Qed.
Lemma qi_neg_exact w x r : qi_neg w x = Some r -> r = qs_neg x.
Proof. intros H. apply qi_neg_mono in H. rewrite qi_neg_big in H. now inversion H. Qed.

Lemma qi_mul_exact w D x y r : qi_mul w D x y = Some r -> r = qs_mul (qi_t D) (qi_e D) x y.
Proof.
  intros H. apply qi_mul_mono in H. destruct (Z.eq_dec (D mod 4) 0) as [E|E].
  - (* only the shortcut branches return; they do not depend on D *)
    destruct x as [a b], y as [c d]. unfold qi_mul, qi_class in H. cbn [fst snd] in H. unfold qs_mul. cbn [fst snd].
    destruct (b =? 0) eqn:Eb.
    { apply Z.eqb_eq in Eb. subst b. rewrite !imul_big in H. cbn [obind] in H. inversion H. apply pair_eq; ring. }
    destruct (d =? 0) eqn:Ed.
    { apply Z.eqb_eq in Ed. subst d. rewrite !imul_big in H. cbn [obind] in H. inversion H. apply pair_eq; ring. }
    rewrite E in H. discriminate.
  - rewrite qi_mul_big in H by exact E. now inversion H.
Qed.

Lemma qi_conj_exact w D x r : D mod 4 <> 0 -> qi_conj w D x = Some r -> r = qs_conj (qi_t D) x.
Proof. intros HD H. apply qi_conj_mono in H. rewrite qi_conj_big in H by exact HD. now inversion H. Qed.
Lemma qi_norm_exact w D x r : D mod 4 <> 0 -> qi_norm w D x = Some r -> r = qs_norm (qi_t D) (qi_e D) x.
Proof. intros HD H. apply qi_norm_mono in H. rewrite qi_norm_big in H by exact HD. now inversion H. Qed.

(* the exact panic condition of the componentwise operations *)
Lemma qi_add_spec w x y :
  qi_add w x y = if fitsb w (fst x + fst y) && fitsb w (snd x + snd y) then Some (qs_add x y) else None.
Proof.
  unfold qi_add, iadd, ck, qs_add. destruct (fitsb w (fst x + fst y)); cbn [obind andb]; [|reflexivity].
  destruct (fitsb w (snd x + snd y)); reflexivity.
Qed.

(* ---------- the reference operations are those of Z[X] / (X^2 - t X - e) ---------- *)
(* the polynomial a + b X, as a function of the indeterminate *)
Definition qsem (u : quad) (X : Z) : Z := fst u + snd u * X.

Lemma qsem_inj u v : (forall X, qsem u X = qsem v X) -> u = v.
Proof.
  intros H. pose proof (H 0) as H0. pose proof (H 1) as H1. unfold qsem in *.
  destruct u as [a b], v as [c d]. cbn [fst snd] in *. apply pair_eq; lia.
Qed.

Lemma qsem_add u v X : qsem (qs_add u v) X = qsem u X + qsem v X.
Proof. unfold qsem, qs_add. cbn [fst snd]. ring. Qed.
Lemma qsem_sub u v X : qsem (qs_sub u v) X = qsem u X - qsem v X.
Proof. unfold qsem, qs_sub. cbn [fst snd]. ring. Qed.
Lemma qsem_neg u X : qsem (qs_neg u) X = - qsem u X.
Proof. unfold qsem, qs_neg. cbn [fst snd]. ring. Qed.
Lemma qsem_one X : qsem qi_one X = 1.
Proof. unfold qsem, qi_one. cbn [fst snd]. ring. Qed.
Lemma qsem_zero X : qsem qi_zero X = 0.
Proof. unfold qsem, qi_zero. cbn [fst snd]. ring. Qed.
Lemma qsem_omega X : qsem qi_omega X = X.
Proof. unfold qsem, qi_omega. cbn [fst snd]. ring. Qed.

(* (a + b X)(c + d X) = [representative of the product] + b d (X^2 - t X - e)   in Z[X] *)
Lemma qsem_mul t e u v X :
  qsem u X * qsem v X = qsem (qs_mul t e u v) X + (snd u * snd v) * (X * X - t * X - e).
Proof. unfold qsem, qs_mul. cbn [fst snd]. ring. Qed.

(* ---------- ring laws of the pairs ---------- *)
Definition quad_ring (t e : Z) : ring_ops quad :=
  mk_ring_ops quad qi_zero qi_one qs_add qs_neg (qs_mul t e) qi_eqb.

Lemma qi_eqb_eq x y : qi_eqb x y = true <-> x = y.
Proof.
  destruct x as [a b], y as [c d]. unfold qi_eqb. cbn [fst snd].
  rewrite andb_true_iff, !Z.eqb_eq. split; [intros [-> ->]; reflexivity|intros H; inversion H; auto].
Qed.

Lemma quad_ring_laws t e : ring_laws (quad_ring t e).
Proof.
  constructor; cbn [quad_ring rzero rone radd rneg rmul reqb].
  - intros [a b] [c d]. unfold qs_add. cbn [fst snd]. apply pair_eq; ring.
  - intros [a b] [c d] [f g]. unfold qs_add. cbn [fst snd]. apply pair_eq; ring.
  - intros [a b]. unfold qs_add, qi_zero. cbn [fst snd]. apply pair_eq; ring.
  - intros [a b]. unfold qs_add, qs_neg, qi_zero. cbn [fst snd]. apply pair_eq; ring.
  - intros [a b] [c d]. unfold qs_mul. cbn [fst snd]. apply pair_eq; ring.
  - intros [a b] [c d] [f g]. unfold qs_mul. cbn [fst snd]. apply pair_eq; ring.
  - intros [a b]. unfold qs_mul, qi_one. cbn [fst snd]. apply pair_eq; ring.
  - intros [a b] [c d] [f g]. unfold qs_mul, qs_add. cbn [fst snd]. apply pair_eq; ring.
  - apply qi_eqb_eq.
Qed.

Definition gauss_ring : ring_ops quad := quad_ring (qi_t (-1)) (qi_e (-1)).
Definition eisen_ring : ring_ops quad := quad_ring (qi_t (-3)) (qi_e (-3)).

(* the Gaussian and Eisenstein products in closed form *)
Lemma gauss_mul_eq x y :
  rmul gauss_ring x y = (fst x * fst y - snd x * snd y, fst x * snd y + snd x * fst y).
Proof. cbn. unfold qs_mul. apply pair_eq; ring. Qed.
Lemma eisen_mul_eq x y :
  rmul eisen_ring x y = (fst x * fst y - snd x * snd y, fst x * snd y + snd x * fst y + snd x * snd y).
Proof. cbn. unfold qs_mul. apply pair_eq; ring. Qed.

(* subtraction is addition of the negative; is_zero / is_one are comparisons with the constants *)
Lemma qs_sub_add_neg x y : qs_sub x y = qs_add x (qs_neg y).
Proof. unfold qs_sub, qs_add, qs_neg. cbn [fst snd]. apply pair_eq; ring. Qed.
Lemma qi_is_zero_spec x : qi_is_zero x = true <-> x = qi_zero.
Proof. apply (qi_eqb_eq x qi_zero). Qed.
Lemma qi_is_one_spec x : qi_is_one x = true <-> x = qi_one.
Proof. apply (qi_eqb_eq x qi_one). Qed.

(* ---------- conjugation and norm ---------- *)
Lemma qs_conj_mul t e x : qs_mul t e x (qs_conj t x) = (qs_norm t e x, 0).
Proof. destruct x as [a b]. unfold qs_mul, qs_conj, qs_norm. cbn [fst snd]. apply pair_eq; ring. Qed.

Lemma qs_norm_mul t e x y : qs_norm t e (qs_mul t e x y) = qs_norm t e x * qs_norm t e y.
Proof. destruct x as [a b], y as [c d]. unfold qs_mul, qs_norm. cbn [fst snd]. ring. Qed.

Lemma qs_conj_invol t x : qs_conj t (qs_conj t x) = x.
Proof. destruct x as [a b]. unfold qs_conj. cbn [fst snd]. apply pair_eq; ring. Qed.
