(* C07, part 4: the rank read off a diagonal (Smith-type) form is an invariant of the matrix.
   Over an integral domain, if A is equivalent to diag(a_0..a_(r-1), 0..) and to diag(a'_0..a'_(r'-1), 0..)
   with all a_i, a'_i non-zero then r = r'.  Hence "rank(d)" in the rank formula of C07 does not depend on
   the Smith form used to compute it.  The proof is elementary: a homogeneous linear system with more
   unknowns than equations has a non-trivial solution (fraction-free elimination). *)
From Coq Require Import Arith List Lia Ring Bool.
Require Import Yui.Base.Ring Yui.Base.MatF Yui.Proofs.C07Algebra.
Import ListNotations.

Section C07Rank.
  Context {R : Type} (o : ring_ops R) (L : ring_laws o) (Hint : integral o).

  Local Notation "0" := (rzero o).
  Local Notation "1" := (rone o).
  Local Infix "+" := (radd o).
  Local Infix "*" := (rmul o).
  Local Notation "- x" := (rneg o x).

  Add Ring Rring07r : (ring_theory_of_laws o L).

  (* skipping one index of a sum *)
  Definition skip (j0 j : nat) : nat := if j <? j0 then j else S j.

  Lemma sum_skip c j0 (f : nat -> R) :
    (j0 < S c)%nat -> sum o (S c) f = f j0 + sum o c (fun j => f (skip j0 j)).
  Proof.
    induction c as [|c IH]; intros Hj.
    - assert (j0 = O) by lia. subst j0. cbn [sum]. ring.
    - destruct (Nat.eq_dec j0 (S c)) as [->|Hne].
      + cbn [sum]. rewrite (sum_ext o c (fun j => f (skip (S c) j)) f).
        * unfold skip. destruct (Nat.ltb_spec c (S c)); [ring|lia].
        * intros j Hjc. unfold skip. destruct (Nat.ltb_spec j (S c)); [reflexivity|lia].
      + change (sum o (S (S c)) f) with (sum o (S c) f + f (S c)).
        rewrite IH by lia.
        change (sum o (S c) (fun j => f (skip j0 j))) with (sum o c (fun j => f (skip j0 j)) + f (skip j0 c)).
        unfold skip at 3. destruct (Nat.ltb_spec c j0); [lia|]. ring.
  Qed.

  Lemma find_nz c (f : nat -> R) :
    (exists j, (j < c)%nat /\ f j <> 0) \/ (forall j, (j < c)%nat -> f j = 0).
  Proof.
    induction c as [|c IH].
    - right. intros j Hj. lia.
    - destruct IH as [[j [Hj Hn]]|Hall].
      + left. exists j. split; [lia|exact Hn].
      + destruct (reqb_spec o L (f c) 0) as [E|E].
        * right. intros j Hj. destruct (Nat.eq_dec j c) as [->|Hne]; [exact E|apply Hall; lia].
        * left. exists c. split; [lia|exact E].
  Qed.

  Lemma mul_nz a b : a <> 0 -> b <> 0 -> a * b <> 0.
  Proof. intros Ha Hb E. destruct (proj2 Hint a b E); contradiction. Qed.

  (* more unknowns than equations: a non-trivial solution *)
  Lemma kernel_vector r :
    forall c (M : mat R), (r < c)%nat ->
    exists x : nat -> R, (exists j, (j < c)%nat /\ x j <> 0) /\
                         forall i, (i < r)%nat -> sum o c (fun j => M i j * x j) = 0.
  Proof.
    induction r as [|r IH]; intros c M Hrc.
    - exists (fun _ => 1). split; [|intros i Hi; lia].
      exists O. split; [lia|]. exact (proj1 Hint).
    - destruct c as [|c]; [lia|].
      destruct (find_nz (S c) (fun j => M r j)) as [[j0 [Hj0 Hnz]]|Hall].
      + (* pivot M r j0: eliminate the unknown j0 from the first r equations *)
        set (M' := fun i j => M r j0 * M i (skip j0 j) + - (M i j0 * M r (skip j0 j))).
        destruct (IH c M' ltac:(lia)) as [x' [[j1 [Hj1 Hx1]] Hker]].
        set (xj0 := - sum o c (fun l => M r (skip j0 l) * x' l)).
        exists (fun j => if j =? j0 then xj0 else M r j0 * x' (if j <? j0 then j else pred j)).
        assert (Hskip : forall l, (if skip j0 l =? j0 then xj0
                                   else M r j0 * x' (if skip j0 l <? j0 then skip j0 l else pred (skip j0 l)))
                                  = M r j0 * x' l).
        { intros l. unfold skip. destruct (Nat.ltb_spec l j0) as [Hl|Hl].
          - destruct (Nat.eqb_spec l j0); [lia|]. destruct (Nat.ltb_spec l j0); [reflexivity|lia].
          - destruct (Nat.eqb_spec (S l) j0); [lia|]. destruct (Nat.ltb_spec (S l) j0); [lia|reflexivity]. }
        split.
        * exists (skip j0 j1). split.
          -- unfold skip. destruct (Nat.ltb_spec j1 j0); lia.
          -- rewrite Hskip. now apply mul_nz.
        * intros i Hi. rewrite (sum_skip c j0) by assumption.
          rewrite Nat.eqb_refl.
          rewrite (sum_ext o c _ (fun l => M i (skip j0 l) * (M r j0 * x' l)))
            by (intros l Hl; now rewrite Hskip).
          destruct (Nat.eq_dec i r) as [->|Hne].
          -- unfold xj0.
             rewrite (sum_ext o c (fun l => M r (skip j0 l) * (M r j0 * x' l))
                        (fun l => M r j0 * (M r (skip j0 l) * x' l))) by (intros; ring).
             rewrite (sum_scal_l o L). ring.
          -- specialize (Hker i ltac:(lia)). unfold M' in Hker.
             rewrite (sum_ext o c _ (fun l => M i (skip j0 l) * (M r j0 * x' l)
                                               + - (M i j0 * (M r (skip j0 l) * x' l)))) in Hker
               by (intros; ring).
             rewrite (sum_add o L), (sum_neg o L), (sum_scal_l o L) in Hker.
             unfold xj0. rewrite <- Hker. ring.
      + (* the last equation is trivial *)
        destruct (IH (S c) M ltac:(lia)) as [x [Hx Hker]].
        exists x. split; [exact Hx|]. intros i Hi.
        destruct (Nat.eq_dec i r) as [->|Hne]; [|apply Hker; lia].
        apply (sum_zero_ext o L). intros j Hj. rewrite Hall by assumption. ring.
  Qed.

  (* ---------- a diagonal form gives a [smith] record ---------- *)
  Definition dg (r : nat) (a : nat -> R) : mat R := fun i j => if (i =? j) && (i <? r) then a i else 0.

  Lemma form_smith m n A r a P Pi Q Qi :
    inv_pair o m P Pi -> inv_pair o n Q Qi ->
    meq m n (mmul o m P (mmul o n A Q)) (dg r a) ->
    (forall i, (i < r)%nat -> a i <> 0) -> (r <= Nat.min m n)%nat ->
    smith o m n A P Pi Q Qi (dg r a) r.
  Proof.
    intros HP HQ He Hnz Hr. constructor; try assumption.
    - now apply meq_sym.
    - intros i j Hi Hj Hne. unfold dg. destruct (Nat.eqb_spec i j); [contradiction|reflexivity].
    - intros i Hi. unfold dg. rewrite Nat.eqb_refl. destruct (Nat.ltb_spec i r); [now apply Hnz|lia].
    - intros i Hi _. unfold dg. rewrite Nat.eqb_refl. destruct (Nat.ltb_spec i r); [lia|reflexivity].
  Qed.

  Lemma mvec_zero p (A : mat R) (v : nat -> R) i :
    (forall l, (l < p)%nat -> v l = 0) -> mvec o p A v i = 0.
  Proof. intros H. unfold mvec. apply (sum_zero_ext o L). intros l Hl. rewrite H by assumption. ring. Qed.

  Lemma rank_le m n A r a r' a' :
    smith_form o m n A r a -> smith_form o m n A r' a' -> (r' <= r)%nat.
  Proof.
    intros [P [Pi [Q [Qi [HP [HQ [He [Hnz Hr]]]]]]]] [P' [Pi' [Q' [Qi' [HP' [HQ' [He' [Hnz' Hr']]]]]]]].
    destruct (le_lt_dec r' r) as [Hle|Hlt]; [exact Hle|exfalso].
    pose proof (form_smith m n A r a P Pi Q Qi HP HQ He Hnz Hr) as S.
    pose proof (form_smith m n A r' a' P' Pi' Q' Qi' HP' HQ' He' Hnz' Hr') as S'.
    (* a non-trivial x supported on [0, r') with (Qi Q' x)_l = 0 for l < r *)
    destruct (kernel_vector r r' (mmul o n Qi Q') Hlt) as [x [[j0 [Hj0 Hx0]] Hker]].
    set (xt := fun j => if j <? r' then x j else 0).
    (* dg r' a' * xt is non-zero at j0 *)
    assert (Hne : mvec o n (dg r' a') xt j0 <> 0).
    { unfold mvec. rewrite (sum_single o L n j0).
      - unfold dg, xt. rewrite Nat.eqb_refl. destruct (Nat.ltb_spec j0 r'); [|lia]. cbn [andb].
        apply mul_nz; [now apply Hnz'|exact Hx0].
      - lia.
      - intros l Hl Hnel. unfold dg. destruct (Nat.eqb_spec j0 l); [congruence|]. cbn [andb]. ring. }
    apply Hne. clear Hne.
    (* but dg r' a' = P' A Q' and A = Pi (dg r a) Qi *)
    assert (Hj0m : (j0 < m)%nat) by lia.
    rewrite (mvec_ext_row o _ (mmul o m P' (mmul o n A Q'))) by (intros l Hl; now apply (sm_eq _ _ _ _ _ _ _ _ _ _ S')).
    rewrite (mvec_mmul o L). apply mvec_zero. intros i Hi.
    rewrite (mvec_mmul o L).
    rewrite (mvec_ext_row o _ (mmul o m Pi (mmul o n (dg r a) Qi))).
    2:{ intros l Hl. rewrite <- (mmul_cancel_l o L m Pi P A i l) by (try assumption; apply HP).
        apply (mmul_ext_r o). intros l' Hl'. now apply (smith_PA o L _ _ _ _ _ _ _ _ _ S). }
    rewrite (mvec_mmul o L). apply mvec_zero. intros l Hl.
    rewrite (mvec_mmul o L).
    (* (dg r a) u with u = Qi Q' xt vanishing on [0, r) *)
    unfold mvec at 1. apply (sum_zero_ext o L). intros l' Hl'.
    unfold dg. destruct (Nat.eqb_spec l l') as [<-|Hnel]; cbn [andb]; [|ring].
    destruct (Nat.ltb_spec l r) as [Hlr|Hlr]; [|ring].
    rewrite <- (mvec_mmul o L).
    assert (E : mvec o n (mmul o n Qi Q') xt l = 0).
    { assert (Hs : forall f, sum o n f = sum o r' f + sum o (n - r') (fun j => f (r' + j)%nat)).
      { intros f. rewrite <- (sum_split o L). f_equal. lia. }
      unfold mvec. rewrite Hs.
      rewrite (sum_zero_ext o L (n - r')).
      - rewrite (sum_ext o r' _ (fun j => mmul o n Qi Q' l j * x j)).
        + rewrite Hker by assumption. ring.
        + intros j Hj. unfold xt. destruct (Nat.ltb_spec j r'); [reflexivity|lia].
      - intros j Hj. unfold xt. destruct (Nat.ltb_spec (r' + j) r'); [lia|ring]. }
    rewrite E. ring.
  Qed.

  Theorem smith_form_rank_unique m n A r a r' a' :
    smith_form o m n A r a -> smith_form o m n A r' a' -> r = r'.
  Proof.
    intros S S'. apply Nat.le_antisymm.
    - exact (rank_le m n A r' a' r a S' S).
    - exact (rank_le m n A r a r' a' S S').
  Qed.
End C07Rank.
