(* C10: exit conditions of the LLL loop with respect to the maintained data (det, lambda):
   on exit every k satisfies lovasz_ok, and every lambda[k][i] (i < k) lies in the rounding cell of det[i]. *)
From Coq Require Import ZArith List Bool Arith Lia Ring.
Require Import Yui.Base.Ring Yui.Base.MatF Yui.Base.MatL Yui.Model.Lll Yui.Proofs.C10Laws Yui.Proofs.C10Ops.
Import ListNotations.

Section Exit.
  Context {R : Type} (L : lll_ring R) (LW : lll_laws L).
  Local Notation o := (lops L).
  Local Notation RL := (ll_ring L LW).

  Add Ring Rring2 : (ring_theory_of_laws o RL).

  Local Notation lam s := (lget o (lambda s)).
  Local Notation dt s := (vget L (det s)).

  (* ---------- frames ---------- *)
  Lemma fold_m_set_frame m k (g : lmat R -> nat -> R) js : forall l1 a b,
    (a < m)%nat -> (b < m)%nat -> (a <> k \/ ~ In b js) ->
    lget o (fold_left (fun l j => m_set L m m l k j (g l j)) js l1) a b = lget o l1 a b.
  Proof.
    induction js as [|j js IH]; intros l1 a b Ha Hb H; cbn [fold_left]; [reflexivity|].
    rewrite IH; [|assumption|assumption|].
    - rewrite (lget_m_set L) by assumption.
      destruct (Nat.eqb_spec a k) as [->|]; destruct (Nat.eqb_spec b j) as [->|]; cbn [andb]; try reflexivity.
      exfalso. destruct H as [H|H]; [now apply H|apply H; now left].
    - destruct H as [H|H]; [now left|right; intros Hin; apply H; now right].
  Qed.

  Lemma add_row_to_frame s i k r s' : add_row_to L s i k r = Some s' ->
    (i < k)%nat /\ (k < nr s)%nat /\ nr s' = nr s /\ nc s' = nc s /\ step s' = step s /\ det s' = det s /\
    (forall a b, (a < nr s)%nat -> (b < nr s)%nat -> (a <> k \/ i < b)%nat -> lam s' a b = lam s a b) /\
    lam s' k i = radd o (lam s k i) (rmul o r (dt s i)).
  Proof.
    cbv beta zeta delta [add_row_to].
    destruct (Nat.ltb_spec i k) as [Hik|]; [|discriminate].
    destruct (Nat.ltb_spec k (nr s)) as [Hk|]; [|discriminate]. cbn [negb orb].
    intros H. injection H as <-. cbn [nr nc step det lambda].
    repeat split; try assumption.
    - intros a b Ha Hb Hab. rewrite fold_m_set_frame; try assumption.
      + rewrite (lget_m_set L) by assumption.
        destruct (Nat.eqb_spec a k) as [->|]; destruct (Nat.eqb_spec b i) as [->|]; cbn [andb]; try reflexivity.
        exfalso. destruct Hab; [congruence|lia].
      + destruct Hab as [H|H]; [now left|right; rewrite in_seq; lia].
    - rewrite fold_m_set_frame; try lia.
      + rewrite (lget_m_set L) by lia. now rewrite !Nat.eqb_refl.
      + right. rewrite in_seq. lia.
  Qed.

  Lemma reduce_frame s i k s' : reduce L s i k = Some s' ->
    (i < k)%nat /\ (k < nr s)%nat /\ nr s' = nr s /\ step s' = step s /\ det s' = det s /\
    (forall a b, (a < nr s)%nat -> (b < nr s)%nat -> (a <> k \/ i < b)%nat -> lam s' a b = lam s a b) /\
    lsize_ok L (lam s' k i) (dt s i) = true.
  Proof.
    cbv beta zeta delta [reduce].
    destruct (Nat.ltb_spec i k) as [Hik|]; [|discriminate].
    destruct (Nat.ltb_spec k (nr s)) as [Hk|]; [|discriminate]. cbn [negb orb].
    destruct (ldiv_round L _ _) as [q|] eqn:Eq; [|discriminate]. cbn [obind].
    pose proof (ll_div_round_some L LW _ _ _ Eq) as Hsz. rewrite mget_eq in Hsz.
    destruct (reqb o q (rzero o)) eqn:Eq0.
    - intros H. injection H as <-. apply (reqb_eq o RL) in Eq0. subst q.
      repeat split; try assumption; try reflexivity.
      replace (lam s k i) with (rsub o (lam s k i) (rmul o (rzero o) (dt s i))); [exact Hsz|].
      unfold rsub. ring.
    - intros H. apply add_row_to_frame in H. destruct H as (_ & _ & Hn & _ & Hs & Hd & Hf & Hki).
      repeat split; try assumption.
      rewrite Hki. replace (radd o (lam s k i) (rmul o (rneg o q) (dt s i))) with (rsub o (lam s k i) (rmul o q (dt s i)));
        [exact Hsz|]. unfold rsub. ring.
  Qed.

  Lemma rev_seq_S t : rev (seq 0 (S t)) = t :: rev (seq 0 t).
  Proof. rewrite seq_S, rev_app_distr. reflexivity. Qed.

  Lemma reduce_down k : forall t s s2, (t <= k)%nat ->
    ofold (fun x i => reduce L x i k) (rev (seq 0 t)) s = Some s2 ->
    nr s2 = nr s /\ step s2 = step s /\ det s2 = det s /\
    (forall a b, (a < nr s)%nat -> (b < nr s)%nat -> (a <> k \/ t <= b)%nat -> lam s2 a b = lam s a b) /\
    (forall i, (i < t)%nat -> lsize_ok L (lam s2 k i) (dt s i) = true).
  Proof.
    induction t as [|t IH]; intros s s2 Ht H.
    - cbn in H. injection H as <-. repeat split; try reflexivity. intros i Hi. lia.
    - rewrite rev_seq_S, ofold_cons in H. destruct (reduce L s t k) as [s1|] eqn:E1; [|discriminate].
      cbn [obind] in H. apply reduce_frame in E1. destruct E1 as (Htk & Hk & Hn1 & Hs1 & Hd1 & Hf1 & Hz1).
      apply IH in H; [|lia]. destruct H as (Hn2 & Hs2 & Hd2 & Hf2 & Hz2).
      rewrite Hn1 in *. rewrite Hd1 in *. repeat split; try congruence.
      + intros a b Ha Hb Hab. rewrite Hf2 by (try assumption; lia). apply Hf1; try assumption; lia.
      + intros i Hi. destruct (Nat.eq_dec i t) as [->|Hne].
        * rewrite Hf2 by (try lia). exact Hz1.
        * apply Hz2. lia.
  Qed.

  Lemma swap_frame s k s' : swap L s k = Some s' ->
    (1 <= k)%nat /\ (k < nr s)%nat /\ nr s' = nr s /\ step s' = step s /\
    (forall j, (j < nr s)%nat -> j <> (k - 1)%nat -> dt s' j = dt s j) /\
    (forall a b, (a < nr s)%nat -> (b < nr s)%nat -> (a < k - 1)%nat -> lam s' a b = lam s a b).
  Proof.
    cbv beta zeta delta [swap].
    destruct (Nat.eqb_spec k 0) as [|Hk0]; [discriminate|].
    destruct (Nat.ltb_spec k (nr s)) as [Hk|]; [|discriminate]. cbn [negb orb].
    destruct (ofold _ _ _) as [l2|] eqn:E2; [|discriminate]. cbn [obind].
    destruct (ldiv L _ _) as [dk|]; [|discriminate]. cbn [obind].
    intros H. injection H as <-. cbn [nr step det lambda].
    repeat split; try lia.
    - intros j Hj Hne. rewrite (vget_vset L) by assumption. destruct (Nat.eqb_spec j (k - 1)); [contradiction|reflexivity].
    - intros a b Ha Hb Hak. rewrite (lget_m_set L) by assumption.
      destruct (Nat.eqb_spec a k); [lia|]. cbn [andb].
      set (l1 := lmk (nr s) (nr s) _) in E2.
      assert (H1 : lget o l2 a b = lget o l1 a b).
      { eapply (ofold_inv _ (fun l => forall a b, (a < nr s)%nat -> (b < nr s)%nat -> (a <= k)%nat -> lget o l a b = lget o l1 a b)
                          (fun i => (k + 1 <= i)%nat)); [| | |exact E2|assumption|assumption|lia].
        - intros x i x' Hi Hx. cbv beta zeta delta [swap_lambda_step].
          destruct (ldiv L _ _) as [s0|]; [|discriminate]. cbn [obind].
          destruct (ldiv L _ _) as [t0|]; [|discriminate]. cbn [obind].
          intros H. injection H as <-. intros a0 b0 Ha0 Hb0 Hle.
          rewrite !(lget_m_set L) by assumption.
          destruct (Nat.eqb_spec a0 i); [lia|]. cbn [andb]. now apply Hx.
        - intros i Hi. apply in_seq in Hi. lia.
        - intros; reflexivity. }
      rewrite H1. unfold l1. rewrite lget_lmk by assumption. rewrite !mget_eq.
      destruct (Nat.eqb_spec a (k - 1)); [lia|]. destruct (Nat.eqb_spec a k); [lia|].
      destruct (b <? k - 1)%nat; reflexivity.
  Qed.

  Lemma lovasz_ok_ext s s' k : nr s' = nr s ->
    (forall j, (j <= k)%nat -> dt s' j = dt s j) -> lam s' k (k - 1) = lam s k (k - 1) ->
    lovasz_ok L s' k = lovasz_ok L s k.
  Proof.
    intros Hn Hd Hl. cbv beta zeta delta [lovasz_ok]. rewrite Hn.
    destruct (_ || _); [reflexivity|]. rewrite !mget_eq, Hl, !Hd by lia. reflexivity.
  Qed.

  (* ---------- the loop invariant ---------- *)
  Definition exit_inv (s : lll_data) : Prop :=
    (1 <= step s)%nat /\
    (forall k, (1 <= k)%nat -> (k < step s)%nat -> (k < nr s)%nat -> lovasz_ok L s k = Some true) /\
    (forall i k, (i < k)%nat -> (k < step s)%nat -> (k < nr s)%nat -> lsize_ok L (lam s k i) (dt s i) = true).

  Lemma lll_iterate_exit_inv s s' : exit_inv s -> lll_iterate L s = Some s' -> exit_inv s'.
  Proof.
    intros (Hst & Hlov & Hsz). cbv beta zeta delta [lll_iterate]. set (k := step s) in *.
    destruct (reduce L s (k - 1) k) as [s1|] eqn:E1; [|discriminate]. cbn [obind].
    apply reduce_frame in E1. destruct E1 as (_ & Hk & Hn1 & Hs1 & Hd1 & Hf1 & Hz1).
    destruct (lovasz_ok L s1 k) as [[|]|] eqn:Elov; [| |discriminate]; cbn [obind].
    - destruct (ofold _ _ s1) as [s2|] eqn:E2; [|discriminate]. cbn [obind].
      intros H. injection H as <-.
      apply reduce_down in E2; [|lia]. destruct E2 as (Hn2 & Hs2 & Hd2 & Hf2 & Hz2).
      rewrite Hn1 in *. rewrite Hd1 in *.
      unfold exit_inv. cbn [next with_step step nr det lambda].
      rewrite Hs2, Hs1. fold k. split; [lia|]. split.
      + intros k' H1 H2 H3. rewrite Hn2 in H3.
        change (lovasz_ok L (next s2) k') with (lovasz_ok L s2 k').
        destruct (Nat.eq_dec k' k) as [->|Hne].
        * rewrite <- Elov. apply lovasz_ok_ext; [congruence|intros; now rewrite Hd2, ?Hd1|].
          apply Hf2; lia.
        * rewrite <- (Hlov k') by lia. apply lovasz_ok_ext; [congruence|intros; now rewrite Hd2, ?Hd1|].
          rewrite Hf2 by lia. apply Hf1; lia.
      + intros i k' H1 H2 H3. rewrite Hn2 in H3. rewrite Hd2.
        destruct (Nat.eq_dec k' k) as [->|Hne].
        * destruct (Nat.eq_dec i (k - 1)) as [->|Hi].
          -- rewrite Hf2 by lia. exact Hz1.
          -- apply Hz2. lia.
        * rewrite Hf2 by lia. rewrite Hf1 by lia. apply Hsz; lia.
    - destruct (swap L s1 k) as [s2|] eqn:E2; [|discriminate]. cbn [obind].
      intros H. injection H as <-.
      apply swap_frame in E2. destruct E2 as (_ & _ & Hn2 & Hs2 & Hd2 & Hf2).
      rewrite Hn1 in *. rewrite Hd1 in *.
      unfold back. rewrite Hs2, Hs1. fold k.
      destruct (Nat.ltb_spec 1 k) as [Hk1|Hk1].
      + unfold exit_inv. cbn [with_step step nr det lambda]. split; [lia|]. split.
        * intros k' H1 H2 H3. rewrite Hn2 in H3.
          change (lovasz_ok L (with_step s2 (k - 1)) k') with (lovasz_ok L s2 k').
          rewrite <- (Hlov k') by lia. apply lovasz_ok_ext; [congruence| |].
          -- intros j Hj. apply Hd2; lia.
          -- rewrite Hf2 by lia. apply Hf1; lia.
        * intros i k' H1 H2 H3. rewrite Hn2 in H3.
          rewrite Hd2 by lia. rewrite Hf2 by lia. rewrite Hf1 by lia. apply Hsz; lia.
      + unfold exit_inv. rewrite Hs2, Hs1. fold k. split; [lia|]. split; intros; lia.
  Qed.

  Lemma lll_loop_exit_inv fuel : forall s s', exit_inv s -> lll_loop L fuel s = Some s' ->
    exit_inv s' /\ (nr s' <= step s')%nat.
  Proof.
    induction fuel as [|f IH]; intros s s' HI; cbn [lll_loop];
      destruct (Nat.ltb_spec (step s) (nr s)) as [Hlt|Hge]; try discriminate;
      try (intros H; injection H as <-; split; [exact HI|exact Hge]).
    destruct (lll_iterate L s) as [s1|] eqn:E; [|discriminate]. cbn [obind].
    apply IH. now apply (lll_iterate_exit_inv s).
  Qed.

  Lemma setup_step s s' : setup L s = Some s' -> step s' = step s.
  Proof.
    cbv beta zeta delta [setup]. destruct (orthogonalize L _) as [[[c l] d]|]; [|discriminate].
    cbn [obind]. intros H. injection H as <-. reflexivity.
  Qed.

  Theorem lll_exit A fl fuel s : lll_run L A fl fuel = Some s ->
    (forall k, (1 <= k)%nat -> (k < nr s)%nat -> lovasz_ok L s k = Some true) /\
    (forall i k, (i < k)%nat -> (k < nr s)%nat -> lsize_ok L (mget L (lambda s) k i) (vget L (det s) i) = true).
  Proof.
    unfold lll_run. destruct (setup L _) as [s1|] eqn:E; [|discriminate]. cbn [obind].
    intros H. apply lll_loop_exit_inv in H.
    - destruct H as ((_ & Hlov & Hsz) & Hexit). split.
      + intros k H1 H2. apply Hlov; lia.
      + intros i k H1 H2. rewrite mget_eq. apply Hsz; lia.
    - apply setup_step in E. unfold exit_inv. rewrite E. cbn [data_new step].
      split; [lia|]. split; intros; lia.
  Qed.
End Exit.
