(* C16 (rest): over an integral domain, Ring::is_unit of PolyBase is EXACTLY invertibility in the polynomial
   ring: p.is_unit() <-> exists q, p * q = 1.  (Over a ring with zero divisors the code's is_unit is only
   sufficient: 1 + 2x is its own inverse in (Z/4)[x] but is_unit answers false; yui only instantiates
   polynomial rings over Z, Q, F_p, Z[i], Z[w], which are domains.)
   Proof: for any total order on the monomials compatible with the product, the product of the two top
   terms is the top term of the product (no cancellation over a domain); applied to cmp_grlex and to its
   reverse, p * q = 1 forces top(p) = bottom(p), i.e. p is a single term a*x with x and a invertible. *)
From Coq Require Import List Bool Arith NArith ZArith Lia Permutation Ring.
Require Import Yui.Base.Ring Yui.Model.Lc Yui.Model.Mono Yui.Model.Poly.
Require Import Yui.Proofs.C16Lc Yui.Proofs.C16Mono Yui.Proofs.C16Poly Yui.Proofs.C16RestMono.
Require Import Yui.Proofs.C16RestLead Yui.Proofs.C16RestUnit.
Import ListNotations.

Section Domain.
  Context {X R : Type} (m : mono_ops X) (o : ring_ops R) (ok : X -> Prop).
  Context (ML : mono_laws m ok) (L : ring_laws o).

  Add Ring Rd : (ring_theory_of_laws o L).

  Notation "0" := (rzero o).
  Notation "1" := (rone o).
  Infix "+" := (radd o).
  Infix "*" := (rmul o).
  Notation poly := (lc X R).
  Notation xeqb := (meqb m).
  Notation coeff := (coeff xeqb o).
  Notation delta := (delta xeqb o).
  Notation lsum := (@lsum X R o).
  Notation keys := (@keys X R).
  Notation WF := (WF o ok).
  Infix "**" := (mmul m) (at level 40, left associativity).
  Infix "==" := (peq m o) (at level 70).

  Let xeqb_eq : forall x y, xeqb x y = true <-> x = y := meqb_eq m ok ML.

  Section TopTerm.
    Context (c : X -> X -> comparison) (CO : ord_laws ok c).
    Context (CM : forall x y z, ok x -> ok y -> ok z -> c (x ** z) (y ** z) = c x y).

    Definition is_top (a : poly) (x : X) : Prop :=
      coeff a x <> 0 /\ forall y, coeff a y <> 0 -> y <> x -> c y x = Lt.

    Lemma lt_neq x y : ok x -> ok y -> c x y = Lt -> x <> y.
    Proof. intros Hx Hy H E. destruct CO as (OE & _ & _). subst y. rewrite (proj2 (OE x x Hx Hx) eq_refl) in H. discriminate. Qed.

    Lemma CM_l x y z : ok x -> ok y -> ok z -> c (z ** x) (z ** y) = c x y.
    Proof. intros Hx Hy Hz. rewrite (mmul_comm m ok ML z x), (mmul_comm m ok ML z y) by assumption. now apply CM. Qed.

    Lemma top_exists a : WF a -> a <> [] -> exists x, is_top a x.
    Proof.
      intros [Na Ka] Hne. destruct a as [|t r]; [congruence|].
      unfold KeysOk, Lc.keys in Ka. rewrite Forall_map in Ka. inversion Ka as [|? ? Kt Kr]; subst.
      destruct (max_fold fst ok c CO r t Kt Kr) as [I1 I2]. set (res := fold_left _ r t) in *.
      destruct CO as (OE & _ & _). rewrite Forall_forall in Ka.
      destruct res as [x cx] eqn:Eres. cbn [fst] in *.
      pose proof (proj1 (in_terms_iff xeqb o xeqb_eq (t :: r) x cx Na) I1) as [Ec Nc].
      exists x. split; [now rewrite Ec|]. intros y Hy Hyx.
      apply (support_keys xeqb o xeqb_eq _ Na) in Hy. unfold Lc.keys in Hy. apply in_map_iff in Hy as [s [<- Is]].
      specialize (I2 s Is). destruct (c (fst s) x) eqn:C; [|reflexivity|congruence].
      apply OE in C; [contradiction|now apply Ka|]. apply (Ka (x, cx)). exact I1.
    Qed.

    Lemma top_ok a x : WF a -> is_top a x -> ok x.
    Proof.
      intros Ha [Hx _]. destruct (p_support m o ok ML a Ha) as (_ & Hs & Hk & _). rewrite Forall_forall in Hk. now apply Hk, Hs.
    Qed.

    (* the coefficient of top(a)*top(b) in a*b is the product of the two top coefficients *)
    Lemma top_coeff a b x y : WF a -> WF b -> is_top a x -> is_top b y ->
      coeff (p_lc_mul m o a b) (x ** y) = coeff a x * coeff b y.
    Proof.
      intros Ha Hb Tx Ty. pose proof (top_ok a x Ha Tx) as Hx. pose proof (top_ok b y Hb Ty) as Hy.
      destruct (p_support m o ok ML a Ha) as (Da & Sa & Ka & _). destruct (p_support m o ok ML b Hb) as (Db & Sb & Kb & _).
      rewrite Forall_forall in Ka, Kb. destruct CO as (OE & OA & OT).
      rewrite (coeff_lc_mul_terms m o ok ML L).
      transitivity (lsum (fun x' r => delta x x' r * coeff b y) a).
      2:{ rewrite (lsum_scal_r o L). f_equal. symmetry. apply (coeff_rcoeff xeqb o xeqb_eq L a x Da). }
      apply (lsum_ext_keys o). intros x' r Ix'. pose proof (Ka _ Ix') as Hx'.
      destruct (xeqb_spec xeqb xeqb_eq x' x) as [->|Nx].
      - rewrite (delta_same m o ok ML).
        transitivity (lsum (fun y' s => r * delta y y' s) b).
        2:{ rewrite (lsum_scal_l o L). f_equal. symmetry. apply (coeff_rcoeff xeqb o xeqb_eq L b y Db). }
        apply (lsum_ext_keys o). intros y' s Iy'. pose proof (Kb _ Iy') as Hy'.
        destruct (xeqb_spec xeqb xeqb_eq y' y) as [->|Ny].
        + now rewrite !(delta_same m o ok ML).
        + rewrite (delta_other m o ok ML y y' s Ny). rewrite (delta_other m o ok ML); [ring|].
          apply lt_neq; auto using (mmul_ok m ok ML). rewrite CM_l by assumption. apply Ty; [now apply Sb|assumption].
      - rewrite (delta_other m o ok ML x x' r Nx).
        transitivity (lsum (fun _ _ => 0) b); [|rewrite (lsum_zero o L); ring].
        apply (lsum_ext_keys o). intros y' s Iy'. pose proof (Kb _ Iy') as Hy'.
        apply (delta_other m o ok ML). apply lt_neq; auto using (mmul_ok m ok ML).
        assert (C1 : c (x' ** y') (x ** y') = Lt) by (rewrite CM by assumption; apply Tx; [now apply Sa|assumption]).
        destruct (xeqb_spec xeqb xeqb_eq y' y) as [->|Ny]; [assumption|].
        apply (OT _ (x ** y')); auto using (mmul_ok m ok ML).
        rewrite CM_l by assumption. apply Ty; [now apply Sb|assumption].
    Qed.
  End TopTerm.

  Context (MU : mono_unit_laws m ok) (u : unit_ops R) (UL : unit_laws o u).

  Theorem invertible_is_unit p q : integral o -> WF p -> WF q -> p_mul m o p q == p_one m o -> p_is_unit m u p = true.
  Proof.
    intros [N1 Dom] Hp Hq E.
    pose proof (mone_ok m ok ML) as H1.
    assert (Eone : forall z, coeff (p_one m o) z = delta z (mone m) 1) by (intros z; apply (coeff_from_pair m o ok ML L)).
    assert (El : forall z, coeff (p_lc_mul m o p q) z = delta z (mone m) 1).
    { intros z. rewrite <- Eone, <- E. symmetry. now apply (p_mul_spec m o ok ML L). }
    assert (Np : p <> []).
    { intros ->. specialize (El (mone m)). rewrite (lc_mul_nil_l m o ok ML L), (delta_same m o ok ML) in El. congruence. }
    assert (Nq : q <> []).
    { intros ->. specialize (El (mone m)). rewrite (lc_mul_nil_r m o ok ML L), (delta_same m o ok ML) in El. congruence. }
    set (cg := mcmp_grlex m). set (cr := fun x y => mcmp_grlex m y x).
    pose proof (mgrlex_ord m ok ML) as Og. pose proof (mgrlex_mul m ok ML) as Mg.
    assert (Or : ord_laws ok cr).
    { destruct Og as (OE & OA & OT). unfold cr. split; [|split].
      - intros x y Hx Hy. rewrite (OE y x Hy Hx). split; congruence.
      - intros x y Hx Hy. now apply OA.
      - intros x y z Hx Hy Hz C1 C2. now apply (OT z y x). }
    assert (Mr : forall x y z, ok x -> ok y -> ok z -> cr (x ** z) (y ** z) = cr x y) by (intros; unfold cr; now apply Mg).
    destruct (top_exists cg Og p Hp Np) as [x Tx]. destruct (top_exists cg Og q Hq Nq) as [y Ty].
    destruct (top_exists cr Or p Hp Np) as [x' Tx']. destruct (top_exists cr Or q Hq Nq) as [y' Ty'].
    pose proof (top_ok cg p x Hp Tx) as Hx. pose proof (top_ok cg q y Hq Ty) as Hy.
    pose proof (top_ok cr p x' Hp Tx') as Hx'. pose proof (top_ok cr q y' Hq Ty') as Hy'.
    assert (P1 : forall a b, a <> 0 -> b <> 0 -> a * b <> 0) by (intros a b Na Nb Eab; destruct (Dom a b Eab); contradiction).
    assert (Exy : x ** y = mone m /\ coeff p x * coeff q y = 1).
    { pose proof (top_coeff cg Og Mg p q x y Hp Hq Tx Ty) as T. rewrite El in T.
      destruct (xeqb_spec xeqb xeqb_eq (mone m) (x ** y)) as [Eo|No].
      - rewrite <- Eo, (delta_same m o ok ML) in T. split; congruence.
      - exfalso. rewrite (delta_other m o ok ML _ _ _ No) in T. apply (P1 _ _ (proj1 Tx) (proj1 Ty)). congruence. }
    assert (Exy' : x' ** y' = mone m).
    { pose proof (top_coeff cr Or Mr p q x' y' Hp Hq Tx' Ty') as T. rewrite El in T.
      destruct (xeqb_spec xeqb xeqb_eq (mone m) (x' ** y')) as [Eo|No]; [congruence|].
      exfalso. rewrite (delta_other m o ok ML _ _ _ No) in T. apply (P1 _ _ (proj1 Tx') (proj1 Ty')). congruence. }
    destruct Exy as [Exy Ec]. destruct Og as (OE & OA & OT).
    assert (Exx : x' = x).
    { destruct (xeqb_spec xeqb xeqb_eq x' x) as [Eq|Nx]; [assumption|]. exfalso.
      assert (C1 : cg (x' ** y') (x ** y') = Lt) by (unfold cg; rewrite Mg by assumption; apply Tx; [apply Tx'|assumption]).
      assert (C2 : cg (x' ** y') (x ** y) = Lt).
      { destruct (xeqb_spec xeqb xeqb_eq y' y) as [<-|Ny]; [assumption|].
        apply (OT _ (x ** y')); auto using (mmul_ok m ok ML).
        rewrite (mmul_comm m ok ML x y'), (mmul_comm m ok ML x y) by assumption. unfold cg. rewrite Mg by assumption.
        apply Ty; [apply Ty'|assumption]. }
      rewrite Exy, Exy' in C2. unfold cg in C2. rewrite (proj2 (OE _ _ H1 H1) eq_refl) in C2. discriminate. }
    subst x'.
    assert (Sup : forall z, coeff p z <> 0 -> z = x).
    { intros z Hz. destruct (xeqb_spec xeqb xeqb_eq z x) as [Eq|Nz]; [assumption|]. exfalso.
      pose proof (proj2 Tx z Hz Nz) as C1. pose proof (proj2 Tx' z Hz Nz) as C2. unfold cr in C2. unfold cg in C1.
      assert (Hz' : ok z). { destruct (p_support m o ok ML p Hp) as (_ & Hs & Hk & _). rewrite Forall_forall in Hk. now apply Hk, Hs. }
      rewrite (OA z x Hz' Hx), C1 in C2. discriminate. }
    assert (Ep : p = [(x, coeff p x)]).
    { apply (peq_single m o ok ML); try assumption; [apply Tx|]. intros z.
      destruct (xeqb_spec xeqb xeqb_eq x z) as [<-|Nz]; [now rewrite (delta_same m o ok ML)|].
      rewrite (delta_other m o ok ML _ _ _ Nz). destruct (ris_zero_spec o L (coeff p z)) as [Z|NZ]; [assumption|].
      exfalso. apply Nz. symmetry. now apply Sup. }
    rewrite Ep. cbn [p_is_unit]. apply andb_true_iff. split.
    - now apply (munit_complete m ok MU x y).
    - now apply (runit_complete o u UL _ (coeff q y)).
  Qed.

  Theorem is_unit_iff_invertible p : integral o -> WF p ->
    (p_is_unit m u p = true <-> exists q, WF q /\ p_mul m o p q == p_one m o).
  Proof.
    intros Dom Hp. split.
    - intros H. destruct (is_unit_invertible m o ok ML L MU u UL p Hp H) as [q [Hq E]]. exists q. split; [assumption|].
      rewrite E. apply (peq_refl m o).
    - intros [q [Hq E]]. now apply (invertible_is_unit p q).
  Qed.
End Domain.
