(* C18 - the writhe of a braid closure is the exponent sum of the word.
   By C18Orient the signs are those of the downward orientation with a set [rev] of components reversed,
   none of which passes under.  Reversing such components does not change the writhe: with
   Phi(k) = sum of the positions occupied at level k by reversed strands, a crossing whose over-strand is
   reversed changes Phi by minus its sign (the under-strand is not reversed), all other crossings leave
   Phi unchanged, and Phi(|w|) = Phi(0) because level |w| is glued to level 0. *)
From Coq Require Import List Arith Bool Lia ZArith.
Require Import Yui.Model.Link Yui.Model.Braid Yui.Proofs.C18Base Yui.Proofs.C18Traverse
  Yui.Proofs.C18Components Yui.Proofs.C18Main Yui.Proofs.C18Orient Yui.Proofs.C18BraidRows
  Yui.Proofs.C18BraidOrient.
Import ListNotations.
Local Open Scope Z_scope.

Definition val (s : sign) : Z := match s with Pos => 1 | Neg => -1 end.
Definition b2z (b : bool) : Z := if b then 1 else 0.
Fixpoint zsum (g : nat -> Z) (n : nat) : Z := match n with O => 0 | S n' => zsum g n' + g n' end.
Definition lsum (l : list Z) : Z := fold_right Z.add 0 l.

Lemma zsum_ext : forall g g' n, (forall k, (k < n)%nat -> g k = g' k) -> zsum g n = zsum g' n.
Proof.
  induction n as [|n IH]; intros H; cbn [zsum]; auto. rewrite IH by (intros; apply H; lia).
  rewrite H by lia. reflexivity.
Qed.
Lemma zsum_upd1 : forall g g' n i, (i < n)%nat -> (forall j, (j < n)%nat -> j <> i -> g' j = g j) ->
  zsum g' n = zsum g n + (g' i - g i).
Proof.
  induction n as [|n IH]; intros i Hi H; [lia|]. cbn [zsum].
  destruct (Nat.eq_dec i n) as [->|N].
  - rewrite (zsum_ext g' g n) by (intros; apply H; lia). lia.
  - rewrite (IH i) by (try lia; intros; apply H; lia). rewrite (H n) by lia. lia.
Qed.
Lemma zsum_upd2 : forall g g' n i, (S i < n)%nat ->
  (forall j, (j < n)%nat -> j <> i -> j <> S i -> g' j = g j) ->
  zsum g' n = zsum g n + (g' i - g i) + (g' (S i) - g (S i)).
Proof.
  intros g g' n i Hi H.
  set (h := fun j => if (j =? i)%nat then g' i else g j).
  assert (E1 : zsum h n = zsum g n + (h i - g i)).
  { apply zsum_upd1; [lia|]. intros j Hj N. unfold h. apply Nat.eqb_neq in N. rewrite N. reflexivity. }
  assert (E2 : zsum g' n = zsum h n + (g' (S i) - h (S i))).
  { apply zsum_upd1; [lia|]. intros j Hj N. unfold h. destruct (Nat.eqb_spec j i) as [->|N']; auto. }
  unfold h in E1 at 2. unfold h in E2 at 2. rewrite Nat.eqb_refl in E1.
  assert ((S i =? i)%nat = false) as Q by (apply Nat.eqb_neq; lia). rewrite Q in E2. lia.
Qed.
Lemma zsum_add : forall g g' n, zsum (fun k => g k + g' k) n = zsum g n + zsum g' n.
Proof. induction n; cbn [zsum]; lia. Qed.
Lemma zsum_scale : forall c g n, zsum (fun k => c * g k) n = c * zsum g n.
Proof. induction n; cbn [zsum]; lia. Qed.

Lemma lsum_app : forall a b, lsum (a ++ b) = lsum a + lsum b.
Proof. induction a; intros; cbn; auto. unfold lsum in *. rewrite IHa. lia. Qed.
Lemma lsum_seq : forall g n, lsum (map g (seq 0 n)) = zsum g n.
Proof.
  induction n as [|n IH]; [reflexivity|]. rewrite seq_S, map_app, lsum_app, IH. cbn. lia.
Qed.
Lemma lsum_nth : forall (h : Z -> Z) w, lsum (map h w) = zsum (fun k => h (nth k w 0)) (length w).
Proof.
  intros h w. induction w as [|s w IH] using rev_ind; [reflexivity|].
  rewrite map_app, lsum_app, app_length, IH. cbn [length map]. rewrite Nat.add_1_r. cbn [zsum].
  rewrite app_nth2, Nat.sub_diag by lia. cbn [nth lsum fold_right].
  rewrite (zsum_ext (fun k => h (nth k (w ++ [s]) 0)) (fun k => h (nth k w 0))); [lia|].
  intros k Hk. rewrite app_nth1; auto.
Qed.

Lemma count_val : forall sg, Z.of_nat (count_pos sg) - Z.of_nat (count_neg sg) = lsum (map val sg).
Proof.
  unfold count_pos, count_neg. induction sg as [|[] sg IH]; [reflexivity| |];
    cbn [filter is_pos negb length map val]; change (lsum (?a :: ?r)) with (a + lsum r);
    cbn [lsum fold_right]; fold (lsum (map val sg)); lia.
Qed.

Lemma exponent_sum_lsum : forall w, exponent_sum w = lsum (map Z.sgn w).
Proof.
  unfold exponent_sum. assert (H : forall w a, fold_left (fun a s => a + Z.sgn s) w a = a + lsum (map Z.sgn w)).
  { induction w as [|s w IH]; intros a; cbn; [lia|]. rewrite IH. unfold lsum. lia. }
  intros w. rewrite H. lia.
Qed.

Lemma sgn_letter : forall s, s <> 0 -> Z.sgn s = val (letter_sign s).
Proof. intros s Hs. unfold letter_sign. destruct s; cbn; auto. contradiction. Qed.

Section BraidWrithe.
  Variable n : nat.
  Variable w : list Z.
  Variable l : link.
  Variable lb : nat -> nat -> nat.
  Hypothesis D : BraidDiag n w l lb.
  Variable rev : nat -> bool.
  Hypothesis Hthru : forall e e', thru l e e' -> rev e = rev e'.
  Hypothesis Hunder : forall k, (k < length l)%nat -> rev (edge_at l (k, 0%nat)) = false.

  Let m := length w.
  Local Notation sk k := (nth k w 0%Z).
  Local Notation ik k := (idx (nth k w 0%Z)).

  (* the strand through crossing k that arrives at offset off leaves at offset 1 - off *)
  Lemma thru_cross : forall k j, (k < m)%nat -> (j < 4)%nat -> slot_out (sk k) j = false ->
    thru l (lb k (ik k + slot_off (sk k) j)%nat) (lb (S k) (ik k + (1 - slot_off (sk k) j))%nat).
  Proof.
    intros k j Hk Hj So. exists (k, j). split; [apply (bd_InR n w l lb D); cbn; auto|]. split.
    - rewrite (edge_lab n w l lb D k j Hk Hj). rewrite So. cbn [b2n]. rewrite Nat.add_0_r. reflexivity.
    - rewrite (bd_exit n w l lb D k j Hk).
      rewrite (edge_lab n w l lb D k _ Hk) by (apply Nat.mod_upper_bound; lia).
      rewrite slot_out_pass, slot_off_pass, So by auto. cbn [negb b2n]. rewrite Nat.add_1_r. reflexivity.
  Qed.

  Definition Phi (k : nat) : Z := zsum (fun j => b2z (rev (lb k j)) * Z.of_nat j) n.
  Definition flipped (k : nat) : Z := val (letter_sign (sk k)) * b2z (rev (edge_at l (k, 1%nat))).

  Lemma Phi_step : forall k, (k < m)%nat -> Phi (S k) = Phi k - flipped k.
  Proof.
    intros k Hk. pose proof (bd_idx _ _ _ _ D k Hk) as Hi.
    unfold Phi. rewrite (zsum_upd2 (fun j => b2z (rev (lb k j)) * Z.of_nat j) _ n (ik k) Hi).
    2: { intros j Hj N1 N2. cbn beta. rewrite (bd_keep _ _ _ _ D k j); auto. }
    cbn beta.
    assert (HL : (k < length l)%nat) by (rewrite (bd_len _ _ _ _ D); exact Hk).
    pose proof (Hunder k HL) as U.
    rewrite (edge_lab n w l lb D k 0 Hk) in U by lia.
    unfold flipped. rewrite (edge_lab n w l lb D k 1 Hk) by lia.
    unfold letter_sign. unfold slot_out, slot_off in *.
    destruct (0 <? sk k)%Z eqn:Sg; cbn [b2n orb Nat.eqb] in *; rewrite ?Nat.add_0_r, ?Nat.add_1_r in *.
    - (* positive letter: under-strand from (k, i) to (k+1, i+1), over-strand from (k, i+1) to (k+1, i) *)
      pose proof (thru_cross k 0 Hk ltac:(lia)) as T0. pose proof (thru_cross k 3 Hk ltac:(lia)) as T3.
      unfold slot_out, slot_off in T0, T3. rewrite Sg in T0, T3. cbn in T0, T3.
      specialize (T0 eq_refl). specialize (T3 eq_refl).
      rewrite ?Nat.add_0_r, ?Nat.add_1_r in *.
      rewrite <- (Hthru _ _ T0), <- (Hthru _ _ T3), U. cbn [b2z val]. lia.
    - pose proof (thru_cross k 0 Hk ltac:(lia)) as T0. pose proof (thru_cross k 1 Hk ltac:(lia)) as T1.
      unfold slot_out, slot_off in T0, T1. rewrite Sg in T0, T1. cbn in T0, T1.
      specialize (T0 eq_refl). specialize (T1 eq_refl).
      rewrite ?Nat.add_0_r, ?Nat.add_1_r in *.
      rewrite <- (Hthru _ _ T0), <- (Hthru _ _ T1), U. cbn [b2z val]. lia.
  Qed.

  Lemma Phi_sum : forall k, (k <= m)%nat -> Phi k = Phi 0 - zsum flipped k.
  Proof.
    induction k as [|k IH]; intros Hk; cbn [zsum]; [lia|].
    rewrite Phi_step by lia. rewrite IH by lia. lia.
  Qed.

  Lemma flipped_total : zsum flipped m = 0.
  Proof.
    pose proof (Phi_sum m (le_n m)) as E.
    assert (Phi m = Phi 0); [|lia].
    unfold Phi. apply zsum_ext. intros j Hj. unfold m.
    rewrite (lb_m n w l lb D j Hj), (lb_0 n w l lb D j Hj). reflexivity.
  Qed.

  (* the signs of the orientation "downwards, with the components in rev reversed" *)
  Lemma braid_sgn_rev : forall k, (k < m)%nat ->
    sgn_at l (oxr l (braid_o w) rev) k =
    if rev (edge_at l (k, 1%nat)) then neg_sign (letter_sign (sk k)) else letter_sign (sk k).
  Proof.
    intros k Hk. unfold sgn_at, oxr, braid_o, letter_sign, slot_out. rewrite (bd_X _ _ _ _ D k Hk).
    cbn [fst snd]. destruct (0 <? sk k)%Z; destruct (rev (edge_at l (k, 1%nat))); reflexivity.
  Qed.

  Lemma rev_signs_sum : lsum (map val (signs_of l (oxr l (braid_o w) rev))) = exponent_sum w.
  Proof.
    unfold signs_of. rewrite map_map, lsum_seq. rewrite (bd_len _ _ _ _ D). fold m.
    rewrite (zsum_ext _ (fun k => val (letter_sign (sk k)) + (-2) * flipped k)).
    2: { intros k Hk. rewrite braid_sgn_rev by auto. unfold flipped.
         destruct (rev (edge_at l (k, 1%nat))); destruct (letter_sign (sk k)); cbn; lia. }
    rewrite zsum_add, zsum_scale, flipped_total.
    rewrite exponent_sum_lsum, lsum_nth. fold m. rewrite Z.mul_0_r, Z.add_0_r.
    apply zsum_ext. intros k Hk. symmetry. apply sgn_letter. apply (bd_nz _ _ _ _ D); auto.
  Qed.
End BraidWrithe.

(* ---------------------------------------------------------------------------------------------- *)
Lemma map_nth_seq : forall (w : list Z) (h : Z -> sign),
  map (fun k => h (nth k w 0)) (seq 0 (length w)) = map h w.
Proof.
  intros w h. induction w as [|s w IH] using rev_ind; [reflexivity|].
  rewrite app_length. cbn [length]. rewrite Nat.add_1_r, seq_S, !map_app. cbn [map Nat.add].
  rewrite app_nth2, Nat.sub_diag by lia. cbn [nth]. f_equal. rewrite <- IH.
  apply map_ext_in. intros k Hk. apply in_seq in Hk. rewrite app_nth1; auto; lia.
Qed.

Lemma closure_signs_of : forall n w l, closure n w = Some l -> signs_of l (braid_o w) = map letter_sign w.
Proof.
  intros n w l Hcl. pose proof (closure_diag n w l Hcl) as D.
  unfold signs_of. rewrite (bd_len _ _ _ _ D), <- (map_nth_seq w letter_sign).
  apply map_ext_in. intros k Hk. apply in_seq in Hk. apply (braid_sgn_at n w l _ D). lia.
Qed.

(* a closure is consistently oriented by "all strands run downwards" *)
Theorem closure_oriented_full : forall n w l, closure n w = Some l ->
  Unresolved l /\ Oriented l (braid_o w) /\ signs_of l (braid_o w) = map letter_sign w.
Proof.
  intros n w l H. pose proof (closure_diag n w l H) as D.
  split; [exact (closure_unresolved n w l _ D)|]. split; [exact (closure_oriented n w l _ D)|].
  exact (closure_signs_of n w l H).
Qed.

(* the sign list of a closure: the letters' signs, except that the crossings whose over-strand lies on a
   reversed component (one that never passes under) carry the opposite sign *)
Theorem closure_signs : forall n w l, closure n w = Some l ->
  exists rev : nat -> bool,
    (forall e e', thru l e e' -> rev e = rev e') /\
    (forall k, (k < length w)%nat -> rev (edge_at l (k, 0%nat)) = false) /\
    crossing_signs l =
      Some (map (fun k => if rev (edge_at l (k, 1%nat)) then neg_sign (letter_sign (nth k w 0))
                          else letter_sign (nth k w 0)) (seq 0 (length w))).
Proof.
  intros n w l Hcl. pose proof (closure_diag n w l Hcl) as D.
  destruct (signs_orientation l (bd_valid _ _ _ _ D) (closure_unresolved n w l _ D) (braid_o w)
              (closure_oriented n w l _ D)) as (rev & Ht & Hu & E).
  exists rev. split; auto. split; [intros k Hk; apply Hu; rewrite (bd_len _ _ _ _ D); auto|].
  rewrite E. f_equal. unfold signs_of. rewrite (bd_len _ _ _ _ D).
  apply map_ext_in. intros k Hk. apply in_seq in Hk. apply (braid_sgn_rev n w l _ D); lia.
Qed.

(* when every component passes under somewhere, the sign list is the list of the letters' signs *)
Theorem closure_signs_letters : forall n w l, closure n w = Some l ->
  (forall k, (k < length w)%nat -> exists k', (k' < length w)%nat /\ conn l (edge_at l (k, 1%nat)) (edge_at l (k', 0%nat))) ->
  crossing_signs l = Some (map letter_sign w).
Proof.
  intros n w l Hcl Hall. destruct (closure_signs n w l Hcl) as (rev & Ht & Hu & E).
  rewrite E. f_equal. rewrite <- (map_nth_seq w letter_sign).
  apply map_ext_in. intros k Hk. apply in_seq in Hk.
  destruct (Hall k ltac:(lia)) as (k' & Hk' & C).
  assert (rev (edge_at l (k, 1%nat)) = rev (edge_at l (k', 0%nat))) as ->.
  { clear -C Ht. induction C; auto. congruence. }
  rewrite Hu; auto.
Qed.

(* writhe = exponent sum, for every word whose closure is defined *)
Theorem closure_writhe : forall n w l, closure n w = Some l -> writhe l = Some (exponent_sum w).
Proof.
  intros n w l Hcl. pose proof (closure_diag n w l Hcl) as D.
  destruct (signs_orientation l (bd_valid _ _ _ _ D) (closure_unresolved n w l _ D) (braid_o w)
              (closure_oriented n w l _ D)) as (rev & Ht & Hu & E).
  destruct (writhe_def l) as [W _]. rewrite W, E. cbn [option_map]. f_equal.
  rewrite count_val. apply (rev_signs_sum n w l _ D rev Ht Hu).
Qed.
