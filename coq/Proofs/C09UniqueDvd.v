(* C09 (uniqueness), part 2: the divisibility lemma.
   R a Bezout integral domain, A an m x n matrix with two Smith-type forms of the same rank r,
       P1 A Q1 = diag(a_0 .. a_(r-1), 0 ..),   P2 A Q2 = diag(b_0 .. b_(r-1), 0 ..),
   all a_i, b_i non-zero, a_0 | a_1 | ..., b_0 | b_1 | ....  Then a_k | b_k for every k < r.

   Proof (no determinants).  Fix k and put Ui = P1 P2^-1 (inverse U = P2 P1^-1).
   (1) For l <= k let c = b_k / b_l and w = c e_l.  Then (P2 A Q2) w = b_k e_l, hence A (Q2 w) = b_k P2^-1 e_l and
       D1 (Q1^-1 Q2 w) = P1 A (Q2 w) = b_k Ui e_l:  row i reads  a_i y = b_k Ui[i,l]  (i < r),  0 = b_k Ui[i,l] (i >= r).
   (2) Write g = s a_k + t b_k, a_k = a' g, b_k = b' g, so 1 = s a' + t b'.  For i >= k, a_k | a_i, and (1) gives
       a' | Ui[i,l] for all i >= k, l <= k.
   (3) The k x (k+1) block Ui[..k, ..k+1] has a primitive kernel vector x (C09UniqueKer.prim_kernel).  From
       x = U Ui x and (2): a' divides every entry of x, hence a' | 1, g is an associate of a_k and a_k | b_k. *)
From Coq Require Import Arith List Lia Ring Bool.
Require Import Yui.Base.Ring Yui.Base.MatF Yui.Proofs.C07Algebra Yui.Proofs.C07Rank Yui.Proofs.C09UniqueKer.
Import ListNotations.

Section C09UniqueDvd.
  Context {R : Type} (o : ring_ops R) (L : ring_laws o) (Hint : integral o).

  Local Notation "0" := (rzero o).
  Local Notation "1" := (rone o).
  Local Infix "+" := (radd o).
  Local Infix "*" := (rmul o).
  Local Notation "- x" := (rneg o x).
  Local Notation dvd := (rdvd o).

  Add Ring RringU2 : (ring_theory_of_laws o L).

  Variables (m n : nat) (A P1 Pi1 Q1 Qi1 P2 Pi2 Q2 Qi2 : mat R) (r : nat) (a b : nat -> R).
  Hypothesis B : bezout o.
  Hypothesis S1 : smith o m n A P1 Pi1 Q1 Qi1 (dg o r a) r.
  Hypothesis S2 : smith o m n A P2 Pi2 Q2 Qi2 (dg o r b) r.
  Hypothesis Ca : chain o r a.
  Hypothesis Cb : chain o r b.
  Variable k : nat.
  Hypothesis Hk : (k < r)%nat.

  Let U : mat R := mmul o m P2 Pi1.
  Let Ui : mat R := mmul o m P1 Pi2.

  Lemma r_le : (r <= m)%nat /\ (r <= n)%nat.
  Proof. pose proof (sm_r _ _ _ _ _ _ _ _ _ _ S1). lia. Qed.

  Lemma dg_diag d : is_diag o m n (dg o r d).
  Proof. intros i j _ _ Hne. unfold dg. destruct (Nat.eqb_spec i j); [contradiction|reflexivity]. Qed.

  Lemma dg_ii d i : dg o r d i i = if i <? r then d i else 0.
  Proof. unfold dg. now rewrite Nat.eqb_refl. Qed.

  Lemma U_Ui : meq m m (mmul o m U Ui) (mid o).
  Proof.
    intros i j Hi Hj. unfold U, Ui. rewrite (mmul_assoc o L).
    rewrite (mmul_ext_r o m P2 _ Pi2).
    - now apply (sm_P _ _ _ _ _ _ _ _ _ _ S2).
    - intros l Hl. apply (mmul_cancel_l o L); [apply (sm_P _ _ _ _ _ _ _ _ _ _ S1)|assumption].
  Qed.

  (* step (1) *)
  Lemma column_eq l i : (l <= k)%nat -> (i < m)%nat ->
    exists y, (if i <? r then a i * y else 0) = b k * Ui i l.
  Proof.
    intros Hl Hi. destruct r_le as [Hrm Hrn].
    destruct (chain_le o L r b l k Cb Hl Hk) as [c Hc].
    set (W := (fun (j _ : nat) => if j =? l then c else 0) : mat R).
    set (X := mmul o n Q2 W).
    (* D2 W = b_k e_l *)
    assert (F1 : forall i', (i' < m)%nat -> mmul o n (dg o r b) W i' O = if i' =? l then b k else 0).
    { intros i' Hi'. rewrite (mmul_diag_l o L m n) by (try assumption; apply dg_diag).
      unfold W. rewrite dg_ii.
      destruct (Nat.eqb_spec i' l) as [->|Hne].
      - destruct (Nat.ltb_spec l n); [|lia]. destruct (Nat.ltb_spec l r); [|lia]. rewrite Hc. ring.
      - destruct (i' <? n); ring. }
    (* P2 (A X) = b_k e_l *)
    assert (G1 : forall i', (i' < m)%nat -> mmul o m P2 (mmul o n A X) i' O = if i' =? l then b k else 0).
    { intros i' Hi'. rewrite <- (F1 i' Hi'). unfold X.
      rewrite (mmul_ext_r o m P2 _ (mmul o n (mmul o n A Q2) W))
        by (intros l' _; symmetry; apply (mmul_assoc o L)).
      rewrite <- (mmul_assoc o L).
      apply (mmul_ext_l o). intros l' Hl'. symmetry. now apply (sm_eq _ _ _ _ _ _ _ _ _ _ S2). }
    (* A X = b_k Pi2 e_l *)
    assert (G2 : forall i', (i' < m)%nat -> mmul o n A X i' O = b k * Pi2 i' l).
    { intros i' Hi'.
      rewrite <- (mmul_cancel_l o L m Pi2 P2 (mmul o n A X) i' O)
        by (try assumption; apply (sm_P _ _ _ _ _ _ _ _ _ _ S2)).
      rewrite (mmul_ext_r o m Pi2 _ (fun i0 _ => if i0 =? l then b k else 0)) by (intros l' Hl'; now apply G1).
      unfold mmul. rewrite (sum_single o L m l).
      - rewrite Nat.eqb_refl. ring.
      - lia.
      - intros k0 _ Hne. destruct (Nat.eqb_spec k0 l); [contradiction|ring]. }
    (* P1 (A X) = b_k Ui e_l *)
    assert (G3 : mmul o m P1 (mmul o n A X) i O = b k * Ui i l).
    { unfold Ui. unfold mmul at 1 3. rewrite <- (sum_scal_l o L).
      apply (sum_ext o). intros l' Hl'. rewrite (G2 l' Hl'). ring. }
    (* P1 (A X) = D1 (Qi1 X) *)
    assert (G4 : mmul o m P1 (mmul o n A X) i O
                 = if i <? n then dg o r a i i * mmul o n Qi1 X i O else 0).
    { rewrite <- (mmul_assoc o L).
      rewrite (mmul_ext_l o n _ (mmul o n (dg o r a) Qi1))
        by (intros l' Hl'; now apply (smith_PA o L _ _ _ _ _ _ _ _ _ S1)).
      rewrite (mmul_assoc o L).
      apply (mmul_diag_l o L m n); [apply dg_diag|assumption]. }
    exists (mmul o n Qi1 X i O). rewrite <- G3, G4, dg_ii.
    destruct (Nat.ltb_spec i n); destruct (Nat.ltb_spec i r); try reflexivity; try ring. lia.
  Qed.

  Lemma ak_nz : a k <> 0.
  Proof. pose proof (sm_nz _ _ _ _ _ _ _ _ _ _ S1 k Hk) as H. now rewrite dg_ii in H; destruct (Nat.ltb_spec k r); [|lia]. Qed.
  Lemma bk_nz : b k <> 0.
  Proof. pose proof (sm_nz _ _ _ _ _ _ _ _ _ _ S2 k Hk) as H. now rewrite dg_ii in H; destruct (Nat.ltb_spec k r); [|lia]. Qed.

  Theorem diag_dvd : dvd (a k) (b k).
  Proof.
    destruct r_le as [Hrm Hrn].
    destruct (B (a k) (b k)) as [g [s [t [Hg [[a' Ha'] [b' Hb']]]]]].
    assert (Hgnz : g <> 0).
    { intros E. apply ak_nz. rewrite Ha', E. ring. }
    assert (H1 : s * a' + t * b' = 1).
    { apply (mul_cancel_r o L Hint) with g; [|exact Hgnz].
      transitivity (s * (a' * g) + t * (b' * g)); [ring|]. rewrite <- Ha', <- Hb', <- Hg. ring. }
    (* step (2) *)
    assert (Hdiv : forall i l, (k <= i)%nat -> (i < m)%nat -> (l <= k)%nat -> dvd a' (Ui i l)).
    { intros i l Hki Hi Hl. destruct (column_eq l i Hl Hi) as [y Hy].
      destruct (Nat.ltb_spec i r) as [Hir|Hir].
      - destruct (chain_le o L r a k i Ca Hki Hir) as [e He].
        assert (E : e * a' * y = b' * Ui i l).
        { apply (mul_cancel_r o L Hint) with g; [|exact Hgnz].
          transitivity (e * (a' * g) * y); [ring|]. rewrite <- Ha', <- He, Hy. rewrite Hb' at 1. ring. }
        exists (s * Ui i l + t * e * y).
        transitivity ((s * a' + t * b') * Ui i l); [rewrite H1; ring|].
        transitivity (s * a' * Ui i l + t * (b' * Ui i l)); [ring|]. rewrite <- E. ring.
      - assert (E : Ui i l = 0).
        { destruct (proj2 Hint _ _ (eq_sym Hy)) as [H|H]; [exfalso; now apply bk_nz|exact H]. }
        rewrite E. apply (rdvd_zero o L). }
    (* step (3) *)
    assert (Hkk : (k < S k)%nat) by lia.
    destruct (prim_kernel o L Hint B k (S k) Ui Hkk) as [x [cf [Hcf Hker]]].
    assert (Hx : forall l', (l' < S k)%nat -> dvd a' (x l')).
    { intros l' Hl'.
      assert (E : x l' = mvec o (S k) (mmul o m U Ui) x l').
      { unfold mvec. rewrite (sum_single o L (S k) l').
        - rewrite U_Ui by lia. unfold mid. rewrite Nat.eqb_refl. ring.
        - exact Hl'.
        - intros l Hl Hne. rewrite U_Ui by lia. unfold mid.
          destruct (Nat.eqb_spec l' l); [congruence|ring]. }
      rewrite E, (mvec_mmul o L). unfold mvec at 1.
      apply (rdvd_sum o L). intros i Hi. apply (rdvd_mul_l o L).
      destruct (Nat.ltb_spec i k) as [Hik|Hik].
      - unfold mvec. rewrite (Hker i Hik). apply (rdvd_zero o L).
      - unfold mvec. apply (rdvd_sum o L). intros l Hl. apply (rdvd_mul_r o L). apply Hdiv; lia. }
    assert (H1' : dvd a' 1).
    { rewrite <- Hcf. apply (rdvd_sum o L). intros l Hl. apply (rdvd_mul_l o L). now apply Hx. }
    destruct H1' as [q Hq].
    exists (b' * q). rewrite Hb'. rewrite Ha'.
    transitivity (b' * g * 1); [ring|]. rewrite Hq. ring.
  Qed.
End C09UniqueDvd.
