(* C13, sparse matrices: every operation of Model/Sparse.v on SpMat yields the entries (and the shape,
   and a well-formed CSC structure) that the mathematical definition gives - for every ring with laws,
   every shape (zero dimensions included) and every pattern of explicitly stored zeros.
   [sp_is a m n f]: a is a well-formed m x n sparse matrix whose entry (i,j) is f i j on the m x n window
   (outside the window every entry of a well-formed matrix is 0, lemma entry_outside). *)
From Coq Require Import Arith List Lia Bool Ring Sorted.
Require Import Yui.Base.Ring Yui.Base.MatF Yui.Base.MatL Yui.Model.Dense Yui.Model.Sparse.
Require Import Yui.Proofs.C13Dense Yui.Proofs.C13SpBase.
Import ListNotations.

Section SpProofs.
  Context {R : Type} (o : ring_ops R) (L : ring_laws o).

  Local Notation "0" := (rzero o).
  Local Notation "1" := (rone o).
  Local Infix "+" := (radd o).
  Local Infix "*" := (rmul o).
  Local Notation "- x" := (rneg o x).
  Local Notation ent := (ent R).
  Local Notation spmat := (spmat R).
  Local Notation psum := (psum o).
  Local Notation sp_wf := (@sp_wf R).
  Local Notation klt := (@klt R).

  Add Ring Rring : (ring_theory_of_laws o L).

  Definition sp_is (a : spmat) (m n : nat) (f : nat -> nat -> R) : Prop :=
    sp_m a = m /\ sp_n a = n /\ sp_wf a /\
    forall i j, (i < m)%nat -> (j < n)%nat -> entry o a i j = f i j.

  Lemma sp_is_ext a m n f g :
    sp_is a m n f -> (forall i j, (i < m)%nat -> (j < n)%nat -> f i j = g i j) -> sp_is a m n g.
  Proof.
    intros (H1 & H2 & H3 & H4) E. unfold sp_is. splits; try assumption.
    intros i j Hi Hj. rewrite H4 by assumption. now apply E.
  Qed.

  (* ---------- sums over tabulated lists ---------- *)
  Lemma psum_map_seq P (g : nat -> ent) n :
    psum P (map g (seq 0 n)) = sum o n (fun k => if P (e_row (g k)) (e_col (g k)) then e_val (g k) else 0).
  Proof.
    induction n as [|n IH]; [reflexivity|].
    rewrite seq_S, map_app, (psum_app o L), IH. cbn [Nat.add map psum sum].
    destruct (P (e_row (g n)) (e_col (g n))); ring.
  Qed.

  Lemma psum_flat_map P (A : Type) (g : A -> list ent) (l : list A) :
    psum P (flat_map g l) = fold_right (fun x acc => psum P (g x) + acc) 0 l.
  Proof.
    induction l as [|x r IH]; cbn [flat_map fold_right]; [reflexivity|].
    now rewrite (psum_app o L), IH.
  Qed.

  Lemma fold_sum_seq (f : nat -> R) n :
    fold_right (fun x acc => f x + acc) 0 (seq 0 n) = sum o n f.
  Proof.
    induction n as [|n IH]; [reflexivity|].
    rewrite seq_S, fold_right_app. cbn [Nat.add fold_right sum]. rewrite <- IH.
    generalize (seq 0 n). intros l. induction l as [|x r IHl]; cbn [fold_right]; [ring|]. rewrite IHl. ring.
  Qed.

  Lemma enumerate_from_map (A : Type) (d : A) (l : list A) s :
    enumerate_from s l = map (fun k => (s + k, nth k l d)%nat) (seq 0 (length l)).
  Proof.
    revert s. induction l as [|x r IH]; intros s; cbn [enumerate_from length]; [reflexivity|].
    cbn [seq map nth]. rewrite Nat.add_0_r. f_equal. rewrite IH, <- seq_shift, map_map.
    apply map_ext. intros k. cbn [nth]. f_equal. lia.
  Qed.

  Lemma enumerate_map (A : Type) (d : A) (l : list A) :
    enumerate l = map (fun k => (k, nth k l d)) (seq 0 (length l)).
  Proof. unfold enumerate. now rewrite (enumerate_from_map A d l 0). Qed.

  Lemma sorted_map_seq (g : nat -> ent) s n :
    (forall x y, (x < y)%nat -> klt (g x) (g y)) -> StronglySorted klt (map g (seq s n)).
  Proof.
    intros Hg. revert s. induction n as [|n IH]; intros s; cbn [seq map]; [constructor|].
    constructor; [apply IH|]. apply Forall_forall. intros y Hy. apply in_map_iff in Hy.
    destruct Hy as [k [<- Hk]]. apply in_seq in Hk. apply Hg. lia.
  Qed.

  (* ---------- assemble / from_entries ---------- *)
  Lemma assemble_spec m n l :
    match assemble o m n l with
    | Some a => in_bounds m n l = true /\ sp_m a = m /\ sp_n a = n /\ sp_wf a /\
                (forall P, psum P (sp_st a) = psum P l)
    | None => in_bounds m n l = false
    end.
  Proof.
    unfold assemble. destruct (in_bounds m n l) eqn:B; [|reflexivity].
    cbn [sp_m sp_n sp_st]. splits; try reflexivity.
    - now apply sp_wf_canon.
    - intros P. apply (psum_canon o L).
  Qed.

  Lemma nz_in l e : In e (nz o l) <-> In e l /\ e_val e <> 0.
  Proof.
    unfold nz. rewrite filter_In. unfold ris_zero. split; intros [H1 H2]; (split; [exact H1|]).
    - intros E. rewrite E, (reqb_refl o L) in H2. discriminate.
    - apply negb_true_iff. now apply (reqb_false o L).
  Qed.

  Theorem sp_from_entries_spec m n es :
    match sp_from_entries o m n es with
    | Some a => (forall e, In e es -> e_val e <> 0 -> (e_row e < m)%nat /\ (e_col e < n)%nat) /\
                sp_is a m n (esum o es) /\ (forall P, psum P (sp_st a) = psum P es)
    | None => exists e, In e es /\ e_val e <> 0 /\ ~ ((e_row e < m)%nat /\ (e_col e < n)%nat)
    end.
  Proof.
    unfold sp_from_entries. pose proof (assemble_spec m n (nz o es)) as S.
    destruct (assemble o m n (nz o es)) as [a|].
    - destruct S as (B & H1 & H2 & H3 & H4). splits.
      + intros e He Hv. apply (proj1 (in_bounds_iff m n _) B). now apply nz_in.
      + unfold sp_is. splits; try assumption. intros i j _ _.
        now rewrite entry_psum, H4, (psum_nz o L), esum_psum.
      + intros P. now rewrite H4, (psum_nz o L).
    - apply in_bounds_false in S. destruct S as [e [He Hn]]. apply nz_in in He. destruct He as [He Hv].
      exists e. now splits.
  Qed.

  (* a convenient form: when every position is in range the call succeeds *)
  Lemma sp_from_entries_ok m n es :
    (forall e, In e es -> (e_row e < m)%nat /\ (e_col e < n)%nat) ->
    exists a, sp_from_entries o m n es = Some a /\ sp_is a m n (esum o es) /\
              (forall P, psum P (sp_st a) = psum P es).
  Proof.
    intros B. pose proof (sp_from_entries_spec m n es) as S.
    destruct (sp_from_entries o m n es) as [a|].
    - exists a. split; [reflexivity|]. now destruct S as (_ & H1 & H2).
    - destruct S as [e [He [_ Hn]]]. exfalso. apply Hn. now apply B.
  Qed.

  (* ---------- zero, identity ---------- *)
  Theorem sp_zero_spec m n : sp_is (sp_zero m n) m n (mzero o).
  Proof.
    unfold sp_is, sp_zero. cbn [sp_m sp_n]. splits; reflexivity.
  Qed.

  Theorem sp_id_spec n : sp_is (sp_id o n) n n (mid o).
  Proof.
    unfold sp_is, sp_id. cbn [sp_m sp_n]. splits; try reflexivity.
    - apply sp_wf_iff. cbn [sp_m sp_n sp_st]. split.
      + apply in_bounds_iff. intros e He. apply in_map_iff in He. destruct He as [k [<- Hk]].
        apply in_seq in Hk. cbn [e_row e_col fst snd]. lia.
      + apply sorted_map_seq. intros x y Hxy. unfold C13SpBase.klt. cbn [e_row e_col fst snd].
        apply key_lt_spec. now left.
    - intros i j Hi Hj. rewrite entry_psum. cbn [sp_st]. rewrite psum_map_seq.
      cbn [e_row e_col e_val fst snd]. unfold mid.
      rewrite (sum_ext o n _ (fun k => if k =? i then (if i =? j then 1 else 0) else 0)).
      + now rewrite (sum_delta o L).
      + intros k _. unfold key_eq. eqb_cases.
  Qed.

  (* ---------- transpose ---------- *)
  Lemma in_bounds_kmap m n m' n' h (l : list ent) :
    in_bounds m n l = true ->
    (forall i j, (i < m)%nat -> (j < n)%nat -> (fst (h i j) < m')%nat /\ (snd (h i j) < n')%nat) ->
    in_bounds m' n' (kmap h l) = true.
  Proof.
    intros B H. apply in_bounds_iff. intros e He. unfold kmap in He. apply in_map_iff in He.
    destruct He as [x [<- Hx]]. cbn [e_row e_col fst snd].
    destruct (proj1 (in_bounds_iff m n l) B x Hx). now apply H.
  Qed.

  Theorem sp_transpose_spec a : sp_wf a ->
    sp_is (sp_transpose o a) (sp_n a) (sp_m a) (mtrans (entry o a)).
  Proof.
    intros W. apply sp_wf_iff in W. destruct W as [B S].
    unfold sp_is, sp_transpose. cbn [sp_m sp_n]. splits; try reflexivity.
    - apply sp_wf_canon.
      change (map (fun e : ent => (e_col e, e_row e, e_val e)) (sp_st a)) with (kmap (fun i j => (j, i)) (sp_st a)).
      apply (in_bounds_kmap _ _ _ _ _ _ B). intros i j Hi Hj. cbn [fst snd]. lia.
    - intros i j _ _. unfold mtrans. rewrite !entry_psum. cbn [sp_st]. rewrite (psum_canon o L).
      change (map (fun e : ent => (e_col e, e_row e, e_val e)) (sp_st a)) with (kmap (fun i j => (j, i)) (sp_st a)).
      rewrite psum_kmap. apply psum_ext. intros e _. cbn [fst snd]. unfold key_eq. apply andb_comm.
  Qed.

  (* ---------- extract ---------- *)
  Definition fsel (f : nat -> nat -> fres) (P : nat -> nat -> bool) : nat -> nat -> bool :=
    fun i j => match f i j with FTo i' j' => P i' j' | _ => false end.

  Lemma psum_cons P (e : ent) r :
    psum P (e :: r) = if P (e_row e) (e_col e) then e_val e + psum P r else psum P r.
  Proof. reflexivity. Qed.

  Lemma fmap_p_spec f (l : list ent) :
    match fmap_p f l with
    | Some es => (forall e, In e l -> f (e_row e) (e_col e) <> FPanic) /\
                 (forall P, psum P es = psum (fsel f P) l) /\
                 (forall e', In e' es -> exists e, In e l /\ f (e_row e) (e_col e) = FTo (e_row e') (e_col e')
                                                   /\ e_val e' = e_val e)
    | None => exists e, In e l /\ f (e_row e) (e_col e) = FPanic
    end.
  Proof.
    induction l as [|e r IH]; cbn [fmap_p].
    - splits; [intros e []|reflexivity|intros e' []].
    - destruct (f (e_row e) (e_col e)) as [| |i' j'] eqn:E.
      + exists e. split; [now left|exact E].
      + destruct (fmap_p f r) as [es|].
        * destruct IH as (H1 & H2 & H3). splits.
          -- intros x [<-|Hx]; [congruence|now apply H1].
          -- intros P. rewrite H2, psum_cons.
             assert (K : fsel f P (e_row e) (e_col e) = false) by (unfold fsel; now rewrite E).
             now rewrite K.
          -- intros e' He'. destruct (H3 e' He') as [x [Hx K]]. exists x. split; [now right|exact K].
        * destruct IH as [x [Hx K]]. exists x. split; [now right|exact K].
      + destruct (fmap_p f r) as [es|]; cbn [obind].
        * destruct IH as (H1 & H2 & H3). splits.
          -- intros x [<-|Hx]; [congruence|now apply H1].
          -- intros P. rewrite !psum_cons, H2.
             assert (K : fsel f P (e_row e) (e_col e) = P i' j') by (unfold fsel; now rewrite E).
             rewrite K. reflexivity.
          -- intros e' [<-|He'].
             ++ exists e. split; [now left|]. cbn [e_row e_col e_val fst snd]. now split.
             ++ destruct (H3 e' He') as [x [Hx K]]. exists x. split; [now right|exact K].
        * destruct IH as [x [Hx K]]. exists x. split; [now right|exact K].
  Qed.

  (* entry (i,j) of the extraction is the sum of the entries that the closure sends to (i,j) *)
  Theorem sp_extract_spec a m n f b :
    sp_extract o a m n f = Some b ->
    (forall e, In e (sp_st a) -> f (e_row e) (e_col e) <> FPanic) /\
    sp_m b = m /\ sp_n b = n /\ sp_wf b /\
    forall i j, entry o b i j = psum (fsel f (fun i' j' => key_eq i' j' i j)) (sp_st a).
  Proof.
    unfold sp_extract. intros E. pose proof (fmap_p_spec f (sp_st a)) as S.
    destruct (fmap_p f (sp_st a)) as [es|]; [|discriminate]. cbn [obind] in E.
    destruct S as (H1 & H2 & _).
    pose proof (sp_from_entries_spec m n es) as T. rewrite E in T.
    destruct T as (_ & (T1 & T2 & T3 & _) & T5). splits; try assumption.
    intros i j. now rewrite entry_psum, T5, H2.
  Qed.

  (* ---------- permutations ---------- *)
  Definition is_perm (p : perm) : Prop := NoDup p /\ forall x, In x p -> (x < length p)%nat.
  Definition pat (p : perm) (i : nat) : nat := nth i p 0%nat.

  Lemma nodupb_iff l : nodupb l = true <-> NoDup l.
  Proof.
    induction l as [|x r IH]; cbn [nodupb]; [split; [constructor|reflexivity]|].
    rewrite andb_true_iff, IH, negb_true_iff. split.
    - intros [H1 H2]. constructor; [|exact H2]. intros Hin.
      assert (existsb (Nat.eqb x) r = true) by (apply existsb_exists; exists x; split; [exact Hin|apply Nat.eqb_refl]).
      congruence.
    - intros H. inversion H as [|? ? H1 H2]; subst. split; [|exact H2].
      destruct (existsb (Nat.eqb x) r) eqn:E; [|reflexivity].
      apply existsb_exists in E. destruct E as [y [Hy Exy]]. apply Nat.eqb_eq in Exy. subst. contradiction.
  Qed.

  Lemma perm_validb_iff p : perm_validb p = true <-> is_perm p.
  Proof.
    unfold perm_validb, is_perm. rewrite andb_true_iff, nodupb_iff, forallb_forall. split; intros [H1 H2].
    - split; [exact H2|]. intros x Hx. now apply Nat.ltb_lt, H1.
    - split; [|exact H1]. intros x Hx. now apply Nat.ltb_lt, H2.
  Qed.

  Theorem perm_new_spec l :
    match perm_new l with Some p => p = l /\ is_perm l | None => ~ is_perm l end.
  Proof.
    unfold perm_new. destruct (perm_validb l) eqn:E.
    - split; [reflexivity|now apply perm_validb_iff].
    - intros H. apply perm_validb_iff in H. congruence.
  Qed.

  Lemma perm_id_is_perm n : is_perm (perm_id n).
  Proof.
    unfold is_perm, perm_id. split; [apply seq_NoDup|]. intros x Hx. apply in_seq in Hx. rewrite seq_length. lia.
  Qed.

  Lemma pat_id n i : (i < n)%nat -> pat (perm_id n) i = i.
  Proof. intros H. unfold pat, perm_id. now rewrite seq_nth. Qed.

  Lemma perm_at_pat p i : (i < length p)%nat -> perm_at p i = Some (pat p i).
  Proof. intros H. unfold perm_at, pat. now apply nth_error_nth'. Qed.

  Lemma perm_at_none p i : (length p <= i)%nat -> perm_at p i = None.
  Proof. intros H. unfold perm_at. now apply nth_error_None. Qed.

  Lemma pat_lt p i : is_perm p -> (i < length p)%nat -> (pat p i < length p)%nat.
  Proof. intros [_ H] Hi. apply H. unfold pat. now apply nth_In. Qed.

  Lemma pat_inj p i i' : is_perm p -> (i < length p)%nat -> (i' < length p)%nat -> pat p i = pat p i' -> i = i'.
  Proof. intros [H _] Hi Hi' E. unfold pat in E. now apply (proj1 (NoDup_nth p 0%nat) H). Qed.

  Lemma pat_surj p x : is_perm p -> (x < length p)%nat -> exists i, (i < length p)%nat /\ pat p i = x.
  Proof.
    intros [H1 H2] Hx.
    assert (I : incl (seq 0 (length p)) p).
    { apply NoDup_length_incl; [exact H1|now rewrite seq_length|].
      intros y Hy. apply in_seq. specialize (H2 y Hy). lia. }
    assert (Hin : In x p) by (apply I, in_seq; lia).
    destruct (In_nth p x 0%nat Hin) as [i [Hi E]]. exists i. now split.
  Qed.

  (* permute(p, q): entry (i,j) of a becomes entry (p(i), q(j)) of the result *)
  Theorem sp_permute_spec a p q :
    sp_wf a -> is_perm p -> is_perm q -> length p = sp_m a -> length q = sp_n a ->
    exists b, sp_permute o a p q = Some b /\
      sp_m b = sp_m a /\ sp_n b = sp_n a /\ sp_wf b /\
      forall i j, (i < sp_m a)%nat -> (j < sp_n a)%nat -> entry o b (pat p i) (pat q j) = entry o a i j.
  Proof.
    intros W Pp Pq Lp Lq. pose proof W as W'. apply sp_wf_iff in W'. destruct W' as [B S].
    pose proof (proj1 (in_bounds_iff _ _ _) B) as Bnd.
    unfold sp_permute, sp_extract.
    set (f := fun i j => match perm_at p i, perm_at q j with Some i', Some j' => FTo i' j' | _, _ => FPanic end).
    pose proof (fmap_p_spec f (sp_st a)) as F.
    destruct (fmap_p f (sp_st a)) as [es|].
    - cbn [obind]. destruct F as (F1 & F2 & F3).
      destruct (sp_from_entries_ok (sp_m a) (sp_n a) es) as [b (Eb & (H1 & H2 & H3 & _) & H5)].
      { intros e' He'. destruct (F3 e' He') as [e [He [K _]]]. destruct (Bnd e He) as [Hr Hc].
        unfold f in K. rewrite perm_at_pat, perm_at_pat in K by lia. inversion K; subst.
        rewrite <- Lp, <- Lq. split; apply pat_lt; try assumption; lia. }
      exists b. splits; try assumption. intros i j Hi Hj.
      rewrite !entry_psum, H5, F2. apply psum_ext. intros e He. destruct (Bnd e He) as [Hr Hc].
      unfold fsel, f. rewrite !perm_at_pat by lia. unfold key_eq.
      destruct (Nat.eqb_spec (e_row e) i) as [->|Hne].
      + rewrite Nat.eqb_refl. cbn [andb].
        destruct (Nat.eqb_spec (e_col e) j) as [->|Hne']; [apply Nat.eqb_refl|].
        apply Nat.eqb_neq. intros E. apply Hne'. apply (pat_inj q); try assumption; lia.
      + cbn [andb]. apply andb_false_iff. left. apply Nat.eqb_neq. intros E. apply Hne.
        apply (pat_inj p); try assumption; lia.
    - exfalso. destruct F as [e [He K]]. destruct (Bnd e He) as [Hr Hc].
      unfold f in K. rewrite !perm_at_pat in K by lia. discriminate.
  Qed.

  Corollary sp_permute_rows_spec a p :
    sp_wf a -> is_perm p -> length p = sp_m a ->
    exists b, sp_permute_rows o a p = Some b /\
      sp_m b = sp_m a /\ sp_n b = sp_n a /\ sp_wf b /\
      forall i j, (i < sp_m a)%nat -> (j < sp_n a)%nat -> entry o b (pat p i) j = entry o a i j.
  Proof.
    intros W Pp Lp. unfold sp_permute_rows.
    destruct (sp_permute_spec a p (perm_id (sp_n a)) W Pp (perm_id_is_perm _) Lp) as [b (E & H1 & H2 & H3 & H4)].
    { unfold perm_id. apply seq_length. }
    exists b. splits; try assumption. intros i j Hi Hj. rewrite <- (H4 i j Hi Hj). now rewrite pat_id.
  Qed.

  Corollary sp_permute_cols_spec a q :
    sp_wf a -> is_perm q -> length q = sp_n a ->
    exists b, sp_permute_cols o a q = Some b /\
      sp_m b = sp_m a /\ sp_n b = sp_n a /\ sp_wf b /\
      forall i j, (i < sp_m a)%nat -> (j < sp_n a)%nat -> entry o b i (pat q j) = entry o a i j.
  Proof.
    intros W Pq Lq. unfold sp_permute_cols.
    destruct (sp_permute_spec a (perm_id (sp_m a)) q W (perm_id_is_perm _) Pq) as [b (E & H1 & H2 & H3 & H4)];
      [unfold perm_id; apply seq_length|exact Lq|].
    exists b. splits; try assumption. intros i j Hi Hj. rewrite <- (H4 i j Hi Hj). now rewrite pat_id.
  Qed.

  (* ---------- sub-matrix ---------- *)
  Theorem sp_submat_spec a i0 i1 j0 j1 :
    match sp_submat o a i0 i1 j0 j1 with
    | Some b => (i0 <= i1 <= sp_m a)%nat /\ (j0 <= j1 <= sp_n a)%nat /\
                sp_is b (i1 - i0) (j1 - j0) (fun i j => entry o a (i0 + i) (j0 + j))
    | None => ~ ((i0 <= i1 <= sp_m a)%nat /\ (j0 <= j1 <= sp_n a)%nat)
    end.
  Proof.
    unfold sp_submat.
    destruct (Nat.leb_spec i0 i1) as [E1|E1]; destruct (Nat.leb_spec i1 (sp_m a)) as [E2|E2];
      destruct (Nat.leb_spec j0 j1) as [E3|E3]; destruct (Nat.leb_spec j1 (sp_n a)) as [E4|E4]; cbn [andb];
      try lia.
    set (f := fun i j => if ((i0 <=? i) && (i <? i1)) && ((j0 <=? j) && (j <? j1)) then FTo (i - i0) (j - j0) else FSkip).
    unfold sp_extract. pose proof (fmap_p_spec f (sp_st a)) as F.
    destruct (fmap_p f (sp_st a)) as [es|].
    - cbn [obind]. destruct F as (F1 & F2 & F3).
      destruct (sp_from_entries_ok (i1 - i0) (j1 - j0) es) as [b (Eb & (H1 & H2 & H3 & _) & H5)].
      { intros e' He'. destruct (F3 e' He') as [e [He [K _]]]. unfold f in K.
        destruct (Nat.leb_spec i0 (e_row e)); destruct (Nat.ltb_spec (e_row e) i1);
          destruct (Nat.leb_spec j0 (e_col e)); destruct (Nat.ltb_spec (e_col e) j1); cbn [andb] in K;
          try discriminate. inversion K; subst. lia. }
      rewrite Eb. splits; try lia. unfold sp_is. splits; try assumption.
      intros i j Hi Hj. rewrite !entry_psum, H5, F2. apply psum_ext. intros e _.
      unfold fsel, f, key_eq.
      destruct (Nat.leb_spec i0 (e_row e)); destruct (Nat.ltb_spec (e_row e) i1);
        destruct (Nat.leb_spec j0 (e_col e)); destruct (Nat.ltb_spec (e_col e) j1); cbn [andb];
        eqb_cases.
    - exfalso. destruct F as [e [_ K]]. unfold f in K.
      destruct (((i0 <=? e_row e) && (e_row e <? i1)) && ((j0 <=? e_col e) && (e_col e <? j1))); discriminate.
  Qed.

  Lemma sp_submat_rows_eq a i0 i1 : sp_submat_rows o a i0 i1 = sp_submat o a i0 i1 0 (sp_n a).
  Proof. reflexivity. Qed.
  Lemma sp_submat_cols_eq a j0 j1 : sp_submat_cols o a j0 j1 = sp_submat o a 0 (sp_m a) j0 j1.
  Proof. reflexivity. Qed.

  Local Notation gsum := (gsum o).

  (* ---------- four-way split ---------- *)
  Lemma assemble_ok m n l :
    (forall e, In e l -> (e_row e < m)%nat /\ (e_col e < n)%nat) ->
    exists b, assemble o m n l = Some b /\ sp_m b = m /\ sp_n b = n /\ sp_wf b /\
              (forall P, psum P (sp_st b) = psum P l).
  Proof.
    intros B. pose proof (assemble_spec m n l) as S. destruct (assemble o m n l) as [b|].
    - exists b. split; [reflexivity|]. now destruct S as (_ & S).
    - apply in_bounds_false in S. destruct S as [e [He Hn]]. exfalso. apply Hn. now apply B.
  Qed.

  Theorem sp_divide4_spec a k l : sp_wf a ->
    match sp_divide4 o a k l with
    | Some (A, B, C, D) =>
        (k <= sp_m a)%nat /\ (l <= sp_n a)%nat /\
        sp_is A k l (entry o a) /\
        sp_is B k (sp_n a - l) (fun i j => entry o a i (l + j)) /\
        sp_is C (sp_m a - k) l (fun i j => entry o a (k + i) j) /\
        sp_is D (sp_m a - k) (sp_n a - l) (fun i j => entry o a (k + i) (l + j))
    | None => ~ ((k <= sp_m a)%nat /\ (l <= sp_n a)%nat)
    end.
  Proof.
    intros W. pose proof W as W'. apply sp_wf_iff in W'. destruct W' as [Bd _].
    pose proof (proj1 (in_bounds_iff _ _ _) Bd) as Bnd.
    unfold sp_divide4. cbv zeta.
    destruct (Nat.leb_spec k (sp_m a)) as [E1|E1]; destruct (Nat.leb_spec l (sp_n a)) as [E2|E2]; cbn [andb];
      try lia.
    match goal with |- context [assemble o k l ?x] =>
      destruct (assemble_ok k l x) as [A (EA & A1 & A2 & A3 & A4)] end.
    { intros e He. apply filter_In in He. destruct He as [He F]. apply nz_in in He. destruct He as [He _].
      destruct (Nat.ltb_spec (e_row e) k); destruct (Nat.ltb_spec (e_col e) l); cbn in F; try discriminate. lia. }
    match goal with |- context [assemble o k (sp_n a - l) ?x] =>
      destruct (assemble_ok k (sp_n a - l) x) as [B (EB & B1 & B2 & B3 & B4)] end.
    { intros e' He'. apply in_map_iff in He'. destruct He' as [e [<- He]].
      apply filter_In in He. destruct He as [He F]. apply nz_in in He. destruct He as [He _].
      destruct (Bnd e He). cbn [e_row e_col fst snd].
      destruct (Nat.ltb_spec (e_row e) k); destruct (Nat.ltb_spec (e_col e) l); cbn in F; try discriminate. lia. }
    match goal with |- context [assemble o (sp_m a - k) l ?x] =>
      destruct (assemble_ok (sp_m a - k) l x) as [C (EC & C1 & C2 & C3 & C4)] end.
    { intros e' He'. apply in_map_iff in He'. destruct He' as [e [<- He]].
      apply filter_In in He. destruct He as [He F]. apply nz_in in He. destruct He as [He _].
      destruct (Bnd e He). cbn [e_row e_col fst snd].
      destruct (Nat.ltb_spec (e_row e) k); destruct (Nat.ltb_spec (e_col e) l); cbn in F; try discriminate. lia. }
    match goal with |- context [assemble o (sp_m a - k) (sp_n a - l) ?x] =>
      destruct (assemble_ok (sp_m a - k) (sp_n a - l) x) as [D (ED & D1 & D2 & D3 & D4)] end.
    { intros e' He'. apply in_map_iff in He'. destruct He' as [e [<- He]].
      apply filter_In in He. destruct He as [He F]. apply nz_in in He. destruct He as [He _].
      destruct (Bnd e He). cbn [e_row e_col fst snd].
      destruct (Nat.ltb_spec (e_row e) k); destruct (Nat.ltb_spec (e_col e) l); cbn in F; try discriminate. lia. }
    rewrite EA, EB, EC, ED. cbn [obind]. unfold sp_is. splits; try assumption.
    - intros i j Hi Hj. rewrite !entry_psum, A4, !(psum_gsum o), (gsum_filter o), (gsum_nz o L).
      apply gsum_ext. intros e _. unfold key_eq.
      destruct (Nat.ltb_spec (e_row e) k); destruct (Nat.ltb_spec (e_col e) l); cbn; eqb_cases.
    - intros i j Hi Hj. rewrite !entry_psum, B4, (gsum_map_key o), (psum_gsum o), (gsum_filter o), (gsum_nz o L).
      apply gsum_ext. intros e _. unfold key_eq.
      destruct (Nat.ltb_spec (e_row e) k); destruct (Nat.ltb_spec (e_col e) l); cbn; eqb_cases.
    - intros i j Hi Hj. rewrite !entry_psum, C4, (gsum_map_key o), (psum_gsum o), (gsum_filter o), (gsum_nz o L).
      apply gsum_ext. intros e _. unfold key_eq.
      destruct (Nat.ltb_spec (e_row e) k); destruct (Nat.ltb_spec (e_col e) l); cbn; eqb_cases.
    - intros i j Hi Hj. rewrite !entry_psum, D4, (gsum_map_key o), (psum_gsum o), (gsum_filter o), (gsum_nz o L).
      apply gsum_ext. intros e _. unfold key_eq.
      destruct (Nat.ltb_spec (e_row e) k); destruct (Nat.ltb_spec (e_col e) l); cbn; eqb_cases.
  Qed.

  (* ---------- recombination ---------- *)
  Lemma psum_shift P di dj (l : list ent) :
    psum P (shift di dj l) = psum (fun i j => P (i + di)%nat (j + dj)%nat) l.
  Proof. unfold shift. now rewrite (gsum_map_key o), (psum_gsum o). Qed.

  Lemma esum_shift di dj (l : list ent) i j :
    psum (fun i' j' => key_eq i' j' i j) (shift di dj l)
    = if (di <=? i) && (dj <=? j) then psum (fun i' j' => key_eq i' j' (i - di) (j - dj)) l else 0.
  Proof.
    rewrite psum_shift.
    destruct (Nat.leb_spec di i); destruct (Nat.leb_spec dj j); cbn [andb].
    - apply psum_ext. intros e _. unfold key_eq. eqb_cases.
    - apply psum_false. intros e _. unfold key_eq. eqb_cases.
    - apply psum_false. intros e _. unfold key_eq. eqb_cases.
    - apply psum_false. intros e _. unfold key_eq. eqb_cases.
  Qed.

  Lemma shift_bounds di dj m n (l : list ent) e :
    in_bounds m n l = true -> In e (shift di dj l) -> (e_row e < m + di)%nat /\ (e_col e < n + dj)%nat.
  Proof.
    intros B He. unfold shift in He. apply in_map_iff in He. destruct He as [x [<- Hx]].
    destruct (proj1 (in_bounds_iff m n l) B x Hx). cbn [e_row e_col fst snd]. lia.
  Qed.

  (* the block matrix [[a, b], [c, d]] *)
  Definition blocks (k l : nat) (fa fb fc fd : nat -> nat -> R) : nat -> nat -> R := fun i j =>
    if i <? k then (if j <? l then fa i j else fb i (j - l)%nat)
    else (if j <? l then fc (i - k)%nat j else fd (i - k)%nat (j - l)%nat).

  Theorem sp_combine_blocks_spec a b c d : sp_wf a -> sp_wf b -> sp_wf c -> sp_wf d ->
    match sp_combine_blocks o a b c d with
    | Some r => (sp_m a = sp_m b /\ sp_m c = sp_m d /\ sp_n a = sp_n c /\ sp_n b = sp_n d) /\
                sp_is r (sp_m a + sp_m c) (sp_n a + sp_n b)
                  (blocks (sp_m a) (sp_n a) (entry o a) (entry o b) (entry o c) (entry o d))
    | None => ~ (sp_m a = sp_m b /\ sp_m c = sp_m d /\ sp_n a = sp_n c /\ sp_n b = sp_n d)
    end.
  Proof.
    intros Wa Wb Wc Wd.
    pose proof (proj1 (proj1 (sp_wf_iff a) Wa)) as Ba. pose proof (proj1 (proj1 (sp_wf_iff b) Wb)) as Bb.
    pose proof (proj1 (proj1 (sp_wf_iff c) Wc)) as Bc. pose proof (proj1 (proj1 (sp_wf_iff d) Wd)) as Bd.
    unfold sp_combine_blocks.
    destruct (Nat.eqb_spec (sp_m a) (sp_m b)) as [E1|E1]; destruct (Nat.eqb_spec (sp_m c) (sp_m d)) as [E2|E2];
      destruct (Nat.eqb_spec (sp_n a) (sp_n c)) as [E3|E3]; destruct (Nat.eqb_spec (sp_n b) (sp_n d)) as [E4|E4];
      cbn [andb]; try tauto.
    cbv zeta.
    match goal with |- context [sp_from_entries o ?m ?n ?es] =>
      destruct (sp_from_entries_ok m n es) as [r (Er & (R1 & R2 & R3 & _) & R5)] end.
    { intros e He. rewrite !in_app_iff in He. destruct He as [He|[He|[He|He]]].
      - pose proof (shift_bounds _ _ _ _ _ e Ba He). lia.
      - pose proof (shift_bounds _ _ _ _ _ e Bb He). lia.
      - pose proof (shift_bounds _ _ _ _ _ e Bc He). lia.
      - pose proof (shift_bounds _ _ _ _ _ e Bd He). lia. }
    rewrite Er. split; [tauto|]. unfold sp_is. splits; try assumption.
    intros i j Hi Hj. rewrite entry_psum, R5, !(psum_app o L), !esum_shift, <- !entry_psum.
    rewrite !Nat.sub_0_r. unfold blocks. cbn [Nat.leb andb].
    destruct (Nat.ltb_spec i (sp_m a)) as [Hik|Hik]; destruct (Nat.ltb_spec j (sp_n a)) as [Hjl|Hjl].
    - destruct (Nat.leb_spec (sp_m a) i); destruct (Nat.leb_spec (sp_n a) j); try lia. cbn [andb]. ring.
    - destruct (Nat.leb_spec (sp_m a) i); destruct (Nat.leb_spec (sp_n a) j); try lia. cbn [andb].
      rewrite (entry_outside o a i j Wa) by lia. ring.
    - destruct (Nat.leb_spec (sp_m a) i); destruct (Nat.leb_spec (sp_n a) j); try lia. cbn [andb].
      rewrite (entry_outside o a i j Wa) by lia. ring.
    - destruct (Nat.leb_spec (sp_m a) i); destruct (Nat.leb_spec (sp_n a) j); try lia. cbn [andb].
      rewrite (entry_outside o a i j Wa) by lia.
      rewrite (entry_outside o b i (j - sp_n a) Wb) by lia.
      rewrite (entry_outside o c (i - sp_m a) j Wc) by lia. ring.
  Qed.

  (* split and recombine: the same shape and the same entries *)
  Theorem sp_divide4_combine a k l A B C D : sp_wf a ->
    sp_divide4 o a k l = Some (A, B, C, D) ->
    exists r, sp_combine_blocks o A B C D = Some r /\ sp_is r (sp_m a) (sp_n a) (entry o a).
  Proof.
    intros W E. pose proof (sp_divide4_spec a k l W) as S. rewrite E in S.
    destruct S as (Hk & Hl & (A1 & A2 & A3 & A4) & (B1 & B2 & B3 & B4) & (C1 & C2 & C3 & C4) & (D1 & D2 & D3 & D4)).
    pose proof (sp_combine_blocks_spec A B C D A3 B3 C3 D3) as T.
    destruct (sp_combine_blocks o A B C D) as [r|].
    - exists r. split; [reflexivity|]. destruct T as (_ & (R1 & R2 & R3 & R4)).
      unfold sp_is. splits; try assumption; try lia.
      intros i j Hi Hj. rewrite R4 by lia. unfold blocks. rewrite A1, A2.
      destruct (Nat.ltb_spec i k); destruct (Nat.ltb_spec j l).
      + apply A4; lia.
      + rewrite B4 by lia. f_equal. lia.
      + rewrite C4 by lia. f_equal. lia.
      + rewrite D4 by lia. f_equal; lia.
    - exfalso. apply T. lia.
  Qed.

  (* ---------- concat, stack ---------- *)
  Theorem sp_concat_spec a b : sp_wf a -> sp_wf b ->
    match sp_concat o a b with
    | Some r => sp_m a = sp_m b /\
                sp_is r (sp_m a) (sp_n a + sp_n b)
                  (fun i j => if j <? sp_n a then entry o a i j else entry o b i (j - sp_n a))
    | None => sp_m a <> sp_m b
    end.
  Proof.
    intros Wa Wb. unfold sp_concat.
    pose proof (sp_combine_blocks_spec a b (sp_zero 0 (sp_n a)) (sp_zero 0 (sp_n b)) Wa Wb eq_refl eq_refl) as S.
    destruct (sp_combine_blocks o a b (sp_zero 0 (sp_n a)) (sp_zero 0 (sp_n b))) as [r|].
    - destruct S as ((E1 & _) & (R1 & R2 & R3 & R4)). cbn [sp_zero sp_m sp_n] in *.
      split; [exact E1|]. unfold sp_is. splits; try assumption; try lia.
      intros i j Hi Hj. rewrite R4 by lia. unfold blocks.
      destruct (Nat.ltb_spec i (sp_m a)); [reflexivity|lia].
    - cbn [sp_zero sp_m sp_n] in S. intros E. apply S. tauto.
  Qed.

  Theorem sp_stack_spec a b : sp_wf a -> sp_wf b ->
    match sp_stack o a b with
    | Some r => sp_n a = sp_n b /\
                sp_is r (sp_m a + sp_m b) (sp_n a)
                  (fun i j => if i <? sp_m a then entry o a i j else entry o b (i - sp_m a) j)
    | None => sp_n a <> sp_n b
    end.
  Proof.
    intros Wa Wb. unfold sp_stack.
    pose proof (sp_combine_blocks_spec a (sp_zero (sp_m a) 0) b (sp_zero (sp_m b) 0) Wa eq_refl Wb eq_refl) as S.
    destruct (sp_combine_blocks o a (sp_zero (sp_m a) 0) b (sp_zero (sp_m b) 0)) as [r|].
    - destruct S as ((_ & _ & E3 & _) & (R1 & R2 & R3 & R4)). cbn [sp_zero sp_m sp_n] in *.
      split; [exact E3|]. unfold sp_is. splits; try assumption; try lia.
      intros i j Hi Hj. rewrite R4 by lia. unfold blocks.
      destruct (Nat.ltb_spec j (sp_n a)); [reflexivity|lia].
    - cbn [sp_zero sp_m sp_n] in S. intros E. apply S. tauto.
  Qed.

  (* ---------- extend_cols: the same matrix as concat, but the stored patterns are kept ---------- *)
  Lemma shift_sorted di dj (l : list ent) : StronglySorted klt l -> StronglySorted klt (shift di dj l).
  Proof.
    intros S. unfold shift. apply sorted_map_mono; [|exact S].
    intros x y. unfold C13SpBase.klt. cbn [e_row e_col fst snd]. rewrite !key_lt_spec. lia.
  Qed.

  Theorem sp_extend_cols_spec a b : sp_wf a -> sp_wf b ->
    match sp_extend_cols a b with
    | Some r => sp_m a = sp_m b /\
                sp_is r (sp_m a) (sp_n a + sp_n b)
                  (fun i j => if j <? sp_n a then entry o a i j else entry o b i (j - sp_n a)) /\
                sp_nnz r = (sp_nnz a + sp_nnz b)%nat
    | None => sp_m a <> sp_m b
    end.
  Proof.
    intros Wa Wb. pose proof (proj1 (sp_wf_iff a) Wa) as [Ba Sa]. pose proof (proj1 (sp_wf_iff b) Wb) as [Bb Sb].
    unfold sp_extend_cols. destruct (Nat.eqb_spec (sp_m a) (sp_m b)) as [E|E]; [|exact E].
    destruct (Nat.eqb_spec (sp_n b) 0) as [Z|Z].
    - split; [exact E|]. split.
      + unfold sp_is. splits; try assumption; try lia. intros i j Hi Hj.
        destruct (Nat.ltb_spec j (sp_n a)); [reflexivity|lia].
      + unfold sp_nnz. destruct (sp_st b) as [|e r] eqn:Eb; [cbn; lia|].
        exfalso. destruct (proj1 (in_bounds_iff _ _ _) Bb e) as [_ H]; [now left|lia].
    - unfold try_csc.
      assert (V : csc_validb (sp_m a) (sp_n a + sp_n b) (sp_st a ++ shift 0 (sp_n a) (sp_st b)) = true).
      { unfold csc_validb. apply andb_true_iff. split.
        - rewrite in_bounds_app. apply andb_true_iff. split.
          + apply in_bounds_iff. intros e He. destruct (proj1 (in_bounds_iff _ _ _) Ba e He). lia.
          + apply in_bounds_iff. intros e He. pose proof (shift_bounds _ _ _ _ _ e Bb He). lia.
        - apply sortedb_iff. apply sorted_app; [exact Sa|now apply shift_sorted|].
          intros x y Hx Hy. unfold shift in Hy. apply in_map_iff in Hy. destruct Hy as [z [<- Hz]].
          destruct (proj1 (in_bounds_iff _ _ _) Ba x Hx). unfold C13SpBase.klt. cbn [e_row e_col fst snd].
          apply key_lt_spec. lia. }
      rewrite V. split; [exact E|]. split.
      + unfold sp_is. cbn [sp_m sp_n]. splits; try reflexivity.
        * exact V.
        * intros i j Hi Hj. rewrite entry_psum. cbn [sp_st]. rewrite (psum_app o L), esum_shift, <- !entry_psum.
          cbn [Nat.leb andb]. rewrite Nat.sub_0_r.
          destruct (Nat.ltb_spec j (sp_n a)); destruct (Nat.leb_spec (sp_n a) j); try lia.
          -- ring.
          -- rewrite (entry_outside o a i j Wa) by lia. ring.
      + unfold sp_nnz. cbn [sp_st]. unfold shift. now rewrite app_length, map_length.
  Qed.
End SpProofs.
