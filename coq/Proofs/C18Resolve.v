(* C18 - resolutions: resolved_by keeps the labels (hence validity), resolves exactly the first |s|
   crossings, panics exactly when the state is longer than the number of crossings; a full state leaves
   a crossingless diagram. *)
From Coq Require Import List Arith Bool Lia.
Require Import Yui.Model.Link Yui.Proofs.C18Base.
Import ListNotations.

Lemma resolve_c_spec : forall c r, is_resolved c = false ->
  exists c', resolve_c c r = Some c' /\ cedges c' = cedges c /\ is_resolved c' = true.
Proof.
  intros [t a b c d] r Hr. unfold is_resolved in Hr. cbn in Hr.
  destruct t, r; try discriminate; cbn; eauto.
Qed.

Lemma crossing_num_cons : forall c l,
  crossing_num (c :: l) = (if is_resolved c then 0 else 1) + crossing_num l.
Proof. intros. unfold crossing_num. cbn. destruct (is_resolved c); reflexivity. Qed.

Lemma resolve_at_spec : forall l i r,
  (i < crossing_num l ->
     exists l', resolve_at l i r = Some l' /\ edge_labels l' = edge_labels l /\ length l' = length l /\
                S (crossing_num l') = crossing_num l) /\
  (crossing_num l <= i -> resolve_at l i r = None).
Proof.
  induction l as [|c l IH]; intros i r.
  - cbn. split; [lia|auto].
  - rewrite crossing_num_cons. cbn [resolve_at]. destruct (is_resolved c) eqn:R.
    + destruct (IH i r) as [A B]. split.
      * intros Hi. destruct (A ltac:(lia)) as (l' & E & EL & LN & CN).
        exists (c :: l'). rewrite E. cbn [option_map]. split; auto.
        unfold edge_labels in *. cbn [flat_map]. rewrite EL. split; auto. cbn [length]. split; auto.
        rewrite crossing_num_cons, R. lia.
      * intros Hi. rewrite B by lia. reflexivity.
    + destruct i as [|i].
      * split; [|lia]. intros _.
        destruct (resolve_c_spec c r R) as (c' & E & EC & RC). rewrite E. cbn [option_map].
        exists (c' :: l). split; auto. unfold edge_labels. cbn [flat_map]. rewrite EC.
        split; auto. split; auto. rewrite crossing_num_cons, RC. lia.
      * destruct (IH i r) as [A B]. split.
        { intros Hi. destruct (A ltac:(lia)) as (l' & E & EL & LN & CN).
          exists (c :: l'). rewrite E. cbn [option_map]. split; auto.
          unfold edge_labels in *. cbn [flat_map]. rewrite EL. split; auto. cbn [length]. split; auto.
          rewrite crossing_num_cons, R. lia. }
        { intros Hi. rewrite B by lia. reflexivity. }
Qed.

Theorem resolved_by_spec : forall s l,
  (length s <= crossing_num l ->
     exists l', resolved_by l s = Some l' /\ edge_labels l' = edge_labels l /\ length l' = length l /\
                crossing_num l' = crossing_num l - length s) /\
  (crossing_num l < length s -> resolved_by l s = None).
Proof.
  induction s as [|r s IH]; intros l; cbn [resolved_by length].
  - split; [|lia]. intros _. exists l. repeat split; auto; lia.
  - destruct (resolve_at_spec l 0 r) as [A B]. split.
    + intros Hs. destruct (A ltac:(lia)) as (l1 & E & EL & LN & CN). rewrite E.
      destruct (IH l1) as [A' _]. destruct (A' ltac:(lia)) as (l' & E' & EL' & LN' & CN').
      exists l'. split; auto. split; [congruence|]. split; [congruence|]. lia.
    + intros Hs. destruct (Nat.eq_dec (crossing_num l) 0) as [Z|NZ].
      * rewrite B by lia. reflexivity.
      * destruct (A ltac:(lia)) as (l1 & E & EL & LN & CN). rewrite E.
        destruct (IH l1) as [_ B']. apply B'. lia.
Qed.

Lemma Valid_labels : forall l l', edge_labels l' = edge_labels l -> Valid l -> Valid l'.
Proof. intros l l' E Hv. unfold Valid in *. rewrite E. exact Hv. Qed.
