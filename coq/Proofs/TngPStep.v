(* Tangle layer, part 5: one append_arc on a glued tangle.  If the components are simple and pairwise disjoint,
   the new arc is simple and no label ends up on more than two segment ends, then append_arc does not panic, the
   second match lies AFTER the first one (no index shift), and the result is again simple, pairwise disjoint and
   sorted. *)
From Coq Require Import List Arith Bool Lia Permutation Sorted.
Import ListNotations.
Require Import Yui.Model.Link Yui.Model.Tng Yui.Proofs.TngPBase Yui.Proofs.TngPSegs Yui.Proofs.TngPDeg
  Yui.Proofs.TngPJoin.

(* ---------- unori_eq on arcs ---------- *)
Lemma nlist_eqb_eq : forall a b, nlist_eqb a b = true <-> a = b.
Proof.
  induction a as [|x a IH]; intros [|y b]; cbn; split; try congruence; try discriminate; auto.
  - intros Hc. apply andb_true_iff in Hc. destruct Hc as [H1 H2]. apply Nat.eqb_eq in H1. apply IH in H2. congruence.
  - intros Hc. inversion Hc; subst. rewrite Nat.eqb_refl. apply IH. reflexivity.
Qed.

Lemma combine_all_eq : forall a b : list nat, length a = length b ->
  forallb (fun ef => fst ef =? snd ef) (combine a b) = true -> a = b.
Proof.
  induction a as [|x a IH]; intros [|y b] Hl; cbn in *; try discriminate; auto.
  intros Hc. apply andb_true_iff in Hc. destruct Hc as [H1 H2]. apply Nat.eqb_eq in H1. f_equal; auto.
Qed.

Lemma unori_eq_refl : forall p, unori_eq p p = true.
Proof.
  intros p. unfold unori_eq. rewrite eqb_reflx, !Nat.eqb_refl. cbn.
  assert (nlist_eqb (pedges p) (pedges p) = true) as -> by (apply nlist_eqb_eq; reflexivity).
  reflexivity.
Qed.

Lemma unori_eq_arc : forall p q, pclosed p = false -> unori_eq p q = true ->
  pclosed q = false /\ (pedges p = pedges q \/ pedges p = rev (pedges q)).
Proof.
  intros p q Hp. unfold unori_eq. rewrite Hp.
  destruct (pclosed q); cbn [Bool.eqb negb orb]; [discriminate|].
  destruct (length (pedges p) =? length (pedges q)) eqn:El; cbn [negb orb]; [|discriminate].
  destruct (edge_sum p =? edge_sum q); cbn [negb]; [|discriminate].
  apply Nat.eqb_eq in El.
  destruct (nlist_eqb (pedges p) (pedges q)) eqn:En.
  - apply nlist_eqb_eq in En. auto.
  - intros Hc. split; auto. right. apply combine_all_eq; auto. rewrite rev_length. auto.
Qed.

(* ---------- the sort does not panic on non-empty components, and sorts ---------- *)
Definition tng_sorted (t : list path) : Prop := StronglySorted (fun a b => comp_le a b = true) t.

Lemma sort_total : forall cs, Forall simple cs -> tng_sort cs = Some (isort cs).
Proof.
  intros cs Hs. unfold tng_sort.
  assert (sort_panics cs = false) as ->; [|reflexivity].
  unfold sort_panics. apply not_true_is_false. intros Hc. apply existsb_exists in Hc.
  destruct Hc as (c & Hc & Hn). rewrite Forall_forall in Hs. pose proof (simple_ne c (Hs c Hc)) as Hne.
  destruct (pedges c); [contradiction|]. cbn in Hn. discriminate.
Qed.

Lemma comp_le_total : forall a b, comp_le a b = false -> comp_le b a = true.
Proof.
  intros a b. unfold comp_le. destruct (pclosed a), (pclosed b); cbn; try discriminate; auto;
    intros Hc; apply Nat.leb_gt in Hc; apply Nat.leb_le; lia.
Qed.
Lemma comp_le_trans : forall a b c, comp_le a b = true -> comp_le b c = true -> comp_le a c = true.
Proof.
  intros a b c. unfold comp_le. destruct (pclosed a), (pclosed b), (pclosed c); cbn; try discriminate; auto;
    intros H1 H2; apply Nat.leb_le in H1; apply Nat.leb_le in H2; apply Nat.leb_le; lia.
Qed.

Lemma ins_sorted : forall x l, tng_sorted l -> tng_sorted (ins x l).
Proof.
  intros x l Hs. induction Hs as [|y l Hs IH Hy]; cbn [ins].
  - constructor; constructor.
  - destruct (comp_le x y) eqn:Exy.
    + constructor; [constructor; auto|]. constructor; auto.
      rewrite Forall_forall in *. intros z Hz. eapply comp_le_trans; eauto.
    + constructor; auto. rewrite Forall_forall in *. intros z Hz.
      apply (Permutation_in _ (ins_perm x l)) in Hz. destruct Hz as [<-|Hz]; auto.
      apply comp_le_total; auto.
Qed.
Lemma isort_sorted : forall l, tng_sorted (isort l).
Proof. induction l as [|x l IH]; [constructor|]. cbn [isort fold_right]. apply ins_sorted. exact IH. Qed.

(* ---------- lists ---------- *)
Lemma app_eq_middle : forall (l1 : list path) a l2 m1 b m2, l1 ++ a :: l2 = m1 ++ b :: m2 ->
  (exists k, l1 = m1 ++ b :: k /\ m2 = k ++ a :: l2) \/ (l1 = m1 /\ a = b /\ l2 = m2) \/
  (exists k, m1 = l1 ++ a :: k /\ l2 = k ++ b :: m2).
Proof.
  induction l1 as [|x l1 IH]; intros a l2 m1 b m2 E.
  - destruct m1 as [|y m1]; cbn in E; inversion E; subst.
    + right. left. auto.
    + right. right. exists m1. auto.
  - destruct m1 as [|y m1]; cbn in E; inversion E; subst.
    + left. exists l1. auto.
    + destruct (IH _ _ _ _ _ H1) as [(k & -> & ->)|[(-> & -> & ->)|(k & -> & ->)]].
      * left. exists k. auto.
      * right. left. auto.
      * right. right. exists k. auto.
Qed.

Lemma is_end_in : forall p v, simple p -> is_end p v -> In v (pedges p).
Proof.
  intros p v Sp [->| ->]; [apply hd_in|apply last_in]; apply simple_ne; auto.
Qed.

Lemma two_ends : forall p s v w, is_end p s -> is_end p v -> is_end p w -> v <> s -> w <> s -> v = w.
Proof. unfold is_end. intros p s v w [->| ->] [->| ->] [->| ->]; congruence. Qed.

(* ---------- the step ---------- *)
Theorem append_arc_inv : forall t arc, tng_inv t -> simple arc -> pclosed arc = false ->
  deg_le2 (tsegs t ++ segs arc) ->
  exists t', append_arc t arc = Some t' /\ tng_inv t' /\ tng_sorted t'.
Proof.
  intros t arc Hinv Sa Ha Hdeg. unfold append_arc. rewrite Ha.
  assert (Lint : forall v, In v (pedges arc) -> In v (verts t) -> is_end arc v).
  { intros v Hv Hvt. destruct (end_or_interior _ _ Hv) as [E|[E|[H1 H2]]]; [left; auto|right; auto|].
    exfalso. eapply new_interior; eauto. }
  destruct (find_index (fun c => p_connectable c arc) t) as [i|] eqn:Fi.
  2:{ (* nothing to connect to: push *)
    pose proof (find_index_none _ _ Fi) as Hnone. cbn beta in Hnone.
    assert (Hi : tng_inv (arc :: t)).
    { apply inv_cons. split; [auto|split; [auto|]]. intros v Hv Hvt.
      pose proof (Lint v Hv Hvt) as He. apply in_verts in Hvt. destruct Hvt as (c & Hc & Hvc).
      destruct (old_label_is_end t arc Hinv Hdeg v c Sa Hv Hc Hvc) as [Hcc Hce].
      pose proof (Hnone c Hc) as Hn. rewrite (shares_end_connectable c arc v Hcc Ha Hce He) in Hn. discriminate. }
    assert (Hi' : tng_inv (t ++ [arc])).
    { eapply inv_perm; [|exact Hi]. apply Permutation_cons_append. }
    rewrite sort_total by apply Hi'. eexists. split; [reflexivity|]. split; [|apply isort_sorted].
    eapply inv_perm; [apply Permutation_sym; apply isort_perm|exact Hi']. }
  destruct (find_index_split _ _ _ Fi) as (l1 & c & l2 & Et & Hl & Fc & Hall). cbn beta in Fc, Hall.
  subst i. rewrite Et in *. clear Et.
  destruct (connectable_arcs _ _ Fc) as [Hcc _].
  pose proof (proj1 (inv_middle l1 c l2) Hinv) as (Sc & Hrest & Hdisj).
  assert (Hct : In c (l1 ++ c :: l2)) by (apply in_or_app; right; left; reflexivity).
  assert (Hsub : forall x, In x (l1 ++ l2) -> In x (l1 ++ c :: l2)).
  { intros x Hx. apply in_app_or in Hx. apply in_or_app. destruct Hx; [left|right; right]; auto. }
  assert (Hpq : forall v, In v (pedges c) -> In v (pedges arc) -> is_end c v /\ is_end arc v).
  { intros v H1 H2. split.
    - apply (old_label_is_end _ arc Hinv Hdeg v c Sa H2 Hct H1).
    - apply Lint; auto. apply in_verts. eauto. }
  destruct (connect_simple c arc Sc Sa Fc Hpq) as (ci & Eci & Sci & Vci & Eo & Ecl).
  rewrite nth_middle', Eci, set_nth_middle.
  (* labels shared by the new component and an old one *)
  assert (F1 : forall x v, In x (l1 ++ l2) -> In v (pedges x) -> In v (pedges ci) ->
     ~ In v (pedges c) /\ is_end arc v /\ is_end x v /\ pclosed x = false /\ pclosed ci = false /\ is_end ci v).
  { intros x v Hx Hvx Hvci.
    assert (Hnc : ~ In v (pedges c)).
    { intros Hvc. apply (Hdisj v Hvc). apply in_verts. eauto. }
    assert (Hva : In v (pedges arc)) by (apply Vci in Hvci; tauto).
    destruct (old_label_is_end _ arc Hinv Hdeg v x Sa Hva (Hsub x Hx) Hvx) as [Hxc Hxe].
    assert (Hae : is_end arc v). { apply Lint; auto. apply in_verts. exists x. split; auto. }
    assert (Hcic : pclosed ci = false).
    { destruct (pclosed ci) eqn:Ecc; auto. exfalso. apply Hnc. apply (proj2 (Ecl eq_refl)). auto. }
    repeat split; auto. apply (proj2 (proj2 (Eo Hcic))); auto. }
  assert (F2 : forall x, In x (l1 ++ l2) -> p_connectable x ci = true -> p_connectable x arc = true).
  { intros x Hx Hc. destruct (connectable_arcs _ _ Hc) as [Hxc Hcic].
    destruct (connectable_shares_end _ _ Hc) as (v & Hvx & Hvci).
    assert (Sx : simple x). { destruct Hrest as [Hs _]. rewrite Forall_forall in Hs. auto. }
    destruct (F1 x v Hx (is_end_in _ _ Sx Hvx) (is_end_in _ _ Sci Hvci)) as (_ & Hae & _).
    apply (shares_end_connectable x arc v); auto. }
  assert (F3 : forall x, In x (l1 ++ l2) -> pclosed x = false -> unori_eq x ci = true -> False).
  { intros x Hx Hxc Hu. destruct (unori_eq_arc _ _ Hxc Hu) as [_ Hsame].
    assert (Hh : In (hd 0 (pedges c)) (pedges c)) by (apply hd_in; apply simple_ne; auto).
    apply (Hdisj _ Hh). apply in_verts. exists x. split; auto.
    assert (Hhci : In (hd 0 (pedges c)) (pedges ci)) by (apply Vci; auto).
    destruct Hsame as [->| ->]; [auto|apply in_rev in Hhci; auto]. }
  destruct (find_index (fun c0 => negb (unori_eq c0 ci) && p_connectable c0 ci) (l1 ++ ci :: l2)) as [j|] eqn:Fj.
  2:{ (* one end connected *)
    pose proof (find_index_none _ _ Fj) as Hnone. cbn beta in Hnone.
    assert (Hi : tng_inv (l1 ++ ci :: l2)).
    { apply inv_middle. split; [auto|split; [auto|]]. intros v Hv Hvt.
      apply in_verts in Hvt. destruct Hvt as (x & Hx & Hvx).
      destruct (F1 x v Hx Hvx Hv) as (_ & _ & Hxe & Hxc & Hcic & Hcie).
      assert (Hxin : In x (l1 ++ ci :: l2)).
      { apply in_app_or in Hx. apply in_or_app. destruct Hx; [left|right; right]; auto. }
      specialize (Hnone x Hxin). rewrite (shares_end_connectable x ci v Hxc Hcic Hxe Hcie), andb_true_r in Hnone.
      apply negb_false_iff in Hnone. eapply F3; eauto. }
    rewrite sort_total by apply Hi. eexists. split; [reflexivity|]. split; [|apply isort_sorted].
    eapply inv_perm; [apply Permutation_sym; apply isort_perm|exact Hi]. }
  (* both ends connected *)
  destruct (find_index_split _ _ _ Fj) as (m1 & cj & m2 & Em & Hm & Fcj & Hallj). cbn beta in Fcj, Hallj.
  apply andb_true_iff in Fcj. destruct Fcj as [Fne Fcc]. apply negb_true_iff in Fne.
  destruct (app_eq_middle _ _ _ _ _ _ Em) as [(k & E1 & E2)|[(E1 & E2 & E3)|(k & E1 & E2)]].
  { exfalso. assert (Hcj : In cj (l1 ++ l2)) by (subst l1; apply in_or_app; left; apply in_or_app; right; left; auto).
    pose proof (F2 cj Hcj Fcc) as Hc. rewrite Hall in Hc; [discriminate|].
    subst l1. apply in_or_app. right. left. reflexivity. }
  { exfalso. subst cj. rewrite unori_eq_refl in Fne. discriminate. }
  subst m1 l2 j. rewrite Em.
  assert (Ejm : (l1 ++ ci :: k) ++ cj :: m2 = (l1 ++ ci :: k) ++ cj :: m2) by reflexivity.
  rewrite nth_middle', remove_nth_middle. rewrite <- app_assoc. cbn [app].
  rewrite nth_error_middle.
  assert (Hcj : In cj (l1 ++ k ++ cj :: m2)).
  { apply in_or_app. right. apply in_or_app. right. left. reflexivity. }
  destruct (connectable_arcs _ _ Fcc) as [Hcjc Hcic].
  assert (Scj : simple cj). { destruct Hrest as [Hs _]. rewrite Forall_forall in Hs. auto. }
  assert (Hpq2 : forall v, In v (pedges ci) -> In v (pedges cj) -> is_end ci v /\ is_end cj v).
  { intros v H1 H2. destruct (F1 cj v Hcj H2 H1) as (_ & _ & A & _ & _ & B). auto. }
  rewrite p_connectable_sym in Fcc.
  destruct (connect_simple ci cj Sci Scj Fcc Hpq2) as (c2 & Ec2 & Sc2 & Vc2 & _ & _).
  rewrite Ec2, set_nth_middle.
  (* the rest without cj *)
  assert (Hrest' : tng_inv ((l1 ++ k) ++ cj :: m2)) by (rewrite <- app_assoc; exact Hrest).
  pose proof (proj1 (inv_middle (l1 ++ k) cj m2) Hrest') as (_ & Hrest2 & Hdisj2).
  rewrite <- app_assoc in Hrest2, Hdisj2.
  assert (Hi : tng_inv (l1 ++ c2 :: k ++ m2)).
  { apply inv_middle. split; [auto|split; [auto|]]. intros v Hv Hvt.
    apply Vc2 in Hv. destruct Hv as [Hv|Hv]; [|apply (Hdisj2 v Hv Hvt)].
    apply in_verts in Hvt. destruct Hvt as (x & Hx & Hvx).
    assert (Hx' : In x (l1 ++ k ++ cj :: m2)).
    { apply in_app_or in Hx. apply in_or_app. destruct Hx as [Hx|Hx]; [left; auto|right].
      apply in_app_or in Hx. apply in_or_app. destruct Hx; [left|right; right]; auto. }
    destruct (F1 x v Hx' Hvx Hv) as (Hvc & Hva & _).
    (* the label w shared by ci and cj is the other end of arc, hence v = w lies on cj *)
    rewrite p_connectable_sym in Fcc.
    destruct (connectable_shares_end _ _ Fcc) as (w & Hwj & Hwi).
    destruct (F1 cj w Hcj (is_end_in _ _ Scj Hwj) (is_end_in _ _ Sci Hwi)) as (Hwc & Hwa & _).
    destruct (connectable_shares_end _ _ Fc) as (s & Hsc & Hsa).
    assert (Hs : In s (pedges c)) by (apply is_end_in; auto).
    assert (Evw : v = w).
    { apply (two_ends arc s v w); auto; intros ->; contradiction. }
    subst w. apply (Hdisj2 v (is_end_in _ _ Scj Hwj)). apply in_verts. eauto. }
  rewrite sort_total by apply Hi. eexists. split; [reflexivity|]. split; [|apply isort_sorted].
  eapply inv_perm; [apply Permutation_sym; apply isort_perm|exact Hi].
Qed.
