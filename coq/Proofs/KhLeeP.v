(* The algebra behind Lee's canonical cycles (t = 0): a = X and b = X - h satisfy a.b = 0,
   a.a = h a, b.b = -h b, comul a = a (x) a, comul b = b (x) b.  On the Seifert state every crossing
   joins two circles of different colours, so every cube edge leaving it merges an a-circle with a
   b-circle: the image vanishes because a.b = 0. *)
From Coq Require Import List Bool ZArith Lia Ring.
Require Import Yui.Model.KhCube Yui.Proofs.KhAlg.
Import ListNotations.
Open Scope Z_scope.

Definition lee_a : A := (0, 1).
Definition lee_b (h : Z) : A := (- h, 1).
Definition tensor (u v : A) : AA := (fst u * fst v, fst u * snd v, snd u * fst v, snd u * snd v).

Lemma lee_ab h : mul h 0 lee_a (lee_b h) = (0, 0).
Proof. unfold mul, lee_a, lee_b. peq. Qed.
Lemma lee_ba h : mul h 0 (lee_b h) lee_a = (0, 0).
Proof. unfold mul, lee_a, lee_b. peq. Qed.
Lemma lee_aa h : mul h 0 lee_a lee_a = a_scal h lee_a.
Proof. unfold mul, lee_a, a_scal. cbn [fst snd]. peq. Qed.
Lemma lee_bb h : mul h 0 (lee_b h) (lee_b h) = a_scal (- h) (lee_b h).
Proof. unfold mul, lee_b, a_scal. cbn [fst snd]. peq. Qed.
Lemma lee_comul_a h : comul h 0 lee_a = tensor lee_a lee_a.
Proof. unfold comul, tensor, lee_a. cbn [fst snd]. peq. Qed.
Lemma lee_comul_b h : comul h 0 (lee_b h) = tensor (lee_b h) (lee_b h).
Proof. unfold comul, tensor, lee_b. cbn [fst snd]. peq. Qed.
