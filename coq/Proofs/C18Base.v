(* C18 - basic facts about the link model: half-edges, the two involutions (other end of an edge,
   passage through a crossing) and the successor map on half-edges of a valid code. *)
From Coq Require Import List Arith Bool Lia.
Require Import Yui.Model.Link.
Import ListNotations.

(* ---------------------------------------------------------------------------------------------- *)
(* generic list facts *)
Lemma find_andb_filter : forall A (f g : A -> bool) l,
  find (fun x => f x && g x) l = find g (filter f l).
Proof.
  induction l as [|a l IH]; cbn; auto.
  destruct (f a); cbn; auto. destruct (g a); auto.
Qed.

Lemma filter_map_comm : forall A B (f : A -> B) (g : B -> bool) l,
  filter g (map f l) = map f (filter (fun x => g (f x)) l).
Proof. induction l as [|a l IH]; cbn; auto. destruct (g (f a)); cbn; congruence. Qed.

Lemma pos_eqb_spec : forall p q, pos_eqb p q = true <-> p = q.
Proof.
  intros [a b] [c d]. unfold pos_eqb. cbn. rewrite andb_true_iff, !Nat.eqb_eq.
  split; [intros [-> ->]; auto | intros E; inversion E; auto].
Qed.
Lemma pos_eqb_refl : forall p, pos_eqb p p = true.
Proof. intros. apply pos_eqb_spec; auto. Qed.
Lemma pos_eqb_neq : forall p q, pos_eqb p q = false <-> p <> q.
Proof.
  intros. destruct (pos_eqb p q) eqn:E.
  - apply pos_eqb_spec in E. split; [discriminate | intros; contradiction].
  - split; auto. intros _ E'. apply pos_eqb_spec in E'. congruence.
Qed.
Lemma pos_eq_dec : forall p q : pos, {p = q} + {p <> q}.
Proof. decide equality; apply Nat.eq_dec. Qed.

Lemma mem_spec : forall e s, mem e s = true <-> In e s.
Proof.
  intros. unfold mem. rewrite existsb_exists. split.
  - intros [x [Hx E]]. apply Nat.eqb_eq in E. subst; auto.
  - intros Hx. exists e. split; auto. apply Nat.eqb_refl.
Qed.
Lemma mem_false : forall e s, mem e s = false <-> ~ In e s.
Proof.
  intros. destruct (mem e s) eqn:E.
  - apply mem_spec in E. split; [discriminate | intros; contradiction].
  - split; auto. intros _ Hx. apply mem_spec in Hx. congruence.
Qed.

(* ---------------------------------------------------------------------------------------------- *)
(* pass is a fixed-point free involution of the four slots *)
Lemma pass_lt : forall t j, j < 4 -> pass t j < 4.
Proof.
  intros t j Hj. destruct t; cbn [pass];
    do 4 (destruct j as [|j]; [cbn; lia|]); lia.
Qed.
Lemma pass_invol : forall t j, j < 4 -> pass t (pass t j) = j.
Proof.
  intros t j Hj. destruct t; cbn [pass];
    do 4 (destruct j as [|j]; [cbn; lia|]); lia.
Qed.
Lemma pass_neq : forall t j, j < 4 -> pass t j <> j.
Proof.
  intros t j Hj. destruct t; cbn [pass];
    do 4 (destruct j as [|j]; [cbn; lia|]); lia.
Qed.

(* ---------------------------------------------------------------------------------------------- *)
(* half-edges *)
Definition InR (l : link) (p : pos) : Prop := fst p < length l /\ snd p < 4.

Lemma in_range_spec : forall l p, in_range l p = true <-> InR l p.
Proof.
  intros. unfold in_range, InR. rewrite andb_true_iff, !Nat.ltb_lt. tauto.
Qed.

Lemma hedges_from_spec : forall l i0 p e,
  In (p, e) (hedges_from i0 l) <->
  (i0 <= fst p /\ fst p - i0 < length l /\ snd p < 4 /\ e = edge (nth (fst p - i0) l dummy_c) (snd p)).
Proof.
  induction l as [|c l IH]; intros i0 [i j] e; cbn [hedges_from fst snd length].
  - split; [intros [] | intros (_ & H & _); lia].
  - cbn [In]. rewrite IH. cbn [fst snd]. split.
    + intros [E|[E|[E|[E|(H1 & H2 & H3 & H4)]]]]; try (inversion E; subst; clear E).
      * rewrite Nat.sub_diag. cbn. repeat split; lia.
      * rewrite Nat.sub_diag. cbn. repeat split; lia.
      * rewrite Nat.sub_diag. cbn. repeat split; lia.
      * rewrite Nat.sub_diag. cbn. repeat split; lia.
      * replace (i - i0) with (S (i - S i0)) by lia. cbn [nth]. repeat split; try lia; auto.
    + intros (H1 & H2 & H3 & H4).
      destruct (Nat.eq_dec i i0) as [->|Hne].
      * rewrite Nat.sub_diag in H4. cbn [nth] in H4. subst e.
        destruct j as [|[|[|[|j]]]]; cbn [edge]; try lia; auto 6.
      * do 4 right. replace (i - i0) with (S (i - S i0)) in H4 by lia. cbn [nth] in H4.
        repeat split; try lia; auto.
Qed.

Lemma hedges_spec : forall l p e, In (p, e) (hedges l) <-> (InR l p /\ e = edge_at l p).
Proof.
  intros. unfold hedges, InR, edge_at, cross_at. rewrite hedges_from_spec. rewrite Nat.sub_0_r.
  split; [intros (_ & A & B & C)|intros ((A & B) & C)]; repeat split; auto; lia.
Qed.

Lemma hedges_from_NoDup : forall l i0, NoDup (map fst (hedges_from i0 l)).
Proof.
  induction l as [|c l IH]; intros i0; cbn [hedges_from map fst].
  - constructor.
  - assert (Hn : forall j, ~ In (i0, j) (map fst (hedges_from (S i0) l))).
    { intros j Hin. apply in_map_iff in Hin. destruct Hin as [[p e] [E Hin]]. cbn in E. subst p.
      apply hedges_from_spec in Hin. cbn in Hin. lia. }
    constructor; [|constructor; [|constructor; [|constructor; [|apply IH]]]]; cbn [In]; intros Hx;
      repeat (destruct Hx as [Hx|Hx]; [inversion Hx|]); eapply Hn; eauto.
Qed.
Lemma hedges_NoDup : forall l, NoDup (map fst (hedges l)).
Proof. intros. apply hedges_from_NoDup. Qed.

Lemma hedges_from_length : forall l i0, length (hedges_from i0 l) = 4 * length l.
Proof. induction l as [|c l IH]; intros; cbn [hedges_from length]; auto. rewrite IH. lia. Qed.

Lemma hedges_from_labels : forall l i0, map snd (hedges_from i0 l) = edge_labels l.
Proof.
  induction l as [|c l IH]; intros; cbn [hedges_from map snd]; auto.
  unfold edge_labels in *. cbn [flat_map cedges app]. rewrite IH. reflexivity.
Qed.
Lemma hedges_labels : forall l, map snd (hedges l) = edge_labels l.
Proof. intros. apply hedges_from_labels. Qed.

Lemma edge_at_in_labels : forall l p, InR l p -> In (edge_at l p) (edge_labels l).
Proof.
  intros l p Hp. rewrite <- hedges_labels. apply in_map_iff. exists (p, edge_at l p).
  split; auto. apply hedges_spec; auto.
Qed.
Lemma in_labels_edge_at : forall l e, In e (edge_labels l) -> exists p, InR l p /\ edge_at l p = e.
Proof.
  intros l e He. rewrite <- hedges_labels in He. apply in_map_iff in He.
  destruct He as [[p e'] [E Hin]]. cbn in E. subst e'. apply hedges_spec in Hin.
  exists p. destruct Hin; split; auto.
Qed.

(* a bound on duplicate-free lists of half-edges (pigeonhole) *)
Lemma InR_bound : forall l ps, NoDup ps -> (forall p, In p ps -> InR l p) -> length ps <= 4 * length l.
Proof.
  intros l ps Hnd Hin.
  rewrite <- (hedges_from_length l 0). rewrite <- (map_length fst).
  apply NoDup_incl_length; auto.
  intros p Hp. apply in_map_iff. exists (p, edge_at l p). split; auto.
  apply hedges_spec. split; auto.
Qed.

(* ---------------------------------------------------------------------------------------------- *)
(* validity *)
Definition Valid (l : link) : Prop :=
  forall e, In e (edge_labels l) -> count_label e (edge_labels l) = 2.

Lemma valid_spec : forall l, valid l = true <-> Valid l.
Proof.
  intros. unfold valid, Valid. rewrite forallb_forall.
  split; intros Hv e He; specialize (Hv e He); apply Nat.eqb_eq; auto.
Qed.

Definition same_label (l : link) (e : nat) (h : pos * nat) : bool := snd h =? e.

Lemma count_label_hedges : forall l e,
  count_label e (edge_labels l) = length (filter (same_label l e) (hedges l)).
Proof.
  intros. unfold count_label. rewrite <- hedges_labels. rewrite filter_map_comm, map_length.
  f_equal. apply filter_ext. intros h. unfold same_label. apply Nat.eqb_sym.
Qed.

Lemma pass_edge_filter : forall l p,
  pass_edge l p =
  option_map fst (find (fun h => negb (pos_eqb (fst h) p)) (filter (same_label l (edge_at l p)) (hedges l))).
Proof.
  intros. unfold pass_edge. rewrite <- find_andb_filter. reflexivity.
Qed.

(* general facts (any code) *)
Lemma pass_edge_some : forall l p q, pass_edge l p = Some q ->
  InR l q /\ edge_at l q = edge_at l p /\ q <> p.
Proof.
  intros l p q Hpe. unfold pass_edge in Hpe.
  destruct (find _ (hedges l)) as [[q' e]|] eqn:F; cbn in Hpe; [|discriminate].
  inversion Hpe; subst q'; clear Hpe.
  apply find_some in F. destruct F as [Hin Hb]. cbn [fst snd] in Hb.
  apply andb_true_iff in Hb. destruct Hb as [He Hn].
  apply Nat.eqb_eq in He. apply negb_true_iff, pos_eqb_neq in Hn.
  apply hedges_spec in Hin. destruct Hin as [Hr Hl]. split; [exact Hr|]. split; [congruence|exact Hn].
Qed.

Lemma pass_edge_none : forall l p q, pass_edge l p = None -> InR l q -> edge_at l q = edge_at l p -> q = p.
Proof.
  intros l p q Hpe Hq He. unfold pass_edge in Hpe.
  destruct (find _ (hedges l)) eqn:F; cbn in Hpe; [discriminate|].
  destruct (pos_eq_dec q p) as [|Hne]; auto. exfalso.
  eapply find_none in F. 2: { apply hedges_spec. split; [exact Hq|reflexivity]. }
  cbn [fst snd] in F. rewrite He, Nat.eqb_refl in F. cbn in F.
  apply negb_false_iff, pos_eqb_spec in F. contradiction.
Qed.

(* valid codes: the two half-edges of a label *)
Lemma valid_two : forall l p, Valid l -> InR l p ->
  exists q, q <> p /\ InR l q /\ edge_at l q = edge_at l p /\
            pass_edge l p = Some q /\ pass_edge l q = Some p /\
            (forall r, InR l r -> edge_at l r = edge_at l p -> r = p \/ r = q).
Proof.
  intros l p Hv Hp.
  pose proof (Hv _ (edge_at_in_labels l p Hp)) as Hc. rewrite count_label_hedges in Hc.
  set (e := edge_at l p) in *.
  destruct (filter (same_label l e) (hedges l)) as [|h1 [|h2 [|h3 F]]] eqn:EF; cbn in Hc; try lia.
  assert (Hin : forall h, In h [h1; h2] <-> In h (hedges l) /\ snd h = e).
  { intros h. rewrite <- EF, filter_In. unfold same_label. rewrite Nat.eqb_eq. tauto. }
  assert (Hnd : fst h1 <> fst h2).
  { pose proof (hedges_NoDup l) as ND.
    assert (ND2 : NoDup (map fst (filter (same_label l e) (hedges l)))).
    { clear -ND. induction (hedges l) as [|a x IH]; cbn; [constructor|].
      inversion ND; subst. destruct (same_label l e a); cbn; auto.
      constructor; auto. intros Hx. apply H1. apply in_map_iff in Hx. destruct Hx as [y [E Hy]].
      apply filter_In in Hy. apply in_map_iff. exists y. tauto. }
    rewrite EF in ND2. cbn in ND2. inversion ND2 as [|? ? Hni _]; subst. cbn in Hni. intros E. apply Hni. left. auto. }
  assert (H1 : In h1 (hedges l) /\ snd h1 = e) by (apply Hin; cbn; auto).
  assert (H2 : In h2 (hedges l) /\ snd h2 = e) by (apply Hin; cbn; auto).
  destruct h1 as [p1 e1], h2 as [p2 e2]. cbn [fst snd] in *.
  destruct H1 as [H1 ->], H2 as [H2 ->].
  apply hedges_spec in H1, H2. destruct H1 as [R1 L1], H2 as [R2 L2].
  assert (Hp12 : p = p1 \/ p = p2).
  { assert (In (p, e) [(p1, e); (p2, e)]) as Hx.
    { apply Hin. split; auto. apply hedges_spec. split; auto. }
    cbn in Hx. destruct Hx as [E|[E|[]]]; inversion E; auto. }
  assert (Huniq : forall r, InR l r -> edge_at l r = e -> r = p1 \/ r = p2).
  { intros r Hr Hre. assert (In (r, e) [(p1, e); (p2, e)]) as Hx.
    { apply Hin. split; auto. apply hedges_spec. split; auto. }
    cbn in Hx. destruct Hx as [E|[E|[]]]; inversion E; auto. }
  assert (PE1 : pass_edge l p1 = Some p2).
  { rewrite pass_edge_filter. rewrite <- L1. rewrite EF. cbn [find fst].
    rewrite pos_eqb_refl. cbn [negb].
    assert (pos_eqb p2 p1 = false) as -> by (apply pos_eqb_neq; congruence). reflexivity. }
  assert (PE2 : pass_edge l p2 = Some p1).
  { rewrite pass_edge_filter. rewrite <- L2. rewrite EF. cbn [find fst].
    assert (pos_eqb p1 p2 = false) as -> by (apply pos_eqb_neq; congruence). reflexivity. }
  destruct Hp12 as [-> | ->].
  - exists p2. split; [congruence|]. split; [exact R2|]. split; [congruence|]. split; [exact PE1|].
    split; [exact PE2|]. intros r Hr Hre. apply Huniq; auto.
  - exists p1. split; [congruence|]. split; [exact R1|]. split; [congruence|]. split; [exact PE2|].
    split; [exact PE1|]. intros r Hr Hre. destruct (Huniq r Hr Hre); auto.
Qed.

(* ---------------------------------------------------------------------------------------------- *)
(* total versions of the two involutions and of the successor *)
Definition tau (l : link) (p : pos) : pos := match pass_edge l p with Some q => q | None => p end.
Definition sigma (l : link) (p : pos) : pos := tau l (exit_of l p).

Lemma exit_InR : forall l p, InR l p -> InR l (exit_of l p).
Proof. intros l [i j] [A B]. unfold exit_of, InR in *. cbn in *. split; auto. apply pass_lt; auto. Qed.
Lemma exit_invol : forall l p, InR l p -> exit_of l (exit_of l p) = p.
Proof. intros l [i j] [A B]. unfold exit_of. cbn in *. rewrite pass_invol; auto. Qed.
Lemma exit_neq : forall l p, InR l p -> exit_of l p <> p.
Proof.
  intros l [i j] [A B] E. unfold exit_of in E. cbn in *. inversion E. eapply pass_neq; eauto.
Qed.

Section ValidCode.
  Variable l : link.
  Hypothesis Hv : Valid l.

  Lemma tau_some : forall p, InR l p -> pass_edge l p = Some (tau l p).
  Proof.
    intros p Hp. destruct (valid_two l p Hv Hp) as (q & _ & _ & _ & E & _). unfold tau. rewrite E. auto.
  Qed.
  Lemma tau_InR : forall p, InR l p -> InR l (tau l p).
  Proof. intros p Hp. pose proof (tau_some p Hp) as E. apply pass_edge_some in E. tauto. Qed.
  Lemma tau_label : forall p, InR l p -> edge_at l (tau l p) = edge_at l p.
  Proof. intros p Hp. pose proof (tau_some p Hp) as E. apply pass_edge_some in E. tauto. Qed.
  Lemma tau_neq : forall p, InR l p -> tau l p <> p.
  Proof. intros p Hp. pose proof (tau_some p Hp) as E. apply pass_edge_some in E. tauto. Qed.
  Lemma tau_invol : forall p, InR l p -> tau l (tau l p) = p.
  Proof.
    intros p Hp. destruct (valid_two l p Hv Hp) as (q & _ & _ & _ & E1 & E2 & _).
    unfold tau. rewrite E1, E2. auto.
  Qed.
  Lemma same_label_cases : forall p r, InR l p -> InR l r -> edge_at l r = edge_at l p -> r = p \/ r = tau l p.
  Proof.
    intros p r Hp Hr He. destruct (valid_two l p Hv Hp) as (q & _ & _ & _ & E1 & _ & U).
    unfold tau. rewrite E1. auto.
  Qed.

  Lemma succ_sigma : forall p, InR l p -> succ l p = Some (sigma l p).
  Proof. intros p Hp. unfold succ, sigma. apply tau_some. apply exit_InR; auto. Qed.
  Lemma sigma_InR : forall p, InR l p -> InR l (sigma l p).
  Proof. intros p Hp. unfold sigma. apply tau_InR, exit_InR; auto. Qed.
  Lemma sigma_label : forall p, InR l p -> edge_at l (sigma l p) = edge_at l (exit_of l p).
  Proof. intros p Hp. unfold sigma. apply tau_label, exit_InR; auto. Qed.
  (* the inverse of sigma is exit o tau *)
  Lemma sigma_inv : forall p, InR l p -> exit_of l (tau l (sigma l p)) = p.
  Proof.
    intros p Hp. unfold sigma. rewrite tau_invol by (apply exit_InR; auto). apply exit_invol; auto.
  Qed.
  Lemma sigma_inv' : forall p, InR l p -> sigma l (exit_of l (tau l p)) = p.
  Proof.
    intros p Hp. unfold sigma. rewrite exit_invol by (apply tau_InR; auto). apply tau_invol; auto.
  Qed.
  Lemma sigma_inj : forall p q, InR l p -> InR l q -> sigma l p = sigma l q -> p = q.
  Proof. intros p q Hp Hq E. rewrite <- (sigma_inv p Hp), <- (sigma_inv q Hq), E. reflexivity. Qed.

  (* iterates *)
  Fixpoint sig (k : nat) (p : pos) : pos := match k with 0 => p | S k' => sigma l (sig k' p) end.
  Lemma sig_InR : forall k p, InR l p -> InR l (sig k p).
  Proof. induction k; intros; cbn; auto. apply sigma_InR; auto. Qed.
  Lemma sig_add : forall a b p, sig (a + b) p = sig a (sig b p).
  Proof. induction a; intros; cbn; auto. rewrite IHa; auto. Qed.
  Lemma sig_S_r : forall k p, sig (S k) p = sig k (sigma l p).
  Proof. intros. replace (S k) with (k + 1) by lia. rewrite sig_add. reflexivity. Qed.
  Lemma sig_inj : forall k p q, InR l p -> InR l q -> sig k p = sig k q -> p = q.
  Proof.
    induction k; intros p q Hp Hq E; cbn in E; auto.
    apply IHk; auto. apply sigma_inj; auto; apply sig_InR; auto.
  Qed.

  (* an edge is never traversed in both directions by one orbit:
     the other end of p does not lie on the forward orbit of p *)
  Lemma tau_not_on_orbit : forall d,
    (forall q, InR l q -> tau l q <> sig d q) /\ (forall q, InR l q -> tau l q <> sig (S d) q).
  Proof.
    induction d as [|d [IH0 IH1]].
    - split; intros q Hq; cbn.
      + apply tau_neq; auto.
      + unfold sigma. intros E.
        assert (q = exit_of l q) as E2.
        { assert (E3 : tau l (tau l q) = tau l (tau l (exit_of l q))) by congruence.
          rewrite tau_invol in E3 by auto. rewrite tau_invol in E3 by (apply exit_InR; auto). exact E3. }
        symmetry in E2. eapply exit_neq; eauto.
    - split; auto. intros q Hq E.
      apply (IH0 (sigma l q) (sigma_InR q Hq)).
      (* tau (sigma q) = exit q ; sig d (sigma q) = sig (S d) q = sigma^-1 (tau q) = exit q *)
      assert (T1 : tau l (sigma l q) = exit_of l q).
      { unfold sigma. apply tau_invol, exit_InR; auto. }
      assert (T2 : sig d (sigma l q) = exit_of l q).
      { rewrite <- sig_S_r.
        assert (InR l (sig (S d) q)) as HR by (apply sig_InR; auto).
        rewrite <- (sigma_inv (sig (S d) q) HR).
        change (sigma l (sig (S d) q)) with (sig (S (S d)) q). rewrite <- E.
        rewrite tau_invol; auto. }
      congruence.
  Qed.
End ValidCode.
