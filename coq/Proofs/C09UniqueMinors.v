(* C09 (uniqueness), part 7: the invariant factors are the gcds of minors (over Z).
   This file alone uses MathComp / CoqEAL (ssreflect style); everything else of C09 is stdlib style.

   CoqEAL [smith_complements.Smith_gcdr_spec] (axiom-free): over a Euclidean domain, if A is equivalent to
   diag(s) with s a divisibility chain then prod_(i<k) s_i is an associate of the gcd of all k x k minors of A
   (Cauchy-Binet).  Bridge: Z with the ring structure of mathcomp.zify.ssrZ (the operations ARE Z.add, Z.mul) is
   made a CoqEAL euclidDomainType (floor division, norm |.|); a functional matrix A : nat -> nat -> Z becomes
   \matrix_(i < m, j < n) A i j; a [smith_form] with a chain becomes [equivalent .. (diag_mx_seq ..)].

   The final statement is free of MathComp vocabulary except for the determinant:
     [zminor A k f g] = \det of the k x k matrix (A (f i) (g j))_(i,j<k),   f, g : nat -> nat  any index maps,
     [prodn k d]      = d_0 * ... * d_(k-1).
   [minors_spec]: for k <= min m n the product of the first k diagonal entries (0 beyond the rank) divides
   every k x k minor of A, and every common divisor of the k x k minors divides it. *)
Set Warnings "-notation-overridden,-ambiguous-paths,-redundant-canonical-projection,-projection-no-head-constant".
From Coq Require Import ZArith Lia.
From mathcomp Require Import all_ssreflect all_algebra.
From mathcomp Require Import ssrZ zify.
From CoqEAL Require Import ssrcomplements mxstructure minor dvdring similar smith_complements.
Require Import Yui.Base.Ring Yui.Base.MatF Yui.Proofs.C07Algebra Yui.Proofs.C09UniqueKer.
Set Implicit Arguments.
Unset Strict Implicit.
Unset Printing Implicit Defensive.
Import GRing.Theory.
Local Open Scope ring_scope.

(* ---------- Z is a Euclidean domain in the sense of CoqEAL ---------- *)
Definition Znorm (a : Z) : nat := Z.abs_nat a.
Definition Zediv (a b : Z) : Z * Z := (Z.div a b, Z.modulo a b).

Lemma Znorm_mul (a b : Z) : a != 0 -> (Znorm b <= Znorm (a * b))%nat.
Proof.
move=> /eqP a0; rewrite /Znorm; apply/leP.
change (a * b)%R with (Z.mul a b). rewrite Zabs2Nat.inj_mul.
have H : (1 <= Z.abs_nat a)%coq_nat by change (a <> Z0) in a0; lia.
nia.
Qed.

Lemma ZedivP (a b : Z) : EuclideanDomain.edivr_spec Znorm a b (Zediv a b).
Proof.
rewrite /Zediv; constructor.
  change (a = Z.add (Z.mul (Z.div a b) b) (Z.modulo a b)).
  have := Z_div_mod_eq_full a b; lia.
apply/implyP=> /eqP b0; rewrite /Znorm; apply/ltP.
change (b <> Z0) in b0.
have := Z.mod_bound_or a b b0. lia.
Qed.

Definition Z_euclidMixin := EuclideanDomain.Mixin Znorm_mul ZedivP.
Definition Z_dvdMixin := EuclidDvdMixin Z_euclidMixin.
Canonical Z_dvdRingType := DvdRingType Z Z_dvdMixin.
Definition Z_gcdMixin := EuclidGcdMixin Z_euclidMixin.
Canonical Z_gcdType := GcdDomainType Z Z_gcdMixin.
Definition Z_bezoutMixin := EuclidBezoutMixin Z_euclidMixin.
Canonical Z_bezoutType := BezoutDomainType Z Z_bezoutMixin.
Definition Z_priMixin := EuclidPIDMixin Z_euclidMixin.
Canonical Z_priType := PIDType Z Z_priMixin.
Canonical Z_euclidType := EuclidDomainType Z Z_euclidMixin.

Lemma ZdvdP (a b : Z) : reflect (Z.divide a b) (a %| b).
Proof. by apply: (iffP (dvdrP a b)); case=> x Hx; exists x. Qed.

(* ---------- functional matrices as MathComp matrices ---------- *)
Definition mx_of (m n : nat) (A : mat Z) : 'M[Z]_(m, n) := \matrix_(i < m, j < n) A i j.

Lemma sum_big n (f : nat -> Z) : sum Z_ring n f = \sum_(k < n) f k.
Proof.
elim: n => [|n IH]; first by rewrite big_ord0.
by rewrite big_ord_recr /= -IH.
Qed.

Lemma mx_of_mul m n p (A B : mat Z) : mx_of m p (mmul Z_ring n A B) = mx_of m n A *m mx_of n p B.
Proof.
apply/matrixP=> i j; rewrite !mxE /mmul sum_big.
by apply: eq_bigr=> k _; rewrite !mxE.
Qed.

Lemma mx_of_ext m n (A B : mat Z) : meq m n A B -> mx_of m n A = mx_of m n B.
Proof. by move=> H; apply/matrixP=> i j; rewrite !mxE; apply: H; apply/ltP. Qed.

Lemma mx_of_id n : mx_of n n (mid Z_ring) = 1%:M.
Proof.
apply/matrixP=> i j; rewrite !mxE /mid.
have -> : (i == j) = (Nat.eqb i j).
  by apply/idP/idP=> [/eqP ->|/Nat.eqb_spec H]; [apply/Nat.eqb_spec|apply/eqP; apply: val_inj].
by case: (Nat.eqb i j).
Qed.

Lemma inv_pair_unit k (P Pi : mat Z) : inv_pair Z_ring k P Pi -> mx_of k k P \in unitmx.
Proof.
case=> H _. have := mx_of_ext H. rewrite mx_of_mul mx_of_id.
by case/mulmx1_unit.
Qed.

Lemma nth_diag r (a : nat -> Z) i : (mkseq a r)`_i = if Nat.ltb i r then a i else 0.
Proof.
case: (Nat.ltb_spec i r) => [/ltP H|/leP H]; first by rewrite nth_mkseq.
by rewrite nth_default // size_mkseq.
Qed.

Lemma form_equivalent m n (A : mat Z) r a :
  smith_form Z_ring m n A r a -> equivalent (mx_of m n A) (diag_mx_seq m n (mkseq a r)).
Proof.
case=> P [Pi [Q [Qi [HP [HQ [He _]]]]]].
split=> //; exists (mx_of m m P); exists (mx_of n n Q).
split; [exact: (inv_pair_unit HP)|exact: (inv_pair_unit HQ)|].
rewrite conform_mx_id -mulmxA -!mx_of_mul (mx_of_ext He).
apply/matrixP=> i j; rewrite !mxE nth_diag.
have -> : Nat.eqb i j = (i == j :> nat).
  by apply/idP/idP=> [/Nat.eqb_spec ->|/eqP ->] //; apply/Nat.eqb_spec.
by case: (i == j :> nat) => /=; [rewrite mulr1n|rewrite mulr0n].
Qed.

Lemma chain_sorted r (a : nat -> Z) : chain Z_ring r a -> sorted %|%R (mkseq a r).
Proof.
move=> C; apply/(sortedP 0)=> i; rewrite size_mkseq => Hi.
rewrite !nth_mkseq //; last exact: ltnW.
by apply/ZdvdP; case: (C i) => [|q Hq]; [apply/ltP|exists q].
Qed.

(* ---------- the statement without MathComp vocabulary (except \det) ---------- *)
Fixpoint prodn (k : nat) (d : nat -> Z) : Z :=
  match k with O => Zpos xH | S k' => Z.mul (prodn k' d) (d k') end.

Definition zminor (A : mat Z) (k : nat) (f g : nat -> nat) : Z :=
  \det (\matrix_(i < k, j < k) A (f i) (g j)).

Lemma prodn_big k (d : nat -> Z) : prodn k d = \prod_(i < k) d i.
Proof.
elim: k => [|k IH]; first by rewrite big_ord0.
by rewrite big_ord_recr /= -IH.
Qed.

Lemma zminor_minor m n (A : mat Z) k (f0 : 'I_k -> 'I_m) (g0 : 'I_k -> 'I_n) (f g : nat -> nat) :
  (forall i : 'I_k, f i = f0 i) -> (forall j : 'I_k, g j = g0 j) ->
  zminor A k f g = minor f0 g0 (mx_of m n A).
Proof.
move=> Hf Hg; rewrite /zminor /minor; congr (\det _).
by apply/matrixP=> i j; rewrite !mxE Hf Hg.
Qed.

(* the meaning of [zminor] pinned for k = 1, 2 (1 x 1 and 2 x 2 determinants) *)
Lemma zminor_1 (A : mat Z) f g : zminor A 1 f g = A (f O) (g O).
Proof. by rewrite /zminor det_mx11 mxE. Qed.

Lemma zminor_2 (A : mat Z) f g :
  zminor A 2 f g = Z.sub (Z.mul (A (f 0%nat) (g 0%nat)) (A (f 1%nat) (g 1%nat)))
                         (Z.mul (A (f 1%nat) (g 0%nat)) (A (f 0%nat) (g 1%nat))).
Proof. by rewrite /zminor det2 !mxE. Qed.

Theorem minors_spec m n (A : mat Z) r a k :
  smith_form Z_ring m n A r a -> chain Z_ring r a -> (k <= Nat.min m n)%coq_nat ->
  let pk := prodn k (fun i => if Nat.ltb i r then a i else Z0) in
  (forall f g : nat -> nat,
     (forall i, (i < k)%coq_nat -> (f i < m)%coq_nat) -> (forall j, (j < k)%coq_nat -> (g j < n)%coq_nat) ->
     Z.divide pk (zminor A k f g)) /\
  (forall c : Z,
     (forall f g : nat -> nat,
        (forall i, (i < k)%coq_nat -> (f i < m)%coq_nat) -> (forall j, (j < k)%coq_nat -> (g j < n)%coq_nat) ->
        Z.divide c (zminor A k f g)) ->
     Z.divide c pk).
Proof.
move=> F C Hk pk.
have Hk' : (k <= minn m n)%N by apply/leP; move: Hk; rewrite /minn; case: ltnP => /leP; lia.
have S := Smith_gcdr_spec Hk' (chain_sorted C) (form_equivalent F).
have Epk : pk = \prod_(i < k) (mkseq a r)`_i.
  by rewrite /pk prodn_big; apply: eq_bigr => i _; rewrite nth_diag.
rewrite -Epk in S. move: S; rewrite eqd_def => /andP [S1 S2].
split.
- move=> f g Hf Hg.
  have Hf' : forall i : 'I_k, (f i < m)%N by move=> i; apply/ltP; apply: Hf; apply/ltP.
  have Hg' : forall j : 'I_k, (g j < n)%N by move=> j; apply/ltP; apply: Hg; apply/ltP.
  pose f0 := [ffun i : 'I_k => Ordinal (Hf' i)]; pose g0 := [ffun j : 'I_k => Ordinal (Hg' j)].
  rewrite (@zminor_minor m n A k f0 g0 f g); try by move=> i; rewrite ffunE.
  apply/ZdvdP. apply: (dvdr_trans S1).
  apply: (dvdr_trans (big_dvdr_gcdr _ f0)). exact: (big_dvdr_gcdr _ g0).
- move=> c Hc. apply/ZdvdP. apply: (dvdr_trans _ S2).
  apply: big_gcdrP => f0; apply: big_gcdrP => g0.
  pose f := fun i : nat => if insub i is Some o then val (f0 o) else O.
  pose g := fun j : nat => if insub j is Some o then val (g0 o) else O.
  have Ef : forall i : 'I_k, f i = f0 i by move=> i; rewrite /f valK.
  have Eg : forall j : 'I_k, g j = g0 j by move=> j; rewrite /g valK.
  rewrite -(@zminor_minor m n A k f0 g0 f g Ef Eg). apply/ZdvdP. apply: Hc.
  + by move=> i /ltP Hi; apply/ltP; rewrite (Ef (Ordinal Hi)).
  + by move=> j /ltP Hj; apply/ltP; rewrite (Eg (Ordinal Hj)).
Qed.
