(* C09 (uniqueness), part 8: the gcd-of-minors characterisation (Proofs/C09UniqueMinors.v) for the two executable
   Smith routines: the product of the first k diagonal entries returned by the mirrored snf over Z, and of the
   first k factors returned by the oracle's [smith_diag], is a gcd of the k x k minors of the input.
   Stdlib style; MathComp is only loaded (not imported) through C09UniqueMinors. *)
From Coq Require Import ZArith Arith List Lia Bool.
Require Import Yui.Base.Ring Yui.Base.MatF Yui.Base.MatL Yui.Model.Snf.
Require Import Yui.Model.KhCube Yui.Model.KhHomology.
Require Import Yui.Proofs.C07Algebra Yui.Proofs.C09UniqueKer Yui.Proofs.C09Unique.
Require Import Yui.Proofs.C09Inv Yui.Proofs.C09Total Yui.Proofs.C09Laws.
Require Import Yui.Proofs.KhSmithRows Yui.Proofs.KhSmithMat Yui.Proofs.KhSmithSteps Yui.Proofs.KhSmithMain.
Require Yui.Proofs.C09UniqueMinors.
Import ListNotations.
Local Set Bullet Behavior "Strict Subproofs".
Local Open Scope Z_scope.

Notation prodn := C09UniqueMinors.prodn.
Notation zminor := C09UniqueMinors.zminor.

(* "d is a gcd of the k x k minors of the m x n matrix A" *)
Definition gcd_of_minors (m n : nat) (A : mat Z) (k : nat) (d : Z) : Prop :=
  (forall f g : nat -> nat,
     (forall i, (i < k)%nat -> (f i < m)%nat) -> (forall j, (j < k)%nat -> (g j < n)%nat) ->
     (d | zminor A k f g)) /\
  (forall c : Z,
     (forall f g : nat -> nat,
        (forall i, (i < k)%nat -> (f i < m)%nat) -> (forall j, (j < k)%nat -> (g j < n)%nat) ->
        (c | zminor A k f g)) ->
     (c | d)).

Lemma prodn_ext k d d' : (forall i, (i < k)%nat -> d i = d' i) -> prodn k d = prodn k d'.
Proof.
  induction k as [|k IH]; intros H; [reflexivity|].
  cbn [C09UniqueMinors.prodn]. rewrite IH by (intros; apply H; lia). now rewrite (H k) by lia.
Qed.

Theorem smith_form_minors m n (A : mat Z) r a k :
  smith_form Z_ring m n A r a -> (forall i, (S i < r)%nat -> (a i | a (S i))) -> (k <= Nat.min m n)%nat ->
  gcd_of_minors m n A k (prodn k (fun i => if (i <? r)%nat then a i else 0)).
Proof.
  intros F C Hk. exact (@C09UniqueMinors.minors_spec m n A r a k F (proj2 (Z_chain r a) C) Hk).
Qed.

Theorem snf_minors pre m n (A : lmat Z) f1 f2 f3 f4 res k :
  snf_spec (Zpre_dict pre) m n A f1 f2 f3 f4 res -> (k <= Nat.min m n)%nat ->
  gcd_of_minors m n (lget Z_ring A) k (prodn k (fun i => lget Z_ring (dm_rows (sr_d res)) i i)).
Proof.
  intros HS Hk.
  destruct (spec_smith_form (Zpre_dict pre) m n A f1 f2 f3 f4 res HS) as [F [C _]]. cbv zeta in F, C.
  pose proof (smith_form_minors m n _ _ _ k F (proj1 (Z_chain _ _) C) Hk) as G.
  rewrite (prodn_ext k _ (fun i => lget Z_ring (dm_rows (sr_d res)) i i)) in G; [exact G|].
  intros i Hi. destruct (Nat.ltb_spec i (snf_rank (Zpre_dict pre) res)) as [Hir|Hir]; [reflexivity|].
  destruct HS as (T & P & Pi & Q & Qi & ET & _ & _ & _ & _ & _ & _ & _ & _ & _ & _ & _ & _ & _ & _ & HX & _).
  cbv zeta in HX. destruct HX as (_ & _ & _ & Hz & _ & _).
  rewrite ET. cbn [dm_rows]. symmetry. apply Hz; [exact Hir|lia].
Qed.

Theorem oracle_minors n fuel (rows : list row) ds k :
  rows_wf n rows -> smith_diag fuel rows = Some ds -> (k <= Nat.min (length rows) n)%nat ->
  gcd_of_minors (length rows) n (dense rows) k (prodn k (fun i => nth i ds 0)).
Proof.
  intros Hwf Hd Hk.
  pose proof (smith_diag_sound n fuel rows ds Hwf Hd) as HO.
  pose proof (SmithOf_smith_form _ _ _ _ HO) as F. destruct HO as [_ [Hch _]].
  pose proof (smith_form_minors _ _ _ _ _ k F Hch Hk) as G.
  rewrite (prodn_ext k _ (fun i => nth i ds 0)) in G; [exact G|].
  intros i Hi. destruct (Nat.ltb_spec i (length ds)) as [Hir|Hir]; [reflexivity|].
  symmetry. now apply nth_overflow.
Qed.
