(* Facts about the complex checker of KhCheck.v: evaluation H -> h, T -> t is a ring homomorphism on the
   polynomial representation (over Z), and what a passing verdict means. *)
From Coq Require Import List Arith Bool ZArith Lia Ring.
Require Import Yui.Model.KhCheck.
Import ListNotations.
Open Scope Z_scope.

Definition term_val (h t : Z) (e : mono * Z) : Z := snd e * zpow h (fst (fst e)) * zpow t (snd (fst e)).

Lemma p_eval_cons h t e p : p_eval h t (e :: p) = term_val h t e + p_eval h t p.
Proof. reflexivity. Qed.

Lemma mono_eqb_eq a b : mono_eqb a b = true -> a = b.
Proof.
  unfold mono_eqb. rewrite andb_true_iff, !Nat.eqb_eq. destruct a, b. cbn. intros [-> ->]. reflexivity.
Qed.

Lemma cred0 c : cred 0 c = c.
Proof. reflexivity. Qed.

Lemma eval_insert h t e p : p_eval h t (p_insert 0 e p) = term_val h t e + p_eval h t p.
Proof.
  induction p as [|[k c] r IH]; cbn [p_insert]; rewrite ?cred0.
  - destruct (Z.eqb_spec (snd e) 0) as [E|E].
    + unfold term_val. rewrite E. cbn. ring.
    + rewrite p_eval_cons. unfold term_val. cbn [fst snd]. reflexivity.
  - destruct (mono_ltb (fst e) k).
    + destruct (Z.eqb_spec (snd e) 0) as [E|E].
      * unfold term_val at 1. rewrite E. ring.
      * rewrite !p_eval_cons. unfold term_val. cbn [fst snd]. ring.
    + destruct (mono_eqb (fst e) k) eqn:Ek.
      * apply mono_eqb_eq in Ek. cbv zeta.
        destruct (Z.eqb_spec (c + snd e) 0) as [E|E]; rewrite !p_eval_cons; unfold term_val; cbn [fst snd]; rewrite Ek.
        -- replace (snd e) with (- c) by lia. ring.
        -- ring.
      * rewrite !p_eval_cons, IH. ring.
Qed.

Lemma eval_norm h t p : p_eval h t (p_norm 0 p) = p_eval h t p.
Proof.
  induction p as [|e p IH]; [reflexivity|]. unfold p_norm in *. cbn [fold_right].
  rewrite eval_insert, IH. reflexivity.
Qed.

Lemma eval_add h t a b : p_eval h t (p_add 0 a b) = p_eval h t a + p_eval h t b.
Proof.
  induction a as [|e a IH]; [unfold p_add, p_eval; cbn [fold_right]; ring|]. unfold p_add in *. cbn [fold_right].
  rewrite eval_insert, IH, p_eval_cons. ring.
Qed.

Lemma zpow_add b n m : zpow b (n + m) = zpow b n * zpow b m.
Proof. induction n as [|n IH]; cbn [zpow Nat.add]; [ring|]. rewrite IH. ring. Qed.

Lemma eval_scale_mono h t e b : p_eval h t (p_scale_mono 0 e b) = term_val h t e * p_eval h t b.
Proof.
  unfold p_scale_mono. rewrite eval_norm.
  induction b as [|x b IH]; [unfold p_eval; cbn [map fold_right]; ring|]. cbn [map]. rewrite !p_eval_cons, IH.
  unfold term_val. cbn [fst snd]. rewrite !zpow_add. unfold mono in *. ring.
Qed.

Lemma eval_mul h t a b : p_eval h t (p_mul 0 a b) = p_eval h t a * p_eval h t b.
Proof.
  induction a as [|e a IH]; [unfold p_mul, p_eval; cbn [fold_right]; ring|]. unfold p_mul in *. cbn [fold_right].
  rewrite eval_add, eval_scale_mono, IH, p_eval_cons. ring.
Qed.

Lemma eval_neg h t a : p_eval h t (p_neg 0 a) = - p_eval h t a.
Proof.
  unfold p_neg. rewrite eval_norm. induction a as [|e a IH]; [reflexivity|].
  cbn [map]. rewrite !p_eval_cons, IH. unfold term_val. cbn [fst snd]. ring.
Qed.

(* what a passing verdict means *)
Lemma check_complex_ok m gr c :
  check_complex m gr c = 0%nat -> shapes_ok c = true /\ dd_zero m c = true /\ (gr = true -> graded c = true).
Proof.
  unfold check_complex.
  destruct (shapes_ok c); cbn [negb]; [|discriminate].
  destruct (dd_zero m c); cbn [negb]; [|discriminate].
  destruct gr; cbn [andb].
  - destruct (graded c); cbn [negb]; [auto|discriminate].
  - intros _. repeat split. discriminate.
Qed.

(* homogeneity: a polynomial with [p_hom_deg a = Some d] has all its monomials of quantum degree d *)
Lemma p_hom_deg_spec a d : p_hom_deg a = Some d -> forall e, In e a -> mono_qdeg (fst e) = d.
Proof.
  destruct a as [|[k c] r]; [discriminate|]. cbn [p_hom_deg].
  destruct (forallb _ r) eqn:F; [|discriminate]. intros H. inversion H. subst d.
  intros e [<-|Hin]; [reflexivity|]. rewrite forallb_forall in F. specialize (F e Hin). now apply Z.eqb_eq in F.
Qed.
