(* C16 (rest): the statements of C16Rest{Mono,MDeg,Lead,Unit,Domain}.v packaged in the explicit form used by
   Properties/C16Rest.v, the unit dictionary of Z used by the correspondence driver satisfies [unit_laws],
   and concrete examples (non-vacuity). *)
From Coq Require Import List Bool Arith NArith ZArith Lia.
Require Import Yui.Base.Ring Yui.Model.Lc Yui.Model.Mono Yui.Model.Poly.
Require Import Yui.Proofs.C16Lc Yui.Proofs.C16Mono Yui.Proofs.C16MDeg Yui.Proofs.C16Poly.
Require Import Yui.Proofs.C16RestMono Yui.Proofs.C16RestMDeg Yui.Proofs.C16RestLead Yui.Proofs.C16RestUnit Yui.Proofs.C16RestDomain.
Import ListNotations.

(* ---------- (a) division, per type ---------- *)
Section Pack.
  Context {I : Type} (e : exp_ops I) (eZ : I -> Z) (EL : exp_laws e eZ).

  Theorem var_div_pack (x y : I) :
    (forall z, mdiv (var_mono e) x y = Some z <-> mmul (var_mono e) z y = x) /\
    (mdivides (var_mono e) y x = true <-> exists z, mdiv (var_mono e) x y = Some z) /\
    ((exists z, mdiv (var_mono e) x y = Some z) <-> (esigned e = true \/ (eZ y <= eZ x)%Z)).
  Proof.
    split; [|split].
    - intros z. rewrite (mdiv_iff _ _ (var_div_laws e eZ EL) x y z Logic.I Logic.I). unfold any. tauto.
    - apply (mdivides_iff _ _ (var_div_laws e eZ EL)); exact Logic.I.
    - apply (var_div_defined e eZ EL).
  Qed.

  Theorem var2_div_pack (x y : I * I) :
    (forall z, mdiv (var2_mono e) x y = Some z <-> mmul (var2_mono e) z y = x) /\
    (mdivides (var2_mono e) y x = true <-> exists z, mdiv (var2_mono e) x y = Some z) /\
    ((exists z, mdiv (var2_mono e) x y = Some z) <->
     (esigned e = true \/ ((eZ (fst y) <= eZ (fst x))%Z /\ (eZ (snd y) <= eZ (snd x))%Z))).
  Proof.
    split; [|split].
    - intros z. rewrite (mdiv_iff _ _ (var2_div_laws e eZ EL) x y z Logic.I Logic.I). unfold any. tauto.
    - apply (mdivides_iff _ _ (var2_div_laws e eZ EL)); exact Logic.I.
    - apply (var2_div_defined e eZ EL).
  Qed.

  Theorem var3_div_pack (x y : I * I * I) :
    (forall z, mdiv (var3_mono e) x y = Some z <-> mmul (var3_mono e) z y = x) /\
    (mdivides (var3_mono e) y x = true <-> exists z, mdiv (var3_mono e) x y = Some z) /\
    ((exists z, mdiv (var3_mono e) x y = Some z) <->
     (esigned e = true \/ ((eZ (v3_0 y) <= eZ (v3_0 x))%Z /\ (eZ (v3_1 y) <= eZ (v3_1 x))%Z /\ (eZ (v3_2 y) <= eZ (v3_2 x))%Z))).
  Proof.
    split; [|split].
    - intros z. rewrite (mdiv_iff _ _ (var3_div_laws e eZ EL) x y z Logic.I Logic.I). unfold any. tauto.
    - apply (mdivides_iff _ _ (var3_div_laws e eZ EL)); exact Logic.I.
    - apply (var3_div_defined e eZ EL).
  Qed.

  Theorem mvar_div_pack (x y : @mdeg I) : Reduced e x -> Reduced e y ->
    (forall z, md_sub e x y = Some z <-> Reduced e z /\ md_add e z y = x) /\
    (mdivides (mvar_mono e) y x = true <-> exists z, md_sub e x y = Some z) /\
    ((exists z, md_sub e x y = Some z) <-> (esigned e = true \/ forall i, (eZ (md_at e y i) <= eZ (md_at e x i))%Z)) /\
    (forall z, md_sub e x y = Some z -> forall i, eZ (md_at e z i) = (eZ (md_at e x i) - eZ (md_at e y i))%Z) /\
    (md_all_leq e y x = true <-> forall i, (eZ (md_at e y i) <= eZ (md_at e x i))%Z).
  Proof.
    intros Hx Hy. split; [|split; [|split; [|split]]].
    - intros z. apply (mdiv_iff _ _ (mvar_div_laws e eZ EL) x y z Hx Hy).
    - apply (mdivides_iff _ _ (mvar_div_laws e eZ EL) x y Hx Hy).
    - now apply (md_sub_defined e eZ EL).
    - intros z. now apply (md_sub_at e eZ EL).
    - now apply (md_all_leq_spec e eZ EL).
  Qed.

  (* ---------- units of the monomial types ---------- *)
  Theorem mono_units_pack :
    mono_unit_laws (var_mono e) any /\ mono_unit_laws (var2_mono e) any /\ mono_unit_laws (var3_mono e) any /\
    mono_unit_laws (mvar_mono e) (Reduced e) /\
    (esigned e = true ->
       (forall x, mis_unit (var_mono e) x = true) /\ (forall x, mis_unit (var2_mono e) x = true) /\
       (forall x, mis_unit (var3_mono e) x = true) /\ (forall x, mis_unit (mvar_mono e) x = true) /\
       (forall x, minv (var_mono e) x = Some (eneg e x)) /\
       (forall x, minv (var2_mono e) x = Some (eneg e (fst x), eneg e (snd x))) /\
       (forall x, minv (var3_mono e) x = Some (eneg e (v3_0 x), eneg e (v3_1 x), eneg e (v3_2 x))) /\
       (forall x, minv (mvar_mono e) x = Some (md_neg e x))) /\
    (esigned e = false ->
       (forall x, mis_unit (var_mono e) x = true <-> x = mone (var_mono e)) /\
       (forall x, mis_unit (var2_mono e) x = true <-> x = mone (var2_mono e)) /\
       (forall x, mis_unit (var3_mono e) x = true <-> x = mone (var3_mono e)) /\
       (forall x, mis_unit (mvar_mono e) x = true <-> x = mone (mvar_mono e)) /\
       (forall x, minv (var_mono e) x = if mis_unit (var_mono e) x then Some (mone (var_mono e)) else None) /\
       (forall x, minv (var2_mono e) x = if mis_unit (var2_mono e) x then Some (mone (var2_mono e)) else None) /\
       (forall x, minv (var3_mono e) x = if mis_unit (var3_mono e) x then Some (mone (var3_mono e)) else None) /\
       (forall x, minv (mvar_mono e) x = if mis_unit (mvar_mono e) x then Some (mone (mvar_mono e)) else None)).
  Proof.
    split; [apply (var_unit_laws e eZ EL)|]. split; [apply (var2_unit_laws e eZ EL)|].
    split; [apply (var3_unit_laws e eZ EL)|]. split; [apply (mvar_unit_laws e eZ EL)|]. split; intros Sg.
    - repeat split; intros x; cbn [mis_unit minv var_mono var2_mono var3_mono mvar_mono]; now rewrite Sg.
    - split; [intros x; apply (proj2 (var_unit_spec e eZ EL x) Sg)|].
      split; [intros x; apply (proj2 (var2_unit_spec e eZ EL x) Sg)|].
      split; [intros x; apply (proj2 (var3_unit_spec e eZ EL x) Sg)|].
      split; [intros x; cbn [mis_unit mone mvar_mono]; rewrite Sg; destruct x; cbn; split; congruence|].
      repeat split; intros x; cbn [mis_unit minv mone var_mono var2_mono var3_mono mvar_mono]; now rewrite Sg.
  Qed.

  (* ---------- is_unit of polynomials over the concrete monomial types ---------- *)
  Context {R : Type} (o : ring_ops R) (L : ring_laws o) (u : unit_ops R) (UL : unit_laws o u).

  Theorem poly_units_ordinary : esigned e = false -> rone o <> rzero o ->
    (forall p, WF o any p -> (p_is_unit (var_mono e) u p = true <-> exists a, ris_unit u a = true /\ p = p_from_const (var_mono e) o a)) /\
    (forall p, WF o any p -> (p_is_unit (var2_mono e) u p = true <-> exists a, ris_unit u a = true /\ p = p_from_const (var2_mono e) o a)) /\
    (forall p, WF o any p -> (p_is_unit (var3_mono e) u p = true <-> exists a, ris_unit u a = true /\ p = p_from_const (var3_mono e) o a)) /\
    (forall p, WF o (Reduced e) p -> (p_is_unit (mvar_mono e) u p = true <-> exists a, ris_unit u a = true /\ p = p_from_const (mvar_mono e) o a)).
  Proof.
    intros Sg N1. destruct mono_units_pack as (U1 & U2 & U3 & U4 & _ & HU). destruct (HU Sg) as (S1 & S2 & S3 & S4 & _).
    split; [|split; [|split]]; intros p Hp.
    - apply (is_unit_unsigned _ o any (var_laws e eZ EL) L u UL p N1); auto.
    - apply (is_unit_unsigned _ o any (var2_laws e eZ EL) L u UL p N1); auto.
    - apply (is_unit_unsigned _ o any (var3_laws e eZ EL) L u UL p N1); auto.
    - apply (is_unit_unsigned _ o (Reduced e) (mvar_laws e eZ EL) L u UL p N1); auto.
  Qed.

  Theorem poly_units_laurent : esigned e = true ->
    (forall p, p_is_unit (var_mono e) u p = true <-> exists x a, ris_unit u a = true /\ p = [(x, a)]) /\
    (forall p, p_is_unit (var2_mono e) u p = true <-> exists x a, ris_unit u a = true /\ p = [(x, a)]) /\
    (forall p, p_is_unit (var3_mono e) u p = true <-> exists x a, ris_unit u a = true /\ p = [(x, a)]) /\
    (forall p, p_is_unit (mvar_mono e) u p = true <-> exists x a, ris_unit u a = true /\ p = [(x, a)]).
  Proof.
    intros Sg. destruct mono_units_pack as (_ & _ & _ & _ & HS & _). destruct (HS Sg) as (S1 & S2 & S3 & S4 & _).
    split; [|split; [|split]]; intros p; apply is_unit_signed; assumption.
  Qed.
End Pack.

(* ---------- the unit dictionary of Z used by the C16 correspondence driver ---------- *)
Lemma Z_units_laws : unit_laws Z_ring Z_units.
Proof.
  constructor; cbn.
  - intros a b. destruct (Z.eqb_spec (Z.abs a) 1); [|discriminate]. intros [= <-]. lia.
  - intros a. destruct (Z.eqb_spec (Z.abs a) 1); split; eauto; try discriminate. intros [b [=]].
  - intros a b H. apply Z.eqb_eq. apply Z.eq_mul_1 in H. lia.
  - intros a. destruct (a <? 0)%Z; reflexivity.
  - intros a. destruct (Z.ltb_spec a 0) as [H|H].
    + destruct (Z.ltb_spec (a * -1) 0); [lia|reflexivity].
    + destruct (Z.ltb_spec (a * 1) 0); [lia|reflexivity].
  - intros a v Hv. apply Z.eqb_eq in Hv.
    destruct (Z.ltb_spec a 0), (Z.ltb_spec (a * v) 0); nia.
Qed.
