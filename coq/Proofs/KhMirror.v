(* Structural facts behind mirror duality: the cube of the mirror diagram is the cube of the diagram
   with all states complemented. *)
From Coq Require Import List Bool Arith Lia.
Require Import Yui.Model.KhCube.
Import ListNotations.

Lemma mirror_type_invol t : mirror_type (mirror_type t) = t.
Proof. destruct t; reflexivity. Qed.

Lemma mirror_invol l : mirror (mirror l) = l.
Proof.
  unfold mirror. rewrite map_map. rewrite <- (map_id l) at 2. apply map_ext.
  intros [t e]. cbn. now rewrite mirror_type_invol.
Qed.

Lemma is_resolved_mirror c : is_resolved (mirror_type (fst c), snd c) = is_resolved c.
Proof. destruct c as [[] e]; reflexivity. Qed.

Lemma crossing_num_mirror l : crossing_num (mirror l) = crossing_num l.
Proof.
  unfold crossing_num, mirror. induction l as [|c l IH]; [reflexivity|].
  cbn [map filter]. rewrite is_resolved_mirror. destruct (is_resolved c); cbn [negb length]; lia.
Qed.

Lemma resolve_type_mirror t b :
  resolve_type (mirror_type t) b = resolve_type t (negb b).
Proof. destruct t, b; reflexivity. Qed.

(* resolved crossings are not changed by mirroring: V and H are their own mirrors; the state must
   provide a bit for every unresolved crossing (the library asserts equality of the lengths) *)
Lemma resolve_by_mirror l s :
  crossing_num l <= length s ->
  resolve_by (mirror l) s = resolve_by l (map negb s).
Proof.
  revert s. induction l as [|[t e] l IH]; intros s Hs; [reflexivity|].
  cbn [mirror map resolve_by fst snd]. fold (mirror l).
  unfold crossing_num in Hs. cbn [filter] in Hs. fold (crossing_num l) in *.
  destruct t; cbn [is_resolved fst mirror_type negb] in *.
  - destruct s as [|b s]; cbn [map length] in *; [lia|].
    change (length (filter (fun c => negb (is_resolved c)) l)) with (crossing_num l) in Hs.
    rewrite IH by lia. now destruct b.
  - destruct s as [|b s]; cbn [map length] in *; [lia|].
    change (length (filter (fun c => negb (is_resolved c)) l)) with (crossing_num l) in Hs.
    rewrite IH by lia. now destruct b.
  - rewrite IH; [reflexivity|]. exact Hs.
  - rewrite IH; [reflexivity|]. exact Hs.
Qed.

Lemma circles_mirror l s :
  crossing_num l <= length s ->
  circles (resolve_by (mirror l) s) = circles (resolve_by l (map negb s)).
Proof. intros H. now rewrite resolve_by_mirror. Qed.

Lemma weight_negb s : weight (map negb s) + weight s = length s.
Proof.
  unfold weight. induction s as [|b s IH]; [reflexivity|]. cbn [map filter length].
  destruct b; cbn [negb length]; lia.
Qed.
