(* One reduction step of the model (permutation by the pivots + Schur complement) is a strong
   deformation retraction: transport of the block theorem (C08Block.v) along the permutations. *)
From Coq Require Import Arith List Lia Bool Ring Permutation.
Require Import Yui.Base.Ring Yui.Base.MatF Yui.Base.MatL Yui.Model.Reducer.
Require Import Yui.Proofs.C08Mat Yui.Proofs.C08Perm Yui.Proofs.C08Tri Yui.Proofs.C08Block.
Import ListNotations.

Lemma dr_row_perm {R} (o : ring_ops R) v : dr (row_perm_mat o v) = length v. Proof. reflexivity. Qed.
Lemma dc_row_perm {R} (o : ring_ops R) v : dc (row_perm_mat o v) = length v. Proof. reflexivity. Qed.
Lemma dr_col_perm {R} (o : ring_ops R) v : dr (col_perm_mat o v) = length v. Proof. reflexivity. Qed.
Lemma dc_col_perm {R} (o : ring_ops R) v : dc (col_perm_mat o v) = length v. Proof. reflexivity. Qed.
Lemma dr_proj {R} (o : ring_ops R) n k : dr (proj o n k) = k. Proof. reflexivity. Qed.
Lemma dc_proj {R} (o : ring_ops R) n k : dc (proj o n k) = n. Proof. reflexivity. Qed.
Lemma dr_incl {R} (o : ring_ops R) n k : dr (incl o n k) = n. Proof. reflexivity. Qed.
Lemma dc_incl {R} (o : ring_ops R) n k : dc (incl o n k) = k. Proof. reflexivity. Qed.
Lemma dr_permute {R} (o : ring_ops R) A vp vq : dr (permute o A vp vq) = dr A. Proof. reflexivity. Qed.
Lemma dc_permute {R} (o : ring_ops R) A vp vq : dc (permute o A vp vq) = dc A. Proof. reflexivity. Qed.
Lemma dr_rmr {R} (o : ring_ops R) A v r : dr (reduce_mat_rows o A v r) = dr A - r. Proof. reflexivity. Qed.
Lemma dc_rmr {R} (o : ring_ops R) A v r : dc (reduce_mat_rows o A v r) = dc A. Proof. reflexivity. Qed.
Lemma dr_rmc {R} (o : ring_ops R) A v r : dr (reduce_mat_cols o A v r) = dr A. Proof. reflexivity. Qed.
Lemma dc_rmc {R} (o : ring_ops R) A v r : dc (reduce_mat_cols o A v r) = dc A - r. Proof. reflexivity. Qed.
#[export] Hint Rewrite @dr_row_perm @dc_row_perm @dr_col_perm @dc_col_perm @dr_proj @dc_proj @dr_incl @dc_incl
  @dr_permute @dc_permute @dr_rmr @dc_rmr @dr_rmc @dc_rmc : ddim.

Lemma dwf_row_perm {R} (o : ring_ops R) v : dwf (row_perm_mat o v). Proof. apply dwf_dmk. Qed.
Lemma dwf_col_perm {R} (o : ring_ops R) v : dwf (col_perm_mat o v). Proof. apply dwf_dmk. Qed.
Lemma dwf_proj {R} (o : ring_ops R) n k : dwf (proj o n k). Proof. apply dwf_dmk. Qed.
Lemma dwf_incl {R} (o : ring_ops R) n k : dwf (incl o n k). Proof. apply dwf_dmk. Qed.
Lemma dwf_permute {R} (o : ring_ops R) A vp vq : dwf (permute o A vp vq). Proof. apply dwf_dmk. Qed.
Lemma dwf_rmr {R} (o : ring_ops R) A v r : dwf (reduce_mat_rows o A v r). Proof. apply dwf_dmk. Qed.
Lemma dwf_rmc {R} (o : ring_ops R) A v r : dwf (reduce_mat_cols o A v r). Proof. apply dwf_dmk. Qed.
#[export] Hint Resolve dwf_row_perm dwf_col_perm dwf_proj dwf_incl dwf_permute dwf_rmr dwf_rmc : dwf.

Section PermAlg.
  Context {R : Type} (o : ring_ops R) (L : ring_laws o).
  Local Notation dmat := (dmat R).
  Local Notation dwf := (@dwf R).
  Context (n : nat) (v : list nat) (Hv : is_perm n v).
  Local Notation P := (row_perm_mat o v).
  Local Notation P' := (col_perm_mat o v).

  Ltac side := solve [dwfs | autorewrite with ddim; rewrite ?(perm_length n v Hv); (lia || reflexivity)].

  Lemma P'P_cancel_l (X : dmat) : dwf X -> dr X = n -> dmul o P' (dmul o P X) = X.
  Proof.
    intros W H. rewrite <- (dmul_assoc o L) by side. rewrite (col_row_perm o L n v Hv).
    now apply (dmul_id_l o L).
  Qed.
  Lemma PP'_cancel_l (X : dmat) : dwf X -> dr X = n -> dmul o P (dmul o P' X) = X.
  Proof.
    intros W H. rewrite <- (dmul_assoc o L) by side. rewrite (row_col_perm o L n v Hv).
    now apply (dmul_id_l o L).
  Qed.
  Lemma P'P_cancel_r (X : dmat) : dwf X -> dc X = n -> dmul o (dmul o X P') P = X.
  Proof.
    intros W H. rewrite (dmul_assoc o L) by side. rewrite (col_row_perm o L n v Hv).
    now apply (dmul_id_r o L).
  Qed.
  Lemma PP'_cancel_r (X : dmat) : dwf X -> dc X = n -> dmul o (dmul o X P) P' = X.
  Proof.
    intros W H. rewrite (dmul_assoc o L) by side. rewrite (row_col_perm o L n v Hv).
    now apply (dmul_id_r o L).
  Qed.
End PermAlg.

Section ProjIncl.
  Context {R : Type} (o : ring_ops R) (L : ring_laws o).

  Lemma proj_blocks n r : r <= n -> proj o n (n - r) = dhcat o (dzero o (n - r) r) (did o (n - r)).
  Proof.
    intros H. apply (dmat_ext o); dwfs; dims. intros i j Hi Hj.
    unfold proj. rewrite dget_dmk by lia. rewrite (dget_dhcat o) by dims. dims.
    replace (n - (n - r)) with r by lia.
    destruct (Nat.ltb_spec j r).
    - rewrite (dget_dzero o). destruct (Nat.eqb_spec j (r + i)); [lia|reflexivity].
    - rewrite (dget_did o) by lia. unfold mid.
      destruct (Nat.eqb_spec j (r + i)); destruct (Nat.eqb_spec i (j - r)); try reflexivity; lia.
  Qed.

  Lemma incl_blocks m r : r <= m -> incl o m (m - r) = dvcat o (dzero o r (m - r)) (did o (m - r)).
  Proof.
    intros H. apply (dmat_ext o); dwfs; dims. intros i j Hi Hj.
    unfold incl. rewrite dget_dmk by lia. rewrite (dget_dvcat o) by dims. dims.
    replace (m - (m - r)) with r by lia.
    destruct (Nat.ltb_spec i r).
    - rewrite (dget_dzero o). destruct (Nat.eqb_spec i (r + j)); [lia|reflexivity].
    - rewrite (dget_did o) by lia. unfold mid.
      destruct (Nat.eqb_spec i (r + j)); destruct (Nat.eqb_spec (i - r) j); try reflexivity; lia.
  Qed.
End ProjIncl.

Section BlkDims.
  Context {R : Type} (o : ring_ops R).
  Context (r mr nr l k : nat) (fa fb fc fd fx fy fz fw fi : nat -> nat -> R).
  Lemma dr_blk_A : dr (blk_A o r mr nr fa fb fc fd) = r + mr. Proof. reflexivity. Qed.
  Lemma dc_blk_A : dc (blk_A o r mr nr fa fb fc fd) = r + nr. Proof. reflexivity. Qed.
  Lemma dr_blk_a0 : dr (blk_a0 o r nr l fx fy) = r + nr. Proof. reflexivity. Qed.
  Lemma dc_blk_a0 : dc (blk_a0 o r nr l fx fy) = l. Proof. reflexivity. Qed.
  Lemma dr_blk_a2 : dr (blk_a2 o r mr k fz fw) = k. Proof. reflexivity. Qed.
  Lemma dc_blk_a2 : dc (blk_a2 o r mr k fz fw) = r + mr. Proof. reflexivity. Qed.
  Lemma dr_blk_s : dr (blk_s o r mr nr fb fc fd fi) = mr. Proof. reflexivity. Qed.
  Lemma dc_blk_s : dc (blk_s o r mr nr fb fc fd fi) = nr. Proof. reflexivity. Qed.
  Lemma dr_blk_fs : dr (blk_fs o r nr) = nr. Proof. reflexivity. Qed.
  Lemma dc_blk_fs : dc (blk_fs o r nr) = r + nr. Proof. reflexivity. Qed.
  Lemma dr_blk_bs : dr (blk_bs o r nr fb fi) = r + nr. Proof. reflexivity. Qed.
  Lemma dc_blk_bs : dc (blk_bs o r nr fb fi) = nr. Proof. reflexivity. Qed.
  Lemma dr_blk_ft : dr (blk_ft o r mr fc fi) = mr. Proof. reflexivity. Qed.
  Lemma dc_blk_ft : dc (blk_ft o r mr fc fi) = r + mr. Proof. reflexivity. Qed.
  Lemma dr_blk_bt : dr (blk_bt o r mr) = r + mr. Proof. reflexivity. Qed.
  Lemma dc_blk_bt : dc (blk_bt o r mr) = mr. Proof. reflexivity. Qed.
  Lemma dr_blk_h : dr (blk_h o r mr nr fi) = r + nr. Proof. reflexivity. Qed.
  Lemma dc_blk_h : dc (blk_h o r mr nr fi) = r + mr. Proof. reflexivity. Qed.
  Lemma dwf_blk_A : dwf (blk_A o r mr nr fa fb fc fd). Proof. apply dwf_dmk. Qed.
  Lemma dwf_blk_a0 : dwf (blk_a0 o r nr l fx fy). Proof. apply dwf_dmk. Qed.
  Lemma dwf_blk_a2 : dwf (blk_a2 o r mr k fz fw). Proof. apply dwf_dmk. Qed.
  Lemma dwf_blk_s : dwf (blk_s o r mr nr fb fc fd fi). Proof. apply dwf_dmk. Qed.
  Lemma dwf_blk_fs : dwf (blk_fs o r nr). Proof. apply dwf_dmk. Qed.
  Lemma dwf_blk_bs : dwf (blk_bs o r nr fb fi). Proof. apply dwf_dmk. Qed.
  Lemma dwf_blk_ft : dwf (blk_ft o r mr fc fi). Proof. apply dwf_dmk. Qed.
  Lemma dwf_blk_bt : dwf (blk_bt o r mr). Proof. apply dwf_dmk. Qed.
  Lemma dwf_blk_h : dwf (blk_h o r mr nr fi). Proof. apply dwf_dmk. Qed.
End BlkDims.
#[export] Hint Rewrite @dr_blk_A @dc_blk_A @dr_blk_a0 @dc_blk_a0 @dr_blk_a2 @dc_blk_a2 @dr_blk_s @dc_blk_s
  @dr_blk_fs @dc_blk_fs @dr_blk_bs @dc_blk_bs @dr_blk_ft @dc_blk_ft @dr_blk_bt @dc_blk_bt @dr_blk_h @dc_blk_h : ddim.
#[export] Hint Resolve dwf_blk_A dwf_blk_a0 dwf_blk_a2 dwf_blk_s dwf_blk_fs dwf_blk_bs dwf_blk_ft dwf_blk_bt dwf_blk_h : dwf.

(* the forward / backward maps of one step (what the step does to an identity Trans) and its homotopy *)
Section StepDefs.
  Context {R : Type} (o : ring_ops R).
  Definition step_f1 (n r : nat) (vq : list nat) : dmat R :=
    dmul o (proj o n (n - r)) (row_perm_mat o vq).
  Definition step_b1 (n r : nat) (vq : list nat) (sc : schur R) : dmat R :=
    dmul o (col_perm_mat o vq) (dvcat o (dneg o (sc_ainvb sc)) (did o (n - r))).
  Definition step_f2 (m r : nat) (vp : list nat) (sc : schur R) : dmat R :=
    dmul o (dhcat o (dneg o (sc_cainv sc)) (did o (m - r))) (row_perm_mat o vp).
  Definition step_b2 (m r : nat) (vp : list nat) : dmat R :=
    dmul o (col_perm_mat o vp) (incl o m (m - r)).
  Definition step_h (m n r : nat) (vp vq : list nat) (sc : schur R) : dmat R :=
    dmul o (col_perm_mat o vq)
      (dmul o (dvcat o (dhcat o (sc_ainv sc) (dzero o r (m - r))) (dzero o (n - r) (r + (m - r))))
              (row_perm_mat o vp)).
End StepDefs.

Section Step.
  Context {R : Type} (o : ring_ops R) (L : ring_laws o) (u : unit_ops R) (UL : unit_laws o u).
  Add Ring RringS : (ring_theory_of_laws o L).
  Local Notation dmat := (dmat R).
  Local Notation dwf := (@dwf R).
  Context (a1 : dmat) (m n r : nat) (vp vq : list nat) (t : ttype) (sc : schur R).
  Context (W1 : dwf a1) (Hm : dr a1 = m) (Hn : dc a1 = n) (Hp : is_perm m vp) (Hq : is_perm n vq).
  Context (Htri : tri_ok o t (dblock o (permute o a1 vp vq) 0 0 r r) r)
          (Hsc : schur_of o u t (permute o a1 vp vq) r = Some sc).
  Local Notation P := (row_perm_mat o vp).
  Local Notation P' := (col_perm_mat o vp).
  Local Notation Q := (row_perm_mat o vq).
  Local Notation Q' := (col_perm_mat o vq).
  Local Notation A' := (permute o a1 vp vq).

  Let mr := m - r.
  Let nr := n - r.
  Let fa := fun i j => dget o A' (0 + i) (0 + j).
  Let fb := fun i j => dget o A' (0 + i) (r + j).
  Let fc := fun i j => dget o A' (r + i) (0 + j).
  Let fd := fun i j => dget o A' (r + i) (r + j).
  Let fi := dget o (sc_ainv sc).

  Lemma Lp : length vp = m. Proof. exact (perm_length m vp Hp). Qed.
  Lemma Lq : length vq = n. Proof. exact (perm_length n vq Hq). Qed.

  Ltac side := solve [dwfs | autorewrite with ddim; rewrite ?Lp, ?Lq, ?Hm, ?Hn; subst mr nr; (lia || reflexivity)].

  Lemma sc_unfold :
    r <= m /\ r <= n /\
    dmul o (dmk r r fa) (dmk r r fi) = did o r /\ dmul o (dmk r r fi) (dmk r r fa) = did o r /\
    sc_ainv sc = dmk r r fi /\
    sc_ainvb sc = dmul o (dmk r r fi) (dmk r nr fb) /\
    sc_cainv sc = dmul o (dmk mr r fc) (dmk r r fi) /\
    sc_c sc = dmk mr r fc /\
    sc_s sc = blk_s o r mr nr fb fc fd fi.
  Proof.
    pose proof Hsc as E. unfold schur_of in E. rewrite dr_permute, dc_permute, Hm, Hn in E.
    destruct ((r <=? m) && (r <=? n)) eqn:Eb; [|discriminate].
    apply andb_true_iff in Eb. destruct Eb as [E1 E2]. apply Nat.leb_le in E1, E2.
    destruct (tri_inv o u t (dblock o A' 0 0 r r) r) as [X|] eqn:EX; [|discriminate].
    cbn [obind] in E.
    destruct (tri_inv_spec o L u UL t (dblock o A' 0 0 r r) r X (dwf_dblock _ _ _ _ _ _) eq_refl eq_refl Htri EX)
      as (WX & HXr & HXc & H1 & H2).
    assert (EX' : X = dmk r r (dget o X)).
    { pose proof (dmk_eta o X WX) as Ee. rewrite HXr, HXc in Ee. now symmetry. }
    injection E as <-. subst fi. cbn [sc_s sc_ainv sc_ainvb sc_cainv sc_c].
    split; [exact E1|]. split; [exact E2|].
    rewrite <- EX'. repeat split; try assumption.
    unfold blk_s, blk_ainvb. rewrite <- EX'. reflexivity.
  Qed.

  (* ---------- the permuted matrix and its blocks ---------- *)
  Lemma permute_eq : A' = dmul o P (dmul o a1 Q').
  Proof.
    rewrite (dmul_col_perm o L n vq a1 Hq Hn).
    rewrite (dmul_row_perm o L m vp _ Hp) by (autorewrite with ddim; exact Hm).
    unfold permute. rewrite Hm, Hn. autorewrite with ddim. apply (dmk_ext o). intros k j Hk Hj.
    rewrite dget_dmk; [reflexivity| |assumption]. now apply (perm_lt m vp Hp).
  Qed.

  Lemma A'_blocks : A' = blk_A o r mr nr fa fb fc fd.
  Proof.
    destruct sc_unfold as (E1 & E2 & _).
    rewrite (dblock_decomp o A' r) at 1 by side. autorewrite with ddim. rewrite Hm, Hn. reflexivity.
  Qed.

  Lemma PA_eq : dmul o P a1 = dmul o A' Q.
  Proof.
    rewrite permute_eq. rewrite <- (dmul_assoc o L P) by side.
    now rewrite (P'P_cancel_r o L n vq Hq) by side.
  Qed.

  Lemma AQ_eq : dmul o a1 Q' = dmul o P' A'.
  Proof.
    rewrite permute_eq. now rewrite (P'P_cancel_l o L m vp Hp) by side.
  Qed.

  Local Notation fsB := (blk_fs o r nr).
  Local Notation bsB := (blk_bs o r nr fb fi).
  Local Notation ftB := (blk_ft o r mr fc fi).
  Local Notation btB := (blk_bt o r mr).
  Local Notation hB := (blk_h o r mr nr fi).
  Local Notation sB := (blk_s o r mr nr fb fc fd fi).

  Lemma f1_eq : step_f1 o n r vq = dmul o fsB Q.
  Proof. destruct sc_unfold as (E1 & E2 & _). unfold step_f1. now rewrite (proj_blocks o) by assumption. Qed.
  Lemma b1_eq : step_b1 o n r vq sc = dmul o Q' bsB.
  Proof. destruct sc_unfold as (_ & _ & _ & _ & _ & E & _). unfold step_b1. now rewrite E. Qed.
  Lemma f2_eq : step_f2 o m r vp sc = dmul o ftB P.
  Proof. destruct sc_unfold as (_ & _ & _ & _ & _ & _ & E & _). unfold step_f2. now rewrite E. Qed.
  Lemma b2_eq : step_b2 o m r vp = dmul o P' btB.
  Proof. destruct sc_unfold as (E1 & E2 & _). unfold step_b2. now rewrite (incl_blocks o) by assumption. Qed.
  Lemma h_eq : step_h o m n r vp vq sc = dmul o Q' (dmul o hB P).
  Proof. destruct sc_unfold as (_ & _ & _ & _ & E & _). unfold step_h. now rewrite E. Qed.
  Lemma s_eq : sc_s sc = sB.
  Proof. now destruct sc_unfold as (_ & _ & _ & _ & _ & _ & _ & _ & E). Qed.

  Lemma rm : r + mr = m. Proof. destruct sc_unfold as (E1 & E2 & _). subst mr. lia. Qed.
  Lemma rn : r + nr = n. Proof. destruct sc_unfold as (E1 & E2 & _). subst nr. lia. Qed.

  Ltac side2 := solve [dwfs | autorewrite with ddim; rewrite ?Lp, ?Lq, ?Hm, ?Hn, ?rm, ?rn; (lia || reflexivity)].

  Lemma step_dims :
    dr (step_f1 o n r vq) = n - r /\ dc (step_f1 o n r vq) = n /\
    dr (step_b1 o n r vq sc) = n /\ dc (step_b1 o n r vq sc) = n - r /\
    dr (step_f2 o m r vp sc) = m - r /\ dc (step_f2 o m r vp sc) = m /\
    dr (step_b2 o m r vp) = m /\ dc (step_b2 o m r vp) = m - r /\
    dr (step_h o m n r vp vq sc) = n /\ dc (step_h o m n r vp vq sc) = m /\
    dr (sc_s sc) = m - r /\ dc (sc_s sc) = n - r /\ dwf (sc_s sc) /\ r <= m /\ r <= n.
  Proof.
    destruct sc_unfold as (E1 & E2 & _).
    rewrite f1_eq, b1_eq, f2_eq, b2_eq, h_eq, s_eq. autorewrite with ddim. rewrite ?Lp, ?Lq.
    subst mr nr. repeat match goal with |- _ /\ _ => split end; try lia. dwfs.
  Qed.

  (* ---------- identities that involve a1 only ---------- *)
  Theorem step_f_chain : dmul o (step_f2 o m r vp sc) a1 = dmul o (sc_s sc) (step_f1 o n r vq).
  Proof.
    destruct sc_unfold as (_ & _ & Hi1 & Hi2 & _).
    rewrite f2_eq, f1_eq, s_eq. rewrite (dmul_assoc o L) by side2. rewrite PA_eq.
    rewrite <- (dmul_assoc o L) by side2. rewrite A'_blocks.
    rewrite (blk_f_chain o L r mr nr fa fb fc fd fi Hi2). now rewrite (dmul_assoc o L) by side2.
  Qed.

  Theorem step_b_chain : dmul o a1 (step_b1 o n r vq sc) = dmul o (step_b2 o m r vp) (sc_s sc).
  Proof.
    destruct sc_unfold as (_ & _ & Hi1 & Hi2 & _).
    rewrite b2_eq, b1_eq, s_eq. rewrite <- (dmul_assoc o L) by side2. rewrite AQ_eq.
    rewrite (dmul_assoc o L) by side2. rewrite A'_blocks.
    rewrite (blk_b_chain o L r mr nr fa fb fc fd fi Hi1). now rewrite <- (dmul_assoc o L) by side2.
  Qed.

  Theorem step_fb_src : dmul o (step_f1 o n r vq) (step_b1 o n r vq sc) = did o (n - r).
  Proof.
    rewrite f1_eq, b1_eq. rewrite (dmul_assoc o L) by side2.
    rewrite (PP'_cancel_l o L n vq Hq) by side2. apply (blk_fb_src o L).
  Qed.

  Theorem step_fb_tgt : dmul o (step_f2 o m r vp sc) (step_b2 o m r vp) = did o (m - r).
  Proof.
    rewrite f2_eq, b2_eq. rewrite (dmul_assoc o L) by side2.
    rewrite (PP'_cancel_l o L m vp Hp) by side2. apply (blk_fb_tgt o L).
  Qed.

  Theorem step_homotopy_src :
    dadd o (dmul o (step_b1 o n r vq sc) (step_f1 o n r vq)) (dmul o (step_h o m n r vp vq sc) a1) = did o n.
  Proof.
    destruct sc_unfold as (_ & _ & Hi1 & Hi2 & _).
    rewrite f1_eq, b1_eq, h_eq.
    rewrite (dmul_assoc o L Q') by side2. rewrite <- (dmul_assoc o L bsB) by side2.
    rewrite (dmul_assoc o L Q' (dmul o hB P)) by side2. rewrite (dmul_assoc o L hB) by side2.
    rewrite PA_eq. rewrite <- (dmul_assoc o L hB) by side2.
    rewrite <- (dmul_add_r o L) by side2. rewrite <- (dmul_add_l o L) by side2.
    rewrite A'_blocks. rewrite (blk_homotopy_src o L r mr nr fa fb fc fd fi Hi2).
    rewrite rn. rewrite (dmul_id_l o L) by side2. apply (col_row_perm o L n vq Hq).
  Qed.

  Theorem step_homotopy_tgt :
    dadd o (dmul o (step_b2 o m r vp) (step_f2 o m r vp sc)) (dmul o a1 (step_h o m n r vp vq sc)) = did o m.
  Proof.
    destruct sc_unfold as (_ & _ & Hi1 & Hi2 & _).
    rewrite f2_eq, b2_eq, h_eq.
    rewrite (dmul_assoc o L P') by side2. rewrite <- (dmul_assoc o L btB) by side2.
    rewrite <- (dmul_assoc o L a1) by side2. rewrite AQ_eq.
    rewrite (dmul_assoc o L P' A') by side2. rewrite <- (dmul_assoc o L A') by side2.
    rewrite <- (dmul_add_r o L) by side2. rewrite <- (dmul_add_l o L) by side2.
    rewrite A'_blocks. rewrite (blk_homotopy_tgt o L r mr nr fa fb fc fd fi Hi1).
    rewrite rm. rewrite (dmul_id_l o L) by side2. apply (col_row_perm o L m vp Hp).
  Qed.

  Theorem step_fh : dmul o (step_f1 o n r vq) (step_h o m n r vp vq sc) = dzero o (n - r) m.
  Proof.
    rewrite f1_eq, h_eq. rewrite (dmul_assoc o L) by side2.
    rewrite (PP'_cancel_l o L n vq Hq) by side2. rewrite <- (dmul_assoc o L) by side2.
    rewrite (blk_fh o L). rewrite (dmul_zero_l o L). autorewrite with ddim. now rewrite Lp.
  Qed.

  Theorem step_hb : dmul o (step_h o m n r vp vq sc) (step_b2 o m r vp) = dzero o n (m - r).
  Proof.
    rewrite b2_eq, h_eq. rewrite (dmul_assoc o L) by side2. rewrite (dmul_assoc o L hB) by side2.
    rewrite (PP'_cancel_l o L m vp Hp) by side2.
    rewrite (blk_hb o L). rewrite (dmul_zero_r o L). autorewrite with ddim. now rewrite Lq.
  Qed.

  (* ---------- the incoming differential ---------- *)
  Section WithA0.
    Context (a0 : dmat) (W0 : dwf a0) (H0r : dr a0 = n) (H10 : dmul o a1 a0 = dzero o m (dc a0)).
    Let l := dc a0.
    Local Notation a0p := (dmul o Q a0).
    Let fx := fun i j => dget o a0p (0 + i) (0 + j).
    Let fy := fun i j => dget o a0p (r + i) (0 + j).

    Ltac side3 := solve [dwfs | autorewrite with ddim; rewrite ?Lp, ?Lq, ?Hm, ?Hn, ?H0r, ?rm, ?rn; subst l; (lia || reflexivity)].

    Lemma a0p_blocks : a0p = blk_a0 o r nr l fx fy.
    Proof.
      destruct sc_unfold as (E1 & E2 & _).
      rewrite (dvcat_decomp o a0p r) at 1 by side3. autorewrite with ddim. rewrite Lq. reflexivity.
    Qed.

    Lemma a0'_eq : reduce_mat_rows o a0 vq r = dmk nr l fy.
    Proof.
      destruct sc_unfold as (E1 & E2 & _).
      unfold reduce_mat_rows. rewrite H0r. apply (dmk_ext o). intros i j Hi Hj. subst fy. cbn beta.
      rewrite (dmul_row_perm o L n vq a0 Hq H0r). rewrite dget_dmk by lia. reflexivity.
    Qed.

    Lemma A'a0p_zero : dmul o A' a0p = dzero o m l.
    Proof.
      rewrite permute_eq. rewrite (dmul_assoc o L) by side3. rewrite (dmul_assoc o L a1) by side3.
      rewrite (P'P_cancel_l o L n vq Hq) by side3. rewrite H10. rewrite (dmul_zero_r o L).
      autorewrite with ddim. now rewrite Lp.
    Qed.

    Lemma blk_hyp_src :
      dadd o (dmul o (dmk r r fa) (dmk r l fx)) (dmul o (dmk r nr fb) (dmk nr l fy)) = dzero o r l /\
      dadd o (dmul o (dmk mr r fc) (dmk r l fx)) (dmul o (dmk mr nr fd) (dmk nr l fy)) = dzero o mr l.
    Proof.
      pose proof A'a0p_zero as E. rewrite A'_blocks, a0p_blocks in E.
      unfold blk_A, blk_a0 in E. rewrite (dmul_vcat_l o) in E by side3.
      rewrite !(dmul_hcat_vcat o L) in E by side3.
      rewrite <- rm in E. rewrite <- (dzero_vcat o r mr l) in E.
      apply (dvcat_inj o) in E; try side3; try exact E.
    Qed.

    Theorem step_a0_f : dmul o (step_f1 o n r vq) a0 = reduce_mat_rows o a0 vq r.
    Proof.
      rewrite f1_eq, a0'_eq. rewrite (dmul_assoc o L) by side3. rewrite a0p_blocks.
      apply (blk_fs_a0 o L).
    Qed.

    Theorem step_a0_b : dmul o (step_b1 o n r vq sc) (reduce_mat_rows o a0 vq r) = a0.
    Proof.
      destruct sc_unfold as (_ & _ & Hi1 & Hi2 & _). destruct blk_hyp_src as (Hax & Hcx).
      rewrite b1_eq, a0'_eq. rewrite (dmul_assoc o L) by side3.
      rewrite (blk_a0_factor o L r nr l fa fb fx fy fi Hi2 Hax). rewrite <- a0p_blocks.
      now rewrite (P'P_cancel_l o L n vq Hq) by side3.
    Qed.

    Theorem step_complex_src : dmul o (sc_s sc) (reduce_mat_rows o a0 vq r) = dzero o (m - r) (dc a0).
    Proof.
      destruct sc_unfold as (_ & _ & Hi1 & Hi2 & _). destruct blk_hyp_src as (Hax & Hcx).
      rewrite s_eq, a0'_eq. apply (blk_complex_src o L r mr nr l fa fb fc fd fx fy fi Hi2 Hax Hcx).
    Qed.
  End WithA0.

  (* ---------- the outgoing differential ---------- *)
  Section WithA2.
    Context (a2 : dmat) (W2 : dwf a2) (H2c : dc a2 = m) (H21 : dmul o a2 a1 = dzero o (dr a2) n).
    Let k := dr a2.
    Local Notation a2p := (dmul o a2 P').
    Let fz := fun i j => dget o a2p (0 + i) (0 + j).
    Let fw := fun i j => dget o a2p (0 + i) (r + j).

    Ltac side4 := solve [dwfs | autorewrite with ddim; rewrite ?Lp, ?Lq, ?Hm, ?Hn, ?H2c, ?rm, ?rn; subst k; (lia || reflexivity)].

    Lemma a2p_blocks : a2p = blk_a2 o r mr k fz fw.
    Proof.
      destruct sc_unfold as (E1 & E2 & _).
      rewrite (dhcat_decomp o a2p r) at 1 by side4. autorewrite with ddim. rewrite Lp. reflexivity.
    Qed.

    Lemma a2'_eq : reduce_mat_cols o a2 vp r = dmk k mr fw.
    Proof.
      destruct sc_unfold as (E1 & E2 & _).
      unfold reduce_mat_cols. rewrite H2c. apply (dmk_ext o). intros i j Hi Hj. subst fw. cbn beta.
      rewrite (dmul_col_perm o L m vp a2 Hp H2c). rewrite dget_dmk by lia. reflexivity.
    Qed.

    Lemma a2pA'_zero : dmul o a2p A' = dzero o k n.
    Proof.
      rewrite permute_eq. rewrite (dmul_assoc o L) by side4.
      rewrite (P'P_cancel_l o L m vp Hp) by side4. rewrite <- (dmul_assoc o L) by side4.
      rewrite H21. rewrite (dmul_zero_l o L). autorewrite with ddim. now rewrite Lq.
    Qed.

    Lemma blk_hyp_tgt :
      dadd o (dmul o (dmk k r fz) (dmk r r fa)) (dmul o (dmk k mr fw) (dmk mr r fc)) = dzero o k r /\
      dadd o (dmul o (dmk k r fz) (dmk r nr fb)) (dmul o (dmk k mr fw) (dmk mr nr fd)) = dzero o k nr.
    Proof.
      pose proof a2pA'_zero as E. rewrite A'_blocks, a2p_blocks in E.
      unfold blk_A, blk_a2 in E. rewrite (dmul_hcat_vcat o L) in E by side4.
      rewrite !(dmul_hcat_r o) in E by side4. rewrite (dadd_hcat o) in E by side4.
      rewrite <- rn in E. rewrite <- (dzero_hcat o k r nr) in E.
      apply (dhcat_inj o) in E; try side4; try exact E.
    Qed.

    Theorem step_a2_f : dmul o (reduce_mat_cols o a2 vp r) (step_f2 o m r vp sc) = a2.
    Proof.
      destruct sc_unfold as (_ & _ & Hi1 & Hi2 & _). destruct blk_hyp_tgt as (Hza & Hzb).
      rewrite f2_eq, a2'_eq. rewrite <- (dmul_assoc o L) by side4.
      rewrite (blk_a2_factor o L r mr k fa fc fz fw fi Hi1 Hza). rewrite <- a2p_blocks.
      now rewrite (P'P_cancel_r o L m vp Hp) by side4.
    Qed.

    Theorem step_a2_b : dmul o a2 (step_b2 o m r vp) = reduce_mat_cols o a2 vp r.
    Proof.
      rewrite b2_eq, a2'_eq. rewrite <- (dmul_assoc o L) by side4. rewrite a2p_blocks.
      apply (blk_a2_bt o L).
    Qed.

    Theorem step_complex_tgt : dmul o (reduce_mat_cols o a2 vp r) (sc_s sc) = dzero o (dr a2) (n - r).
    Proof.
      destruct sc_unfold as (_ & _ & Hi1 & Hi2 & _). destruct blk_hyp_tgt as (Hza & Hzb).
      rewrite s_eq, a2'_eq. apply (blk_complex_tgt o L r mr nr k fa fb fc fd fz fw fi Hi1 Hza Hzb).
    Qed.
  End WithA2.

  (* ---------- tracked vectors ---------- *)
  Lemma vmat_map (g : nat -> R) k : vmat o (map g (seq 0 k)) = dmk k 1 (fun i _ => g i).
  Proof.
    unfold vmat. rewrite map_length, seq_length. apply (dmk_ext o). intros i j Hi Hj.
    rewrite nth_indep with (d' := g 0) by (now rewrite map_length, seq_length).
    rewrite map_nth, seq_nth by assumption. reflexivity.
  Qed.

  Lemma dr_vmat (v : list R) : dr (vmat o v) = length v. Proof. reflexivity. Qed.
  Lemma dc_vmat (v : list R) : dc (vmat o v) = 1. Proof. reflexivity. Qed.
  Lemma dwf_vmat (v : list R) : dwf (vmat o v). Proof. apply dwf_dmk. Qed.

  Theorem step_vec_src v w :
    vec_src o vq r n v = Some w ->
    length v = n /\ length w = n - r /\ vmat o w = dmul o (step_f1 o n r vq) (vmat o v).
  Proof.
    destruct sc_unfold as (E1 & E2 & _).
    unfold vec_src. destruct (Nat.eqb_spec (length v) n) as [Hl|]; [|discriminate]. intros [= <-].
    split; [exact Hl|]. split; [now rewrite map_length, seq_length|].
    rewrite vmat_map. unfold step_f1. rewrite (dmul_assoc o L) by side2.
    rewrite (dmul_row_perm o L n vq (vmat o v) Hq) by (now rewrite dr_vmat).
    unfold dmul at 1. autorewrite with ddim. rewrite dc_vmat. apply (dmk_ext o). intros i j Hi Hj.
    assert (j = 0) by lia. subst j.
    rewrite (sum_ext o n _ (fun x => if x =? r + i then nth (pat vq x) v (rzero o) else rzero o)).
    - now rewrite (sum_delta o L n (r + i) (fun x => nth (pat vq x) v (rzero o))) by lia.
    - intros x Hx. unfold proj. rewrite !dget_dmk by lia.
      replace (n - (n - r) + i) with (r + i) by lia.
      unfold vmat. rewrite dget_dmk by (rewrite ?Hl; try lia; now apply (perm_lt n vq Hq)).
      destruct (x =? r + i); ring.
  Qed.

  Theorem step_vec_tgt v w :
    vec_tgt o vp r m sc v = Some w ->
    length v = m /\ length w = m - r /\ vmat o w = dmul o (step_f2 o m r vp sc) (vmat o v).
  Proof.
    destruct sc_unfold as (E1 & E2 & Hi1 & Hi2 & Eai & Eaib & Ecai & Ec & Es).
    unfold vec_tgt. destruct (Nat.eqb_spec (length v) m) as [Hl|]; [|discriminate]. intros [= <-].
    split; [exact Hl|]. split; [now rewrite map_length, seq_length|].
    rewrite vmat_map. unfold step_f2. rewrite Ecai. rewrite (dmul_assoc o L) by side2.
    set (pv := dmul o P (vmat o v)).
    assert (Epv : pv = dmk m 1 (fun k j => dget o (vmat o v) (pat vp k) j)).
    { unfold pv. rewrite (dmul_row_perm o L m vp (vmat o v) Hp) by (now rewrite dr_vmat). now rewrite dc_vmat. }
    assert (Hx : forall k, k < m -> dget o pv k 0 = nth (pat vp k) v (rzero o)).
    { intros k Hk. rewrite Epv. rewrite dget_dmk by lia. unfold vmat.
      rewrite dget_dmk; [reflexivity| |lia]. rewrite Hl. now apply (perm_lt m vp Hp). }
    rewrite (dvcat_decomp o pv r) by (rewrite ?Epv; dwfs; autorewrite with ddim; lia).
    replace (dc pv) with 1 by (now rewrite Epv). replace (dr pv) with m by (now rewrite Epv).
    rewrite (dmul_hcat_vcat o L) by side2.
    rewrite (dmul_id_l o L) by side2. rewrite (dmul_neg_l o L). rewrite (dadd_neg_sub o L) by side2.
    rewrite (dmul_assoc o L) by side2.
    unfold dsub. autorewrite with ddim. apply (dmk_ext o). intros i j Hi Hj. assert (j = 0) by lia. subst j.
    rewrite (dget_dblock o) by lia. rewrite Hx by lia. replace (0 + 0) with 0 by lia.
    unfold rsub. f_equal. f_equal.
    rewrite (dget_dmul o) by (autorewrite with ddim; lia). autorewrite with ddim.
    unfold mmul. apply (sum_ext o). intros k0 Hk0. rewrite Ec, Eai. f_equal.
    rewrite (dget_dmul o) by (autorewrite with ddim; lia). autorewrite with ddim.
    unfold mmul. apply (sum_ext o). intros l0 Hl0. f_equal.
    rewrite (dget_dblock o) by lia. rewrite Hx by lia. reflexivity.
  Qed.
End Step.
