(* Executable model of Pow<i32 / i64 / isize> for &PolyBase (yui/src/types/poly/poly.rs, impl_pow_signed):
     if n >= 0 { self.pow(n as usize) } else { let inv = self.inv().unwrap(); (&inv).pow(-n as usize) }
   The unwrap of a None is a panic = None.  (`-n` overflows only for n = MIN of the machine type: outside
   the model, exponents are unbounded.)  Definitions only (extracted by Extract/ExtractC16.v); the theorems are
   in Proofs/C16RestUnit.v.  Kept out of Model/Poly.v so that the existing model files stay untouched. *)
From Coq Require Import List ZArith.
Require Import Yui.Base.Ring Yui.Model.Lc Yui.Model.Mono Yui.Model.Poly.

Definition p_pow_z {X R} (m : mono_ops X) (o : ring_ops R) (u : unit_ops R) (a : lc X R) (n : Z) : option (lc X R) :=
  if (0 <=? n)%Z then Some (p_pow m o a (Z.to_nat n))
  else obind (p_inv m o u a) (fun i => Some (p_pow m o i (Z.to_nat (- n)))).
