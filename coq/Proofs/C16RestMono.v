(* C16 (rest): exact specification of the checked division, divides, is_unit and inv of the monomial
   types Var, Var2, Var3 (Model/Mono.v), for every exponent type with [exp_laws] (N = usize, Z = isize).
   MultiDeg / MultiVar is in C16RestMDeg.v.

   [mono_div_laws m ok]   x / y = Some z  <->  z valid and z * y = x;   y.divides(x) <-> x / y does not panic
   [mono_unit_laws m ok]  inv x = Some y -> x * y = 1;  is_unit x <-> inv x is Some;  every invertible monomial
                          is recognised by is_unit
   plus, per type, the exponent-wise description: for unsigned exponents the division is defined exactly
   when every exponent of the divisor is <= that of the dividend, for signed exponents always. *)
From Coq Require Import List Bool Arith NArith ZArith Lia.
Require Import Yui.Model.Mono Yui.Proofs.C16Mono.
Import ListNotations.

Record mono_div_laws {X : Type} (m : mono_ops X) (ok : X -> Prop) : Prop := mk_mono_div_laws {
  mdiv_iff : forall x y z, ok x -> ok y -> (mdiv m x y = Some z <-> ok z /\ mmul m z y = x);
  mdivides_iff : forall x y, ok x -> ok y -> (mdivides m y x = true <-> exists z, mdiv m x y = Some z);
}.

Record mono_unit_laws {X : Type} (m : mono_ops X) (ok : X -> Prop) : Prop := mk_mono_unit_laws {
  minv_some : forall x y, ok x -> minv m x = Some y -> ok y /\ mmul m x y = mone m;
  mis_unit_iff : forall x, ok x -> (mis_unit m x = true <-> exists y, minv m x = Some y);
  munit_complete : forall x y, ok x -> ok y -> mmul m x y = mone m -> mis_unit m x = true;
}.

(* ---------- consequences of the abstract laws ---------- *)
Section Generic.
  Context {X : Type} (m : mono_ops X) (ok : X -> Prop) (ML : mono_laws m ok).

  (* the product is cancellative (the orders are compatible with it) *)
  Lemma mmul_cancel_r x y z : ok x -> ok y -> ok z -> mmul m x z = mmul m y z -> x = y.
  Proof.
    intros Hx Hy Hz E. destruct (mgrlex_ord m ok ML) as (OE & _ & _).
    apply (OE x y Hx Hy). rewrite <- (mgrlex_mul m ok ML x y z Hx Hy Hz), E.
    apply OE; auto using (mmul_ok m ok ML).
  Qed.

  (* soundness (in mono_laws) + "None only if no quotient exists" = the exact specification *)
  Lemma mdiv_iff_of_none :
    (forall x y z, ok x -> ok y -> ok z -> mmul m z y = x -> mdiv m x y <> None) ->
    forall x y z, ok x -> ok y -> (mdiv m x y = Some z <-> ok z /\ mmul m z y = x).
  Proof.
    intros HN x y z Hx Hy. split; [now apply (mdiv_sound m ok ML)|]. intros [Hz E].
    destruct (mdiv m x y) as [z'|] eqn:D; [|exfalso; now apply (HN x y z Hx Hy Hz E)].
    destruct (mdiv_sound m ok ML x y z' Hx Hy D) as [Hz' E']. f_equal.
    apply (mmul_cancel_r z' z y); congruence.
  Qed.

  Context (DL : mono_div_laws m ok).
  (* y.divides(x) is divisibility in the monoid of valid monomials *)
  Theorem mdivides_spec x y : ok x -> ok y -> (mdivides m y x = true <-> exists z, ok z /\ mmul m z y = x).
  Proof.
    intros Hx Hy. rewrite (mdivides_iff m ok DL x y Hx Hy). split.
    - intros [z D]. exists z. now apply (mdiv_iff m ok DL x y z Hx Hy).
    - intros [z Hz]. exists z. now apply (mdiv_iff m ok DL x y z Hx Hy).
  Qed.
  (* the quotient is unique, and division undoes multiplication *)
  Theorem mdiv_mul x y : ok x -> ok y -> mdiv m (mmul m x y) y = Some x.
  Proof. intros Hx Hy. apply (mdiv_iff m ok DL); auto using (mmul_ok m ok ML). Qed.
End Generic.

Section Vars.
  Context {I : Type} (e : exp_ops I) (eZ : I -> Z) (EL : exp_laws e eZ).

  Lemma ele_Z a b : ele e a b = true <-> (eZ a <= eZ b)%Z.
  Proof.
    unfold ele. rewrite (ecmp_Z e eZ EL). destruct (Z.compare_spec (eZ a) (eZ b)); split; intros; try lia; try reflexivity; discriminate.
  Qed.

  (* `-=` on exponents does not panic iff the type is signed or there is no underflow *)
  Lemma esub_is_some a b : (exists c, esub e a b = Some c) <-> (esigned e = true \/ (eZ b <= eZ a)%Z).
  Proof.
    pose proof (esub_none e eZ EL a b) as HN. destruct (esub e a b) as [c|] eqn:E.
    - split; [|intros _; now exists c]. intros _. destruct (esigned e) eqn:S; [now left|right].
      destruct (Z.le_gt_cases (eZ b) (eZ a)) as [H|H]; [assumption|]. exfalso.
      assert (@None I = Some c) by (rewrite <- (proj2 HN (conj eq_refl H)); reflexivity). discriminate.
    - destruct (proj1 HN eq_refl) as [S H]. split; [intros [c [=]]|]. intros [S'|H']; [congruence|lia].
  Qed.
  Lemma esub_is_none a b : esub e a b = None <-> (esigned e = false /\ (eZ a < eZ b)%Z).
  Proof. apply (esub_none e eZ EL). Qed.

  Lemma esub_add a b : esub e (eadd e a b) b = Some a.
  Proof.
    destruct (esub e (eadd e a b) b) as [c|] eqn:E.
    - f_equal. apply (eZ_inj e eZ EL). apply (esub_some e eZ EL) in E. rewrite (eZ_add e eZ EL) in E. lia.
    - exfalso. apply esub_is_none in E as [S H]. rewrite (eZ_add e eZ EL) in H.
      pose proof (eunsigned e eZ EL S a). lia.
  Qed.

  Lemma signed_dec : esigned e = true \/ esigned e = false.
  Proof. destruct (esigned e); auto. Qed.

  Lemma eZ_zero_iff a : eZ a = 0%Z <-> a = ezero e.
  Proof. split; [intros H; apply (eZ_inj e eZ EL); now rewrite (eZ_0 e eZ EL)|intros ->; apply (eZ_0 e eZ EL)]. Qed.

  (* x + y = 0 with unsigned exponents forces x = 0 *)
  Lemma eadd_zero_unsigned a b : esigned e = false -> eadd e a b = ezero e -> a = ezero e.
  Proof.
    intros S E. apply eZ_zero_iff. apply (f_equal eZ) in E. rewrite (eZ_add e eZ EL), (eZ_0 e eZ EL) in E.
    pose proof (eunsigned e eZ EL S a). pose proof (eunsigned e eZ EL S b). lia.
  Qed.
  Lemma eadd_neg a : esigned e = true -> eadd e a (eneg e a) = ezero e.
  Proof. intros S. apply (eZ_inj e eZ EL). rewrite (eZ_add e eZ EL), (eneg_Z e eZ EL S), (eZ_0 e eZ EL). lia. Qed.

  (* ================= Var ================= *)
  Theorem var_div_defined x y :
    (exists z, mdiv (var_mono e) x y = Some z) <-> (esigned e = true \/ (eZ y <= eZ x)%Z).
  Proof. apply esub_is_some. Qed.

  Theorem var_div_laws : mono_div_laws (var_mono e) any.
  Proof.
    constructor.
    - apply (mdiv_iff_of_none (var_mono e) any (var_laws e eZ EL)).
      intros x y z _ _ _ E. cbn in *. subst x. now rewrite esub_add.
    - intros x y _ _. cbn [mdivides mdiv var_mono]. rewrite esub_is_some.
      destruct (esigned e); [split; auto|]. rewrite ele_Z. split; [now right|]. intros [H|H]; [discriminate|assumption].
  Qed.

  Theorem var_unit_spec x :
    (esigned e = true -> mis_unit (var_mono e) x = true /\ minv (var_mono e) x = Some (eneg e x)) /\
    (esigned e = false -> (mis_unit (var_mono e) x = true <-> x = ezero e) /\
                          (minv (var_mono e) x = if eis_zero e x then Some (ezero e) else None)).
  Proof.
    cbn [mis_unit minv var_mono]. split; intros ->; [auto|]. split; [apply (eis_zero_iff e eZ EL)|reflexivity].
  Qed.

  Theorem var_unit_laws : mono_unit_laws (var_mono e) any.
  Proof.
    constructor; cbn [mis_unit minv mmul mone var_mono]; unfold any.
    - intros x y _ H. split; [exact Logic.I|]. destruct (esigned e) eqn:S.
      + injection H as <-. now apply eadd_neg.
      + destruct (eis_zero e x) eqn:Z; [|discriminate]. injection H as <-.
        apply (eis_zero_iff e eZ EL) in Z. subst x. apply (eadd_0_l e eZ EL).
    - intros x _. destruct (esigned e); [split; eauto|].
      destruct (eis_zero e x); split; eauto; try discriminate. intros [y [=]].
    - intros x y _ _ E. destruct (esigned e) eqn:S; [reflexivity|].
      apply (eis_zero_iff e eZ EL). now apply (eadd_zero_unsigned x y).
  Qed.

  (* ================= Var2 ================= *)
  Theorem var2_div_defined x y :
    (exists z, mdiv (var2_mono e) x y = Some z) <->
    (esigned e = true \/ ((eZ (fst y) <= eZ (fst x))%Z /\ (eZ (snd y) <= eZ (snd x))%Z)).
  Proof.
    cbn [mdiv var2_mono].
    pose proof (esub_is_some (fst x) (fst y)) as H1. pose proof (esub_is_some (snd x) (snd y)) as H2.
    destruct (esub e (fst x) (fst y)) as [a|]; cbn [obind].
    - destruct (esub e (snd x) (snd y)) as [b|]; cbn [obind].
      + split; [|intros _; eauto]. intros _. destruct signed_dec as [S|S]; [now left|right].
        split; [destruct (proj1 H1) as [?|?]|destruct (proj1 H2) as [?|?]]; eauto; congruence.
      + split; [intros [z [=]]|]. intros H. exfalso. destruct (proj2 H2) as [c [=]]. tauto.
    - split; [intros [z [=]]|]. intros H. exfalso. destruct (proj2 H1) as [c [=]]. tauto.
  Qed.

  Theorem var2_div_laws : mono_div_laws (var2_mono e) any.
  Proof.
    constructor.
    - apply (mdiv_iff_of_none (var2_mono e) any (var2_laws e eZ EL)).
      intros x y [z1 z2] _ _ _ E. cbn in *. subst x. cbn [fst snd]. now rewrite !esub_add.
    - intros x y _ _. rewrite var2_div_defined. cbn [mdivides var2_mono].
      destruct (esigned e); [split; auto|]. rewrite andb_true_iff, !ele_Z. split; [now right|].
      intros [H|H]; [discriminate|assumption].
  Qed.

  Theorem var2_unit_spec x :
    (esigned e = true -> mis_unit (var2_mono e) x = true /\
                         minv (var2_mono e) x = Some (eneg e (fst x), eneg e (snd x))) /\
    (esigned e = false -> (mis_unit (var2_mono e) x = true <-> x = mone (var2_mono e)) /\
                          (minv (var2_mono e) x = if mis_unit (var2_mono e) x then Some (mone (var2_mono e)) else None)).
  Proof.
    cbn [mis_unit minv mone var2_mono]. split; intros ->; [auto|]. split; [|reflexivity].
    rewrite andb_true_iff, !(eis_zero_iff e eZ EL). destruct x as [a b]. cbn [fst snd].
    split; [intros [-> ->]; reflexivity|intros [= -> ->]; auto].
  Qed.

  Theorem var2_unit_laws : mono_unit_laws (var2_mono e) any.
  Proof.
    constructor; cbn [mis_unit minv mmul mone var2_mono]; unfold any.
    - intros [x1 x2] y _ H. cbn [fst snd] in *. split; [exact Logic.I|]. destruct (esigned e) eqn:S.
      + injection H as <-. cbn [fst snd]. now rewrite !eadd_neg.
      + destruct (eis_zero e x1) eqn:Z1; [|discriminate]. destruct (eis_zero e x2) eqn:Z2; [|discriminate].
        injection H as <-. apply (eis_zero_iff e eZ EL) in Z1, Z2. subst. cbn [fst snd]. now rewrite !(eadd_0_l e eZ EL).
    - intros x _. destruct (esigned e); [split; eauto|].
      destruct (eis_zero e (fst x) && eis_zero e (snd x)); split; eauto; try discriminate. intros [y [=]].
    - intros [x1 x2] [y1 y2] _ _ E. cbn [fst snd] in *. destruct (esigned e) eqn:S; [reflexivity|].
      injection E as E1 E2. rewrite andb_true_iff, !(eis_zero_iff e eZ EL).
      split; [now apply (eadd_zero_unsigned x1 y1)|now apply (eadd_zero_unsigned x2 y2)].
  Qed.

  (* ================= Var3 ================= *)
  Theorem var3_div_defined x y :
    (exists z, mdiv (var3_mono e) x y = Some z) <->
    (esigned e = true \/ ((eZ (v3_0 y) <= eZ (v3_0 x))%Z /\ (eZ (v3_1 y) <= eZ (v3_1 x))%Z /\ (eZ (v3_2 y) <= eZ (v3_2 x))%Z)).
  Proof.
    cbn [mdiv var3_mono].
    pose proof (esub_is_some (v3_0 x) (v3_0 y)) as H0.
    pose proof (esub_is_some (v3_1 x) (v3_1 y)) as H1. pose proof (esub_is_some (v3_2 x) (v3_2 y)) as H2.
    destruct (esub e (v3_0 x) (v3_0 y)) as [a|]; cbn [obind].
    - destruct (esub e (v3_1 x) (v3_1 y)) as [b|]; cbn [obind].
      + destruct (esub e (v3_2 x) (v3_2 y)) as [c|]; cbn [obind].
        * split; [|intros _; eauto]. intros _. destruct signed_dec as [S|S]; [now left|right].
          split; [destruct (proj1 H0) as [?|?]|split; [destruct (proj1 H1) as [?|?]|destruct (proj1 H2) as [?|?]]]; eauto; congruence.
        * split; [intros [z [=]]|]. intros H. exfalso. destruct (proj2 H2) as [c [=]]. tauto.
      + split; [intros [z [=]]|]. intros H. exfalso. destruct (proj2 H1) as [c [=]]. tauto.
    - split; [intros [z [=]]|]. intros H. exfalso. destruct (proj2 H0) as [c [=]]. tauto.
  Qed.

  Theorem var3_div_laws : mono_div_laws (var3_mono e) any.
  Proof.
    constructor.
    - apply (mdiv_iff_of_none (var3_mono e) any (var3_laws e eZ EL)).
      intros x y [[z0 z1] z2] _ _ _ E. cbn in *. subst x. unfold v3_0, v3_1, v3_2. cbn [fst snd]. now rewrite !esub_add.
    - intros x y _ _. rewrite var3_div_defined. cbn [mdivides var3_mono].
      destruct (esigned e); [split; auto|]. rewrite !andb_true_iff, !ele_Z. split; [intros [[? ?] ?]; right; auto|].
      intros [H|H]; [discriminate|tauto].
  Qed.

  Theorem var3_unit_spec x :
    (esigned e = true -> mis_unit (var3_mono e) x = true /\
                         minv (var3_mono e) x = Some (eneg e (v3_0 x), eneg e (v3_1 x), eneg e (v3_2 x))) /\
    (esigned e = false -> (mis_unit (var3_mono e) x = true <-> x = mone (var3_mono e)) /\
                          (minv (var3_mono e) x = if mis_unit (var3_mono e) x then Some (mone (var3_mono e)) else None)).
  Proof.
    cbn [mis_unit minv mone var3_mono]. split; intros ->; [auto|]. split; [|reflexivity].
    unfold v3_is_one. rewrite !andb_true_iff, !(eis_zero_iff e eZ EL). destruct x as [[a b] c]. unfold v3_0, v3_1, v3_2. cbn [fst snd].
    split; [intros [[-> ->] ->]; reflexivity|intros [= -> -> ->]; auto].
  Qed.

  Theorem var3_unit_laws : mono_unit_laws (var3_mono e) any.
  Proof.
    constructor; cbn [mis_unit minv mmul mone var3_mono]; unfold any.
    - intros [[x0 x1] x2] y _ H. unfold v3_is_one, v3_0, v3_1, v3_2 in *. cbn [fst snd] in *. split; [exact Logic.I|].
      destruct (esigned e) eqn:S.
      + injection H as <-. cbn [fst snd]. now rewrite !eadd_neg.
      + destruct (eis_zero e x0) eqn:Z0; [|discriminate]. destruct (eis_zero e x1) eqn:Z1; [|discriminate].
        destruct (eis_zero e x2) eqn:Z2; [|discriminate].
        injection H as <-. apply (eis_zero_iff e eZ EL) in Z0, Z1, Z2. subst. cbn [fst snd]. now rewrite !(eadd_0_l e eZ EL).
    - intros x _. destruct (esigned e); [split; eauto|].
      destruct (v3_is_one e x); split; eauto; try discriminate. intros [y [=]].
    - intros [[x0 x1] x2] [[y0 y1] y2] _ _ E. unfold v3_is_one, v3_0, v3_1, v3_2 in *. cbn [fst snd] in *.
      destruct (esigned e) eqn:S; [reflexivity|].
      injection E as E0 E1 E2. rewrite !andb_true_iff, !(eis_zero_iff e eZ EL).
      split; [split|]; [now apply (eadd_zero_unsigned x0 y0)|now apply (eadd_zero_unsigned x1 y1)|now apply (eadd_zero_unsigned x2 y2)].
  Qed.
End Vars.
