(* C20: display_table / display_seq put the right cells in the right places, and the text that
   kh / ckh print can be read back to exactly the non-default cells (round trip). *)
From Coq Require Import ZArith NArith List Bool Arith Lia ZifyN ZifyBool ZifyNat Sorted.
Require Import Yui.Model.Table Yui.Proofs.C20Str Yui.Proofs.C20Layout.
Import ListNotations.

(* ---------- .unique().sorted() ---------- *)
Lemma insert_u_In : forall x l z, In z (insert_u x l) <-> z = x \/ In z l.
Proof.
  induction l as [|y r IH]; intro z; cbn [insert_u].
  - cbn. intuition.
  - destruct (Z.compare_spec x y) as [E|L|G].
    + subst. cbn. intuition.
    + cbn. intuition.
    + cbn [In]. rewrite IH. intuition.
Qed.
Lemma sort_u_In : forall l z, In z (sort_u l) <-> In z l.
Proof.
  induction l as [|x l IH]; intro z; [reflexivity|].
  unfold sort_u in *. cbn [fold_right]. rewrite insert_u_In, IH. cbn. intuition.
Qed.
Lemma insert_u_HdRel : forall y x r, HdRel Z.lt y r -> (y < x)%Z -> HdRel Z.lt y (insert_u x r).
Proof.
  intros y x [|z r'] H Hyx; cbn [insert_u]; [now constructor|].
  inversion H; subst. destruct (Z.compare_spec x z); now constructor.
Qed.
Lemma insert_u_Sorted : forall x l, Sorted Z.lt l -> Sorted Z.lt (insert_u x l).
Proof.
  induction l as [|y r IH]; intro H; cbn [insert_u]; [repeat constructor|].
  inversion H as [|y' r' Hr Hhd]; subst.
  destruct (Z.compare_spec x y) as [E|L|G].
  - exact H.
  - constructor; [exact H | now constructor].
  - constructor; [now apply IH | now apply insert_u_HdRel].
Qed.
Lemma sort_u_Sorted : forall l, Sorted Z.lt (sort_u l).
Proof.
  induction l as [|x l IH]; [constructor|]. unfold sort_u in *. cbn [fold_right]. now apply insert_u_Sorted.
Qed.

(* ---------- lookup ---------- *)
Lemma lookup2_In : forall A (g : list ((Z * Z) * A)) i j a, lookup2 g i j = Some a -> In ((i, j), a) g.
Proof.
  induction g as [|[[i' j'] a'] g IH]; intros i j a H; [discriminate|].
  cbn [lookup2] in H. destruct (Z.eqb i i' && Z.eqb j j') eqn:E.
  - apply andb_true_iff in E. destruct E as [E1 E2]. apply Z.eqb_eq in E1, E2. inversion H; subst. now left.
  - right. now apply IH.
Qed.
Lemma lookup2_keys : forall A (g : list ((Z * Z) * A)) i j a, lookup2 g i j = Some a ->
  In i (cols_of g) /\ In j (rev (rows_of g)).
Proof.
  intros A g i j a H. apply lookup2_In in H. unfold cols_of, rows_of. rewrite rev_involutive, !sort_u_In.
  split; apply in_map_iff; exists ((i, j), a); auto.
Qed.

(* ---------- reading a bigraded table back ---------- *)
Lemma all_some_map : forall A B (f : A -> option B) (h : A -> B) l,
  (forall a, In a l -> f a = Some (h a)) -> all_some (map f l) = Some (map h l).
Proof.
  induction l as [|a l IH]; intro H; [reflexivity|].
  cbn [map all_some]. rewrite (H a (or_introl eq_refl)), IH by (intros; apply H; now right). reflexivity.
Qed.
Lemma all_some_ints : forall l, all_some (map parse_Z_dec (map str_of_Z l)) = Some l.
Proof.
  intro l. rewrite map_map. rewrite (all_some_map _ _ _ (fun z => z)); [now rewrite map_id|].
  intros. apply parse_Z_dec_str_of_Z.
Qed.
Lemma combine_map_r : forall A B (f : A -> B) l, combine l (map f l) = map (fun a => (a, f a)) l.
Proof. induction l as [|a l IH]; cbn; congruence. Qed.

Definition getd (g : list ((Z * Z) * str)) (def : str) (i j : Z) : str :=
  match lookup2 g i j with Some s => s | None => def end.
(* the non-default cells, rows from the top, columns from the left *)
Definition expected_cells (g : list ((Z * Z) * str)) (def : str) : list ((Z * Z) * str) :=
  flat_map (fun j => flat_map (fun i => let s := getd g def i j in
                                        if str_eqb s def then [] else [((i, j), s)]) (cols_of g))
           (rows_of g).

Theorem read_grid_table : forall l0 l1 g def,
  (forall i j s, lookup2 g i j = Some s -> s <> dot) ->
  read_grid (table_of_strs l0 l1 g def) = Some (expected_cells g def).
Proof.
  intros l0 l1 g def Hdot. unfold table_of_strs, read_grid. rewrite all_some_ints.
  rewrite map_map.
  rewrite (all_some_map _ _ _ (fun j => flat_map (fun i => let s := getd g def i j in
                                   if str_eqb s def then [] else [((i, j), s)]) (cols_of g))).
  - cbn [option_map]. unfold expected_cells. now rewrite flat_map_concat_map.
  - intros j _. unfold read_row. rewrite parse_Z_dec_str_of_Z, combine_map_r. f_equal.
    rewrite flat_map_concat_map, map_map, <- flat_map_concat_map.
    apply flat_map_ext. intro i. cbn [fst snd]. unfold getd.
    destruct (lookup2 g i j) as [s|] eqn:E.
    + destruct (str_eqb s def) eqn:Ed.
      * now rewrite str_eqb_refl.
      * assert (Hs : str_eqb s dot = false) by (apply str_eqb_neq; eapply Hdot; eauto).
        now rewrite Hs.
    + now rewrite !str_eqb_refl.
Qed.

Theorem expected_cells_spec : forall g def i j s,
  In ((i, j), s) (expected_cells g def) <-> lookup2 g i j = Some s /\ s <> def.
Proof.
  intros g def i j s. unfold expected_cells. rewrite in_flat_map. split.
  - intros (j' & Hj & H). apply in_flat_map in H. destruct H as (i' & Hi & H).
    cbn zeta in H. destruct (str_eqb (getd g def i' j') def) eqn:E; [destruct H|].
    destruct H as [H|[]]. inversion H; subst. apply str_eqb_neq in E. split; [|exact E].
    unfold getd in *. destruct (lookup2 g i j); [reflexivity | congruence].
  - intros [Hl Hs]. destruct (lookup2_keys _ g i j s Hl) as [Hi Hj]. apply in_rev in Hj.
    exists j. split; [exact Hj|]. apply in_flat_map. exists i. split; [exact Hi|].
    cbn zeta. unfold getd. rewrite Hl. apply str_eqb_neq in Hs. rewrite Hs. now left.
Qed.

(* the structure of the table itself (no reading involved) *)
Theorem table_of_strs_shape : forall l0 l1 g def,
  Sorted Z.lt (cols_of g) /\ Sorted Z.lt (rev (rows_of g)) /\
  (forall i, In i (cols_of g) <-> exists j s, In ((i, j), s) g) /\
  (forall j, In j (rows_of g) <-> exists i s, In ((i, j), s) g) /\
  table_of_strs l0 l1 g def =
    ((l1 ++ [92%N] ++ l0) :: map str_of_Z (cols_of g)) ::
    map (fun j => str_of_Z j :: map (fun i => if str_eqb (getd g def i j) def then dot else getd g def i j) (cols_of g))
        (rows_of g).
Proof.
  intros l0 l1 g def. unfold cols_of, rows_of. rewrite rev_involutive.
  repeat split; try apply sort_u_Sorted.
  - rewrite sort_u_In, in_map_iff. intros ([[i' j] s] & E & H). cbn in E. subst. eauto.
  - intros (j & s & H). apply sort_u_In, in_map_iff. exists ((i, j), s). auto.
  - rewrite <- in_rev, sort_u_In, in_map_iff. intros ([[i j'] s] & E & H). cbn in E. subst. eauto.
  - intros (i & s & H). apply in_rev. rewrite rev_involutive. apply sort_u_In, in_map_iff. exists ((i, j), s). auto.
Qed.

(* ---------- well-formedness of the printed tables ---------- *)
(* a data cell: non-empty, one line, last character not white space *)
Definition goodc (s : str) : Prop := s <> [] /\ (forall c, In c s -> c <> 10%N) /\ is_ws (last s 0%N) = false.

Lemma is_space_ws : forall c, is_space c = true -> is_ws c = true.
Proof. intros c H. unfold is_space in H. apply N.eqb_eq in H. now subst. Qed.
Lemma goodc_okc : forall s, goodc s -> okc s.
Proof.
  intros s (Hne & Hnl & Hl). split; [exact Hnl|]. apply rstrip_id. right.
  destruct (is_space (last s 0%N)) eqn:E; [apply is_space_ws in E; congruence | reflexivity].
Qed.
Lemma str_of_Z_okh : forall z, okh (str_of_Z z).
Proof.
  intro z. split; [apply str_of_Z_nonempty|]. intros c Hc. apply str_of_Z_chars in Hc.
  unfold is_space. split; [lia|]. apply N.eqb_neq. lia.
Qed.
Lemma str_of_Z_goodc : forall z, goodc (str_of_Z z).
Proof.
  intro z. pose proof (str_of_Z_nonempty z) as Hne. split; [exact Hne|]. split.
  - intros c Hc. apply str_of_Z_chars in Hc. lia.
  - destruct (exists_last Hne) as (s' & x & E). rewrite E, last_last.
    assert (Hx : In x (str_of_Z z)) by (rewrite E; apply in_or_app; right; now left).
    apply str_of_Z_chars in Hx. unfold is_ws. lia.
Qed.
Lemma dot_goodc : goodc dot.
Proof. split; [discriminate|]. split; [intros c [<-|[]]; discriminate | reflexivity]. Qed.

Definition title_ij : str := s_j ++ [92%N] ++ s_i.
Lemma title_okh : okh title_ij.
Proof.
  split; [discriminate|]. intros c Hc. cbn in Hc. unfold is_space.
  destruct Hc as [<-|[<-|[<-|[]]]]; split; try discriminate; reflexivity.
Qed.

Lemma table_of_strs_wf : forall g def,
  (forall i j s, lookup2 g i j = Some s -> goodc s) -> goodc def ->
  wf_table (table_of_strs s_i s_j g def).
Proof.
  intros g def Hg Hdef. unfold table_of_strs, wf_table. split; [discriminate|]. split.
  - constructor; [apply title_okh|]. apply Forall_forall. intros c Hc. apply in_map_iff in Hc.
    destruct Hc as (z & <- & _). apply str_of_Z_okh.
  - apply Forall_forall. intros r Hr. apply in_map_iff in Hr. destruct Hr as (j & <- & _). split.
    + cbn [length]. now rewrite !map_length.
    + constructor; [apply goodc_okc, str_of_Z_goodc|]. apply Forall_forall. intros c Hc.
      apply in_map_iff in Hc. destruct Hc as (i & <- & _). apply goodc_okc.
      destruct (lookup2 g i j) as [s|] eqn:E.
      * destruct (str_eqb s def); [apply dot_goodc | eapply Hg; eauto].
      * rewrite str_eqb_refl. apply dot_goodc.
Qed.

(* ---------- trim / trim_end and their inverses ---------- *)
Lemma render_row_shape : forall ws r, ws <> [] -> length r = length ws ->
  exists P, render_row ws r = 32%N :: P ++ [32%N] /\ (exists S, P = hd [] r ++ S) /\ (exists S', P = S' ++ last r []).
Proof.
  induction ws as [|w ws IH]; intros r Hne Hlen; [congruence|].
  destruct r as [|c r]; [discriminate|]. cbn [render_row hd tl].
  destruct ws as [|w' ws'].
  - destruct r; [|discriminate]. exists c. cbn [last]. split; [reflexivity|].
    split; [exists []; now rewrite app_nil_r | exists []; reflexivity].
  - cbn [length] in Hlen. destruct (IH r ltac:(discriminate) ltac:(cbn [length] in *; lia)) as (P & E & _ & (S' & ES')).
    rewrite E. exists (c ++ spaces (w - length c) ++ [32%N] ++ 32%N :: P). split.
    + cbn [app]. f_equal. rewrite <- !app_assoc. cbn [app]. reflexivity.
    + split; [eexists; reflexivity|].
      exists (c ++ spaces (w - length c) ++ [32%N] ++ 32%N :: S').
      destruct r as [|c2 r2]; [discriminate|]. rewrite ES'.
      change (last (c :: c2 :: r2) []) with (last (c2 :: r2) ([] : str)).
      rewrite <- !app_assoc. cbn [app]. reflexivity.
Qed.

Lemma layout_rows_shape : forall ws t, ws <> [] -> t <> [] -> Forall (fun r => length r = length ws) t ->
  exists P, concat (map (fun r => render_row ws r ++ [10%N]) t) = 32%N :: P ++ [32%N; 10%N] /\
            (exists S, P = hd [] (hd [] t) ++ S) /\ (exists S', P = S' ++ last (last t []) []).
Proof.
  intros ws. induction t as [|r t IH]; intros Hws Hne Hall; [congruence|].
  inversion Hall as [|r0 t0 Hr Ht]; subst.
  destruct (render_row_shape ws r Hws Hr) as (P & E & (S & ES) & (S' & ES')).
  cbn [map concat]. rewrite E. destruct t as [|r2 t2].
  - exists P. cbn [map concat hd last]. rewrite app_nil_r. split.
    + cbn [app]. rewrite <- app_assoc. reflexivity.
    + split; eauto.
  - destruct (IH Hws ltac:(discriminate) Ht) as (P2 & E2 & _ & (S2 & ES2)).
    rewrite E2. exists (P ++ [32%N; 10%N; 32%N] ++ P2). split.
    + cbn [app]. f_equal. rewrite <- !app_assoc. cbn [app]. reflexivity.
    + split.
      * exists (S ++ [32%N; 10%N; 32%N] ++ P2). cbn [hd]. rewrite ES, <- app_assoc. reflexivity.
      * exists (P ++ [32%N; 10%N; 32%N] ++ S2).
        change (last (r :: r2 :: t2) []) with (last (r2 :: t2) ([] : list str)).
        rewrite ES2, <- !app_assoc. reflexivity.
Qed.

Lemma drop_ws_rev_good : forall P, P <> [] -> is_ws (last P 0%N) = false -> drop_ws (rev P) = rev P.
Proof.
  intros P Hne Hl. destruct (exists_last Hne) as (P' & x & ->). rewrite last_last in Hl.
  rewrite rev_unit. cbn [drop_ws]. now rewrite Hl.
Qed.
Lemma drop_ws_tail3 : forall X, drop_ws (10%N :: 10%N :: 32%N :: X) = drop_ws X.
Proof. reflexivity. Qed.
Lemma trim_end_shape0 : forall Q, Q <> [] -> is_ws (last Q 0%N) = false ->
  trim_end (Q ++ [32%N; 10%N; 10%N]) = Q.
Proof.
  intros Q Hne Hl. unfold trim_end. rewrite rev_app_distr.
  change (rev [32%N; 10%N; 10%N]) with [10%N; 10%N; 32%N]. cbn [app]. rewrite drop_ws_tail3.
  rewrite drop_ws_rev_good by assumption. apply rev_involutive.
Qed.
Lemma trim_end_shape : forall P, P <> [] -> is_ws (last P 0%N) = false ->
  trim_end ((32%N :: P ++ [32%N; 10%N]) ++ [10%N]) = 32%N :: P.
Proof.
  intros P Hne Hl.
  replace ((32%N :: P ++ [32%N; 10%N]) ++ [10%N]) with ((32%N :: P) ++ [32%N; 10%N; 10%N])
    by (cbn [app]; now rewrite <- app_assoc).
  apply trim_end_shape0; [discriminate|]. destruct P; [congruence | exact Hl].
Qed.
Lemma trim_shape : forall P, P <> [] -> is_ws (hd 0%N P) = false -> is_ws (last P 0%N) = false ->
  trim ((32%N :: P ++ [32%N; 10%N]) ++ [10%N]) = P.
Proof.
  intros P Hne Hh Hl. unfold trim.
  assert (Hd : drop_ws ((32%N :: P ++ [32%N; 10%N]) ++ [10%N]) = P ++ [32%N; 10%N; 10%N]).
  { cbn [app]. change (drop_ws (32%N :: (P ++ [32%N; 10%N]) ++ [10%N]))
      with (drop_ws ((P ++ [32%N; 10%N]) ++ [10%N])).
    rewrite <- app_assoc. cbn [app]. destruct P as [|a P']; [congruence|]. cbn [hd] in Hh.
    cbn [app drop_ws]. now rewrite Hh. }
  rewrite Hd. now apply trim_end_shape0.
Qed.

Lemma strip_final_nl_app : forall s, strip_final_nl (s ++ [10%N]) = Some s.
Proof. intro s. unfold strip_final_nl. rewrite rev_unit. now rewrite rev_involutive. Qed.

(* a table whose title row and rows have a common length, with a visible first title and last cell *)
Definition visible_ends (t : list (list str)) : Prop :=
  hd [] (hd [] t) <> [] /\ is_ws (hd 0%N (hd [] (hd [] t))) = false /\
  last (last t []) [] <> [] /\ is_ws (last (last (last t []) []) 0%N) = false.

Lemma layout_shape : forall t, wf_table t -> visible_ends t ->
  exists P, layout t = 32%N :: P ++ [32%N; 10%N] /\ P <> [] /\ is_ws (hd 0%N P) = false /\ is_ws (last P 0%N) = false.
Proof.
  intros t Hwf (Hh1 & Hh2 & Hl1 & Hl2). destruct (wf_table_rows t Hwf) as (h & rows & -> & Hlen & _).
  destruct Hwf as (Hne & _).
  destruct (col_widths_fits (length h) (h :: rows) Hlen) as [Hwl _].
  set (ws := col_widths (h :: rows)) in *.
  assert (Hws : ws <> []) by (destruct ws; [destruct h; [congruence | discriminate] | discriminate]).
  unfold layout. fold ws.
  destruct (layout_rows_shape ws (h :: rows) Hws ltac:(discriminate)) as (P & E & (S & ES) & (S' & ES')).
  { eapply Forall_impl; [|exact Hlen]. intros r Hr. cbn beta in Hr. rewrite Hwl. exact Hr. }
  exists P. split; [exact E|].
  set (c1 := hd [] (hd [] (h :: rows))) in *. set (cl := last (last (h :: rows) []) []) in *.
  split; [rewrite ES; destruct c1; [congruence | discriminate]|]. split.
  - rewrite ES. destruct c1 as [|a c1']; [congruence|]. exact Hh2.
  - rewrite ES'. destruct (exists_last Hl1) as (cl' & x & Ecl). rewrite Ecl in *.
    rewrite app_assoc, last_last. now rewrite last_last in Hl2.
Qed.

Theorem untrim_kh_layout : forall t, wf_table t -> visible_ends t ->
  untrim_kh (trim (layout t ++ [10%N])) = layout t.
Proof.
  intros t Hwf Hv. destruct (layout_shape t Hwf Hv) as (P & E & Hne & Hh & Hl).
  rewrite E, trim_shape by assumption. reflexivity.
Qed.
Theorem untrim_ckh_layout : forall t, wf_table t -> visible_ends t ->
  untrim_ckh (trim_end (layout t ++ [10%N])) = layout t.
Proof.
  intros t Hwf Hv. destruct (layout_shape t Hwf Hv) as (P & E & Hne & Hh & Hl).
  rewrite E, trim_end_shape by assumption. unfold untrim_ckh. reflexivity.
Qed.

Lemma last_map : forall A B (f : A -> B) l d, l <> [] -> last (map f l) (f d) = f (last l d).
Proof.
  induction l as [|a l IH]; intros d H; [congruence|]. destruct l as [|b l']; [reflexivity|].
  change (last (map f (a :: b :: l')) (f d)) with (last (map f (b :: l')) (f d)).
  change (last (a :: b :: l') d) with (last (b :: l') d). apply IH. discriminate.
Qed.
Lemma last_cons_nonempty : forall A (a : A) l d, l <> [] -> last (a :: l) d = last l d.
Proof. intros A a [|b l] d H; [congruence | reflexivity]. Qed.
Lemma last_default : forall A (l : list A) d d', l <> [] -> last l d = last l d'.
Proof.
  induction l as [|a l IH]; intros d d' H; [congruence|]. destruct l as [|b l']; [reflexivity|].
  change (last (a :: b :: l') d) with (last (b :: l') d). change (last (a :: b :: l') d') with (last (b :: l') d').
  apply IH. discriminate.
Qed.

Lemma goodc_last : forall s, goodc s -> s <> [] /\ is_ws (last s 0%N) = false.
Proof. intros s (H1 & _ & H3). auto. Qed.

Lemma last_In : forall A (l : list A) d, l <> [] -> In (last l d) l.
Proof.
  induction l as [|a l IH]; intros d H; [congruence|]. destruct l as [|b l']; [now left|].
  right. change (last (a :: b :: l') d) with (last (b :: l') d). apply IH. discriminate.
Qed.
Lemma last_row_cell_good : forall t : list (list str), t <> [] ->
  Forall (fun r => r <> [] /\ Forall goodc r) t -> goodc (last (last t []) []).
Proof.
  intros t Hne Hall. rewrite Forall_forall in Hall.
  destruct (Hall (last t []) (last_In _ t [] Hne)) as [Hr Hg].
  rewrite Forall_forall in Hg. apply Hg. now apply last_In.
Qed.
Lemma title_goodc : goodc title_ij.
Proof.
  split; [discriminate|]. split; [|reflexivity].
  intros c Hc. cbn in Hc. destruct Hc as [<-|[<-|[<-|[]]]]; discriminate.
Qed.

Lemma table_of_strs_visible : forall g def,
  (forall i j s, lookup2 g i j = Some s -> goodc s) -> goodc def ->
  visible_ends (table_of_strs s_i s_j g def).
Proof.
  intros g def Hg Hdef. unfold visible_ends. split; [discriminate|]. split; [reflexivity|].
  apply goodc_last. apply last_row_cell_good; [discriminate|]. unfold table_of_strs.
  constructor.
  - split; [discriminate|]. constructor; [apply title_goodc|]. apply Forall_forall. intros c Hc.
    apply in_map_iff in Hc. destruct Hc as (z & <- & _). apply str_of_Z_goodc.
  - apply Forall_forall. intros r Hr. apply in_map_iff in Hr. destruct Hr as (j & <- & _).
    split; [discriminate|]. constructor; [apply str_of_Z_goodc|]. apply Forall_forall. intros c Hc.
    apply in_map_iff in Hc. destruct Hc as (i & <- & _).
    destruct (lookup2 g i j) as [s|] eqn:E.
    + destruct (str_eqb s def); [apply dot_goodc | eapply Hg; eauto].
    + rewrite str_eqb_refl. apply dot_goodc.
Qed.

(* ---------- the printed text of a grid of strings can be read back ---------- *)
Definition kh_text (g : list ((Z * Z) * str)) (def : str) : str :=
  trim (layout (table_of_strs s_i s_j g def) ++ [10%N]) ++ [10%N].
Definition ckh_text (g : list ((Z * Z) * str)) (def : str) : str :=
  trim_end (layout (table_of_strs s_i s_j g def) ++ [10%N]) ++ [10%N].

Theorem read_kh_text : forall g def,
  (forall i j s, lookup2 g i j = Some s -> goodc s /\ s <> dot) -> goodc def ->
  read_kh_bigraded (kh_text g def) = Some (expected_cells g def).
Proof.
  intros g def Hg Hdef. unfold read_kh_bigraded, kh_text. rewrite strip_final_nl_app. cbn [obind].
  assert (Hg1 : forall i j s, lookup2 g i j = Some s -> goodc s) by (intros; eapply Hg; eauto).
  rewrite untrim_kh_layout by (auto using table_of_strs_wf, table_of_strs_visible).
  rewrite parse_layout_layout by (auto using table_of_strs_wf). cbn [obind].
  apply read_grid_table. intros; eapply Hg; eauto.
Qed.
Theorem read_ckh_text : forall g def,
  (forall i j s, lookup2 g i j = Some s -> goodc s /\ s <> dot) -> goodc def ->
  read_ckh (ckh_text g def) = Some (expected_cells g def).
Proof.
  intros g def Hg Hdef. unfold read_ckh, ckh_text. rewrite strip_final_nl_app. cbn [obind].
  assert (Hg1 : forall i j s, lookup2 g i j = Some s -> goodc s) by (intros; eapply Hg; eauto).
  rewrite untrim_ckh_layout by (auto using table_of_strs_wf, table_of_strs_visible).
  rewrite parse_layout_layout by (auto using table_of_strs_wf). cbn [obind].
  apply read_grid_table. intros; eapply Hg; eauto.
Qed.
