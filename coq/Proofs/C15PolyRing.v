(* C15, K[x] as a Euclidean domain: the normal-form coefficient lists over a field form a subset type NP
   on which the dictionary [poly_dict] satisfies [euc_dict_laws] (potential 2^length - 1); the generic
   theorems of C15Gcd.v are transported back to the model's functions on plain lists along the
   projection NP -> list K ([dict_morph]: the generic code commutes with a homomorphism of dictionaries). *)
From Coq Require Import ZArith Lia Bool Ring Arith List Setoid Eqdep_dec.
Require Import Yui.Base.Ring Yui.Model.Euclid Yui.Model.EuclidPoly.
Require Import Yui.Proofs.C15Gcd Yui.Proofs.C15Field Yui.Proofs.C15Main Yui.Proofs.C15Poly.
Import ListNotations.

(* ---------- the generic code commutes with dictionary homomorphisms ---------- *)
Section Morph.
  Context {R' R : Type} (D' : euc_dict R') (D : euc_dict R) (phi : R' -> R).
  Record dict_morph : Prop := mk_dict_morph {
    m_zero : phi (rzero (d_ring D')) = rzero (d_ring D);
    m_one : phi (rone (d_ring D')) = rone (d_ring D);
    m_add : forall a b, phi (radd (d_ring D') a b) = radd (d_ring D) (phi a) (phi b);
    m_neg : forall a, phi (rneg (d_ring D') a) = rneg (d_ring D) (phi a);
    m_mul : forall a b, phi (rmul (d_ring D') a b) = rmul (d_ring D) (phi a) (phi b);
    m_eqb : forall a b, reqb (d_ring D') a b = reqb (d_ring D) (phi a) (phi b);
    m_div : forall a b, d_div D (phi a) (phi b) = option_map phi (d_div D' a b);
    m_rem : forall a b, d_rem D (phi a) (phi b) = option_map phi (d_rem D' a b);
    m_nunit : forall a, phi (d_nunit D' a) = d_nunit D (phi a);
  }.
  Context (M : dict_morph).

  Lemma m_sub a b : phi (rsub (d_ring D') a b) = rsub (d_ring D) (phi a) (phi b).
  Proof. unfold rsub. now rewrite (m_add M), (m_neg M). Qed.
  Lemma m_is_zero a : is_zero D (phi a) = is_zero D' a.
  Proof. unfold is_zero. now rewrite (m_eqb M), (m_zero M). Qed.
  Lemma m_is_one a : is_one D (phi a) = is_one D' a.
  Proof. unfold is_one. now rewrite (m_eqb M), (m_one M). Qed.
  Lemma m_normalized a : normalized D (phi a) = phi (normalized D' a).
  Proof.
    unfold normalized. rewrite <- (m_nunit M), m_is_one. destruct (is_one D' (d_nunit D' a)); [reflexivity|].
    now rewrite (m_mul M).
  Qed.
  Lemma m_divides x y : divides D (phi x) (phi y) = divides D' x y.
  Proof.
    unfold divides. rewrite m_is_zero. destruct (is_zero D' x); [reflexivity|].
    rewrite (m_rem M). destruct (d_rem D' y x) as [r|]; [|reflexivity]. cbn. now rewrite m_is_zero.
  Qed.
  Lemma m_gcd_loop : forall fuel x y,
    gcd_loop D fuel (phi x) (phi y) = option_map phi (gcd_loop D' fuel x y).
  Proof.
    induction fuel as [|f IH]; intros x y; [reflexivity|]. cbn [gcd_loop]. rewrite m_is_zero.
    destruct (is_zero D' y); [reflexivity|]. rewrite (m_rem M).
    destruct (d_rem D' x y) as [r|]; [|reflexivity]. cbn [option_map obind]. apply IH.
  Qed.
  Lemma m_gcd fuel x y : gcd D fuel (phi x) (phi y) = option_map phi (gcd D' fuel x y).
  Proof.
    unfold gcd. rewrite !m_is_zero, !m_divides, m_gcd_loop, !m_normalized.
    destruct (is_zero D' x && is_zero D' y); [cbn; now rewrite (m_zero M)|].
    destruct (divides D' x y) as [[|]|]; cbn [obind option_map]; try reflexivity.
    destruct (divides D' y x) as [[|]|]; cbn [obind option_map]; try reflexivity.
    destruct (gcd_loop D' fuel x y) as [d|]; cbn [obind option_map]; [|reflexivity]. now rewrite m_normalized.
  Qed.
  Definition phi3 (r : R' * R' * R') : R * R * R :=
    let '(d, s, t) := r in (phi d, phi s, phi t).
  Lemma m_gcdx_loop : forall fuel x y s0 s1 t0 t1,
    gcdx_loop D fuel (phi x) (phi y) (phi s0) (phi s1) (phi t0) (phi t1)
    = option_map phi3 (gcdx_loop D' fuel x y s0 s1 t0 t1).
  Proof.
    induction fuel as [|f IH]; intros x y s0 s1 t0 t1; [reflexivity|]. cbn [gcdx_loop]. rewrite m_is_zero.
    destruct (is_zero D' y); [reflexivity|]. rewrite (m_div M), (m_rem M).
    destruct (d_div D' x y) as [q|]; [|reflexivity]. destruct (d_rem D' x y) as [r|]; [|reflexivity].
    cbn [option_map obind]. rewrite <- !(m_mul M), <- !m_sub. apply IH.
  Qed.
  Lemma m_gcdx fuel x y : gcdx D fuel (phi x) (phi y) = option_map phi3 (gcdx D' fuel x y).
  Proof.
    unfold gcdx. rewrite !m_is_zero, !m_divides, <- !(m_nunit M), <- !(m_mul M).
    rewrite <- (m_one M), <- (m_zero M), m_gcdx_loop.
    destruct (is_zero D' x && is_zero D' y); [reflexivity|].
    destruct (divides D' x y) as [[|]|]; cbn [obind option_map]; try reflexivity.
    destruct (divides D' y x) as [[|]|]; cbn [obind option_map]; try reflexivity.
    destruct (gcdx_loop D' fuel x y _ _ _ _) as [[[d s] t]|]; cbn [obind option_map phi3]; [|reflexivity].
    rewrite <- (m_nunit M), m_is_one. destruct (is_one D' (d_nunit D' d)); cbn [option_map phi3]; [reflexivity|].
    now rewrite !(m_mul M).
  Qed.
  Lemma m_lcm fuel x y : lcm D fuel (phi x) (phi y) = option_map phi (lcm D' fuel x y).
  Proof.
    unfold lcm. rewrite m_gcd. destruct (gcd D' fuel x y) as [g|]; cbn [obind option_map]; [|reflexivity].
    rewrite (m_div M). destruct (d_div D' y g) as [q|]; cbn [obind option_map]; [|reflexivity].
    now rewrite <- (m_mul M), m_normalized.
  Qed.
End Morph.

(* ---------- units and normalisation of K[x], on normal-form lists ---------- *)
Section PolyUnits.
  Context {K : Type} (o : ring_ops K) (inv : K -> option K) (FL : field_laws o inv).
  Notation F := (field_dict o inv).
  Let L : ring_laws (d_ring F) := fl_ring o inv FL.
  Add Ring PUring : (ring_theory_of_laws o (fl_ring o inv FL)).
  Notation zero := (rzero o).
  Notation one := (rone o).
  Notation mul := (rmul o).
  Notation nf := (fun f : list K => p_norm F f = f).

  Lemma kz_false c : c <> zero -> kzero F c = false.
  Proof. intros N. destruct (kz_reflect F L c) as [Z|_]; [contradiction|reflexivity]. Qed.
  Lemma const_normal c : c <> zero -> p_norm F [c] = [c].
  Proof. intros N. cbn [p_norm]. now rewrite (kz_false c N). Qed.
  Lemma one_normal : p_norm F (p_one F) = p_one F.
  Proof. apply const_normal. exact (fl_nontrivial o inv FL). Qed.
  Lemma normal_const_nonzero c : p_norm F [c] = [c] -> c <> zero.
  Proof. intros H Z. cbn [p_norm] in H. destruct (kz_reflect F L c) as [_|N]; [discriminate|contradiction]. Qed.

  Lemma last_mul_nonzero (f g : list K) : nf f -> nf g -> f <> [] -> g <> [] -> mul (last f zero) (last g zero) <> zero.
  Proof.
    intros Nf Ng Ef Eg. apply (f_mul_nonzero o inv FL); [apply (normal_last F L f Nf Ef)|apply (normal_last F L g Ng Eg)].
  Qed.
  Lemma mul_nonzero (f g : list K) : nf f -> nf g -> f <> [] -> g <> [] ->
    p_mul F f g <> [] /\ length f <= length (p_mul F f g) /\ length g <= length (p_mul F f g) /\
    length (p_mul F f g) = S (pred (length f) + pred (length g)) /\
    last (p_mul F f g) zero = mul (last f zero) (last g zero).
  Proof.
    intros Nf Ng Ef Eg. destruct (mul_lead F L f g (last_mul_nonzero f g Nf Ng Ef Eg)) as [Len La].
    split; [intros E; rewrite E in Len; discriminate|]. destruct f; [contradiction|]. destruct g; [contradiction|].
    cbn [length pred] in *. repeat split; try lia. exact La.
  Qed.

  (* the normalising unit: the constant polynomial inverse-of-the-leading-coefficient (1 for f = 0) *)
  Lemma nunit_form (f : list K) : exists u, u <> zero /\ p_nunit F f = [u] /\ u = field_nunit o inv (last f zero).
  Proof.
    exists (field_nunit o inv (last f zero)).
    assert (N : field_nunit o inv (last f zero) <> zero).
    { pose proof (rnunit_unit _ _ (field_unit_laws o inv FL) (last f zero)) as U. cbn in U. unfold f_is_unit in U.
      destruct (f_zero_reflect o inv FL (field_nunit o inv (last f zero))) as [|N]; [discriminate|exact N]. }
    split; [exact N|]. split; [|reflexivity]. unfold p_nunit, p_lead_coeff. cbn [d_nunit field_dict d_ring].
    apply const_normal. exact N.
  Qed.

  Lemma is_unit_form (f : list K) : nf f -> (p_is_unit F f = true <-> exists a, f = [a]).
  Proof.
    intros Nf. destruct f as [|a [|b f]]; cbn [p_is_unit].
    - split; [discriminate|intros [a E]; discriminate].
    - split; [eauto|]. intros _. cbn [d_is_unit field_dict]. unfold f_is_unit.
      destruct (f_zero_reflect o inv FL a) as [Z|_]; [|reflexivity]. exfalso. exact (normal_const_nonzero a Nf Z).
    - split; [discriminate|intros [c E]; discriminate].
  Qed.

  Lemma inv_form (f g : list K) : p_inv F f = Some g -> exists a i, f = [a] /\ g = [i] /\ inv a = Some i /\ mul a i = one /\ i <> zero.
  Proof.
    destruct f as [|a [|b f]]; cbn [p_inv]; try discriminate. cbn [d_inv field_dict].
    destruct (inv a) as [i|] eqn:Ei; [|discriminate]. cbn [obind]. intros [= <-].
    destruct (f_inv_some o inv FL a i Ei) as [Na H]. exists a, i. repeat split; try assumption.
    intros Z. apply (fl_nontrivial o inv FL). rewrite <- H, Z. ring.
  Qed.
  Lemma inv_normal (f g : list K) : p_inv F f = Some g -> p_norm F g = g.
  Proof. intros H. destruct (inv_form f g H) as (a & i & _ & -> & _ & _ & Ni). now apply const_normal. Qed.

  Lemma mul_consts a b : p_mul F [a] [b] = p_norm F [mul a b].
  Proof.
    apply (norm_peq F L). intros n. rewrite (coef_mul_raw F L), (conv_cons F L). destruct n as [|m].
    - cbn. ring.
    - rewrite (conv_nil_l F L). rewrite !(coef_cons_S F), !(coef_nil F). cbn [d_ring field_dict]. ring.
  Qed.
  Lemma inv_mul (f g : list K) : p_inv F f = Some g -> p_mul F f g = p_one F.
  Proof.
    intros H. destruct (inv_form f g H) as (a & i & -> & -> & _ & E & _). rewrite mul_consts, E. apply one_normal.
  Qed.
  Lemma inv_iff_unit (f : list K) : nf f -> (p_is_unit F f = true <-> exists g, p_inv F f = Some g).
  Proof.
    intros Nf. rewrite (is_unit_form f Nf). split.
    - intros [a ->]. pose proof (normal_const_nonzero a Nf) as Na.
      destruct (fl_inv o inv FL a Na) as (i & Ei & _). exists [i]. cbn [p_inv d_inv field_dict]. rewrite Ei. reflexivity.
    - intros [g H]. destruct (inv_form f g H) as (a & _ & -> & _). eauto.
  Qed.
  Lemma unit_complete (f g : list K) : nf f -> nf g -> p_mul F f g = p_one F -> p_is_unit F f = true.
  Proof.
    intros Nf Ng E. apply (is_unit_form f Nf).
    assert (Ef : f <> []) by (intros ->; discriminate E).
    assert (Eg : g <> []) by (intros ->; rewrite (mul_nil_r F L) in E; discriminate E).
    destruct (mul_nonzero f g Nf Ng Ef Eg) as (_ & _ & _ & Len & _). rewrite E in Len. cbn in Len.
    destruct f as [|a [|b f]]; [contradiction|eauto|cbn in Len; lia].
  Qed.
  Lemma nunit_is_unit (f : list K) : p_is_unit F (p_nunit F f) = true.
  Proof.
    destruct (nunit_form f) as (u & Nu & -> & _). cbn [p_is_unit d_is_unit field_dict]. unfold f_is_unit.
    destruct (f_zero_reflect o inv FL u) as [|_]; [contradiction|reflexivity].
  Qed.
  Lemma nunit_one : p_nunit F (p_one F) = p_one F.
  Proof.
    unfold p_nunit, p_lead_coeff, p_one. cbn [last d_nunit field_dict d_ring].
    unfold field_nunit. destruct (f_zero_reflect o inv FL one) as [Z|_]; [exfalso; exact (fl_nontrivial o inv FL Z)|].
    rewrite (f_inv_one o inv FL). apply one_normal.
  Qed.
  Lemma nunit_nil : p_nunit F [] = p_one F.
  Proof.
    unfold p_nunit, p_lead_coeff. cbn [last d_nunit field_dict d_ring]. rewrite (field_nunit_zero o inv FL). apply one_normal.
  Qed.

  (* f * normalizing_unit f is monic (or 0) *)
  Lemma mul_nunit_lead (f : list K) : nf f -> f <> [] -> last (p_mul F f (p_nunit F f)) zero = one.
  Proof.
    intros Nf Ef. destruct (nunit_form f) as (u & Nu & Eu & Hu). rewrite Eu.
    destruct (mul_nonzero f [u] Nf (const_normal u Nu) Ef ltac:(discriminate)) as (_ & _ & _ & _ & La).
    rewrite La. cbn [last]. rewrite Hu.
    destruct (field_nunit_nonzero o inv FL (last f zero) (normal_last F L f Nf Ef)) as (w & _ & -> & H). exact H.
  Qed.
  Lemma nunit_idem (f : list K) : nf f -> p_nunit F (p_mul F f (p_nunit F f)) = p_one F.
  Proof.
    intros Nf. destruct f as [|a f'] eqn:E; [apply nunit_nil|]. rewrite <- E in *.
    assert (Ef : f <> []) by (rewrite E; discriminate).
    unfold p_nunit at 1. unfold p_lead_coeff. cbn [d_nunit field_dict d_ring]. rewrite (mul_nunit_lead f Nf Ef). unfold field_nunit.
    destruct (f_zero_reflect o inv FL one) as [Z|_]; [exfalso; exact (fl_nontrivial o inv FL Z)|].
    rewrite (f_inv_one o inv FL). apply one_normal.
  Qed.
  Lemma nunit_assoc (f v : list K) : nf f -> nf v -> p_is_unit F v = true ->
    p_mul F (p_mul F f v) (p_nunit F (p_mul F f v)) = p_mul F f (p_nunit F f).
  Proof.
    intros Nf Nv Uv. apply (is_unit_form v Nv) in Uv. destruct Uv as [c ->].
    pose proof (normal_const_nonzero c Nv) as Nc.
    destruct f as [|a f'] eqn:E; [reflexivity|]. rewrite <- E in *.
    assert (Ef : f <> []) by (rewrite E; discriminate).
    destruct (mul_nonzero f [c] Nf Nv Ef ltac:(discriminate)) as (NEm & _ & _ & _ & La). cbn [last] in La.
    pose proof (normal_last F L f Nf Ef) as Nl.
    destruct (nunit_form (p_mul F f [c])) as (w & Nw & Ew & Hw). destruct (nunit_form f) as (u & Nu & Eu & Hu).
    rewrite Ew, Eu.
    apply (normal_unique F L); [apply (norm_idem F L)|apply (norm_idem F L)|]. intros n.
    rewrite !(coef_mul_const F L).
    (* c * w = u *)
    rewrite La in Hw.
    destruct (field_nunit_nonzero o inv FL (last f zero) Nl) as (u' & _ & Eu' & Hu').
    destruct (field_nunit_nonzero o inv FL (mul (last f zero) c) (f_mul_nonzero o inv FL _ _ Nl Nc)) as (w' & _ & Ew' & Hw').
    rewrite <- Hu in Eu'. rewrite <- Hw in Ew'. subst u' w'.
    assert (CW : mul c w = u).
    { transitivity (mul (mul c w) (mul (last f zero) u)); [rewrite Hu'; ring|].
      transitivity (mul (mul (mul (last f zero) c) w) u); [ring|]. rewrite Hw'. ring. }
    cbn [d_ring field_dict]. rewrite <- CW. ring.
  Qed.
End PolyUnits.

(* ---------- the subset type of normal forms and its dictionary ---------- *)
Section PolySigma.
  Context {K : Type} (o : ring_ops K) (inv : K -> option K) (FL : field_laws o inv).
  Notation F := (field_dict o inv).
  Notation P := (poly_dict (field_dict o inv)).
  Let L : ring_laws (d_ring F) := fl_ring o inv FL.
  Local Open Scope Z_scope.

  Definition nfb (f : list K) : bool := p_eqb F (p_norm F f) f.
  Lemma nfb_spec f : nfb f = true <-> p_norm F f = f.
  Proof. apply (poly_eqb_eq F L). Qed.
  Definition NP : Type := { f : list K | nfb f = true }.
  Definition val (a : NP) : list K := proj1_sig a.
  Definition mk (f : list K) (H : p_norm F f = f) : NP := exist _ f (proj2 (nfb_spec f) H).
  Lemma val_mk f H : val (mk f H) = f.
  Proof. reflexivity. Qed.
  Lemma val_normal (a : NP) : p_norm F (val a) = val a.
  Proof. apply nfb_spec. exact (proj2_sig a). Qed.
  Lemma val_inj (a b : NP) : val a = val b -> a = b.
  Proof.
    destruct a as [f p], b as [g q]. cbn. intros E. subst g. f_equal. apply UIP_dec. apply bool_dec.
  Qed.

  Definition lift (x : option (list K)) : (forall q, x = Some q -> p_norm F q = q) -> option NP :=
    match x as x' return (forall q, x' = Some q -> p_norm F q = q) -> option NP with
    | Some q => fun H => Some (mk q (H q eq_refl))
    | None => fun _ => None
    end.
  Lemma lift_spec x H : option_map val (lift x H) = x.
  Proof. destruct x; reflexivity. Qed.
  Lemma lift_some x H q : x = Some q -> exists a, lift x H = Some a /\ val a = q.
  Proof. intros E. subst x. eexists. split; [reflexivity|reflexivity]. Qed.
  Lemma lift_none x H : x = None -> lift x H = None.
  Proof. intros E. subst x. reflexivity. Qed.
  Lemma lift_inv x H a : lift x H = Some a -> x = Some (val a).
  Proof. intros E. rewrite <- (lift_spec x H), E. reflexivity. Qed.

  Lemma div_normal (f g : list K) : p_norm F f = f -> p_norm F g = g ->
    (forall q, d_div P f g = Some q -> p_norm F q = q) /\ (forall r, d_rem P f g = Some r -> p_norm F r = r).
  Proof.
    intros Nf Ng. destruct (poly_division_main o inv FL f g Nf Ng) as [H1 H0].
    destruct g as [|b g'] eqn:Eg.
    - destruct (H0 eq_refl) as [-> ->]. split; intros ? [=].
    - destruct (H1 ltac:(discriminate)) as (q & r & -> & -> & _ & Nq & Nr & _). split; intros ? [= <-]; assumption.
  Qed.

  Definition np_zero : NP := mk [] eq_refl.
  Definition np_one : NP := mk (p_one F) (one_normal o inv FL).
  Definition np_add (a b : NP) : NP := mk (p_add F (val a) (val b)) (norm_idem F L _).
  Definition np_neg (a : NP) : NP := mk (p_neg F (val a)) (normal_neg F L _ (val_normal a)).
  Definition np_mul (a b : NP) : NP := mk (p_mul F (val a) (val b)) (norm_idem F L _).
  Definition np_eqb (a b : NP) : bool := p_eqb F (val a) (val b).
  Definition np_div (a b : NP) : option NP :=
    lift (d_div P (val a) (val b)) (proj1 (div_normal _ _ (val_normal a) (val_normal b))).
  Definition np_rem (a b : NP) : option NP :=
    lift (d_rem P (val a) (val b)) (proj2 (div_normal _ _ (val_normal a) (val_normal b))).
  Definition np_is_unit (a : NP) : bool := p_is_unit F (val a).
  Definition np_inv (a : NP) : option NP := lift (p_inv F (val a)) (inv_normal o inv FL (val a)).
  Definition np_nunit (a : NP) : NP := mk (p_nunit F (val a)) (norm_idem F L _).
  Definition np_ring : ring_ops NP := mk_ring_ops NP np_zero np_one np_add np_neg np_mul np_eqb.
  Definition NPD : euc_dict NP := mk_euc_dict NP np_ring np_div np_rem np_is_unit np_inv np_nunit.

  Lemma np_morph : dict_morph NPD P val.
  Proof.
    constructor; try reflexivity.
    - intros a b. cbn [d_div NPD]. unfold np_div. now rewrite lift_spec.
    - intros a b. cbn [d_rem NPD]. unfold np_rem. now rewrite lift_spec.
  Qed.

  Definition np_phi (a : NP) : Z := 2 ^ Z.of_nat (length (val a)) - 1.

  Lemma np_ring_laws : ring_laws np_ring.
  Proof.
    constructor; cbn [radd rneg rmul rzero rone reqb np_ring]; intros.
    - apply val_inj. apply (poly_add_comm F L).
    - apply val_inj. apply (poly_add_assoc F L).
    - apply val_inj. apply (poly_add_0_l F). apply val_normal.
    - apply val_inj. apply (poly_add_neg F L).
    - apply val_inj. apply (poly_mul_comm F L).
    - apply val_inj. apply (poly_mul_assoc F L).
    - apply val_inj. apply (poly_mul_1_l F L). apply val_normal.
    - apply val_inj. apply (poly_distr_l F L).
    - unfold np_eqb. rewrite (poly_eqb_eq F L). split; [apply val_inj|intros ->; reflexivity].
  Qed.

  Lemma np_nonzero (a : NP) : a <> np_zero -> val a <> [].
  Proof. intros N E. apply N. apply val_inj. exact E. Qed.

  Lemma np_integral : integral np_ring.
  Proof.
    split; cbn [rone rzero rmul np_ring].
    - intros E. apply (f_equal val) in E. discriminate E.
    - intros a b E. apply (f_equal val) in E. cbn in E.
      destruct (val a) as [|x f] eqn:Ea; [left; apply val_inj; exact Ea|].
      destruct (val b) as [|y g] eqn:Eb; [right; apply val_inj; exact Eb|]. exfalso.
      rewrite <- Ea, <- Eb in E.
      destruct (mul_nonzero o inv FL (val a) (val b) (val_normal a) (val_normal b)) as [NE _];
        [rewrite Ea; discriminate|rewrite Eb; discriminate|]. exact (NE E).
  Qed.

  Lemma np_unit_laws : unit_laws np_ring (dict_units NPD).
  Proof.
    constructor; cbn [rinv ris_unit rnunit dict_units d_inv d_is_unit d_nunit NPD rmul rone np_ring].
    - intros a b E. apply lift_inv in E. apply val_inj. cbn. apply (inv_mul o inv FL). exact E.
    - intros a. unfold np_is_unit. rewrite (inv_iff_unit o inv FL (val a) (val_normal a)). split.
      + intros [g E]. destruct (lift_some _ (inv_normal o inv FL (val a)) g E) as (b & Eb & _). exists b. exact Eb.
      + intros [b E]. apply lift_inv in E. eauto.
    - intros a b E. apply (f_equal val) in E. cbn in E.
      exact (unit_complete o inv FL (val a) (val b) (val_normal a) (val_normal b) E).
    - intros a. apply (nunit_is_unit o inv FL).
    - intros a. apply val_inj. cbn. apply (nunit_idem o inv FL). apply val_normal.
    - intros a v Uv. apply val_inj. cbn. apply (nunit_assoc o inv FL); [apply val_normal|apply val_normal|exact Uv].
  Qed.

  Lemma pow2_pos n : 0 < 2 ^ Z.of_nat n.
  Proof. apply Z.pow_pos_nonneg; lia. Qed.

  Theorem np_laws : euc_dict_laws NPD np_phi.
  Proof.
    constructor.
    - exact np_ring_laws.
    - exact np_integral.
    - exact np_unit_laws.
    - intros a. unfold np_phi. pose proof (pow2_pos (length (val a))). lia.
    - intros a H. unfold np_phi in H. apply val_inj. cbn.
      destruct (val a) as [|x f]; [reflexivity|]. exfalso. cbn [length] in H.
      rewrite Nat2Z.inj_succ, Z.pow_succ_r in H by lia. pose proof (pow2_pos (length f)). lia.
    - intros b c Nb Nc. unfold np_phi. cbn [d_ring NPD rmul np_ring].
      change (val (np_mul c b)) with (p_mul F (val c) (val b)).
      destruct (mul_nonzero o inv FL (val c) (val b) (val_normal c) (val_normal b) (np_nonzero c Nc) (np_nonzero b Nb))
        as (_ & _ & Hl & _).
      assert (2 ^ Z.of_nat (length (val b)) <= 2 ^ Z.of_nat (length (p_mul F (val c) (val b))))
        by (apply Z.pow_le_mono_r; lia). lia.
    - intros a. cbn [d_div d_rem NPD d_ring rzero np_ring]. unfold np_div, np_rem. split; apply lift_none.
      + apply (proj2 (poly_division_main o inv FL (val a) [] (val_normal a) eq_refl) eq_refl).
      + apply (proj2 (poly_division_main o inv FL (val a) [] (val_normal a) eq_refl) eq_refl).
    - intros a b Nb. cbn [d_div d_rem NPD d_ring rzero radd rmul np_ring].
      destruct (proj1 (poly_division_main o inv FL (val a) (val b) (val_normal a) (val_normal b)) (np_nonzero b Nb))
        as (q0 & r0 & E1 & E2 & _ & Nq & Nr & Eq & Hr).
      unfold np_div, np_rem.
      destruct (lift_some _ (proj1 (div_normal _ _ (val_normal a) (val_normal b))) q0 E1) as (q & -> & Vq).
      destruct (lift_some _ (proj2 (div_normal _ _ (val_normal a) (val_normal b))) r0 E2) as (r & -> & Vr).
      exists q, r. split; [reflexivity|]. split; [reflexivity|]. split.
      + apply val_inj. cbn. rewrite Vq, Vr. exact Eq.
      + unfold np_phi. rewrite Vr.
        assert (Hl : (length r0 < length (val b))%nat).
        { destruct Hr as [->|Hr]; [|exact Hr]. pose proof (np_nonzero b Nb). destruct (val b); [contradiction|cbn; lia]. }
        assert (2 ^ Z.of_nat (S (length r0)) <= 2 ^ Z.of_nat (length (val b))) by (apply Z.pow_le_mono_r; lia).
        rewrite Nat2Z.inj_succ, Z.pow_succ_r in H by lia. lia.
  Qed.

  (* the model's fuel is good for the potential *)
  Lemma np_fuel (b : NP) : good_fuel np_phi (p_fuel (val b)) b.
  Proof.
    unfold good_fuel, p_fuel, np_phi. eexists. split; [reflexivity|].
    rewrite Nat2Z.inj_succ, Z.pow_succ_r by lia. pose proof (pow2_pos (length (val b))). lia.
  Qed.
End PolySigma.

(* ---------- the theorems about the model's functions on plain coefficient lists ---------- *)
Section PolyMain.
  Context {K : Type} (o : ring_ops K) (inv : K -> option K) (FL : field_laws o inv).
  Notation F := (field_dict o inv).
  Notation P := (poly_dict (field_dict o inv)).
  Notation D' := (NPD o inv FL).
  Notation nf := (fun f : list K => p_norm F f = f).
  Let L : ring_laws (d_ring F) := fl_ring o inv FL.
  Let M := np_morph o inv FL.
  Let EL := np_laws o inv FL.

  Lemma mul_norm_l (x y : list K) : p_mul F (p_norm F x) y = p_mul F x y.
  Proof.
    apply (norm_peq F L). intros n. rewrite !(coef_mul_raw F L). apply (conv_ext_l F). intros m. apply (coef_norm F L).
  Qed.

  Lemma dvd_to_list (c a : NP o inv) : dvd D' c a -> exists c1, nf c1 /\ val o inv a = p_mul F c1 (val o inv c).
  Proof. intros [c1 E]. exists (val o inv c1). split; [apply (val_normal o inv FL)|]. rewrite E. reflexivity. Qed.
  Lemma dvd_of_list (c a : NP o inv) c1 : val o inv a = p_mul F c1 (val o inv c) -> dvd D' c a.
  Proof.
    intros E. exists (mk o inv FL (p_norm F c1) (norm_idem F L c1)). apply val_inj.
    change (val o inv a = p_mul F (p_norm F c1) (val o inv c)). rewrite mul_norm_l. exact E.
  Qed.

  Lemma tr_gcd fuel f g Nf Ng :
    gcd P fuel f g = option_map (val o inv) (gcd D' fuel (mk o inv FL f Nf) (mk o inv FL g Ng)).
  Proof. exact (m_gcd D' P _ M fuel (mk o inv FL f Nf) (mk o inv FL g Ng)). Qed.
  Lemma tr_gcdx fuel f g Nf Ng :
    gcdx P fuel f g = option_map (phi3 (val o inv)) (gcdx D' fuel (mk o inv FL f Nf) (mk o inv FL g Ng)).
  Proof. exact (m_gcdx D' P _ M fuel (mk o inv FL f Nf) (mk o inv FL g Ng)). Qed.
  Lemma tr_lcm fuel f g Nf Ng :
    lcm P fuel f g = option_map (val o inv) (lcm D' fuel (mk o inv FL f Nf) (mk o inv FL g Ng)).
  Proof. exact (m_lcm D' P _ M fuel (mk o inv FL f Nf) (mk o inv FL g Ng)). Qed.
  Lemma tr_divides f g Nf Ng : divides P f g = divides D' (mk o inv FL f Nf) (mk o inv FL g Ng).
  Proof. exact (m_divides D' P _ M (mk o inv FL f Nf) (mk o inv FL g Ng)). Qed.
  Lemma tr_normalized f Nf : normalized P f = val o inv (normalized D' (mk o inv FL f Nf)).
  Proof. exact (m_normalized D' P _ M (mk o inv FL f Nf)). Qed.

  Theorem poly_gcd_main (f g : list K) : nf f -> nf g ->
    exists d s t,
      p_gcd F f g = Some d /\ p_gcdx F f g = Some (d, s, t) /\
      nf d /\ nf s /\ nf t /\
      (exists c, nf c /\ f = p_mul F c d) /\ (exists c, nf c /\ g = p_mul F c d) /\
      (forall c, nf c -> (exists c1, f = p_mul F c1 c) -> (exists c2, g = p_mul F c2 c) -> exists c', nf c' /\ d = p_mul F c' c) /\
      p_add F (p_mul F s f) (p_mul F t g) = d /\
      p_nunit F d = p_one F /\
      (d = [] <-> f = [] /\ g = []) /\
      p_gcd F g f = Some d.
  Proof.
    intros Nf Ng. set (a := mk o inv FL f Nf). set (b := mk o inv FL g Ng).
    destruct (gcd_main D' (np_phi o inv) EL (p_fuel g) (p_fuel f) a b (np_fuel o inv b) (np_fuel o inv a))
      as (d & s & t & E1 & E2 & G1 & G2 & G3 & B & N & Z & E3).
    exists (val o inv d), (val o inv s), (val o inv t).
    split. { unfold p_gcd. rewrite (tr_gcd _ f g Nf Ng). fold a b. rewrite E1. reflexivity. }
    split. { unfold p_gcdx. rewrite (tr_gcdx _ f g Nf Ng). fold a b. rewrite E2. reflexivity. }
    split; [apply (val_normal o inv FL)|]. split; [apply (val_normal o inv FL)|]. split; [apply (val_normal o inv FL)|].
    split; [exact (dvd_to_list d a G1)|]. split; [exact (dvd_to_list d b G2)|].
    split.
    { intros c Nc [c1 H1] [c2 H2]. set (c' := mk o inv FL c Nc).
      apply (dvd_to_list c' d). apply G3; [exact (dvd_of_list c' a c1 H1)|exact (dvd_of_list c' b c2 H2)]. }
    split; [exact (f_equal (val o inv) B)|].
    split; [exact (f_equal (val o inv) N)|].
    split.
    { split.
      - intros E. destruct (proj1 Z (val_inj o inv d (np_zero o inv FL) E)) as [Ea Eb].
        split; [exact (f_equal (val o inv) Ea)|exact (f_equal (val o inv) Eb)].
      - intros [Ea Eb]. change (val o inv d = val o inv (np_zero o inv FL)). f_equal. apply Z.
        split; apply val_inj; assumption. }
    unfold p_gcd. rewrite (tr_gcd _ g f Ng Nf). fold a b. rewrite E3. reflexivity.
  Qed.

  Theorem poly_lcm_main (f g : list K) : nf f -> nf g ->
    (f = [] /\ g = [] -> p_lcm F f g = None) /\
    (~ (f = [] /\ g = []) ->
       exists m d, p_lcm F f g = Some m /\ p_gcd F f g = Some d /\ nf m /\
         (exists v, nf v /\ p_is_unit F v = true /\ p_mul F m d = p_mul F (p_mul F f g) v) /\
         p_nunit F m = p_one F).
  Proof.
    intros Nf Ng. set (a := mk o inv FL f Nf). set (b := mk o inv FL g Ng).
    destruct (lcm_main D' (np_phi o inv) EL (p_fuel g) a b (np_fuel o inv b)) as [H0 H1].
    unfold p_lcm, p_gcd. rewrite (tr_lcm _ f g Nf Ng), (tr_gcd _ f g Nf Ng). fold a b. split.
    - intros [Ea Eb]. rewrite H0; [reflexivity|]. split; apply val_inj; assumption.
    - intros NZ. destruct H1 as (m & d & -> & -> & (v & Uv & Ev) & Nm).
      { intros [Ea Eb]. apply NZ. split; [exact (f_equal (val o inv) Ea)|exact (f_equal (val o inv) Eb)]. }
      exists (val o inv m), (val o inv d). split; [reflexivity|]. split; [reflexivity|]. split; [apply (val_normal o inv FL)|].
      split; [|exact (f_equal (val o inv) Nm)].
      exists (val o inv v). split; [apply (val_normal o inv FL)|]. split; [exact Uv|]. exact (f_equal (val o inv) Ev).
  Qed.

  Theorem poly_units_main :
    (forall f, nf f -> (p_is_unit F f = true <-> exists g, p_inv F f = Some g)) /\
    (forall f g, p_inv F f = Some g -> nf g /\ p_mul F f g = p_one F) /\
    (forall f g, nf f -> nf g -> p_mul F f g = p_one F -> p_is_unit F f = true) /\
    (forall f, p_is_unit F (p_nunit F f) = true /\ nf (p_nunit F f)) /\
    (forall f, nf f -> normalized P f = p_mul F f (p_nunit F f)) /\
    (forall f, nf f -> p_nunit F (normalized P f) = p_one F) /\
    (forall f, nf f -> normalized P (normalized P f) = normalized P f) /\
    (forall f v, nf f -> nf v -> p_is_unit F v = true -> normalized P (p_mul F f v) = normalized P f).
  Proof.
    destruct (units_main D' (np_phi o inv) EL) as (_ & _ & _ & _ & U5 & U6 & U7 & U8).
    split; [apply (inv_iff_unit o inv FL)|].
    split; [intros f g H; split; [exact (inv_normal o inv FL f g H)|exact (inv_mul o inv FL f g H)]|].
    split; [apply (unit_complete o inv FL)|].
    split; [intros f; split; [apply (nunit_is_unit o inv FL)|apply (norm_idem F L)]|].
    split.
    { intros f Nf. rewrite (tr_normalized f Nf), (U5 (mk o inv FL f Nf)). reflexivity. }
    split.
    { intros f Nf. rewrite (tr_normalized f Nf). exact (f_equal (val o inv) (U6 (mk o inv FL f Nf))). }
    split.
    { intros f Nf. rewrite (tr_normalized f Nf). rewrite (m_normalized D' P _ M), (U7 (mk o inv FL f Nf)). reflexivity. }
    intros f v Nf Nv Uv. set (a := mk o inv FL f Nf). set (b := mk o inv FL v Nv).
    rewrite (tr_normalized f Nf). fold a.
    change (p_mul F f v) with (val o inv (rmul (d_ring D') a b)).
    rewrite (m_normalized D' P _ M), (U8 a b Uv). reflexivity.
  Qed.

  Theorem poly_divides_main (f g : list K) : nf f -> nf g ->
    exists b, divides P f g = Some b /\ (b = true <-> f <> [] /\ exists c, nf c /\ g = p_mul F c f).
  Proof.
    intros Nf Ng. set (a := mk o inv FL f Nf). set (b := mk o inv FL g Ng).
    destruct (divides_main D' (np_phi o inv) EL a b) as (r & E & H). exists r.
    split. { rewrite (tr_divides f g Nf Ng). exact E. }
    rewrite H. split.
    - intros [Na Dv]. split; [intros Ef; apply Na; apply val_inj; exact Ef|]. exact (dvd_to_list a b Dv).
    - intros [Na [c [_ Ec]]]. split; [intros Ea; apply Na; exact (f_equal (val o inv) Ea)|]. exact (dvd_of_list a b c Ec).
  Qed.
End PolyMain.
