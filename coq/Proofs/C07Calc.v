(* C07, part 2: the executable model (Model/HomologyCalc.v) computes what part 1 (C07Algebra.v) describes.
   Everything is proved for an arbitrary SNF routine [snf] that meets the contract [snf_contract]
   (the specification proved for the mirror of snf.rs in property C09, plus its zero-input shortcut). *)
From Coq Require Import Arith List Lia Ring Bool.
Require Import Yui.Base.Ring Yui.Base.MatF Yui.Base.MatL Yui.Model.HomologyCalc Yui.Proofs.C07Algebra.
Import ListNotations.

Ltac inv_bind H :=
  match type of H with
  | obind ?x _ = Some _ => let E := fresh "E" in destruct x eqn:E; cbn [obind] in H; [|discriminate H]
  end.

Section C07Calc.
  Context {R : Type} (o : ring_ops R) (L : ring_laws o) (Hint : integral o).
  Variable isu : R -> bool.
  Hypothesis isu_complete : forall a b, rmul o a b = rone o -> isu a = true.
  Variable snf : dmat R -> bool -> bool -> bool -> bool -> option (snf_result R).

  Local Notation "0" := (rzero o).
  Local Notation "1" := (rone o).
  Local Infix "+" := (radd o).
  Local Infix "*" := (rmul o).
  Local Notation mg := (mget o).

  Add Ring Rring07c : (ring_theory_of_laws o L).

  Definition mwf (A : dmat R) : Prop := wf (nr A) (nc A) (ent A).

  (* ---------- entries of the dense operations ---------- *)
  Lemma mget_dmk m n f i j : (i < m)%nat -> (j < n)%nat -> mg (dmk m n f) i j = f i j.
  Proof. intros Hi Hj. unfold mget, dmk. cbn [ent]. now apply lget_lmk. Qed.

  Lemma mwf_dmk m n f : mwf (dmk m n f).
  Proof. unfold mwf, dmk. cbn [nr nc ent]. apply wf_lmk. Qed.

  Lemma submat_some A i0 i1 j0 j1 M :
    submat o A i0 i1 j0 j1 = Some M ->
    (i0 <= i1 <= nr A)%nat /\ (j0 <= j1 <= nc A)%nat /\ nr M = (i1 - i0)%nat /\ nc M = (j1 - j0)%nat /\ mwf M /\
    forall i j, (i < i1 - i0)%nat -> (j < j1 - j0)%nat -> mg M i j = mg A (i0 + i)%nat (j0 + j)%nat.
  Proof.
    unfold submat. intros H.
    destruct ((i0 <=? i1) && (i1 <=? nr A) && (j0 <=? j1) && (j1 <=? nc A)) eqn:E; [|discriminate].
    injection H as <-. rewrite !andb_true_iff, !Nat.leb_le in E.
    repeat split; try lia; try apply mwf_dmk.
    intros i j Hi Hj. now rewrite mget_dmk.
  Qed.

  Lemma submat_total A i0 i1 j0 j1 :
    (i0 <= i1 <= nr A)%nat -> (j0 <= j1 <= nc A)%nat -> exists M, submat o A i0 i1 j0 j1 = Some M.
  Proof.
    intros H1 H2. unfold submat.
    replace ((i0 <=? i1) && (i1 <=? nr A) && (j0 <=? j1) && (j1 <=? nc A)) with true; [eexists; reflexivity|].
    symmetry. rewrite !andb_true_iff, !Nat.leb_le. lia.
  Qed.

  Lemma dmul_some A B C :
    dmul o A B = Some C ->
    nc A = nr B /\ nr C = nr A /\ nc C = nc B /\ mwf C /\
    forall i j, (i < nr A)%nat -> (j < nc B)%nat -> mg C i j = mmul o (nc A) (mg A) (mg B) i j.
  Proof.
    unfold dmul. intros H. destruct (nc A =? nr B) eqn:E; [|discriminate].
    injection H as <-. apply Nat.eqb_eq in E.
    repeat split; try assumption; try apply mwf_dmk.
    intros i j Hi Hj. now rewrite mget_dmk.
  Qed.

  Lemma dmul_total A B : nc A = nr B -> exists C, dmul o A B = Some C.
  Proof. intros H. unfold dmul. apply Nat.eqb_eq in H. rewrite H. eexists; reflexivity. Qed.

  Lemma stack_some A B C :
    stack o A B = Some C ->
    nc A = nc B /\ nr C = (nr A + nr B)%nat /\ nc C = nc A /\
    forall i j, (i < nr A + nr B)%nat -> (j < nc A)%nat ->
                mg C i j = if i <? nr A then mg A i j else mg B (i - nr A)%nat j.
  Proof.
    unfold stack. intros H. destruct (nc A =? nc B) eqn:E; [|discriminate].
    injection H as <-. apply Nat.eqb_eq in E.
    repeat split; try assumption.
    intros i j Hi Hj. now rewrite mget_dmk.
  Qed.

  Lemma concat_some A B C :
    concat o A B = Some C ->
    nr A = nr B /\ nr C = nr A /\ nc C = (nc A + nc B)%nat /\
    forall i j, (i < nr A)%nat -> (j < nc A + nc B)%nat ->
                mg C i j = if j <? nc A then mg A i j else mg B i (j - nc A)%nat.
  Proof.
    unfold concat. intros H. destruct (nr A =? nr B) eqn:E; [|discriminate].
    injection H as <-. apply Nat.eqb_eq in E.
    repeat split; try assumption.
    intros i j Hi Hj. now rewrite mget_dmk.
  Qed.

  Lemma d_is_zero_spec A :
    d_is_zero o A = true <-> forall i j, (i < nr A)%nat -> (j < nc A)%nat -> mg A i j = 0.
  Proof.
    unfold d_is_zero. rewrite forallb_forall. split.
    - intros H i j Hi Hj. specialize (H i). rewrite in_seq in H. specialize (H ltac:(lia)).
      rewrite forallb_forall in H. specialize (H j). rewrite in_seq in H. specialize (H ltac:(lia)).
      now apply (reqb_eq o L).
    - intros H i Hi. rewrite in_seq in Hi. apply forallb_forall. intros j Hj. rewrite in_seq in Hj.
      apply (reqb_eq o L). apply H; lia.
  Qed.

  Lemma ris_zero_spec a : ris_zero o a = true <-> a = 0.
  Proof. unfold ris_zero. apply (reqb_eq o L). Qed.

  (* ---------- SnfResult::rank / factors on a diagonal with its non-zero entries first ---------- *)
  Lemma rank_loop_spec D k i :
    let r := rank_loop o D k i in
    (i <= r <= i + k)%nat /\ (forall j, (i <= j < r)%nat -> mg D j j <> 0) /\ ((r < i + k)%nat -> mg D r r = 0).
  Proof.
    revert i. induction k as [|k IH]; intros i; cbn [rank_loop].
    - split; [lia|split]; intros; lia.
    - destruct (ris_zero o (mg D i i)) eqn:E.
      + split; [lia|split]; [intros; lia|]. intros _. now apply ris_zero_spec.
      + specialize (IH (S i)). cbn zeta in IH. destruct IH as [H1 [H2 H3]].
        split; [lia|split].
        * intros j Hj. destruct (Nat.eq_dec j i) as [->|Hne].
          -- intros Z. apply ris_zero_spec in Z. congruence.
          -- apply H2. lia.
        * intros Hlt. apply H3. lia.
  Qed.

  Lemma filter_all {A} (f : A -> bool) l : (forall x, In x l -> f x = true) -> filter f l = l.
  Proof.
    induction l as [|x l IH]; intros H; cbn [filter]; [reflexivity|].
    rewrite (H x (or_introl eq_refl)). f_equal. apply IH. intros y Hy. apply H. now right.
  Qed.
  Lemma filter_none {A} (f : A -> bool) l : (forall x, In x l -> f x = false) -> filter f l = [].
  Proof.
    induction l as [|x l IH]; intros H; cbn [filter]; [reflexivity|].
    rewrite (H x (or_introl eq_refl)). apply IH. intros y Hy. apply H. now right.
  Qed.

  Section RankFactors.
    Variable s : snf_result R.
    Let D := sr_d s.
    Let N := Nat.min (nr D) (nc D).
    Hypothesis nz_first : forall i j, (i <= j)%nat -> (j < N)%nat -> mg D i i = 0 -> mg D j j = 0.

    Lemma sr_rank_spec :
      (sr_rank o s <= N)%nat /\ (forall i, (i < sr_rank o s)%nat -> mg D i i <> 0) /\
      (forall i, (sr_rank o s <= i)%nat -> (i < N)%nat -> mg D i i = 0).
    Proof.
      unfold sr_rank. fold D. fold N.
      destruct (rank_loop_spec D N O) as [H1 [H2 H3]]. cbn zeta in *.
      repeat split; try lia.
      - intros i Hi. apply H2. lia.
      - intros i Hi HN. apply (nz_first (rank_loop o D N 0) i); try assumption. apply H3. lia.
    Qed.

    Lemma sr_factors_spec : sr_factors o s = map (fun i => mg D i i) (seq 0 (sr_rank o s)).
    Proof.
      destruct sr_rank_spec as [H1 [H2 H3]].
      unfold sr_factors. fold D. fold N.
      replace N with (sr_rank o s + (N - sr_rank o s))%nat at 1 by lia.
      rewrite seq_app, map_app, filter_app. cbn [Nat.add].
      rewrite filter_all, filter_none; [apply app_nil_r| |].
      - intros x Hx. apply in_map_iff in Hx. destruct Hx as [i [<- Hi]]. apply in_seq in Hi.
        apply negb_false_iff. apply ris_zero_spec. apply H3; lia.
      - intros x Hx. apply in_map_iff in Hx. destruct Hx as [i [<- Hi]]. apply in_seq in Hi.
        apply negb_true_iff. destruct (ris_zero o (mg D i i)) eqn:E; [|reflexivity].
        apply ris_zero_spec in E. exfalso. apply (H2 i); [lia|assumption].
    Qed.
  End RankFactors.

  (* ---------- units come first on a divisibility chain ---------- *)
  Lemma down_all (f : nat -> bool) r :
    (forall i, (S i < S r)%nat -> f (S i) = true -> f i = true) -> f r = true ->
    forall i, (i <= r)%nat -> f i = true.
  Proof.
    intros Hd Hr.
    assert (H : forall k, (k <= r)%nat -> f (r - k)%nat = true).
    { induction k as [|k IH]; intros Hk.
      - now rewrite Nat.sub_0_r.
      - apply Hd; [lia|]. replace (S (r - S k)) with (r - k)%nat by lia. apply IH. lia. }
    intros i Hi. replace i with (r - (r - i))%nat by lia. apply H. lia.
  Qed.

  Lemma down_closed_split (f : nat -> bool) r :
    (forall i, (S i < r)%nat -> f (S i) = true -> f i = true) ->
    exists u, (u <= r)%nat /\ (forall i, (i < u)%nat -> f i = true) /\ (forall i, (u <= i < r)%nat -> f i = false).
  Proof.
    induction r as [|r IH]; intros Hd.
    - exists O. repeat split; intros; lia.
    - destruct (f r) eqn:Er.
      + exists (S r). repeat split; [lia| |intros; lia].
        intros i Hi. apply (down_all f r Hd Er). lia.
      + destruct (IH ltac:(intros i Hi; apply Hd; lia)) as [u [Hu [H1 H2]]].
        exists u. repeat split; [lia|exact H1|].
        intros i Hi. destruct (Nat.eq_dec i r) as [->|Hne]; [exact Er|apply H2; lia].
  Qed.

  Hypothesis isu_sound : forall a, isu a = true -> exists b, a * b = 1.

  Lemma units_first (a : nat -> R) r :
    (forall i, (S i < r)%nat -> exists c, a (S i) = a i * c) ->
    let tl := non_units isu (map a (seq 0 r)) in
    let t := length tl in
    (t <= r)%nat /\ tl = map a (seq (r - t) t) /\
    (forall i, (i < r - t)%nat -> isu (a i) = true) /\
    (forall i, (r - t <= i < r)%nat -> isu (a i) = false).
  Proof.
    intros Hch.
    destruct (down_closed_split (fun i => isu (a i)) r) as [u [Hu [H1 H2]]].
    { intros i Hi Hs. destruct (Hch i Hi) as [c Hc]. destruct (isu_sound _ Hs) as [b Hb].
      apply isu_complete with (b := c * b). rewrite <- Hb, Hc. ring. }
    assert (E : non_units isu (map a (seq 0 r)) = map a (seq u (r - u))).
    { unfold non_units. replace r with (u + (r - u))%nat at 1 by lia.
      rewrite seq_app, map_app, filter_app. cbn [Nat.add].
      rewrite filter_none, filter_all; [reflexivity| |].
      - intros x Hx. apply in_map_iff in Hx. destruct Hx as [i [<- Hi]]. apply in_seq in Hi.
        apply negb_true_iff. apply H2. lia.
      - intros x Hx. apply in_map_iff in Hx. destruct Hx as [i [<- Hi]]. apply in_seq in Hi.
        apply negb_false_iff. apply H1. lia. }
    cbn zeta. rewrite E, map_length, seq_length.
    replace (r - (r - u))%nat with u by lia.
    repeat split; [lia|assumption|].
    intros i Hi. apply H2. lia.
  Qed.
  (* ======================================================================================== *)
  (* The contract of the SNF routine: what property C09 establishes for the mirror of snf.rs.
     Untracked transformation matrices exist (they are the ones that would have been tracked);
     the last clause is the zero shortcut of SnfCalc::process. *)
  Definition opt_shape (b : bool) (x : option (dmat R)) (k : nat) : Prop :=
    if b then exists M, x = Some M /\ nr M = k /\ nc M = k else x = None.
  Definition opt_agrees (k : nat) (x : option (dmat R)) (F : mat R) : Prop :=
    forall M, x = Some M -> meq k k (mg M) F.

  Definition snf_ok (A : dmat R) (fp fpi fq fqi : bool) (s : snf_result R) : Prop :=
    let m := nr A in
    let n := nc A in
    let D := sr_d s in
    nr D = m /\ nc D = n /\
    opt_shape fp (sr_p s) m /\ opt_shape fpi (sr_pinv s) m /\ opt_shape fq (sr_q s) n /\ opt_shape fqi (sr_qinv s) n /\
    exists P Pi Q Qi : mat R,
      opt_agrees m (sr_p s) P /\ opt_agrees m (sr_pinv s) Pi /\ opt_agrees n (sr_q s) Q /\ opt_agrees n (sr_qinv s) Qi /\
      meq m n (mg D) (mmul o m P (mmul o n (mg A) Q)) /\
      inv_pair o m P Pi /\ inv_pair o n Q Qi /\
      is_diag o m n (mg D) /\
      (forall i j, (i <= j)%nat -> (j < Nat.min m n)%nat -> mg D i i = 0 -> mg D j j = 0) /\
      (forall i, (S i < Nat.min m n)%nat -> exists c, mg D (S i) (S i) = mg D i i * c) /\
      ((forall i j, (i < m)%nat -> (j < n)%nat -> mg A i j = 0) ->
       meq m m P (mid o) /\ meq m m Pi (mid o) /\ meq n n Q (mid o) /\ meq n n Qi (mid o)).

  Definition snf_contract : Prop :=
    forall A fp fpi fq fqi s, mwf A -> snf A fp fpi fq fqi = Some s -> snf_ok A fp fpi fq fqi s.

  (* what the homology computation uses of one SNF call *)
  Record snf_use (A : dmat R) (fp fpi fq fqi : bool) (s : snf_result R) (P Pi Q Qi : mat R) : Prop := mk_use {
    us_nr : nr (sr_d s) = nr A;
    us_nc : nc (sr_d s) = nc A;
    us_smith : smith o (nr A) (nc A) (mg A) P Pi Q Qi (mg (sr_d s)) (sr_rank o s);
    us_sp : opt_shape fp (sr_p s) (nr A);
    us_spi : opt_shape fpi (sr_pinv s) (nr A);
    us_sq : opt_shape fq (sr_q s) (nc A);
    us_sqi : opt_shape fqi (sr_qinv s) (nc A);
    us_ap : opt_agrees (nr A) (sr_p s) P;
    us_api : opt_agrees (nr A) (sr_pinv s) Pi;
    us_aq : opt_agrees (nc A) (sr_q s) Q;
    us_aqi : opt_agrees (nc A) (sr_qinv s) Qi;
    us_chain : forall i, (S i < sr_rank o s)%nat ->
               exists c, mg (sr_d s) (S i) (S i) = mg (sr_d s) i i * c;
    us_factors : sr_factors o s = map (fun i => mg (sr_d s) i i) (seq O (sr_rank o s));
    us_zero : (forall i j, (i < nr A)%nat -> (j < nc A)%nat -> mg A i j = 0) ->
              meq (nr A) (nr A) P (mid o) /\ meq (nr A) (nr A) Pi (mid o) /\
              meq (nc A) (nc A) Q (mid o) /\ meq (nc A) (nc A) Qi (mid o);
  }.

  Lemma snf_ok_use A fp fpi fq fqi s :
    snf_ok A fp fpi fq fqi s -> exists P Pi Q Qi, snf_use A fp fpi fq fqi s P Pi Q Qi.
  Proof.
    intros H. unfold snf_ok in H. cbn zeta in H.
    destruct H as [Hnr [Hnc [Sp [Spi [Sq [Sqi [P [Pi [Q [Qi H]]]]]]]]]].
    destruct H as [Ap [Api [Aq [Aqi [Heq [HP [HQ [Hd [Hnz [Hch Hz]]]]]]]]]].
    exists P, Pi, Q, Qi.
    assert (Hnz' : forall i j, (i <= j)%nat -> (j < Nat.min (nr (sr_d s)) (nc (sr_d s)))%nat ->
                   mg (sr_d s) i i = 0 -> mg (sr_d s) j j = 0).
    { rewrite Hnr, Hnc. exact Hnz. }
    destruct (sr_rank_spec s Hnz') as [R1 [R2 R3]]. rewrite Hnr, Hnc in R1, R3.
    constructor; try assumption.
    - constructor; assumption.
    - intros i Hi. apply Hch. lia.
    - now apply sr_factors_spec.
  Qed.

  (* a Smith form without non-zero entries: the matrix is zero *)
  Lemma smith_rank0_zero m n A P Pi Q Qi D :
    smith o m n A P Pi Q Qi D O -> forall i j, (i < m)%nat -> (j < n)%nat -> A i j = 0.
  Proof.
    intros S i j Hi Hj.
    rewrite <- (mmul_cancel_l o L m Pi P A i j) by (try assumption; apply (sm_P _ _ _ _ _ _ _ _ _ _ S)).
    apply (mmul_zero_col o L). intros l Hl.
    rewrite (smith_PA_entry o L _ _ _ _ _ _ _ _ _ S) by assumption. reflexivity.
  Qed.

  Definition zero_prod (d1 d2 : dmat R) : Prop :=
    meq (nr d2) (nc d1) (mmul o (nr d1) (mg d2) (mg d1)) (mzero o).

  (* ---------- process_snf ---------- *)
  Lemma process_snf_spec d1 d2 wt s1 s2 :
    snf_contract -> mwf d1 -> mwf d2 -> nr d1 = nc d2 -> zero_prod d1 d2 ->
    process_snf o snf d1 d2 wt = Some (s1, s2) ->
    exists (d2r : dmat R) P1 B Q1 Q1i P2 P2i Q2 Q2i,
      snf d1 wt true false false = Some s1 /\ snf d2r false false wt wt = Some s2 /\
      nr d2r = nr d2 /\ nc d2r = (nr d1 - sr_rank o s1)%nat /\
      snf_use d1 wt true false false s1 P1 B Q1 Q1i /\
      snf_use d2r false false wt wt s2 P2 P2i Q2 Q2i /\
      smith o (nr d2) (nr d1 - sr_rank o s1) (d2' o (nr d1) (mg d2) B (sr_rank o s1)) P2 P2i Q2 Q2i
            (mg (sr_d s2)) (sr_rank o s2).
  Proof.
    intros HC W1 W2 Hn Hdd H. unfold process_snf in H.
    inv_bind H. rename s into s1'. 
    pose proof (HC _ _ _ _ _ _ W1 E) as Ok1. apply snf_ok_use in Ok1. destruct Ok1 as [P1 [B [Q1 [Q1i U1]]]].
    set (r1 := sr_rank o s1') in *.
    inv_bind H. rename d into d2r.
    inv_bind H. rename s into s2'. injection H as <- <-.
    assert (Hr1 : (r1 <= nr d1)%nat).
    { pose proof (sm_r _ _ _ _ _ _ _ _ _ _ (us_smith _ _ _ _ _ _ _ _ _ _ U1)). fold r1 in H. lia. }
    (* the matrix handed to the second SNF is d2 * B[:, r1..] *)
    assert (Hd2r : nr d2r = nr d2 /\ nc d2r = (nr d1 - r1)%nat /\ mwf d2r /\
                   meq (nr d2) (nr d1 - r1) (mg d2r) (d2' o (nr d1) (mg d2) B r1)).
    { unfold restrict_d2 in E0. fold r1 in E0. destruct (Nat.ltb_spec O r1) as [Hpos|Hzero].
      - inv_bind E0. rename d into p1inv. inv_bind E0. rename d into t2.
        apply submat_some in E3. destruct E3 as [_ [Hc [T1 [T2 [_ T3]]]]].
        apply dmul_some in E0. destruct E0 as [M1 [M2 [M3 [M4 M5]]]].
        rewrite Nat.sub_0_r in T1.
        split; [congruence|split; [congruence|split; [exact M4|]]].
        intros i j Hi Hj. rewrite M5 by (rewrite ?T2; lia).
        unfold d2'. rewrite <- Hn.
        apply (mmul_ext_r o). intros l Hl. rewrite T3 by lia. cbn [Nat.add].
        unfold Bc. apply (us_api _ _ _ _ _ _ _ _ _ _ U1 _ E2); lia.
      - injection E0 as <-. assert (r1 = O) by lia.
        split; [reflexivity|split; [lia|split; [exact W2|]]].
        intros i j Hi Hj. unfold d2'. rewrite H in *.
        pose proof (us_smith _ _ _ _ _ _ _ _ _ _ U1) as S1. fold r1 in S1. rewrite H in S1.
        destruct (us_zero _ _ _ _ _ _ _ _ _ _ U1 (smith_rank0_zero _ _ _ _ _ _ _ _ S1)) as [_ [HB _]].
        rewrite (mmul_ext_r o (nr d1) _ _ (mid o)).
        + symmetry. apply (mmul_id_r o L). lia.
        + intros l Hl. unfold Bc. cbn [Nat.add]. apply HB; lia. }
    destruct Hd2r as [D1' [D2' [W2r Hmeq]]].
    pose proof (HC _ _ _ _ _ _ W2r E1) as Ok2. apply snf_ok_use in Ok2. destruct Ok2 as [P2 [P2i [Q2 [Q2i U2]]]].
    exists d2r, P1, B, Q1, Q1i, P2, P2i, Q2, Q2i.
    split; [reflexivity|]. split; [exact E1|]. split; [exact D1'|]. split; [exact D2'|].
    split; [exact U1|]. split; [exact U2|].
    pose proof (us_smith _ _ _ _ _ _ _ _ _ _ U2) as S2. rewrite D1', D2' in S2.
    exact (smith_ext o _ _ _ _ _ _ _ _ _ _ Hmeq S2).
  Qed.
  (* ---------- trans: the block assembly ---------- *)
  Ltac inv_guard H G :=
    match type of H with
    | (if negb ?c then None else _) = Some _ => destruct c eqn:G; cbn [negb] in H; [|discriminate H]
    end.

  Lemma calc_trans_spec s1 s2 tr n (P1 B Q2 Q2i : mat R) :
    nr (sr_d s1) = n ->
    opt_agrees n (sr_p s1) P1 -> opt_agrees n (sr_pinv s1) B ->
    opt_agrees (n - sr_rank o s1) (sr_q s2) Q2 -> opt_agrees (n - sr_rank o s1) (sr_qinv s2) Q2i ->
    calc_trans o isu s1 s2 = Some tr ->
    let r1 := sr_rank o s1 in
    let r2 := sr_rank o s2 in
    let t := length (non_units isu (sr_factors o s1)) in
    let r := (n - r1 - r2)%nat in
    exists p q,
      tr = mk_trans n (r + t) [p] [q] /\ nr p = (r + t)%nat /\ nc p = n /\ nr q = n /\ nc q = (r + t)%nat /\
      (t <= r1)%nat /\ (r1 + r2 <= n)%nat /\
      meq (r + t) n (mg p) (pF o n P1 r1 Q2i r2 t) /\
      meq n (r + t) (mg q) (qF o n B r1 Q2 r2 t).
  Proof.
    intros Hn Ap Api Aq Aqi H. cbn zeta. unfold calc_trans in H. rewrite Hn in H.
    set (r1 := sr_rank o s1) in *. set (r2 := sr_rank o s2) in *.
    set (t := length (non_units isu (sr_factors o s1))) in *.
    inv_guard H G1. apply Nat.leb_le in G1.
    inv_bind H. rename d into p1. inv_bind H. rename d into p11.
    inv_bind H. rename d into p2. inv_bind H. rename d into p22.
    inv_bind H. rename d into pfree.
    inv_guard H G2. apply Nat.leb_le in G2.
    inv_bind H. rename d into ptor. inv_bind H. rename d into p.
    inv_guard H G3. apply andb_true_iff in G3. destruct G3 as [G3 G3']. apply Nat.eqb_eq in G3, G3'.
    inv_bind H. rename d into q1. inv_bind H. rename d into q12.
    inv_bind H. rename d into q2. inv_bind H. rename d into q22.
    inv_bind H. rename d into qfree. inv_bind H. rename d into qtor. inv_bind H. rename d into q.
    inv_guard H G4. apply andb_true_iff in G4. destruct G4 as [G4 G4']. apply Nat.eqb_eq in G4, G4'.
    unfold submat_rows, submat_cols in *.
    apply submat_some in E0. destruct E0 as [A1 [A2 [A3 [A4 [_ A5]]]]].
    apply submat_some in E2. destruct E2 as [B1 [B2 [B3 [B4 [_ B5]]]]].
    apply dmul_some in E3. destruct E3 as [C1 [C2 [C3 [_ C5]]]].
    apply submat_some in E4. destruct E4 as [D1 [D2 [D3 [D4 [_ D5]]]]].
    apply stack_some in E5. destruct E5 as [F1 [F2 [F3 F5]]].
    apply submat_some in E7. destruct E7 as [A1' [A2' [A3' [A4' [_ A5']]]]].
    apply submat_some in E9. destruct E9 as [B1' [B2' [B3' [B4' [_ B5']]]]].
    apply dmul_some in E10. destruct E10 as [C1' [C2' [C3' [_ C5']]]].
    apply submat_some in E11. destruct E11 as [D1' [D2' [D3' [D4' [_ D5']]]]].
    apply concat_some in E12. destruct E12 as [F1' [F2' [F3' F5']]].
    rewrite Nat.sub_0_r in *.
    unfold trans_new, trans_append in H. cbn [tgt_dim trans_id src_dim f_mats b_mats app] in H.
    destruct ((nc p =? nr q) && (nr p =? nc q) && (nc p =? nc p)) eqn:G5; [|discriminate].
    injection H as <-.
    exists p, q.
    split; [now rewrite G3, G3'|]. split; [exact G3|]. split; [exact G3'|]. split; [exact G4|]. split; [exact G4'|].
    split; [exact G2|]. split; [exact G1|].
    assert (Hnp1 : nc p1 = n) by congruence.
    assert (Hnq1 : nr q1 = n) by congruence.
    assert (Hp2c : nc p2 = (n - r1)%nat) by congruence.
    assert (Hq2r : nr q2 = (n - r1)%nat) by congruence.
    split.
    - (* p *)
      intros i j Hi Hj. rewrite F5 by lia. rewrite C2, B3.
      unfold pF, Vi, sg.
      destruct (Nat.ltb_spec i (n - r1 - r2)) as [Hir|Hir].
      + destruct (Nat.ltb_spec (r2 + i) (n - r1)); [|lia].
        rewrite C5 by lia. rewrite B4, Hp2c. unfold mmul. apply (sum_ext o). intros l Hl.
        rewrite B5, A5 by lia. cbn [Nat.add]. unfold P1r.
        rewrite (Aqi _ eq_refl) by lia. rewrite (Ap _ eq_refl) by lia. reflexivity.
      + destruct (Nat.ltb_spec (n - r1 + (r1 - t) + (i - (n - r1 - r2))) (n - r1)); [lia|].
        rewrite D5 by lia. cbn [Nat.add]. rewrite (Ap _ eq_refl) by lia.
        f_equal. lia.
    - (* q *)
      intros i j Hi Hj. rewrite F5' by lia. rewrite C3', B4'.
      unfold qF, V, sg.
      destruct (Nat.ltb_spec j (n - r1 - r2)) as [Hjr|Hjr].
      + destruct (Nat.ltb_spec (r2 + j) (n - r1)); [|lia].
        rewrite C5' by lia. rewrite A4'. unfold mmul. apply (sum_ext o). intros l Hl.
        rewrite A5', B5' by lia. cbn [Nat.add]. unfold Bc.
        rewrite (Api _ eq_refl) by lia. rewrite (Aq _ eq_refl) by lia. reflexivity.
      + destruct (Nat.ltb_spec (n - r1 + (r1 - t) + (j - (n - r1 - r2))) (n - r1)); [lia|].
        rewrite D5' by lia. cbn [Nat.add]. rewrite (Api _ eq_refl) by lia.
        f_equal. lia.
  Qed.
  (* ---------- calculate: the non-trivial path ---------- *)
  Lemma calculate_core d1 d2 wt rank tors tr :
    snf_contract -> mwf d1 -> mwf d2 -> zero_prod d1 d2 ->
    calculate o isu snf d1 d2 wt = Some (rank, tors, tr) ->
    d_is_zero o d1 && d_is_zero o d2 = false ->
    nr d1 = nc d2 /\
    exists s1 s2 P1 B Q1 Q1i P2 P2i Q2 Q2i,
      let n := nr d1 in
      let r1 := sr_rank o s1 in
      let r2 := sr_rank o s2 in
      let D1 := mg (sr_d s1) in
      let t := length tors in
      smith o n (nc d1) (mg d1) P1 B Q1 Q1i D1 r1 /\
      smith o (nr d2) (n - r1) (d2' o n (mg d2) B r1) P2 P2i Q2 Q2i (mg (sr_d s2)) r2 /\
      (forall i, (S i < r1)%nat -> exists c, D1 (S i) (S i) = D1 i i * c) /\
      (r1 + r2 <= n)%nat /\ rank = (n - r1 - r2)%nat /\
      tors = non_units isu (map (fun i => D1 i i) (seq O r1)) /\
      (wt = false -> tr = None) /\
      (wt = true -> exists p q,
         tr = Some (mk_trans n (rank + t) [p] [q]) /\
         nr p = (rank + t)%nat /\ nc p = n /\ nr q = n /\ nc q = (rank + t)%nat /\ (t <= r1)%nat /\
         meq (rank + t) n (mg p) (pF o n P1 r1 Q2i r2 t) /\
         meq n (rank + t) (mg q) (qF o n B r1 Q2 r2 t)).
  Proof.
    intros HC W1 W2 Hdd H Hz. unfold calculate in H.
    destruct (nr d1 =? nc d2) eqn:En; cbn [negb] in H; [|discriminate].
    apply Nat.eqb_eq in En. split; [exact En|].
    rewrite Hz in H.
    inv_bind H. destruct p as [s1 s2]. cbn [fst snd] in H.
    destruct (process_snf_spec d1 d2 wt s1 s2 HC W1 W2 En Hdd E)
      as [d2r [P1 [B [Q1 [Q1i [P2 [P2i [Q2 [Q2i [Es1 [Es2 [Hr1 [Hr2 [U1 [U2 S2]]]]]]]]]]]]]]].
    exists s1, s2, P1, B, Q1, Q1i, P2, P2i, Q2, Q2i. cbn zeta.
    pose proof (us_smith _ _ _ _ _ _ _ _ _ _ U1) as S1.
    inv_bind H. destruct p as [rk ts]. cbn [fst snd] in H.
    unfold result in E0. rewrite (us_nr _ _ _ _ _ _ _ _ _ _ U1) in E0.
    destruct (sr_rank o s1 + sr_rank o s2 <=? nr d1) eqn:G; [|discriminate].
    apply Nat.leb_le in G. injection E0 as <- <-.
    rewrite (us_factors _ _ _ _ _ _ _ _ _ _ U1) in H.
    split; [exact S1|]. split; [exact S2|]. split; [apply (us_chain _ _ _ _ _ _ _ _ _ _ U1)|].
    split; [exact G|].
    destruct wt.
    - inv_bind H. injection H as <- <- <-.
      split; [reflexivity|]. split; [reflexivity|].
      split; [discriminate|]. intros _.
      assert (Aq : opt_agrees (nr d1 - sr_rank o s1) (sr_q s2) Q2).
      { rewrite <- Hr2. apply (us_aq _ _ _ _ _ _ _ _ _ _ U2). }
      assert (Aqi : opt_agrees (nr d1 - sr_rank o s1) (sr_qinv s2) Q2i).
      { rewrite <- Hr2. apply (us_aqi _ _ _ _ _ _ _ _ _ _ U2). }
      pose proof (calc_trans_spec s1 s2 t (nr d1) P1 B Q2 Q2i (us_nr _ _ _ _ _ _ _ _ _ _ U1)
                    (us_ap _ _ _ _ _ _ _ _ _ _ U1) (us_api _ _ _ _ _ _ _ _ _ _ U1) Aq Aqi E0) as HT.
      cbn zeta in HT. rewrite (us_factors _ _ _ _ _ _ _ _ _ _ U1) in HT.
      destruct HT as [p [q [T1 [T2 [T3 [T4 [T5 [T6 [T7 [T8 T9]]]]]]]]]].
      exists p, q. rewrite T1.
      repeat (split; [first [reflexivity|assumption]|]). assumption.
    - injection H as <- <- <-.
      split; [reflexivity|]. split; [reflexivity|].
      split; [reflexivity|discriminate].
  Qed.
  (* ---------- the trivial path ---------- *)
  Lemma inv_pair_id k : inv_pair o k (mid o) (mid o).
  Proof. split; intros i j Hi Hj; now apply (mmul_id_l o L). Qed.

  Lemma zero_smith_form m n (A : mat R) :
    (forall i j, (i < m)%nat -> (j < n)%nat -> A i j = 0) -> smith_form o m n A O (fun _ => 0).
  Proof.
    intros HA. exists (mid o), (mid o), (mid o), (mid o).
    split; [apply inv_pair_id|]. split; [apply inv_pair_id|].
    split; [|split; [intros; lia|lia]].
    intros i j Hi Hj. rewrite (mmul_id_l o L) by assumption. rewrite (mmul_id_r o L) by assumption.
    rewrite HA by assumption. destruct (i =? j); reflexivity.
  Qed.

  (* ======================================================================================== *)
  (* rank and torsion *)
  Theorem calculate_rank_tors d1 d2 wt rank tors tr :
    snf_contract -> mwf d1 -> mwf d2 -> zero_prod d1 d2 ->
    calculate o isu snf d1 d2 wt = Some (rank, tors, tr) ->
    nr d1 = nc d2 /\
    exists (r1 r2 : nat) (a b : nat -> R) (t : nat),
      smith_form o (nr d1) (nc d1) (mg d1) r1 a /\
      smith_form o (nr d2) (nc d2) (mg d2) r2 b /\
      (rank + r1 + r2 = nr d1)%nat /\
      (forall i, (S i < r1)%nat -> exists c, a (S i) = a i * c) /\
      tors = non_units isu (map a (seq O r1)) /\
      t = length tors /\ (t <= r1)%nat /\ tors = map a (seq (r1 - t) t) /\
      (forall i, (i < r1 - t)%nat -> isu (a i) = true) /\
      (forall i, (r1 - t <= i < r1)%nat -> isu (a i) = false).
  Proof.
    intros HC W1 W2 Hdd H.
    destruct (d_is_zero o d1 && d_is_zero o d2) eqn:Hz.
    - (* both maps are zero *)
      unfold calculate in H.
      destruct (nr d1 =? nc d2) eqn:En; cbn [negb] in H; [|discriminate].
      apply Nat.eqb_eq in En. split; [exact En|].
      rewrite Hz in H. injection H as <- <- _.
      apply andb_true_iff in Hz. destruct Hz as [Z1 Z2].
      rewrite d_is_zero_spec in Z1, Z2.
      exists O, O, (fun _ => 0), (fun _ => 0), O.
      split; [now apply zero_smith_form|]. split; [now apply zero_smith_form|].
      split; [lia|]. split; [intros; lia|].
      split; [reflexivity|]. split; [reflexivity|]. split; [lia|]. split; [reflexivity|].
      split; intros; lia.
    - destruct (calculate_core d1 d2 wt rank tors tr HC W1 W2 Hdd H Hz)
        as [En [s1 [s2 [P1 [B [Q1 [Q1i [P2 [P2i [Q2 [Q2i HH]]]]]]]]]]].
      cbn zeta in HH. destruct HH as [S1 [S2 [Hch [Hle [Hrk [Htors _]]]]]].
      split; [exact En|].
      exists (sr_rank o s1), (sr_rank o s2), (fun i => mg (sr_d s1) i i), (fun i => mg (sr_d s2) i i), (length tors).
      split; [exact (smith_to_form o _ _ _ _ _ _ _ _ _ S1)|].
      split.
      { rewrite <- En. exact (smith_form_d2 o L Hint _ _ _ _ _ Hdd _ _ _ _ _ _ S1 _ _ _ _ _ _ S2). }
      split; [lia|]. split; [exact Hch|]. split; [exact Htors|]. split; [reflexivity|].
      pose proof (units_first (fun i => mg (sr_d s1) i i) (sr_rank o s1) Hch) as HU.
      cbn zeta in HU. rewrite <- Htors in HU. exact HU.
  Qed.
  (* ======================================================================================== *)
  (* generators and coordinates *)
  Lemma mget_d_id n i j : (i < n)%nat -> (j < n)%nat -> mg (d_id o n) i j = mid o i j.
  Proof. intros Hi Hj. unfold d_id. now rewrite mget_dmk. Qed.

  Lemma mvec_ext_l n (A A' : mat R) v i :
    (forall l, (l < n)%nat -> A i l = A' i l) -> mvec o n A v i = mvec o n A' v i.
  Proof. intros H. unfold mvec. apply (sum_ext o). intros l Hl. now rewrite H. Qed.

  Definition gens_ok (d1 d2 : dmat R) (rank : nat) (tors : list R) (p q : dmat R) : Prop :=
    let h := (rank + length tors)%nat in
    let n := nr d1 in
    nr p = h /\ nc p = n /\ nr q = n /\ nc q = h /\
    (* the generators are cycles *)
    meq (nr d2) h (mmul o n (mg d2) (mg q)) (mzero o) /\
    (* their coordinates are the standard basis *)
    meq h h (mmul o n (mg p) (mg q)) (mid o) /\
    (* every boundary has coordinates 0 (free part) / multiples of the torsion orders (torsion part) *)
    (forall (x : nat -> R) i, (i < h)%nat ->
       let y := mvec o n (mg p) (mvec o (nc d1) (mg d1) x) in
       ((i < rank)%nat -> y i = 0) /\
       ((rank <= i)%nat -> exists c, y i = nth (i - rank) tors 0 * c)).

  Theorem calculate_generators d1 d2 rank tors tr :
    snf_contract -> mwf d1 -> mwf d2 -> zero_prod d1 d2 ->
    calculate o isu snf d1 d2 true = Some (rank, tors, tr) ->
    exists t p q,
      tr = Some t /\ forward_mat o t = Some p /\ backward_mat o t = Some q /\
      src_dim t = nr d1 /\ tgt_dim t = (rank + length tors)%nat /\
      gens_ok d1 d2 rank tors p q.
  Proof.
    intros HC W1 W2 Hdd H.
    destruct (d_is_zero o d1 && d_is_zero o d2) eqn:Hz.
    - unfold calculate in H.
      destruct (nr d1 =? nc d2) eqn:En; cbn [negb] in H; [|discriminate].
      apply Nat.eqb_eq in En. rewrite Hz in H. injection H as <- <- <-.
      apply andb_true_iff in Hz. destruct Hz as [Z1 Z2]. rewrite d_is_zero_spec in Z1, Z2.
      exists (trans_id (nr d1)), (d_id o (nr d1)), (d_id o (nr d1)).
      cbn [length]. rewrite Nat.add_0_r.
      split; [reflexivity|]. split; [reflexivity|]. split; [reflexivity|]. split; [reflexivity|]. split; [reflexivity|].
      unfold gens_ok. cbn zeta. cbn [length]. rewrite Nat.add_0_r.
      split; [reflexivity|]. split; [reflexivity|]. split; [reflexivity|]. split; [reflexivity|].
      split; [|split].
      + intros i j Hi Hj. unfold mzero. apply (mmul_zero_row o L). intros l Hl. apply Z2; [assumption|lia].
      + intros i j Hi Hj. rewrite (mmul_ext_l o _ _ (mid o)) by (intros; now apply mget_d_id).
        rewrite (mmul_id_l o L) by assumption. now apply mget_d_id.
      + intros x i Hi. split; [|intros; lia]. intros _.
        unfold mvec at 1. apply (sum_zero_ext o L). intros l Hl.
        unfold mvec. rewrite (sum_zero_ext o L); [ring|]. intros l' Hl'. rewrite Z1 by assumption. ring.
    - destruct (calculate_core d1 d2 true rank tors tr HC W1 W2 Hdd H Hz)
        as [En [s1 [s2 [P1 [B [Q1 [Q1i [P2 [P2i [Q2 [Q2i HH]]]]]]]]]]].
      cbn zeta in HH. destruct HH as [S1 [S2 [Hch [Hle [Hrk [Htors [_ HT]]]]]]].
      destruct (HT eq_refl) as [p [q [T1 [T2 [T3 [T4 [T5 [T6 [T7 T8]]]]]]]]].
      exists (mk_trans (nr d1) (rank + length tors) [p] [q]), p, q.
      split; [exact T1|]. split; [reflexivity|]. split; [reflexivity|]. split; [reflexivity|]. split; [reflexivity|].
      unfold gens_ok. cbn zeta.
      split; [exact T2|]. split; [exact T3|]. split; [exact T4|]. split; [exact T5|].
      set (t := length tors) in *. set (r1 := sr_rank o s1) in *. set (r2 := sr_rank o s2) in *.
      set (n := nr d1) in *.
      assert (Hrk' : (rank + t = n - r1 - r2 + t)%nat) by lia.
      split; [|split].
      + intros i j Hi Hj.
        rewrite (mmul_ext_r o n _ _ (qF o n B r1 Q2 r2 t)) by (intros l Hl; now apply T8).
        apply (gen_cycles o L Hint _ _ _ _ _ Hdd _ _ _ _ _ _ S1 _ _ _ _ _ _ S2 t T6); [assumption|lia].
      + intros i j Hi Hj.
        rewrite (mmul_ext_l o n _ (pF o n P1 r1 Q2i r2 t)) by (intros l Hl; now apply T7).
        rewrite (mmul_ext_r o n _ _ (qF o n B r1 Q2 r2 t)) by (intros l Hl; now apply T8).
        apply (gen_coords o L _ _ _ _ _ _ _ _ _ _ _ S1 _ _ _ _ _ _ S2 t T6); lia.
      + intros x i Hi. cbn zeta.
        rewrite (mvec_ext_l n _ (pF o n P1 r1 Q2i r2 t)) by (intros l Hl; now apply T7).
        rewrite (gen_boundary o L _ _ _ _ _ _ _ _ _ _ _ S1 _ _ _ _ _ _ S2 t T6) by lia.
        rewrite <- Hrk.
        split.
        * intros Hlt. destruct (Nat.ltb_spec i rank); [reflexivity|lia].
        * intros Hge. destruct (Nat.ltb_spec i rank); [lia|].
          eexists. f_equal.
          pose proof (units_first (fun k => mg (sr_d s1) k k) r1 Hch) as HU.
          cbn zeta in HU. rewrite <- Htors in HU. fold t in HU.
          destruct HU as [_ [HU _]]. rewrite HU.
          rewrite nth_indep with (d' := mg (sr_d s1) O O) by (rewrite map_length, seq_length; lia).
          rewrite (map_nth (fun k => mg (sr_d s1) k k)), seq_nth by lia. reflexivity.
  Qed.
  (* ======================================================================================== *)
  (* completeness: the generators span, and the coordinates detect the boundaries *)
  Lemma finite_choice {A : Type} (P : nat -> A -> Prop) (d : A) N :
    (forall l, (l < N)%nat -> exists a, P l a) -> exists f : nat -> A, forall l, (l < N)%nat -> P l (f l).
  Proof.
    induction N as [|N IH]; intros H.
    - exists (fun _ => d). intros l Hl. lia.
    - destruct (IH ltac:(intros l Hl; apply H; lia)) as [f Hf].
      destruct (H N ltac:(lia)) as [a Ha].
      exists (fun l => if l =? N then a else f l). intros l Hl.
      destruct (Nat.eqb_spec l N) as [->|Hne]; [exact Ha|apply Hf; lia].
  Qed.

  Definition complete_ok (d1 d2 : dmat R) (rank : nat) (tors : list R) (p q : dmat R) : Prop :=
    let h := (rank + length tors)%nat in
    let n := nr d1 in
    forall z : nat -> R,
      (forall i, (i < nr d2)%nat -> mvec o n (mg d2) z i = 0) ->              (* z is a cycle *)
      (* z is homologous to the combination of the generators given by its coordinates *)
      (exists x : nat -> R, forall i, (i < n)%nat ->
         z i = mvec o h (mg q) (mvec o n (mg p) z) i + mvec o (nc d1) (mg d1) x i) /\
      (* and z is a boundary as soon as its coordinates vanish modulo the torsion orders *)
      ((forall i, (i < rank)%nat -> mvec o n (mg p) z i = 0) ->
       (forall s, (s < length tors)%nat -> exists c, mvec o n (mg p) z (rank + s)%nat = nth s tors 0 * c) ->
       exists x : nat -> R, forall i, (i < n)%nat -> z i = mvec o (nc d1) (mg d1) x i).

  Theorem calculate_complete d1 d2 rank tors tr :
    snf_contract -> mwf d1 -> mwf d2 -> zero_prod d1 d2 ->
    calculate o isu snf d1 d2 true = Some (rank, tors, tr) ->
    exists t p q,
      tr = Some t /\ forward_mat o t = Some p /\ backward_mat o t = Some q /\
      complete_ok d1 d2 rank tors p q.
  Proof.
    intros HC W1 W2 Hdd H.
    destruct (d_is_zero o d1 && d_is_zero o d2) eqn:Hz.
    - unfold calculate in H.
      destruct (nr d1 =? nc d2) eqn:En; cbn [negb] in H; [|discriminate].
      apply Nat.eqb_eq in En. rewrite Hz in H. injection H as <- <- <-.
      apply andb_true_iff in Hz. destruct Hz as [Z1 Z2]. rewrite d_is_zero_spec in Z1, Z2.
      exists (trans_id (nr d1)), (d_id o (nr d1)), (d_id o (nr d1)).
      split; [reflexivity|]. split; [reflexivity|]. split; [reflexivity|].
      unfold complete_ok. cbn zeta. cbn [length]. rewrite Nat.add_0_r.
      intros z Hzc.
      assert (Eid : forall (v : nat -> R) i, (i < nr d1)%nat -> mvec o (nr d1) (mg (d_id o (nr d1))) v i = v i).
      { intros v i Hi. rewrite (mvec_ext_row o _ (mid o)) by (intros l Hl; now apply mget_d_id).
        now apply (mvec_id o L). }
      assert (Ed1 : forall (x : nat -> R) i, (i < nr d1)%nat -> mvec o (nc d1) (mg d1) x i = 0).
      { intros x i Hi. unfold mvec. apply (sum_zero_ext o L). intros l Hl. rewrite Z1 by assumption. ring. }
      split.
      + exists (fun _ => 0). intros i Hi. rewrite Eid by assumption.
        rewrite Eid by assumption. rewrite Ed1 by assumption. ring.
      + intros Hfree _. exists (fun _ => 0). intros i Hi. rewrite Ed1 by assumption.
        rewrite <- (Eid z i Hi). now apply Hfree.
    - destruct (calculate_core d1 d2 true rank tors tr HC W1 W2 Hdd H Hz)
        as [En [s1 [s2 [P1 [B [Q1 [Q1i [P2 [P2i [Q2 [Q2i HH]]]]]]]]]]].
      cbn zeta in HH. destruct HH as [S1 [S2 [Hch [Hle [Hrk [Htors [_ HT]]]]]]].
      destruct (HT eq_refl) as [p [q [T1 [T2 [T3 [T4 [T5 [T6 [T7 T8]]]]]]]]].
      exists (mk_trans (nr d1) (rank + length tors) [p] [q]), p, q.
      split; [exact T1|]. split; [reflexivity|]. split; [reflexivity|].
      set (t := length tors) in *. set (r1 := sr_rank o s1) in *. set (r2 := sr_rank o s2) in *.
      set (n := nr d1) in *.
      pose proof (units_first (fun k => mg (sr_d s1) k k) r1 Hch) as HU.
      cbn zeta in HU. rewrite <- Htors in HU. fold t in HU.
      destruct HU as [_ [HU1 [HU2 _]]].
      (* inverses of the unit entries *)
      destruct (finite_choice (fun l u => mg (sr_d s1) l l * u = 1) 0 (r1 - t)) as [uinv Hu].
      { intros l Hl. apply isu_sound. now apply HU2. }
      unfold complete_ok. cbn zeta. fold t. fold n.
      intros z Hzc.
      assert (Ep : forall i, (i < rank + t)%nat ->
                 mvec o n (mg p) z i = mvec o n (pF o n P1 r1 Q2i r2 t) z i).
      { intros i Hi. apply mvec_ext_row. intros l Hl. now apply T7. }
      assert (Eq : forall i, (i < n)%nat ->
                 mvec o (rank + t) (mg q) (mvec o n (mg p) z) i
                 = mvec o (n - r1 - r2 + t) (qF o n B r1 Q2 r2 t) (mvec o n (pF o n P1 r1 Q2i r2 t) z) i).
      { intros i Hi. rewrite <- Hrk.
        rewrite (mvec_ext_row o _ (qF o n B r1 Q2 r2 t)) by (intros l Hl; now apply T8).
        apply mvec_ext. intros l Hl. now apply Ep. }
      split.
      + destruct (cycle_decomp o L Hint _ _ _ _ _ Hdd _ _ _ _ _ _ S1 _ _ _ _ _ _ S2 t T6 uinv Hu z Hzc) as [x Hx].
        exists x. intros i Hi. rewrite Eq by assumption. now apply Hx.
      + intros Hfree Htor.
        destruct (finite_choice (fun s c => mvec o n (mg p) z (rank + s)%nat = nth s tors 0 * c) 0 t Htor) as [cf Hcf].
        apply (cycle_boundary o L Hint _ _ _ _ _ Hdd _ _ _ _ _ _ S1 _ _ _ _ _ _ S2 t T6 uinv Hu z Hzc cf).
        * intros i Hi. fold n. rewrite <- Ep by lia. apply Hfree. lia.
        * intros s Hs. fold n. rewrite <- Hrk. rewrite <- Ep by lia. rewrite Hcf by assumption.
          f_equal. rewrite HU1.
          rewrite nth_indep with (d' := mg (sr_d s1) O O) by (rewrite map_length, seq_length; lia).
          rewrite (map_nth (fun k => mg (sr_d s1) k k)), seq_nth by lia. reflexivity.
  Qed.
  (* ======================================================================================== *)
  (* totality: under the contract no assert of the homology code fires - [calculate] is [None] only when
     the shapes do not match or one of the two SNF calls is [None] *)
  Lemma submat_ok A i0 i1 j0 j1 :
    (i0 <= i1 <= nr A)%nat -> (j0 <= j1 <= nc A)%nat ->
    exists M, submat o A i0 i1 j0 j1 = Some M /\ nr M = (i1 - i0)%nat /\ nc M = (j1 - j0)%nat.
  Proof.
    intros H1 H2. destruct (submat_total A i0 i1 j0 j1 H1 H2) as [M HM].
    exists M. split; [exact HM|]. apply submat_some in HM. tauto.
  Qed.

  Lemma dmul_ok A B : nc A = nr B -> exists C, dmul o A B = Some C /\ nr C = nr A /\ nc C = nc B.
  Proof.
    intros H. destruct (dmul_total A B H) as [C HC]. exists C. split; [exact HC|].
    apply dmul_some in HC. tauto.
  Qed.

  Lemma stack_ok A B : nc A = nc B -> exists C, stack o A B = Some C /\ nr C = (nr A + nr B)%nat /\ nc C = nc A.
  Proof.
    intros H. unfold stack. apply Nat.eqb_eq in H. rewrite H. eexists. split; [reflexivity|]. split; reflexivity.
  Qed.

  Lemma concat_ok A B : nr A = nr B -> exists C, concat o A B = Some C /\ nr C = nr A /\ nc C = (nc A + nc B)%nat.
  Proof.
    intros H. unfold concat. apply Nat.eqb_eq in H. rewrite H. eexists. split; [reflexivity|]. split; reflexivity.
  Qed.

  Lemma non_units_length l : (length (non_units isu l) <= length l)%nat.
  Proof.
    unfold non_units. induction l as [|x l IH]; cbn [filter length]; [lia|].
    destruct (negb (isu x)); cbn [length]; lia.
  Qed.

  Lemma restrict_d2_total d1 d2 wt s1 :
    snf_contract -> mwf d1 -> nr d1 = nc d2 ->
    snf d1 wt true false false = Some s1 ->
    exists d2r, restrict_d2 o (nr d1) s1 d2 = Some d2r /\ nr d2r = nr d2 /\ nc d2r = (nr d1 - sr_rank o s1)%nat /\
                (mwf d2 -> mwf d2r).
  Proof.
    intros HC W1 Hn E. pose proof (HC _ _ _ _ _ _ W1 E) as Ok1. apply snf_ok_use in Ok1.
    destruct Ok1 as [P1 [B [Q1 [Q1i U1]]]].
    pose proof (sm_r _ _ _ _ _ _ _ _ _ _ (us_smith _ _ _ _ _ _ _ _ _ _ U1)) as Hr.
    unfold restrict_d2. destruct (Nat.ltb_spec O (sr_rank o s1)) as [Hpos|Hzero].
    - destruct (us_spi _ _ _ _ _ _ _ _ _ _ U1) as [p1inv [Ep [Hp1 Hp2]]]. rewrite Ep. cbn [obind].
      unfold submat_cols.
      destruct (submat_ok p1inv O (nr p1inv) (sr_rank o s1) (nr d1)) as [t2 [Et [T1 T2]]]; [lia|lia|].
      rewrite Et. cbn [obind].
      destruct (dmul_ok d2 t2) as [C [EC [C1 C2]]]; [lia|].
      exists C. split; [exact EC|]. split; [exact C1|]. split; [lia|].
      intros _. apply dmul_some in EC. tauto.
    - exists d2. split; [reflexivity|]. split; [reflexivity|]. split; [lia|]. tauto.
  Qed.

  Theorem calculate_total d1 d2 wt s1 d2r s2 :
    snf_contract -> mwf d1 -> mwf d2 -> nr d1 = nc d2 ->
    snf d1 wt true false false = Some s1 ->
    restrict_d2 o (nr d1) s1 d2 = Some d2r ->
    snf d2r false false wt wt = Some s2 ->
    exists res, calculate o isu snf d1 d2 wt = Some res.
  Proof.
    intros HC W1 W2 Hn E1 Er E2.
    unfold calculate. apply Nat.eqb_eq in Hn. rewrite Hn. cbn [negb]. apply Nat.eqb_eq in Hn.
    destruct (d_is_zero o d1 && d_is_zero o d2); [eexists; reflexivity|].
    unfold process_snf. rewrite E1. cbn [obind]. rewrite Er. cbn [obind]. rewrite E2. cbn [obind fst snd].
    destruct (restrict_d2_total d1 d2 wt s1 HC W1 Hn E1) as [d2r' [Er' [Hk [Hc Hw]]]].
    rewrite Er in Er'. injection Er' as <-.
    pose proof (HC _ _ _ _ _ _ W1 E1) as Ok1. apply snf_ok_use in Ok1. destruct Ok1 as [P1 [B [Q1 [Q1i U1]]]].
    pose proof (HC _ _ _ _ _ _ (Hw W2) E2) as Ok2. apply snf_ok_use in Ok2. destruct Ok2 as [P2 [P2i [Q2 [Q2i U2]]]].
    pose proof (sm_r _ _ _ _ _ _ _ _ _ _ (us_smith _ _ _ _ _ _ _ _ _ _ U1)) as Hr1.
    pose proof (sm_r _ _ _ _ _ _ _ _ _ _ (us_smith _ _ _ _ _ _ _ _ _ _ U2)) as Hr2.
    rewrite Hc in Hr2.
    set (r1 := sr_rank o s1) in *. set (r2 := sr_rank o s2) in *. set (n := nr d1) in *.
    assert (G : (r1 + r2 <=? n) = true) by (apply Nat.leb_le; lia).
    unfold result. rewrite (us_nr _ _ _ _ _ _ _ _ _ _ U1). fold r1 r2 n. rewrite G. cbn [obind fst snd].
    destruct wt; [|eexists; reflexivity].
    (* trans: every range, product and block assembly is well-shaped *)
    unfold calc_trans. rewrite (us_nr _ _ _ _ _ _ _ _ _ _ U1). fold r1 r2 n. rewrite G. cbn [negb].
    set (t := length (non_units isu (sr_factors o s1))).
    assert (Ht : (t <= r1)%nat).
    { unfold t. rewrite (us_factors _ _ _ _ _ _ _ _ _ _ U1). fold r1.
      etransitivity; [apply non_units_length|]. now rewrite map_length, seq_length. }
    destruct (us_sp _ _ _ _ _ _ _ _ _ _ U1) as [p1 [Ep1 [Hp1 Hp1']]]. fold n in Hp1, Hp1'.
    destruct (us_spi _ _ _ _ _ _ _ _ _ _ U1) as [q1 [Eq1 [Hq1 Hq1']]]. fold n in Hq1, Hq1'.
    destruct (us_sq _ _ _ _ _ _ _ _ _ _ U2) as [q2 [Eq2 [Hq2 Hq2']]]. rewrite Hc in Hq2, Hq2'.
    destruct (us_sqi _ _ _ _ _ _ _ _ _ _ U2) as [p2 [Ep2 [Hp2 Hp2']]]. rewrite Hc in Hp2, Hp2'.
    rewrite Ep1. cbn [obind]. unfold submat_rows, submat_cols.
    destruct (submat_ok p1 r1 n O (nc p1)) as [p11 [E11 [A1 A2]]]; [lia|lia|]. rewrite E11. cbn [obind].
    rewrite Ep2. cbn [obind].
    destruct (submat_ok p2 r2 (n - r1) O (nc p2)) as [p22 [E22 [B1 B2]]]; [lia|lia|]. rewrite E22. cbn [obind].
    destruct (dmul_ok p22 p11) as [pfree [Epf [C1 C2]]]; [lia|]. rewrite Epf. cbn [obind].
    replace (t <=? r1) with true by (symmetry; apply Nat.leb_le; exact Ht). cbn [negb].
    destruct (submat_ok p1 (r1 - t) r1 O (nc p1)) as [ptor [Ept [D1 D2]]]; [lia|lia|]. rewrite Ept. cbn [obind].
    destruct (stack_ok pfree ptor) as [p [Epp [F1 F2]]]; [lia|]. rewrite Epp. cbn [obind].
    replace ((nr p =? n - r1 - r2 + t) && (nc p =? n)) with true
      by (symmetry; apply andb_true_iff; split; apply Nat.eqb_eq; lia).
    cbn [negb]. rewrite Eq1. cbn [obind].
    destruct (submat_ok q1 O (nr q1) r1 n) as [q12 [E12 [A1' A2']]]; [lia|lia|]. rewrite E12. cbn [obind].
    rewrite Eq2. cbn [obind].
    destruct (submat_ok q2 O (nr q2) r2 (n - r1)) as [q22 [E22' [B1' B2']]]; [lia|lia|]. rewrite E22'. cbn [obind].
    destruct (dmul_ok q12 q22) as [qfree [Eqf [C1' C2']]]; [lia|]. rewrite Eqf. cbn [obind].
    destruct (submat_ok q1 O (nr q1) (r1 - t) r1) as [qtor [Eqt [D1' D2']]]; [lia|lia|]. rewrite Eqt. cbn [obind].
    destruct (concat_ok qfree qtor) as [q [Eqq [F1' F2']]]; [lia|]. rewrite Eqq. cbn [obind].
    replace ((nr q =? n) && (nc q =? n - r1 - r2 + t)) with true
      by (symmetry; apply andb_true_iff; split; apply Nat.eqb_eq; lia).
    cbn [negb]. unfold trans_new, trans_append. cbn [tgt_dim trans_id].
    replace ((nc p =? nr q) && (nr p =? nc q) && (nc p =? nc p)) with true
      by (symmetry; rewrite !andb_true_iff; repeat split; apply Nat.eqb_eq; lia).
    cbn [obind]. eexists; reflexivity.
  Qed.
End C07Calc.
