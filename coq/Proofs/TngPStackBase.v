(* Vertical composition (Model/TngStack.v), part 1: the breadth-first search of Cob::take_stackable_comps.
   [pull] / [drain] / [bfs] move components from the pools to the queues and to the result lists without losing or
   duplicating any; the fuel of [bfs] and of [stack_loop] is never exhausted (the loops of take_stackable_comps and of
   Cob::stack terminate on ALL inputs). *)
From Coq Require Import List Arith Bool Lia ZArith Permutation.
Import ListNotations.
Require Import Yui.Model.Link Yui.Model.Tng Yui.Model.TngCob Yui.Model.TngStack.

(* ---------- a solver for permutations of concatenations ---------- *)
Ltac perm_bring a :=
  match goal with
  | |- Permutation (a ++ ?s) _ => apply Permutation_refl
  | |- Permutation (?b ++ ?s) _ =>
       etransitivity; [apply Permutation_app_head; perm_bring a | apply Permutation_app_swap_app]
  end.
Ltac perm_norm :=
  match goal with
  | |- @Permutation ?A ?l ?r =>
      apply (@Permutation_trans A l (l ++ []) r); [rewrite app_nil_r; apply Permutation_refl|];
      apply (@Permutation_trans A (l ++ []) (r ++ []) r); [|rewrite app_nil_r; apply Permutation_refl]
  end; rewrite <- ?app_assoc; rewrite ?app_nil_l.
Ltac perm_go :=
  repeat match goal with
  | |- Permutation ?x ?x => apply Permutation_refl
  | |- Permutation (?a ++ _) (?a ++ _) => apply Permutation_app_head
  | |- Permutation (?a ++ ?r) ?rhs => etransitivity; [| apply Permutation_sym; perm_bring a ]
  end.
Ltac perm_app := perm_norm; perm_go.

(* ---------- find_index / remove_nth on any list ---------- *)
Lemma find_index_split_g : forall (A : Type) (f : A -> bool) l i, find_index f l = Some i ->
  exists l1 x l2, l = l1 ++ x :: l2 /\ i = length l1 /\ f x = true /\ (forall y, In y l1 -> f y = false).
Proof.
  intros A f. induction l as [|y l IH]; intros i; cbn [find_index]; [discriminate|].
  destruct (f y) eqn:Ef.
  - intros E. inversion E; subst. exists [], y, l. repeat split; auto. intros z [].
  - destruct (find_index f l) as [j|] eqn:Ej; cbn [option_map]; [|discriminate].
    intros E. inversion E; subst. destruct (IH j eq_refl) as (l1 & x & l2 & -> & -> & Hx & Hl).
    exists (y :: l1), x, l2. repeat split; auto. intros z [<-|Hz]; auto.
Qed.

Lemma find_index_none_g : forall (A : Type) (f : A -> bool) l, find_index f l = None ->
  forall x, In x l -> f x = false.
Proof.
  intros A f. induction l as [|y l IH]; cbn [find_index]; [intros _ x []|].
  destruct (f y) eqn:Ef; [discriminate|]. destruct (find_index f l); cbn [option_map]; [discriminate|].
  intros _ x [<-|Hx]; auto.
Qed.

Lemma remove_nth_middle_g : forall (A : Type) (l1 : list A) x l2, remove_nth (length l1) (l1 ++ x :: l2) = l1 ++ l2.
Proof.
  intros A l1 x l2. unfold remove_nth. rewrite firstn_app, firstn_all, Nat.sub_diag. cbn [firstn]. rewrite app_nil_r.
  f_equal. replace (S (length l1)) with (length (l1 ++ [x])) by (rewrite app_length; cbn; lia).
  replace (l1 ++ x :: l2) with ((l1 ++ [x]) ++ l2) by (rewrite <- app_assoc; reflexivity).
  rewrite skipn_app, skipn_all, Nat.sub_diag. reflexivity.
Qed.

(* ---------- pull ---------- *)
Definition hit (sel : cobcomp -> tng) (m : path) (t : cobcomp) : bool := tng_contains (sel t) m.

Lemma pull_spec : forall sel cs pool q pool' q', pull sel cs pool q = (pool', q') ->
  exists pulled, q' = q ++ pulled /\ Permutation pool (pulled ++ pool') /\
    Forall (fun t => exists m, In m cs /\ hit sel m t = true) pulled.
Proof.
  intros sel. induction cs as [|m r IH]; intros pool q pool' q'; cbn [pull].
  - intros E. inversion E; subst. exists []. rewrite app_nil_r. repeat split; auto.
  - destruct (find_index _ pool) as [i|] eqn:Ef.
    + destruct (find_index_split_g _ _ _ _ Ef) as (l1 & x & l2 & -> & -> & Hx & _).
      rewrite remove_nth_middle_g, nth_middle. intros E.
      destruct (IH _ _ _ _ E) as (pl & -> & Hp & Hf). exists (x :: pl).
      split; [rewrite <- app_assoc; reflexivity|]. split.
      * eapply perm_trans; [apply Permutation_sym, Permutation_middle|]. cbn [app]. constructor. exact Hp.
      * constructor; [exists m; split; [left; reflexivity|exact Hx]|].
        eapply Forall_impl; [|exact Hf]. intros t (m' & Hm & Ht). exists m'. split; [right; exact Hm|exact Ht].
    + intros E. destruct (IH _ _ _ _ E) as (pl & -> & Hp & Hf). exists pl. repeat split; auto.
      eapply Forall_impl; [|exact Hf]. intros t (m' & Hm & Ht). exists m'. split; [right; exact Hm|exact Ht].
Qed.

(* ---------- drain ---------- *)
Lemma drain_spec : forall other own q pool qo res pool' qo' res',
  drain other own q pool qo res = (pool', qo', res') ->
  exists pulled, qo' = qo ++ pulled /\ res' = res ++ q /\ Permutation pool (pulled ++ pool') /\
    Forall (fun t => exists b m, In b q /\ In m (own b) /\ hit other m t = true) pulled.
Proof.
  intros other own. induction q as [|b r IH]; intros pool qo res pool' qo' res'; cbn [drain].
  - intros E. inversion E; subst. exists []. rewrite !app_nil_r. repeat split; auto.
  - destruct (pull other (own b) pool qo) as [pool1 qo1] eqn:Ep. intros E.
    destruct (pull_spec _ _ _ _ _ _ Ep) as (p1 & -> & Hp1 & Hf1).
    destruct (IH _ _ _ _ _ _ E) as (p2 & -> & -> & Hp2 & Hf2). exists (p1 ++ p2).
    split; [rewrite app_assoc; reflexivity|]. split; [rewrite <- app_assoc; reflexivity|]. split.
    + eapply perm_trans; [exact Hp1|]. rewrite <- app_assoc. apply Permutation_app_head. exact Hp2.
    + apply Forall_app. split.
      * eapply Forall_impl; [|exact Hf1]. intros t (m & Hm & Ht). exists b, m. repeat split; auto. left; reflexivity.
      * eapply Forall_impl; [|exact Hf2]. intros t (b' & m & Hb & Hm & Ht). exists b', m. repeat split; auto. right; exact Hb.
Qed.

(* ---------- bfs: conservation of the components ---------- *)
Lemma bfs_perm : forall fuel bot top qb qt resb rest bot' top' gb gt,
  bfs fuel bot top qb qt resb rest = Some (bot', top', gb, gt) ->
  Permutation (bot ++ qb ++ resb) (bot' ++ gb) /\ Permutation (top ++ qt ++ rest) (top' ++ gt) /\
  (exists more, gb = resb ++ qb ++ more) /\ (exists more, gt = rest ++ qt ++ more).
Proof.
  induction fuel as [|f IH]; intros bot top qb qt resb rest bot' top' gb gt; cbn [bfs].
  - destruct (is_nil qb && is_nil qt) eqn:En; [|discriminate].
    apply andb_true_iff in En. destruct En as [E1 E2]. destruct qb; [|discriminate]. destruct qt; [|discriminate].
    intros E. inversion E; subst. cbn [app]. repeat split; auto; exists []; rewrite app_nil_r; reflexivity.
  - destruct (is_nil qb && is_nil qt) eqn:En.
    + apply andb_true_iff in En. destruct En as [E1 E2]. destruct qb; [|discriminate]. destruct qt; [|discriminate].
      intros E. inversion E; subst. cbn [app]. repeat split; auto; exists []; rewrite app_nil_r; reflexivity.
    + destruct (drain csrc ctgt qb top qt resb) as [[top1 qt1] resb1] eqn:E1.
      destruct (drain ctgt csrc qt1 bot [] rest) as [[bot1 qb1] rest1] eqn:E2. intros E.
      destruct (drain_spec _ _ _ _ _ _ _ _ _ E1) as (p1 & -> & -> & Hp1 & _).
      destruct (drain_spec _ _ _ _ _ _ _ _ _ E2) as (p2 & -> & -> & Hp2 & _). cbn [app] in *.
      destruct (IH _ _ _ _ _ _ _ _ _ _ E) as (P1 & P2 & (m1 & M1) & (m2 & M2)). cbn [app] in *.
      split; [|split; [|split]].
      * eapply perm_trans; [|exact P1]. eapply perm_trans; [apply Permutation_app_tail; exact Hp2|]. perm_app.
      * eapply perm_trans; [|exact P2]. eapply perm_trans; [apply Permutation_app_tail; exact Hp1|]. perm_app.
      * exists (p2 ++ m1). rewrite M1, <- !app_assoc. reflexivity.
      * exists (p1 ++ m2). rewrite M2, <- !app_assoc. cbn [app]. reflexivity.
Qed.

(* ---------- bfs: the fuel is sufficient ---------- *)
Lemma bfs_fuel : forall fuel bot top qb qt resb rest, length bot < fuel ->
  bfs fuel bot top qb qt resb rest <> None.
Proof.
  induction fuel as [|f IH]; intros bot top qb qt resb rest Hl; [lia|]. cbn [bfs].
  destruct (is_nil qb && is_nil qt); [discriminate|].
  destruct (drain csrc ctgt qb top qt resb) as [[top1 qt1] resb1] eqn:E1.
  destruct (drain ctgt csrc qt1 bot [] rest) as [[bot1 qb1] rest1] eqn:E2.
  destruct (drain_spec _ _ _ _ _ _ _ _ _ E2) as (p2 & E & _ & Hp2 & _). cbn [app] in E. subst qb1.
  apply Permutation_length in Hp2. rewrite app_length in Hp2.
  destruct p2 as [|x p2].
  - destruct f; cbn [bfs is_nil andb]; discriminate.
  - apply IH. cbn [length] in Hp2. lia.
Qed.

Lemma take_stackable_some : forall bot top, take_stackable bot top <> None.
Proof.
  intros [|b bot] [|t top]; cbn [take_stackable]; try discriminate; apply bfs_fuel; cbn [length]; lia.
Qed.

(* take_stackable_comps removes the group from the pools; the group is not empty unless both pools are *)
Lemma take_stackable_perm : forall bot top bot' top' gb gt, take_stackable bot top = Some (bot', top', gb, gt) ->
  Permutation bot (bot' ++ gb) /\ Permutation top (top' ++ gt) /\
  (bot <> [] \/ top <> [] -> gb <> [] \/ gt <> []) /\
  (forall b r, bot = b :: r -> exists more, gb = b :: more) /\
  (bot = [] -> gb = [] /\ forall t r, top = t :: r -> exists more, gt = t :: more).
Proof.
  intros [|b bot] [|t top] bot' top' gb gt; cbn [take_stackable].
  - intros E. inversion E; subst. split; [constructor|]. split; [constructor|]. split; [intros [H|H]; congruence|].
    split; [intros; discriminate|]. intros _. split; [reflexivity|intros; discriminate].
  - intros E. destruct (bfs_perm _ _ _ _ _ _ _ _ _ _ _ E) as (P1 & P2 & (m1 & M1) & (m2 & M2)). cbn [app] in *.
    split; [exact P1|]. split; [eapply perm_trans; [apply Permutation_cons_append|exact P2]|].
    split; [intros _; right; rewrite M2; discriminate|]. split; [intros; discriminate|].
    intros _. apply Permutation_nil in P1. destruct bot'; [|discriminate]. cbn [app] in P1. subst gb.
    split; [reflexivity|]. intros t' r E'. inversion E'; subst. exists m2. reflexivity.
  - intros E. destruct (bfs_perm _ _ _ _ _ _ _ _ _ _ _ E) as (P1 & P2 & (m1 & M1) & (m2 & M2)). cbn [app] in *.
    split; [eapply perm_trans; [apply Permutation_cons_append|exact P1]|].
    split; [exact P2|]. split; [intros _; left; rewrite M1; discriminate|].
    split; [intros b' r E'; inversion E'; subst; exists m1; reflexivity|intros; discriminate].
  - intros E. destruct (bfs_perm _ _ _ _ _ _ _ _ _ _ _ E) as (P1 & P2 & (m1 & M1) & (m2 & M2)). cbn [app] in *.
    split; [eapply perm_trans; [apply Permutation_cons_append|exact P1]|].
    split; [rewrite app_nil_r in P2; exact P2|]. split; [intros _; left; rewrite M1; discriminate|].
    split; [intros b' r E'; inversion E'; subst; exists m1; reflexivity|intros; discriminate].
Qed.

(* ---------- Cob::stack terminates ---------- *)
Lemma stack_loop_fuel : forall fuel bot top acc, length bot + length top <= fuel ->
  stack_loop fuel bot top acc <> None.
Proof.
  induction fuel as [|f IH]; intros bot top acc Hl.
  - destruct bot; [|cbn in Hl; lia]. destruct top; [|cbn in Hl; lia]. cbn. discriminate.
  - cbn [stack_loop]. destruct (is_nil bot && is_nil top) eqn:En; [discriminate|].
    destruct (take_stackable bot top) as [[[[bot' top'] gb] gt]|] eqn:Et; [|exfalso; eapply take_stackable_some; eauto].
    destruct (take_stackable_perm _ _ _ _ _ _ Et) as (P1 & P2 & Hne & _).
    apply Permutation_length in P1, P2. rewrite app_length in P1, P2.
    assert (Hg : gb <> [] \/ gt <> []).
    { apply Hne. destruct bot; [|left; discriminate]. destruct top; [discriminate|right; discriminate]. }
    assert (Hlt : length bot' + length top' <= f).
    { destruct Hg as [Hg|Hg]; [destruct gb|destruct gt]; try congruence; cbn [length] in *; lia. }
    destruct (is_nil gt).
    + destruct gb as [|x [|y gb]]; try discriminate. apply IH; auto.
    + destruct (is_nil gb).
      * destruct gt as [|x [|y gt]]; try discriminate. apply IH; auto.
      * destruct (stack_comps gb gt); [apply IH; auto|discriminate].
Qed.

Theorem cob_stack_fuel_sufficient : forall a b, cob_stack_fuel a b <> None.
Proof.
  intros a b. unfold cob_stack_fuel. destruct (is_nil a); [discriminate|]. destruct (is_nil b); [discriminate|].
  destruct (stack_loop (length a + length b) a b []) as [[cs|]|] eqn:E; try discriminate.
  exfalso. eapply stack_loop_fuel; [|exact E]. lia.
Qed.
