(* Soundness of the sparse Smith diagonalisation of Model/KhHomology.v, part 1: the sparse rows.
   Well-formed rows (columns strictly increasing, no zero entry, columns below the width) and the dense
   semantics [row_get] of every row operation the loop uses: [row_axpy], [row_add], the filter/mod step of
   the column phase, [insert_entry] / [row_of_entries], and the list bookkeeping ([mapi], [replace_nth],
   [remove_nth], [index_where]). *)
From Coq Require Import List Arith Bool ZArith Lia.
Require Import Yui.Model.KhCube Yui.Model.KhHomology.
Import ListNotations.
Open Scope Z_scope.

(* ---------- well-formed rows ---------- *)
(* columns strictly increasing and >= lo, values non-zero *)
Fixpoint wf_above (lo : nat) (r : row) : Prop :=
  match r with
  | [] => True
  | (c, v) :: r' => (lo <= c)%nat /\ v <> 0 /\ wf_above (S c) r'
  end.

Definition row_wf (n : nat) (r : row) : Prop :=
  wf_above 0 r /\ forall c v, In (c, v) r -> (c < n)%nat.

Definition rows_wf (n : nat) (rows : list row) : Prop := Forall (row_wf n) rows.

(* a decision procedure (used in examples) *)
Fixpoint wf_aboveb (lo : nat) (r : row) : bool :=
  match r with
  | [] => true
  | (c, v) :: r' => (lo <=? c)%nat && negb (v =? 0) && wf_aboveb (S c) r'
  end.
Definition row_wfb (n : nat) (r : row) : bool :=
  wf_aboveb 0 r && forallb (fun e => (fst e <? n)%nat) r.
Definition rows_wfb (n : nat) (rows : list row) : bool := forallb (row_wfb n) rows.

Lemma wf_aboveb_ok lo r : wf_aboveb lo r = true -> wf_above lo r.
Proof.
  revert lo. induction r as [|[c v] r IH]; intros lo H; cbn [wf_aboveb wf_above] in *; [exact I|].
  apply andb_true_iff in H. destruct H as [H H3]. apply andb_true_iff in H. destruct H as [H1 H2].
  apply Nat.leb_le in H1. apply negb_true_iff in H2. apply Z.eqb_neq in H2.
  split; [exact H1|]. split; [exact H2|]. now apply IH.
Qed.

Lemma row_wfb_ok n r : row_wfb n r = true -> row_wf n r.
Proof.
  unfold row_wfb, row_wf. intros H. apply andb_true_iff in H. destruct H as [H1 H2].
  split; [now apply wf_aboveb_ok|].
  intros c v Hin. rewrite forallb_forall in H2. specialize (H2 _ Hin). cbn [fst] in H2.
  now apply Nat.ltb_lt in H2.
Qed.

Lemma rows_wfb_ok n rows : rows_wfb n rows = true -> rows_wf n rows.
Proof.
  unfold rows_wfb, rows_wf. rewrite forallb_forall. intros H. apply Forall_forall.
  intros r Hr. apply row_wfb_ok. now apply H.
Qed.

Lemma wf_above_weaken lo lo' r : (lo' <= lo)%nat -> wf_above lo r -> wf_above lo' r.
Proof.
  destruct r as [|[c v] r]; cbn [wf_above]; [trivial|].
  intros Hle [H1 [H2 H3]]. split; [lia|]. split; assumption.
Qed.

Lemma row_wf_nil n : row_wf n [].
Proof. split; [exact I|]. intros c v []. Qed.

Lemma rows_wf_nth n rows i : rows_wf n rows -> row_wf n (nth i rows []).
Proof.
  intros H. destruct (Nat.lt_ge_cases i (length rows)) as [Hi|Hi].
  - unfold rows_wf in H. rewrite Forall_forall in H. apply H. now apply nth_In.
  - rewrite nth_overflow by exact Hi. apply row_wf_nil.
Qed.

(* ---------- row_get ---------- *)
Lemma row_get_cons c v r j :
  row_get ((c, v) :: r) j = if (c =? j)%nat then v else if (j <? c)%nat then 0 else row_get r j.
Proof. reflexivity. Qed.

Lemma row_get_below lo r j : wf_above lo r -> (j < lo)%nat -> row_get r j = 0.
Proof.
  destruct r as [|[c v] r]; [reflexivity|].
  cbn [wf_above]. intros [H1 _] Hj. rewrite row_get_cons.
  destruct (Nat.eqb_spec c j); [lia|]. destruct (Nat.ltb_spec j c); [reflexivity|lia].
Qed.

(* on well-formed rows the early exit of [row_get] is redundant *)
Lemma row_get_cons_wf c v r j :
  wf_above (S c) r -> row_get ((c, v) :: r) j = if (c =? j)%nat then v else row_get r j.
Proof.
  intros H. rewrite row_get_cons. destruct (Nat.eqb_spec c j); [reflexivity|].
  destruct (Nat.ltb_spec j c); [|reflexivity]. symmetry. apply (row_get_below (S c)); [exact H|lia].
Qed.

Lemma row_get_in lo r c v : wf_above lo r -> In (c, v) r -> row_get r c = v.
Proof.
  revert lo. induction r as [|[c0 v0] r IH]; intros lo H Hin; [destruct Hin|].
  cbn [wf_above] in H. destruct H as [H1 [H2 H3]].
  rewrite (row_get_cons_wf _ _ _ _ H3). destruct Hin as [E|Hin].
  - injection E as -> ->. now rewrite Nat.eqb_refl.
  - destruct (Nat.eqb_spec c0 c) as [->|Hne].
    + pose proof (row_get_below (S c) r c H3 ltac:(lia)) as Hz.
      rewrite (IH (S c) H3 Hin) in Hz. subst v.
      exfalso. clear -H3 Hin. revert H3 Hin. generalize (S c). induction r as [|[c1 v1] r IHr]; intros lo H3 Hin.
      * destruct Hin.
      * cbn [wf_above] in H3. destruct H3 as [_ [Hv H3]]. destruct Hin as [E|Hin].
        -- injection E as _ ->. now apply Hv.
        -- exact (IHr _ H3 Hin).
    + exact (IH (S c0) H3 Hin).
Qed.

Lemma wf_above_in_nz lo r c v : wf_above lo r -> In (c, v) r -> v <> 0 /\ (lo <= c)%nat.
Proof.
  revert lo. induction r as [|[c0 v0] r IH]; intros lo H Hin; [destruct Hin|].
  cbn [wf_above] in H. destruct H as [H1 [H2 H3]]. destruct Hin as [E|Hin].
  - injection E as -> ->. split; assumption.
  - destruct (IH _ H3 Hin) as [Hv Hc]. split; [exact Hv|lia].
Qed.

(* without any hypothesis: a value read is 0 or the value of an entry *)
Lemma row_get_zero_or_in r j : row_get r j = 0 \/ In (j, row_get r j) r.
Proof.
  induction r as [|[c v] r IH]; [left; reflexivity|].
  rewrite row_get_cons. destruct (Nat.eqb_spec c j) as [->|Hne].
  - right. left. reflexivity.
  - destruct (Nat.ltb_spec j c); [left; reflexivity|].
    destruct IH as [IH|IH]; [left; exact IH|right; right; exact IH].
Qed.

Lemma row_get_nz_in r j : row_get r j <> 0 -> In (j, row_get r j) r.
Proof. intros H. destruct (row_get_zero_or_in r j) as [E|E]; [contradiction|exact E]. Qed.

Lemma row_get_bound n r j : row_wf n r -> (n <= j)%nat -> row_get r j = 0.
Proof.
  intros [_ Hb] Hj. destruct (row_get_zero_or_in r j) as [E|E]; [exact E|].
  apply Hb in E. lia.
Qed.

(* the column bound from the semantics *)
Lemma row_wf_of_sem n lo r : wf_above lo r -> (forall j, (n <= j)%nat -> row_get r j = 0) -> row_wf n r.
Proof.
  intros H Hs. split; [apply (wf_above_weaken lo); [lia|exact H]|].
  intros c v Hin. destruct (Nat.lt_ge_cases c n) as [Hc|Hc]; [exact Hc|exfalso].
  pose proof (row_get_in lo r c v H Hin) as E. rewrite (Hs c Hc) in E.
  destruct (wf_above_in_nz lo r c v H Hin) as [Hv _]. congruence.
Qed.

(* ---------- row_axpy ---------- *)
Lemma row_axpy_fuel_spec fuel : forall q lo a b,
  (length a + length b <= fuel)%nat -> wf_above lo a -> wf_above lo b ->
  wf_above lo (row_axpy_fuel fuel q a b) /\
  forall j, row_get (row_axpy_fuel fuel q a b) j = row_get b j - q * row_get a j.
Proof.
  induction fuel as [|f IH]; intros q lo a b Hlen Ha Hb.
  - destruct a; [|cbn [length] in Hlen; lia]. cbn [row_axpy_fuel]. split; [exact Hb|].
    intros j. cbn [row_get]. lia.
  - destruct a as [|[ca va] a'].
    { cbn [row_axpy_fuel]. split; [exact Hb|]. intros j. cbn [row_get]. lia. }
    cbn [wf_above] in Ha. destruct Ha as [Ha1 [Ha2 Ha3]].
    destruct b as [|[cb vb] b'].
    { cbn [row_axpy_fuel]. cbv zeta.
      destruct (IH q (S ca) a' [] ltac:(cbn [length] in *; lia) Ha3 I) as [W G].
      destruct (Z.eqb_spec (- q * va) 0) as [Ez|Ez].
      - split; [apply (wf_above_weaken (S ca)); [lia|exact W]|].
        intros j. rewrite G. rewrite (row_get_cons_wf _ _ _ _ Ha3). cbn [row_get].
        destruct (Nat.eqb_spec ca j) as [<-|Hne]; [|reflexivity].
        rewrite (row_get_below (S ca) a' ca Ha3) by lia. lia.
      - split; [cbn [wf_above]; split; [exact Ha1|split; [exact Ez|exact W]]|].
        intros j. rewrite (row_get_cons_wf _ _ _ _ W), (row_get_cons_wf _ _ _ _ Ha3), G. cbn [row_get].
        destruct (Nat.eqb_spec ca j); lia. }
    pose proof Hb as Hb0.
    cbn [wf_above] in Hb. destruct Hb as [Hb1 [Hb2 Hb3]].
    cbn [row_axpy_fuel]. cbv zeta.
    destruct (Nat.ltb_spec ca cb) as [Hlt|Hge].
    { (* the entry of a comes first *)
      assert (Hb' : wf_above (S ca) ((cb, vb) :: b')).
      { cbn [wf_above]. split; [lia|]. split; assumption. }
      destruct (IH q (S ca) a' ((cb, vb) :: b') ltac:(cbn [length] in *; lia) Ha3 Hb') as [W G].
      pose proof (row_get_below (S ca) _ ca Hb' ltac:(lia)) as Hbz.
      destruct (Z.eqb_spec (- q * va) 0) as [Ez|Ez].
      - split; [apply (wf_above_weaken (S ca)); [lia|exact W]|].
        intros j. rewrite G. rewrite (row_get_cons_wf ca va a' j Ha3).
        destruct (Nat.eqb_spec ca j) as [<-|Hne]; [|reflexivity].
        rewrite (row_get_below (S ca) a' ca Ha3) by lia. lia.
      - split; [cbn [wf_above]; split; [exact Ha1|split; [exact Ez|exact W]]|].
        intros j. rewrite (row_get_cons_wf _ _ _ _ W), (row_get_cons_wf ca va a' j Ha3), G.
        destruct (Nat.eqb_spec ca j) as [<-|Hne]; [rewrite Hbz; lia|reflexivity]. }
    destruct (Nat.eqb_spec ca cb) as [Heq|Hne].
    { subst cb.
      destruct (IH q (S ca) a' b' ltac:(cbn [length] in *; lia) Ha3 Hb3) as [W G].
      destruct (Z.eqb_spec (vb - q * va) 0) as [Ez|Ez].
      - split; [apply (wf_above_weaken (S ca)); [lia|exact W]|].
        intros j. rewrite G. rewrite (row_get_cons_wf ca va a' j Ha3), (row_get_cons_wf ca vb b' j Hb3).
        destruct (Nat.eqb_spec ca j) as [<-|Hne]; [|reflexivity].
        rewrite (row_get_below (S ca) a' ca Ha3), (row_get_below (S ca) b' ca Hb3) by lia. lia.
      - split; [cbn [wf_above]; split; [exact Ha1|split; [exact Ez|exact W]]|].
        intros j. rewrite (row_get_cons_wf _ _ _ _ W), (row_get_cons_wf ca va a' j Ha3),
                    (row_get_cons_wf ca vb b' j Hb3), G.
        destruct (Nat.eqb_spec ca j); reflexivity. }
    { (* the entry of b comes first *)
      assert (Ha' : wf_above (S cb) ((ca, va) :: a')).
      { cbn [wf_above]. split; [lia|]. split; assumption. }
      destruct (IH q (S cb) ((ca, va) :: a') b' ltac:(cbn [length] in *; lia) Ha' Hb3) as [W G].
      split; [cbn [wf_above]; split; [exact Hb1|split; [exact Hb2|exact W]]|].
      intros j. rewrite (row_get_cons_wf _ _ _ _ W), (row_get_cons_wf cb vb b' j Hb3), G.
      destruct (Nat.eqb_spec cb j) as [<-|Hnej]; [|reflexivity].
      rewrite (row_get_below (S cb) _ cb Ha') by lia. lia. }
Qed.

Lemma row_axpy_wf_above q lo a b : wf_above lo a -> wf_above lo b -> wf_above lo (row_axpy q a b).
Proof. intros Ha Hb. unfold row_axpy. now apply row_axpy_fuel_spec. Qed.

Theorem row_axpy_get q lo a b j :
  wf_above lo a -> wf_above lo b -> row_get (row_axpy q a b) j = row_get b j - q * row_get a j.
Proof. intros Ha Hb. unfold row_axpy. now apply (row_axpy_fuel_spec _ q lo a b). Qed.

Theorem row_axpy_wf n q a b : row_wf n a -> row_wf n b -> row_wf n (row_axpy q a b).
Proof.
  intros Ha Hb. apply (row_wf_of_sem n 0).
  - apply row_axpy_wf_above; [apply Ha|apply Hb].
  - intros j Hj. rewrite (row_axpy_get q 0) by (try apply Ha; apply Hb).
    rewrite (row_get_bound n a j Ha Hj), (row_get_bound n b j Hb Hj). lia.
Qed.

Theorem row_add_get lo a b j :
  wf_above lo a -> wf_above lo b -> row_get (row_add a b) j = row_get a j + row_get b j.
Proof. intros Ha Hb. unfold row_add. rewrite (row_axpy_get _ lo) by assumption. lia. Qed.

Theorem row_add_wf n a b : row_wf n a -> row_wf n b -> row_wf n (row_add a b).
Proof. apply row_axpy_wf. Qed.

(* ---------- the filter / mod step of the column phase ---------- *)
Definition col_reduce (j : nat) (a : Z) (r : row) : row :=
  filter (fun e => negb (snd e =? 0))
         (map (fun e => if (fst e =? j)%nat then e else (fst e, snd e mod a)) r).

Lemma col_reduce_spec j a r : forall lo, wf_above lo r ->
  wf_above lo (col_reduce j a r) /\
  forall c, row_get (col_reduce j a r) c = if (c =? j)%nat then row_get r c else row_get r c mod a.
Proof.
  unfold col_reduce. induction r as [|[c0 v0] r IH]; intros lo H.
  - cbn [map filter]. split; [exact I|]. intros c. cbn [row_get]. destruct (c =? j)%nat; [reflexivity|].
    now rewrite Zmod_0_l.
  - cbn [wf_above] in H. destruct H as [H1 [H2 H3]]. destruct (IH _ H3) as [W G].
    cbn [map fst snd].
    assert (Hget0 : forall c, row_get r c mod a = if (c0 =? c)%nat then 0 else row_get r c mod a).
    { intros c. destruct (Nat.eqb_spec c0 c) as [<-|]; [|reflexivity].
      rewrite (row_get_below (S c0) r c0 H3) by lia. now rewrite Zmod_0_l. }
    destruct (Nat.eqb_spec c0 j) as [->|Hne].
    + cbn [filter snd]. destruct (Z.eqb_spec v0 0) as [|_]; [contradiction|]. cbn [negb].
      split; [cbn [wf_above]; split; [exact H1|split; [exact H2|exact W]]|].
      intros c. rewrite (row_get_cons_wf _ _ _ _ W), (row_get_cons_wf _ _ _ _ H3), G.
      destruct (Nat.eqb_spec j c) as [<-|Hnc]; [now rewrite Nat.eqb_refl|reflexivity].
    + cbn [filter snd]. destruct (Z.eqb_spec (v0 mod a) 0) as [Ez|Ez]; cbn [negb].
      * split; [apply (wf_above_weaken (S c0)); [lia|exact W]|].
        intros c. rewrite G, (row_get_cons_wf _ _ _ _ H3).
        destruct (Nat.eqb_spec c j) as [->|Hcj].
        -- destruct (Nat.eqb_spec c0 j); [contradiction|reflexivity].
        -- destruct (Nat.eqb_spec c0 c) as [<-|]; [|reflexivity].
           rewrite (row_get_below (S c0) r c0 H3) by lia. rewrite Zmod_0_l. now rewrite Ez.
      * split; [cbn [wf_above]; split; [exact H1|split; [exact Ez|exact W]]|].
        intros c. rewrite (row_get_cons_wf _ _ _ _ W), (row_get_cons_wf _ _ _ _ H3), G.
        destruct (Nat.eqb_spec c0 c) as [<-|Hc]; [|reflexivity].
        destruct (Nat.eqb_spec c0 j); [contradiction|reflexivity].
Qed.

Theorem col_reduce_get j a lo r c : wf_above lo r ->
  row_get (col_reduce j a r) c = if (c =? j)%nat then row_get r c else row_get r c mod a.
Proof. intros H. now apply (col_reduce_spec j a r lo). Qed.

Theorem col_reduce_wf n j a r : row_wf n r -> row_wf n (col_reduce j a r).
Proof.
  intros Hr. apply (row_wf_of_sem n 0).
  - apply col_reduce_spec, Hr.
  - intros c Hc. rewrite (col_reduce_get j a 0) by apply Hr.
    rewrite (row_get_bound n r c Hr Hc). destruct (c =? j)%nat; [reflexivity|]. now rewrite Zmod_0_l.
Qed.

(* ---------- insert_entry / row_of_entries (how the oracle builds its rows) ---------- *)
Lemma insert_entry_spec c v : v <> 0 -> forall r lo, wf_above lo r -> (lo <= c)%nat ->
  wf_above lo (insert_entry (c, v) r) /\
  forall j, row_get (insert_entry (c, v) r) j = row_get r j + if (c =? j)%nat then v else 0.
Proof.
  intros Hv. induction r as [|[c0 v0] r IH]; intros lo H Hlo.
  - cbn [insert_entry]. split; [cbn [wf_above]; auto|].
    intros j. cbn [row_get]. destruct (c =? j)%nat; [lia|]. destruct (j <? c)%nat; reflexivity.
  - pose proof H as H0. cbn [wf_above] in H. destruct H as [H1 [H2 H3]].
    cbn [insert_entry fst snd]. destruct (Nat.ltb_spec c c0) as [Hlt|Hge].
    + assert (W : wf_above (S c) ((c0, v0) :: r)) by (cbn [wf_above]; split; [lia|split; assumption]).
      split; [cbn [wf_above]; split; [exact Hlo|split; [exact Hv|exact W]]|].
      intros j. rewrite (row_get_cons_wf c v _ j W).
      destruct (Nat.eqb_spec c j) as [<-|]; [|lia].
      rewrite (row_get_below (S c) _ c W) by lia. lia.
    + destruct (Nat.eqb_spec c c0) as [->|Hne].
      * destruct (Z.eqb_spec (v0 + v) 0) as [Ez|Ez].
        -- split; [apply (wf_above_weaken (S c0)); [lia|exact H3]|].
           intros j. rewrite (row_get_cons_wf _ _ _ _ H3).
           destruct (Nat.eqb_spec c0 j) as [<-|]; [|lia].
           rewrite (row_get_below (S c0) r c0 H3) by lia. lia.
        -- split; [cbn [wf_above]; split; [exact H1|split; [exact Ez|exact H3]]|].
           intros j. rewrite !(row_get_cons_wf _ _ _ _ H3).
           destruct (Nat.eqb_spec c0 j); lia.
      * destruct (IH (S c0) H3 ltac:(lia)) as [W G].
        split; [cbn [wf_above]; split; [exact H1|split; [exact H2|exact W]]|].
        intros j. rewrite (row_get_cons_wf _ _ _ _ W), (row_get_cons_wf _ _ _ _ H3), G.
        destruct (Nat.eqb_spec c0 j) as [<-|]; [|reflexivity].
        destruct (Nat.eqb_spec c c0); [contradiction|lia].
Qed.

Lemma row_of_entries_wf_above es : wf_above 0 (row_of_entries es).
Proof.
  unfold row_of_entries. induction es as [|[c v] es IH]; cbn [filter fold_right snd]; [exact I|].
  destruct (Z.eqb_spec v 0) as [|Hv]; cbn [negb fold_right]; [exact IH|].
  apply insert_entry_spec; [exact Hv|exact IH|lia].
Qed.

(* the dense value of a row built from entries is the sum of the entries in that column *)
Fixpoint entries_get (es : list (nat * Z)) (j : nat) : Z :=
  match es with
  | [] => 0
  | (c, v) :: r => (if (c =? j)%nat then v else 0) + entries_get r j
  end.

Lemma row_of_entries_get es j : row_get (row_of_entries es) j = entries_get es j.
Proof.
  unfold row_of_entries. induction es as [|[c v] es IH]; cbn [filter fold_right snd entries_get]; [reflexivity|].
  destruct (Z.eqb_spec v 0) as [->|Hv]; cbn [negb fold_right].
  - rewrite IH. destruct (c =? j)%nat; lia.
  - pose proof (row_of_entries_wf_above es) as W. unfold row_of_entries in W.
    destruct (insert_entry_spec c v Hv _ 0%nat W ltac:(lia)) as [_ G]. rewrite G, IH. lia.
Qed.

Lemma row_of_entries_wf n es : (forall c v, In (c, v) es -> (c < n)%nat) -> row_wf n (row_of_entries es).
Proof.
  intros Hb. apply (row_wf_of_sem n 0); [apply row_of_entries_wf_above|].
  intros j Hj. rewrite row_of_entries_get.
  induction es as [|[c v] es IH]; cbn [entries_get]; [reflexivity|].
  rewrite IH by (intros c' v' Hin; apply (Hb c' v'); now right).
  pose proof (Hb c v (or_introl eq_refl)). destruct (Nat.eqb_spec c j); [lia|reflexivity].
Qed.

(* ---------- list bookkeeping ---------- *)
Lemma mapi_from_length {A B} (f : nat -> A -> B) l k : length (mapi_from k f l) = length l.
Proof. revert k. induction l as [|x l IH]; intros k; cbn [mapi_from length]; [reflexivity|]. now rewrite IH. Qed.

Lemma mapi_from_nth {A B} (f : nat -> A -> B) l k i dA dB :
  (i < length l)%nat -> nth i (mapi_from k f l) dB = f (k + i)%nat (nth i l dA).
Proof.
  revert k i. induction l as [|x l IH]; intros k i Hi; cbn [length] in Hi; [lia|].
  cbn [mapi_from]. destruct i as [|i]; cbn [nth].
  - now rewrite Nat.add_0_r.
  - rewrite IH by lia. f_equal. lia.
Qed.

Lemma mapi_length {A B} (f : nat -> A -> B) l : length (mapi f l) = length l.
Proof. apply mapi_from_length. Qed.

Lemma mapi_nth {A B} (f : nat -> A -> B) l i dA dB :
  (i < length l)%nat -> nth i (mapi f l) dB = f i (nth i l dA).
Proof. intros Hi. unfold mapi. now rewrite (mapi_from_nth f l 0 i dA dB Hi). Qed.

Lemma mapi_Forall {A B} (P : B -> Prop) (f : nat -> A -> B) l :
  (forall i x, In x l -> P (f i x)) -> Forall P (mapi f l).
Proof.
  unfold mapi. generalize 0%nat. induction l as [|x l IH]; intros k H; cbn [mapi_from]; constructor.
  - apply H. now left.
  - apply IH. intros i y Hy. apply H. now right.
Qed.

Lemma existsb_id_false l : existsb (fun b : bool => b) l = false -> forall i, nth i l false = false.
Proof.
  induction l as [|b l IH]; intros H i; [destruct i; reflexivity|].
  cbn [existsb] in H. apply orb_false_iff in H. destruct H as [H1 H2].
  destruct i; cbn [nth]; [exact H1|now apply IH].
Qed.

Lemma replace_nth_length {A} i (y : A) l : length (replace_nth i y l) = length l.
Proof.
  revert i. induction l as [|x l IH]; intros i; [destruct i; reflexivity|].
  destruct i; cbn [replace_nth length]; [reflexivity|]. now rewrite IH.
Qed.

Lemma replace_nth_nth {A} i (y : A) l k d :
  (i < length l)%nat -> nth k (replace_nth i y l) d = if (k =? i)%nat then y else nth k l d.
Proof.
  revert i k. induction l as [|x l IH]; intros i k Hi; cbn [length] in Hi; [lia|].
  destruct i as [|i]; cbn [replace_nth].
  - destruct k; reflexivity.
  - destruct k as [|k]; cbn [nth]; [reflexivity|]. rewrite IH by lia. reflexivity.
Qed.

Lemma replace_nth_Forall {A} (P : A -> Prop) i y l : P y -> Forall P l -> Forall P (replace_nth i y l).
Proof.
  intros Hy. revert i. induction l as [|x l IH]; intros i H; [destruct i; constructor|].
  inversion H as [|? ? Hx Hl]; subst. destruct i; cbn [replace_nth]; constructor; auto.
Qed.

Lemma remove_nth_length {A} i (l : list A) : (i < length l)%nat -> S (length (remove_nth i l)) = length l.
Proof.
  revert i. induction l as [|x l IH]; intros i Hi; cbn [length] in Hi; [lia|].
  destruct i; cbn [remove_nth length]; [reflexivity|]. rewrite IH by lia. reflexivity.
Qed.

Lemma remove_nth_nth {A} i (l : list A) k d :
  nth k (remove_nth i l) d = nth (if (k <? i)%nat then k else S k) l d.
Proof.
  revert i k. induction l as [|x l IH]; intros i k.
  - destruct i; cbn [remove_nth]; destruct (k <? _)%nat; destruct k; reflexivity.
  - destruct i as [|i]; cbn [remove_nth].
    + reflexivity.
    + destruct k as [|k]; cbn [nth]; [reflexivity|]. rewrite IH.
      change (S k <? S i)%nat with (k <? i)%nat. destruct (k <? i)%nat; reflexivity.
Qed.

Lemma remove_nth_Forall {A} (P : A -> Prop) i l : Forall P l -> Forall P (remove_nth i l).
Proof.
  revert i. induction l as [|x l IH]; intros i H; [destruct i; constructor|].
  inversion H as [|? ? Hx Hl]; subst. destruct i; cbn [remove_nth]; [exact Hl|]. constructor; auto.
Qed.

Lemma index_where_some {A} (f : A -> bool) l k d :
  index_where f l = Some k -> (k < length l)%nat /\ f (nth k l d) = true.
Proof.
  revert k. induction l as [|x l IH]; intros k H; cbn [index_where] in H; [discriminate|].
  destruct (f x) eqn:E.
  - injection H as <-. cbn [length nth]. split; [lia|exact E].
  - destruct (index_where f l) as [k'|]; [|discriminate]. cbn [option_map] in H. injection H as <-.
    destruct (IH k' eq_refl) as [H1 H2]. cbn [length nth]. split; [lia|exact H2].
Qed.

Lemma index_where_none {A} (f : A -> bool) l : index_where f l = None -> forall x, In x l -> f x = false.
Proof.
  induction l as [|x l IH]; intros H y Hy; [destruct Hy|]. cbn [index_where] in H.
  destruct (f x) eqn:E; [discriminate|].
  destruct (index_where f l); [discriminate|]. destruct Hy as [<-|Hy]; [exact E|now apply IH].
Qed.
