(* C03Big, part 4: when does route A (one summand per generator, filed at the minimal q-degree of its terms) give
   the cell-by-cell decomposition?  Generators are given as sums of q-homogeneous cycles. *)
From Coq Require Import List ZArith Bool Lia Permutation.
Require Import Yui.Model.IntoBigraded Yui.Proofs.C03BigTable Yui.Proofs.C03BigGrid.
Import ListNotations.
Open Scope Z_scope.

(* ---------- chain_q_deg is the minimum ---------- *)
Lemma fold_min_le : forall r q, fold_left Z.min r q <= q /\ forall x, In x r -> fold_left Z.min r q <= x.
Proof.
  induction r as [|y r IH]; intros q.
  - cbn. split; [lia | intros x []].
  - cbn [fold_left]. destruct (IH (Z.min q y)) as [H1 H2]. split; [lia|].
    intros x [<-|Hx]; [lia | apply H2; exact Hx].
Qed.

Lemma chain_q_deg_le : forall qs q, In q qs -> chain_q_deg qs <= q.
Proof.
  intros [|q0 r] q H; [destruct H|]. unfold chain_q_deg. destruct (fold_min_le r q0) as [H1 H2].
  destruct H as [<-|H]; [exact H1 | apply H2; exact H].
Qed.

(* ---------- sums that are invariant under permutation ---------- *)
Fixpoint qsum (L : list (Z * comp)) : Z := match L with [] => 0 | x :: L' => fst x + qsum L' end.

Lemma qsum_app : forall L1 L2, qsum (L1 ++ L2) = qsum L1 + qsum L2.
Proof. induction L1 as [|x L1 IH]; intros L2; [reflexivity|]. cbn [app qsum]. rewrite IH. lia. Qed.

Lemma qsum_perm : forall L1 L2, Permutation L1 L2 -> qsum L1 = qsum L2.
Proof. intros L1 L2 H. induction H; cbn [qsum]; lia. Qed.

(* ---------- pointwise bounds with equal sums are equalities ---------- *)
Lemma count_pointwise : forall (A : Type) (f : A -> nat) (l : list A),
  Forall (fun a => (1 <= f a)%nat) l -> length (flat_map (fun a => repeat tt (f a)) l) = length l ->
  Forall (fun a => f a = 1%nat) l.
Proof.
  intros A f l H.
  assert (G : (length l <= length (flat_map (fun a => repeat tt (f a)) l))%nat).
  { induction H as [|a l Ha H IH]; [cbn; lia|]. cbn [flat_map length]. rewrite app_length, repeat_length. lia. }
  induction H as [|a l Ha H IH]; intros E; [constructor|].
  cbn [flat_map length] in E, G. rewrite app_length, repeat_length in E, G.
  assert (G' : (length l <= length (flat_map (fun a => repeat tt (f a)) l))%nat).
  { clear -H. induction H as [|a l Ha H IH]; [cbn; lia|]. cbn [flat_map length]. rewrite app_length, repeat_length. lia. }
  constructor; [lia | apply IH; lia].
Qed.

Lemma length_flat_map_count : forall (A B : Type) (f : A -> list B) (l : list A),
  length (flat_map f l) = length (flat_map (fun a => repeat tt (length (f a))) l).
Proof.
  intros A B f l. induction l as [|a l IH]; [reflexivity|]. cbn [flat_map]. rewrite !app_length, repeat_length, IH.
  reflexivity.
Qed.

Lemma sum_pointwise : forall (A : Type) (f g : A -> Z) (l : list A),
  Forall (fun a => f a <= g a) l ->
  fold_right (fun a acc => f a + acc) 0 l = fold_right (fun a acc => g a + acc) 0 l ->
  Forall (fun a => f a = g a) l.
Proof.
  intros A f g l H.
  assert (G : fold_right (fun a acc => f a + acc) 0 l <= fold_right (fun a acc => g a + acc) 0 l).
  { induction H as [|a l Ha H IH]; [cbn; lia|]. cbn [fold_right]. lia. }
  induction H as [|a l Ha H IH]; intros E; [constructor|].
  cbn [fold_right] in E, G.
  assert (G' : fold_right (fun a acc => f a + acc) 0 l <= fold_right (fun a acc => g a + acc) 0 l).
  { clear -H. induction H as [|a l Ha H IH]; [cbn; lia|]. cbn [fold_right]. lia. }
  constructor; [lia | apply IH; lia].
Qed.

(* ---------- the kind of a generator with one non-trivial component ---------- *)
Lemma nontriv_nil_kind : forall d, nontriv d = [] -> dgen_is_free d = false /\ dgen_order d = 1.
Proof.
  induction d as [|[q c] d IH]; intros H; [split; reflexivity|].
  unfold nontriv in H. cbn [filter snd] in H. destruct c; cbn [comp_nontriv] in H; try discriminate.
  destruct (IH H) as [H1 H2]. unfold dgen_is_free, dgen_order in *. cbn [existsb fold_right snd orb]. auto.
Qed.

Lemma nontriv_single_kind : forall d q c, nontriv d = [(q, c)] -> dgen_comp_of_kind (dgen_kind d) = c.
Proof.
  induction d as [|[q' c'] d IH]; intros q c H; [discriminate|].
  unfold nontriv in H. cbn [filter snd] in H. destruct c'; cbn [comp_nontriv] in H.
  - specialize (IH q c H). unfold dgen_kind, dgen_is_free, dgen_order in *. cbn [existsb fold_right snd orb]. exact IH.
  - inversion H as [[Hq Hc Hn]]. unfold dgen_kind, dgen_is_free. cbn [existsb snd orb]. reflexivity.
  - inversion H as [[Hq Hc Hn]]. destruct (nontriv_nil_kind d Hn) as [H1 H2].
    unfold dgen_kind, dgen_is_free, dgen_order in *. cbn [existsb fold_right snd orb]. rewrite H1, H2.
    cbn [dgen_comp_of_kind]. rewrite Z.mul_1_r. reflexivity.
Qed.

Lemma nontriv_incl : forall d x, In x (nontriv d) -> In x d.
Proof. intros d x H. unfold nontriv in H. apply filter_In in H. tauto. Qed.

(* ---------- sufficiency: route A then IS the cell-by-cell list ---------- *)
Lemma agree_if : forall ds, Forall single_at_min ds -> located_A ds = located_cellwise ds.
Proof.
  intros ds H. induction H as [|d ds [c Hd] H IH]; [reflexivity|].
  unfold located_A, located_cellwise in *. cbn [map flat_map]. rewrite IH, Hd. cbn [app]. f_equal.
  rewrite (nontriv_single_kind d _ c Hd). reflexivity.
Qed.

(* ---------- necessity ---------- *)
Lemma qsum_located_A : forall ds,
  qsum (located_A ds) = fold_right (fun d acc => chain_q_deg (map fst d) + acc) 0 ds.
Proof. induction ds as [|d ds IH]; [reflexivity|]. unfold located_A in *. cbn [map qsum fold_right fst]. rewrite IH. reflexivity. Qed.

Lemma qsum_located_cellwise : forall ds,
  qsum (located_cellwise ds) = fold_right (fun d acc => qsum (nontriv d) + acc) 0 ds.
Proof.
  induction ds as [|d ds IH]; [reflexivity|]. unfold located_cellwise in *. cbn [flat_map fold_right].
  rewrite qsum_app, IH. reflexivity.
Qed.

Lemma agree_only_if : forall ds, Forall (fun d => nontriv d <> []) ds ->
  Permutation (located_A ds) (located_cellwise ds) -> Forall single_at_min ds.
Proof.
  intros ds Hwf HP.
  (* each generator has exactly one non-trivial component *)
  assert (H1 : Forall (fun d => length (nontriv d) = 1%nat) ds).
  { apply count_pointwise.
    - eapply Forall_impl; [|exact Hwf]. intros d Hd. cbn beta in Hd. destruct (nontriv d); [congruence | cbn; lia].
    - rewrite <- (length_flat_map_count _ _ nontriv ds). fold (located_cellwise ds).
      rewrite <- (Permutation_length HP). unfold located_A. apply map_length. }
  (* ... and it sits at the minimum *)
  assert (H2 : Forall (fun d => chain_q_deg (map fst d) = qsum (nontriv d)) ds).
  { apply sum_pointwise.
    - rewrite Forall_forall in *. intros d Hd. specialize (H1 d Hd).
      destruct (nontriv d) as [|[q c] [|y r]] eqn:E; try discriminate. cbn [qsum fst].
      assert (Hq : In q (map fst d)).
      { apply in_map_iff. exists (q, c). split; [reflexivity|]. apply nontriv_incl. rewrite E. left. reflexivity. }
      pose proof (chain_q_deg_le _ _ Hq). lia.
    - rewrite <- qsum_located_A, <- qsum_located_cellwise. apply qsum_perm. exact HP. }
  rewrite Forall_forall in *. intros d Hd. specialize (H1 d Hd). specialize (H2 d Hd).
  destruct (nontriv d) as [|[q c] [|y r]] eqn:E; try discriminate. cbn [qsum fst] in H2.
  exists c. unfold single_at_min. rewrite E. f_equal. f_equal. lia.
Qed.

Lemma agree_iff : forall ds, Forall (fun d => nontriv d <> []) ds ->
  (Permutation (located_A ds) (located_cellwise ds) <-> Forall single_at_min ds).
Proof.
  intros ds Hwf. split.
  - apply agree_only_if. exact Hwf.
  - intros H. rewrite (agree_if ds H). apply Permutation_refl.
Qed.

(* ---------- route A on decomposed generators, cell by cell ---------- *)
Lemma regroup_erase : forall j ds, regroup chain_q_deg j (erase ds) = cell_of_located j (located_A ds).
Proof.
  intros j ds. induction ds as [|d ds IH]; [reflexivity|].
  change (erase (d :: ds)) with ([(dgen_kind d, map fst d)] ++ erase ds). rewrite regroup_app, IH.
  unfold located_A. cbn [map]. fold (located_A ds). unfold cell_of_located, regroup. cbn [filter flat_map fst snd].
  destruct (chain_q_deg (map fst d) =? j); destruct (dgen_kind d); reflexivity.
Qed.

Lemma regroup_frees_tors : forall j (l : list (list Z)),
  snd (regroup chain_q_deg j (map (fun qs => (GFree, qs)) l)) = [].
Proof.
  intros j l. induction l as [|qs l IH]; [reflexivity|].
  change (map (fun qs0 => (GFree, qs0)) (qs :: l)) with ([(GFree, qs)] ++ map (fun qs0 => (GFree, qs0)) l).
  rewrite regroup_app. cbn [snd]. rewrite IH. unfold regroup. cbn [filter snd]. destruct (chain_q_deg qs =? j); reflexivity.
Qed.

Lemma regroup_summand_of_dgens : forall j ds,
  regroup chain_q_deg j (tagged (summand_of_dgens ds)) = regroup chain_q_deg j (erase ds).
Proof.
  intros j ds. induction ds as [|d ds IH]; [reflexivity|].
  change (erase (d :: ds)) with ([(dgen_kind d, map fst d)] ++ erase ds). rewrite regroup_app, <- IH.
  unfold tagged, summand_of_dgens, dgen_kind. cbn [si_free si_tors filter].
  destruct (dgen_is_free d) eqn:E; cbn [negb map].
  - change ((GFree, map fst d) :: ?l) with ([(GFree, map fst d)] ++ l).
    rewrite <- app_assoc, (regroup_app _ _ [(GFree, map fst d)]). reflexivity.
  - cbn [fst snd].
    rewrite !regroup_app.
    change ((GTor (dgen_order d), map fst d) :: ?l) with ([(GTor (dgen_order d), map fst d)] ++ l).
    rewrite regroup_app. cbn [fst snd]. rewrite !regroup_frees_tors. cbn [app]. f_equal. lia.
Qed.

(* route A's cell (i, j) on a summand given by decomposed generators is cell j of located_A *)
Lemma into_bigraded_located : forall hs i ds j,
  NoDup (map fst hs) -> In (i, summand_of_dgens ds) hs -> same_parity hs ->
  ib_get (i, j) (into_bigraded hs) = cell_of_located j (located_A ds).
Proof.
  intros hs i ds j Hnd Hin Hp.
  rewrite (into_bigraded_cell_parity hs Hp), (gens_at_nodup hs i _ Hnd Hin), regroup_summand_of_dgens.
  apply regroup_erase.
Qed.

Lemma into_bigraded_agrees : forall hs i ds j,
  NoDup (map fst hs) -> In (i, summand_of_dgens ds) hs -> same_parity hs -> Forall single_at_min ds ->
  ib_get (i, j) (into_bigraded hs) = cell_of_located j (located_cellwise ds).
Proof.
  intros hs i ds j Hnd Hin Hp Hs. rewrite (into_bigraded_located hs i ds j Hnd Hin Hp), (agree_if ds Hs). reflexivity.
Qed.

Lemma into_bigraded_agrees_full : forall hs i ds,
  NoDup (map fst hs) -> In (i, summand_of_dgens ds) hs -> same_parity hs -> Forall single_at_min ds ->
  located_A ds = located_cellwise ds /\
  forall j, ib_get (i, j) (into_bigraded hs) = cell_of_located j (located_cellwise ds).
Proof.
  intros hs i ds Hnd Hin Hp Hs. split; [apply agree_if; exact Hs|].
  intros j. apply into_bigraded_agrees; assumption.
Qed.
