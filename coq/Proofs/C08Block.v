(* The reduction step in block form.  For [a b; c d] with a invertible, [x; y] and [z w] with
   [a b; c d][x; y] = 0 and [z w][a b; c d] = 0 (pure block-matrix algebra over any commutative ring):
     s = d - c a^-1 b,    f_src = [0 1], b_src = [-a^-1 b; 1],   f_tgt = [-c a^-1  1], b_tgt = [0; 1],
     h = [a^-1 0; 0 0]
   form a strong deformation retraction of the three-term complex onto  y, s, w. *)
From Coq Require Import Arith List Lia Bool Ring.
Require Import Yui.Base.Ring Yui.Base.MatF Yui.Base.MatL Yui.Model.Reducer Yui.Proofs.C08Mat.
Import ListNotations.

Section Aux.
  Context {R : Type} (o : ring_ops R) (L : ring_laws o).
  Add Ring Rring5 : (ring_theory_of_laws o L).
  Local Notation dmat := (dmat R).
  Local Notation dwf := (@dwf R).

  Lemma dadd_zero_inv X Y : dwf Y -> dr X = dr Y -> dc X = dc Y ->
    dadd o X Y = dzero o (dr X) (dc X) -> Y = dneg o X.
  Proof.
    intros WY H1 H2 E. apply (dmat_ext o); dwfs; dims. intros i j Hi Hj.
    assert (X0 : dget o (dadd o X Y) i j = dget o (dzero o (dr X) (dc X)) i j) by now rewrite E.
    rewrite (dget_dadd o), (dget_dzero o) in X0 by lia. rewrite (dget_dneg o) by lia.
    transitivity (radd o (radd o (dget o X i j) (dget o Y i j)) (rneg o (dget o X i j))); [ring|].
    rewrite X0. ring.
  Qed.

  Lemma dneg_invol X : dwf X -> dneg o (dneg o X) = X.
  Proof.
    intros W. apply (dmat_ext o); dwfs; dims. intros i j Hi Hj.
    rewrite !(dget_dneg o) by dims. ring.
  Qed.

  Lemma dsub_self X Y : X = Y -> dsub o X Y = dzero o (dr X) (dc X).
  Proof.
    intros <-. apply (dmat_ext o); dwfs; dims. intros i j Hi Hj.
    rewrite (dget_dsub o), (dget_dzero o) by lia. ring.
  Qed.

  Lemma dmul_sub_l A B C : dr A = dr B -> dc A = dc B ->
    dmul o (dsub o A B) C = dsub o (dmul o A C) (dmul o B C).
  Proof.
    intros H1 H2. rewrite !(dsub_eq o) by dims. rewrite (dmul_add_l o L) by dims.
    now rewrite (dmul_neg_l o L).
  Qed.

  Lemma dmul_sub_r A B C : dc A = dr B -> dr B = dr C -> dc B = dc C ->
    dmul o A (dsub o B C) = dsub o (dmul o A B) (dmul o A C).
  Proof.
    intros H1 H2 H3. rewrite !(dsub_eq o) by dims. rewrite (dmul_add_r o L) by dims.
    now rewrite (dmul_neg_r o L) by dims.
  Qed.

  Lemma dadd_zero_r' A m n : dwf A -> dr A = m -> dc A = n -> dadd o A (dzero o m n) = A.
  Proof. intros W <- <-. now apply (dadd_zero_r o L). Qed.

  Lemma dadd_zero_l' A m n : dwf A -> dr A = m -> dc A = n -> dadd o (dzero o m n) A = A.
  Proof. intros W <- <-. now apply (dadd_zero_l o L). Qed.

  Lemma dadd_neg_sub A B : dr A = dr B -> dc A = dc B -> dadd o (dneg o B) A = dsub o A B.
  Proof.
    intros H1 H2. rewrite (dsub_eq o) by dims. apply (dadd_comm o L); dims.
  Qed.
End Aux.

Section Block.
  Context {R : Type} (o : ring_ops R) (L : ring_laws o).
  Local Notation dmat := (dmat R).
  Local Notation dwf := (@dwf R).
  (* shapes: a r x r, b r x nr, c mr x r, d mr x nr, x r x l, y nr x l, z k x r, w k x mr *)
  Context (r mr nr l k : nat) (fa fb fc fd fx fy fz fw fi : nat -> nat -> R).
  Local Notation a := (dmk r r fa).
  Local Notation b := (dmk r nr fb).
  Local Notation c := (dmk mr r fc).
  Local Notation d := (dmk mr nr fd).
  Local Notation x := (dmk r l fx).
  Local Notation y := (dmk nr l fy).
  Local Notation z := (dmk k r fz).
  Local Notation w := (dmk k mr fw).
  Local Notation ainv := (dmk r r fi).

  Definition blk_A := dvcat o (dhcat o a b) (dhcat o c d).
  Definition blk_a0 := dvcat o x y.
  Definition blk_a2 := dhcat o z w.
  Definition blk_ainvb := dmul o ainv b.
  Definition blk_cainv := dmul o c ainv.
  Definition blk_s := dsub o d (dmul o c blk_ainvb).
  Definition blk_fs := dhcat o (dzero o nr r) (did o nr).
  Definition blk_bs := dvcat o (dneg o blk_ainvb) (did o nr).
  Definition blk_ft := dhcat o (dneg o blk_cainv) (did o mr).
  Definition blk_bt := dvcat o (dzero o r mr) (did o mr).
  Definition blk_h := dvcat o (dhcat o ainv (dzero o r mr)) (dzero o nr (r + mr)).

  Context (Hinv1 : dmul o a ainv = did o r) (Hinv2 : dmul o ainv a = did o r).

  Ltac dd := unfold blk_A, blk_a0, blk_a2, blk_ainvb, blk_cainv, blk_s, blk_fs, blk_bs, blk_ft, blk_bt, blk_h in *.
  Ltac side := solve [dwfs | autorewrite with ddim; (lia || reflexivity)].
  Ltac dnorm := autorewrite with ddim.

  (* a^-1 (a X) = X,  a (a^-1 X) = X,  (X a^-1) a = X, (X a) a^-1 = X *)
  Lemma ainv_a_cancel (X : dmat) : dwf X -> dr X = r -> dmul o ainv (dmul o a X) = X.
  Proof.
    intros W H. rewrite <- (dmul_assoc o L) by side. rewrite Hinv2. now apply (dmul_id_l o L).
  Qed.
  Lemma a_ainv_cancel (X : dmat) : dwf X -> dr X = r -> dmul o a (dmul o ainv X) = X.
  Proof.
    intros W H. rewrite <- (dmul_assoc o L) by side. rewrite Hinv1. now apply (dmul_id_l o L).
  Qed.
  Lemma cancel_ainv_a (X : dmat) : dwf X -> dc X = r -> dmul o (dmul o X ainv) a = X.
  Proof.
    intros W H. rewrite (dmul_assoc o L) by side. rewrite Hinv2. now apply (dmul_id_r o L).
  Qed.
  Lemma cancel_a_ainv (X : dmat) : dwf X -> dc X = r -> dmul o (dmul o X a) ainv = X.
  Proof.
    intros W H. rewrite (dmul_assoc o L) by side. rewrite Hinv1. now apply (dmul_id_r o L).
  Qed.

  Section WithComplex.
    (* [a b; c d][x; y] = 0 and [z w][a b; c d] = 0 in block form *)
    Context (Hax : dadd o (dmul o a x) (dmul o b y) = dzero o r l)
            (Hcx : dadd o (dmul o c x) (dmul o d y) = dzero o mr l)
            (Hza : dadd o (dmul o z a) (dmul o w c) = dzero o k r)
            (Hzb : dadd o (dmul o z b) (dmul o w d) = dzero o k nr).

    Lemma by_eq : dmul o b y = dneg o (dmul o a x).
    Proof. apply (dadd_zero_inv o L); try side; try exact Hax. Qed.
    Lemma dy_eq : dmul o d y = dneg o (dmul o c x).
    Proof. apply (dadd_zero_inv o L); try side; try exact Hcx. Qed.
    Lemma wc_eq : dmul o w c = dneg o (dmul o z a).
    Proof. apply (dadd_zero_inv o L); try side; try exact Hza. Qed.
    Lemma wd_eq : dmul o w d = dneg o (dmul o z b).
    Proof. apply (dadd_zero_inv o L); try side; try exact Hzb. Qed.

    Lemma ainvb_y : dmul o blk_ainvb y = dneg o x.
    Proof.
      dd. rewrite (dmul_assoc o L) by side. rewrite by_eq. rewrite (dmul_neg_r o L) by side.
      rewrite ainv_a_cancel by side. reflexivity.
    Qed.

    Lemma w_cainv : dmul o w blk_cainv = dneg o z.
    Proof.
      dd. rewrite <- (dmul_assoc o L) by side. rewrite wc_eq. rewrite (dmul_neg_l o L).
      rewrite cancel_a_ainv by side. reflexivity.
    Qed.

    (* B1: the reduced matrices form a complex *)
    Theorem blk_complex_src : dmul o blk_s y = dzero o mr l.
    Proof.
      unfold blk_s. rewrite (dmul_sub_l o L) by side.
      rewrite (dsub_self o L); [dnorm; reflexivity|].
      rewrite (dmul_assoc o L) by (dd; side). rewrite ainvb_y. rewrite (dmul_neg_r o L) by side.
      exact dy_eq.
    Qed.

    Theorem blk_complex_tgt : dmul o w blk_s = dzero o k nr.
    Proof.
      unfold blk_s. rewrite (dmul_sub_r o L) by (dd; side).
      rewrite (dsub_self o L); [dnorm; reflexivity|].
      unfold blk_ainvb. rewrite <- (dmul_assoc o L c) by side. fold blk_cainv.
      rewrite <- (dmul_assoc o L) by (dd; side). rewrite w_cainv. rewrite (dmul_neg_l o L).
      exact wd_eq.
    Qed.

    (* B2c / B3a: the neighbouring differentials factor through the retraction *)
    Theorem blk_a2_factor : dmul o w blk_ft = blk_a2.
    Proof.
      unfold blk_ft, blk_a2. rewrite (dmul_hcat_r o) by (dd; side).
      rewrite (dmul_neg_r o L) by (dd; side). rewrite w_cainv.
      rewrite (dneg_invol o L) by side. rewrite (dmul_id_r o L) by side. reflexivity.
    Qed.

    Theorem blk_a0_factor : dmul o blk_bs y = blk_a0.
    Proof.
      unfold blk_bs, blk_a0. rewrite (dmul_vcat_l o) by (dd; side).
      rewrite (dmul_neg_l o L). rewrite ainvb_y.
      rewrite (dneg_invol o L) by side. rewrite (dmul_id_l o L) by side. reflexivity.
    Qed.
  End WithComplex.

  Theorem blk_fs_a0 : dmul o blk_fs blk_a0 = y.
  Proof.
    unfold blk_fs, blk_a0. rewrite (dmul_hcat_vcat o L) by side.
    rewrite (dmul_zero_l o L), (dmul_id_l o L) by side. dnorm. apply (dadd_zero_l o L y). side.
  Qed.

  Theorem blk_a2_bt : dmul o blk_a2 blk_bt = w.
  Proof.
    unfold blk_bt, blk_a2. rewrite (dmul_hcat_vcat o L) by side.
    rewrite (dmul_zero_r o L), (dmul_id_r o L) by side. dnorm. apply (dadd_zero_l o L w). side.
  Qed.

  (* B2b / B3b: f and b commute with the middle differential *)
  Theorem blk_f_chain : dmul o blk_ft blk_A = dmul o blk_s blk_fs.
  Proof.
    unfold blk_ft, blk_A, blk_fs.
    rewrite (dmul_hcat_vcat o L) by (dd; side).
    rewrite !(dmul_hcat_r o) by (dd; side).
    rewrite (dmul_id_l o L), (dmul_id_l o L) by side.
    rewrite !(dmul_neg_l o L).
    rewrite (dadd_hcat o) by (dd; side).
    unfold blk_cainv at 1. rewrite cancel_ainv_a by side.
    rewrite (dadd_neg_l o L). rewrite (dadd_neg_sub o L) by (dd; side).
    unfold blk_cainv. rewrite (dmul_assoc o L) by side. fold blk_ainvb. fold blk_s.
    rewrite (dmul_zero_r o L), (dmul_id_r o L) by (dd; side). dd. dnorm. reflexivity.
  Qed.

  Theorem blk_b_chain : dmul o blk_A blk_bs = dmul o blk_bt blk_s.
  Proof.
    unfold blk_A, blk_bs, blk_bt.
    rewrite !(dmul_vcat_l o) by (dd; side).
    rewrite !(dmul_hcat_vcat o L) by (dd; side).
    rewrite !(dmul_id_r o L) by side.
    rewrite !(dmul_neg_r o L) by (dd; side).
    unfold blk_ainvb at 1. rewrite a_ainv_cancel by side.
    rewrite (dadd_neg_l o L). rewrite (dadd_neg_sub o L) by (dd; side). fold blk_s.
    rewrite (dmul_zero_l o L), (dmul_id_l o L) by (dd; side). dd. dnorm. reflexivity.
  Qed.

  (* B4: f b = 1 *)
  Theorem blk_fb_src : dmul o blk_fs blk_bs = did o nr.
  Proof.
    unfold blk_fs, blk_bs. rewrite (dmul_hcat_vcat o L) by (dd; side).
    rewrite (dmul_zero_l o L), (dmul_id_l o L) by side. dnorm.
    apply (dadd_zero_l o L (did o nr)). side.
  Qed.

  Theorem blk_fb_tgt : dmul o blk_ft blk_bt = did o mr.
  Proof.
    unfold blk_ft, blk_bt. rewrite (dmul_hcat_vcat o L) by (dd; side).
    rewrite (dmul_zero_r o L), (dmul_id_l o L) by side. dd. dnorm.
    apply (dadd_zero_l o L (did o mr)). side.
  Qed.

  (* B5: b f + h d = 1 and b f + d h = 1 *)
  Theorem blk_homotopy_src : dadd o (dmul o blk_bs blk_fs) (dmul o blk_h blk_A) = did o (r + nr).
  Proof.
    unfold blk_bs, blk_fs, blk_h, blk_A.
    rewrite !(dmul_vcat_l o) by (dd; side).
    rewrite (dmul_hcat_vcat o L) by (dd; side).
    rewrite !(dmul_hcat_r o) by (dd; side).
    rewrite ?(dmul_zero_l o L), ?(dmul_zero_r o L).
    rewrite ?(dmul_id_l o L), ?(dmul_id_r o L) by (dd; side).
    rewrite Hinv2. dd. dnorm.
    rewrite <- (dzero_hcat o nr r nr).
    rewrite (dadd_hcat o (did o r)) by side.
    rewrite (dadd_vcat o) by side.
    rewrite !(dadd_hcat o) by side.
    rewrite !(dadd_zero_r' o L) by side. rewrite !(dadd_zero_l' o L) by side.
    rewrite (dadd_neg_l o L). dnorm. apply (did_blocks o).
  Qed.

  Theorem blk_homotopy_tgt : dadd o (dmul o blk_bt blk_ft) (dmul o blk_A blk_h) = did o (r + mr).
  Proof.
    unfold blk_bt, blk_ft, blk_h, blk_A.
    rewrite !(dmul_vcat_l o) by (dd; side).
    rewrite !(dmul_hcat_vcat o L) by (dd; side).
    rewrite !(dmul_hcat_r o) by (dd; side).
    rewrite ?(dmul_zero_l o L), ?(dmul_zero_r o L).
    rewrite ?(dmul_id_l o L), ?(dmul_id_r o L) by (dd; side).
    rewrite Hinv1. dd. dnorm.
    rewrite !(dadd_zero_r' o L) by side.
    rewrite (dadd_vcat o) by side.
    rewrite !(dadd_hcat o) by side.
    rewrite !(dadd_zero_r' o L) by side. rewrite !(dadd_zero_l' o L) by side.
    rewrite (dadd_neg_l o L). dnorm. apply (did_blocks o).
  Qed.

  (* B6: side conditions of a strong deformation retraction *)
  Theorem blk_fh : dmul o blk_fs blk_h = dzero o nr (r + mr).
  Proof.
    unfold blk_fs, blk_h. rewrite (dmul_hcat_vcat o L) by side.
    rewrite (dmul_zero_l o L), (dmul_id_l o L) by side. dnorm.
    apply (dadd_zero_l' o L); side.
  Qed.

  Theorem blk_hb : dmul o blk_h blk_bt = dzero o (r + nr) mr.
  Proof.
    unfold blk_h, blk_bt. rewrite (dmul_vcat_l o) by side.
    rewrite (dmul_hcat_vcat o L) by side.
    rewrite !(dmul_zero_l o L), !(dmul_zero_r o L) by side. dnorm.
    rewrite (dadd_zero_l' o L) by side. apply (dzero_vcat o).
  Qed.
End Block.
