(* The chain reducer as a whole: every public operation of the model (reduce_at_spec, reduce_at,
   reduce_all, reduce, scripts of them) preserves the invariant of C08All.v for every oracle stream;
   the initial states satisfy it; consequences (explicit form of the invariant, ChainComplexBase::reduced,
   homology, soundness of the certificate checker). *)
From Coq Require Import Arith List Lia Bool Ring Permutation.
Require Import Yui.Base.Ring Yui.Base.MatF Yui.Base.MatL Yui.Model.Reducer.
Require Import Yui.Proofs.C08Mat Yui.Proofs.C08Perm Yui.Proofs.C08Tri Yui.Proofs.C08Block Yui.Proofs.C08Step.
Require Import Yui.Proofs.C08All.
Import ListNotations.

Section Run.
  Context {R : Type} (o : ring_ops R) (L : ring_laws o) (u : unit_ops R) (UL : unit_laws o u).
  Local Notation dmat := (dmat R).
  Local Notation dwf := (@dwf R).
  Local Notation state := (state R).
  Local Notation oracle := (list (list (nat * nat))).

  Context (M : nat) (N : nat -> nat) (D : nat -> dmat) (V0 : nat -> list (list R)).
  Context (HD : forall p, p < M -> dwf (D p) /\ dr (D p) = N (S p) /\ dc (D p) = N p).

  (* the strong deformation retraction, the ghost data quantified *)
  Definition sdr (st : state) : Prop := exists g, Inv o M N D V0 st g.

  (* [st'] was reached from [st]: the ghost flag is monotone and the retraction is kept while it is set *)
  Definition pres (st st' : state) : Prop :=
    (okf st' = true -> okf st = true) /\ (sdr st -> okf st' = true -> sdr st') /\
    (forall q, is_some (trs st' q) = is_some (trs st q)).

  Lemma pres_refl st : pres st st.
  Proof. repeat split; auto. Qed.
  Lemma pres_trans st1 st2 st3 : pres st1 st2 -> pres st2 st3 -> pres st1 st3.
  Proof. intros (A1 & B1 & C1) (A2 & B2 & C2). repeat split; auto. intros q. now rewrite C2. Qed.

  (* ---------- one step ---------- *)
  Lemma reduce_with_pres st p a1 pt pivs st' cont :
    mats st p = Some a1 -> reduce_with o u st p a1 pt pivs = Some (st', cont) -> pres st st'.
  Proof.
    intros Ha E. unfold reduce_with in E. cbv zeta in E.
    destruct (perm_order (dr a1) (map fst pivs)) as [vp|] eqn:Evp; [|discriminate]. cbn [obind] in E.
    destruct (perm_order (dc a1) (map snd pivs)) as [vq|] eqn:Evq; [|discriminate]. cbn [obind] in E.
    destruct (length pivs =? 0) eqn:Er.
    { injection E as <- <-. apply pres_refl. }
    set (A' := permute o a1 vp vq) in *. set (r := length pivs) in *. set (t := ttype_of pt) in *.
    destruct (schur_of o u t A' r) as [sc|] eqn:Esc; [|discriminate]. cbn [obind] in E.
    destruct (update_mats o (mats st) p vp vq r (sc_s sc)) as [ms|] eqn:Ems; [|discriminate]. cbn [obind] in E.
    match type of E with obind ?X _ = _ => destruct X as [ts|] eqn:Ets; [|discriminate] end. cbn [obind] in E.
    destruct (update_vecs o (vcs st) p vp vq r sc) as [vs|] eqn:Evs; [|discriminate]. cbn [obind] in E.
    injection E as <- <-. split; [|split]; cbn [okf trs].
    - intros H. apply andb_true_iff in H. tauto.
    - intros [g I] H. apply andb_true_iff in H. destruct H as [_ Ht].
      destruct (perm_order_spec _ _ _ Evp) as (Hvp & _). destruct (perm_order_spec _ _ _ Evq) as (Hvq & _).
      exists (g' o g p a1 vp vq r sc).
      apply (step_inv o L u UL M N D V0 HD st g I p a1 Ha vp vq r t sc Hvp Hvq); try assumption.
      + now apply (tri_okb_ok o L).
      + destruct (is_some (trs st p) || is_some (trs st (S p))) eqn:Ew.
        * right.
          destruct (schur_t_src o (dc a1) r sc) as [t_s|]; [|discriminate]. cbn [obind] in Ets.
          destruct (schur_t_tgt o (dr a1) r sc) as [t_t|]; [|discriminate]. cbn [obind] in Ets.
          exists t_s, t_t. auto.
        * left. apply orb_false_iff in Ew. destruct Ew as [E1 E2].
          destruct (trs st p); [discriminate|]. destruct (trs st (S p)); [discriminate|].
          injection Ets as <-. auto.
    - intros q. destruct (is_some (trs st p) || is_some (trs st (S p))) eqn:Ew.
      + destruct (schur_t_src o (dc a1) r sc) as [t_s|]; [|discriminate]. cbn [obind] in Ets.
        destruct (schur_t_tgt o (dr a1) r sc) as [t_t|]; [|discriminate]. cbn [obind] in Ets.
        destruct (update_trans_spec o _ _ _ _ _ _ _ Ets) as (Ho & Hp1 & Hp2).
        destruct (Nat.eq_dec q p) as [->|Hqp]; [|destruct (Nat.eq_dec q (S p)) as [->|HqS]].
        * destruct (trs st p); [|now rewrite Hp1]. destruct Hp1 as (? & ? & _ & _ & ->). reflexivity.
        * destruct (trs st (S p)); [|now rewrite Hp2]. destruct Hp2 as (? & ? & _ & _ & ->). reflexivity.
        * now rewrite Ho.
      + now injection Ets as <-.
  Qed.

  Lemma reduce_at_spec_pres st p pt orc st' cont orc' :
    reduce_at_spec o u st p pt orc = Some (st', cont, orc') -> pres st st'.
  Proof.
    unfold reduce_at_spec. destruct (mats st p) as [a1|] eqn:Ha; [|discriminate].
    destruct (dis_zero o a1). { intros [= <- <- <-]. apply pres_refl. }
    destruct orc as [|pivs rest]; [discriminate|].
    destruct (reduce_with o u st p a1 pt pivs) as [[st1 c1]|] eqn:E; [|discriminate]. cbn [obind].
    intros [= <- <- <-]. eapply reduce_with_pres; eassumption.
  Qed.

  Lemma reduce_at_pres deep p pt orc : forall st st' orc',
    reduce_at o u deep p pt orc st = Some (st', orc') -> pres st st'.
  Proof.
    induction orc as [|pivs rest IH]; intros st st' orc'; cbn [reduce_at];
      destruct (mats st p) as [a1|] eqn:Ha; try discriminate;
      (destruct (dis_zero o a1); [intros [= <- <-]; apply pres_refl|]); [discriminate|].
    destruct (reduce_with o u st p a1 pt pivs) as [[st1 c1]|] eqn:E; [|discriminate]. cbn [obind].
    pose proof (reduce_with_pres _ _ _ _ _ _ _ Ha E) as P1.
    destruct (deep && c1).
    - intros E2. eapply pres_trans; [exact P1|]. eapply IH; eassumption.
    - intros [= <- <-]. exact P1.
  Qed.

  Lemma reduce_seq_pres deep supp : forall orc st st' orc',
    reduce_seq o u deep supp orc st = Some (st', orc') -> pres st st'.
  Proof.
    induction supp as [|p rest IH]; intros orc st st' orc'; cbn [reduce_seq].
    - intros [= <- <-]. apply pres_refl.
    - destruct (reduce_at o u deep p Cols orc st) as [[st1 o1]|] eqn:E; [|discriminate]. cbn [obind].
      intros E2. eapply pres_trans; [eapply reduce_at_pres; eassumption|eapply IH; eassumption].
  Qed.

  Lemma reduce_all_pres deep supp orc st st' orc' :
    reduce_all o u deep supp orc st = Some (st', orc') -> pres st st'.
  Proof.
    unfold reduce_all. destruct (is_done o st supp).
    - intros [= <- <-]. apply pres_refl.
    - apply reduce_seq_pres.
  Qed.

  Lemma reduce_pres supp orc st st' orc' :
    reduce o u supp orc st = Some (st', orc') -> pres st st'.
  Proof.
    unfold reduce. destruct (reduce_all o u false supp orc st) as [[st1 o1]|] eqn:E; [|discriminate]. cbn [obind].
    intros E2. eapply pres_trans; eapply reduce_all_pres; eassumption.
  Qed.

  Lemma run_op_pres supp x st orc st' orc' :
    run_op o u supp x st orc = Some (st', orc') -> pres st st'.
  Proof.
    destruct x as [p pt|p deep|deep]; cbn [run_op].
    - destruct (reduce_at_spec o u st p pt orc) as [[[st1 c1] o1]|] eqn:E; [|discriminate]. cbn [obind].
      intros [= <- <-]. eapply reduce_at_spec_pres; eassumption.
    - apply reduce_at_pres.
    - apply reduce_all_pres.
  Qed.

  Lemma run_script_pres supp ops : forall st orc st' orc',
    run_script o u supp ops st orc = Some (st', orc') -> pres st st'.
  Proof.
    induction ops as [|x rest IH]; intros st orc st' orc'; cbn [run_script].
    - intros [= <- <-]. apply pres_refl.
    - destruct (run_op o u supp x st orc) as [[st1 o1]|] eqn:E; [|discriminate]. cbn [obind].
      intros E2. eapply pres_trans; [eapply run_op_pres; eassumption|eapply IH; eassumption].
  Qed.

  (* ---------- the initial state ---------- *)
  Definition g0 : ghost :=
    mkG N (fun p => did o (N p)) (fun p => did o (N p)) (fun p => dzero o (N p) (N (S p))).

  (* what ChainReducer::new + set_matrix + add_vec build from a complex *)
  Definition is_input (st0 : state) : Prop :=
    (forall p, p < M -> mats st0 p = Some (D p)) /\
    (forall p, M <= p -> mats st0 p = None) /\
    (forall p, S p < M -> dmul o (D (S p)) (D p) = dzero o (N (S (S p))) (N p)) /\
    (forall p t, trs st0 p = Some t -> p < M /\ t = t_id o (N p)) /\
    (forall p, p <= M -> vcs st0 p = V0 p /\ Forall (fun v => length v = N p) (V0 p)).

  Lemma Forall_diag {A} (P : A -> Prop) (Q : A -> A -> Prop) l :
    (forall x, P x -> Q x x) -> Forall P l -> Forall2 Q l l.
  Proof. intros H HF. induction HF; constructor; auto. Qed.

  Lemma init_inv st0 : is_input st0 -> Inv o M N D V0 st0 g0.
  Proof.
    intros (Hm & Hn & Hc & Ht & Hv). constructor; cbn [g0 gn gF gB gH].
    - intros p Hp. exists (D p). destruct (HD p Hp) as (W & Hr & Hcc). auto.
    - exact Hn.
    - intros p d0 d1 E0 E1.
      assert (Hp : S p < M).
      { destruct (Nat.lt_ge_cases (S p) M) as [H|H]; [exact H|]. rewrite (Hn _ H) in E1. discriminate. }
      rewrite Hm in E0, E1 by lia. injection E0 as <-. injection E1 as <-.
      destruct (HD p ltac:(lia)) as (_ & _ & ->). destruct (HD (S p) Hp) as (_ & -> & _). now apply Hc.
    - intros p Hp. csplit; [dwfs|reflexivity|reflexivity].
    - intros p Hp. csplit; [dwfs|reflexivity|reflexivity].
    - intros p Hp. apply (dmul_id_l o L); [dwfs|reflexivity].
    - intros p d E.
      assert (Hp : p < M).
      { destruct (Nat.lt_ge_cases p M) as [H|H]; [exact H|]. rewrite (Hn _ H) in E. discriminate. }
      rewrite Hm in E by assumption. injection E as <-. destruct (HD p Hp) as (W & Hr & Hcc).
      rewrite (dmul_id_l o L), (dmul_id_r o L) by assumption. reflexivity.
    - intros p d E.
      assert (Hp : p < M).
      { destruct (Nat.lt_ge_cases p M) as [H|H]; [exact H|]. rewrite (Hn _ H) in E. discriminate. }
      rewrite Hm in E by assumption. injection E as <-. destruct (HD p Hp) as (W & Hr & Hcc).
      rewrite (dmul_id_l o L), (dmul_id_r o L) by assumption. reflexivity.
    - intros p Hp. csplit; [dwfs|reflexivity|reflexivity].
    - intros p Hp. rewrite (dmul_id_l o L) by (dwfs || reflexivity).
      assert (E1 : Hlo o N D g0 p = dzero o (N p) (N p)).
      { destruct p as [|q]; cbn [Hlo g0 gH]; [reflexivity|].
        rewrite (dmul_zero_r o L). destruct (HD q ltac:(lia)) as (_ & -> & _). reflexivity. }
      assert (E2 : Hhi o M N D g0 p = dzero o (N p) (N p)).
      { unfold Hhi. cbn [g0 gH]. destruct (Nat.ltb_spec p M) as [H|H]; [|reflexivity].
        rewrite (dmul_zero_l o L). destruct (HD p H) as (_ & _ & ->). reflexivity. }
      rewrite E1, E2.
      rewrite (dadd_zero_r' o L) by (dwfs || reflexivity).
      apply (dadd_zero_r' o L); (dwfs || reflexivity).
    - intros p t E. destruct (Ht p t E) as (Hp & ->). split; [exact Hp|reflexivity].
    - intros p Hp. destruct (Hv p Hp) as (-> & HF).
      apply (Forall_diag (fun v => length v = N p)); [|exact HF].
      intros v Hl. split; [exact Hl|]. symmetry. apply (dmul_id_l o L); [apply dwf_dmk|exact Hl].
  Qed.

  (* ---------- every script of operations, every oracle ---------- *)
  Theorem run_script_main st0 supp ops orc st orc' :
    is_input st0 ->
    run_script o u supp ops st0 orc = Some (st, orc') -> okf st = true -> sdr st.
  Proof.
    intros Hin E Hok. destruct (run_script_pres _ _ _ _ _ _ E) as (_ & P & _). apply P; [|exact Hok].
    exists g0. now apply init_inv.
  Qed.

  Theorem reduce_main st0 supp orc st orc' :
    is_input st0 -> reduce o u supp orc st0 = Some (st, orc') -> okf st = true -> sdr st.
  Proof.
    intros Hin E Hok. destruct (reduce_pres _ _ _ _ _ E) as (_ & P & _). apply P; [|exact Hok].
    exists g0. now apply init_inv.
  Qed.

  Theorem step_main st p a1 pt pivs st' cont :
    sdr st -> mats st p = Some a1 -> reduce_with o u st p a1 pt pivs = Some (st', cont) ->
    okf st' = true -> sdr st'.
  Proof. intros S Ha E Hok. destruct (reduce_with_pres _ _ _ _ _ _ _ Ha E) as (_ & P & _). now apply P. Qed.

  Theorem step_spec_main st p pt orc st' cont orc' :
    sdr st -> reduce_at_spec o u st p pt orc = Some (st', cont, orc') -> okf st' = true -> sdr st'.
  Proof. intros S E Hok. destruct (reduce_at_spec_pres _ _ _ _ _ _ _ E) as (_ & P & _). now apply P. Qed.

  (* ---------- a step never panics on valid pivots ---------- *)
  Lemma tri_inv_dims t a r X : tri_inv o u t a r = Some X -> dr X = r /\ dc X = r.
  Proof.
    destruct t; cbn [tri_inv]; unfold inv_lower.
    - destruct (inv_rows o u (dtrans o a) r r); [|discriminate]. cbn [obind]. intros [= <-]. split; reflexivity.
    - destruct (inv_rows o u a r r); [|discriminate]. cbn [obind]. intros [= <-]. split; reflexivity.
  Qed.

  Lemma omap_some {A B} (f : A -> option B) (P : A -> Prop) l :
    (forall x, P x -> exists y, f x = Some y) -> Forall P l -> exists l', omap f l = Some l'.
  Proof.
    intros H HF. induction HF as [|x l Hx HF IH]; cbn [omap]; [eauto|].
    destruct (H x Hx) as [y ->]. destruct IH as [ys ->]. cbn [obind]. eauto.
  Qed.

  Lemma nodup_bound n l : NoDup l -> Forall (fun x => x < n) l -> length l <= n.
  Proof.
    intros H1 H2. rewrite <- (seq_length n 0). apply NoDup_incl_length; [exact H1|].
    intros x Hx. rewrite Forall_forall in H2. apply in_seq. specialize (H2 x Hx). lia.
  Qed.

  Theorem reduce_with_some st p a1 pt pivs :
    sdr st -> mats st p = Some a1 ->
    NoDup (map fst pivs) -> Forall (fun i => i < dr a1) (map fst pivs) ->
    NoDup (map snd pivs) -> Forall (fun j => j < dc a1) (map snd pivs) ->
    (forall vp vq, perm_order (dr a1) (map fst pivs) = Some vp -> perm_order (dc a1) (map snd pivs) = Some vq ->
       unit_diag o u (dblock o (permute o a1 vp vq) 0 0 (length pivs) (length pivs)) (length pivs)) ->
    exists st' cont, reduce_with o u st p a1 pt pivs = Some (st', cont).
  Proof.
    intros [g I] Ha Hn1 Hf1 Hn2 Hf2 Hu. unfold reduce_with. cbv zeta.
    destruct (perm_order_some _ _ Hn1 Hf1) as [vp Evp]. destruct (perm_order_some _ _ Hn2 Hf2) as [vq Evq].
    rewrite Evp, Evq. cbn [obind]. specialize (Hu vp vq Evp Evq).
    destruct (length pivs =? 0); [eauto|].
    destruct (perm_order_spec _ _ _ Evp) as (Hvp & _). destruct (perm_order_spec _ _ _ Evq) as (Hvq & _).
    pose proof (perm_length _ _ Hvp) as Lvp. pose proof (perm_length _ _ Hvq) as Lvq.
    set (r := length pivs) in *. set (t := ttype_of pt).
    assert (Hrm : r <= dr a1). { unfold r. rewrite <- (map_length fst). now apply nodup_bound. }
    assert (Hrn : r <= dc a1). { unfold r. rewrite <- (map_length snd). now apply nodup_bound. }
    assert (HpM : p < M).
    { destruct (Nat.lt_ge_cases p M) as [H|H]; [exact H|]. rewrite (inv_none _ _ _ _ _ _ _ I p H) in Ha. discriminate. }
    destruct (inv_mats _ _ _ _ _ _ _ I p HpM) as (d & Ed & W1 & Hm & Hn). rewrite Ha in Ed. injection Ed as <-.
    (* the Schur complement *)
    unfold schur_of. rewrite dr_permute, dc_permute.
    destruct (Nat.leb_spec r (dr a1)); [|lia]. destruct (Nat.leb_spec r (dc a1)); [|lia]. cbn [andb].
    destruct (tri_inv_some o u UL t (dblock o (permute o a1 vp vq) 0 0 r r) r eq_refl eq_refl Hu) as [X EX].
    rewrite EX. cbn [obind]. destruct (tri_inv_dims _ _ _ _ EX) as (HXr & HXc).
    match goal with |- context [mkS ?s0 ?ai ?aib ?cai ?c0] => set (sc := mkS s0 ai aib cai c0) end.
    (* update_mats *)
    assert (Emats : exists ms, update_mats o (mats st) p vp vq r (sc_s sc) = Some ms).
    { unfold update_mats.
      assert (E1 : exists ms1, match p with
                   | O => Some (mats st)
                   | S p0 => match mats st p0 with
                             | None => Some (mats st)
                             | Some a0 => if dr a0 =? length vq
                                          then Some (fupd (mats st) p0 (Some (reduce_mat_rows o a0 vq r))) else None
                             end
                   end = Some ms1 /\ ms1 (S p) = mats st (S p)).
      { destruct p as [|p0]; [eauto|].
        destruct (mats st p0) as [a0|] eqn:Ea0; [|eauto].
        destruct (inv_mats _ _ _ _ _ _ _ I p0 ltac:(lia)) as (d & Ed & _ & Hr0 & _). rewrite Ea0 in Ed. injection Ed as <-.
        destruct (Nat.eqb_spec (dr a0) (length vq)) as [_|Hne]; [|exfalso; apply Hne; congruence].
        eexists. split; [reflexivity|]. apply fupd_neq. lia. }
      destruct E1 as (ms1 & -> & E2). cbn [obind]. rewrite fupd_neq by lia. rewrite E2.
      destruct (mats st (S p)) as [a2|] eqn:Ea2; [|eauto].
      assert (HS : S p < M).
      { destruct (Nat.lt_ge_cases (S p) M) as [H'|H']; [exact H'|]. rewrite (inv_none _ _ _ _ _ _ _ I _ H') in Ea2. discriminate. }
      destruct (inv_mats _ _ _ _ _ _ _ I (S p) HS) as (d & Ed & _ & _ & Hc2). rewrite Ea2 in Ed. injection Ed as <-.
      destruct (Nat.eqb_spec (dc a2) (length vp)) as [_|Hne]; [eauto|exfalso; apply Hne; congruence]. }
    destruct Emats as [ms ->]. cbn [obind].
    (* update_trans *)
    assert (Etrans : exists ts, (if is_some (trs st p) || is_some (trs st (S p))
                                 then do t_s <- schur_t_src o (dc a1) r sc; do t_t <- schur_t_tgt o (dr a1) r sc;
                                      update_trans o (trs st) p vp vq t_s t_t
                                 else Some (trs st)) = Some ts).
    { destruct (is_some (trs st p) || is_some (trs st (S p))); [|eauto].
      unfold schur_t_src, schur_t_tgt, t_new. subst sc. cbn [sc_ainvb sc_cainv]. autorewrite with ddim.
      rewrite HXr, HXc.
      destruct (Nat.eqb_spec (dc a1) (r + (dc a1 - r))); [|lia]. rewrite Nat.eqb_refl. cbn [andb obind].
      destruct (Nat.eqb_spec (r + (dr a1 - r)) (dr a1)); [|lia]. rewrite Nat.eqb_refl. cbn [andb obind].
      unfold update_trans.
      assert (E1 : forall (q : nat) (v : list nat) (ts0 : trans R), length v = gn g q -> t_src ts0 = gn g q ->
                 forall t1, trs st q = Some t1 -> exists t1'', (do t1' <- t_append_perm o t1 v; t_merge o t1' ts0) = Some t1'').
      { intros q v ts0 Hl Hs t1 Et1. destruct (inv_trs _ _ _ _ _ _ _ I q t1 Et1) as (_ & ->).
        unfold t_append_perm, t_append. cbn [t_tgt t_src t_f t_b]. autorewrite with ddim.
        rewrite Hl, !Nat.eqb_refl. cbn [andb obind]. unfold t_merge. cbn [t_tgt t_src t_f t_b]. autorewrite with ddim.
        rewrite ?Hl, Hs, Nat.eqb_refl. eauto. }
      destruct (trs st p) as [t1|] eqn:Et1.
      - destruct (E1 p vq (mkT (dc a1) (dc a1 - r) (proj o (dc a1) (dc a1 - r))
                   (dvcat o (dneg o (dmul o X (dblock o (permute o a1 vp vq) 0 r r (dc a1 - r)))) (did o (dc a1 - r))))
                   ltac:(congruence) ltac:(cbn [t_src]; congruence) t1 Et1) as [t1'' E1''].
        destruct (t_append_perm o t1 vq) as [t1'|]; [|discriminate]. cbn [obind] in E1''. cbn [obind]. rewrite E1''. cbn [obind].
        rewrite fupd_neq by lia.
        destruct (trs st (S p)) as [t2|] eqn:Et2; [|eauto].
        destruct (E1 (S p) vp (mkT (r + (dr a1 - r)) (dr a1 - r)
                     (dhcat o (dneg o (dmul o (dblock o (permute o a1 vp vq) r 0 (dr a1 - r) r) X)) (did o (dr a1 - r)))
                     (incl o (dr a1) (dr a1 - r))) ltac:(congruence) ltac:(cbn [t_src]; lia) t2 Et2) as [t2'' E2''].
        destruct (t_append_perm o t2 vp) as [t2'|]; [|discriminate]. cbn [obind] in E2''. cbn [obind]. rewrite E2''. cbn [obind].
        eauto.
      - cbn [obind].
        destruct (trs st (S p)) as [t2|] eqn:Et2; [|eauto].
        destruct (E1 (S p) vp (mkT (r + (dr a1 - r)) (dr a1 - r)
                     (dhcat o (dneg o (dmul o (dblock o (permute o a1 vp vq) r 0 (dr a1 - r) r) X)) (did o (dr a1 - r)))
                     (incl o (dr a1) (dr a1 - r))) ltac:(congruence) ltac:(cbn [t_src]; lia) t2 Et2) as [t2'' E2''].
        destruct (t_append_perm o t2 vp) as [t2'|]; [|discriminate]. cbn [obind] in E2''. cbn [obind]. rewrite E2''. cbn [obind].
        eauto. }
    destruct Etrans as [ts ->]. cbn [obind].
    (* update_vecs *)
    assert (Evecs : exists vs, update_vecs o (vcs st) p vp vq r sc = Some vs).
    { unfold update_vecs.
      assert (F1 : Forall (fun v => length v = length vq) (vcs st p)).
      { pose proof (inv_vcs _ _ _ _ _ _ _ I p ltac:(lia)) as HF. clear - HF Lvq Hn.
        induction HF as [|v v0 l l0 [Hl _] _ IH]; constructor; [congruence|exact IH]. }
      assert (F2 : Forall (fun v => length v = length vp) (vcs st (S p))).
      { pose proof (inv_vcs _ _ _ _ _ _ _ I (S p) ltac:(lia)) as HF. clear - HF Lvp Hm.
        induction HF as [|v v0 l l0 [Hl _] _ IH]; constructor; [congruence|exact IH]. }
      assert (G1 : forall v, length v = length vq -> exists w, vec_src o vq r (length vq) v = Some w).
      { intros v Hv. unfold vec_src. rewrite Hv, Nat.eqb_refl. eauto. }
      assert (G2 : forall v, length v = length vp -> exists w, vec_tgt o vp r (length vp) sc v = Some w).
      { intros v Hv. unfold vec_tgt. rewrite Hv, Nat.eqb_refl. eauto. }
      destruct (omap_some _ _ _ G1 F1) as [v1 ->]. cbn [obind]. rewrite fupd_neq by lia.
      destruct (omap_some _ _ _ G2 F2) as [v2 ->]. cbn [obind]. eauto. }
    destruct Evecs as [vs ->]. cbn [obind]. eauto.
  Qed.

  (* ---------- the invariant spelled out ---------- *)
  Definition sdr_explicit (st : state) : Prop :=
    exists (n : nat -> nat) (F B H : nat -> dmat),
      (* the current complex: M differentials d_p : n_p -> n_(p+1), and d_(p+1) d_p = 0 *)
      (forall p, p < M -> exists d, mats st p = Some d /\ dwf d /\ dr d = n (S p) /\ dc d = n p) /\
      (forall p, M <= p -> mats st p = None) /\
      (forall p d0 d1, mats st p = Some d0 -> mats st (S p) = Some d1 -> dmul o d1 d0 = dzero o (dr d1) (dc d0)) /\
      (* shapes of F_p : N_p -> n_p, B_p : n_p -> N_p (p <= M), H_p : N_(p+1) -> N_p (p < M) *)
      (forall p, p <= M -> dwf (F p) /\ dr (F p) = n p /\ dc (F p) = N p) /\
      (forall p, p <= M -> dwf (B p) /\ dr (B p) = N p /\ dc (B p) = n p) /\
      (forall p, p < M -> dwf (H p) /\ dr (H p) = N p /\ dc (H p) = N (S p)) /\
      (* F B = 1 *)
      (forall p, p <= M -> dmul o (F p) (B p) = did o (n p)) /\
      (* F and B are chain maps *)
      (forall p d, mats st p = Some d -> dmul o (F (S p)) (D p) = dmul o d (F p)) /\
      (forall p d, mats st p = Some d -> dmul o (D p) (B p) = dmul o (B (S p)) d) /\
      (* B F + D H + H D = 1 on every space of the original complex *)
      (forall p, p <= M ->
         dadd o (dmul o (B p) (F p))
           (dadd o (match p with O => dzero o (N 0) (N 0) | S q => dmul o (D q) (H q) end)
                   (if p <? M then dmul o (H p) (D p) else dzero o (N p) (N p))) = did o (N p)) /\
      (* the stored Trans are (F_p, B_p) *)
      (forall p t, trs st p = Some t -> p < M /\ t = mkT (N p) (n p) (F p) (B p)) /\
      (* the tracked vectors are F applied to the original ones *)
      (forall p, p <= M ->
         Forall2 (fun v v0 => length v = n p /\ vmat o v = dmul o (F p) (vmat o v0)) (vcs st p) (V0 p)).

  Lemma sdr_iff st : sdr st <-> sdr_explicit st.
  Proof.
    split.
    - intros [g [I1 I2 I3 I4 I5 I6 I7 I8 I9 I10 I11 I12]].
      exists (gn g), (gF g), (gB g), (gH g). csplit; assumption.
    - intros (n & F & B & H & I1 & I2 & I3 & I4 & I5 & I9 & I6 & I7 & I8 & I10 & I11 & I12).
      exists (mkG n F B H). constructor; assumption.
  Qed.

  (* ---------- consequences ---------- *)
  (* ChainComplexBase::reduced: the differential seen through the Trans is the reducer's matrix *)
  Lemma reduced_d_eq st p d tp tq :
    sdr st -> mats st p = Some d -> trs st p = Some tp -> trs st (S p) = Some tq ->
    reduced_d o (D p) (Some tp) (Some tq) = Some d.
  Proof.
    intros [g I] Ed Ep Eq. cbn [reduced_d].
    destruct (inv_trs _ _ _ _ _ _ _ I p tp Ep) as (Hp & ->).
    destruct (inv_trs _ _ _ _ _ _ _ I (S p) tq Eq) as (HSp & ->). cbn [t_f t_b].
    destruct (HD p Hp) as (WD & HDr & HDc).
    destruct (inv_F _ _ _ _ _ _ _ I p ltac:(lia)) as (WF & HFr & HFc).
    destruct (inv_F _ _ _ _ _ _ _ I (S p) ltac:(lia)) as (WF2 & HF2r & HF2c).
    destruct (inv_mats _ _ _ _ _ _ _ I p Hp) as (d' & Ed' & Wd & Hdr & Hdc). rewrite Ed in Ed'. injection Ed' as <-.
    rewrite <- (dmul_assoc o L) by congruence.
    rewrite (inv_Fc _ _ _ _ _ _ _ I p d Ed).
    rewrite (dmul_assoc o L) by congruence.
    rewrite (inv_FB _ _ _ _ _ _ _ I p ltac:(lia)). f_equal. apply (dmul_id_r o L); congruence.
  Qed.

  (* homology: F and B induce mutually inverse isomorphisms.  X is any matrix of columns of C_p. *)
  Lemma homology_main st : sdr st -> exists (n : nat -> nat) (F B : nat -> dmat),
    forall p d, mats st p = Some d ->
      (* F maps cycles to cycles, B maps cycles to cycles *)
      (forall X, dr X = N p -> dmul o (D p) X = dzero o (N (S p)) (dc X) ->
                 dmul o d (dmul o (F p) X) = dzero o (n (S p)) (dc X)) /\
      (forall Y, dr Y = n p -> dmul o d Y = dzero o (n (S p)) (dc Y) ->
                 dmul o (D p) (dmul o (B p) Y) = dzero o (N (S p)) (dc Y)) /\
      (* boundaries to boundaries *)
      (forall X, dr X = N p -> dmul o (F (S p)) (dmul o (D p) X) = dmul o d (dmul o (F p) X)) /\
      (forall Y, dr Y = n p -> dmul o (B (S p)) (dmul o d Y) = dmul o (D p) (dmul o (B p) Y)) /\
      (* F B = 1 on the reduced complex *)
      (forall Y, dwf Y -> dr Y = n p -> dmul o (F p) (dmul o (B p) Y) = Y) /\
      (* a cycle of the original complex differs from B F of it by a boundary (a cycle of C_0 is anything) *)
      (forall X, dwf X -> dr X = N p -> dmul o (D p) X = dzero o (N (S p)) (dc X) ->
         match p with
         | O => X = dmul o (B 0) (dmul o (F 0) X)
         | S q => exists W, dr W = N q /\ X = dadd o (dmul o (B p) (dmul o (F p) X)) (dmul o (D q) W)
         end).
  Proof.
    intros [g I]. exists (gn g), (gF g), (gB g). intros p d Ed.
    assert (Hp : p < M).
    { destruct (Nat.lt_ge_cases p M) as [H|H]; [exact H|]. rewrite (inv_none _ _ _ _ _ _ _ I p H) in Ed. discriminate. }
    destruct (HD p Hp) as (WD & HDr & HDc).
    destruct (inv_F _ _ _ _ _ _ _ I p ltac:(lia)) as (WF & HFr & HFc).
    destruct (inv_F _ _ _ _ _ _ _ I (S p) ltac:(lia)) as (WF2 & HF2r & HF2c).
    destruct (inv_B _ _ _ _ _ _ _ I p ltac:(lia)) as (WB & HBr & HBc).
    destruct (inv_B _ _ _ _ _ _ _ I (S p) ltac:(lia)) as (WB2 & HB2r & HB2c).
    destruct (inv_mats _ _ _ _ _ _ _ I p Hp) as (d' & Ed' & Wd & Hdr & Hdc). rewrite Ed in Ed'. injection Ed' as <-.
    pose proof (inv_Fc _ _ _ _ _ _ _ I p d Ed) as EF. pose proof (inv_Bc _ _ _ _ _ _ _ I p d Ed) as EB.
    csplit.
    - intros X HX E. rewrite <- (dmul_assoc o L) by congruence. rewrite <- EF.
      rewrite (dmul_assoc o L) by congruence. rewrite E. rewrite (dmul_zero_r o L). now rewrite HF2r.
    - intros Y HY E. rewrite <- (dmul_assoc o L) by congruence. rewrite EB.
      rewrite (dmul_assoc o L) by congruence. rewrite E. rewrite (dmul_zero_r o L). now rewrite HB2r.
    - intros X HX. rewrite <- !(dmul_assoc o L) by congruence. now rewrite EF.
    - intros Y HY. rewrite <- !(dmul_assoc o L) by congruence. now rewrite EB.
    - intros Y WY HY. rewrite <- (dmul_assoc o L) by congruence.
      rewrite (inv_FB _ _ _ _ _ _ _ I p ltac:(lia)). now apply (dmul_id_l o L).
    - intros X WX HX E. pose proof (inv_hom _ _ _ _ _ _ _ I p ltac:(lia)) as EH.
      destruct (inv_H _ _ _ _ _ _ _ I p Hp) as (WH & HHr & HHc).
      assert (EX : dmul o (did o (N p)) X = X) by now apply (dmul_id_l o L).
      rewrite <- EH in EX. unfold Hhi in EX. destruct (Nat.ltb_spec p M) as [_|]; [|lia].
      assert (Ez : dmul o (dmul o (gH g p) (D p)) X = dzero o (N p) (dc X)).
      { rewrite (dmul_assoc o L) by congruence. rewrite E. rewrite (dmul_zero_r o L). now rewrite HHr. }
      destruct p as [|q]; cbn [Hlo] in EX.
      + rewrite (dmul_add_l o L) in EX by (autorewrite with ddim; congruence).
        rewrite (dmul_add_l o L) in EX by (autorewrite with ddim; congruence).
        rewrite Ez in EX. rewrite (dmul_zero_l o L) in EX.
        rewrite (dadd_zero_r' o L) in EX by (dwfs || reflexivity).
        rewrite (dadd_zero_r' o L) in EX by (dwfs || (autorewrite with ddim; congruence)).
        rewrite (dmul_assoc o L) in EX by congruence. now symmetry.
      + destruct (HD q ltac:(lia)) as (WDq & HDqr & HDqc).
        destruct (inv_H _ _ _ _ _ _ _ I q ltac:(lia)) as (WHq & HHqr & HHqc).
        exists (dmul o (gH g q) X). split; [autorewrite with ddim; exact HHqr|].
        rewrite (dmul_add_l o L) in EX by (autorewrite with ddim; congruence).
        rewrite (dmul_add_l o L) in EX by (autorewrite with ddim; congruence).
        rewrite Ez in EX.
        rewrite (dadd_zero_r' o L) in EX by (dwfs || (autorewrite with ddim; congruence)).
        rewrite (dmul_assoc o L) in EX by congruence.
        rewrite (dmul_assoc o L (D q)) in EX by congruence. now symmetry.
  Qed.
End Run.

(* ---------- ChainReducer::from / reduce / ChainComplexBase::reduced ---------- *)
Section FromComplex.
  Context {R : Type} (o : ring_ops R) (L : ring_laws o) (u : unit_ops R) (UL : unit_laws o u).
  Local Notation dmat := (dmat R).
  Local Notation dwf := (@dwf R).

  (* a complex C_0 -> .. -> C_(k-1) with ranks [dims] (k >= 1) and differentials [ds] (k - 1 of them) *)
  Definition is_complex (dims : list nat) (ds : list dmat) : Prop :=
    S (length ds) = length dims /\
    (forall p, p < length ds ->
       dwf (nth p ds (dzero o 0 0)) /\ dr (nth p ds (dzero o 0 0)) = nth (S p) dims 0 /\
       dc (nth p ds (dzero o 0 0)) = nth p dims 0) /\
    (forall p, S p < length ds ->
       dmul o (nth (S p) ds (dzero o 0 0)) (nth p ds (dzero o 0 0)) = dzero o (nth (S (S p)) dims 0) (nth p dims 0)).

  (* the reducer's keys: the given differentials, then C_(k-1) -> 0 and 0 -> 0 *)
  Definition all_mats (dims : list nat) (ds : list dmat) : list dmat :=
    ds ++ [dzero o 0 (last dims 0); dzero o 0 0].
  Definition cM (ds : list dmat) : nat := length ds + 2.
  Definition cN (dims : list nat) : nat -> nat := fun p => nth p dims 0.
  Definition cD (dims : list nat) (ds : list dmat) : nat -> dmat := fun p => nth p (all_mats dims ds) (dzero o 0 0).

  Lemma last_nth (l : list nat) : last l 0 = nth (length l - 1) l 0.
  Proof.
    induction l as [|x l IH]; [reflexivity|]. destruct l as [|y l]; [reflexivity|].
    change (last (x :: y :: l) 0) with (last (y :: l) 0). rewrite IH. cbn [length].
    replace (S (S (length l)) - 1) with (S (S (length l) - 1)) by lia. reflexivity.
  Qed.

  Lemma cD_lt dims ds p : p < length ds -> cD dims ds p = nth p ds (dzero o 0 0).
  Proof. intros H. unfold cD, all_mats. now rewrite app_nth1. Qed.
  Lemma cD_a dims ds : cD dims ds (length ds) = dzero o 0 (last dims 0).
  Proof. unfold cD, all_mats. rewrite app_nth2 by lia. now rewrite Nat.sub_diag. Qed.
  Lemma cD_b dims ds : cD dims ds (S (length ds)) = dzero o 0 0.
  Proof. unfold cD, all_mats. rewrite app_nth2 by lia. now replace (S (length ds) - length ds) with 1 by lia. Qed.

  Lemma complex_HD dims ds : is_complex dims ds ->
    forall p, p < cM ds -> dwf (cD dims ds p) /\ dr (cD dims ds p) = cN dims (S p) /\ dc (cD dims ds p) = cN dims p.
  Proof.
    intros (Hl & Hs & Hc) p Hp. unfold cM in Hp. unfold cN.
    destruct (Nat.lt_ge_cases p (length ds)) as [H|H].
    - rewrite cD_lt by assumption. now apply Hs.
    - destruct (Nat.eq_dec p (length ds)) as [->|Hne].
      + rewrite cD_a. split; [dwfs|]. autorewrite with ddim. split.
        * rewrite nth_overflow by lia. reflexivity.
        * rewrite last_nth. f_equal. lia.
      + assert (p = S (length ds)) as -> by lia. rewrite cD_b. split; [dwfs|]. autorewrite with ddim.
        rewrite !nth_overflow by lia. auto.
  Qed.

  Lemma from_complex_input dims ds wt : is_complex dims ds ->
    is_input o (cM ds) (cN dims) (cD dims ds) (fun _ => []) (from_complex o dims ds wt).
  Proof.
    intros HC. pose proof (complex_HD dims ds HC) as HD. destruct HC as (Hl & Hs & Hc).
    assert (Hlen : length (all_mats dims ds) = cM ds).
    { unfold all_mats, cM. rewrite app_length. cbn [length]. lia. }
    unfold is_input, from_complex. cbn [mats trs vcs]. fold (all_mats dims ds). csplit.
    - intros p Hp. unfold cD. apply nth_error_nth'. now rewrite Hlen.
    - intros p Hp. apply nth_error_None. now rewrite Hlen.
    - intros p Hp. unfold cM in Hp. unfold cN.
      destruct (Nat.lt_ge_cases (S p) (length ds)) as [H|H].
      + rewrite !cD_lt by lia. now apply Hc.
      + destruct (Nat.eq_dec (S p) (length ds)) as [E|Hne].
        * rewrite E, cD_a. rewrite (dmul_zero_l o L). destruct (HD p ltac:(unfold cM; lia)) as (_ & _ & ->).
          unfold cN. rewrite (@nth_overflow _ dims (S (length ds)) 0) by lia. reflexivity.
        * assert (p = length ds) as -> by lia. rewrite cD_b, cD_a. rewrite (dmul_zero_l o L). autorewrite with ddim.
          rewrite (@nth_overflow _ dims (S (S (length ds))) 0) by lia. rewrite last_nth. do 2 f_equal. lia.
    - intros p t. destruct wt; [|discriminate].
      destruct (nth_error (all_mats dims ds) p) as [d|] eqn:E; [|discriminate]. cbn [option_map]. intros [= <-].
      assert (Hp : p < cM ds). { rewrite <- Hlen. apply nth_error_Some. congruence. }
      split; [exact Hp|]. f_equal.
      assert (Ed : cD dims ds p = d). { unfold cD. now apply nth_error_nth. }
      rewrite <- Ed. now destruct (HD p Hp) as (_ & _ & ->).
    - intros p Hp. split; [reflexivity|constructor].
  Qed.

  (* ChainReducer::reduce(complex, with_trans) *)
  Theorem from_reduce_main dims ds wt supp orc st orc' :
    is_complex dims ds ->
    reduce o u supp orc (from_complex o dims ds wt) = Some (st, orc') -> okf st = true ->
    sdr o (cM ds) (cN dims) (cD dims ds) (fun _ => []) st.
  Proof.
    intros HC E Hok.
    eapply (reduce_main o L u UL (cM ds) (cN dims) (cD dims ds) (fun _ => []) (complex_HD dims ds HC));
      [apply from_complex_input; exact HC|exact E|exact Hok].
  Qed.

  (* ChainComplexBase::reduced: at every key the reducer's Trans is present, the new summand has rank
     ncols(d_p) and maps (F_p, B_p), and the old differential seen through these maps is d_p *)
  Theorem reduced_main dims ds desc orc st orc' :
    is_complex dims ds ->
    reduced o u dims ds desc orc = Some (st, orc') -> okf st = true ->
    sdr o (cM ds) (cN dims) (cD dims ds) (fun _ => []) st /\
    forall p, p < length dims ->
      exists d tp tq, mats st p = Some d /\ trs st p = Some tp /\ trs st (S p) = Some tq /\
                      t_src tp = cN dims p /\ t_tgt tp = dc d /\
                      reduced_d o (cD dims ds p) (trs st p) (trs st (S p)) = Some d.
  Proof.
    intros HC E Hok. unfold reduced in E.
    pose proof (complex_HD dims ds HC) as HD.
    assert (HS : sdr o (cM ds) (cN dims) (cD dims ds) (fun _ => []) st) by (eapply from_reduce_main; eassumption).
    split; [exact HS|]. intros p Hp.
    destruct (reduce_pres o L u UL (cM ds) (cN dims) (cD dims ds) (fun _ => []) HD _ _ _ _ _ E) as (_ & _ & Hk).
    assert (HM : S p < cM ds). { destruct HC as (Hl & _). unfold cM. lia. }
    assert (Hsome : forall q, q < cM ds -> exists t, trs st q = Some t).
    { intros q Hq. specialize (Hk q). unfold from_complex in Hk. cbn [trs] in Hk.
      fold (all_mats dims ds) in Hk.
      destruct (nth_error (all_mats dims ds) q) eqn:En.
      - cbn in Hk. destruct (trs st q) as [t|]; [eauto|discriminate].
      - exfalso. apply nth_error_None in En. unfold all_mats, cM in *. rewrite app_length in En. cbn [length] in En. lia. }
    destruct (Hsome p ltac:(lia)) as [tp Etp]. destruct (Hsome (S p) HM) as [tq Etq].
    destruct HS as [g I].
    destruct (inv_mats _ _ _ _ _ _ _ I p ltac:(lia)) as (d & Ed & Wd & Hdr & Hdc).
    exists d, tp, tq. csplit; try assumption.
    - destruct (inv_trs _ _ _ _ _ _ _ I p tp Etp) as (_ & ->). reflexivity.
    - destruct (inv_trs _ _ _ _ _ _ _ I p tp Etp) as (_ & ->). cbn [t_tgt]. now rewrite Hdc.
    - rewrite Etp, Etq. eapply (reduced_d_eq o L _ _ _ (fun _ => []) HD); try eassumption. exists g. exact I.
  Qed.
End FromComplex.

(* ---------- the one-step theorem in one piece ---------- *)
Section StepSummary.
  Context {R : Type} (o : ring_ops R) (L : ring_laws o) (u : unit_ops R) (UL : unit_laws o u).
  Local Notation dmat := (dmat R).
  Local Notation dwf := (@dwf R).

  Theorem step_summary (a1 : dmat) (vp vq : list nat) (r : nat) (t : ttype) (sc : schur R) :
    dwf a1 -> is_perm (dr a1) vp -> is_perm (dc a1) vq ->
    tri_ok o t (dblock o (permute o a1 vp vq) 0 0 r r) r ->
    schur_of o u t (permute o a1 vp vq) r = Some sc ->
    let m := dr a1 in let n := dc a1 in let s := sc_s sc in
    let f1 := step_f1 o n r vq in let b1 := step_b1 o n r vq sc in
    let f2 := step_f2 o m r vp sc in let b2 := step_b2 o m r vp in
    let h := step_h o m n r vp vq sc in
    (r <= m /\ r <= n /\ dwf s /\ dr s = m - r /\ dc s = n - r) /\
    (* f and b are chain maps between a1 and s; f b = 1; b f + h a1 = 1, b f + a1 h = 1; side conditions *)
    dmul o f2 a1 = dmul o s f1 /\ dmul o a1 b1 = dmul o b2 s /\
    dmul o f1 b1 = did o (n - r) /\ dmul o f2 b2 = did o (m - r) /\
    dadd o (dmul o b1 f1) (dmul o h a1) = did o n /\ dadd o (dmul o b2 f2) (dmul o a1 h) = did o m /\
    dmul o f1 h = dzero o (n - r) m /\ dmul o h b2 = dzero o n (m - r) /\
    (* the incoming differential a0 (a1 a0 = 0) loses the pivot rows: a0' = f1 a0, a0 = b1 a0', s a0' = 0 *)
    (forall a0, dwf a0 -> dr a0 = n -> dmul o a1 a0 = dzero o m (dc a0) ->
       dmul o f1 a0 = reduce_mat_rows o a0 vq r /\ dmul o b1 (reduce_mat_rows o a0 vq r) = a0 /\
       dmul o s (reduce_mat_rows o a0 vq r) = dzero o (m - r) (dc a0)) /\
    (* the outgoing differential a2 (a2 a1 = 0) loses the pivot columns: a2' = a2 b2, a2 = a2' f2, a2' s = 0 *)
    (forall a2, dwf a2 -> dc a2 = m -> dmul o a2 a1 = dzero o (dr a2) n ->
       dmul o (reduce_mat_cols o a2 vp r) f2 = a2 /\ dmul o a2 b2 = reduce_mat_cols o a2 vp r /\
       dmul o (reduce_mat_cols o a2 vp r) s = dzero o (dr a2) (n - r)).
  Proof.
    intros W1 Hp Hq Htri Hsc. cbv zeta.
    pose proof (step_dims o L u UL a1 (dr a1) (dc a1) r vp vq t sc eq_refl eq_refl Hp Hq Htri Hsc)
      as (_ & _ & _ & _ & _ & _ & _ & _ & _ & _ & Hsr & Hsc' & Ws & Hrm & Hrn).
    split; [csplit; assumption|]. csplit.
    - eapply (step_f_chain o L u UL a1 _ _ r vp vq t sc); stp.
    - eapply (step_b_chain o L u UL a1 _ _ r vp vq t sc); stp.
    - eapply (step_fb_src o L u UL a1 _ _ r vp vq t sc); stp.
    - eapply (step_fb_tgt o L u UL a1 _ _ r vp vq t sc); stp.
    - eapply (step_homotopy_src o L u UL a1 _ _ r vp vq t sc); stp.
    - eapply (step_homotopy_tgt o L u UL a1 _ _ r vp vq t sc); stp.
    - eapply (step_fh o L u UL a1 _ _ r vp vq t sc); stp.
    - eapply (step_hb o L u UL a1 _ _ r vp vq t sc); stp.
    - intros a0 W0 H0 H10. csplit.
      + eapply (step_a0_f o L u UL a1 _ _ r vp vq t sc); stp.
      + eapply (step_a0_b o L u UL a1 _ _ r vp vq t sc); stp.
      + eapply (step_complex_src o L u UL a1 _ _ r vp vq t sc); stp.
    - intros a2 W2 H2 H21. csplit.
      + eapply (step_a2_f o L u UL a1 _ _ r vp vq t sc); stp.
      + eapply (step_a2_b o L u UL a1 _ _ r vp vq t sc); stp.
      + eapply (step_complex_tgt o L u UL a1 _ _ r vp vq t sc); stp.
  Qed.

  (* the Schur complement is defined (no panic) exactly when the pivots are units *)
  Theorem schur_of_some (t : ttype) (A : dmat) (r : nat) :
    r <= dr A -> r <= dc A -> unit_diag o u (dblock o A 0 0 r r) r ->
    exists sc, schur_of o u t A r = Some sc.
  Proof.
    intros H1 H2 Hu. unfold schur_of.
    destruct (Nat.leb_spec r (dr A)); [|lia]. destruct (Nat.leb_spec r (dc A)); [|lia]. cbn [andb].
    destruct (tri_inv_some o u UL t (dblock o A 0 0 r r) r eq_refl eq_refl Hu) as [X ->]. cbn [obind]. eauto.
  Qed.
End StepSummary.

(* ---------- non-vacuity: Z with units 1, -1 is an instance ---------- *)
From Coq Require Import ZArith.
Lemma Z_units_laws : unit_laws Z_ring Z_units.
Proof.
  assert (U : forall a : Z, ((a =? 1) || (a =? -1))%Z = true <-> (a = 1 \/ a = -1)%Z).
  { intros a. rewrite orb_true_iff, !Z.eqb_eq. tauto. }
  constructor; cbn.
  - intros a b H. destruct ((a =? 1) || (a =? -1))%Z eqn:E; [|discriminate].
    apply U in E. injection H as <-. destruct E as [-> | ->]; reflexivity.
  - intros a. destruct ((a =? 1) || (a =? -1))%Z eqn:E; split; intros H; try reflexivity; try discriminate.
    + now exists a.
    + destruct H as [b H]. discriminate.
  - intros a b H. apply U. destruct (Z.mul_eq_1 a b H) as [-> | ->]; auto.
  - intros a. destruct (a <? 0)%Z; reflexivity.
  - intros a. destruct (Z.ltb_spec a 0) as [Ha|Ha].
    + destruct (Z.ltb_spec (a * -1) 0); [lia|reflexivity].
    + destruct (Z.ltb_spec (a * 1) 0); [lia|reflexivity].
  - intros a v Hv. apply U in Hv. destruct Hv as [-> | ->].
    + rewrite Z.mul_1_r. reflexivity.
    + destruct (Z.ltb_spec (a * -1) 0), (Z.ltb_spec a 0); lia.
Qed.
