(* C09 (uniqueness), part 3: the diagonal of a Smith normal form is unique up to units.

   [smith_form_unique]  for every ring dictionary that is a Bezout integral domain: two Smith forms
       P1 A Q1 = diag(a_0 .. a_(r1-1), 0 ..),  P2 A Q2 = diag(b_0 .. b_(r2-1), 0 ..)   ([smith_form], C07Algebra.v)
   of the same m x n matrix whose non-zero entries are divisibility chains have r1 = r2 and a_k, b_k associates
   for every k.  (Rank: Proofs/C07Rank.v; entries: Proofs/C09UniqueDvd.v applied in both directions.)
   [snf_bezout]         snf_laws + gcdx_total (EucRing::gcdx returns) make the dictionary a Bezout domain, so the
                        theorem applies to Z, Z[i], Z[omega] and every field dictionary.
   [snf_result_unique]  every result meeting the contract [snf_spec] of Model/Snf.v (by C09_total_partial: every
                        result the mirrored snf returns) carries THE invariant factors: any other Smith form of
                        the input has the same rank and associated entries.
   Over Z, normalised (= positive) entries are equal: [Z_smith_form_unique], [Z_snf_result_unique]. *)
From Coq Require Import ZArith Arith List Lia Ring Bool.
Require Import Yui.Base.Ring Yui.Base.MatF Yui.Base.MatL Yui.Model.Snf.
Require Import Yui.Proofs.C07Algebra Yui.Proofs.C07Rank Yui.Proofs.C09UniqueKer Yui.Proofs.C09UniqueDvd.
Require Import Yui.Proofs.C09Mat Yui.Proofs.C09Inv Yui.Proofs.C09Run Yui.Proofs.C09Total Yui.Proofs.C09Term
  Yui.Proofs.C09Laws Yui.Proofs.C09Quad Yui.Proofs.C09Elim.
Import ListNotations.

Section Generic.
  Context {R : Type} (o : ring_ops R) (L : ring_laws o) (Hint : integral o).

  Theorem smith_form_unique m n (A : mat R) r1 a1 r2 a2 :
    bezout o ->
    smith_form o m n A r1 a1 -> smith_form o m n A r2 a2 ->
    chain o r1 a1 -> chain o r2 a2 ->
    r1 = r2 /\ forall k, (k < r1)%nat -> associates o (a1 k) (a2 k).
  Proof.
    intros B F1 F2 C1 C2.
    pose proof (smith_form_rank_unique o L Hint m n A r1 a1 r2 a2 F1 F2) as Er. subst r2.
    split; [reflexivity|]. intros k Hk.
    destruct F1 as [P1 [Pi1 [Q1 [Qi1 [HP1 [HQ1 [He1 [Hnz1 Hr1]]]]]]]].
    destruct F2 as [P2 [Pi2 [Q2 [Qi2 [HP2 [HQ2 [He2 [Hnz2 Hr2]]]]]]]].
    pose proof (form_smith o m n A r1 a1 P1 Pi1 Q1 Qi1 HP1 HQ1 He1 Hnz1 Hr1) as S1.
    pose proof (form_smith o m n A r1 a2 P2 Pi2 Q2 Qi2 HP2 HQ2 He2 Hnz2 Hr2) as S2.
    apply (rdvd_antisym o L Hint); [now apply Hnz1| |].
    - exact (diag_dvd o L Hint m n A P1 Pi1 Q1 Qi1 P2 Pi2 Q2 Qi2 r1 a1 a2 B S1 S2 C1 C2 k Hk).
    - exact (diag_dvd o L Hint m n A P2 Pi2 Q2 Qi2 P1 Pi1 Q1 Qi1 r1 a2 a1 B S2 S1 C2 C1 k Hk).
  Qed.
End Generic.

(* ---------- the dictionaries of SnfCalc ---------- *)
Lemma snf_bezout {R : Type} (D : euc_dict R) : snf_laws D -> gcdx_total D -> bezout (ed_ring D).
Proof.
  intros SL GT x y. destruct (GT x y) as [[[d s] t] E].
  destruct (sl_gcdx D SL x y d s t E) as [Hd [Hx Hy]].
  exists d, s, t. split; [exact Hd|]. split; assumption.
Qed.

Section Result.
  Context {R : Type} (D : euc_dict R) (SL : snf_laws D).
  Let o := ed_ring D.

  (* a result meeting the contract is a Smith form of the input whose diagonal is a normalised chain *)
  Lemma spec_smith_form m n (A : lmat R) f1 f2 f3 f4 res :
    snf_spec D m n A f1 f2 f3 f4 res ->
    let T := dm_rows (sr_d res) in
    let r := snf_rank D res in
    smith_form o m n (lget o A) r (fun k => lget o T k k) /\
    chain o r (fun k => lget o T k k) /\
    (forall k, (k < r)%nat -> rnunit (ed_unit D) (lget o T k k) = rone o).
  Proof.
    intros (T & P & Pi & Q & Qi & ET & _ & _ & _ & _ & _ & _ & _ & _ & _ & HT & H1 & H2 & H3 & H4 & HX & _).
    cbv zeta in *. rewrite ET. cbn [dm_rows].
    destruct HX as (Hr & Hoff & Hnz & Hz & Hnu & Hch).
    split; [|split; [exact Hch|exact Hnu]].
    exists (lget o P), (lget o Pi), (lget o Q), (lget o Qi).
    split; [split; assumption|]. split; [split; assumption|].
    split; [|split; [exact Hnz|exact Hr]].
    intros i j Hi Hj. unfold o. rewrite <- (HT i j Hi Hj).
    destruct (Nat.eqb_spec i j) as [->|Hne]; cbn [andb].
    - destruct (Nat.ltb_spec j (snf_rank D res)) as [Hjr|Hjr]; [reflexivity|].
      apply Hz; [exact Hjr|]. apply Nat.min_glb_lt; assumption.
    - now apply Hoff.
  Qed.

  Theorem snf_result_unique m n (A : lmat R) f1 f2 f3 f4 res r' a' :
    bezout o ->
    snf_spec D m n A f1 f2 f3 f4 res ->
    smith_form o m n (lget o A) r' a' -> chain o r' a' ->
    snf_rank D res = r' /\
    forall k, (k < r')%nat -> associates o (lget o (dm_rows (sr_d res)) k k) (a' k).
  Proof.
    intros B HS F' C'.
    destruct (spec_smith_form m n A f1 f2 f3 f4 res HS) as [F [C _]].
    destruct (smith_form_unique o (sl_ring D SL) (sl_integral D SL) m n (lget o A) _ _ r' a' B F F' C C')
      as [Er Ha].
    split; [exact Er|]. intros k Hk. apply Ha. rewrite Er. exact Hk.
  Qed.

  (* two results for the same input (any flags, any fuel policies, or the implementation's own output once it
     is checked against the contract) have the same rank and associated diagonals *)
  Corollary snf_results_agree m n (A : lmat R) f1 f2 f3 f4 g1 g2 g3 g4 res res' :
    bezout o ->
    snf_spec D m n A f1 f2 f3 f4 res -> snf_spec D m n A g1 g2 g3 g4 res' ->
    snf_rank D res = snf_rank D res' /\
    forall k, (k < snf_rank D res)%nat ->
      associates o (lget o (dm_rows (sr_d res)) k k) (lget o (dm_rows (sr_d res')) k k).
  Proof.
    intros B HS HS'.
    destruct (spec_smith_form m n A g1 g2 g3 g4 res' HS') as [F' [C' _]].
    destruct (snf_result_unique m n A f1 f2 f3 f4 res _ _ B HS F' C') as [Er Ha].
    split; [exact Er|]. intros k Hk. apply Ha. rewrite <- Er. exact Hk.
  Qed.
End Result.

(* ---------- Z: normalised entries are equal ---------- *)
Lemma Z_bezout : bezout Z_ring.
Proof. destruct (Zpre_term_laws None) as [_ GT]. exact (snf_bezout Z_dict (Zpre_snf_laws None) GT). Qed.

Lemma Z_associates a b : associates Z_ring a b -> (0 < a)%Z -> (0 < b)%Z -> a = b.
Proof.
  intros [u [v [Huv Hb]]] Ha Hb0. cbn in Huv, Hb.
  assert (Hu : (u = 1 \/ u = -1)%Z).
  { destruct (Z.mul_eq_1 u v Huv) as [E|E]; [left|right]; exact E. }
  destruct Hu as [->| ->]; lia.
Qed.

Lemma Z_chain r (a : nat -> Z) :
  chain Z_ring r a <-> (forall k, (S k < r)%nat -> (a k | a (S k))%Z).
Proof. split; intros H k Hk; destruct (H k Hk) as [q Hq]; exists q; exact Hq. Qed.

Theorem Z_smith_form_unique m n (A : mat Z) r1 a1 r2 a2 :
  smith_form Z_ring m n A r1 a1 -> smith_form Z_ring m n A r2 a2 ->
  (forall k, (S k < r1)%nat -> (a1 k | a1 (S k))%Z) ->
  (forall k, (S k < r2)%nat -> (a2 k | a2 (S k))%Z) ->
  r1 = r2 /\
  (forall k, (k < r1)%nat -> Z.abs (a1 k) = Z.abs (a2 k)) /\
  ((forall k, (k < r1)%nat -> (0 < a1 k)%Z) -> (forall k, (k < r2)%nat -> (0 < a2 k)%Z) ->
   forall k, (k < r1)%nat -> a1 k = a2 k).
Proof.
  intros F1 F2 C1 C2.
  destruct (smith_form_unique Z_ring Z_ring_laws Z_integral m n A r1 a1 r2 a2 Z_bezout F1 F2
              (proj2 (Z_chain r1 a1) C1) (proj2 (Z_chain r2 a2) C2)) as [Er Ha].
  split; [exact Er|]. split.
  - intros k Hk. destruct (Ha k Hk) as [u [v [Huv Hb]]]. cbn in Huv, Hb.
    destruct (Z.mul_eq_1 u v Huv) as [E|E]; rewrite Hb, E; lia.
  - intros P1 P2 k Hk. apply Z_associates; [now apply Ha|now apply P1|apply P2; now rewrite <- Er].
Qed.

(* the model's result over Z against ANY Smith form with positive entries of the same matrix *)
Theorem Z_snf_result_unique pre m n (A : lmat Z) f1 f2 f3 f4 res r' a' :
  snf_spec (Zpre_dict pre) m n A f1 f2 f3 f4 res ->
  smith_form Z_ring m n (lget Z_ring A) r' a' ->
  (forall k, (S k < r')%nat -> (a' k | a' (S k))%Z) ->
  (forall k, (k < r')%nat -> (0 < a' k)%Z) ->
  snf_rank (Zpre_dict pre) res = r' /\
  forall k, (k < r')%nat -> lget Z_ring (dm_rows (sr_d res)) k k = a' k.
Proof.
  intros HS F' C' P'.
  destruct (spec_smith_form (Zpre_dict pre) m n A f1 f2 f3 f4 res HS) as [_ [_ Hnu]].
  destruct (spec_smith_form (Zpre_dict pre) m n A f1 f2 f3 f4 res HS) as [[_ [_ [_ [_ [_ [_ [_ [Hnz _]]]]]]]] _].
  cbv zeta in Hnu, Hnz.
  destruct (snf_result_unique (Zpre_dict pre) (Zpre_snf_laws pre) m n A f1 f2 f3 f4 res r' a' Z_bezout HS F'
              (proj2 (Z_chain r' a') C')) as [Er Ha].
  split; [exact Er|]. intros k Hk. apply Z_associates; [now apply Ha| |now apply P'].
  rewrite <- Er in Hk. specialize (Hnu k Hk). specialize (Hnz k Hk).
  cbn in Hnu, Hnz.
  destruct (Z.ltb_spec (lget Z_ring (dm_rows (sr_d res)) k k) 0) as [Hneg|Hpos]; [discriminate|].
  cbn in Hpos. lia.
Qed.

(* ---------- SnfResult::factors lists exactly the first [rank] diagonal entries ---------- *)
Lemma snf_factors_spec {R : Type} (D : euc_dict R) (SL : snf_laws D) m n (A : lmat R) f1 f2 f3 f4 res :
  snf_spec D m n A f1 f2 f3 f4 res ->
  snf_factors D res
  = map (fun k => lget (ed_ring D) (dm_rows (sr_d res)) k k) (seq 0 (snf_rank D res)).
Proof.
  intros (T & P & Pi & Q & Qi & ET & _ & _ & _ & _ & _ & _ & _ & _ & _ & _ & _ & _ & _ & _ & HX & _).
  cbv zeta in HX. destruct HX as (Hr & _ & Hnz & Hz & _ & _).
  unfold snf_factors. rewrite ET in *. cbn [dm_rows dm_m dm_n] in *. unfold mget.
  set (r := snf_rank D res) in *.
  set (g := fun k => lget (ed_ring D) T k k).
  change (filter (fun a => negb (ris_zero (ed_ring D) a)) (map g (seq 0 (Nat.min m n))) = map g (seq 0 r)).
  replace (Nat.min m n) with (r + (Nat.min m n - r))%nat by lia.
  rewrite seq_app, map_app, filter_app. cbn [Nat.add].
  assert (G1 : forall l, (forall k, In k l -> (k < r)%nat) ->
                         filter (fun a => negb (ris_zero (ed_ring D) a)) (map g l) = map g l).
  { induction l as [|k l IH]; intros Hl; [reflexivity|]. cbn [map filter].
    assert (Ek : ris_zero (ed_ring D) (g k) = false).
    { apply (reqb_false _ (sl_ring D SL)). apply Hnz. apply Hl. now left. }
    rewrite Ek. cbn [negb]. f_equal. apply IH. intros k' Hk'. apply Hl. now right. }
  assert (E1 : filter (fun a => negb (ris_zero (ed_ring D) a)) (map g (seq 0 r)) = map g (seq 0 r)).
  { apply G1. intros k Hk. apply in_seq in Hk. lia. }
  assert (G : forall l, (forall k, In k l -> (r <= k < Nat.min m n)%nat) ->
                        filter (fun a => negb (ris_zero (ed_ring D) a)) (map g l) = []).
  { induction l as [|k l IH]; intros Hl; [reflexivity|]. cbn [map filter].
    assert (Ek : g k = rzero (ed_ring D)) by (apply Hz; apply Hl; now left).
    unfold ris_zero. rewrite Ek, (reqb_refl _ (sl_ring D SL)). cbn [negb].
    apply IH. intros k' Hk'. apply Hl. now right. }
  assert (E2 : filter (fun a => negb (ris_zero (ed_ring D) a)) (map g (seq r (Nat.min m n - r))) = []).
  { apply G. intros k Hk. apply in_seq in Hk. lia. }
  rewrite E1, E2. apply app_nil_r.
Qed.

(* ---------- over Z the diagonal matrix D itself is determined by the input ----------
   (for any two results meeting the contract: any flags, any fuel, with or without the LLL preprocessing) *)
Theorem Z_snf_D_unique pre pre' m n (A : lmat Z) f1 f2 f3 f4 g1 g2 g3 g4 res res' :
  snf_spec (Zpre_dict pre) m n A f1 f2 f3 f4 res ->
  snf_spec (Zpre_dict pre') m n A g1 g2 g3 g4 res' ->
  sr_d res = sr_d res' /\ snf_rank (Zpre_dict pre) res = snf_rank (Zpre_dict pre') res' /\
  snf_factors (Zpre_dict pre) res = snf_factors (Zpre_dict pre') res'.
Proof.
  intros HS HS'.
  destruct (spec_smith_form (Zpre_dict pre') m n A g1 g2 g3 g4 res' HS') as [F' [C' Hnu']].
  cbv zeta in F', C', Hnu'.
  assert (Hpos' : forall k, (k < snf_rank (Zpre_dict pre') res')%nat ->
                            (0 < lget Z_ring (dm_rows (sr_d res')) k k)%Z).
  { intros k Hk. specialize (Hnu' k Hk).
    destruct F' as [_ [_ [_ [_ [_ [_ [_ [Hnz' _]]]]]]]]. specialize (Hnz' k Hk).
    cbn in Hnu', Hnz'.
    destruct (Z.ltb_spec (lget Z_ring (dm_rows (sr_d res')) k k) 0) as [Hneg|Hge]; [discriminate|].
    cbn in Hge. lia. }
  destruct (Z_snf_result_unique pre m n A f1 f2 f3 f4 res _ _ HS F' (proj1 (Z_chain _ _) C') Hpos') as [Er Ha].
  assert (ED : sr_d res = sr_d res').
  { destruct HS as (T & P & Pi & Q & Qi & ET & WT & _ & _ & _ & _ & _ & _ & _ & _ & _ & _ & _ & _ & _ & HX & _).
    destruct HS' as (T' & P' & Pi' & Q' & Qi' & ET' & WT' & _ & _ & _ & _ & _ & _ & _ & _ & _ & _ & _ & _ & _ & HX' & _).
    cbv zeta in HX, HX'. rewrite ET, ET' in *. cbn [dm_rows] in *. f_equal.
    destruct HX as (Hr & Hoff & _ & Hz & _ & _). destruct HX' as (Hr' & Hoff' & _ & Hz' & _ & _).
    apply (lmat_ext Z_ring m n); [exact WT|exact WT'|].
    intros i j Hi Hj. destruct (Nat.eq_dec i j) as [<-|Hne].
    - destruct (le_lt_dec (snf_rank (Zpre_dict pre') res') i) as [Hge|Hlt].
      + change (ed_ring (Zpre_dict pre)) with Z_ring in Hz. change (ed_ring (Zpre_dict pre')) with Z_ring in Hz'.
        rewrite Hz, Hz'; [reflexivity|exact Hge|lia|lia|lia].
      + now apply Ha.
    - change (ed_ring (Zpre_dict pre)) with Z_ring in Hoff. change (ed_ring (Zpre_dict pre')) with Z_ring in Hoff'.
      rewrite Hoff, Hoff' by assumption. reflexivity. }
  split; [exact ED|]. split; [exact Er|].
  unfold snf_factors. now rewrite ED.
Qed.

(* ---------- the statement for the dictionaries of SnfCalc, and the whole call ---------- *)
Theorem dict_smith_form_unique {R : Type} (D : euc_dict R) :
  snf_laws D -> gcdx_total D ->
  forall m n (A : mat R) r1 a1 r2 a2,
  smith_form (ed_ring D) m n A r1 a1 -> smith_form (ed_ring D) m n A r2 a2 ->
  chain (ed_ring D) r1 a1 -> chain (ed_ring D) r2 a2 ->
  r1 = r2 /\ forall k, (k < r1)%nat -> associates (ed_ring D) (a1 k) (a2 k).
Proof.
  intros SL GT m n A r1 a1 r2 a2.
  exact (smith_form_unique (ed_ring D) (sl_ring D SL) (sl_integral D SL) m n A r1 a1 r2 a2 (snf_bezout D SL GT)).
Qed.

Lemma gauss_bezout pre : bezout (ed_ring (gausspre_dict pre)).
Proof. exact (snf_bezout _ (gauss_snf_laws pre) (proj2 (gauss_term_laws pre))). Qed.

Lemma eisen_bezout pre : bezout (ed_ring (eisenpre_dict pre)).
Proof. exact (snf_bezout _ (eisen_snf_laws pre) (proj2 (eisen_term_laws pre))). Qed.

Lemma field_bezout {F : Type} (o : ring_ops F) (finv : F -> F) :
  ring_laws o -> rone o <> rzero o -> (forall a, a <> rzero o -> rmul o a (finv a) = rone o) ->
  bezout (ed_ring (field_dict o finv)).
Proof.
  intros L H1 Hinv.
  exact (snf_bezout _ (field_snf_laws o finv L H1 Hinv) (proj2 (field_term_laws o finv L H1 Hinv))).
Qed.

(* the call returns, its result meets the contract, and its diagonal is THE list of invariant factors:
   every Smith form of the input has the same rank and associated entries *)
Theorem dict_snf_total_unique {R : Type} (D : euc_dict R) :
  snf_laws D -> norm_laws D -> gcdx_total D -> pre_ok D -> pre_total D ->
  forall m n (A : lmat R) f1 f2 f3 f4, wf m n A ->
  exists res, snf D (mk_dmat m n A) (f1, f2, f3, f4) = Some res /\ snf_spec D m n A f1 f2 f3 f4 res /\
    forall r' a', smith_form (ed_ring D) m n (lget (ed_ring D) A) r' a' -> chain (ed_ring D) r' a' ->
      snf_rank D res = r' /\
      forall k, (k < r')%nat -> associates (ed_ring D) (lget (ed_ring D) (dm_rows (sr_d res)) k k) (a' k).
Proof.
  intros SL NL GT Hpre Htot m n A f1 f2 f3 f4 W.
  destruct (snf_total D SL NL GT Hpre Htot m n A f1 f2 f3 f4 W) as [res [E HS]].
  exists res. split; [exact E|]. split; [exact HS|].
  intros r' a' F' C'. exact (snf_result_unique D SL m n A f1 f2 f3 f4 res r' a' (snf_bezout D SL GT) HS F' C').
Qed.

Theorem Z_snf_total_unique m n (A : lmat Z) f1 f2 f3 f4 :
  wf m n A ->
  exists res, snf Z_dict (mk_dmat m n A) (f1, f2, f3, f4) = Some res /\ snf_spec Z_dict m n A f1 f2 f3 f4 res /\
    forall r' a', smith_form Z_ring m n (lget Z_ring A) r' a' ->
      (forall k, (S k < r')%nat -> (a' k | a' (S k))%Z) -> (forall k, (k < r')%nat -> (0 < a' k)%Z) ->
      snf_rank Z_dict res = r' /\ forall k, (k < r')%nat -> lget Z_ring (dm_rows (sr_d res)) k k = a' k.
Proof.
  intros W. destruct (Z_snf_total m n A f1 f2 f3 f4 W) as [res [E HS]].
  exists res. split; [exact E|]. split; [exact HS|].
  intros r' a' F' C' P'. exact (Z_snf_result_unique None m n A f1 f2 f3 f4 res r' a' HS F' C' P').
Qed.
