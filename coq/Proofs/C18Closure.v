(* C18 - Braid::closure: when it does not panic, the code is valid (every label exactly twice), has one
   crossing per letter, all of type X.  Proof by counting: every crossing consumes two labels of the
   current bottom row ("ins") and creates two fresh ones ("outs"); after the renaming bottom[i] -> i the
   multiset of ins equals the multiset of outs, and the outs are pairwise distinct. *)
From Coq Require Import List Arith Bool Lia ZArith.
Require Import Yui.Model.Link Yui.Model.Braid Yui.Proofs.C18Base Yui.Proofs.C18Traverse.
Import ListNotations.

Local Notation cnt := count_label.

Lemma cnt_app : forall y a b, cnt y (a ++ b) = cnt y a + cnt y b.
Proof. intros. unfold count_label. rewrite filter_app, app_length. reflexivity. Qed.
Lemma cnt_cons : forall y x l, cnt y (x :: l) = (if y =? x then 1 else 0) + cnt y l.
Proof. intros. unfold count_label. cbn. destruct (y =? x); reflexivity. Qed.
Lemma cnt_nil : forall y, cnt y [] = 0.
Proof. reflexivity. Qed.
Lemma cnt_In : forall y l, In y l <-> 0 < cnt y l.
Proof.
  induction l as [|x l IH]; [cbn; split; [intros []|lia]|].
  rewrite cnt_cons. cbn [In]. destruct (Nat.eqb_spec y x) as [->|N]; [split; auto; lia|].
  rewrite IH. split; [intros [E|H]; [congruence|lia]|intros; right; lia].
Qed.
Lemma cnt_NoDup : forall l, NoDup l <-> forall y, cnt y l <= 1.
Proof.
  induction l as [|x l IH]; split.
  - intros _ y. cbn. lia.
  - constructor.
  - intros H y. inversion H; subst. rewrite cnt_cons. destruct (Nat.eqb_spec y x) as [->|N].
    + assert (cnt x l = 0). { destruct (cnt x l) eqn:E; auto. exfalso. apply H2. apply cnt_In. lia. } lia.
    + pose proof (proj1 IH H3 y). lia.
  - intros H. constructor.
    + intros Hx. apply cnt_In in Hx. specialize (H x). rewrite cnt_cons, Nat.eqb_refl in H. lia.
    + apply IH. intros y. specialize (H y). rewrite cnt_cons in H. lia.
Qed.

Definition flat_x (x : xcode) : list nat := match x with (a, b, c, d) => [a; b; c; d] end.
Definition flat_code (code : list xcode) : list nat := flat_map flat_x code.

Lemma edge_labels_link_of_code : forall code, edge_labels (link_of_code code) = flat_code code.
Proof.
  unfold edge_labels, flat_code, link_of_code. induction code as [|[[[a b] c] d] code IH]; cbn; auto. rewrite IH. reflexivity.
Qed.

Lemma set2_decomp : forall b i c d, S i < length b ->
  exists pre post, b = pre ++ nth i b 0 :: nth (S i) b 0 :: post /\ length pre = i /\
                   set_nth_nat (S i) d (set_nth_nat i c b) = pre ++ c :: d :: post.
Proof.
  induction b as [|x b IH]; intros i c d Hi; cbn in Hi; [lia|].
  destruct i as [|i].
  - destruct b as [|y b]; cbn in Hi; [lia|]. exists [], b. cbn. auto.
  - destruct (IH i c d ltac:(lia)) as (pre & post & E & L & S2).
    exists (x :: pre), post.
    change (set_nth_nat (S (S i)) d (set_nth_nat (S i) c (x :: b))) with (x :: set_nth_nat (S i) d (set_nth_nat i c b)).
    rewrite S2. cbn [nth length app]. split; [|split]; auto.
    f_equal. exact E.
Qed.

Lemma nth_replace2 : forall (pre post : list nat) a b c d j,
  nth j (pre ++ c :: d :: post) 0 =
  if j =? length pre then c else if j =? S (length pre) then d else nth j (pre ++ a :: b :: post) 0.
Proof.
  induction pre as [|x pre IH]; intros; cbn [app length].
  - destruct j as [|[|j]]; reflexivity.
  - destruct j as [|j]; [reflexivity|]. cbn [nth]. rewrite (IH post a b c d j). reflexivity.
Qed.

Definition low_in_place (t : nat) (b : list nat) : Prop :=
  forall j, j < length b -> nth j b 0 < t -> nth j b 0 = j.

Lemma seq_2S : forall c k, seq c (2 * S k) = c :: S c :: seq (S (S c)) (2 * k).
Proof. intros. replace (2 * S k) with (S (S (2 * k))) by lia. reflexivity. Qed.

Lemma closure_loop_inv : forall w c b bt code t,
  closure_loop w c b = Some (bt, code) ->
  (forall y, cnt y b <= 1) -> (forall y, c <= y -> cnt y b = 0) -> t <= c -> low_in_place t b ->
  length code = length w /\ length bt = length b /\
  (exists ins, forall (f : nat -> nat) y,
      cnt y (map f (flat_code code)) = cnt y (map f ins) + cnt y (map f (seq c (2 * length w))) /\
      cnt y (map f ins) + cnt y (map f bt) = cnt y (map f b) + cnt y (map f (seq c (2 * length w)))) /\
  low_in_place t bt /\ (forall y, cnt y bt <= 1) /\ (forall y, c + 2 * length w <= y -> cnt y bt = 0).
Proof.
  induction w as [|s w IH]; intros c b bt code t E P1 P2 Ht P3.
  - cbn in E. inversion E; subst. cbn [length]. split; auto. split; auto.
    split. { exists []. intros f y. cbn. lia. }
    split; auto. split; auto. intros y Hy. apply P2. lia.
  - cbn [closure_loop] in E.
    destruct (Z.abs_nat s =? 0) eqn:Z0; [discriminate|].
    set (i := Z.abs_nat s - 1) in *.
    destruct (S i <? length b) eqn:Hi; [|discriminate]. apply Nat.ltb_lt in Hi.
    destruct (closure_loop w (S (S c)) (set_nth_nat (S i) (S c) (set_nth_nat i c b))) as [[bt' code']|] eqn:R;
      [|discriminate].
    inversion E; subst bt' code; clear E.
    destruct (set2_decomp b i c (S c) Hi) as (pre & post & Eb & Lp & Eb2).
    set (a := nth i b 0) in *. set (b' := nth (S i) b 0) in *.
    rewrite Eb2 in R.
    assert (Cb : forall f y, cnt y (map f b) = cnt y (map f pre) + (if y =? f a then 1 else 0) +
                             (if y =? f b' then 1 else 0) + cnt y (map f post)).
    { intros f y. rewrite Eb at 1. rewrite map_app, cnt_app. cbn [map]. rewrite !cnt_cons. lia. }
    assert (Cb2 : forall f y, cnt y (map f (pre ++ c :: S c :: post)) =
                  cnt y (map f pre) + (if y =? f c then 1 else 0) +
                  (if y =? f (S c) then 1 else 0) + cnt y (map f post)).
    { intros f y. rewrite map_app, cnt_app. cbn [map]. rewrite !cnt_cons. lia. }
    assert (Q1 : forall y, cnt y (pre ++ c :: S c :: post) <= 1).
    { intros y. pose proof (Cb2 (fun x => x) y) as H2. pose proof (Cb (fun x => x) y) as H1.
      rewrite !map_id in H1, H2. rewrite H2. specialize (P1 y). pose proof (P2 y) as P2y.
      destruct (Nat.eqb_spec y c); destruct (Nat.eqb_spec y (S c)); try lia. }
    assert (Q2 : forall y, S (S c) <= y -> cnt y (pre ++ c :: S c :: post) = 0).
    { intros y Hy. pose proof (Cb2 (fun x => x) y) as H2. pose proof (Cb (fun x => x) y) as H1.
      rewrite !map_id in H1, H2. rewrite H2. pose proof (P2 y ltac:(lia)) as P2y.
      destruct (Nat.eqb_spec y c); destruct (Nat.eqb_spec y (S c)); try lia. }
    assert (Q3 : low_in_place t (pre ++ c :: S c :: post)).
    { intros j Hj Hlt. rewrite (nth_replace2 pre post a b' c (S c) j) in *.
      destruct (j =? length pre); [lia|]. destruct (j =? S (length pre)); [lia|].
      rewrite <- Eb in *. apply P3; auto.
      rewrite Eb. rewrite !app_length in *. cbn [length] in *. lia. }
    destruct (IH (S (S c)) _ bt code' t R Q1 Q2 ltac:(lia) Q3) as (L1 & L2 & (ins & HA) & L3 & L4 & L5).
    cbn [length]. split; [lia|]. split.
    { rewrite L2. rewrite Eb. rewrite !app_length. cbn [length]. lia. }
    split.
    { exists (a :: b' :: ins). intros f y. destruct (HA f y) as [A B].
      rewrite seq_2S. specialize (Cb f y). specialize (Cb2 f y).
      unfold flat_code in *. cbn [flat_map]. rewrite map_app, cnt_app. fold (flat_code code') in *.
      split.
      - destruct (0 <? s)%Z; cbn [flat_x map]; rewrite !cnt_cons; cbn [map]; rewrite ?cnt_cons, ?cnt_nil; lia.
      - cbn [map]. rewrite !cnt_cons. lia. }
    split; auto. split; auto. intros y Hy. apply L5. lia.
Qed.

Lemma conn_lookup_nth : forall bt k j, (forall y, cnt y bt <= 1) -> j < length bt ->
  conn_lookup bt k (nth j bt 0) = k + j.
Proof.
  induction bt as [|x r IH]; intros k j H Hj; cbn in Hj; [lia|].
  destruct j as [|j]; cbn [nth conn_lookup].
  - rewrite Nat.eqb_refl. lia.
  - destruct (Nat.eqb_spec x (nth j r 0)) as [E|N].
    + exfalso. specialize (H x). rewrite cnt_cons, Nat.eqb_refl in H.
      assert (0 < cnt x r) by (apply cnt_In; rewrite E; apply nth_In; lia). lia.
    + rewrite IH; try lia. intros y. specialize (H y). rewrite cnt_cons in H. lia.
Qed.
Lemma conn_lookup_notin : forall bt k y, ~ In y bt -> conn_lookup bt k y = y.
Proof.
  induction bt as [|x r IH]; intros k y H; cbn; auto.
  destruct (Nat.eqb_spec x y) as [->|N]; [exfalso; apply H; cbn; auto|].
  apply IH. intros Hy. apply H. cbn; auto.
Qed.
Lemma no_free_loop_spec : forall bt k, no_free_loop bt k = true -> forall j, j < length bt -> nth j bt 0 <> k + j.
Proof.
  induction bt as [|x r IH]; intros k H j Hj; cbn in *; [lia|].
  apply andb_true_iff in H. destruct H as [H1 H2]. apply negb_true_iff, Nat.eqb_neq in H1.
  destruct j as [|j]; [lia|]. specialize (IH (S k) H2 j ltac:(lia)). lia.
Qed.

Lemma closure_loop_length_X : forall code, Forall (fun c => ct c = X) (link_of_code code).
Proof. induction code as [|[[[a b] c] d] code IH]; cbn; constructor; auto. Qed.

Lemma crossing_num_all_X : forall l, Forall (fun c => ct c = X) l -> crossing_num l = length l.
Proof.
  induction l as [|c l IH]; intros H; [reflexivity|]. inversion H; subst.
  unfold crossing_num in *. cbn. unfold is_resolved at 1. rewrite H2. cbn. rewrite IH; auto.
Qed.

Lemma map_flat_rename : forall f code,
  flat_code (map (fun x => match x with (a, b, c, d) => (f a, f b, f c, f d) end) code) = map f (flat_code code).
Proof.
  induction code as [|[[[a b] c] d] code IH]; cbn; auto. unfold flat_code in IH. rewrite IH. reflexivity.
Qed.

(* the closure, when defined: valid, one X crossing per letter *)
Theorem closure_valid : forall strands w l, closure strands w = Some l ->
  Valid l /\ length l = length w /\ crossing_num l = length w /\ Forall (fun c => ct c = X) l.
Proof.
  intros s w l E. unfold closure, closure_code in E.
  destruct (closure_loop w s (seq 0 s)) as [[bt code]|] eqn:CL; [|discriminate].
  destruct (no_free_loop bt 0) eqn:NF; [|discriminate]. cbn [option_map] in E. inversion E; subst l; clear E.
  set (f := conn_lookup bt 0).
  assert (P1 : forall y, cnt y (seq 0 s) <= 1) by (apply cnt_NoDup, seq_NoDup).
  assert (P2 : forall y, s <= y -> cnt y (seq 0 s) = 0).
  { intros y Hy. destruct (cnt y (seq 0 s)) eqn:C; auto. exfalso.
    assert (In y (seq 0 s)) by (apply cnt_In; lia). apply in_seq in H. lia. }
  assert (P3 : low_in_place s (seq 0 s)).
  { intros j Hj _. rewrite seq_length in Hj. rewrite seq_nth; auto. }
  destruct (closure_loop_inv w s (seq 0 s) bt code s CL P1 P2 (le_n s) P3)
    as (L1 & L2 & (ins & HA) & L3 & L4 & L5).
  rewrite seq_length in L2.
  (* the renaming sends the bottom row to 0..s-1 and fixes 0..s-1 *)
  assert (Fbt : map f bt = seq 0 s).
  { apply (nth_ext _ _ (f 0) 0); [rewrite map_length, seq_length; auto|].
    intros j Hj. rewrite map_length in Hj. rewrite map_nth. rewrite seq_nth by lia.
    unfold f. rewrite conn_lookup_nth; auto. }
  assert (Hlow : forall i, i < s -> ~ In i bt).
  { intros i Hi Hin. apply (In_nth _ _ 0) in Hin. destruct Hin as [j [Hj Ej]].
    assert (nth j bt 0 = j) by (apply L3; auto; lia).
    pose proof (no_free_loop_spec bt 0 NF j Hj). lia. }
  assert (Ftop : map f (seq 0 s) = seq 0 s).
  { rewrite <- (map_id (seq 0 s)) at 2. apply map_ext_in. intros i Hi. apply in_seq in Hi.
    unfold f. apply conn_lookup_notin. apply Hlow. lia. }
  set (M := map f (seq s (2 * length w))).
  assert (NM : NoDup M).
  { unfold M. apply NoDup_map_local; [|apply seq_NoDup].
    intros e e' He He' Ef. apply in_seq in He, He'.
    assert (Hcase : forall x, In x bt -> exists j, j < s /\ f x = j /\ nth j bt 0 = x).
    { intros x Hx. apply (In_nth _ _ 0) in Hx. destruct Hx as [j [Hj Ej]]. exists j. split; [lia|].
      split; auto. unfold f. rewrite <- Ej. rewrite conn_lookup_nth; auto. }
    destruct (in_dec Nat.eq_dec e bt) as [I1|I1]; destruct (in_dec Nat.eq_dec e' bt) as [I2|I2].
    - destruct (Hcase e I1) as (j & _ & F1 & N1). destruct (Hcase e' I2) as (j' & _ & F2 & N2). congruence.
    - destruct (Hcase e I1) as (j & Hj & F1 & _). unfold f in Ef at 2. rewrite (conn_lookup_notin _ _ _ I2) in Ef. lia.
    - destruct (Hcase e' I2) as (j & Hj & F1 & _). unfold f in Ef at 1. rewrite (conn_lookup_notin _ _ _ I1) in Ef. lia.
    - unfold f in Ef. rewrite !conn_lookup_notin in Ef; auto. }
  assert (Hlab : edge_labels (link_of_code
            (map (fun x => match x with (a, b, c, d) => (f a, f b, f c, f d) end) code)) = map f (flat_code code)).
  { rewrite edge_labels_link_of_code. apply map_flat_rename. }
  split; [|split; [|split]].
  - intros y Hy. rewrite Hlab in *. destruct (HA f y) as [A B]. rewrite Fbt, Ftop in B.
    fold M in A, B. apply cnt_In in Hy. pose proof (proj1 (cnt_NoDup M) NM y). lia.
  - unfold link_of_code. rewrite !map_length. exact L1.
  - rewrite crossing_num_all_X by apply closure_loop_length_X.
    unfold link_of_code. rewrite !map_length. exact L1.
  - apply closure_loop_length_X.
Qed.
