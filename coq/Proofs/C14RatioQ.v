(* Ratio against Q of the standard library: exactness of every operation (Qeq), the order is
   Qcompare, all finite histories, and the machine-width instances never wrap (whatever Ratio<i64>
   returns, Ratio<BigInt> returns too). *)
From Coq Require Import ZArith QArith Qabs Bool Lia List.
Require Import Yui.Model.Ints Yui.Model.Ratio Yui.Proofs.C14Ints Yui.Proofs.C14Ratio.
Import ListNotations.
Open Scope Z_scope.

(* ---------- values ---------- *)
Lemma val_den r : 0 < denom r -> Z.pos (Qden (rt_val r)) = denom r.
Proof. intros H. unfold rt_val. cbn [Qden]. now apply Z2Pos.id. Qed.

Lemma val_num r : Qnum (rt_val r) = numer r.
Proof. reflexivity. Qed.

Lemma val_req x y : 0 < denom x -> 0 < denom y -> (rt_val x == rt_val y)%Q <-> Req x y.
Proof.
  intros Hx Hy. unfold Qeq. rewrite !val_den, !val_num by auto. unfold Req. tauto.
Qed.

(* two canonical values are identical iff they denote the same rational number *)
Lemma canon_val_inj x y : Canon x -> Canon y -> (rt_val x == rt_val y)%Q -> x = y.
Proof.
  intros Hx Hy E. apply canon_unique; auto. apply val_req; auto; [apply Hx|apply Hy].
Qed.

Lemma canon_eq_iff x y : Canon x -> Canon y -> (rt_eqb x y = true <-> (rt_val x == rt_val y)%Q).
Proof.
  intros Hx Hy. rewrite rt_eqb_eq. split; [intros ->; reflexivity|now apply canon_val_inj].
Qed.

(* n / d as a rational: characterisation by cross-multiplication *)
Lemma qfrac_spec r n d : 0 < denom r -> d <> 0 ->
  ((rt_val r == qfrac n d)%Q <-> numer r * d = n * denom r).
Proof.
  intros Hr Hd. unfold qfrac, Qdiv, Qinv, inject_Z. cbn [Qnum Qden].
  destruct d as [|p|p]; [contradiction| |]; unfold Qeq, Qmult; cbn [Qnum Qden];
    rewrite val_den, val_num by auto; rewrite ?Pos.mul_1_l.
  - rewrite Z.mul_1_r. tauto.
  - change (Z.neg p) with (- Z.pos p). split; intros H; nia.
Qed.

Lemma val_from_int a : (rt_val (rt_from_int a) == inject_Z a)%Q.
Proof. reflexivity. Qed.

(* ---------- exactness in Q ---------- *)
Lemma new_exact n d : d <> 0 ->
  exists r, rt_new Big n d = Some r /\ Canon r /\ (rt_val r == qfrac n d)%Q.
Proof.
  intros Hd. destruct (new_spec n d Hd) as (r & Hr & Hc & He). exists r. repeat split; try apply Hc; auto.
  apply qfrac_spec; auto. apply Hc.
Qed.

Lemma add_exact x y : Canon x -> Canon y ->
  exists r, rt_add Big x y = Some r /\ Canon r /\ (rt_val r == rt_val x + rt_val y)%Q.
Proof.
  intros Hx Hy. destruct (add_spec x y Hx Hy) as (r & Hr & Hc & He).
  exists r. split; [exact Hr|split; [exact Hc|]].
  destruct Hx as [Hx _], Hy as [Hy _], Hc as [Hc _].
  unfold Qeq, Qplus. cbn [Qnum Qden]. rewrite Pos2Z.inj_mul, !val_den, !val_num by auto. exact He.
Qed.

Lemma sub_exact x y : Canon x -> Canon y ->
  exists r, rt_sub Big x y = Some r /\ Canon r /\ (rt_val r == rt_val x - rt_val y)%Q.
Proof.
  intros Hx Hy. destruct (sub_spec x y Hx Hy) as (r & Hr & Hc & He).
  exists r. split; [exact Hr|split; [exact Hc|]].
  destruct Hx as [Hx _], Hy as [Hy _], Hc as [Hc _].
  unfold Qeq, Qminus, Qplus, Qopp. cbn [Qnum Qden]. rewrite Pos2Z.inj_mul, !val_den, !val_num by auto.
  rewrite He. ring.
Qed.

Lemma mul_exact x y : Canon x -> Canon y ->
  exists r, rt_mul Big x y = Some r /\ Canon r /\ (rt_val r == rt_val x * rt_val y)%Q.
Proof.
  intros Hx Hy. destruct (mul_spec x y Hx Hy) as (r & Hr & Hc & He).
  exists r. split; [exact Hr|split; [exact Hc|]].
  destruct Hx as [Hx _], Hy as [Hy _], Hc as [Hc _].
  unfold Qeq, Qmult. cbn [Qnum Qden]. rewrite Pos2Z.inj_mul, !val_den, !val_num by auto. exact He.
Qed.

Lemma neg_exact x : Canon x ->
  exists r, rt_neg Big x = Some r /\ Canon r /\ (rt_val r == - rt_val x)%Q.
Proof.
  intros Hx. destruct (neg_spec x Hx) as [Hr Hc]. exists (mkR (- numer x) (denom x)).
  repeat split; try apply Hc; auto.
Qed.

Lemma qinv_cross (q r : Q) : Qnum q <> 0 -> Qnum r * Qnum q = Z.pos (Qden q) * Z.pos (Qden r) -> (r == / q)%Q.
Proof.
  destruct q as [a b], r as [c d]. cbn [Qnum Qden]. intros Ha H.
  unfold Qeq, Qinv. cbn [Qnum Qden]. destruct a as [|p|p]; [contradiction| |]; cbn [Qnum Qden].
  - lia.
  - change (Z.neg b) with (- Z.pos b). change (Z.neg p) with (- Z.pos p) in H. nia.
Qed.

Lemma inv_exact x : Canon x -> numer x <> 0 ->
  exists r, rt_inv Big x = Some (Some r) /\ Canon r /\ (rt_val r == / rt_val x)%Q.
Proof.
  intros Hx Hn. destruct (inv_spec x Hx Hn) as (r & Hr & Hc & He).
  exists r. split; [exact Hr|split; [exact Hc|]].
  apply qinv_cross; [exact Hn|]. rewrite !val_den, !val_num; [exact He|apply Hc|apply Hx].
Qed.

Lemma val_nonzero x : numer x <> 0 -> ~ (rt_val x == 0)%Q.
Proof. intros H E. unfold Qeq in E. cbn in E. lia. Qed.

Lemma div_exact x y : Canon x -> Canon y -> numer y <> 0 ->
  exists r, rt_div Big x y = Some r /\ Canon r /\ (rt_val r == rt_val x / rt_val y)%Q.
Proof.
  intros Hx Hy Hn. unfold rt_div. unfold rt_is_zero at 1. unfold iis_zero.
  apply Z.eqb_neq in Hn as Hn'. rewrite Hn'.
  destruct (inv_exact y Hy Hn) as (i & Hi & Hci & Hei). rewrite Hi. cbn [obind].
  destruct (mul_exact x i Hx Hci) as (r & Hr & Hc & He). exists r. repeat split; try apply Hc; auto.
  rewrite He, Hei. reflexivity.
Qed.

Lemma abs_exact x : Canon x ->
  exists r, rt_abs Big x = Some r /\ Canon r /\ (rt_val r == Qabs (rt_val x))%Q.
Proof.
  intros Hx. destruct (abs_spec x Hx) as [Hr Hc]. exists (mkR (Z.abs (numer x)) (denom x)).
  repeat split; try apply Hc; auto.
Qed.

(* ---------- the order ---------- *)
Lemma cmp_exact x y : 0 < denom x -> 0 < denom y ->
  rt_cmp Big x y = Some (rt_val x ?= rt_val y)%Q.
Proof.
  intros Hx Hy. rewrite cmp_big. unfold Qcompare. now rewrite !val_den, !val_num.
Qed.

Lemma cmp_eq_iff x y : Canon x -> Canon y -> (rt_cmp Big x y = Some Eq <-> x = y).
Proof.
  intros Hx Hy. rewrite cmp_exact by (apply Hx || apply Hy). split.
  - intros H. inversion H as [H1]. apply Qeq_alt in H1. now apply canon_val_inj.
  - intros ->. f_equal. apply Qeq_alt. reflexivity.
Qed.

Lemma cmp_lt_iff x y : 0 < denom x -> 0 < denom y -> (rt_cmp Big x y = Some Lt <-> (rt_val x < rt_val y)%Q).
Proof.
  intros Hx Hy. rewrite cmp_exact by auto. rewrite Qlt_alt. split; [intros H; now inversion H|now intros ->].
Qed.

Lemma cmp_gt_iff x y : 0 < denom x -> 0 < denom y -> (rt_cmp Big x y = Some Gt <-> (rt_val y < rt_val x)%Q).
Proof.
  intros Hx Hy. rewrite cmp_exact by auto. rewrite Qgt_alt. split; [intros H; now inversion H|now intros ->].
Qed.

Lemma cmp_antisym x y : 0 < denom x -> 0 < denom y ->
  exists c, rt_cmp Big x y = Some c /\ rt_cmp Big y x = Some (CompOpp c).
Proof.
  intros Hx Hy. rewrite !cmp_exact by auto. eexists; split; [reflexivity|]. f_equal.
  unfold Qcompare. apply Z.compare_antisym.
Qed.

Lemma cmp_lt_trans x y z : 0 < denom x -> 0 < denom y -> 0 < denom z ->
  rt_cmp Big x y = Some Lt -> rt_cmp Big y z = Some Lt -> rt_cmp Big x z = Some Lt.
Proof.
  intros Hx Hy Hz. rewrite !cmp_lt_iff by auto. apply Qlt_trans.
Qed.

(* ---------- one step and all finite histories ---------- *)
Lemma qfrac_zero_iff n d : d <> 0 -> (Qnum (qfrac n d) = 0 <-> n = 0).
Proof.
  intros Hd. unfold qfrac, Qdiv, Qinv, inject_Z, Qmult. cbn [Qnum Qden].
  destruct d as [|p|p]; [contradiction| |]; cbn [Qnum Qden]; nia.
Qed.

Lemma qnum_zero_proper (p q : Q) : (p == q)%Q -> (Qnum p = 0 <-> Qnum q = 0).
Proof. unfold Qeq. intros H. split; intros E; rewrite E in H; nia. Qed.

Definition step_rel (x : ratio) (o : rt_op) : Prop :=
  match rt_step Big x o, q_step (rt_val x) o with
  | Some y, Some q => Canon y /\ (rt_val y == q)%Q
  | None, None => True
  | _, _ => False
  end.

Lemma step_exact x o : Canon x -> step_rel x o.
Proof.
  intros Hx. unfold step_rel. destruct o as [n d|n d|n d|n d| |]; cbn [rt_step q_step].
  - destruct (d =? 0) eqn:Ed.
    + apply Z.eqb_eq in Ed. subst d. now rewrite new_zero_denom.
    + apply Z.eqb_neq in Ed. destruct (new_exact n d Ed) as (y & Hy & Hcy & Hvy). rewrite Hy. cbn [obind].
      destruct (add_exact x y Hx Hcy) as (r & Hr & Hc & Hv). rewrite Hr. split; auto. now rewrite Hv, Hvy.
  - destruct (d =? 0) eqn:Ed.
    + apply Z.eqb_eq in Ed. subst d. now rewrite new_zero_denom.
    + apply Z.eqb_neq in Ed. destruct (new_exact n d Ed) as (y & Hy & Hcy & Hvy). rewrite Hy. cbn [obind].
      destruct (sub_exact x y Hx Hcy) as (r & Hr & Hc & Hv). rewrite Hr. split; auto. now rewrite Hv, Hvy.
  - destruct (d =? 0) eqn:Ed.
    + apply Z.eqb_eq in Ed. subst d. now rewrite new_zero_denom.
    + apply Z.eqb_neq in Ed. destruct (new_exact n d Ed) as (y & Hy & Hcy & Hvy). rewrite Hy. cbn [obind].
      destruct (mul_exact x y Hx Hcy) as (r & Hr & Hc & Hv). rewrite Hr. split; auto. now rewrite Hv, Hvy.
  - destruct (d =? 0) eqn:Ed; cbn [orb].
    + apply Z.eqb_eq in Ed. subst d. now rewrite new_zero_denom.
    + apply Z.eqb_neq in Ed. destruct (new_exact n d Ed) as (y & Hy & Hcy & Hvy). rewrite Hy. cbn [obind].
      assert (Hz : numer y = 0 <-> n = 0).
      { rewrite <- (qfrac_zero_iff n d Ed). rewrite <- val_num. now apply qnum_zero_proper. }
      destruct (n =? 0) eqn:En.
      * apply Z.eqb_eq in En. rewrite div_zero; [exact I|tauto].
      * apply Z.eqb_neq in En. assert (Hny : numer y <> 0) by tauto.
        destruct (div_exact x y Hx Hcy Hny) as (r & Hr & Hc & Hv). rewrite Hr. split; auto.
        now rewrite Hv, Hvy.
  - destruct (neg_exact x Hx) as (r & Hr & Hc & Hv). rewrite Hr. auto.
  - rewrite val_num. destruct (numer x =? 0) eqn:En.
    + apply Z.eqb_eq in En. rewrite inv_zero by auto. exact I.
    + apply Z.eqb_neq in En. destruct (inv_exact x Hx En) as (r & Hr & Hc & Hv). rewrite Hr. cbn [obind]. auto.
Qed.

Lemma q_run_step_proper (p q : Q) o : (p == q)%Q -> (q_run_step p o == q_run_step q o)%Q.
Proof.
  intros E. unfold q_run_step. destruct o as [n d|n d|n d|n d| |]; cbn [q_step].
  - destruct (d =? 0); [exact E|now rewrite E].
  - destruct (d =? 0); [exact E|now rewrite E].
  - destruct (d =? 0); [exact E|now rewrite E].
  - destruct ((d =? 0) || (n =? 0)); [exact E|now rewrite E].
  - now rewrite E.
  - pose proof (qnum_zero_proper p q E) as Hz.
    destruct (Qnum p =? 0) eqn:Ep; destruct (Qnum q =? 0) eqn:Eq.
    + exact E.
    + apply Z.eqb_eq in Ep. apply Z.eqb_neq in Eq. tauto.
    + apply Z.eqb_neq in Ep. apply Z.eqb_eq in Eq. tauto.
    + now rewrite E.
Qed.

Lemma run_step_exact x o : Canon x ->
  Canon (rt_run_step Big x o) /\ (rt_val (rt_run_step Big x o) == q_run_step (rt_val x) o)%Q.
Proof.
  intros Hx. pose proof (step_exact x o Hx) as H. unfold step_rel in H. unfold rt_run_step, q_run_step.
  destruct (rt_step Big x o), (q_step (rt_val x) o); try contradiction; [exact H|split; [exact Hx|reflexivity]].
Qed.

Lemma history_exact ops : forall x q, Canon x -> (rt_val x == q)%Q ->
  Canon (fold_left (rt_run_step Big) ops x) /\
  (rt_val (fold_left (rt_run_step Big) ops x) == fold_left q_run_step ops q)%Q.
Proof.
  induction ops as [|o ops IH]; intros x q Hx E; cbn [fold_left]; [auto|].
  destruct (run_step_exact x o Hx) as [Hc Hv]. apply IH; auto.
  rewrite Hv. now apply q_run_step_proper.
Qed.

Lemma history_exact' ops x : Canon x ->
  Canon (fold_left (rt_run_step Big) ops x) /\
  (rt_val (fold_left (rt_run_step Big) ops x) == fold_left q_run_step ops (rt_val x))%Q.
Proof. intros Hx. apply history_exact; [exact Hx|reflexivity]. Qed.

(* ---------- machine widths: whatever Ratio<iN> returns, Ratio<BigInt> returns ---------- *)
Ltac mono :=
  repeat first
    [ apply ole_refl | apply ole_none
    | apply iadd_mono | apply isub_mono | apply imul_mono | apply ineg_mono | apply iabs_mono
    | apply iquot_mono | apply irem_mono | apply igcd_mono | apply ilcm_mono | apply iis_unit_mono
    | apply ole_if | (apply ole_bind; [|intros ?]) ].

Lemma reduce_mono w r : ole (rt_reduce w r) (rt_reduce Big r).
Proof. unfold rt_reduce. mono. Qed.

Lemma new_mono w n d : ole (rt_new w n d) (rt_new Big n d).
Proof. unfold rt_new. apply ole_if; [apply ole_refl|apply reduce_mono]. Qed.

Lemma add_sub_mono w pm x y : (forall a b, ole (pm w a b) (pm Big a b)) ->
  ole (rt_add_sub_assign w pm x y) (rt_add_sub_assign Big pm x y).
Proof.
  intros Hpm. unfold rt_add_sub_assign. cbv zeta.
  repeat first [ apply reduce_mono | apply Hpm | apply ole_refl | apply ole_none
    | apply imul_mono | apply iquot_mono | apply ilcm_mono
    | apply ole_if | (apply ole_bind; [|intros ?]) ].
Qed.

Lemma add_mono w x y : ole (rt_add w x y) (rt_add Big x y).
Proof. apply add_sub_mono. intros; apply iadd_mono. Qed.
Lemma sub_mono w x y : ole (rt_sub w x y) (rt_sub Big x y).
Proof. apply add_sub_mono. intros; apply isub_mono. Qed.

Lemma neg_mono w x : ole (rt_neg w x) (rt_neg Big x).
Proof. unfold rt_neg. apply ole_bind; [apply ineg_mono|intros; apply new_mono]. Qed.

Lemma mul_mono w x y : ole (rt_mul w x y) (rt_mul Big x y).
Proof. unfold rt_mul. cbv zeta. mono. Qed.

Lemma inv_mono w x : ole (rt_inv w x) (rt_inv Big x).
Proof.
  unfold rt_inv. apply ole_if; [apply ole_refl|].
  apply ole_bind; [apply new_mono|intros; apply ole_refl].
Qed.

Lemma div_mono w x y : ole (rt_div w x y) (rt_div Big x y).
Proof.
  unfold rt_div. apply ole_if; [apply ole_refl|].
  apply ole_bind; [apply inv_mono|intros [i|]; [apply mul_mono|apply ole_refl]].
Qed.

Lemma abs_mono w x : ole (rt_abs w x) (rt_abs Big x).
Proof. unfold rt_abs. apply ole_if; [apply neg_mono|apply ole_refl]. Qed.

Lemma cmp_mono w x y : ole (rt_cmp w x y) (rt_cmp Big x y).
Proof. unfold rt_cmp. mono. Qed.

Lemma step_mono w x o : ole (rt_step w x o) (rt_step Big x o).
Proof.
  destruct o; cbn [rt_step];
    try (apply ole_bind; [apply new_mono|intros ?]);
    try apply add_mono; try apply sub_mono; try apply mul_mono; try apply div_mono; try apply neg_mono.
  apply ole_bind; [apply inv_mono|intros; apply ole_refl].
Qed.

(* consequences: a machine-width result is canonical and exact *)
Lemma bounded_new w n d r : rt_new w n d = Some r -> d <> 0 /\ Canon r /\ (rt_val r == qfrac n d)%Q.
Proof.
  intros H. apply new_mono in H. destruct (Z.eq_dec d 0) as [->|Hd]; [now rewrite new_zero_denom in H|].
  destruct (new_exact n d Hd) as (r' & Hr & Hc & Hv). rewrite Hr in H. inversion H; subst. auto.
Qed.

Lemma bounded_add w x y r : Canon x -> Canon y -> rt_add w x y = Some r ->
  Canon r /\ (rt_val r == rt_val x + rt_val y)%Q.
Proof.
  intros Hx Hy H. apply add_mono in H. destruct (add_exact x y Hx Hy) as (r' & Hr & Hc & Hv).
  rewrite Hr in H. inversion H; subst. auto.
Qed.

Lemma bounded_sub w x y r : Canon x -> Canon y -> rt_sub w x y = Some r ->
  Canon r /\ (rt_val r == rt_val x - rt_val y)%Q.
Proof.
  intros Hx Hy H. apply sub_mono in H. destruct (sub_exact x y Hx Hy) as (r' & Hr & Hc & Hv).
  rewrite Hr in H. inversion H; subst. auto.
Qed.

Lemma bounded_mul w x y r : Canon x -> Canon y -> rt_mul w x y = Some r ->
  Canon r /\ (rt_val r == rt_val x * rt_val y)%Q.
Proof.
  intros Hx Hy H. apply mul_mono in H. destruct (mul_exact x y Hx Hy) as (r' & Hr & Hc & Hv).
  rewrite Hr in H. inversion H; subst. auto.
Qed.

Lemma bounded_neg w x r : Canon x -> rt_neg w x = Some r -> Canon r /\ (rt_val r == - rt_val x)%Q.
Proof.
  intros Hx H. apply neg_mono in H. destruct (neg_exact x Hx) as (r' & Hr & Hc & Hv).
  rewrite Hr in H. inversion H; subst. auto.
Qed.

Lemma bounded_div w x y r : Canon x -> Canon y -> rt_div w x y = Some r ->
  numer y <> 0 /\ Canon r /\ (rt_val r == rt_val x / rt_val y)%Q.
Proof.
  intros Hx Hy H. apply div_mono in H. destruct (Z.eq_dec (numer y) 0) as [E|Hn]; [now rewrite div_zero in H|].
  destruct (div_exact x y Hx Hy Hn) as (r' & Hr & Hc & Hv). rewrite Hr in H. inversion H; subst. auto.
Qed.

Lemma bounded_cmp w x y c : 0 < denom x -> 0 < denom y -> rt_cmp w x y = Some c -> c = (rt_val x ?= rt_val y)%Q.
Proof.
  intros Hx Hy H. apply cmp_mono in H. rewrite cmp_exact in H by auto. now inversion H.
Qed.

(* a machine-width history: every accepted step is the step of Q; a panicking step leaves the value *)
Lemma bounded_run_step w x o : Canon x ->
  Canon (rt_run_step w x o) /\
  ((rt_val (rt_run_step w x o) == q_run_step (rt_val x) o)%Q \/ rt_step w x o = None).
Proof.
  intros Hx. unfold rt_run_step. destruct (rt_step w x o) as [y|] eqn:E; [|auto].
  apply step_mono in E. destruct (run_step_exact x o Hx) as [Hc Hv]. unfold rt_run_step in Hc, Hv.
  rewrite E in Hc, Hv. auto.
Qed.

Lemma bounded_history_canon w ops : forall x, Canon x -> Canon (fold_left (rt_run_step w) ops x).
Proof.
  induction ops as [|o ops IH]; intros x Hx; cbn [fold_left]; auto.
  apply IH. now apply bounded_run_step.
Qed.
