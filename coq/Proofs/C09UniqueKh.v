(* C09 (uniqueness), part 4: the mirrored SnfCalc (Model/Snf.v) and the sparse Smith routine of the Khovanov
   oracle (Model/KhHomology.v, [smith_diag]) compute the SAME invariant factors.
   Both are proved to return Smith forms with positive divisibility chains (C09_total_partial;
   KhSmithMain.smith_diag_sound); by uniqueness the lists coincide. *)
From Coq Require Import ZArith Arith List Lia Bool.
Require Import Yui.Base.Ring Yui.Base.MatF Yui.Base.MatL Yui.Model.Snf.
Require Import Yui.Model.KhCube Yui.Model.KhHomology.
Require Import Yui.Proofs.C07Algebra Yui.Proofs.C09UniqueKer Yui.Proofs.C09Unique.
Require Import Yui.Proofs.C09Inv Yui.Proofs.C09Total Yui.Proofs.C09Laws.
Require Import Yui.Proofs.KhSmithRows Yui.Proofs.KhSmithMat Yui.Proofs.KhSmithSteps Yui.Proofs.KhSmithMain.
Import ListNotations.
Local Open Scope Z_scope.

Lemma smith_form_ext m n (A A' : mat Z) r a :
  meq m n A A' -> smith_form Z_ring m n A r a -> smith_form Z_ring m n A' r a.
Proof.
  intros HA [P [Pi [Q [Qi [HP [HQ [He H]]]]]]]. exists P, Pi, Q, Qi.
  split; [exact HP|]. split; [exact HQ|]. split; [|exact H].
  intros i j Hi Hj. rewrite <- (He i j Hi Hj).
  apply (mmul_ext_r Z_ring). intros l Hl. apply (mmul_ext_l Z_ring). intros l' Hl'. symmetry. now apply HA.
Qed.

(* any list with the Smith property of the oracle against the result of the mirrored snf *)
Theorem snf_vs_SmithOf pre m n (A : lmat Z) (B : zmat) f1 f2 f3 f4 res ds :
  snf_spec (Zpre_dict pre) m n A f1 f2 f3 f4 res ->
  meq m n B (lget Z_ring A) ->
  SmithOf m n B ds ->
  snf_rank (Zpre_dict pre) res = length ds /\ snf_factors (Zpre_dict pre) res = ds.
Proof.
  intros HS HB HO.
  pose proof (smith_form_ext m n B (lget Z_ring A) _ _ HB (SmithOf_smith_form m n B ds HO)) as F'.
  destruct HO as [Hpos [Hch _]].
  destruct (Z_snf_result_unique pre m n A f1 f2 f3 f4 res (length ds) (fun i => nth i ds 0) HS F' Hch) as [Er Ha].
  { intros k Hk. apply Hpos. now apply nth_In. }
  split; [exact Er|].
  rewrite (snf_factors_spec (Zpre_dict pre) (Zpre_snf_laws pre) m n A f1 f2 f3 f4 res HS), Er.
  change (ed_ring (Zpre_dict pre)) with Z_ring.
  apply nth_ext with (d := 0) (d' := 0).
  - now rewrite map_length, seq_length.
  - intros k Hk. rewrite map_length, seq_length in Hk.
    rewrite (nth_indep _ 0 (lget Z_ring (dm_rows (sr_d res)) (length ds) (length ds)))
      by now rewrite map_length, seq_length.
    rewrite (map_nth (fun k0 => lget Z_ring (dm_rows (sr_d res)) k0 k0) (seq 0 (length ds)) (length ds) k).
    rewrite seq_nth by exact Hk. cbn [Nat.add]. now apply Ha.
Qed.

(* the oracle's routine itself *)
Theorem snf_vs_oracle pre n fuel (rows : list row) ds (A : lmat Z) f1 f2 f3 f4 res :
  rows_wf n rows -> smith_diag fuel rows = Some ds ->
  meq (length rows) n (dense rows) (lget Z_ring A) ->
  snf_spec (Zpre_dict pre) (length rows) n A f1 f2 f3 f4 res ->
  snf_rank (Zpre_dict pre) res = length ds /\ snf_factors (Zpre_dict pre) res = ds.
Proof.
  intros Hwf Hd HB HS.
  exact (snf_vs_SmithOf pre (length rows) n A (dense rows) f1 f2 f3 f4 res ds HS HB
           (smith_diag_sound n fuel rows ds Hwf Hd)).
Qed.

(* two runs of the oracle's routine on rows with the same dense matrix (any row order of the sparse
   representation is the same matrix; any fuel) return the same list *)
Theorem SmithOf_unique m n (B : zmat) ds ds' : SmithOf m n B ds -> SmithOf m n B ds' -> ds = ds'.
Proof.
  intros H H'.
  pose proof (SmithOf_smith_form m n B ds H) as F. pose proof (SmithOf_smith_form m n B ds' H') as F'.
  destruct H as [Hpos [Hch _]]. destruct H' as [Hpos' [Hch' _]].
  destruct (Z_smith_form_unique m n B _ _ _ _ F F' Hch Hch') as [El [_ He]].
  apply nth_ext with (d := 0) (d' := 0); [exact El|].
  intros k Hk. apply He; [| |exact Hk].
  - intros k0 Hk0. apply Hpos. now apply nth_In.
  - intros k0 Hk0. apply Hpos'. now apply nth_In.
Qed.
