(* C13, coordinate transforms: a Trans built by ANY finite history of new / append / append_perm /
   merge / reduce / sub applies the same linear map as the product of its factors, its forward_mat and
   backward_mat are those products (f_n ... f_0 and b_0 ... b_n), and reduce changes neither map.

   [chain d fs bs d']: the factor lists are well-formed sparse matrices whose shapes compose,
   f_k : d_k -> d_(k+1), b_k : d_(k+1) -> d_k, from d_0 = d to the last dimension d' (the invariant of Trans).
   [fprod fs] = f_n ... f_0 and [bprod bs] = b_0 ... b_n as functional matrices (MatF).
   [hF h], [hB h]: the linear maps a history denotes, defined with MatF products only. *)
From Coq Require Import Arith List Lia Bool Ring Sorted.
Require Import Yui.Base.Ring Yui.Base.MatF Yui.Base.MatL Yui.Model.Dense Yui.Model.Sparse Yui.Model.Trans.
Require Import Yui.Proofs.C13Dense Yui.Proofs.C13SpBase Yui.Proofs.C13Sparse Yui.Proofs.C13SpArith Yui.Proofs.C13SpVec.
Import ListNotations.

Section TransProofs.
  Context {R : Type} (o : ring_ops R) (L : ring_laws o).

  Local Notation "0" := (rzero o).
  Local Notation "1" := (rone o).
  Local Infix "*" := (rmul o).
  Local Notation spmat := (spmat R).
  Local Notation trans := (trans R).
  Local Notation hist := (hist R).
  Local Notation sp_wf := (@sp_wf R).
  Local Notation sp_is := (sp_is o).
  Local Notation sv_is := (sv_is o).
  Local Notation is_perm := C13Sparse.is_perm.
  Local Notation pat := C13Sparse.pat.

  Add Ring Rring : (ring_theory_of_laws o L).

  (* ---------- the invariant and the mathematical products ---------- *)
  Inductive chain : nat -> list spmat -> list spmat -> nat -> Prop :=
  | chain_nil d : chain d [] [] d
  | chain_cons d f b fs bs d' :
      sp_wf f -> sp_wf b -> sp_n f = d -> sp_m b = d -> sp_n b = sp_m f ->
      chain (sp_m f) fs bs d' -> chain d (f :: fs) (b :: bs) d'.

  Definition tr_wf (t : trans) : Prop := chain (t_src t) (t_f t) (t_b t) (t_tgt t).

  Fixpoint fprod (fs : list spmat) : mat R :=            (* f_n ... f_1 f_0 *)
    match fs with [] => mid o | f :: r => mmul o (sp_m f) (fprod r) (entry o f) end.
  Fixpoint bprod (bs : list spmat) : mat R :=            (* b_0 b_1 ... b_n *)
    match bs with [] => mid o | b :: r => mmul o (sp_n b) (entry o b) (bprod r) end.

  Lemma chain_length d fs bs d' : chain d fs bs d' -> length fs = length bs.
  Proof. induction 1; cbn [length]; congruence. Qed.

  Lemma chain_app d fs bs d' fs' bs' d'' :
    chain d fs bs d' -> chain d' fs' bs' d'' -> chain d (fs ++ fs') (bs ++ bs') d''.
  Proof. induction 1; intros H'; cbn [app]; [exact H'|]. constructor; try assumption. now apply IHchain. Qed.

  Lemma chain_one f b : sp_wf f -> sp_wf b -> sp_n b = sp_m f -> sp_m b = sp_n f ->
    chain (sp_n f) [f] [b] (sp_m f).
  Proof. intros. constructor; try assumption; try reflexivity. constructor. Qed.

  (* meq helpers *)
  Lemma mmul_mid_l n A : forall m p, (m <= n)%nat -> meq m p (mmul o n (mid o) A) A.
  Proof. intros m p H i j Hi _. apply (mmul_id_l o L). lia. Qed.
  Lemma mmul_mid_r n A : forall m p, (p <= n)%nat -> meq m p (mmul o n A (mid o)) A.
  Proof. intros m p H i j _ Hj. apply (mmul_id_r o L). lia. Qed.

  Lemma fprod_app d fs bs d' fs' bs' d'' :
    chain d fs bs d' -> chain d' fs' bs' d'' ->
    meq d'' d (fprod (fs ++ fs')) (mmul o d' (fprod fs') (fprod fs)).
  Proof.
    induction 1 as [d|d f b fs bs d' Wf Wb E1 E2 E3 C IH]; intros C'; cbn [app fprod].
    - apply meq_sym. apply mmul_mid_r. lia.
    - intros i j Hi Hj. rewrite <- (mmul_assoc o L).
      apply (mmul_ext o (sp_m f) d'' d); try assumption.
      + now apply IH.
      + apply meq_refl.
  Qed.

  Lemma bprod_app d fs bs d' fs' bs' d'' :
    chain d fs bs d' -> chain d' fs' bs' d'' ->
    meq d d'' (bprod (bs ++ bs')) (mmul o d' (bprod bs) (bprod bs')).
  Proof.
    induction 1 as [d|d f b fs bs d' Wf Wb E1 E2 E3 C IH]; intros C'; cbn [app bprod].
    - apply meq_sym. apply mmul_mid_l. lia.
    - intros i j Hi Hj. rewrite (mmul_assoc o L).
      apply (mmul_ext o (sp_n b) d d''); try assumption.
      + apply meq_refl.
      + rewrite E3. now apply IH.
  Qed.

  (* ---------- forward / backward ---------- *)
  Lemma forward_fold d fs bs d' v g :
    chain d fs bs d' -> sv_is v d g ->
    exists w, fold_left (fun acc f => do w <- acc; sp_mul_vec o f w) fs (Some v) = Some w /\
              sv_is w d' (mvec o d (fprod fs) g).
  Proof.
    intros C. revert v g. induction C as [d|d f b fs bs d' Wf Wb E1 E2 E3 C IH]; intros v g V; cbn [fold_left fprod].
    - exists v. split; [reflexivity|]. eapply sv_is_ext; [exact V|]. intros i Hi. symmetry. now apply mvec_id.
    - cbn [obind]. pose proof (sp_mul_vec_spec o L f v d g Wf V) as M.
      destruct (sp_mul_vec o f v) as [v1|]; [|exfalso; now apply M].
      destruct M as (_ & V1). destruct (IH v1 _ V1) as [w [Ew W]]. exists w. split; [exact Ew|].
      eapply sv_is_ext; [exact W|]. intros i Hi. symmetry. apply (mvec_mmul o L).
  Qed.

  Lemma backward_fold d fs bs d' v g :
    chain d fs bs d' -> sv_is v d' g ->
    exists w, fold_left (fun acc b => do w <- acc; sp_mul_vec o b w) (rev bs) (Some v) = Some w /\
              sv_is w d (mvec o d' (bprod bs) g).
  Proof.
    intros C. revert v g. induction C as [d|d f b fs bs d' Wf Wb E1 E2 E3 C IH]; intros v g V; cbn [rev bprod].
    - exists v. split; [reflexivity|]. eapply sv_is_ext; [exact V|]. intros i Hi. symmetry. now apply mvec_id.
    - rewrite fold_left_app. destruct (IH v g V) as [w1 [Ew1 W1]]. rewrite Ew1. cbn [fold_left obind].
      pose proof (sp_mul_vec_spec o L b w1 (sp_m f) _ Wb W1) as M.
      destruct (sp_mul_vec o b w1) as [w|]; [|exfalso; now apply M].
      destruct M as (_ & W). exists w. split; [reflexivity|]. rewrite E2 in W.
      eapply sv_is_ext; [exact W|]. intros i Hi. symmetry. rewrite <- E3. apply (mvec_mmul o L).
  Qed.

  Theorem tr_forward_spec t v : tr_wf t -> sp_wf v -> sp_n v = 1%nat ->
    match tr_forward o t v with
    | Some w => sv_dim v = t_src t /\ sv_is w (t_tgt t) (mvec o (t_src t) (fprod (t_f t)) (ventry o v))
    | None => sv_dim v <> t_src t
    end.
  Proof.
    intros C W N. unfold tr_forward. destruct (Nat.eqb_spec (sv_dim v) (t_src t)) as [E|E]; [|exact E].
    destruct (forward_fold _ _ _ _ v (ventry o v) C) as [w [Ew Hw]].
    - unfold sv_dim in E. rewrite <- E. now apply sv_is_self.
    - rewrite Ew. now split.
  Qed.

  Theorem tr_backward_spec t v : tr_wf t -> sp_wf v -> sp_n v = 1%nat ->
    match tr_backward o t v with
    | Some w => sv_dim v = t_tgt t /\ sv_is w (t_src t) (mvec o (t_tgt t) (bprod (t_b t)) (ventry o v))
    | None => sv_dim v <> t_tgt t
    end.
  Proof.
    intros C W N. unfold tr_backward. destruct (Nat.eqb_spec (sv_dim v) (t_tgt t)) as [E|E]; [|exact E].
    destruct (backward_fold _ _ _ _ v (ventry o v) C) as [w [Ew Hw]].
    - unfold sv_dim in E. rewrite <- E. now apply sv_is_self.
    - rewrite Ew. now split.
  Qed.

  (* ---------- forward_mat / backward_mat ---------- *)
  Lemma fmat_fold d fs bs d' acc m A :
    chain d fs bs d' -> sp_is acc m d' A ->
    exists r, fold_left (fun acc f => do r <- acc; sp_mul o r f) (rev fs) (Some acc) = Some r /\
              sp_is r m d (mmul o d' A (fprod fs)).
  Proof.
    intros C. revert acc A. induction C as [d|d f b fs bs d' Wf Wb E1 E2 E3 C IH]; intros acc A H; cbn [rev fprod].
    - exists acc. split; [reflexivity|]. eapply sp_is_ext; [exact H|].
      intros i j Hi Hj. symmetry. apply (mmul_id_r o L). lia.
    - rewrite fold_left_app. destruct (IH acc A H) as [r1 [Er1 (R1 & R2 & R3 & R4)]]. rewrite Er1. cbn [fold_left obind].
      pose proof (sp_mul_spec o L r1 f R3 Wf) as M. destruct (sp_mul o r1 f) as [r|]; [|exfalso; apply M; lia].
      destruct M as (_ & (M1 & M2 & M3 & M4)). exists r. split; [reflexivity|].
      unfold C13Sparse.sp_is. splits; try assumption; try lia.
      intros i j Hi Hj. rewrite M4 by lia. rewrite R2, <- (mmul_assoc o L).
      apply (mmul_ext o (sp_m f) m d); try lia.
      + exact R4.
      + apply meq_refl.
  Qed.

  Lemma bmat_fold d fs bs d' acc p A :
    chain d fs bs d' -> sp_is acc d' p A ->
    exists r, fold_left (fun acc b => do r <- acc; sp_mul o b r) (rev bs) (Some acc) = Some r /\
              sp_is r d p (mmul o d' (bprod bs) A).
  Proof.
    intros C. revert acc A. induction C as [d|d f b fs bs d' Wf Wb E1 E2 E3 C IH]; intros acc A H; cbn [rev bprod].
    - exists acc. split; [reflexivity|]. eapply sp_is_ext; [exact H|].
      intros i j Hi Hj. symmetry. apply (mmul_id_l o L). lia.
    - rewrite fold_left_app. destruct (IH acc A H) as [r1 [Er1 (R1 & R2 & R3 & R4)]]. rewrite Er1. cbn [fold_left obind].
      pose proof (sp_mul_spec o L b r1 Wb R3) as M. destruct (sp_mul o b r1) as [r|]; [|exfalso; apply M; lia].
      destruct M as (_ & (M1 & M2 & M3 & M4)). exists r. split; [reflexivity|].
      unfold C13Sparse.sp_is. splits; try assumption; try lia.
      intros i j Hi Hj. rewrite M4 by lia. rewrite (mmul_assoc o L).
      apply (mmul_ext o (sp_n b) d p); try lia.
      + apply meq_refl.
      + rewrite E3. exact R4.
  Qed.

  Theorem tr_forward_mat_spec t : tr_wf t ->
    exists F, tr_forward_mat o t = Some F /\ sp_is F (t_tgt t) (t_src t) (fprod (t_f t)).
  Proof.
    intros C. unfold tr_wf in C. unfold tr_forward_mat.
    assert (G : exists F, fold_left (fun acc f => do r <- acc; sp_mul o r f) (rev (t_f t)) (Some (sp_id o (t_tgt t))) = Some F /\
                          sp_is F (t_tgt t) (t_src t) (fprod (t_f t))).
    { destruct (fmat_fold _ _ _ _ (sp_id o (t_tgt t)) (t_tgt t) (mid o) C (sp_id_spec o L _)) as [F [EF HF]].
      exists F. split; [exact EF|]. eapply sp_is_ext; [exact HF|]. intros i j Hi Hj. apply (mmul_id_l o L). lia. }
    destruct (t_f t) as [|f [|f' r]] eqn:Ef; try exact G.
    (* exactly one factor: the clone of f_0 *)
    exists f. split; [reflexivity|]. inversion C as [|d f0 b fs bs d' Wf Wb E1 E2 E3 C' Ed Efs Ebs Ed']; subst.
    inversion C'; subst. unfold C13Sparse.sp_is. splits; try assumption; try lia.
    intros i j Hi Hj. cbn [fprod]. symmetry. apply (mmul_id_l o L). lia.
  Qed.

  Theorem tr_backward_mat_spec t : tr_wf t ->
    exists B, tr_backward_mat o t = Some B /\ sp_is B (t_src t) (t_tgt t) (bprod (t_b t)).
  Proof.
    intros C. unfold tr_wf in C. unfold tr_backward_mat.
    assert (G : exists B, fold_left (fun acc b => do r <- acc; sp_mul o b r) (rev (t_b t)) (Some (sp_id o (t_tgt t))) = Some B /\
                          sp_is B (t_src t) (t_tgt t) (bprod (t_b t))).
    { destruct (bmat_fold _ _ _ _ (sp_id o (t_tgt t)) (t_tgt t) (mid o) C (sp_id_spec o L _)) as [B [EB HB]].
      exists B. split; [exact EB|]. eapply sp_is_ext; [exact HB|]. intros i j Hi Hj. apply (mmul_id_r o L). lia. }
    destruct (t_b t) as [|b [|b' r]] eqn:Eb; try exact G.
    exists b. split; [reflexivity|]. inversion C as [|d f0 b0 fs bs d' Wf Wb E1 E2 E3 C' Ed Efs Ebs Ed']; subst.
    inversion C'; subst. unfold C13Sparse.sp_is. splits; try assumption; try lia.
    intros i j Hi Hj. cbn [bprod]. symmetry. apply (mmul_id_r o L). lia.
  Qed.

  (* forward(v) = forward_mat() * v and backward(v) = backward_mat() * v *)
  Theorem tr_forward_is_forward_mat t v : tr_wf t -> sp_wf v -> sp_n v = 1%nat -> sv_dim v = t_src t ->
    exists w F, tr_forward o t v = Some w /\ tr_forward_mat o t = Some F /\ sv_dim w = t_tgt t /\
      forall i, (i < t_tgt t)%nat -> ventry o w i = mvec o (t_src t) (entry o F) (ventry o v) i.
  Proof.
    intros C W N E. pose proof (tr_forward_spec t v C W N) as S.
    destruct (tr_forward o t v) as [w|]; [|contradiction].
    destruct (tr_forward_mat_spec t C) as [F [EF (F1 & F2 & F3 & F4)]].
    exists w, F. destruct S as (_ & S). splits; try reflexivity; try assumption.
    - now destruct S as (S1 & _).
    - intros i Hi. rewrite (sv_is_ventry o w _ _ i S Hi).
      apply mvec_ext; intros k Hk; [|reflexivity]. symmetry. now apply F4.
  Qed.

  Theorem tr_backward_is_backward_mat t v : tr_wf t -> sp_wf v -> sp_n v = 1%nat -> sv_dim v = t_tgt t ->
    exists w B, tr_backward o t v = Some w /\ tr_backward_mat o t = Some B /\ sv_dim w = t_src t /\
      forall i, (i < t_src t)%nat -> ventry o w i = mvec o (t_tgt t) (entry o B) (ventry o v) i.
  Proof.
    intros C W N E. pose proof (tr_backward_spec t v C W N) as S.
    destruct (tr_backward o t v) as [w|]; [|contradiction].
    destruct (tr_backward_mat_spec t C) as [B [EB (B1 & B2 & B3 & B4)]].
    exists w, B. destruct S as (_ & S). splits; try reflexivity; try assumption.
    - now destruct S as (S1 & _).
    - intros i Hi. rewrite (sv_is_ventry o w _ _ i S Hi).
      apply mvec_ext; intros k Hk; [|reflexivity]. symmetry. now apply B4.
  Qed.

  (* ---------- the operations keep the invariant and compose the maps ---------- *)
  Lemma tr_id_wf n : tr_wf (tr_id n).
  Proof. constructor. Qed.

  Lemma fprod_one f : meq (sp_m f) (sp_n f) (fprod [f]) (entry o f).
  Proof. cbn [fprod]. apply mmul_mid_l. lia. Qed.
  Lemma bprod_one b : meq (sp_m b) (sp_n b) (bprod [b]) (entry o b).
  Proof. cbn [bprod]. apply mmul_mid_r. lia. Qed.

  (* what it means for t' to be "t followed by the pair (F, B)" with F : tgt -> d and B : d -> tgt *)
  Definition extends (t t' : trans) (d : nat) (F B : mat R) : Prop :=
    tr_wf t' /\ t_src t' = t_src t /\ t_tgt t' = d /\
    meq d (t_src t) (fprod (t_f t')) (mmul o (t_tgt t) F (fprod (t_f t))) /\
    meq (t_src t) d (bprod (t_b t')) (mmul o (t_tgt t) (bprod (t_b t)) B).

  Theorem tr_append_spec t f b : tr_wf t -> sp_wf f -> sp_wf b ->
    match tr_append t f b with
    | Some t' => (sp_n f = sp_m b /\ sp_m f = sp_n b /\ sp_n f = t_tgt t) /\
                 extends t t' (sp_m f) (entry o f) (entry o b)
    | None => ~ (sp_n f = sp_m b /\ sp_m f = sp_n b /\ sp_n f = t_tgt t)
    end.
  Proof.
    intros C Wf Wb. unfold tr_append.
    destruct (Nat.eqb_spec (sp_n f) (sp_m b)) as [E1|E1]; destruct (Nat.eqb_spec (sp_m f) (sp_n b)) as [E2|E2];
      destruct (Nat.eqb_spec (sp_n f) (t_tgt t)) as [E3|E3]; cbn [andb]; try tauto.
    split; [tauto|]. unfold extends, tr_wf. cbn [t_src t_tgt t_f t_b].
    assert (C1 : chain (t_tgt t) [f] [b] (sp_m f)).
    { rewrite <- E3. apply chain_one; try assumption; lia. }
    splits; try reflexivity.
    - exact (chain_app _ _ _ _ _ _ _ C C1).
    - intros i j Hi Hj. rewrite (fprod_app _ _ _ _ _ _ _ C C1 i j Hi Hj).
      apply (mmul_ext o (t_tgt t) (sp_m f) (t_src t)); try assumption.
      + rewrite <- E3. apply fprod_one.
      + apply meq_refl.
    - intros i j Hi Hj. rewrite (bprod_app _ _ _ _ _ _ _ C C1 i j Hi Hj).
      apply (mmul_ext o (t_tgt t) (t_src t) (sp_m f)); try assumption.
      + apply meq_refl.
      + rewrite <- E3, E1, E2. apply bprod_one.
  Qed.

  Theorem tr_merge_spec t u : tr_wf t -> tr_wf u ->
    match tr_merge t u with
    | Some t' => t_tgt t = t_src u /\ extends t t' (t_tgt u) (fprod (t_f u)) (bprod (t_b u))
    | None => t_tgt t <> t_src u
    end.
  Proof.
    intros C C'. unfold tr_merge. destruct (Nat.eqb_spec (t_tgt t) (t_src u)) as [E|E]; [|exact E].
    split; [exact E|]. unfold extends, tr_wf. cbn [t_src t_tgt t_f t_b].
    unfold tr_wf in C'. rewrite <- E in C'. splits; try reflexivity.
    - exact (chain_app _ _ _ _ _ _ _ C C').
    - exact (fprod_app _ _ _ _ _ _ _ C C').
    - exact (bprod_app _ _ _ _ _ _ _ C C').
  Qed.

  (* reduce changes neither map *)
  Theorem tr_reduce_spec t : tr_wf t ->
    exists t', tr_reduce o t = Some t' /\ tr_wf t' /\ t_src t' = t_src t /\ t_tgt t' = t_tgt t /\
      meq (t_tgt t) (t_src t) (fprod (t_f t')) (fprod (t_f t)) /\
      meq (t_src t) (t_tgt t) (bprod (t_b t')) (bprod (t_b t)).
  Proof.
    intros C. unfold tr_reduce. pose proof (chain_length _ _ _ _ C) as Len.
    destruct (tr_forward_mat_spec t C) as [F [EF (F1 & F2 & F3 & F4)]].
    destruct (tr_backward_mat_spec t C) as [B [EB (B1 & B2 & B3 & B4)]].
    rewrite <- Len. destruct (Nat.ltb_spec 1 (length (t_f t))) as [H|H].
    - rewrite EF, EB. cbn [obind]. eexists. split; [reflexivity|]. unfold tr_wf. cbn [t_src t_tgt t_f t_b].
      splits; try reflexivity.
      + rewrite <- F2, <- F1. apply chain_one; try assumption; lia.
      + intros i j Hi Hj. rewrite <- F1, <- F2 in *. rewrite (fprod_one F i j Hi Hj). now apply F4.
      + intros i j Hi Hj. rewrite <- B1, <- B2 in *. rewrite (bprod_one B i j Hi Hj). now apply B4.
    - cbn [obind]. eexists. split; [reflexivity|]. unfold tr_wf. cbn [t_src t_tgt t_f t_b].
      splits; try reflexivity; try exact C; apply meq_refl.
  Qed.

  (* the selection matrices of sub(indices) *)
  Definition sel_f (idx : list nat) : mat R := fun i j => if nth i idx 0%nat =? j then 1 else 0.
  Definition sel_b (idx : list nat) : mat R := fun i j => if nth j idx 0%nat =? i then 1 else 0.
  Definition perm_f (p : perm) : mat R := fun i j => if i =? pat p j then 1 else 0.
  Definition perm_b (p : perm) : mat R := fun i j => if j =? pat p i then 1 else 0.

  Lemma sub_f_entries idx n :
    match sp_from_entries o (length idx) n (map (fun ij => (fst ij, snd ij, 1)) (enumerate idx)) with
    | Some f => sp_is f (length idx) n (sel_f idx)
    | None => 1 <> 0 /\ exists x, In x idx /\ (n <= x)%nat
    end.
  Proof.
    pose proof (sp_from_entries_spec o L (length idx) n (map (fun ij => (fst ij, snd ij, 1)) (enumerate idx))) as S.
    destruct (sp_from_entries o (length idx) n _) as [f|].
    - destruct S as (_ & S & _). eapply sp_is_ext; [exact S|]. intros i j Hi Hj.
      rewrite (enumerate_map nat 0%nat idx), map_map. cbn [fst snd].
      rewrite esum_psum, (psum_map_seq o L). cbn [e_row e_col e_val fst snd]. unfold sel_f.
      rewrite (sum_ext o (length idx) _ (fun k => if k =? i then (if nth i idx 0%nat =? j then 1 else 0) else 0)).
      + now rewrite (sum_delta o L).
      + intros k _. unfold key_eq. destruct (Nat.eqb_spec k i) as [->|]; reflexivity.
    - destruct S as [e [He [Hv Hn]]]. apply in_map_iff in He. destruct He as [[k x] [<- Hk]].
      cbn [e_row e_col e_val fst snd] in *. split; [exact Hv|].
      rewrite (enumerate_map nat 0%nat idx) in Hk. apply in_map_iff in Hk. destruct Hk as [k' [E Hk']].
      inversion E; subst. apply in_seq in Hk'. exists (nth k idx 0%nat). split; [apply nth_In; lia|lia].
  Qed.

  Lemma sub_b_entries idx n :
    match sp_from_entries o n (length idx) (map (fun ij => (snd ij, fst ij, 1)) (enumerate idx)) with
    | Some b => sp_is b n (length idx) (sel_b idx)
    | None => 1 <> 0 /\ exists x, In x idx /\ (n <= x)%nat
    end.
  Proof.
    pose proof (sp_from_entries_spec o L n (length idx) (map (fun ij => (snd ij, fst ij, 1)) (enumerate idx))) as S.
    destruct (sp_from_entries o n (length idx) _) as [b|].
    - destruct S as (_ & S & _). eapply sp_is_ext; [exact S|]. intros i j Hi Hj.
      rewrite (enumerate_map nat 0%nat idx), map_map. cbn [fst snd].
      rewrite esum_psum, (psum_map_seq o L). cbn [e_row e_col e_val fst snd]. unfold sel_b.
      rewrite (sum_ext o (length idx) _ (fun k => if k =? j then (if nth j idx 0%nat =? i then 1 else 0) else 0)).
      + now rewrite (sum_delta o L).
      + intros k _. unfold key_eq. destruct (Nat.eqb_spec k j) as [->|].
        * now rewrite andb_true_r.
        * now rewrite andb_false_r.
    - destruct S as [e [He [Hv Hn]]]. apply in_map_iff in He. destruct He as [[k x] [<- Hk]].
      cbn [e_row e_col e_val fst snd] in *. split; [exact Hv|].
      rewrite (enumerate_map nat 0%nat idx) in Hk. apply in_map_iff in Hk. destruct Hk as [k' [E Hk']].
      inversion E; subst. apply in_seq in Hk'. exists (nth k idx 0%nat). split; [apply nth_In; lia|lia].
  Qed.

  Theorem tr_sub_spec t idx : tr_wf t ->
    match tr_sub o t idx with
    | Some t' => (1 = 0 \/ forall x, In x idx -> (x < t_tgt t)%nat) /\
                 extends t t' (length idx) (sel_f idx) (sel_b idx)
    | None => 1 <> 0 /\ exists x, In x idx /\ (t_tgt t <= x)%nat
    end.
  Proof.
    intros C. unfold tr_sub. cbv zeta.
    pose proof (sub_f_entries idx (t_tgt t)) as Sf. pose proof (sub_b_entries idx (t_tgt t)) as Sb.
    destruct (sp_from_entries o (length idx) (t_tgt t) _) as [f|] eqn:Ef; cbn [obind]; [|exact Sf].
    destruct (sp_from_entries o (t_tgt t) (length idx) _) as [b|]; cbn [obind]; [|exact Sb].
    destruct Sf as (F1 & F2 & F3 & F4). destruct Sb as (B1 & B2 & B3 & B4).
    pose proof (tr_append_spec t f b C F3 B3) as A. destruct (tr_append t f b) as [t'|].
    - destruct A as (_ & (A1 & A2 & A3 & A4 & A5)). split.
      + destruct (reqb_spec o L 1 0) as [E|E]; [now left|right]. intros x Hx.
        destruct (Nat.ltb_spec x (t_tgt t)) as [H|H]; [exact H|exfalso].
        (* an out-of-range index would have made from_entries panic *)
        pose proof (sp_from_entries_spec o L (length idx) (t_tgt t) (map (fun ij => (fst ij, snd ij, 1)) (enumerate idx))) as S.
        rewrite Ef in S. destruct S as (S & _). destruct (In_nth idx x 0%nat Hx) as [k [Hk Ek]].
        specialize (S (k, x, 1)). cbn [e_row e_col e_val fst snd] in S.
        assert (Hin : In (k, x, 1) (map (fun ij : nat * nat => (fst ij, snd ij, 1)) (enumerate idx))).
        { apply in_map_iff. exists (k, x). split; [reflexivity|].
          rewrite (enumerate_map nat 0%nat idx). apply in_map_iff. exists k. split; [now rewrite Ek|apply in_seq; lia]. }
        destruct (S Hin E). lia.
      + unfold extends. rewrite F1 in *. splits; try assumption.
        * intros i j Hi Hj. rewrite (A4 i j Hi Hj).
          apply (mmul_ext o (t_tgt t) (length idx) (t_src t)); try assumption; apply meq_refl.
        * intros i j Hi Hj. rewrite (A5 i j Hi Hj).
          apply (mmul_ext o (t_tgt t) (t_src t) (length idx)); try assumption; apply meq_refl.
    - exfalso. apply A. lia.
  Qed.

  Theorem tr_append_perm_spec t p : tr_wf t -> is_perm p ->
    match tr_append_perm o t p with
    | Some t' => length p = t_tgt t /\ extends t t' (t_tgt t) (perm_f p) (perm_b p)
    | None => length p <> t_tgt t
    end.
  Proof.
    intros C Pp. unfold tr_append_perm, perm_dim.
    destruct (Nat.eqb_spec (length p) (t_tgt t)) as [E|E]; [|exact E].
    destruct (sp_from_row_perm_spec o L p Pp) as [f (Ef & F1 & F2 & F3 & F4)].
    destruct (sp_from_col_perm_spec o L p Pp) as [b (Eb & B1 & B2 & B3 & B4)].
    rewrite Ef, Eb. cbn [obind].
    pose proof (tr_append_spec t f b C F3 B3) as A. destruct (tr_append t f b) as [t'|].
    - destruct A as (_ & (A1 & A2 & A3 & A4 & A5)). split; [exact E|].
      unfold extends. rewrite F1, E in *. splits; try assumption.
      + intros i j Hi Hj. rewrite (A4 i j Hi Hj).
        apply (mmul_ext o (t_tgt t) (t_tgt t) (t_src t)); try assumption; apply meq_refl.
      + intros i j Hi Hj. rewrite (A5 i j Hi Hj).
        apply (mmul_ext o (t_tgt t) (t_src t) (t_tgt t)); try assumption; apply meq_refl.
    - exfalso. apply A. lia.
  Qed.

  (* ---------- histories ---------- *)
  (* the inputs of a history are well-formed matrices and valid permutations (what the Rust types guarantee) *)
  Fixpoint hist_wf (h : hist) : Prop :=
    match h with
    | HId _ => True
    | HNew f b => sp_wf f /\ sp_wf b
    | HAppend h f b => hist_wf h /\ sp_wf f /\ sp_wf b
    | HAppendPerm h p => hist_wf h /\ is_perm p
    | HMerge h1 h2 => hist_wf h1 /\ hist_wf h2
    | HReduce h => hist_wf h
    | HSub h _ => hist_wf h
    end.

  (* source and target dimension, and the two linear maps a history denotes *)
  Fixpoint hsrc (h : hist) : nat :=
    match h with
    | HId n => n | HNew f _ => sp_n f | HAppend h _ _ => hsrc h | HAppendPerm h _ => hsrc h
    | HMerge h1 _ => hsrc h1 | HReduce h => hsrc h | HSub h _ => hsrc h
    end.
  Fixpoint htgt (h : hist) : nat :=
    match h with
    | HId n => n | HNew f _ => sp_m f | HAppend _ f _ => sp_m f | HAppendPerm h _ => htgt h
    | HMerge _ h2 => htgt h2 | HReduce h => htgt h | HSub _ idx => length idx
    end.
  Fixpoint hF (h : hist) : mat R :=
    match h with
    | HId _ => mid o
    | HNew f _ => entry o f
    | HAppend h f _ => mmul o (htgt h) (entry o f) (hF h)
    | HAppendPerm h p => mmul o (htgt h) (perm_f p) (hF h)
    | HMerge h1 h2 => mmul o (htgt h1) (hF h2) (hF h1)
    | HReduce h => hF h
    | HSub h idx => mmul o (htgt h) (sel_f idx) (hF h)
    end.
  Fixpoint hB (h : hist) : mat R :=
    match h with
    | HId _ => mid o
    | HNew _ b => entry o b
    | HAppend h _ b => mmul o (htgt h) (hB h) (entry o b)
    | HAppendPerm h p => mmul o (htgt h) (hB h) (perm_b p)
    | HMerge h1 h2 => mmul o (htgt h1) (hB h1) (hB h2)
    | HReduce h => hB h
    | HSub h idx => mmul o (htgt h) (hB h) (sel_b idx)
    end.
  (* the guards: exactly the histories that do not panic *)
  Fixpoint hist_ok (h : hist) : Prop :=
    match h with
    | HId _ => True
    | HNew f b => sp_n f = sp_m b /\ sp_m f = sp_n b
    | HAppend h f b => hist_ok h /\ sp_n f = sp_m b /\ sp_m f = sp_n b /\ sp_n f = htgt h
    | HAppendPerm h p => hist_ok h /\ length p = htgt h
    | HMerge h1 h2 => hist_ok h1 /\ hist_ok h2 /\ htgt h1 = hsrc h2
    | HReduce h => hist_ok h
    | HSub h idx => hist_ok h /\ (1 = 0 \/ forall x, In x idx -> (x < htgt h)%nat)
    end.

  Definition denotes (t : trans) (h : hist) : Prop :=
    tr_wf t /\ t_src t = hsrc h /\ t_tgt t = htgt h /\
    meq (htgt h) (hsrc h) (fprod (t_f t)) (hF h) /\ meq (hsrc h) (htgt h) (bprod (t_b t)) (hB h).

  Lemma extends_denotes t t' h d F B :
    denotes t h -> extends t t' d F B ->
    tr_wf t' /\ t_src t' = hsrc h /\ t_tgt t' = d /\
    meq d (hsrc h) (fprod (t_f t')) (mmul o (htgt h) F (hF h)) /\
    meq (hsrc h) d (bprod (t_b t')) (mmul o (htgt h) (hB h) B).
  Proof.
    intros (D1 & D2 & D3 & D4 & D5) (X1 & X2 & X3 & X4 & X5). rewrite D2, D3 in *. splits; try assumption.
    - intros i j Hi Hj. rewrite (X4 i j Hi Hj).
      apply (mmul_ext o (htgt h) d (hsrc h)); try assumption; apply meq_refl.
    - intros i j Hi Hj. rewrite (X5 i j Hi Hj).
      apply (mmul_ext o (htgt h) (hsrc h) d); try assumption; apply meq_refl.
  Qed.

  (* MAIN THEOREM: for every finite history, the transform it builds (if no guard fails) satisfies the
     invariant and its factor products are the maps the history denotes; it fails exactly when a guard
     fails.  Induction over the history. *)
  Theorem tr_run_spec h : hist_wf h ->
    match tr_run o h with
    | Some t => hist_ok h /\ denotes t h
    | None => ~ hist_ok h
    end.
  Proof.
    induction h as [n|f b|h IH f b|h IH p|h1 IH1 h2 IH2|h IH|h IH idx]; cbn [tr_run hist_wf hist_ok].
    - intros _. split; [exact I|]. unfold denotes. cbn [tr_id t_src t_tgt t_f t_b hsrc htgt hF hB fprod bprod].
      splits; try reflexivity; try apply meq_refl. apply tr_id_wf.
    - intros [Wf Wb]. unfold tr_new. pose proof (tr_append_spec (tr_id (sp_n f)) f b (tr_id_wf _) Wf Wb) as A.
      destruct (tr_append (tr_id (sp_n f)) f b) as [t|].
      + destruct A as ((E1 & E2 & _) & (A1 & A2 & A3 & A4 & A5)). split; [now split|].
        unfold denotes. cbn [tr_id t_src t_tgt t_f t_b hsrc htgt hF hB fprod bprod] in *.
        splits; try assumption.
        * intros i j Hi Hj. rewrite (A4 i j Hi Hj). apply (mmul_id_r o L). lia.
        * intros i j Hi Hj. rewrite (A5 i j Hi Hj). apply (mmul_id_l o L). lia.
      + cbn [tr_id t_tgt] in A. intros [E1 E2]. apply A. tauto.
    - intros (Wh & Wf & Wb). specialize (IH Wh). destruct (tr_run o h) as [t|]; cbn [obind]; [|tauto].
      destruct IH as (Ok & D). pose proof D as (D1 & D2 & D3 & _).
      pose proof (tr_append_spec t f b D1 Wf Wb) as A. destruct (tr_append t f b) as [t'|].
      + destruct A as ((E1 & E2 & E3) & X). split; [rewrite <- D3; tauto|].
        destruct (extends_denotes _ _ _ _ _ _ D X) as (Y1 & Y2 & Y3 & Y4 & Y5).
        unfold denotes. cbn [hsrc htgt hF hB]. now splits.
      + rewrite D3 in A. tauto.
    - intros (Wh & Pp). specialize (IH Wh). destruct (tr_run o h) as [t|]; cbn [obind]; [|tauto].
      destruct IH as (Ok & D). pose proof D as (D1 & D2 & D3 & _).
      pose proof (tr_append_perm_spec t p D1 Pp) as A. destruct (tr_append_perm o t p) as [t'|].
      + destruct A as (E & X). split; [rewrite <- D3; tauto|].
        destruct (extends_denotes _ _ _ _ _ _ D X) as (Y1 & Y2 & Y3 & Y4 & Y5).
        unfold denotes. cbn [hsrc htgt hF hB]. rewrite D3 in *. now splits.
      + rewrite D3 in A. tauto.
    - intros (W1 & W2). specialize (IH1 W1). specialize (IH2 W2).
      destruct (tr_run o h1) as [t|]; cbn [obind]; [|tauto].
      destruct (tr_run o h2) as [u|]; cbn [obind]; [|tauto].
      destruct IH1 as (Ok1 & D). destruct IH2 as (Ok2 & (U1 & U2 & U3 & U4 & U5)). pose proof D as (D1 & D2 & D3 & _).
      pose proof (tr_merge_spec t u D1 U1) as A. destruct (tr_merge t u) as [t'|].
      + destruct A as (E & X). split; [rewrite <- D3, <- U2; tauto|].
        destruct (extends_denotes _ _ _ _ _ _ D X) as (Y1 & Y2 & Y3 & Y4 & Y5).
        unfold denotes. cbn [hsrc htgt hF hB]. rewrite U3 in *. splits; try assumption.
        * intros i j Hi Hj. rewrite (Y4 i j Hi Hj).
          apply (mmul_ext o (htgt h1) (htgt h2) (hsrc h1)); try assumption; [|apply meq_refl].
          rewrite <- D3, E, U2. exact U4.
        * intros i j Hi Hj. rewrite (Y5 i j Hi Hj).
          apply (mmul_ext o (htgt h1) (hsrc h1) (htgt h2)); try assumption; [apply meq_refl|].
          rewrite <- D3, E, U2. exact U5.
      + rewrite D3, U2 in A. tauto.
    - intros Wh. specialize (IH Wh). destruct (tr_run o h) as [t|]; cbn [obind]; [|exact IH].
      destruct IH as (Ok & (D1 & D2 & D3 & D4 & D5)).
      destruct (tr_reduce_spec t D1) as [t' (E & R1 & R2 & R3 & R4 & R5)]. rewrite E.
      split; [exact Ok|]. unfold denotes. cbn [hsrc htgt hF hB]. rewrite D2, D3 in *. splits; try congruence.
      * intros i j Hi Hj. rewrite (R4 i j Hi Hj). now apply D4.
      * intros i j Hi Hj. rewrite (R5 i j Hi Hj). now apply D5.
    - intros Wh. specialize (IH Wh). destruct (tr_run o h) as [t|]; cbn [obind]; [|tauto].
      destruct IH as (Ok & D). pose proof D as (D1 & D2 & D3 & _).
      pose proof (tr_sub_spec t idx D1) as A. destruct (tr_sub o t idx) as [t'|].
      + destruct A as (E & X). split; [rewrite <- D3; tauto|].
        destruct (extends_denotes _ _ _ _ _ _ D X) as (Y1 & Y2 & Y3 & Y4 & Y5).
        unfold denotes. cbn [hsrc htgt hF hB]. now splits.
      + rewrite D3 in A. destruct A as (A1 & x & Hx & Hn). intros (_ & [E|E]); [contradiction|].
        specialize (E x Hx). lia.
  Qed.

  (* ... and what such a transform does is observed through forward / backward / forward_mat /
     backward_mat: all four agree with the denoted maps *)
  Theorem tr_history_observables h t : hist_wf h -> tr_run o h = Some t ->
    (exists F B, tr_forward_mat o t = Some F /\ tr_backward_mat o t = Some B /\
        sp_is F (htgt h) (hsrc h) (hF h) /\ sp_is B (hsrc h) (htgt h) (hB h)) /\
    (forall v, sp_wf v -> sp_n v = 1%nat -> sv_dim v = hsrc h ->
        exists w, tr_forward o t v = Some w /\ sv_is w (htgt h) (mvec o (hsrc h) (hF h) (ventry o v))) /\
    (forall v, sp_wf v -> sp_n v = 1%nat -> sv_dim v = htgt h ->
        exists w, tr_backward o t v = Some w /\ sv_is w (hsrc h) (mvec o (htgt h) (hB h) (ventry o v))).
  Proof.
    intros W E. pose proof (tr_run_spec h W) as S. rewrite E in S. destruct S as (_ & (D1 & D2 & D3 & D4 & D5)).
    splits.
    - destruct (tr_forward_mat_spec t D1) as [F [EF HF]]. destruct (tr_backward_mat_spec t D1) as [B [EB HB]].
      exists F, B. rewrite D2, D3 in *. splits; try assumption.
      + eapply sp_is_ext; [exact HF|exact D4].
      + eapply sp_is_ext; [exact HB|exact D5].
    - intros v Wv Nv Ev. pose proof (tr_forward_spec t v D1 Wv Nv) as S. destruct (tr_forward o t v) as [w|].
      + exists w. split; [reflexivity|]. destruct S as (_ & S). rewrite D2, D3 in S.
        eapply sv_is_ext; [exact S|]. intros i Hi. apply mvec_ext; intros k Hk; [now apply D4|reflexivity].
      + exfalso. apply S. congruence.
    - intros v Wv Nv Ev. pose proof (tr_backward_spec t v D1 Wv Nv) as S. destruct (tr_backward o t v) as [w|].
      + exists w. split; [reflexivity|]. destruct S as (_ & S). rewrite D2, D3 in S.
        eapply sv_is_ext; [exact S|]. intros i Hi. apply mvec_ext; intros k Hk; [now apply D5|reflexivity].
      + exfalso. apply S. congruence.
  Qed.
End TransProofs.
