(* C07, part 1: the linear algebra of "homology from two Smith normal forms" (DESIGN.md appendix A.6),
   entirely on functional matrices (Base/MatF.v), for every commutative ring with laws that is an
   integral domain.

   Setting:  d1 : n x m,  d2 : k x n,  d2 * d1 = 0,
             D1 = P1 * d1 * Q1           (B = P1^-1, Q1i = Q1^-1), r1 non-zero diagonal entries first
             d2' = d2 * B[:, r1..]       (k x n2, n2 = n - r1)
             D2 = P2 * d2' * Q2          r2 non-zero diagonal entries first.
   The adapted basis  V = [ B[:, r1..] * Q2 | B[:, ..r1] ]  with inverse  Vi = [ Q2i * P1[r1.., :] ; P1[..r1, :] ]
   satisfies   Vi * V = I = V * Vi,    P2 * d2 * V = [ D2 | 0 ],    Vi * d1 = [ 0 ; diag(D1) * Q1i[..r1, :] ],
   and the generator / coordinate matrices of HomologyCalc::trans are columns of V / rows of Vi. *)
From Coq Require Import Arith List Lia Ring Bool.
Require Import Yui.Base.Ring Yui.Base.MatF.
Import ListNotations.

Section C07Algebra.
  Context {R : Type} (o : ring_ops R) (L : ring_laws o) (Hint : integral o).

  Local Notation "0" := (rzero o).
  Local Notation "1" := (rone o).
  Local Infix "+" := (radd o).
  Local Infix "*" := (rmul o).
  Local Notation "- x" := (rneg o x).

  Add Ring Rring07 : (ring_theory_of_laws o L).

  Lemma mul_nz_cancel a b : a * b = 0 -> b <> 0 -> a = 0.
  Proof. intros H Hb. destruct (proj2 Hint a b H) as [E|E]; [exact E|contradiction]. Qed.

  (* ---------- rewriting inside products ---------- *)
  Lemma mmul_ext_l n (A A' B : mat R) i j :
    (forall l, (l < n)%nat -> A i l = A' i l) -> mmul o n A B i j = mmul o n A' B i j.
  Proof. intros H. unfold mmul. apply (sum_ext o). intros l Hl. now rewrite H. Qed.

  Lemma mmul_ext_r n (A B B' : mat R) i j :
    (forall l, (l < n)%nat -> B l j = B' l j) -> mmul o n A B i j = mmul o n A B' i j.
  Proof. intros H. unfold mmul. apply (sum_ext o). intros l Hl. now rewrite H. Qed.

  Lemma mmul_zero_row n (A B : mat R) i j :
    (forall l, (l < n)%nat -> A i l = 0) -> mmul o n A B i j = 0.
  Proof. intros H. unfold mmul. apply (sum_zero_ext o L). intros l Hl. rewrite H by exact Hl. ring. Qed.

  Lemma mmul_zero_col n (A B : mat R) i j :
    (forall l, (l < n)%nat -> B l j = 0) -> mmul o n A B i j = 0.
  Proof. intros H. unfold mmul. apply (sum_zero_ext o L). intros l Hl. rewrite H by exact Hl. ring. Qed.

  Definition inv_pair (k : nat) (P Pi : mat R) : Prop :=
    meq k k (mmul o k P Pi) (mid o) /\ meq k k (mmul o k Pi P) (mid o).

  Lemma inv_pair_sym k P Pi : inv_pair k P Pi -> inv_pair k Pi P.
  Proof. intros [H1 H2]. split; assumption. Qed.

  Lemma mmul_cancel_l m (Pi P X : mat R) i j :
    meq m m (mmul o m Pi P) (mid o) -> (i < m)%nat -> mmul o m Pi (mmul o m P X) i j = X i j.
  Proof.
    intros H Hi. rewrite <- (mmul_assoc o L).
    rewrite (mmul_ext_l m _ (mid o)) by (intros l Hl; now apply H).
    now apply (mmul_id_l o L).
  Qed.

  Lemma mmul_cancel_r m (X P Pi : mat R) i j :
    meq m m (mmul o m P Pi) (mid o) -> (j < m)%nat -> mmul o m (mmul o m X P) Pi i j = X i j.
  Proof.
    intros H Hj. rewrite (mmul_assoc o L).
    rewrite (mmul_ext_r m _ _ (mid o)) by (intros l Hl; now apply H).
    now apply (mmul_id_r o L).
  Qed.

  (* ---------- diagonal matrices ---------- *)
  Definition is_diag (m n : nat) (D : mat R) : Prop :=
    forall i j, (i < m)%nat -> (j < n)%nat -> i <> j -> D i j = 0.

  (* X (p x m) times D (m x n) *)
  Lemma mmul_diag_r m n (X D : mat R) i j :
    is_diag m n D -> (j < n)%nat ->
    mmul o m X D i j = if j <? m then X i j * D j j else 0.
  Proof.
    intros HD Hj. unfold mmul. destruct (Nat.ltb_spec j m) as [Hjm|Hjm].
    - rewrite (sum_single o L m j) by (try assumption; intros l Hl Hne; rewrite HD by assumption; ring).
      reflexivity.
    - apply (sum_zero_ext o L). intros l Hl. rewrite HD by (try assumption; lia). ring.
  Qed.

  (* D (m x n) times X (n x p) *)
  Lemma mmul_diag_l m n (D X : mat R) i j :
    is_diag m n D -> (i < m)%nat ->
    mmul o n D X i j = if i <? n then D i i * X i j else 0.
  Proof.
    intros HD Hi. unfold mmul. destruct (Nat.ltb_spec i n) as [Hin|Hin].
    - rewrite (sum_single o L n i) by (try assumption; intros l Hl Hne; rewrite HD by (try assumption; congruence); ring).
      reflexivity.
    - apply (sum_zero_ext o L). intros l Hl. rewrite HD by (try assumption; lia). ring.
  Qed.

  (* ---------- a Smith-type diagonalisation  D = P A Q  with r non-zero entries first ---------- *)
  Record smith (m n : nat) (A P Pi Q Qi D : mat R) (r : nat) : Prop := mk_smith {
    sm_eq : meq m n D (mmul o m P (mmul o n A Q));
    sm_P : inv_pair m P Pi;
    sm_Q : inv_pair n Q Qi;
    sm_diag : is_diag m n D;
    sm_r : (r <= Nat.min m n)%nat;
    sm_nz : forall i, (i < r)%nat -> D i i <> 0;
    sm_z : forall i, (r <= i)%nat -> (i < Nat.min m n)%nat -> D i i = 0;
  }.

  Lemma smith_ext m n A A' P Pi Q Qi D r :
    meq m n A A' -> smith m n A P Pi Q Qi D r -> smith m n A' P Pi Q Qi D r.
  Proof.
    intros HA S. destruct S as [E HP HQ Hd Hr Hnz Hz]. constructor; try assumption.
    intros i j Hi Hj. rewrite E by assumption.
    apply mmul_ext_r. intros l Hl. apply mmul_ext_l. intros l' Hl'. now apply HA.
  Qed.

  Section SmithFacts.
    Variables (m n : nat) (A P Pi Q Qi D : mat R) (r : nat).
    Hypothesis S : smith m n A P Pi Q Qi D r.

    Lemma smith_row_zero i j : (r <= i)%nat -> (i < m)%nat -> (j < n)%nat -> D i j = 0.
    Proof.
      intros Hr Hi Hj. destruct (Nat.eq_dec i j) as [->|Hne].
      - apply (sm_z _ _ _ _ _ _ _ _ _ S); [assumption|]. apply Nat.min_glb_lt; assumption.
      - now apply (sm_diag _ _ _ _ _ _ _ _ _ S).
    Qed.

    Lemma smith_col_zero i j : (r <= j)%nat -> (i < m)%nat -> (j < n)%nat -> D i j = 0.
    Proof.
      intros Hr Hi Hj. destruct (Nat.eq_dec i j) as [->|Hne].
      - apply (sm_z _ _ _ _ _ _ _ _ _ S); [assumption|]. apply Nat.min_glb_lt; assumption.
      - now apply (sm_diag _ _ _ _ _ _ _ _ _ S).
    Qed.

    (* P A = D Q^-1 *)
    Lemma smith_PA : meq m n (mmul o m P A) (mmul o n D Qi).
    Proof.
      intros i j Hi Hj.
      rewrite (mmul_ext_l n D (mmul o m P (mmul o n A Q))) by (intros l Hl; now apply (sm_eq _ _ _ _ _ _ _ _ _ S)).
      rewrite (mmul_assoc o L).
      apply mmul_ext_r. intros l Hl. symmetry.
      apply mmul_cancel_r; [apply (sm_Q _ _ _ _ _ _ _ _ _ S)|assumption].
    Qed.

    (* A Q = P^-1 D *)
    Lemma smith_AQ : meq m n (mmul o n A Q) (mmul o m Pi D).
    Proof.
      intros i j Hi Hj.
      rewrite (mmul_ext_r m Pi D (mmul o m P (mmul o n A Q))) by (intros l Hl; now apply (sm_eq _ _ _ _ _ _ _ _ _ S)).
      symmetry. apply mmul_cancel_l; [apply (sm_P _ _ _ _ _ _ _ _ _ S)|assumption].
    Qed.

    (* row i of P A is D_ii times row i of Q^-1 *)
    Lemma smith_PA_entry i j : (i < m)%nat -> (j < n)%nat ->
      mmul o m P A i j = if i <? r then D i i * Qi i j else 0.
    Proof.
      intros Hi Hj. rewrite smith_PA by assumption.
      rewrite (mmul_diag_l m n) by (try assumption; apply (sm_diag _ _ _ _ _ _ _ _ _ S)).
      pose proof (sm_r _ _ _ _ _ _ _ _ _ S) as Hr.
      destruct (Nat.ltb_spec i n) as [Hin|Hin]; destruct (Nat.ltb_spec i r) as [Hir|Hir]; try reflexivity; try lia.
      rewrite (sm_z _ _ _ _ _ _ _ _ _ S) by (try assumption; apply Nat.min_glb_lt; assumption). ring.
    Qed.

    (* column j of A Q is D_jj times column j of P^-1 *)
    Lemma smith_AQ_entry i j : (i < m)%nat -> (j < n)%nat ->
      mmul o n A Q i j = if j <? r then Pi i j * D j j else 0.
    Proof.
      intros Hi Hj. rewrite smith_AQ by assumption.
      rewrite (mmul_diag_r m n) by (try assumption; apply (sm_diag _ _ _ _ _ _ _ _ _ S)).
      pose proof (sm_r _ _ _ _ _ _ _ _ _ S) as Hr.
      destruct (Nat.ltb_spec j m) as [Hjm|Hjm]; destruct (Nat.ltb_spec j r) as [Hjr|Hjr]; try reflexivity; try lia.
      rewrite (sm_z _ _ _ _ _ _ _ _ _ S) by (try assumption; apply Nat.min_glb_lt; assumption). ring.
    Qed.
  End SmithFacts.

  (* A is equivalent to the diagonal matrix diag(a_0 .. a_(r-1), 0 ..) with all a_i non-zero:
     "r is the rank of A and a its diagonal Smith-type form" *)
  Definition smith_form (m n : nat) (A : mat R) (r : nat) (a : nat -> R) : Prop :=
    exists P Pi Q Qi : mat R,
      inv_pair m P Pi /\ inv_pair n Q Qi /\
      meq m n (mmul o m P (mmul o n A Q)) (fun i j => if (i =? j) && (i <? r) then a i else 0) /\
      (forall i, (i < r)%nat -> a i <> 0) /\ (r <= Nat.min m n)%nat.

  Lemma smith_diag_entry m n A P Pi Q Qi D r i j :
    smith m n A P Pi Q Qi D r -> (i < m)%nat -> (j < n)%nat ->
    D i j = if (i =? j) && (i <? r) then D i i else 0.
  Proof.
    intros S Hi Hj. destruct (Nat.eqb_spec i j) as [->|Hne]; cbn [andb].
    - destruct (Nat.ltb_spec j r) as [Hr|Hr]; [reflexivity|].
      apply (sm_z _ _ _ _ _ _ _ _ _ S); [assumption|]. apply Nat.min_glb_lt; assumption.
    - now apply (sm_diag _ _ _ _ _ _ _ _ _ S).
  Qed.

  Lemma smith_to_form m n A P Pi Q Qi D r :
    smith m n A P Pi Q Qi D r -> smith_form m n A r (fun i => D i i).
  Proof.
    intros S. exists P, Pi, Q, Qi.
    split; [apply (sm_P _ _ _ _ _ _ _ _ _ S)|]. split; [apply (sm_Q _ _ _ _ _ _ _ _ _ S)|].
    split; [|split; [apply (sm_nz _ _ _ _ _ _ _ _ _ S)|apply (sm_r _ _ _ _ _ _ _ _ _ S)]].
    intros i j Hi Hj. rewrite <- (sm_eq _ _ _ _ _ _ _ _ _ S) by assumption.
    now apply (smith_diag_entry m n A P Pi Q Qi D r).
  Qed.

  (* ======================================================================================== *)
  Section TwoSnf.
    Variables (m n k : nat) (d1 d2 : mat R).            (* d1 : n x m,  d2 : k x n *)
    Hypothesis dd : meq k m (mmul o n d2 d1) (mzero o).

    Variables (P1 B Q1 Q1i D1 : mat R) (r1 : nat).
    Hypothesis S1 : smith n m d1 P1 B Q1 Q1i D1 r1.

    Let n2 := (n - r1)%nat.
    Definition Bc : mat R := fun i j => B i (r1 + j)%nat.          (* B[:, r1..] *)
    Definition P1r : mat R := fun i j => P1 (r1 + i)%nat j.        (* P1[r1.., :] *)
    Definition d2' : mat R := mmul o n d2 Bc.

    Variables (P2 P2i Q2 Q2i D2 : mat R) (r2 : nat).
    Hypothesis S2 : smith k n2 d2' P2 P2i Q2 Q2i D2 r2.

    Lemma r1_le_n : (r1 <= n)%nat.
    Proof. pose proof (sm_r _ _ _ _ _ _ _ _ _ S1). lia. Qed.
    Lemma r2_le_n2 : (r2 <= n2)%nat.
    Proof. pose proof (sm_r _ _ _ _ _ _ _ _ _ S2). lia. Qed.
    Lemma n_split : (r1 + n2 = n)%nat.
    Proof. pose proof r1_le_n. unfold n2. lia. Qed.

    Lemma P1B : meq n n (mmul o n P1 B) (mid o).
    Proof. apply (sm_P _ _ _ _ _ _ _ _ _ S1). Qed.
    Lemma BP1 : meq n n (mmul o n B P1) (mid o).
    Proof. apply (sm_P _ _ _ _ _ _ _ _ _ S1). Qed.
    Lemma Q2iQ2 : meq n2 n2 (mmul o n2 Q2i Q2) (mid o).
    Proof. apply (sm_Q _ _ _ _ _ _ _ _ _ S2). Qed.
    Lemma Q2Q2i : meq n2 n2 (mmul o n2 Q2 Q2i) (mid o).
    Proof. apply (sm_Q _ _ _ _ _ _ _ _ _ S2). Qed.

    (* the first r1 columns of d2 * B vanish:  (d2 B) D1 = d2 d1 Q1 = 0  and D1_jj is not a zero divisor *)
    Lemma d2B_zero i j : (i < k)%nat -> (j < r1)%nat -> mmul o n d2 B i j = 0.
    Proof.
      intros Hi Hj. pose proof (sm_r _ _ _ _ _ _ _ _ _ S1) as Hr.
      apply mul_nz_cancel with (b := D1 j j); [|now apply (sm_nz _ _ _ _ _ _ _ _ _ S1)].
      assert (E : mmul o n (mmul o n d2 B) D1 i j = 0).
      { rewrite (mmul_assoc o L).
        rewrite (mmul_ext_r n d2 _ (mmul o m d1 Q1)).
        2:{ intros l Hl. rewrite (mmul_ext_r n B D1 (mmul o n P1 (mmul o m d1 Q1)))
              by (intros l' Hl'; apply (sm_eq _ _ _ _ _ _ _ _ _ S1); [assumption|lia]).
            apply mmul_cancel_l; [apply BP1|assumption]. }
        rewrite <- (mmul_assoc o L).
        apply mmul_zero_row. intros l Hl. now apply dd. }
      rewrite (mmul_diag_r n m) in E by (try apply (sm_diag _ _ _ _ _ _ _ _ _ S1); lia).
      destruct (Nat.ltb_spec j n); [exact E|lia].
    Qed.

    (* P1[r1.., :] * B[:, r1..] = I *)
    Lemma P1r_Bc : meq n2 n2 (mmul o n P1r Bc) (mid o).
    Proof.
      intros i j Hi Hj. pose proof n_split.
      change (mmul o n P1r Bc i j) with (mmul o n P1 B (r1 + i)%nat (r1 + j)%nat).
      rewrite P1B by lia. unfold mid.
      destruct (Nat.eqb_spec (r1 + i) (r1 + j)); destruct (Nat.eqb_spec i j); try reflexivity; lia.
    Qed.

    (* the adapted basis and its inverse *)
    Definition V : mat R := fun i j => if j <? n2 then mmul o n2 Bc Q2 i j else B i (j - n2)%nat.
    Definition Vi : mat R := fun i j => if i <? n2 then mmul o n2 Q2i P1r i j else P1 (i - n2)%nat j.

    Lemma Vi_free i j : (i < n2)%nat -> Vi i j = mmul o n2 Q2i P1r i j.
    Proof. intros H. unfold Vi. destruct (Nat.ltb_spec i n2); [reflexivity|lia]. Qed.
    Lemma Vi_tor i j : (n2 <= i)%nat -> Vi i j = P1 (i - n2)%nat j.
    Proof. intros H. unfold Vi. destruct (Nat.ltb_spec i n2); [lia|reflexivity]. Qed.
    Lemma V_free i j : (j < n2)%nat -> V i j = mmul o n2 Bc Q2 i j.
    Proof. intros H. unfold V. destruct (Nat.ltb_spec j n2); [reflexivity|lia]. Qed.
    Lemma V_tor i j : (n2 <= j)%nat -> V i j = B i (j - n2)%nat.
    Proof. intros H. unfold V. destruct (Nat.ltb_spec j n2); [lia|reflexivity]. Qed.

    Lemma ViV : meq n n (mmul o n Vi V) (mid o).
    Proof.
      intros i j Hi Hj. pose proof n_split as Hn.
      destruct (Nat.ltb_spec i n2) as [Hi2|Hi2]; destruct (Nat.ltb_spec j n2) as [Hj2|Hj2].
      - (* free x free *)
        rewrite (mmul_ext_l n Vi (mmul o n2 Q2i P1r)) by (intros; now apply Vi_free).
        rewrite (mmul_ext_r n _ V (mmul o n2 Bc Q2)) by (intros; now apply V_free).
        rewrite (mmul_assoc o L).
        rewrite (mmul_ext_r n2 Q2i _ Q2).
        + now apply Q2iQ2.
        + intros l Hl. rewrite <- (mmul_assoc o L).
          rewrite (mmul_ext_l n2 _ (mid o)) by (intros l' Hl'; now apply P1r_Bc).
          now apply (mmul_id_l o L).
      - (* free x torsion: P1[r1.., :] * B[:, ..r1] = 0 *)
        rewrite (mmul_ext_l n Vi (mmul o n2 Q2i P1r)) by (intros; now apply Vi_free).
        rewrite (mmul_ext_r n _ V (fun c e => B c (e - n2)%nat)) by (intros; now apply V_tor).
        rewrite (mmul_assoc o L).
        rewrite mmul_zero_col.
        + unfold mid. destruct (Nat.eqb_spec i j); [lia|reflexivity].
        + intros l Hl.
          change (mmul o n P1r (fun c e => B c (e - n2)%nat) l j) with (mmul o n P1 B (r1 + l)%nat (j - n2)%nat).
          rewrite P1B by lia. unfold mid. destruct (Nat.eqb_spec (r1 + l) (j - n2)); [lia|reflexivity].
      - (* torsion x free: P1[..r1, :] * B[:, r1..] = 0 *)
        rewrite (mmul_ext_l n Vi (fun a b => P1 (a - n2)%nat b)) by (intros; now apply Vi_tor).
        rewrite (mmul_ext_r n _ V (mmul o n2 Bc Q2)) by (intros; now apply V_free).
        rewrite <- (mmul_assoc o L).
        rewrite mmul_zero_row.
        + unfold mid. destruct (Nat.eqb_spec i j); [lia|reflexivity].
        + intros l Hl.
          change (mmul o n (fun a b => P1 (a - n2)%nat b) Bc i l) with (mmul o n P1 B (i - n2)%nat (r1 + l)%nat).
          rewrite P1B by lia. unfold mid. destruct (Nat.eqb_spec (i - n2) (r1 + l)); [lia|reflexivity].
      - rewrite (mmul_ext_l n Vi (fun a b => P1 (a - n2)%nat b)) by (intros; now apply Vi_tor).
        rewrite (mmul_ext_r n _ V (fun c e => B c (e - n2)%nat)) by (intros; now apply V_tor).
        change (mmul o n (fun a b => P1 (a - n2)%nat b) (fun c e => B c (e - n2)%nat) i j)
          with (mmul o n P1 B (i - n2)%nat (j - n2)%nat).
        rewrite P1B by lia. unfold mid.
        destruct (Nat.eqb_spec (i - n2) (j - n2)); destruct (Nat.eqb_spec i j); try reflexivity; lia.
    Qed.

    Lemma VVi : meq n n (mmul o n V Vi) (mid o).
    Proof.
      intros i j Hi Hj. pose proof n_split as Hn.
      rewrite <- (BP1 i j Hi Hj).
      assert (Hs1 : forall f, sum o n f = sum o n2 f + sum o r1 (fun l => f (n2 + l)%nat)).
      { intros f. rewrite <- (sum_split o L). f_equal. lia. }
      assert (Hs2 : forall f, sum o n f = sum o r1 f + sum o n2 (fun l => f (r1 + l)%nat)).
      { intros f. rewrite <- (sum_split o L). f_equal. lia. }
      unfold mmul. rewrite Hs1, Hs2.
      rewrite (radd_comm o L). f_equal.
      - apply (sum_ext o). intros l Hl. rewrite V_tor, Vi_tor by lia.
        replace (n2 + l - n2)%nat with l by lia. reflexivity.
      - (* sum_{l<n2} (Bc Q2) i l * (Q2i P1r) l j = (Bc P1r) i j *)
        transitivity (mmul o n2 (mmul o n2 Bc Q2) (mmul o n2 Q2i P1r) i j).
        { unfold mmul at 1. apply (sum_ext o). intros l Hl. now rewrite V_free, Vi_free by assumption. }
        rewrite (mmul_assoc o L).
        change (sum o n2 (fun l => B i (r1 + l)%nat * P1 (r1 + l)%nat j)) with (mmul o n2 Bc P1r i j).
        apply mmul_ext_r. intros l Hl.
        apply mmul_cancel_l; [apply Q2Q2i|assumption].
    Qed.

    (* P2 * d2 * V = [ D2 | 0 ] *)
    Lemma d2V_free i j : (j < n2)%nat -> mmul o n d2 V i j = mmul o n2 d2' Q2 i j.
    Proof.
      intros Hj. unfold d2'. rewrite (mmul_assoc o L).
      apply mmul_ext_r. intros l Hl. now apply V_free.
    Qed.

    Lemma d2V_tor i j : (i < k)%nat -> (n2 <= j)%nat -> (j < n)%nat -> mmul o n d2 V i j = 0.
    Proof.
      intros Hi Hj Hjn. pose proof n_split.
      rewrite <- (d2B_zero i (j - n2)%nat) by (try assumption; lia).
      unfold mmul. apply (sum_ext o). intros l Hl. now rewrite V_tor.
    Qed.

    Lemma P2d2V : meq k n (mmul o k P2 (mmul o n d2 V)) (fun i j => if j <? n2 then D2 i j else 0).
    Proof.
      intros i j Hi Hj. destruct (Nat.ltb_spec j n2) as [Hj2|Hj2].
      - rewrite (sm_eq _ _ _ _ _ _ _ _ _ S2) by assumption.
        apply mmul_ext_r. intros l Hl. now apply d2V_free.
      - apply mmul_zero_col. intros l Hl. now apply d2V_tor.
    Qed.

    (* d2 * V = [ P2^-1 D2 | 0 ] *)
    Lemma d2V : meq k n (mmul o n d2 V) (fun i j => if j <? n2 then mmul o k P2i D2 i j else 0).
    Proof.
      intros i j Hi Hj. destruct (Nat.ltb_spec j n2) as [Hj2|Hj2].
      - rewrite d2V_free by assumption. now apply (smith_AQ _ _ _ _ _ _ _ _ _ S2).
      - now apply d2V_tor.
    Qed.

    (* the columns r2.. of d2 * V vanish *)
    Lemma d2V_zero i j : (i < k)%nat -> (r2 <= j)%nat -> (j < n)%nat -> mmul o n d2 V i j = 0.
    Proof.
      intros Hi Hr Hj. rewrite d2V by assumption.
      destruct (Nat.ltb_spec j n2) as [Hj2|Hj2]; [|reflexivity].
      apply mmul_zero_col. intros l Hl. now apply (smith_col_zero _ _ _ _ _ _ _ _ _ S2).
    Qed.

    (* Vi * d1 = [ 0 ; diag(D1) * Q1i[..r1, :] ] *)
    Lemma Vid1 : meq n m (mmul o n Vi d1)
                     (fun i j => if i <? n2 then 0 else D1 (i - n2)%nat (i - n2)%nat * Q1i (i - n2)%nat j).
    Proof.
      intros i j Hi Hj. pose proof n_split as Hn.
      destruct (Nat.ltb_spec i n2) as [Hi2|Hi2].
      - rewrite (mmul_ext_l n Vi (mmul o n2 Q2i P1r)) by (intros; now apply Vi_free).
        rewrite (mmul_assoc o L). apply mmul_zero_col. intros l Hl.
        change (mmul o n P1r d1 l j) with (mmul o n P1 d1 (r1 + l)%nat j).
        rewrite (smith_PA_entry _ _ _ _ _ _ _ _ _ S1) by (try assumption; lia).
        destruct (Nat.ltb_spec (r1 + l) r1); [lia|reflexivity].
      - rewrite (mmul_ext_l n Vi (fun a b => P1 (a - n2)%nat b)) by (intros; now apply Vi_tor).
        change (mmul o n (fun a b => P1 (a - n2)%nat b) d1 i j) with (mmul o n P1 d1 (i - n2)%nat j).
        rewrite (smith_PA_entry _ _ _ _ _ _ _ _ _ S1) by (try assumption; lia).
        destruct (Nat.ltb_spec (i - n2) r1); [reflexivity|lia].
    Qed.

    (* hence d2 itself has a diagonal form with exactly the non-zero entries of D2 *)
    Lemma smith_form_d2 : smith_form k n d2 r2 (fun i => D2 i i).
    Proof.
      exists P2, P2i, V, Vi.
      split; [apply (sm_P _ _ _ _ _ _ _ _ _ S2)|]. split; [split; [apply VVi|apply ViV]|].
      split; [|split; [apply (sm_nz _ _ _ _ _ _ _ _ _ S2)|]].
      - intros i j Hi Hj. rewrite P2d2V by assumption.
        pose proof r2_le_n2 as Hr2.
        destruct (Nat.ltb_spec j n2) as [Hj2|Hj2].
        + now apply (smith_diag_entry _ _ _ _ _ _ _ _ _ i j S2).
        + destruct (Nat.eqb_spec i j) as [->|Hne]; cbn [andb]; [|reflexivity].
          destruct (Nat.ltb_spec j r2); [lia|reflexivity].
      - pose proof (sm_r _ _ _ _ _ _ _ _ _ S2). pose proof n_split. lia.
    Qed.

    (* ---------- the generators and coordinates chosen by HomologyCalc::trans ---------- *)
    Variable t : nat.
    Hypothesis t_le : (t <= r1)%nat.
    Let r := (n2 - r2)%nat.

    (* column of V / row of Vi that becomes generator / coordinate number i *)
    Definition sg (i : nat) : nat := if i <? r then (r2 + i)%nat else (n2 + (r1 - t) + (i - r))%nat.
    Definition qF : mat R := fun i j => V i (sg j).
    Definition pF : mat R := fun i j => Vi (sg i) j.

    Lemma sg_lt i : (i < r + t)%nat -> (sg i < n)%nat.
    Proof.
      intros Hi. pose proof n_split. pose proof r2_le_n2. unfold sg.
      destruct (Nat.ltb_spec i r); unfold r in *; lia.
    Qed.

    Lemma sg_ge i : (r2 <= sg i)%nat.
    Proof. pose proof r2_le_n2. unfold sg. destruct (Nat.ltb_spec i r); lia. Qed.

    Lemma sg_inj i j : (i < r + t)%nat -> (j < r + t)%nat -> sg i = sg j -> i = j.
    Proof.
      intros Hi Hj. pose proof r2_le_n2. unfold sg.
      destruct (Nat.ltb_spec i r); destruct (Nat.ltb_spec j r); unfold r in *; lia.
    Qed.

    (* generators are cycles *)
    Lemma gen_cycles : meq k (r + t) (mmul o n d2 qF) (mzero o).
    Proof.
      intros i j Hi Hj. unfold mzero.
      change (mmul o n d2 qF i j) with (mmul o n d2 V i (sg j)).
      apply d2V_zero; [assumption|apply sg_ge|now apply sg_lt].
    Qed.

    (* the coordinates of the generators are the standard basis *)
    Lemma gen_coords : meq (r + t) (r + t) (mmul o n pF qF) (mid o).
    Proof.
      intros i j Hi Hj.
      change (mmul o n pF qF i j) with (mmul o n Vi V (sg i) (sg j)).
      rewrite ViV by now apply sg_lt. unfold mid.
      destruct (Nat.eqb_spec (sg i) (sg j)) as [E|E]; destruct (Nat.eqb_spec i j) as [E'|E']; try reflexivity.
      - exfalso. apply E'. now apply sg_inj.
      - exfalso. apply E. now rewrite E'.
    Qed.

    (* the coordinates of a boundary: zero in the free part, a multiple of the torsion order in the torsion part *)
    Lemma gen_boundary (x : nat -> R) i : (i < r + t)%nat ->
      mvec o n pF (mvec o m d1 x) i =
      if i <? r then 0
      else D1 (r1 - t + (i - r))%nat (r1 - t + (i - r))%nat * mvec o m Q1i x (r1 - t + (i - r))%nat.
    Proof.
      intros Hi. rewrite <- (mvec_mmul o L).
      pose proof (sg_lt i Hi) as Hs. pose proof r2_le_n2 as Hr2.
      unfold mvec at 1.
      rewrite (sum_ext o m _ (fun l => (if sg i <? n2 then 0
                   else D1 (sg i - n2)%nat (sg i - n2)%nat * Q1i (sg i - n2)%nat l) * x l)).
      2:{ intros l Hl. change (mmul o n pF d1 i l) with (mmul o n Vi d1 (sg i) l).
          rewrite Vid1 by assumption. reflexivity. }
      unfold sg in *. destruct (Nat.ltb_spec i r) as [Hir|Hir].
      - destruct (Nat.ltb_spec (r2 + i) n2); [|unfold r in *; lia].
        apply (sum_zero_ext o L). intros l Hl. ring.
      - destruct (Nat.ltb_spec (n2 + (r1 - t) + (i - r)) n2); [lia|].
        replace (n2 + (r1 - t) + (i - r) - n2)%nat with (r1 - t + (i - r))%nat by lia.
        unfold mvec. rewrite <- (sum_scal_l o L). apply (sum_ext o). intros l Hl. ring.
    Qed.

    (* ---------- completeness: the generators span the homology, the coordinates detect boundaries ---------- *)
    (* the first r1 - t diagonal entries of D1 are units *)
    Variable uinv : nat -> R.
    Hypothesis uinv_ok : forall l, (l < r1 - t)%nat -> D1 l l * uinv l = 1.

    Lemma mvec_id (z : nat -> R) i : (i < n)%nat -> mvec o n (mid o) z i = z i.
    Proof.
      intros Hi. unfold mvec, mid.
      rewrite (sum_ext o n _ (fun l => if l =? i then z l else 0)).
      - now rewrite (sum_delta o L).
      - intros l _. rewrite Nat.eqb_sym. destruct (l =? i); ring.
    Qed.

    Lemma mvec_ext (A : mat R) (v v' : nat -> R) p i :
      (forall l, (l < p)%nat -> v l = v' l) -> mvec o p A v i = mvec o p A v' i.
    Proof. intros H. unfold mvec. apply (sum_ext o). intros l Hl. now rewrite H. Qed.

    Lemma mvec_ext_row (A A' : mat R) (v : nat -> R) p i :
      (forall l, (l < p)%nat -> A i l = A' i l) -> mvec o p A v i = mvec o p A' v i.
    Proof. intros H. unfold mvec. apply (sum_ext o). intros l Hl. now rewrite H. Qed.

    Section Cycle.
      Variable z : nat -> R.
      Hypothesis z_cycle : forall i, (i < k)%nat -> mvec o n d2 z i = 0.
      Let w : nat -> R := mvec o n Vi z.

      Lemma z_Vw i : (i < n)%nat -> z i = mvec o n V w i.
      Proof.
        intros Hi. unfold w. rewrite <- (mvec_mmul o L).
        rewrite (mvec_ext_row _ (mid o)) by (intros l Hl; now apply VVi).
        symmetry. now apply mvec_id.
      Qed.

      Lemma w_low_zero a : (a < r2)%nat -> w a = 0.
      Proof.
        intros Ha. pose proof (sm_r _ _ _ _ _ _ _ _ _ S2) as Hr2. pose proof n_split as Hn.
        assert (E : mvec o n (mmul o k P2 (mmul o n d2 V)) w a = 0).
        { rewrite (mvec_mmul o L). unfold mvec at 1. apply (sum_zero_ext o L). intros i Hi.
          rewrite (mvec_mmul o L).
          rewrite (mvec_ext d2 _ z) by (intros l Hl; symmetry; now apply z_Vw).
          rewrite z_cycle by assumption. ring. }
        rewrite (mvec_ext_row _ (fun i j => if j <? n2 then D2 i j else 0)) in E
          by (intros l Hl; apply P2d2V; lia).
        unfold mvec in E.
        rewrite (sum_single o L n a) in E.
        - destruct (Nat.ltb_spec a n2); [|lia].
          rewrite (rmul_comm o L) in E.
          apply mul_nz_cancel with (b := D2 a a); [exact E|]. now apply (sm_nz _ _ _ _ _ _ _ _ _ S2).
        - lia.
        - intros l Hl Hne. destruct (Nat.ltb_spec l n2); [|ring].
          rewrite (sm_diag _ _ _ _ _ _ _ _ _ S2) by (try assumption; try lia; congruence). ring.
      Qed.

      (* z = q (p z) + d1 x *)
      Theorem cycle_decomp :
        exists x : nat -> R, forall i, (i < n)%nat ->
          z i = mvec o (r + t) qF (mvec o n pF z) i + mvec o m d1 x i.
      Proof.
        pose proof r2_le_n2 as Hr2. pose proof n_split as Hn.
        exists (fun c => sum o (r1 - t) (fun l => Q1 c l * (uinv l * w (n2 + l)%nat))).
        intros i Hi. rewrite (z_Vw i Hi).
        (* split the sum over the columns of V *)
        unfold mvec at 1.
        replace n with (r2 + r + (r1 - t) + t)%nat at 1 by (unfold r; lia).
        rewrite !(sum_split o L).
        rewrite (sum_zero_ext o L r2) by (intros l Hl; rewrite w_low_zero by assumption; ring).
        (* q (p z) *)
        change (mvec o (r + t) qF (mvec o n pF z) i) with (sum o (r + t) (fun s => qF i s * mvec o n pF z s)).
        rewrite (sum_split o L).
        assert (E1 : sum o r (fun s => qF i s * mvec o n pF z s)
                     = sum o r (fun s => V i (r2 + s)%nat * w (r2 + s)%nat)).
        { apply (sum_ext o). intros s Hs. unfold qF, pF, sg, w, mvec.
          destruct (Nat.ltb_spec s r); [reflexivity|lia]. }
        assert (E2 : sum o t (fun s => qF i (r + s)%nat * mvec o n pF z (r + s)%nat)
                     = sum o t (fun s => V i (r2 + r + (r1 - t) + s)%nat * w (r2 + r + (r1 - t) + s)%nat)).
        { apply (sum_ext o). intros s Hs. unfold qF, pF, sg, w, mvec.
          destruct (Nat.ltb_spec (r + s) r); [lia|].
          replace (n2 + (r1 - t) + (r + s - r))%nat with (r2 + r + (r1 - t) + s)%nat by (unfold r; lia).
          reflexivity. }
        rewrite E1, E2.
        (* the remaining block is a boundary *)
        assert (E3 : sum o (r1 - t) (fun l => V i (r2 + r + l)%nat * w (r2 + r + l)%nat)
                     = mvec o m d1 (fun c => sum o (r1 - t) (fun l => Q1 c l * (uinv l * w (n2 + l)%nat))) i).
        { unfold mvec.
          rewrite (sum_ext o m _ (fun c => sum o (r1 - t) (fun l => d1 i c * Q1 c l * (uinv l * w (n2 + l)%nat)))).
          2:{ intros c Hc. rewrite <- (sum_scal_l o L). apply (sum_ext o). intros l Hl. ring. }
          rewrite (sum_swap o L). apply (sum_ext o). intros l Hl.
          rewrite (sum_scal_r o L).
          change (sum o m (fun c => d1 i c * Q1 c l)) with (mmul o m d1 Q1 i l).
          pose proof (sm_r _ _ _ _ _ _ _ _ _ S1) as Hr1.
          rewrite (smith_AQ_entry _ _ _ _ _ _ _ _ _ S1) by lia.
          destruct (Nat.ltb_spec l r1); [|lia].
          replace (r2 + r + l)%nat with (n2 + l)%nat by (unfold r; lia).
          rewrite V_tor by lia. replace (n2 + l - n2)%nat with l by lia.
          transitivity (B i l * (D1 l l * uinv l) * w (n2 + l)%nat); [|ring].
          rewrite uinv_ok by assumption. ring. }
        rewrite E3. ring.
      Qed.

      (* if moreover the coordinates of z vanish modulo the torsion orders, z is a boundary *)
      Theorem cycle_boundary (cf : nat -> R) :
        (forall i, (i < r)%nat -> mvec o n pF z i = 0) ->
        (forall s, (s < t)%nat -> mvec o n pF z (r + s)%nat = D1 (r1 - t + s)%nat (r1 - t + s)%nat * cf s) ->
        exists x : nat -> R, forall i, (i < n)%nat -> z i = mvec o m d1 x i.
      Proof.
        intros Hfree Htor.
        pose proof r2_le_n2 as Hr2. pose proof n_split as Hn.
        pose proof (sm_r _ _ _ _ _ _ _ _ _ S1) as Hr1.
        destruct cycle_decomp as [x0 Hx0].
        exists (fun c => x0 c + sum o t (fun s => Q1 c (r1 - t + s)%nat * cf s)).
        intros i Hi. rewrite (Hx0 i Hi).
        assert (El : mvec o m d1 (fun c => x0 c + sum o t (fun s => Q1 c (r1 - t + s)%nat * cf s)) i
                     = mvec o m d1 x0 i + mvec o m d1 (fun c => sum o t (fun s => Q1 c (r1 - t + s)%nat * cf s)) i).
        { unfold mvec. rewrite <- (sum_add o L). apply (sum_ext o). intros c Hc. ring. }
        rewrite El. rewrite (radd_comm o L). f_equal.
        change (mvec o (r + t) qF (mvec o n pF z) i) with (sum o (r + t) (fun s => qF i s * mvec o n pF z s)).
        rewrite (sum_split o L).
        rewrite (sum_zero_ext o L r) by (intros s Hs; rewrite Hfree by assumption; ring).
        unfold mvec at 2.
        rewrite (sum_ext o m _ (fun c => sum o t (fun s => d1 i c * Q1 c (r1 - t + s)%nat * cf s))).
        2:{ intros c Hc. rewrite <- (sum_scal_l o L). apply (sum_ext o). intros s Hs. ring. }
        rewrite (sum_swap o L).
        transitivity (sum o t (fun s => qF i (r + s)%nat * mvec o n pF z (r + s)%nat)); [ring|].
        apply (sum_ext o). intros s Hs.
        rewrite (sum_scal_r o L).
        change (sum o m (fun c => d1 i c * Q1 c (r1 - t + s)%nat)) with (mmul o m d1 Q1 i (r1 - t + s)%nat).
        rewrite (smith_AQ_entry _ _ _ _ _ _ _ _ _ S1) by lia.
        destruct (Nat.ltb_spec (r1 - t + s) r1); [|lia].
        rewrite Htor by assumption.
        unfold qF, sg. destruct (Nat.ltb_spec (r + s) r); [lia|].
        rewrite V_tor by lia.
        replace (n2 + (r1 - t) + (r + s - r) - n2)%nat with (r1 - t + s)%nat by lia.
        ring.
      Qed.
    End Cycle.
  End TwoSnf.
End C07Algebra.
