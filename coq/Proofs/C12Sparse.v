(* Lemmas about the sparse containers of Model/Triang.v: dense buffers, the denotation [centry]/[entry],
   the CSC invariant, transposition, from_entries. *)
From Coq Require Import Arith List Bool Lia Ring.
Require Import Yui.Base.Ring Yui.Base.MatF Yui.Model.Triang.
Import ListNotations.

(* ---------- option monad ---------- *)
Lemma obind_some {A B} (x : option A) (f : A -> option B) b :
  obind x f = Some b <-> exists a, x = Some a /\ f a = Some b.
Proof.
  destruct x as [a|]; cbn; split.
  - intros H. now exists a.
  - intros [a' [E H]]. now injection E as ->.
  - discriminate.
  - intros [a' [E _]]. discriminate.
Qed.

Lemma omap_map {A B} (f : A -> option B) (g : A -> B) l :
  (forall x, In x l -> f x = Some (g x)) -> omap f l = Some (map g l).
Proof.
  induction l as [|x r IH]; intros H; cbn; [reflexivity|].
  rewrite (H x) by now left. cbn. rewrite IH by (intros; apply H; now right). reflexivity.
Qed.

Lemma omap_some_inv {A B} (f : A -> option B) l ys :
  omap f l = Some ys -> length ys = length l /\ forall k x, nth_error l k = Some x ->
    exists y, nth_error ys k = Some y /\ f x = Some y.
Proof.
  revert ys. induction l as [|x r IH]; intros ys H; cbn in H.
  - injection H as <-. split; [reflexivity|]. intros [|k] z Hz; discriminate.
  - apply obind_some in H. destruct H as [y [Hy H]]. apply obind_some in H. destruct H as [ys' [Hys H]].
    injection H as <-. destruct (IH _ Hys) as [Hl Hn]. split; [cbn; now rewrite Hl|].
    intros [|k] z Hz; cbn in *.
    + injection Hz as <-. now exists y.
    + now apply Hn.
Qed.

(* ---------- generic list facts ---------- *)
Lemma combine_map_self {A B} (f : A -> B) l : combine l (map f l) = map (fun x => (x, f x)) l.
Proof. induction l as [|x r IH]; cbn; [reflexivity|]. now rewrite IH. Qed.

Lemma flat_map_singleton {A B} (f : A -> list B) (g : A -> B) l :
  (forall x, In x l -> f x = [g x]) -> flat_map f l = map g l.
Proof.
  induction l as [|x r IH]; intros H; cbn; [reflexivity|].
  rewrite (H x) by now left. cbn. rewrite IH by (intros; apply H; now right). reflexivity.
Qed.

Lemma nth_map_seq {A} (f : nat -> A) n j d : j < n -> nth j (map f (seq 0 n)) d = f j.
Proof.
  intros H. rewrite nth_indep with (d' := f 0) by (now rewrite map_length, seq_length).
  rewrite (map_nth f (seq 0 n) 0 j), seq_nth by assumption. reflexivity.
Qed.

Lemma nth_map_seq_over {A} (f : nat -> A) n j d : n <= j -> nth j (map f (seq 0 n)) d = d.
Proof. intros H. apply nth_overflow. now rewrite map_length, seq_length. Qed.

Lemma find_map_key {B} (f : nat -> B) l j :
  In j l -> find (fun p => fst p =? j) (map (fun j => (j, f j)) l) = Some (j, f j).
Proof.
  induction l as [|x r IH]; intros H; [contradiction|]. cbn.
  destruct (Nat.eqb_spec x j) as [->|Hne]; [reflexivity|].
  destruct H as [H|H]; [contradiction|]. now apply IH.
Qed.

Lemma NoDup_app_intro {A} (l1 l2 : list A) :
  NoDup l1 -> NoDup l2 -> (forall x, In x l1 -> ~ In x l2) -> NoDup (l1 ++ l2).
Proof.
  induction l1 as [|x r IH]; intros H1 H2 H; cbn; [assumption|].
  inversion H1 as [|? ? Hx Hr]; subst. constructor.
  - rewrite in_app_iff. intros [Hi|Hi]; [contradiction|]. apply (H x); [now left|assumption].
  - apply IH; [assumption|assumption|]. intros y Hy. apply H. now right.
Qed.

(* ---------- sorted index lists ---------- *)
Lemma sorted_strict_head x r : sorted_strict (x :: r) = true -> (forall y, In y r -> x < y) /\ sorted_strict r = true.
Proof.
  revert x. induction r as [|y r IH]; intros x H.
  - split; [intros y []|reflexivity].
  - change (sorted_strict (x :: y :: r)) with ((x <? y) && sorted_strict (y :: r)) in H.
    apply andb_true_iff in H. destruct H as [Hxy Hs]. apply Nat.ltb_lt in Hxy.
    split; [|exact Hs]. intros z [<-|Hz]; [assumption|].
    destruct (IH y Hs) as [Hlt _]. specialize (Hlt z Hz). lia.
Qed.

Lemma sorted_strict_NoDup l : sorted_strict l = true -> NoDup l.
Proof.
  induction l as [|x r IH]; intros H; [constructor|].
  destruct (sorted_strict_head x r H) as [Hlt Hs]. constructor; [|now apply IH].
  intros Hin. specialize (Hlt x Hin). lia.
Qed.

Lemma nat_mem_In x l : nat_mem x l = true <-> In x l.
Proof.
  unfold nat_mem. rewrite existsb_exists. split.
  - intros [y [Hy E]]. apply Nat.eqb_eq in E. now subst.
  - intros H. exists x. split; [assumption|apply Nat.eqb_refl].
Qed.

Lemma nat_ins_In x y l : In y (nat_ins x l) <-> y = x \/ In y l.
Proof.
  induction l as [|z r IH]; cbn [nat_ins].
  - cbn [In]. intuition.
  - destruct (x <? z) eqn:E1; [cbn [In]; intuition|].
    destruct (Nat.eqb_spec x z) as [->|Hne]; cbn [In]; [intuition|].
    rewrite IH. intuition.
Qed.

(* insertion keeps "strictly sorted", hence NoDup *)
Lemma sorted_strict_cons2 x y r : sorted_strict (x :: y :: r) = (x <? y) && sorted_strict (y :: r).
Proof. reflexivity. Qed.

Lemma sorted_strict_cons_intro x l : (forall y, In y l -> x < y) -> sorted_strict l = true -> sorted_strict (x :: l) = true.
Proof.
  intros H Hs. destruct l as [|y r]; [reflexivity|]. rewrite sorted_strict_cons2, Hs.
  replace (x <? y) with true by (symmetry; apply Nat.ltb_lt, H; now left). reflexivity.
Qed.

Lemma sorted_filter_keys {A} (p : nat * A -> bool) (c : list (nat * A)) :
  sorted_strict (map fst c) = true -> sorted_strict (map fst (filter p c)) = true.
Proof.
  induction c as [|e r IH]; intros H; [reflexivity|]. cbn [map] in H.
  destruct (sorted_strict_head _ _ H) as [Hlt Hs]. cbn [filter]. destruct (p e); [|now apply IH].
  cbn [map]. apply sorted_strict_cons_intro; [|now apply IH].
  intros y Hy. apply Hlt. apply in_map_iff in Hy. destruct Hy as [e' [<- He']].
  apply filter_In in He'. apply in_map. tauto.
Qed.

Lemma nat_ins_sorted x l : sorted_strict l = true -> sorted_strict (nat_ins x l) = true.
Proof.
  induction l as [|z r IH]; intros H; [reflexivity|].
  cbn [nat_ins]. destruct (x <? z) eqn:E1.
  - now rewrite sorted_strict_cons2, E1, H.
  - destruct (Nat.eqb_spec x z) as [->|Hne]; [assumption|].
    apply Nat.ltb_ge in E1.
    destruct (sorted_strict_head z r H) as [Hlt Hs]. specialize (IH Hs).
    destruct r as [|w r'].
    + cbn [nat_ins]. rewrite sorted_strict_cons2.
      replace (z <? x) with true by (symmetry; apply Nat.ltb_lt; lia). reflexivity.
    + cbn [nat_ins] in *. destruct (x <? w) eqn:E2.
      * rewrite sorted_strict_cons2.
        replace (z <? x) with true by (symmetry; apply Nat.ltb_lt; lia). exact IH.
      * destruct (Nat.eqb_spec x w) as [->|Hne2]; [exact H|].
        rewrite sorted_strict_cons2.
        assert (z < w) by (apply Hlt; now left).
        replace (z <? w) with true by (symmetry; now apply Nat.ltb_lt). exact IH.
Qed.

Lemma nat_union_sorted l1 l2 : sorted_strict l1 = true -> sorted_strict (nat_union l1 l2) = true.
Proof.
  unfold nat_union. revert l1. induction l2 as [|x r IH]; intros l1 H; cbn; [assumption|].
  apply IH. now apply nat_ins_sorted.
Qed.

Lemma nat_union_In l1 l2 y : In y (nat_union l1 l2) <-> In y l1 \/ In y l2.
Proof.
  unfold nat_union. revert l1. induction l2 as [|x r IH]; intros l1; cbn; [intuition|].
  rewrite IH, nat_ins_In. intuition.
Qed.

Section SparseLemmas.
  Context {R : Type} (o : ring_ops R) (L : ring_laws o).

  Local Notation "0" := (rzero o).
  Local Notation "1" := (rone o).
  Local Infix "+" := (radd o).
  Local Infix "*" := (rmul o).
  Local Notation "- x" := (rneg o x).
  Add Ring Rring : (ring_theory_of_laws o L).

  Lemma rsub_def a b : rsub o a b = a + - b.
  Proof. reflexivity. Qed.

  Lemma ris_zero_true x : ris_zero o x = true <-> x = 0.
  Proof. unfold ris_zero. apply (reqb_eq o L). Qed.
  Lemma ris_zero_false x : ris_zero o x = false <-> x <> 0.
  Proof. unfold ris_zero. apply (reqb_false o L). Qed.

  (* ---------- dense buffers ---------- *)
  Lemma length_set_nth (b : list R) i x : length (set_nth b i x) = length b.
  Proof. revert i. induction b as [|y r IH]; intros [|i]; cbn; auto. Qed.

  Lemma vget_set_nth (b : list R) i x k :
    i < length b -> vget o (set_nth b i x) k = if k =? i then x else vget o b k.
  Proof.
    unfold vget. revert i k. induction b as [|y r IH]; intros i k Hi; [cbn in Hi; lia|].
    destruct i as [|i], k as [|k]; cbn; try reflexivity.
    cbn in Hi. apply IH. lia.
  Qed.

  Lemma nth_error_vget (b : list R) i x : nth_error b i = Some x -> vget o b i = x /\ i < length b.
  Proof.
    intros H. split; [now apply nth_error_nth|]. apply nth_error_Some. congruence.
  Qed.

  Lemma nth_error_lt (b : list R) i : i < length b -> nth_error b i = Some (vget o b i).
  Proof.
    intros H. destruct (nth_error b i) eqn:E.
    - apply nth_error_vget in E. destruct E as [<- _]. reflexivity.
    - apply nth_error_None in E. lia.
  Qed.

  Lemma vget_zeros n i : vget o (zeros o n) i = 0.
  Proof.
    unfold vget, zeros. destruct (lt_dec i n) as [H|H].
    - now rewrite nth_repeat.
    - apply nth_overflow. rewrite repeat_length. lia.
  Qed.

  Lemma zeros_intro (b : list R) n : length b = n -> (forall i, i < n -> vget o b i = 0) -> b = zeros o n.
  Proof.
    intros Hl H. apply nth_ext with (d := 0) (d' := 0).
    - unfold zeros. now rewrite repeat_length.
    - intros i Hi. rewrite Hl in Hi. fold (vget o b i). fold (vget o (zeros o n) i).
      now rewrite H, vget_zeros.
  Qed.

  (* ---------- centry ---------- *)
  Lemma centry_app (c1 c2 : scol R) i : centry o (c1 ++ c2) i = centry o c1 i + centry o c2 i.
  Proof. induction c1 as [|e r IH]; cbn; [ring|]. rewrite IH. ring. Qed.

  Lemma centry_rev (c : scol R) i : centry o (rev c) i = centry o c i.
  Proof. induction c as [|e r IH]; cbn; [reflexivity|]. rewrite centry_app, IH. cbn. ring. Qed.

  Lemma centry_notin (c : scol R) i : ~ In i (map fst c) -> centry o c i = 0.
  Proof.
    induction c as [|e r IH]; intros H; cbn; [reflexivity|].
    cbn in H. destruct (Nat.eqb_spec (fst e) i) as [E|E]; [exfalso; apply H; now left|].
    rewrite IH by (intros Hi; apply H; now right). ring.
  Qed.

  Lemma centry_zero (c : scol R) i : (forall e, In e c -> fst e = i -> snd e = 0) -> centry o c i = 0.
  Proof.
    induction c as [|e r IH]; intros H; cbn; [reflexivity|].
    rewrite IH by (intros e' He'; apply H; now right).
    destruct (Nat.eqb_spec (fst e) i) as [E|E]; [rewrite (H e (or_introl eq_refl) E)|]; ring.
  Qed.

  Lemma centry_filter (p : nat * R -> bool) (c : scol R) i :
    (forall e, In e c -> fst e = i -> p e = true \/ snd e = 0) -> centry o (filter p c) i = centry o c i.
  Proof.
    induction c as [|e r IH]; intros H; cbn; [reflexivity|].
    specialize (IH (fun e' He' => H e' (or_intror He'))).
    destruct (p e) eqn:Ep; cbn; rewrite IH; [reflexivity|].
    destruct (Nat.eqb_spec (fst e) i) as [E|E]; [|ring].
    destruct (H e (or_introl eq_refl) E) as [Hp|Hz]; [congruence|]. rewrite Hz. ring.
  Qed.

  Lemma centry_filter_nz (c : scol R) i : centry o (filter (nz o) c) i = centry o c i.
  Proof.
    apply centry_filter. intros e _ _. unfold nz, nzb. destruct (ris_zero o (snd e)) eqn:E.
    - right. now apply ris_zero_true.
    - now left.
  Qed.

  Lemma centry_filter_row (c : scol R) i : centry o (filter (fun e => fst e =? i) c) i = centry o c i.
  Proof. apply centry_filter. intros e _ E. left. now apply Nat.eqb_eq. Qed.

  Lemma filter_row_single (c : scol R) j v :
    NoDup (map fst c) -> In (j, v) c -> filter (fun e => fst e =? j) c = [(j, v)].
  Proof.
    induction c as [|e r IH]; intros Hnd Hin; [contradiction|].
    cbn in Hnd. inversion Hnd as [|? ? Hx Hr]; subst. cbn.
    destruct Hin as [->|Hin].
    - cbn. rewrite Nat.eqb_refl. f_equal.
      assert (Hnone : forall l, ~ In j (map fst l) -> filter (fun e : nat * R => fst e =? j) l = []).
      { induction l as [|e' l' IHl]; intros Hn; [reflexivity|]. cbn.
        destruct (Nat.eqb_spec (fst e') j) as [E|E]; [exfalso; apply Hn; now left|].
        apply IHl. intros Hi. apply Hn. now right. }
      now apply Hnone.
    - destruct (Nat.eqb_spec (fst e) j) as [E|E].
      + exfalso. apply Hx. rewrite E. change j with (fst (j, v)). now apply in_map.
      + now apply IH.
  Qed.

  Lemma filter_row_length (c : scol R) i : NoDup (map fst c) -> length (filter (fun e => fst e =? i) c) <= 1.
  Proof.
    induction c as [|e r IH]; intros Hnd; [cbn; lia|].
    cbn in Hnd. inversion Hnd as [|? ? Hx Hr]; subst. cbn.
    destruct (Nat.eqb_spec (fst e) i) as [E|E]; [|now apply IH].
    cbn. assert (filter (fun e0 : nat * R => fst e0 =? i) r = []) as ->; [|cbn; lia].
    clear IH Hr Hnd. induction r as [|e' r' IHr]; [reflexivity|]. cbn.
    destruct (Nat.eqb_spec (fst e') i) as [E'|E'].
    - exfalso. apply Hx. left. congruence.
    - apply IHr. intros Hi. apply Hx. now right.
  Qed.

  Lemma centry_single (c : scol R) j v : filter (fun e => fst e =? j) c = [(j, v)] -> centry o c j = v.
  Proof. intros H. rewrite <- centry_filter_row, H. cbn. rewrite Nat.eqb_refl. ring. Qed.

  Lemma NoDup_keys_filter (p : nat * R -> bool) (c : scol R) : NoDup (map fst c) -> NoDup (map fst (filter p c)).
  Proof.
    induction c as [|e r IH]; intros H; [constructor|]. cbn in H. inversion H as [|? ? Hx Hr]; subst.
    cbn. destruct (p e); [|now apply IH]. cbn. constructor; [|now apply IH].
    intros Hi. apply Hx. apply in_map_iff in Hi. destruct Hi as [e' [E He']].
    apply filter_In in He'. apply in_map_iff. exists e'. tauto.
  Qed.

  (* sums against a stored vector *)
  Lemma sum_centry_snoc n (f : nat -> R) (c : scol R) j x :
    j < n ->
    sum o n (fun k => f k * centry o (c ++ [(j, x)]) k) = sum o n (fun k => f k * centry o c k) + f j * x.
  Proof.
    intros Hj.
    rewrite (sum_ext o n _ (fun k => f k * centry o c k + (if k =? j then f k * x else 0))).
    - rewrite (sum_add o L), (sum_delta o L) by assumption. reflexivity.
    - intros k _. rewrite centry_app. cbn. rewrite (Nat.eqb_sym j k). destruct (k =? j); ring.
  Qed.

  (* ---------- columns of a matrix ---------- *)
  Lemma col_cases (a : spmat R) j : col a j = [] \/ In (col a j) (cols a).
  Proof.
    unfold col. destruct (lt_dec j (length (cols a))) as [H|H].
    - right. now apply nth_In.
    - left. apply nth_overflow. lia.
  Qed.

  Lemma wf_col_spec (a : spmat R) j :
    wf a = true -> NoDup (map fst (col a j)) /\ forall e, In e (col a j) -> fst e < nrows a.
  Proof.
    intros H. unfold wf in H. apply andb_true_iff in H. destruct H as [_ H].
    rewrite forallb_forall in H. destruct (col_cases a j) as [E|Hin].
    - rewrite E. split; [constructor|intros e []].
    - specialize (H _ Hin). unfold wf_col in H. apply andb_true_iff in H. destruct H as [Hs Hr].
      split; [now apply sorted_strict_NoDup|].
      rewrite forallb_forall in Hr. intros e He. now apply Nat.ltb_lt, Hr.
  Qed.

  Lemma wf_length (a : spmat R) : wf a = true -> length (cols a) = ncols a.
  Proof. intros H. unfold wf in H. apply andb_true_iff in H. now apply Nat.eqb_eq. Qed.

  Lemma in_triplets (a : spmat R) j e : j < ncols a -> In e (col a j) -> In (fst e, j, snd e) (triplets a).
  Proof.
    intros Hj He. unfold triplets. apply in_flat_map. exists j. split; [apply in_seq; lia|].
    apply in_map_iff. now exists e.
  Qed.

  (* ---------- flat_map over disjoint keys (used for transposition) ---------- *)
  Lemma keys_flat_map_in (f : nat -> scol R) l k :
    (forall j, In j l -> forall e, In e (f j) -> fst e = j) ->
    In k (map fst (flat_map f l)) -> In k l.
  Proof.
    intros Hk Hin. apply in_map_iff in Hin. destruct Hin as [e [<- He]].
    apply in_flat_map in He. destruct He as [j [Hj He]]. now rewrite (Hk j Hj e He).
  Qed.

  Lemma centry_flat_map_keys (f : nat -> scol R) l k :
    NoDup l -> (forall j, In j l -> forall e, In e (f j) -> fst e = j) ->
    centry o (flat_map f l) k = if in_dec Nat.eq_dec k l then centry o (f k) k else 0.
  Proof.
    induction l as [|j r IH]; intros Hnd Hk; cbn [flat_map].
    - destruct (in_dec Nat.eq_dec k []) as [[]|_]. reflexivity.
    - inversion Hnd as [|? ? Hj Hr]; subst. rewrite centry_app.
      assert (Hk' : forall j0, In j0 r -> forall e, In e (f j0) -> fst e = j0)
        by (intros j0 Hj0 e He; apply Hk; [now right|assumption]).
      rewrite (IH Hr Hk').
      destruct (in_dec Nat.eq_dec k (j :: r)) as [Hin|Hnin].
      + destruct Hin as [->|Hin].
        * destruct (in_dec Nat.eq_dec k r) as [Hc|_]; [contradiction|]. ring.
        * destruct (in_dec Nat.eq_dec k r) as [_|Hc]; [|contradiction].
          rewrite (centry_notin (f j)); [ring|].
          intros Hi. apply in_map_iff in Hi. destruct Hi as [e [E He]].
          rewrite (Hk j (or_introl eq_refl) e He) in E. subst. contradiction.
      + destruct (in_dec Nat.eq_dec k r) as [Hc|_]; [exfalso; apply Hnin; now right|].
        rewrite (centry_notin (f j)); [ring|].
        intros Hi. apply in_map_iff in Hi. destruct Hi as [e [E He]].
        rewrite (Hk j (or_introl eq_refl) e He) in E. subst. apply Hnin. now left.
  Qed.

  Lemma filter_flat_map_keys (f : nat -> scol R) l k :
    NoDup l -> (forall j, In j l -> forall e, In e (f j) -> fst e = j) ->
    filter (fun e => fst e =? k) (flat_map f l) = if in_dec Nat.eq_dec k l then f k else [].
  Proof.
    assert (Hall : forall c : scol R, (forall e, In e c -> fst e = k) -> filter (fun e => fst e =? k) c = c).
    { induction c as [|e c IHc]; intros H; [reflexivity|]. cbn.
      rewrite (H e (or_introl eq_refl)), Nat.eqb_refl. f_equal. apply IHc. intros; apply H; now right. }
    assert (Hnone : forall (c : scol R) j, j <> k -> (forall e, In e c -> fst e = j) -> filter (fun e => fst e =? k) c = []).
    { induction c as [|e c IHc]; intros j Hj H; [reflexivity|]. cbn.
      rewrite (H e (or_introl eq_refl)). destruct (Nat.eqb_spec j k); [contradiction|].
      apply (IHc j Hj). intros; apply H; now right. }
    induction l as [|j r IH]; intros Hnd Hk; cbn [flat_map].
    - destruct (in_dec Nat.eq_dec k []) as [[]|_]. reflexivity.
    - inversion Hnd as [|? ? Hj Hr]; subst. rewrite filter_app.
      assert (Hk' : forall j0, In j0 r -> forall e, In e (f j0) -> fst e = j0)
        by (intros j0 Hj0 e He; apply Hk; [now right|assumption]).
      rewrite (IH Hr Hk').
      destruct (in_dec Nat.eq_dec k (j :: r)) as [Hin|Hnin].
      + destruct Hin as [->|Hin].
        * destruct (in_dec Nat.eq_dec k r) as [Hc|_]; [contradiction|].
          rewrite Hall by (apply Hk; now left). now rewrite app_nil_r.
        * destruct (in_dec Nat.eq_dec k r) as [_|Hc]; [|contradiction].
          rewrite (Hnone (f j) j); [reflexivity| |apply Hk; now left]. intros ->. contradiction.
      + destruct (in_dec Nat.eq_dec k r) as [Hc|_]; [exfalso; apply Hnin; now right|].
        rewrite (Hnone (f j) j); [reflexivity| |apply Hk; now left]. intros ->. apply Hnin. now left.
  Qed.

  Lemma NoDup_keys_flat_map (f : nat -> scol R) l :
    NoDup l -> (forall j, In j l -> forall e, In e (f j) -> fst e = j) ->
    (forall j, In j l -> length (f j) <= 1) ->
    NoDup (map fst (flat_map f l)).
  Proof.
    induction l as [|j r IH]; intros Hnd Hk Hl; cbn [flat_map]; [constructor|].
    inversion Hnd as [|? ? Hj Hr]; subst. rewrite map_app. apply NoDup_app_intro.
    - specialize (Hl j (or_introl eq_refl)). destruct (f j) as [|e [|e' t]]; cbn in *; try lia.
      + constructor.
      + constructor; [intros []|constructor].
    - apply IH; [assumption| |intros j0 Hj0; apply Hl; now right].
      intros j0 Hj0 e He; apply Hk; [now right|assumption].
    - intros x Hx Hx'. apply in_map_iff in Hx. destruct Hx as [e [<- He]].
      rewrite (Hk j (or_introl eq_refl) e He) in Hx'.
      apply Hj. apply (keys_flat_map_in f r j); [|assumption].
      intros j0 Hj0 e0 He0; apply Hk; [now right|assumption].
  Qed.

  (* ---------- transposition ---------- *)
  Definition tr_piece (a : spmat R) (i j : nat) : scol R :=
    map (fun e => (j, snd e)) (filter (fun e => fst e =? i) (col a j)).

  Lemma tr_piece_key a i j e : In e (tr_piece a i j) -> fst e = j.
  Proof. unfold tr_piece. intros H. apply in_map_iff in H. destruct H as [e' [<- _]]. reflexivity. Qed.

  Lemma col_transpose (a : spmat R) i :
    col (sp_transpose a) i = if i <? nrows a then flat_map (tr_piece a i) (seq 0 (ncols a)) else [].
  Proof.
    unfold col, sp_transpose. cbn [cols]. destruct (Nat.ltb_spec i (nrows a)) as [H|H].
    - now rewrite nth_map_seq.
    - now rewrite nth_map_seq_over.
  Qed.

  Lemma centry_tr_piece a i j : centry o (tr_piece a i j) j = centry o (col a j) i.
  Proof.
    unfold tr_piece. induction (col a j) as [|e r IH]; cbn; [reflexivity|].
    destruct (Nat.eqb_spec (fst e) i) as [E|E]; cbn; rewrite IH; [rewrite Nat.eqb_refl|]; ring.
  Qed.

  Lemma entry_transpose (a : spmat R) i j :
    i < nrows a -> j < ncols a -> entry o (sp_transpose a) j i = entry o a i j.
  Proof.
    intros Hi Hj. unfold entry. rewrite col_transpose.
    replace (i <? nrows a) with true by (symmetry; now apply Nat.ltb_lt).
    rewrite centry_flat_map_keys; [|apply seq_NoDup|intros j' _ e He; exact (tr_piece_key _ _ _ _ He)].
    destruct (in_dec Nat.eq_dec j (seq 0 (ncols a))) as [_|Hn]; [apply centry_tr_piece|].
    exfalso. apply Hn. apply in_seq. lia.
  Qed.

  Lemma nrows_transpose (a : spmat R) : nrows (sp_transpose a) = ncols a.
  Proof. reflexivity. Qed.
  Lemma ncols_transpose (a : spmat R) : ncols (sp_transpose a) = nrows a.
  Proof. reflexivity. Qed.

  Lemma transpose_rows (a : spmat R) i e : In e (col (sp_transpose a) i) -> fst e < ncols a.
  Proof.
    rewrite col_transpose. destruct (i <? nrows a); [|intros []].
    intros H. apply in_flat_map in H. destruct H as [j [Hj He]]. rewrite (tr_piece_key _ _ _ _ He).
    apply in_seq in Hj. lia.
  Qed.

  Lemma transpose_NoDup (a : spmat R) i :
    (forall j, NoDup (map fst (col a j))) -> NoDup (map fst (col (sp_transpose a) i)).
  Proof.
    intros H. rewrite col_transpose. destruct (i <? nrows a); [|constructor].
    apply NoDup_keys_flat_map; [apply seq_NoDup|intros j _ e He; exact (tr_piece_key _ _ _ _ He)|].
    intros j _. unfold tr_piece. rewrite map_length. apply filter_row_length, H.
  Qed.

  Lemma transpose_diag (a : spmat R) j v :
    j < nrows a -> j < ncols a ->
    filter (fun e => fst e =? j) (col a j) = [(j, v)] ->
    filter (fun e => fst e =? j) (col (sp_transpose a) j) = [(j, v)].
  Proof.
    intros Hr Hc H. rewrite col_transpose.
    replace (j <? nrows a) with true by (symmetry; now apply Nat.ltb_lt).
    rewrite filter_flat_map_keys; [|apply seq_NoDup|intros j' _ e He; exact (tr_piece_key _ _ _ _ He)].
    destruct (in_dec Nat.eq_dec j (seq 0 (ncols a))) as [_|Hn]; [|exfalso; apply Hn; apply in_seq; lia].
    unfold tr_piece. rewrite H. reflexivity.
  Qed.

  (* ---------- identity ---------- *)
  Lemma col_id n j : col (sp_id o n) j = if j <? n then [(j, 1)] else [].
  Proof.
    unfold col, sp_id. cbn [cols]. destruct (Nat.ltb_spec j n).
    - now rewrite nth_map_seq.
    - now rewrite nth_map_seq_over.
  Qed.

  Lemma entry_id n i j : j < n -> entry o (sp_id o n) i j = mid o i j.
  Proof.
    intros Hj. unfold entry, mid. rewrite col_id.
    replace (j <? n) with true by (symmetry; now apply Nat.ltb_lt).
    cbn. rewrite (Nat.eqb_sym j i). destruct (i =? j); ring.
  Qed.

  (* ---------- neg ---------- *)
  Lemma col_neg (a : spmat R) j : col (sp_neg o a) j = map (fun e => (fst e, - snd e)) (col a j).
  Proof.
    unfold col, sp_neg. cbn [cols].
    change (@nil (nat * R)) with (map (fun e : nat * R => (fst e, - snd e)) []) at 1.
    apply map_nth.
  Qed.

  Lemma entry_neg (a : spmat R) i j : entry o (sp_neg o a) i j = - entry o a i j.
  Proof.
    unfold entry. rewrite col_neg. induction (col a j) as [|e r IH]; cbn; [ring|].
    rewrite IH. destruct (fst e =? i); ring.
  Qed.

  (* ---------- from_entries ---------- *)
  Fixpoint tsum (es : list (nat * nat * R)) (i j : nat) : R :=
    match es with
    | [] => 0
    | e :: r => (if (fst (fst e) =? i) && (snd (fst e) =? j) then snd e else 0) + tsum r i j
    end.

  Lemma tsum_app es1 es2 i j : tsum (es1 ++ es2) i j = tsum es1 i j + tsum es2 i j.
  Proof. induction es1 as [|e r IH]; cbn; [ring|]. rewrite IH. ring. Qed.

  Lemma centry_ins_entry i v (c : scol R) k :
    centry o (ins_entry o i v c) k = centry o c k + (if i =? k then v else 0).
  Proof.
    induction c as [|[i' v'] r IH]; cbn [ins_entry].
    - cbn. ring.
    - destruct (i <? i'); [cbn; ring|].
      destruct (Nat.eqb_spec i i') as [->|Hne]; cbn.
      + destruct (i' =? k); ring.
      + rewrite IH. ring.
  Qed.

  Lemma centry_coo_col_gen es j (c : scol R) k :
    centry o (fold_left (fun c e => if snd (fst e) =? j then ins_entry o (fst (fst e)) (snd e) c else c) es c) k
    = centry o c k + tsum es k j.
  Proof.
    revert c. induction es as [|e r IH]; intros c; cbn [fold_left tsum]; [ring|].
    rewrite IH. destruct (snd (fst e) =? j).
    - rewrite centry_ins_entry, andb_true_r. ring.
    - rewrite andb_false_r. ring.
  Qed.

  Lemma centry_coo_col es j k : centry o (coo_col o es j) k = tsum es k j.
  Proof. unfold coo_col. rewrite centry_coo_col_gen. cbn. ring. Qed.

  Lemma tsum_filter_nz es i j : tsum (filter (fun e => nzb o (snd e)) es) i j = tsum es i j.
  Proof.
    induction es as [|e r IH]; cbn; [reflexivity|].
    unfold nzb at 1. destruct (ris_zero o (snd e)) eqn:E; cbn; rewrite IH; [|reflexivity].
    apply ris_zero_true in E. rewrite E. destruct (_ && _); ring.
  Qed.

  Lemma from_entries_spec m n es a :
    from_entries o m n es = Some a ->
    nrows a = m /\ ncols a = n /\ length (cols a) = n /\
    (forall i j, j < n -> entry o a i j = tsum es i j).
  Proof.
    unfold from_entries. destruct (forallb _ _); [|discriminate]. intros H. injection H as <-.
    cbn [nrows ncols cols]. repeat split.
    - now rewrite map_length, seq_length.
    - intros i j Hj. unfold entry, col. cbn [cols]. rewrite nth_map_seq by assumption.
      now rewrite centry_coo_col, tsum_filter_nz.
  Qed.

  Lemma from_entries_some m n es :
    (forall e, In e es -> snd e <> 0 -> fst (fst e) < m /\ snd (fst e) < n) ->
    exists a, from_entries o m n es = Some a.
  Proof.
    intros H. unfold from_entries.
    destruct (forallb _ _) eqn:E; [eexists; reflexivity|].
    exfalso. apply Bool.not_true_iff_false in E. apply E. apply forallb_forall.
    intros e He. apply filter_In in He. destruct He as [He Hz].
    unfold nzb in Hz. apply negb_true_iff, ris_zero_false in Hz.
    destruct (H e He Hz) as [H1 H2]. apply andb_true_iff. split; now apply Nat.ltb_lt.
  Qed.

  (* tsum of the triplets of a matrix is its entry *)
  Lemma tsum_triplets (a : spmat R) i j : j < ncols a -> tsum (triplets a) i j = entry o a i j.
  Proof.
    intros Hj. unfold triplets, entry.
    assert (G : forall l, NoDup l ->
              tsum (flat_map (fun j0 => map (fun e => (fst e, j0, snd e)) (col a j0)) l) i j
              = if in_dec Nat.eq_dec j l then centry o (col a j) i else 0).
    { induction l as [|j0 r IH]; intros Hnd; cbn [flat_map].
      - destruct (in_dec Nat.eq_dec j []) as [[]|_]. reflexivity.
      - inversion Hnd as [|? ? Hj0 Hr]; subst. rewrite tsum_app, IH by assumption.
        assert (P : tsum (map (fun e : nat * R => (fst e, j0, snd e)) (col a j0)) i j
                    = if j0 =? j then centry o (col a j0) i else 0).
        { induction (col a j0) as [|e c IHc]; cbn; [destruct (j0 =? j); reflexivity|].
          rewrite IHc. destruct (j0 =? j), (fst e =? i); cbn; ring. }
        rewrite P. destruct (in_dec Nat.eq_dec j (j0 :: r)) as [Hin|Hnin].
        + destruct Hin as [->|Hin].
          * rewrite Nat.eqb_refl. destruct (in_dec Nat.eq_dec j r) as [Hc|_]; [contradiction|]. ring.
          * destruct (in_dec Nat.eq_dec j r) as [_|Hc]; [|contradiction].
            destruct (Nat.eqb_spec j0 j) as [->|_]; [contradiction|]. ring.
        + destruct (in_dec Nat.eq_dec j r) as [Hc|_]; [exfalso; apply Hnin; now right|].
          destruct (Nat.eqb_spec j0 j) as [->|_]; [exfalso; apply Hnin; now left|]. ring. }
    rewrite G by apply seq_NoDup.
    destruct (in_dec Nat.eq_dec j (seq 0 (ncols a))) as [_|Hn]; [reflexivity|].
    exfalso. apply Hn. apply in_seq. lia.
  Qed.
End SparseLemmas.
