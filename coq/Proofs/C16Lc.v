(* Lemmas about Model/Lc.v: the free-module structure of linear combinations.
   Main tool: [lsum h l], the sum of h(x, r) over the stored terms.  For an additive h it is a linear
   functional of the formal sum, invariant under every map primitive (accumulate, clean), which gives
   all coefficient formulas at once ([rcoeff l z] is the instance h = delta z). *)
From Coq Require Import List Bool Arith Lia Permutation Ring.
Require Import Yui.Base.Ring Yui.Model.Lc.
Import ListNotations.

Section LcProofs.
  Context {X R : Type}.
  Context (xeqb : X -> X -> bool) (o : ring_ops R).
  Context (xeqb_eq : forall x y, xeqb x y = true <-> x = y).
  Context (L : ring_laws o).

  Add Ring Rr : (ring_theory_of_laws o L).

  Notation "0" := (rzero o).
  Notation "1" := (rone o).
  Infix "+" := (radd o).
  Infix "*" := (rmul o).
  Notation "- x" := (rneg o x).
  Notation lc := (lc X R).
  Notation get := (get xeqb).
  Notation coeff := (coeff xeqb o).
  Notation upd_add := (upd_add xeqb o).
  Notation add_pair := (add_pair xeqb o).
  Notation clean := (@clean X R o).
  Notation from_iter := (from_iter xeqb o).
  Notation lsum := (@lsum X R o).
  Notation rcoeff := (rcoeff xeqb o).
  Notation delta := (delta xeqb o).
  Notation keys := (@keys X R).

  Lemma xeqb_refl x : xeqb x x = true.
  Proof. now apply xeqb_eq. Qed.
  Lemma xeqb_neq x y : x <> y -> xeqb x y = false.
  Proof. intros H. destruct (xeqb x y) eqn:E; [|reflexivity]. apply xeqb_eq in E. contradiction. Qed.
  Lemma xeqb_spec x y : reflect (x = y) (xeqb x y).
  Proof. destruct (xeqb x y) eqn:E; constructor; [now apply xeqb_eq|]. intros H. apply xeqb_eq in H. congruence. Qed.

  Lemma ris_zero_spec r : reflect (r = 0) (ris_zero o r).
  Proof. unfold ris_zero. apply reqb_spec, L. Qed.
  Lemma ris_one_spec r : reflect (r = 1) (ris_one o r).
  Proof. unfold ris_one. apply reqb_spec, L. Qed.

  (* ---------- additive functionals ---------- *)
  Definition additive (h : X -> R -> R) : Prop :=
    (forall x, h x 0 = 0) /\ (forall x r s, h x (r + s) = h x r + h x s).

  Lemma additive_neg h : additive h -> forall x r, h x (- r) = - h x r.
  Proof.
    intros [H0 Ha] x r.
    assert (E : h x r + h x (- r) = 0) by (rewrite <- Ha; replace (r + - r) with 0 by ring; apply H0).
    replace (h x (- r)) with (h x r + h x (- r) + - h x r) by ring. rewrite E. ring.
  Qed.

  Lemma delta_additive z : additive (delta z).
  Proof. split; intros; unfold delta; destruct (xeqb x z); ring. Qed.

  Lemma lsum_nil h : lsum h [] = 0.
  Proof. reflexivity. Qed.
  Lemma lsum_cons h e l : lsum h (e :: l) = h (fst e) (snd e) + lsum h l.
  Proof. reflexivity. Qed.
  Lemma lsum_app h a b : lsum h (a ++ b) = lsum h a + lsum h b.
  Proof. induction a as [|e a IH]; cbn [app]; rewrite ?lsum_nil, ?lsum_cons, ?IH; ring. Qed.
  Lemma lsum_ext h h' l : (forall x r, h x r = h' x r) -> lsum h l = lsum h' l.
  Proof. intros E. induction l as [|e l IH]; [reflexivity|]. now rewrite !lsum_cons, IH, E. Qed.
  Lemma lsum_zero l : lsum (fun _ _ => 0) l = 0.
  Proof. induction l as [|e l IH]; [reflexivity|]. rewrite lsum_cons, IH. ring. Qed.
  Lemma lsum_plus h1 h2 l : lsum (fun x r => h1 x r + h2 x r) l = lsum h1 l + lsum h2 l.
  Proof. induction l as [|e l IH]; [cbn; ring|]. rewrite !lsum_cons, IH. ring. Qed.
  Lemma lsum_scal_r h c l : lsum (fun x r => h x r * c) l = lsum h l * c.
  Proof. induction l as [|e l IH]; [cbn; ring|]. rewrite !lsum_cons, IH. ring. Qed.
  Lemma lsum_scal_l h c l : lsum (fun x r => c * h x r) l = c * lsum h l.
  Proof. induction l as [|e l IH]; [cbn; ring|]. rewrite !lsum_cons, IH. ring. Qed.
  Lemma lsum_opp h l : lsum (fun x r => - h x r) l = - lsum h l.
  Proof. induction l as [|e l IH]; [cbn; ring|]. rewrite !lsum_cons, IH. ring. Qed.

  (* Fubini for two term lists *)
  Lemma lsum_swap (g : X -> R -> X -> R -> R) (a b : lc) :
    lsum (fun x r => lsum (fun y s => g x r y s) b) a = lsum (fun y s => lsum (fun x r => g x r y s) a) b.
  Proof.
    induction a as [|e a IH].
    - cbn [Lc.lsum map rsum]. symmetry. apply lsum_zero.
    - rewrite lsum_cons, IH. rewrite <- lsum_plus. apply lsum_ext. intros y s. now rewrite lsum_cons.
  Qed.

  Lemma lsum_perm h a b : Permutation a b -> lsum h a = lsum h b.
  Proof.
    induction 1 as [|e a b _ IH|e e' a|a b c _ IH1 _ IH2].
    - reflexivity.
    - now rewrite !lsum_cons, IH.
    - rewrite !lsum_cons. ring.
    - congruence.
  Qed.

  (* ---------- the map primitives are invisible to additive functionals ---------- *)
  Lemma lsum_upd_add h l x r : additive h -> lsum h (upd_add l x r) = lsum h l + h x r.
  Proof.
    intros [H0 Ha]. induction l as [|[y s] l IH]; cbn [Lc.upd_add].
    - rewrite !lsum_cons, lsum_nil. cbn [fst snd]. ring.
    - destruct (xeqb_spec y x) as [->|N].
      + rewrite !lsum_cons. cbn [fst snd]. rewrite Ha. ring.
      + rewrite !lsum_cons, IH. ring.
  Qed.

  Lemma lsum_add_pair h l e : additive h -> lsum h (add_pair l e) = lsum h l + h (fst e) (snd e).
  Proof.
    intros A. unfold Lc.add_pair. destruct (ris_zero_spec (snd e)) as [E|N].
    - rewrite E. destruct A as [H0 _]. rewrite H0. ring.
    - now apply lsum_upd_add.
  Qed.

  Lemma lsum_clean h l : (forall x, h x 0 = 0) -> lsum h (clean l) = lsum h l.
  Proof.
    intros H0. induction l as [|e l IH]; [reflexivity|]. cbn [Lc.clean filter].
    destruct (ris_zero_spec (snd e)) as [E|N]; cbn [negb].
    - fold (clean l). rewrite lsum_cons, IH, E, H0. ring.
    - fold (clean l). now rewrite !lsum_cons, IH.
  Qed.

  Lemma lsum_fold_add_pair h it l : additive h ->
    lsum h (fold_left add_pair it l) = lsum h l + lsum h it.
  Proof.
    intros A. revert l. induction it as [|e it IH]; intros l; cbn [fold_left].
    - rewrite lsum_nil. ring.
    - rewrite IH, lsum_add_pair, lsum_cons by assumption. ring.
  Qed.

  Lemma lsum_fold_gen {T} (F : T -> X * R) h (it : list T) l : additive h ->
    lsum h (fold_left (fun acc t => add_pair acc (F t)) it l) = lsum h l + lsum h (map F it).
  Proof.
    intros A. revert l. induction it as [|e it IH]; intros l; cbn [fold_left map].
    - rewrite lsum_nil. ring.
    - rewrite IH, lsum_add_pair, lsum_cons by assumption. ring.
  Qed.

  Lemma lsum_map_terms h (F : X * R -> X * R) l :
    lsum h (map F l) = lsum (fun x r => h (fst (F (x, r))) (snd (F (x, r)))) l.
  Proof. induction l as [|[x r] l IH]; [reflexivity|]. cbn [map]. now rewrite !lsum_cons, IH. Qed.

  Theorem lsum_from_iter h it : additive h -> lsum h (from_iter it) = lsum h it.
  Proof.
    intros A. unfold Lc.from_iter. rewrite lsum_clean by apply A.
    rewrite lsum_fold_add_pair, lsum_nil by assumption. ring.
  Qed.

  Theorem lsum_add h a b : additive h -> lsum h (add xeqb o a b) = lsum h a + lsum h b.
  Proof. intros A. unfold add. rewrite lsum_clean by apply A. now apply lsum_fold_add_pair. Qed.

  Theorem lsum_sub h a b : additive h -> lsum h (sub xeqb o a b) = lsum h a + - lsum h b.
  Proof.
    intros A. unfold sub. rewrite lsum_clean by apply A.
    rewrite (lsum_fold_gen (fun e => (fst e, - snd e))) by assumption.
    rewrite lsum_map_terms. cbn [fst snd]. f_equal.
    rewrite <- lsum_opp. apply lsum_ext. intros. now apply additive_neg.
  Qed.

  Theorem lsum_neg h a : additive h -> lsum h (neg xeqb o a) = - lsum h a.
  Proof.
    intros A. unfold neg, map_coeffs. rewrite lsum_from_iter by assumption.
    rewrite lsum_map_terms. cbn [fst snd]. rewrite <- lsum_opp. apply lsum_ext. intros. now apply additive_neg.
  Qed.

  Theorem lsum_smul h a c : additive h -> lsum h (smul o a c) = lsum (fun x r => h x (r * c)) a.
  Proof.
    intros A. unfold smul. destruct (ris_one_spec c) as [->|N].
    - apply lsum_ext. intros. f_equal. ring.
    - rewrite lsum_clean by apply A. now rewrite lsum_map_terms.
  Qed.

  Lemma lsum_fold_inner h (f : X -> X -> X) (e1 : X * R) b l : additive h ->
    lsum h (fold_left (fun acc2 e2 => add_pair acc2 (f (fst e1) (fst e2), snd e1 * snd e2)) b l)
    = lsum h l + lsum (fun y s => h (f (fst e1) y) (snd e1 * s)) b.
  Proof.
    intros A. rewrite (lsum_fold_gen (fun e2 => (f (fst e1) (fst e2), snd e1 * snd e2))) by assumption.
    now rewrite lsum_map_terms.
  Qed.

  Theorem lsum_combine h f a b : additive h ->
    lsum h (lc_combine xeqb o f a b) = lsum (fun x r => lsum (fun y s => h (f x y) (r * s)) b) a.
  Proof.
    intros A. unfold lc_combine. rewrite lsum_clean by apply A.
    assert (G : forall l, lsum h (fold_left (fun acc e1 =>
                 fold_left (fun acc2 e2 => add_pair acc2 (f (fst e1) (fst e2), snd e1 * snd e2)) b acc) a l)
              = lsum h l + lsum (fun x r => lsum (fun y s => h (f x y) (r * s)) b) a).
    { induction a as [|e1 a IH]; intros l; cbn [fold_left].
      - rewrite lsum_nil. ring.
      - rewrite IH, lsum_fold_inner, lsum_cons by assumption. ring. }
    rewrite G, lsum_nil. ring.
  Qed.

  Theorem lsum_raw_mul h f a b :
    lsum h (raw_mul o f a b) = lsum (fun x r => lsum (fun y s => h (f x y) (r * s)) b) a.
  Proof.
    unfold raw_mul. induction a as [|e1 a IH]; [reflexivity|].
    cbn [flat_map]. rewrite lsum_app, IH, lsum_cons. f_equal.
    now rewrite lsum_map_terms.
  Qed.

  Theorem lsum_filter_gens h p a : additive h ->
    lsum h (filter_gens xeqb o p a) = lsum (fun x r => if p x then h x r else 0) a.
  Proof.
    intros A. unfold filter_gens. rewrite lsum_from_iter by assumption.
    induction a as [|e a IH]; [reflexivity|]. cbn [filter]. rewrite lsum_cons.
    destruct (p (fst e)); rewrite ?lsum_cons, IH; ring.
  Qed.

  Theorem lsum_map_gens h f a : additive h ->
    lsum h (map_gens xeqb o f a) = lsum (fun x r => h (f x) r) a.
  Proof. intros A. unfold map_gens. rewrite lsum_from_iter by assumption. now rewrite lsum_map_terms. Qed.

  Lemma lsum_flat_map h (F : X * R -> lc) a :
    lsum h (flat_map F a) = lsum (fun x r => lsum h (F (x, r))) a.
  Proof.
    induction a as [|[x r] a IH]; [reflexivity|]. cbn [flat_map]. now rewrite lsum_app, IH, lsum_cons.
  Qed.

  Theorem lsum_apply h f a : additive h ->
    lsum h (apply xeqb o f a) = lsum (fun x r => lsum (fun y s => h y (r * s)) (f x)) a.
  Proof.
    intros A. unfold apply. rewrite lsum_from_iter by assumption. rewrite lsum_flat_map.
    apply lsum_ext. intros x r. cbn [fst snd]. now rewrite lsum_map_terms.
  Qed.

  (* ---------- the representation invariant ---------- *)
  Definition NoZero (l : lc) : Prop := NoDup (keys l) /\ Forall (fun e => snd e <> 0) l.

  Lemma keys_upd_add l x r : keys (upd_add l x r) = if existsb (fun y => xeqb y x) (keys l) then keys l else keys l ++ [x].
  Proof.
    induction l as [|[y s] l IH]; [reflexivity|]. cbn [Lc.upd_add Lc.keys map existsb fst].
    destruct (xeqb y x) eqn:E; cbn [orb]; [reflexivity|].
    cbn [map fst]. fold (keys (upd_add l x r)). rewrite IH. fold (keys l).
    now destruct (existsb (fun y0 => xeqb y0 x) (keys l)).
  Qed.

  Lemma existsb_keys_false l x : existsb (fun y => xeqb y x) l = false -> ~ In x l.
  Proof.
    intros H I. assert (existsb (fun y => xeqb y x) l = true); [|congruence].
    apply existsb_exists. exists x. split; [assumption|apply xeqb_refl].
  Qed.

  Lemma NoDup_upd_add l x r : NoDup (keys l) -> NoDup (keys (upd_add l x r)).
  Proof.
    intros H. rewrite keys_upd_add. destruct (existsb (fun y => xeqb y x) (keys l)) eqn:E; [assumption|].
    apply existsb_keys_false in E.
    apply NoDup_rev in H. rewrite <- (rev_involutive (keys l ++ [x])). apply NoDup_rev.
    rewrite rev_app_distr. cbn. constructor; [|assumption]. now rewrite <- in_rev.
  Qed.

  Lemma NoDup_add_pair l e : NoDup (keys l) -> NoDup (keys (add_pair l e)).
  Proof. intros H. unfold Lc.add_pair. destruct (ris_zero o (snd e)); [assumption|now apply NoDup_upd_add]. Qed.

  Lemma NoDup_fold_gen {T} (F : T -> X * R) (it : list T) l :
    NoDup (keys l) -> NoDup (keys (fold_left (fun acc t => add_pair acc (F t)) it l)).
  Proof. revert l. induction it as [|e it IH]; intros l H; cbn [fold_left]; [assumption|]. apply IH. now apply NoDup_add_pair. Qed.

  Lemma NoDup_fold_add_pair it l : NoDup (keys l) -> NoDup (keys (fold_left add_pair it l)).
  Proof. revert l. induction it as [|e it IH]; intros l H; cbn [fold_left]; [assumption|]. apply IH. now apply NoDup_add_pair. Qed.

  Lemma keys_clean_incl l : forall x, In x (keys (clean l)) -> In x (keys l).
  Proof.
    intros x H. unfold Lc.keys in *. apply in_map_iff in H as [e [E I]]. apply filter_In in I as [I _].
    apply in_map_iff. now exists e.
  Qed.

  Lemma NoDup_keys_filter (p : X * R -> bool) l : NoDup (keys l) -> NoDup (keys (filter p l)).
  Proof.
    induction l as [|e l IH]; intros H; [constructor|]. cbn [filter]. inversion H as [|? ? Hn Hd]; subst.
    destruct (p e); [|now apply IH]. cbn [Lc.keys map]. constructor; [|now apply IH].
    intros I. apply Hn. unfold Lc.keys in I. apply in_map_iff in I as [e' [E I]]. apply filter_In in I as [I _].
    apply in_map_iff. now exists e'.
  Qed.

  Lemma NoZero_clean l : NoDup (keys l) -> NoZero (clean l).
  Proof.
    intros H. split; [now apply NoDup_keys_filter|].
    apply Forall_forall. intros e I. apply filter_In in I as [_ I].
    destruct (ris_zero_spec (snd e)); [discriminate|assumption].
  Qed.

  Lemma NoZero_nil : NoZero [].
  Proof. split; constructor. Qed.

  Theorem NoZero_from_iter it : NoZero (from_iter it).
  Proof. apply NoZero_clean, NoDup_fold_add_pair. constructor. Qed.
  Theorem NoZero_add a b : NoZero a -> NoZero (add xeqb o a b).
  Proof. intros [H _]. now apply NoZero_clean, NoDup_fold_add_pair. Qed.
  Theorem NoZero_sub a b : NoZero a -> NoZero (sub xeqb o a b).
  Proof. intros [H _]. apply NoZero_clean. now apply (NoDup_fold_gen (fun e => (fst e, - snd e))). Qed.
  Theorem NoZero_neg a : NoZero (neg xeqb o a).
  Proof. apply NoZero_from_iter. Qed.
  Lemma keys_map_snd (F : X -> R -> R) (a : lc) : keys (map (fun e => (fst e, F (fst e) (snd e))) a) = keys a.
  Proof. unfold Lc.keys. rewrite map_map. now apply map_ext. Qed.
  Theorem NoZero_smul a c : NoZero a -> NoZero (smul o a c).
  Proof.
    intros H. unfold smul. destruct (ris_one o c); [assumption|]. apply NoZero_clean.
    rewrite (keys_map_snd (fun _ r => r * c)). apply H.
  Qed.
  Theorem NoZero_combine f a b : NoZero (lc_combine xeqb o f a b).
  Proof.
    apply NoZero_clean.
    assert (G : forall l, NoDup (keys l) -> NoDup (keys (fold_left (fun acc e1 =>
                 fold_left (fun acc2 e2 => add_pair acc2 (f (fst e1) (fst e2), snd e1 * snd e2)) b acc) a l))).
    { induction a as [|e1 a IH]; intros l H; cbn [fold_left]; [assumption|]. apply IH.
      now apply (NoDup_fold_gen (fun e2 => (f (fst e1) (fst e2), snd e1 * snd e2))). }
    apply G. constructor.
  Qed.
  Theorem NoZero_filter_gens p a : NoZero (filter_gens xeqb o p a).
  Proof. apply NoZero_from_iter. Qed.
  Theorem NoZero_map_gens f a : NoZero (map_gens xeqb o f a).
  Proof. apply NoZero_from_iter. Qed.
  Theorem NoZero_apply f a : NoZero (apply xeqb o f a).
  Proof. apply NoZero_from_iter. Qed.

  (* ---------- coeff (hash-map lookup) = coefficient of the formal sum ---------- *)
  Lemma get_none l x : ~ In x (keys l) -> get l x = None.
  Proof.
    induction l as [|[y s] l IH]; intros H; [reflexivity|]. cbn [Lc.get].
    destruct (xeqb_spec y x) as [->|N]; [exfalso; apply H; now left|]. apply IH. intros I. apply H. now right.
  Qed.

  Lemma rcoeff_notin l z : ~ In z (keys l) -> rcoeff l z = 0.
  Proof.
    induction l as [|[y s] l IH]; intros H; [reflexivity|]. unfold Lc.rcoeff in *. rewrite lsum_cons. cbn [fst snd].
    unfold Lc.delta at 1. destruct (xeqb_spec y z) as [->|N]; [exfalso; apply H; now left|].
    rewrite IH; [ring|]. intros I. apply H. now right.
  Qed.

  Theorem coeff_rcoeff l z : NoDup (keys l) -> coeff l z = rcoeff l z.
  Proof.
    induction l as [|[y s] l IH]; intros H; [reflexivity|]. inversion H as [|? ? Hn Hd]; subst.
    unfold Lc.coeff, Lc.rcoeff in *. cbn [Lc.get]. rewrite lsum_cons. cbn [fst snd]. unfold Lc.delta at 1.
    destruct (xeqb_spec y z) as [->|N].
    - fold (rcoeff l z). rewrite rcoeff_notin by assumption. ring.
    - rewrite IH by assumption. ring.
  Qed.

  Lemma get_in l x r : NoDup (keys l) -> (get l x = Some r <-> In (x, r) l).
  Proof.
    induction l as [|[y s] l IH]; intros H; cbn [Lc.get]; [split; [discriminate|intros []]|].
    inversion H as [|? ? Hn Hd]; subst. destruct (xeqb_spec y x) as [->|N].
    - split; [intros [= ->]; now left|]. intros [[= ->]|I]; [reflexivity|].
      exfalso. apply Hn. unfold Lc.keys. apply in_map_iff. now exists (x, r).
    - rewrite IH by assumption. split; [now right|]. intros [[= -> ->]|I]; [congruence|assumption].
  Qed.

  Lemma coeff_in l x r : NoDup (keys l) -> In (x, r) l -> coeff l x = r.
  Proof. intros H I. unfold Lc.coeff. apply get_in in I; [|assumption]. now rewrite I. Qed.

  Lemma coeff_notin l x : ~ In x (keys l) -> coeff l x = 0.
  Proof. intros H. unfold Lc.coeff. now rewrite get_none. Qed.

  (* support = key set *)
  Theorem support_keys l : NoZero l -> forall x, In x (keys l) <-> coeff l x <> 0.
  Proof.
    intros [Hd Hz] x. split.
    - intros I. unfold Lc.keys in I. apply in_map_iff in I as [[y r] [E I]]. cbn in E. subst y.
      rewrite (coeff_in _ _ _ Hd I). rewrite Forall_forall in Hz. apply (Hz _ I).
    - intros Hc. destruct (in_dec (fun a b => match xeqb_spec a b with ReflectT _ e => left e | ReflectF _ n => right n end)
                                  x (keys l)) as [I|N]; [assumption|].
      exfalso. apply Hc. now apply coeff_notin.
  Qed.

  Theorem is_zero_iff l : NoZero l -> (is_zero l = true <-> forall x, coeff l x = 0).
  Proof.
    intros H. split.
    - destruct l; [|discriminate]. intros _ x. reflexivity.
    - intros Hc. destruct l as [|[x r] l]; [reflexivity|]. exfalso.
      apply (proj1 (support_keys _ H x)); [now left|apply Hc].
  Qed.

  (* the stored terms are exactly the pairs (x, coeff x) with a non-zero coefficient *)
  Lemma in_terms_iff l x r : NoZero l -> (In (x, r) l <-> coeff l x = r /\ r <> 0).
  Proof.
    intros [Hd Hz]. split.
    - intros I. split; [now apply coeff_in|]. rewrite Forall_forall in Hz. apply (Hz _ I).
    - intros [E N]. unfold Lc.coeff in E. destruct (get l x) as [s|] eqn:G; [|congruence].
      subst s. now apply get_in in G.
  Qed.

  Lemma NoDup_terms l : NoDup (keys l) -> NoDup l.
  Proof. unfold Lc.keys. apply NoDup_map_inv. Qed.

  (* canonical up to the iteration order *)
  Theorem NoZero_perm a b : NoZero a -> NoZero b -> (forall x, coeff a x = coeff b x) -> Permutation a b.
  Proof.
    intros Ha Hb E. apply NoDup_Permutation; [apply NoDup_terms, Ha|apply NoDup_terms, Hb|].
    intros [x r]. rewrite !in_terms_iff by assumption. now rewrite E.
  Qed.

  Theorem lsum_coeff_ext h a b : NoZero a -> NoZero b -> (forall x, coeff a x = coeff b x) -> lsum h a = lsum h b.
  Proof. intros Ha Hb E. apply lsum_perm. now apply NoZero_perm. Qed.

  Theorem nterms_support a s : NoZero a -> NoDup s -> (forall x, In x s <-> coeff a x <> 0) -> nterms a = length s.
  Proof.
    intros Ha Hs E. unfold nterms. rewrite <- (map_length fst a). apply Permutation_length.
    apply NoDup_Permutation; [apply Ha|assumption|]. intros x. fold (keys a). rewrite (support_keys a Ha x). symmetry. apply E.
  Qed.

  (* ---------- equality of hash maps = equality of coefficient functions ---------- *)
  Theorem lc_eqb_iff a b : NoZero a -> NoZero b -> (lc_eqb xeqb o a b = true <-> forall x, coeff a x = coeff b x).
  Proof.
    intros Ha Hb. unfold lc_eqb. rewrite andb_true_iff, Nat.eqb_eq, forallb_forall. split.
    - intros [El Hall].
      assert (Hin : forall x r, In (x, r) a -> In (x, r) b).
      { intros x r I. specialize (Hall _ I). cbn [fst snd] in Hall. destruct (get b x) as [s|] eqn:G; [|discriminate].
        apply (reqb_eq o L) in Hall. subst s. apply get_in in G; [assumption|apply Hb]. }
      assert (Hk : incl (keys b) (keys a)).
      { apply NoDup_length_incl; [apply Ha|unfold Lc.keys; rewrite !map_length; lia|].
        intros x I. unfold Lc.keys in *. apply in_map_iff in I as [[y r] [E I]]. cbn in E. subst y.
        apply in_map_iff. exists (x, r). split; [reflexivity|now apply Hin]. }
      intros x. destruct (in_dec (fun p q => match xeqb_spec p q with ReflectT _ e => left e | ReflectF _ n => right n end)
                                 x (keys a)) as [I|N].
      + unfold Lc.keys in I. apply in_map_iff in I as [[y r] [E I]]. cbn in E. subst y.
        rewrite (coeff_in a x r) by (try apply Ha; assumption). symmetry. apply coeff_in; [apply Hb|now apply Hin].
      + rewrite coeff_notin by assumption. symmetry. apply coeff_notin. intros I. apply N. now apply Hk.
    - intros E. pose proof (NoZero_perm a b Ha Hb E) as P. split; [now apply Permutation_length|].
      intros [x r] I. cbn [fst snd]. apply (Permutation_in _ P) in I. apply get_in in I; [|apply Hb].
      rewrite I. apply reqb_refl, L.
  Qed.

  (* ---------- coefficientwise semantics of the operations ---------- *)
  Theorem coeff_from_iter it z : coeff (from_iter it) z = rcoeff it z.
  Proof. rewrite coeff_rcoeff by apply NoZero_from_iter. apply lsum_from_iter, delta_additive. Qed.

  Theorem coeff_add a b z : NoZero a -> NoZero b -> coeff (add xeqb o a b) z = coeff a z + coeff b z.
  Proof.
    intros Ha Hb. rewrite !coeff_rcoeff by (try apply NoZero_add; try apply Ha; try apply Hb; assumption).
    apply lsum_add, delta_additive.
  Qed.

  Theorem coeff_sub a b z : NoZero a -> NoZero b -> coeff (sub xeqb o a b) z = coeff a z + - coeff b z.
  Proof.
    intros Ha Hb. rewrite !coeff_rcoeff by (try apply NoZero_sub; try apply Ha; try apply Hb; assumption).
    apply lsum_sub, delta_additive.
  Qed.

  Theorem coeff_neg a z : NoZero a -> coeff (neg xeqb o a) z = - coeff a z.
  Proof.
    intros Ha. rewrite !coeff_rcoeff by (try apply NoZero_neg; apply Ha). apply lsum_neg, delta_additive.
  Qed.

  Lemma delta_scal z x r c : delta z x (r * c) = delta z x r * c.
  Proof. unfold Lc.delta. destruct (xeqb x z); ring. Qed.

  Theorem coeff_smul a c z : NoZero a -> coeff (smul o a c) z = coeff a z * c.
  Proof.
    intros Ha. rewrite !coeff_rcoeff by (try apply NoZero_smul; try apply Ha; assumption).
    unfold Lc.rcoeff. rewrite lsum_smul by apply delta_additive. rewrite <- lsum_scal_r.
    apply lsum_ext. intros. apply delta_scal.
  Qed.

  (* the product: coefficient of z = sum over the stored terms x of a and y of b with f x y = z *)
  Theorem coeff_combine_terms f a b z :
    coeff (lc_combine xeqb o f a b) z = lsum (fun x r => lsum (fun y s => delta z (f x y) (r * s)) b) a.
  Proof. rewrite coeff_rcoeff by apply NoZero_combine. apply lsum_combine, delta_additive. Qed.

  Lemma lsum_keys (g : X -> R -> R) l : NoDup (keys l) ->
    lsum g l = rsum o (map (fun x => g x (coeff l x)) (keys l)).
  Proof.
    intros H. unfold Lc.lsum, Lc.keys. rewrite map_map. f_equal. apply map_ext_in. intros [x r] I. cbn [fst snd].
    now rewrite (coeff_in l x r H I).
  Qed.

  (* ... stated over the finite supports *)
  Theorem coeff_combine f a b z : NoZero a -> NoZero b ->
    coeff (lc_combine xeqb o f a b) z =
    rsum o (map (fun x => rsum o (map (fun y => if xeqb (f x y) z then coeff a x * coeff b y else 0) (keys b))) (keys a)).
  Proof.
    intros Ha Hb. rewrite coeff_combine_terms. rewrite lsum_keys by apply Ha. f_equal. apply map_ext. intros x.
    rewrite lsum_keys by apply Hb. reflexivity.
  Qed.

  Theorem coeff_filter_gens p a z : NoZero a -> coeff (filter_gens xeqb o p a) z = if p z then coeff a z else 0.
  Proof.
    intros Ha. rewrite !coeff_rcoeff by (try apply NoZero_filter_gens; apply Ha).
    unfold Lc.rcoeff. rewrite lsum_filter_gens by apply delta_additive.
    destruct (p z) eqn:Pz.
    - apply lsum_ext. intros x r. unfold Lc.delta. destruct (xeqb_spec x z) as [->|N]; [now rewrite Pz|now destruct (p x)].
    - transitivity (lsum (fun _ _ => 0) a); [|apply lsum_zero]. apply lsum_ext. intros x r. unfold Lc.delta.
      destruct (xeqb_spec x z) as [->|N]; [now rewrite Pz|now destruct (p x)].
  Qed.

  Theorem coeff_map_gens f a z : coeff (map_gens xeqb o f a) z = lsum (fun x r => delta z (f x) r) a.
  Proof. rewrite coeff_rcoeff by apply NoZero_map_gens. apply lsum_map_gens, delta_additive. Qed.

  Theorem coeff_apply f a z :
    coeff (apply xeqb o f a) z = lsum (fun x r => lsum (fun y s => delta z y (r * s)) (f x)) a.
  Proof. rewrite coeff_rcoeff by apply NoZero_apply. apply lsum_apply, delta_additive. Qed.

  (* a formal sum and its normal form have the same coefficients *)
  Theorem rcoeff_from_iter it z : rcoeff (from_iter it) z = rcoeff it z.
  Proof. apply lsum_from_iter, delta_additive. Qed.

  (* linear functionals only see the coefficient function (raw sums included) *)
  Theorem lsum_rcoeff_ext h a b : additive h -> (forall x, rcoeff a x = rcoeff b x) -> lsum h a = lsum h b.
  Proof.
    intros A E. rewrite <- (lsum_from_iter h a A), <- (lsum_from_iter h b A).
    apply lsum_coeff_ext; try apply NoZero_from_iter. intros x. now rewrite !coeff_from_iter.
  Qed.

  (* ---------- which keys can occur ---------- *)
  Lemma lsum_ext_in h h' l : (forall e, In e l -> h (fst e) (snd e) = h' (fst e) (snd e)) -> lsum h l = lsum h' l.
  Proof.
    intros E. induction l as [|e l IH]; [reflexivity|]. rewrite !lsum_cons, IH, E; [reflexivity|now left|].
    intros e' I. apply E. now right.
  Qed.

  Lemma lsum_ext_keys h h' l : (forall x r, In x (keys l) -> h x r = h' x r) -> lsum h l = lsum h' l.
  Proof.
    intros E. apply lsum_ext_in. intros e I. apply E. unfold Lc.keys. apply in_map_iff. now exists e.
  Qed.

  Lemma keys_add_pair_incl l e x : In x (keys (add_pair l e)) -> In x (keys l) \/ x = fst e.
  Proof.
    unfold Lc.add_pair. destruct (ris_zero o (snd e)); [now left|]. rewrite keys_upd_add.
    destruct (existsb (fun y => xeqb y (fst e)) (keys l)); [now left|]. intros I. apply in_app_or in I as [I|[<-|[]]]; auto.
  Qed.

  Lemma keys_fold_gen_incl {T} (F : T -> X * R) (it : list T) l x :
    In x (keys (fold_left (fun acc t => add_pair acc (F t)) it l)) -> In x (keys l) \/ In x (map (fun t => fst (F t)) it).
  Proof.
    revert l. induction it as [|t it IH]; intros l; cbn [fold_left map]; [now left|]. intros I.
    apply IH in I as [I|I]; [|right; now right]. apply keys_add_pair_incl in I as [I| ->]; [now left|right; now left].
  Qed.

  Definition KeysOk (P : X -> Prop) (l : lc) : Prop := Forall P (keys l).

  Lemma KeysOk_clean P l : KeysOk P l -> KeysOk P (clean l).
  Proof. unfold KeysOk. rewrite !Forall_forall. intros H x I. apply H. now apply keys_clean_incl. Qed.

  Lemma KeysOk_fold_gen {T} P (F : T -> X * R) (it : list T) l :
    KeysOk P l -> Forall (fun t => P (fst (F t))) it -> KeysOk P (fold_left (fun acc t => add_pair acc (F t)) it l).
  Proof.
    unfold KeysOk. rewrite !Forall_forall. intros Hl Hit x I. apply keys_fold_gen_incl in I as [I|I]; [now apply Hl|].
    apply in_map_iff in I as [t [<- I]]. now apply Hit.
  Qed.

  Lemma KeysOk_nil P : KeysOk P [].
  Proof. constructor. Qed.

  Theorem KeysOk_from_iter P it : Forall P (map fst it) -> KeysOk P (from_iter it).
  Proof.
    intros H. apply KeysOk_clean. apply (KeysOk_fold_gen P (fun e => e)); [apply KeysOk_nil|].
    rewrite Forall_map in H. exact H.
  Qed.
  Theorem KeysOk_add P a b : KeysOk P a -> KeysOk P b -> KeysOk P (add xeqb o a b).
  Proof.
    intros Ha Hb. apply KeysOk_clean. apply (KeysOk_fold_gen P (fun e => e)); [assumption|].
    unfold KeysOk, Lc.keys in Hb. rewrite Forall_map in Hb. exact Hb.
  Qed.
  Theorem KeysOk_sub P a b : KeysOk P a -> KeysOk P b -> KeysOk P (sub xeqb o a b).
  Proof.
    intros Ha Hb. apply KeysOk_clean. apply (KeysOk_fold_gen P (fun e => (fst e, - snd e))); [assumption|].
    unfold KeysOk, Lc.keys in Hb. rewrite Forall_map in Hb. exact Hb.
  Qed.
  Theorem KeysOk_neg P a : KeysOk P a -> KeysOk P (neg xeqb o a).
  Proof.
    intros Ha. apply KeysOk_from_iter. rewrite map_map. cbn [fst]. exact Ha.
  Qed.
  Theorem KeysOk_smul P a c : KeysOk P a -> KeysOk P (smul o a c).
  Proof.
    intros Ha. unfold smul. destruct (ris_one o c); [assumption|]. apply KeysOk_clean.
    unfold KeysOk. rewrite (keys_map_snd (fun _ r => r * c)). exact Ha.
  Qed.
  Theorem KeysOk_combine (P : X -> Prop) f a b : (forall x y, P x -> P y -> P (f x y)) -> KeysOk P a -> KeysOk P b ->
    KeysOk P (lc_combine xeqb o f a b).
  Proof.
    intros Hf Ha Hb. apply KeysOk_clean.
    assert (G : forall l, KeysOk P l -> KeysOk P (fold_left (fun acc e1 =>
                 fold_left (fun acc2 e2 => add_pair acc2 (f (fst e1) (fst e2), snd e1 * snd e2)) b acc) a l)).
    { unfold KeysOk, Lc.keys in Ha. rewrite Forall_map in Ha.
      induction a as [|e1 a IH]; intros l Hl; cbn [fold_left]; [assumption|]. inversion Ha; subst. apply IH; [assumption|].
      apply (KeysOk_fold_gen P (fun e2 => (f (fst e1) (fst e2), snd e1 * snd e2))); [assumption|].
      unfold KeysOk, Lc.keys in Hb. rewrite Forall_map in Hb. cbn [fst]. revert Hb. apply Forall_impl. intros e2. now apply Hf. }
    apply G, KeysOk_nil.
  Qed.
  Theorem KeysOk_filter_gens P p a : KeysOk P a -> KeysOk P (filter_gens xeqb o p a).
  Proof.
    intros Ha. apply KeysOk_from_iter. unfold KeysOk, Lc.keys in Ha. rewrite Forall_map in *.
    rewrite Forall_forall in *. intros e I. apply filter_In in I as [I _]. now apply Ha.
  Qed.
  Theorem KeysOk_map_gens (P : X -> Prop) f a : (forall x, P x -> P (f x)) -> KeysOk P a -> KeysOk P (map_gens xeqb o f a).
  Proof.
    intros Hf Ha. apply KeysOk_from_iter. rewrite map_map. cbn [fst]. unfold KeysOk, Lc.keys in Ha.
    rewrite Forall_map in *. revert Ha. apply Forall_impl. intros e. apply Hf.
  Qed.
  Theorem KeysOk_apply (P : X -> Prop) f a : (forall x, P x -> KeysOk P (f x)) -> KeysOk P a -> KeysOk P (apply xeqb o f a).
  Proof.
    intros Hf Ha. apply KeysOk_from_iter. rewrite Forall_forall. intros x I. apply in_map_iff in I as [e' [<- I]].
    apply in_flat_map in I as [e [Ie I]]. apply in_map_iff in I as [e2 [<- I2]]. cbn [fst].
    unfold KeysOk, Lc.keys in Ha. rewrite Forall_map, Forall_forall in Ha. specialize (Hf _ (Ha _ Ie)).
    unfold KeysOk, Lc.keys in Hf. rewrite Forall_map, Forall_forall in Hf. now apply Hf.
  Qed.
End LcProofs.
