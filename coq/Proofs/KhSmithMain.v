(* Soundness of the sparse Smith diagonalisation of Model/KhHomology.v, part 4: the loop.
   Invariant of [smith_loop] (working rows W, accumulator acc, ghost list pl of (pivot column, factor)):
     original  ~  [ W ; one row  d * e_c  per finished pivot (c, d) ]        ([equiv], KhSmithMat.v)
     every finished pivot column is zero in W, the pivot columns are pairwise different,
     every finished factor divides every entry of W, and each factor divides the later ones.
   Main theorem [smith_diag_sound]: whenever [smith_diag] answers [Some ds] on well-formed rows, ds is a
   Smith form of the dense matrix: positive entries, d_k | d_(k+1), and P A Q = diag(ds) with P, Q
   invertible over Z.  (Termination / sufficiency of the fuel is not claimed.) *)
From Coq Require Import List Arith Bool ZArith Lia.
Require Import Yui.Base.Ring Yui.Base.MatF Yui.Proofs.C07Algebra.
Require Import Yui.Model.KhCube Yui.Model.KhHomology.
Require Import Yui.Proofs.KhSmithRows Yui.Proofs.KhSmithMat Yui.Proofs.KhSmithSteps.
Import ListNotations.
Open Scope Z_scope.

(* ---------- the statement ---------- *)
Definition diagZ (ds : list Z) : zmat :=
  fun i j => if (i =? j)%nat && (i <? length ds)%nat then nth i ds 0 else 0.

Definition SmithOf (m n : nat) (A : zmat) (ds : list Z) : Prop :=
  (forall d, In d ds -> 0 < d) /\
  (forall t, (S t < length ds)%nat -> (nth t ds 0 | nth (S t) ds 0)) /\
  (length ds <= Nat.min m n)%nat /\
  equiv m n A (diagZ ds).

(* ---------- the invariant ---------- *)
(* newest factor first: every older factor divides it *)
Fixpoint chain_rev (acc : list Z) : Prop :=
  match acc with
  | [] => True
  | d :: rest => (forall e, In e rest -> (e | d)) /\ chain_rev rest
  end.

Record Inv (m0 n : nat) (A : zmat) (W : list row) (acc : list Z) (pl : list (nat * Z)) : Prop := mk_Inv {
  inv_acc : map snd pl = acc;
  inv_len : (length W + length pl = m0)%nat;
  inv_wf : rows_wf n W;
  inv_eq : equiv m0 n A (full W pl);
  inv_piv : forall c d, In (c, d) pl -> (c < n)%nat /\ 0 < d;
  inv_zero : forall c d, In (c, d) pl -> forall x, dense W x c = 0;
  inv_nodup : NoDup (map fst pl);
  inv_div : forall d, In d acc -> forall x c, (d | dense W x c);
  inv_chain : chain_rev acc;
}.

Lemma Inv_init n rows : rows_wf n rows -> Inv (length rows) n (dense rows) rows [] [].
Proof.
  intros H. constructor.
  1: reflexivity. 1: cbn [length]; lia. 1: exact H.
  2, 3: intros c d []. 2: constructor. 2: intros d []. 2: exact I.
  - apply equiv_of_meq. intros x c Hx Hc. unfold full, fullD.
    destruct (Nat.ltb_spec x (length rows)); [reflexivity|lia].
Qed.

(* replacing the working rows, same finished pivots *)
Lemma Inv_step m0 n A W W' acc pl :
  Inv m0 n A W acc pl -> length W' = length W -> rows_wf n W' ->
  equiv m0 n (full W pl) (full W' pl) ->
  (forall c, (forall x, dense W x c = 0) -> forall x, dense W' x c = 0) ->
  (forall d, (forall x c, (d | dense W x c)) -> forall x c, (d | dense W' x c)) ->
  Inv m0 n A W' acc pl.
Proof.
  intros I Hlen Hwf Heq Hz Hd. destruct I as [I1 I2 I3 I4 I5 I6 I7 I8 I9].
  constructor; try assumption.
  - now rewrite Hlen.
  - eapply equiv_trans; eassumption.
  - intros c d Hin. apply Hz. exact (I6 c d Hin).
  - intros d Hin. apply Hd. exact (I8 d Hin).
Qed.

Lemma short_row r j a : (length r <= 1)%nat -> row_get r j = a -> a <> 0 ->
  forall c, row_get r c = if (c =? j)%nat then a else 0.
Proof.
  intros Hlen Hg Ha c. destruct r as [|[c0 v0] [|e r]]; cbn [length] in Hlen; [| |lia].
  - cbn [row_get] in Hg. congruence.
  - cbn [row_get] in *. destruct (Nat.eqb_spec c0 j) as [->|Hne].
    + subst v0. rewrite (Nat.eqb_sym c j). destruct (j =? c)%nat; [reflexivity|]. destruct (c <? j)%nat; reflexivity.
    + destruct (j <? c0)%nat; congruence.
Qed.

Lemma dense_replace i y rows x c : (i < length rows)%nat ->
  dense (replace_nth i y rows) x c = if (x =? i)%nat then row_get y c else dense rows x c.
Proof. intros Hi. unfold dense. rewrite replace_nth_nth by exact Hi. destruct (x =? i)%nat; reflexivity. Qed.

Lemma dense_remove i rows x c : dense (remove_nth i rows) x c = dense rows (if (x <? i)%nat then x else S x) c.
Proof. unfold dense. now rewrite remove_nth_nth. Qed.

(* ---------- the loop ---------- *)
Lemma smith_loop_inv m0 n A fuel : forall W acc pl ds,
  Inv m0 n A W acc pl -> smith_loop fuel W acc = Some ds ->
  exists W' acc' pl', ds = rev acc' /\ Inv m0 n A W' acc' pl' /\ forall x c, dense W' x c = 0.
Proof.
  induction fuel as [|f IH]; intros W acc pl ds I H; [discriminate|].
  rewrite smith_loop_S in H.
  destruct (find_pivot W) as [[[i j] a]|] eqn:Ep.
  2:{ injection H as <-. exists W, acc, pl. split; [reflexivity|]. split; [exact I|].
      now apply find_pivot_none_dense. }
  destruct (find_pivot_some_wf n W i j a (inv_wf _ _ _ _ _ _ I) Ep) as [Hi [Hj [Ha Hija]]].
  cbv zeta in H.
  set (rows1 := row_phase i j a W) in *.
  assert (Hm : (length W <= m0)%nat) by (pose proof (inv_len _ _ _ _ _ _ I); lia).
  pose proof (row_phase_dense n i j a W (inv_wf _ _ _ _ _ _ I)) as HD1. fold rows1 in HD1.
  assert (Hlen1 : length rows1 = length W) by apply row_phase_length.
  assert (Hnp : forall d, ~ In (j, d) pl).
  { intros d Hin. apply Ha. rewrite <- Hija. exact (inv_zero _ _ _ _ _ _ I j d Hin i). }
  (* the row phase keeps the invariant *)
  assert (I1 : Inv m0 n A rows1 acc pl).
  { apply (Inv_step m0 n A W rows1 acc pl I Hlen1).
    - now apply row_phase_wf, (inv_wf _ _ _ _ _ _ I).
    - unfold full. rewrite Hlen1.
      apply (step_rowphase m0 n (length W) (dense W) (dense rows1) pl i j a Hi Hm);
        [intros x c Hx; now apply dense_overflow|exact HD1].
    - intros c Hz x. rewrite HD1, !Hz. destruct (x =? i)%nat; ring.
    - intros d Hd x c. rewrite HD1. apply Z.divide_sub_r; [apply Hd|].
      destruct (x =? i)%nat; [apply Z.divide_0_r|]. apply Z.divide_mul_r, Hd. }
  destruct (col_dirty i j rows1) eqn:Edirty.
  { exact (IH rows1 acc pl ds I1 H). }
  pose proof (col_dirty_false i j rows1 Edirty) as Hclear.
  assert (Hi1 : (i < length rows1)%nat) by lia.
  assert (Hrow_i : nth i rows1 [] = nth i W []) by (apply row_phase_pivot_row; exact Hi).
  assert (Hija1 : dense rows1 i j = a) by (unfold dense; rewrite Hrow_i; exact Hija).
  set (ri' := col_reduce j a (nth i W [])) in *.
  pose proof (rows_wf_nth n W i (inv_wf _ _ _ _ _ _ I)) as Wri.
  assert (Wri' : row_wf n ri') by (apply col_reduce_wf; exact Wri).
  assert (Hri' : forall c, row_get ri' c = if (c =? j)%nat then dense rows1 i c else dense rows1 i c mod a).
  { intros c. unfold ri', dense. rewrite Hrow_i. apply (col_reduce_get j a 0). apply Wri. }
  (* the column phase keeps the invariant *)
  set (W2 := replace_nth i ri' rows1).
  assert (HD2 : forall x c, dense W2 x c
                = if (x =? i)%nat && negb (c =? j)%nat then dense rows1 i c mod a else dense rows1 x c).
  { intros x c. unfold W2. rewrite dense_replace by exact Hi1. rewrite Hri'.
    destruct (Nat.eqb_spec x i) as [->|]; destruct (c =? j)%nat; reflexivity. }
  assert (Hlen2 : length W2 = length rows1) by apply replace_nth_length.
  assert (I2 : Inv m0 n A W2 acc pl).
  { apply (Inv_step m0 n A rows1 W2 acc pl I1 Hlen2).
    - apply replace_nth_Forall; [exact Wri'|exact (inv_wf _ _ _ _ _ _ I1)].
    - unfold full. rewrite Hlen2, Hlen1.
      apply (step_colphase m0 n (length W) (dense rows1) (dense W2) pl i j a Hi Hj Ha Hija1 Hclear);
        [intros t; now apply pivrow_zero|exact HD2].
    - intros c Hz x. rewrite HD2, !Hz. rewrite Zmod_0_l. destruct (_ && _); reflexivity.
    - intros d Hd x c. rewrite HD2. destruct (_ && _); [|apply Hd].
      rewrite (Z.mod_eq _ _ Ha). apply Z.divide_sub_r; [apply Hd|].
      apply Z.divide_mul_l. rewrite <- Hija1. apply Hd. }
  destruct (1 <? length ri')%nat eqn:Elen.
  { exact (IH W2 acc pl ds I2 H). }
  apply Nat.ltb_ge in Elen.
  destruct (find_nondivisible a i rows1) as [r|] eqn:End.
  - (* a row with an entry that a does not divide is added to the pivot row *)
    destruct (find_nondiv_some a i rows1 r End) as [Hri Hr].
    set (W3 := replace_nth i (row_add (nth r rows1 []) ri') rows1) in *.
    assert (HD3 : forall x c, dense W3 x c = dense W2 x c + (if (x =? i)%nat then dense W2 r c else 0)).
    { intros x c. unfold W3, W2. rewrite !dense_replace by exact Hi1.
      destruct (Nat.eqb_spec r i); [contradiction|].
      destruct (x =? i)%nat; [|ring].
      rewrite (row_add_get 0) by (try apply Wri'; apply (rows_wf_nth n), (inv_wf _ _ _ _ _ _ I1)).
      unfold dense. ring. }
    assert (Hlen3 : length W3 = length W2) by (unfold W3, W2; now rewrite !replace_nth_length).
    assert (I3 : Inv m0 n A W3 acc pl).
    { apply (Inv_step m0 n A W2 W3 acc pl I2 Hlen3).
      - apply replace_nth_Forall; [|exact (inv_wf _ _ _ _ _ _ I1)].
        apply row_add_wf; [apply rows_wf_nth; exact (inv_wf _ _ _ _ _ _ I1)|exact Wri'].
      - unfold full. rewrite Hlen3, Hlen2, Hlen1.
        apply (step_rowadd m0 n (length W) (dense W2) (dense W3) pl i r Hi); [lia|exact Hm|exact Hri|exact HD3].
      - intros c Hz x. rewrite HD3, !Hz. destruct (x =? i)%nat; reflexivity.
      - intros d Hd x c. rewrite HD3. apply Z.divide_add_r; [apply Hd|].
        destruct (x =? i)%nat; [apply Hd|apply Z.divide_0_r]. }
    exact (IH W3 acc pl ds I3 H).
  - (* the pivot is finished *)
    pose proof (find_nondiv_none a i rows1 Ha End) as Hdiv.
    set (W4 := remove_nth i rows1) in *.
    assert (Hlen4 : length W4 = (length W - 1)%nat).
    { pose proof (remove_nth_length i rows1 Hi1). fold W4 in H0. lia. }
    assert (Hrow2 : forall c, dense W2 i c = if (c =? j)%nat then a else 0).
    { intros c. unfold W2. rewrite dense_replace by exact Hi1. rewrite Nat.eqb_refl.
      apply short_row; [exact Elen| |exact Ha]. rewrite Hri', Nat.eqb_refl. exact Hija1. }
    assert (Hidx : forall x, (if (x <? i)%nat then x else S x) <> i) by (intros x; dcase; lia).
    assert (HD4 : forall x c, dense W4 x c = dense W2 (if (x <? i)%nat then x else S x) c).
    { intros x c. unfold W4. rewrite dense_remove, HD2.
      destruct (Nat.eqb_spec (if (x <? i)%nat then x else S x) i) as [E|_]; [now apply Hidx in E|reflexivity]. }
    assert (HD41 : forall x c, dense W4 x c = dense rows1 (if (x <? i)%nat then x else S x) c).
    { intros x c. unfold W4. now rewrite dense_remove. }
    apply (IH W4 (Z.abs a :: acc) ((j, Z.abs a) :: pl) ds); [|exact H].
    destruct I1 as [J1 J2 J3 J4 J5 J6 J7 J8 J9].
    constructor.
    + cbn [map snd]. now rewrite J1.
    + cbn [length]. lia.
    + now apply remove_nth_Forall.
    + apply (equiv_trans m0 n A (full W2 pl)); [exact (inv_eq _ _ _ _ _ _ I2)|].
      unfold full. rewrite Hlen4, Hlen2, Hlen1.
      apply (step_final m0 n (length W) (dense W2) (dense W4) pl i j a Hi Hm Ha Hrow2).
      intros x c _. apply HD4.
    + intros c d [E|Hin]; [|now apply J5]. injection E as <- <-. split; [exact Hj|lia].
    + intros c d [E|Hin] x.
      * injection E as <- <-. rewrite HD41. apply Hclear, Hidx.
      * rewrite HD41. exact (J6 c d Hin _).
    + cbn [map fst]. constructor; [|exact J7].
      intros Hin. apply in_map_iff in Hin. destruct Hin as [[c d] [E Hin]]. cbn [fst] in E. subst c.
      exact (Hnp d Hin).
    + intros d [<-|Hin] x c.
      * rewrite HD41. apply Z.divide_abs_l. apply Hdiv, Hidx.
      * rewrite HD41. exact (J8 d Hin _ _).
    + cbn [chain_rev]. split; [|exact J9].
      intros e He. apply Z.divide_abs_r. rewrite <- Hija. exact (inv_div _ _ _ _ _ _ I e He i j).
Qed.

(* ---------- reading off the diagonal form at the end ---------- *)
Lemma chain_rev_nth acc : chain_rev acc ->
  forall s t, (s < t)%nat -> (t < length acc)%nat -> (nth t acc 0 | nth s acc 0).
Proof.
  induction acc as [|d rest IH]; intros H s t Hst Ht; cbn [length] in Ht; [lia|].
  cbn [chain_rev] in H. destruct H as [H1 H2].
  destruct t as [|t]; [lia|]. destruct s as [|s]; cbn [nth].
  - apply H1. apply nth_In. lia.
  - apply IH; [exact H2|lia|lia].
Qed.

Lemma Inv_final m0 n A W acc pl :
  Inv m0 n A W acc pl -> (forall x c, dense W x c = 0) -> SmithOf m0 n A (rev acc).
Proof.
  intros [I1 I2 I3 I4 I5 I6 I7 I8 I9] Hzero.
  set (k := length pl).
  assert (Hk : length acc = k) by (rewrite <- I1; apply map_length).
  assert (Hkn : (k <= n)%nat).
  { unfold k. rewrite <- (map_length fst), <- (seq_length n 0).
    apply NoDup_incl_length; [exact I7|].
    intros c Hin. apply in_map_iff in Hin. destruct Hin as [[c' d] [E Hin]]. cbn [fst] in E. subst c'.
    apply in_seq. destruct (I5 c d Hin). lia. }
  split; [|split; [|split]].
  - intros d Hd. apply in_rev in Hd. rewrite <- I1 in Hd. apply in_map_iff in Hd.
    destruct Hd as [[c d'] [E Hin]]. cbn [snd] in E. subst d'. exact (proj2 (I5 c d Hin)).
  - intros t Ht. rewrite rev_length in Ht. rewrite !rev_nth by lia.
    apply (chain_rev_nth acc I9); lia.
  - rewrite rev_length, Hk. lia.
  - apply (equiv_trans m0 n A (full W pl) _ I4).
    (* reverse the rows: the finished pivots come first, in the order they were found *)
    apply (equiv_trans m0 n _ (fun x c => full W pl (m0 - 1 - x)%nat c)).
    { apply (equiv_row_perm m0 n _ _ (fun x => m0 - 1 - x)%nat (fun x => m0 - 1 - x)%nat); [|apply meq_refl].
      intros x Hx. lia. }
    (* a column permutation that sends the t-th pivot column to position t *)
    assert (Hnd : NoDup (map fst (rev pl))) by (rewrite map_rev; apply NoDup_rev; exact I7).
    destruct (perm_of_list n (map fst (rev pl)) Hnd) as [f [g [Hfg Hf]]].
    { intros c Hin. rewrite map_rev in Hin. apply in_rev in Hin. apply in_map_iff in Hin.
      destruct Hin as [[c' d] [E Hin]]. cbn [fst] in E. subst c'. exact (proj1 (I5 c d Hin)). }
    rewrite map_length, rev_length in Hf. fold k in Hf.
    apply (equiv_col_perm m0 n _ _ f g Hfg).
    intros x c Hx Hc. unfold diagZ, full, fullD. rewrite rev_length, Hk.
    destruct (Nat.ltb_spec x k) as [Hxk|Hxk].
    + destruct (Nat.ltb_spec (m0 - 1 - x) (length W)) as [|_]; [lia|].
      replace (m0 - 1 - x - length W)%nat with (k - S x)%nat by lia.
      unfold pivrow. cbv zeta. fold k in I2.
      assert (Ep : nth (k - S x) pl (O, 0) = nth x (rev pl) (O, 0)) by (rewrite rev_nth by exact Hxk; reflexivity).
      rewrite Ep.
      assert (Efx : f x = fst (nth x (rev pl) (O, 0))).
      { rewrite (Hf x Hxk). exact (map_nth fst (rev pl) (O, 0) x). }
      rewrite <- Efx.
      assert (Ed : nth x (rev acc) 0 = snd (nth x (rev pl) (O, 0))).
      { rewrite <- I1, <- map_rev. exact (map_nth snd (rev pl) (O, 0) x). }
      destruct (Nat.eqb_spec x c) as [<-|Hne]; cbn [andb].
      * now rewrite Nat.eqb_refl.
      * destruct (Nat.eqb_spec (f c) (f x)) as [E|_]; [|reflexivity].
        exfalso. apply Hne. destruct (Hfg c Hc) as [_ [_ [G1 _]]].
        destruct (Hfg x ltac:(lia)) as [_ [_ [G2 _]]]. congruence.
    + rewrite andb_false_r.
      destruct (Nat.ltb_spec (m0 - 1 - x) (length W)) as [_|]; [|lia]. now rewrite Hzero.
Qed.

(* ---------- main theorem ---------- *)
Theorem smith_diag_sound n fuel rows ds :
  rows_wf n rows -> smith_diag fuel rows = Some ds -> SmithOf (length rows) n (dense rows) ds.
Proof.
  intros Hwf H. unfold smith_diag in H.
  destruct (smith_loop_inv (length rows) n (dense rows) fuel rows [] [] ds (Inv_init n rows Hwf) H)
    as [W' [acc' [pl' [-> [I Hz]]]]].
  exact (Inv_final _ _ _ _ _ _ I Hz).
Qed.

(* the explicit form: invertible P, Q with P A Q = diag(ds) on the m x n window *)
Corollary smith_diag_sound_PQ n fuel rows ds :
  rows_wf n rows -> smith_diag fuel rows = Some ds ->
  let m := length rows in
  (forall d, In d ds -> 0 < d) /\
  (forall t, (S t < length ds)%nat -> (nth t ds 0 | nth (S t) ds 0)) /\
  (length ds <= Nat.min m n)%nat /\
  exists P P' Q Q' : zmat,
    meq m m (zmul m P P') zid /\ meq m m (zmul m P' P) zid /\
    meq n n (zmul n Q Q') zid /\ meq n n (zmul n Q' Q) zid /\
    forall i j, (i < m)%nat -> (j < n)%nat ->
      zmul m P (zmul n (dense rows) Q) i j
      = if (i =? j)%nat && (i <? length ds)%nat then nth i ds 0 else 0.
Proof.
  intros Hwf H m. destruct (smith_diag_sound n fuel rows ds Hwf H) as [H1 [H2 [H3 [P [Pi [Q [Qi [[A1 A2] [[B1 B2] E]]]]]]]]].
  split; [exact H1|]. split; [exact H2|]. split; [exact H3|].
  exists P, Pi, Q, Qi. repeat (split; [assumption|]). exact E.
Qed.

(* the same in the vocabulary of C07 (Proofs/C07Algebra.v): the number of factors is the rank *)
Corollary SmithOf_smith_form m n A ds :
  SmithOf m n A ds -> smith_form Z_ring m n A (length ds) (fun i => nth i ds 0).
Proof.
  intros [H1 [_ [H3 [P [Pi [Q [Qi [HP [HQ E]]]]]]]]]. exists P, Pi, Q, Qi.
  split; [exact HP|]. split; [exact HQ|]. split; [exact E|]. split; [|exact H3].
  intros i Hi. pose proof (H1 (nth i ds 0) (nth_In ds 0 Hi)). cbn. lia.
Qed.
