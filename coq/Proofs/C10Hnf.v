(* C10: the shape of the result of the LLL-based Hermite normal form.

   Loop invariant of LLLHNFCalc::process on the state with step = K (rows are those of `target`, i.e. before
   the final reversal; piv r = nz_col_in r):
     ech    : for r + 1 < K:  piv r = None, or piv r = Some j, piv (r+1) = Some l with l < j
              (zero rows first, then strictly decreasing pivot columns)
     normal : for r + 1 < K:  the pivot entry of row r is normalised (normalizing_unit = 1)
     small  : for r < r' < K: N(target[r'][piv r]) < N(target[r][piv r])
   At exit K = nrows; the last row is normalised by the epilogue of `process`; `result` reverses the rows. *)
From Coq Require Import ZArith List Bool Arith Lia Ring.
Require Import Yui.Base.Ring Yui.Base.MatF Yui.Base.MatL Yui.Model.Lll Yui.Proofs.C10Laws Yui.Proofs.C10Ops.
Import ListNotations.

Section Hnf.
  Context {R : Type} (L : lll_ring R) (LW : lll_laws L).
  Local Notation o := (lops L).
  Local Notation RL := (ll_ring L LW).

  Add Ring Rring3 : (ring_theory_of_laws o RL).

  Local Notation zero := (rzero o).
  Local Notation one := (rone o).
  Local Notation T s := (lget o (target s)).
  Local Notation nz s := (nz_col_in L s).

  Ltac msplit := repeat match goal with |- _ /\ _ => split end.

  (* ---------- the first non-zero position of a row, as a relation on entries ---------- *)
  Definition rowpiv (n : nat) (f : nat -> R) (p : option nat) : Prop :=
    match p with
    | Some j => j < n /\ f j <> zero /\ forall b, b < j -> f b = zero
    | None => forall b, b < n -> f b = zero
    end.

  Lemma rowpiv_fun n f p p' : rowpiv n f p -> rowpiv n f p' -> p = p'.
  Proof.
    destruct p as [j|], p' as [j'|]; cbn [rowpiv]; intros H H'.
    - destruct H as (Hj & Hn & Hz), H' as (Hj' & Hn' & Hz'). f_equal.
      destruct (Nat.lt_trichotomy j j') as [Hlt|[->|Hlt]]; [|reflexivity|].
      + exfalso. apply Hn. now apply Hz'.
      + exfalso. apply Hn'. now apply Hz.
    - destruct H as (Hj & Hn & _). exfalso. apply Hn. now apply H'.
    - destruct H' as (Hj & Hn & _). exfalso. apply Hn. now apply H.
    - reflexivity.
  Qed.

  Lemma rowpiv_ext n f g p : (forall b, b < n -> f b = g b) -> rowpiv n f p -> rowpiv n g p.
  Proof.
    intros E. destruct p as [j|]; cbn [rowpiv].
    - intros (Hj & Hn & Hz). split; [exact Hj|]. split.
      + rewrite <- E by exact Hj. exact Hn.
      + intros b Hb. rewrite <- E by lia. now apply Hz.
    - intros H b Hb. rewrite <- E by exact Hb. now apply H.
  Qed.

  Lemma first_nz_rowpiv l : forall j0,
    match first_nz L l j0 with
    | Some j => j0 <= j /\ rowpiv (length l) (fun b => nth b l zero) (Some (j - j0))
    | None => rowpiv (length l) (fun b => nth b l zero) None
    end.
  Proof.
    induction l as [|a l IH]; intros j0; cbn [first_nz].
    - cbn [rowpiv length]. intros b Hb. lia.
    - destruct (reqb_spec o RL a zero) as [E|E].
      + specialize (IH (S j0)). destruct (first_nz L l (S j0)) as [j|].
        * destruct IH as (Hle & Hj & Hn & Hz). split; [lia|]. cbn [rowpiv length].
          replace (j - j0) with (S (j - S j0)) by lia. cbn [nth]. split; [lia|]. split; [exact Hn|].
          intros b Hb. destruct b as [|b]; [exact E|]. apply Hz. lia.
        * cbn [rowpiv length] in *. intros b Hb. destruct b as [|b]; [exact E|]. cbn [nth]. apply IH. lia.
      + split; [lia|]. cbn [rowpiv length]. rewrite Nat.sub_diag. cbn [nth].
        split; [lia|]. split; [exact E|]. intros b Hb. lia.
  Qed.

  Definition wfs (s : lll_data (R := R)) : Prop := wf (nr s) (nc s) (target s).

  Lemma nz_rowpiv s i : wfs s -> i < nr s -> rowpiv (nc s) (T s i) (nz s i).
  Proof.
    intros [Hm Hf] Hi. unfold nz_col_in, mrow.
    assert (Hl : length (nth i (target s) []) = nc s).
    { rewrite Forall_forall in Hf. apply Hf, nth_In. lia. }
    pose proof (first_nz_rowpiv (nth i (target s) []) 0) as H. rewrite Hl in H.
    destruct (first_nz L _ 0) as [j|].
    - destruct H as [_ H]. rewrite Nat.sub_0_r in H. exact H.
    - exact H.
  Qed.

  Lemma nz_lt s i j : wfs s -> i < nr s -> nz s i = Some j -> j < nc s /\ T s i j <> zero /\ forall b, b < j -> T s i b = zero.
  Proof. intros W Hi E. pose proof (nz_rowpiv s i W Hi) as H. rewrite E in H. exact H. Qed.

  Lemma nz_none s i : wfs s -> i < nr s -> nz s i = None -> forall b, b < nc s -> T s i b = zero.
  Proof. intros W Hi E. pose proof (nz_rowpiv s i W Hi) as H. rewrite E in H. exact H. Qed.

  (* ---------- units ---------- *)
  Lemma unit_one : lis_unit L one = true.
  Proof. rewrite <- (ll_nunit_idem L LW one). apply (ll_nunit_unit L LW). Qed.

  Lemma unit_mul_zero x u : lis_unit L u = true -> rmul o x u = zero -> x = zero.
  Proof.
    intros Hu H. destruct (ll_unit_inv L LW u Hu) as [v Hv]. apply (ll_inv_mul L LW) in Hv.
    transitivity (rmul o (rmul o x u) v).
    - rewrite <- (rmul_assoc o RL), Hv. ring.
    - rewrite H. ring.
  Qed.

  Lemma rowpiv_scale n f u p : lis_unit L u = true -> rowpiv n f p -> rowpiv n (fun b => rmul o (f b) u) p.
  Proof.
    intros Hu. destruct p as [j|]; cbn [rowpiv].
    - intros (Hj & Hn & Hz). split; [exact Hj|]. split.
      + intros E. apply Hn. now apply (unit_mul_zero _ u).
      + intros b Hb. rewrite Hz by exact Hb. ring.
    - intros H b Hb. rewrite H by exact Hb. ring.
  Qed.

  Lemma nz_scale s s' i u : wfs s -> wfs s' -> nr s' = nr s -> nc s' = nc s -> i < nr s -> lis_unit L u = true ->
    (forall b, b < nc s -> T s' i b = rmul o (T s i b) u) -> nz s' i = nz s i.
  Proof.
    intros W W' Hm Hn Hi Hu E. apply (rowpiv_fun (nc s) (T s' i)).
    - rewrite <- Hn. apply nz_rowpiv; [exact W'|lia].
    - apply (rowpiv_ext (nc s) (fun b => rmul o (T s i b) u)); [intros b Hb; symmetry; now apply E|].
      apply rowpiv_scale; [exact Hu|]. now apply nz_rowpiv.
  Qed.

  Lemma nz_ext s s' i : wfs s -> wfs s' -> nr s' = nr s -> nc s' = nc s -> i < nr s ->
    (forall b, b < nc s -> T s' i b = T s i b) -> nz s' i = nz s i.
  Proof.
    intros W W' Hm Hn Hi E. apply (nz_scale s s' i one); try assumption; [apply unit_one|].
    intros b Hb. rewrite E by exact Hb. ring.
  Qed.

  (* ---------- what the elementary steps do to the target ---------- *)
  Lemma mul_row_spec s i u s' : mul_row L s i u = Some s' ->
    lis_unit L u = true /\ i < nr s /\ nr s' = nr s /\ nc s' = nc s /\ step s' = step s /\ wfs s' /\
    forall a b, a < nr s -> b < nc s -> T s' a b = if a =? i then rmul o (T s a b) u else T s a b.
  Proof.
    cbv beta zeta delta [mul_row].
    destruct (lis_unit L u) eqn:Hu; [|discriminate].
    destruct (Nat.ltb_spec i (nr s)) as [Hi|]; [|discriminate]. cbn [negb orb].
    destruct (tpinv s) as [q|]; [destruct (linv L u) as [v|]; [|discriminate]|]; cbn [obind];
      intros H; injection H as <-; unfold wfs; cbn [nr nc step target];
      repeat (split; [first [reflexivity|assumption|apply wf_lmk]|]);
      intros a b Ha Hb; now rewrite (lget_m_mul_row L).
  Qed.

  Lemma add_row_to_spec s i k r s' : add_row_to L s i k r = Some s' ->
    i < k /\ k < nr s /\ nr s' = nr s /\ nc s' = nc s /\ step s' = step s /\ wfs s' /\
    forall a b, a < nr s -> b < nc s ->
      T s' a b = if a =? k then radd o (T s k b) (rmul o (T s i b) r) else T s a b.
  Proof.
    cbv beta zeta delta [add_row_to].
    destruct (Nat.ltb_spec i k) as [Hik|]; [|discriminate].
    destruct (Nat.ltb_spec k (nr s)) as [Hk|]; [|discriminate]. cbn [negb orb].
    intros H; injection H as <-; unfold wfs; cbn [nr nc step target].
    repeat (split; [first [reflexivity|assumption|apply wf_lmk]|]).
    intros a b Ha Hb. now rewrite (lget_m_add_row_to L).
  Qed.

  Lemma swap_spec s k s' : swap L s k = Some s' ->
    1 <= k /\ k < nr s /\ nr s' = nr s /\ nc s' = nc s /\ step s' = step s /\ wfs s' /\
    forall a b, a < nr s -> b < nc s -> T s' a b = T s (if a =? k - 1 then k else if a =? k then k - 1 else a) b.
  Proof.
    cbv beta zeta delta [swap].
    destruct (Nat.eqb_spec k 0) as [|Hk0]; [discriminate|].
    destruct (Nat.ltb_spec k (nr s)) as [Hk|]; [|discriminate]. cbn [negb orb].
    destruct (ofold _ _ _) as [l2|]; [|discriminate]. cbn [obind].
    destruct (ldiv L _ _) as [dk|]; [|discriminate]. cbn [obind].
    intros H; injection H as <-; unfold wfs; cbn [nr nc step target].
    repeat (split; [first [reflexivity|assumption|lia|apply wf_lmk]|]).
    intros a b Ha Hb. now rewrite (lget_m_swap_rows L).
  Qed.

  Lemma reduce_target s i k s' : wfs s -> reduce L s i k = Some s' ->
    i < k /\ k < nr s /\ nr s' = nr s /\ nc s' = nc s /\ step s' = step s /\ wfs s' /\
    exists q, forall a b, a < nr s -> b < nc s ->
      T s' a b = if a =? k then radd o (T s k b) (rmul o (T s i b) (rneg o q)) else T s a b.
  Proof.
    intros W. cbv beta zeta delta [reduce].
    destruct (Nat.ltb_spec i k) as [Hik|]; [|discriminate].
    destruct (Nat.ltb_spec k (nr s)) as [Hk|]; [|discriminate]. cbn [negb orb].
    destruct (ldiv_round L _ _) as [q|]; [|discriminate]. cbn [obind].
    destruct (reqb_spec o RL q zero) as [Eq|Eq].
    - intros H. injection H as <-. msplit; try assumption; try reflexivity. exists q. intros a b Ha Hb.
      destruct (Nat.eqb_spec a k) as [->|]; [|reflexivity]. rewrite Eq. ring.
    - intros H. apply add_row_to_spec in H. destruct H as (_ & _ & Hm & Hn & Hs & W' & HT).
      msplit; try assumption; try reflexivity. exists q. exact HT.
  Qed.

  (* the second half of LLLHNFCalc::reduce: a[k] -= div_round(a[k][j], a[i][j]) * a[i] *)
  Lemma hnf_tail_spec s i k j q s' : wfs s -> i < k -> k < nr s -> j < nc s ->
    ldiv_round L (T s k j) (T s i j) = Some q ->
    (if reqb o q zero then Some s else add_row_to L s i k (rneg o q)) = Some s' ->
    nr s' = nr s /\ nc s' = nc s /\ step s' = step s /\ wfs s' /\
    (forall a b, a < nr s -> b < nc s ->
       T s' a b = if a =? k then radd o (T s k b) (rmul o (T s i b) (rneg o q)) else T s a b) /\
    lsize_ok L (T s' k j) (T s i j) = true.
  Proof.
    intros W Hik Hk Hj Eq H.
    pose proof (ll_div_round_some L LW _ _ _ Eq) as Hsz.
    assert (HT : nr s' = nr s /\ nc s' = nc s /\ step s' = step s /\ wfs s' /\
      forall a b, a < nr s -> b < nc s ->
        T s' a b = if a =? k then radd o (T s k b) (rmul o (T s i b) (rneg o q)) else T s a b).
    { destruct (reqb_spec o RL q zero) as [E0|E0].
      - injection H as <-. msplit; try assumption; try reflexivity. intros a b Ha Hb.
        destruct (Nat.eqb_spec a k) as [->|]; [|reflexivity]. rewrite E0. ring.
      - apply add_row_to_spec in H. destruct H as (_ & _ & Hm & Hn & Hs & W' & HT). msplit; assumption. }
    destruct HT as (Hm & Hn & Hs & W' & HT). msplit; try assumption; try reflexivity.
    rewrite HT by assumption. rewrite Nat.eqb_refl.
    replace (radd o (T s k j) (rmul o (T s i j) (rneg o q))) with (rsub o (T s k j) (rmul o q (T s i j)));
      [exact Hsz|]. unfold rsub. ring.
  Qed.

  (* LLLHNFCalc::reduce(i, k) *)
  Lemma hnf_reduce_spec s i k s' : wfs s -> hnf_reduce L s i k = Some s' ->
    i < k /\ k < nr s /\ nr s' = nr s /\ nc s' = nc s /\ step s' = step s /\ wfs s' /\
    exists u q, lis_unit L u = true /\
      (forall a b, a < nr s -> b < nc s ->
         T s' a b = if a =? i then rmul o (T s a b) u
                    else if a =? k then radd o (T s k b) (rmul o (rmul o (T s i b) u) (rneg o q))
                    else T s a b) /\
      match nz s i with
      | Some j => lnunit L (rmul o (T s i j) u) = one /\ (lnunit L (T s i j) = one -> u = one) /\
                  lsize_ok L (T s' k j) (T s' i j) = true
      | None => u = one
      end.
  Proof.
    intros W. cbv beta zeta delta [hnf_reduce].
    destruct (Nat.ltb_spec i k) as [Hik|]; [|discriminate].
    destruct (Nat.ltb_spec k (nr s)) as [Hk|]; [|discriminate]. cbn [negb orb].
    assert (Hi : i < nr s) by lia.
    destruct (nz s i) as [j|] eqn:Enz.
    - destruct (nz_lt s i j W Hi Enz) as (Hj & Hnz & Hz).
      change (mget L (target s) i j) with (T s i j).
      destruct (reqb_spec o RL (lnunit L (T s i j)) one) as [Eu|Eu]; cbn [obind].
      + destruct (ldiv_round L _ _) as [q|] eqn:Eq; [|discriminate]. cbn [obind]. intros H.
        apply (hnf_tail_spec s i k j q s' W Hik Hk Hj Eq) in H.
        destruct H as (Hm & Hn & Hs & W' & HT & Hsz). msplit; try assumption; try reflexivity.
        exists one, q. split; [apply unit_one|]. split; [|split; [|split]].
        * intros a b Ha Hb. rewrite HT by assumption.
          destruct (Nat.eqb_spec a i) as [->|Hai].
          -- destruct (Nat.eqb_spec i k); [lia|]. ring.
          -- destruct (Nat.eqb_spec a k); [ring|reflexivity].
        * replace (rmul o (T s i j) one) with (T s i j) by ring. exact Eu.
        * intros _. reflexivity.
        * rewrite (HT i j) by assumption. destruct (Nat.eqb_spec i k); [lia|]. exact Hsz.
      + destruct (mul_row L s i _) as [s1|] eqn:E1; [|discriminate]. cbn [obind].
        apply mul_row_spec in E1. destruct E1 as (Hu & _ & Hm1 & Hn1 & Hs1 & W1 & HT1).
        destruct (ldiv_round L _ _) as [q|] eqn:Eq; [|discriminate]. cbn [obind]. intros H.
        apply (hnf_tail_spec s1 i k j q s') in H; try assumption; try lia.
        destruct H as (Hm & Hn & Hs & W' & HT & Hsz).
        rewrite Hm1 in *. rewrite Hn1 in *.
        msplit; try congruence.
        exists (lnunit L (T s i j)), q. split; [exact Hu|]. split; [|split; [|split]].
        * intros a b Ha Hb. rewrite HT by assumption. rewrite !HT1 by assumption.
          destruct (Nat.eqb_spec a i) as [->|Hai].
          -- destruct (Nat.eqb_spec i k); [lia|]. reflexivity.
          -- destruct (Nat.eqb_spec a k) as [->|]; [|reflexivity].
             rewrite Nat.eqb_refl. destruct (Nat.eqb_spec k i); [lia|]. reflexivity.
        * apply (ll_nunit_idem L LW).
        * intros E. exact E.
        * rewrite (HT i j) by assumption. destruct (Nat.eqb_spec i k); [lia|]. exact Hsz.
    - intros H. apply reduce_target in H; [|exact W].
      destruct H as (_ & _ & Hm & Hn & Hs & W' & q & HT). msplit; try assumption; try reflexivity.
      exists one, q. split; [apply unit_one|]. split; [|reflexivity].
      intros a b Ha Hb. rewrite HT by assumption.
      destruct (Nat.eqb_spec a i) as [->|Hai].
      + destruct (Nat.eqb_spec i k); [lia|]. ring.
      + destruct (Nat.eqb_spec a k); [ring|reflexivity].
  Qed.

  (* ---------- the invariant ---------- *)
  Definition ok2 (p p' : option nat) : Prop :=
    match p, p' with
    | Some j, Some l => l < j
    | Some _, None => False
    | None, _ => True
    end.

  Lemma ok2_trans p p' p'' : ok2 p p' -> ok2 p' p'' -> ok2 p p''.
  Proof. destruct p, p', p''; cbn [ok2]; try tauto; lia. Qed.

  Definition ech (s : lll_data) (K : nat) : Prop := forall r, S r < K -> ok2 (nz s r) (nz s (S r)).
  Definition normal (s : lll_data) (K : nat) : Prop :=
    forall r j, r < K -> nz s r = Some j -> lnunit L (T s r j) = one.
  Definition small (s : lll_data) (K : nat) : Prop :=
    forall r r' j, r < r' -> r' < K -> nz s r = Some j -> (lnormz L (T s r' j) < lnormz L (T s r j))%Z.

  Lemma ech_lt s K : ech s K -> forall r' r, r < r' -> r' < K -> ok2 (nz s r) (nz s r').
  Proof.
    intros HE. induction r' as [|r' IH]; intros r Hr Hr'; [lia|].
    destruct (Nat.eq_dec r r') as [->|Hne]; [apply HE; lia|].
    apply (ok2_trans _ (nz s r')); [apply IH; lia|apply HE; lia].
  Qed.

  Definition hinv (s : lll_data) : Prop :=
    wfs s /\ 1 <= step s /\ (step s <= nr s \/ step s = 1) /\
    ech s (step s) /\ normal s (step s - 1) /\ small s (step s).

  (* one LLLHNFCalc::reduce(t, k) with t < k below an echelon block whose rows < k are normalised *)
  Lemma hnf_reduce_lower s t k x : wfs s -> t < k -> k < nr s -> ech s (S k) -> normal s k ->
    hnf_reduce L s t k = Some x ->
    nr x = nr s /\ nc x = nc s /\ step x = step s /\ wfs x /\
    (forall a b, a < nr s -> b < nc s -> a <> k -> T x a b = T s a b) /\
    (forall a, a < nr s -> nz x a = nz s a) /\
    (forall b, b < nc s -> match nz s t with Some jt => b < jt | None => True end -> T x k b = T s k b) /\
    (forall jt, nz s t = Some jt -> (lnormz L (T x k jt) < lnormz L (T s t jt))%Z).
  Proof.
    intros W Htk Hk HE HN H.
    destruct (hnf_reduce_spec s t k x W H) as (_ & _ & Hm & Hn & Hs & W' & u & q & Hu & HT & Hp).
    assert (Ht : t < nr s) by lia.
    assert (Hu1 : u = one).
    { destruct (nz s t) as [jt|] eqn:Et; [|exact Hp]. apply Hp. now apply (HN t jt). }
    subst u.
    assert (Hrows : forall a b, a < nr s -> b < nc s -> a <> k -> T x a b = T s a b).
    { intros a b Ha Hb Hak. rewrite HT by assumption.
      destruct (Nat.eqb_spec a t); [ring|]. destruct (Nat.eqb_spec a k); [contradiction|reflexivity]. }
    assert (Hrowk : forall b, b < nc s -> match nz s t with Some jt => b < jt | None => True end -> T x k b = T s k b).
    { intros b Hb Hlt. rewrite HT by assumption.
      destruct (Nat.eqb_spec k t); [lia|]. rewrite Nat.eqb_refl.
      assert (E0 : T s t b = zero).
      { destruct (nz s t) as [jt|] eqn:Et.
        - now apply (nz_lt s t jt W Ht Et).
        - now apply (nz_none s t W Ht Et). }
      rewrite E0. ring. }
    assert (Hnzk : nz x k = nz s k).
    { pose proof (ech_lt s (S k) HE k t Htk ltac:(lia)) as Hok.
      destruct (nz s t) as [jt|] eqn:Et.
      - destruct (nz s k) as [l|] eqn:El; cbn [ok2] in Hok; [|contradiction].
        destruct (nz_lt s k l W Hk El) as (Hl & Hnz & Hz).
        apply (rowpiv_fun (nc s) (T x k)).
        + rewrite <- Hn. apply nz_rowpiv; [exact W'|lia].
        + cbn [rowpiv]. split; [exact Hl|]. split.
          * rewrite Hrowk by (try assumption; lia). exact Hnz.
          * intros b Hb. rewrite Hrowk by lia. now apply Hz.
      - apply nz_ext; try assumption. intros b Hb. now apply Hrowk. }
    msplit; try assumption; try reflexivity.
    - intros a Ha. destruct (Nat.eq_dec a k) as [->|Hak]; [exact Hnzk|].
      apply nz_ext; try assumption. intros b Hb. now apply Hrows.
    - intros jt Et. rewrite Et in Hp. destruct Hp as (_ & _ & Hsz).
      destruct (nz_lt s t jt W Ht Et) as (Hj & Hnz & _).
      assert (E : T x t jt = T s t jt) by (apply Hrows; [assumption|assumption|lia]).
      rewrite E in Hsz. now apply (ll_size_norm L LW).
  Qed.

  (* the loop `for i in (0..t).rev() { self.reduce(i, k) }` *)
  Lemma reduce_rest k : forall t s x, wfs s -> t <= k -> k < nr s -> ech s (S k) -> normal s k ->
    ofold (fun y i => hnf_reduce L y i k) (rev (seq 0 t)) s = Some x ->
    nr x = nr s /\ nc x = nc s /\ step x = step s /\ wfs x /\
    (forall a b, a < nr s -> b < nc s -> a <> k -> T x a b = T s a b) /\
    (forall a, a < nr s -> nz x a = nz s a) /\
    (forall b, b < nc s -> (forall i j, i < t -> nz s i = Some j -> b < j) -> T x k b = T s k b) /\
    (forall i j, i < t -> nz s i = Some j -> (lnormz L (T x k j) < lnormz L (T s i j))%Z).
  Proof.
    induction t as [|t IH]; intros s x W Ht Hk HE HN H.
    - cbn in H. injection H as <-. msplit; try reflexivity; try assumption. intros i j Hi. lia.
    - rewrite seq_S, rev_app_distr in H. cbn [rev app plus] in H. rewrite ofold_cons in H.
      destruct (hnf_reduce L s t k) as [x1|] eqn:E1; [|discriminate]. cbn [obind] in H.
      destruct (hnf_reduce_lower s t k x1 W ltac:(lia) Hk HE HN E1) as (Hm1 & Hn1 & Hs1 & W1 & Hr1 & Hz1 & Hk1 & Hsz1).
      assert (HE1 : ech x1 (S k)).
      { intros r Hr. rewrite !Hz1 by lia. now apply HE. }
      assert (HN1 : normal x1 k).
      { intros r j Hr Hj. rewrite Hz1 in Hj by lia.
        destruct (nz_lt s r j W ltac:(lia) Hj) as (Hjn & _).
        rewrite Hr1 by lia. now apply (HN r j). }
      apply IH in H; try assumption; try lia.
      destruct H as (Hm & Hn & Hs & W' & Hr & Hz & Hkk & Hsz).
      rewrite Hm1 in *. rewrite Hn1 in *.
      msplit; try congruence.
      + intros a b Ha Hb Hak. rewrite Hr by assumption. now apply Hr1.
      + intros a Ha. rewrite Hz by assumption. now apply Hz1.
      + intros b Hb Hlt. rewrite Hkk; [|exact Hb|].
        * apply Hk1; [exact Hb|]. destruct (nz s t) as [jt|] eqn:Et; [|exact I]. apply (Hlt t jt); [lia|exact Et].
        * intros i j Hi Hj. rewrite Hz1 in Hj by lia. apply (Hlt i j); [lia|exact Hj].
      + intros i j Hi Hj. destruct (Nat.eq_dec i t) as [->|Hne].
        * destruct (nz_lt s t j W ltac:(lia) Hj) as (Hjn & _).
          rewrite Hkk; [now apply Hsz1|exact Hjn|].
          intros i' j' Hi' Hj'. rewrite Hz1 in Hj' by lia.
          pose proof (ech_lt s (S k) HE t i' Hi' ltac:(lia)) as Hok. rewrite Hj', Hj in Hok. exact Hok.
        * destruct (nz_lt s i j W ltac:(lia) Hj) as (Hjn & _).
          rewrite <- (Hr1 i j) by lia. apply Hsz; [lia|]. rewrite Hz1 by lia. exact Hj.
  Qed.

  Lemma hinv_init A fl : wf (length A) (lncols A) A -> hinv (data_new L A fl).
  Proof.
    intros W. unfold hinv, data_new, wfs. cbn [nr nc target step].
    split; [exact W|]. split; [lia|]. split; [now right|].
    split; [intros r Hr; lia|]. split; [intros r j Hr; lia|]. intros r r' j Hr Hr'. lia.
  Qed.

  Lemma iterate_hinv s s' : hinv s -> hnf_iterate L s = Some s' -> hinv s'.
  Proof.
    intros (W & Hst & Hle & HE & HN & HS).
    cbv beta zeta delta [hnf_iterate].
    destruct (step s) as [|p] eqn:Ek; [lia|]. replace (S p - 1) with p in * by lia.
    destruct (hnf_reduce L s p (S p)) as [s1|] eqn:E1; [|discriminate]. cbn [obind].
    destruct (hnf_reduce_spec s p (S p) s1 W E1) as (_ & Hk & Hm1 & Hn1 & Hs1 & W1 & u & q & Hu & HT1 & Hp).
    rewrite Ek in Hs1.
    assert (Hnz1 : forall a, a <= p -> nz s1 a = nz s a).
    { intros a Ha. destruct (Nat.eq_dec a p) as [->|Hne].
      - apply (nz_scale s s1 p u); try assumption; [lia|]. intros b Hb. rewrite HT1 by lia. now rewrite Nat.eqb_refl.
      - apply nz_ext; try assumption; [lia|]. intros b Hb. rewrite HT1 by lia.
        destruct (Nat.eqb_spec a p); [contradiction|]. destruct (Nat.eqb_spec a (S p)); [lia|reflexivity]. }
    assert (HE1 : ech s1 (S p)).
    { intros r Hr. rewrite !Hnz1 by lia. now apply HE. }
    assert (HN1 : normal s1 (S p)).
    { intros r j Hr Hj. rewrite Hnz1 in Hj by lia.
      destruct (nz_lt s r j W ltac:(lia) Hj) as (Hjn & _).
      rewrite HT1 by lia. destruct (Nat.eqb_spec r p) as [->|Hne].
      - rewrite Hj in Hp. apply Hp.
      - destruct (Nat.eqb_spec r (S p)); [lia|]. apply HN; [lia|exact Hj]. }
    assert (HS1 : small s1 (S p)).
    { intros r r' j Hr Hr' Hj. rewrite Hnz1 in Hj by lia.
      destruct (nz_lt s r j W ltac:(lia) Hj) as (Hjn & _).
      specialize (HS r r' j Hr Hr' Hj).
      rewrite !HT1 by lia.
      destruct (Nat.eqb_spec r p); [lia|]. destruct (Nat.eqb_spec r (S p)); [lia|].
      destruct (Nat.eqb_spec r' p) as [->|]; [rewrite (ll_norm_unit L LW) by exact Hu; exact HS|].
      destruct (Nat.eqb_spec r' (S p)); [lia|exact HS]. }
    assert (HSk : forall j, nz s1 p = Some j -> (lnormz L (T s1 (S p) j) < lnormz L (T s1 p j))%Z).
    { intros j Hj. destruct (nz_lt s1 p j W1 ltac:(lia) Hj) as (_ & Hnz & _).
      rewrite Hnz1 in Hj by lia. rewrite Hj in Hp. destruct Hp as (_ & _ & Hsz).
      now apply (ll_size_norm L LW). }
    destruct (hnf_is_ok L s1 (S p)) as [[|]|] eqn:Eok; [| |discriminate]; cbn [obind].
    - (* the ordering rule holds: reduce against the rows above, advance *)
      assert (Hok : ok2 (nz s1 p) (nz s1 (S p))).
      { revert Eok. cbv beta zeta delta [hnf_is_ok]. replace (S p - 1) with p by lia.
        destruct (_ || _); [discriminate|].
        destruct (nz s1 p) as [j|], (nz s1 (S p)) as [l|]; cbn [ok2]; try trivial; try discriminate.
        intros H. injection H as H. now apply Nat.ltb_lt. }
      assert (HE2 : ech s1 (S (S p))).
      { intros r Hr. destruct (Nat.eq_dec r p) as [->|]; [exact Hok|apply HE1; lia]. }
      destruct (ofold _ _ s1) as [s2|] eqn:E2; [|discriminate]. cbn [obind].
      intros H. injection H as <-.
      apply (reduce_rest (S p) p s1 s2 W1) in E2; try assumption; try lia.
      destruct E2 as (Hm2 & Hn2 & Hs2 & W2 & Hr2 & Hz2 & Hk2 & Hsz2).
        rewrite Hm1 in *. rewrite Hn1 in *.
        unfold hinv, wfs. cbn [next with_step nr nc target step].
        rewrite Hs2, Hs1. replace (S (S p) - 1) with (S p) by lia.
        split; [exact W2|]. split; [lia|]. split; [left; lia|].
        change (ech s2 (S (S p)) /\ normal s2 (S p) /\ small s2 (S (S p))).
        split; [|split].
        * intros r Hr. rewrite !Hz2 by lia. now apply HE2.
        * intros r j Hr Hj. rewrite Hz2 in Hj by lia.
          destruct (nz_lt s1 r j W1 ltac:(lia) Hj) as (Hjn & _). rewrite ?Hn1 in Hjn.
          rewrite Hr2 by lia. now apply HN1.
        * intros r r' j Hr Hr' Hj. rewrite Hz2 in Hj by lia.
          destruct (nz_lt s1 r j W1 ltac:(lia) Hj) as (Hjn & _). rewrite ?Hn1 in Hjn.
          rewrite (Hr2 r j) by lia.
          destruct (Nat.eq_dec r' (S p)) as [->|Hne].
          -- destruct (Nat.eq_dec r p) as [->|Hrp].
             ++ rewrite Hk2; [now apply HSk|exact Hjn|].
                intros i j' Hi Hj'. pose proof (ech_lt s1 (S (S p)) HE2 p i Hi ltac:(lia)) as Hok'.
                rewrite Hj', Hj in Hok'. exact Hok'.
             ++ apply Hsz2; [lia|exact Hj].
          -- rewrite Hr2 by lia. apply HS1; [exact Hr|lia|exact Hj].
    - (* swap rows k-1, k and go back *)
      destruct (swap L s1 (S p)) as [s2|] eqn:E2; [|discriminate]. cbn [obind].
      intros H. injection H as <-.
      apply swap_spec in E2. destruct E2 as (_ & _ & Hm2 & Hn2 & Hs2 & W2 & HT2).
      rewrite Hm1 in *. rewrite Hn1 in *. replace (S p - 1) with p in HT2 by lia.
      unfold back. rewrite Hs2, Hs1.
      destruct (Nat.ltb_spec 1 (S p)) as [Hp1|Hp1].
      + unfold hinv, wfs. cbn [with_step nr nc target step]. replace (S p - 1) with p by lia.
        assert (Hz2 : forall a, a < p -> nz s2 a = nz s1 a).
        { intros a Ha. apply nz_ext; try assumption; try congruence; try lia. intros b Hb. rewrite HT2 by lia.
          destruct (Nat.eqb_spec a p); [lia|]. destruct (Nat.eqb_spec a (S p)); [lia|reflexivity]. }
        assert (Hr2 : forall a b, a < p -> b < nc s -> T s2 a b = T s1 a b).
        { intros a b Ha Hb. rewrite HT2 by lia.
          destruct (Nat.eqb_spec a p); [lia|]. destruct (Nat.eqb_spec a (S p)); [lia|reflexivity]. }
        split; [exact W2|]. split; [lia|]. split; [left; lia|].
        change (ech s2 p /\ normal s2 (p - 1) /\ small s2 p).
        split; [|split].
        * intros r Hr. rewrite !Hz2 by lia. apply HE1. lia.
        * intros r j Hr Hj. rewrite Hz2 in Hj by lia.
          destruct (nz_lt s1 r j W1 ltac:(lia) Hj) as (Hjn & _). rewrite ?Hn1 in Hjn.
          rewrite Hr2 by lia. apply HN1; [lia|exact Hj].
        * intros r r' j Hr Hr' Hj. rewrite Hz2 in Hj by lia.
          destruct (nz_lt s1 r j W1 ltac:(lia) Hj) as (Hjn & _). rewrite ?Hn1 in Hjn.
          rewrite !Hr2 by lia. apply HS1; [exact Hr|lia|exact Hj].
      + assert (p = 0) by lia. subst p.
        unfold hinv. rewrite Hs2, Hs1.
        split; [exact W2|]. split; [lia|]. split; [now right|].
        split; [intros r Hr; lia|]. split; [intros r j Hr; lia|]. intros r r' j Hr Hr'. lia.
  Qed.

  Lemma hnf_loop_hinv fuel : forall s s', hinv s -> hnf_loop L fuel s = Some s' -> hinv s' /\ nr s' <= step s'.
  Proof.
    induction fuel as [|f IH]; intros s s' HI; cbn [hnf_loop];
      destruct (Nat.ltb_spec (step s) (nr s)) as [Hlt|Hge]; try discriminate;
      try (intros H; injection H as <-; split; [exact HI|exact Hge]).
    destruct (hnf_iterate L s) as [s1|] eqn:E; [|discriminate]. cbn [obind].
    apply IH. now apply (iterate_hinv s).
  Qed.

  (* every step keeps the shape *)
  Definition dims (m n : nat) (s : lll_data (R := R)) : Prop := wfs s /\ nr s = m /\ nc s = n.

  Lemma hnf_reduce_dims m n s i k s' : dims m n s -> hnf_reduce L s i k = Some s' -> dims m n s'.
  Proof.
    intros (W & Hm & Hn) H. destruct (hnf_reduce_spec s i k s' W H) as (_ & _ & Hm' & Hn' & _ & W' & _).
    unfold dims. msplit; [exact W'|congruence|congruence].
  Qed.

  Lemma hnf_iterate_dims m n s s' : dims m n s -> hnf_iterate L s = Some s' -> dims m n s'.
  Proof.
    intros D. cbv beta zeta delta [hnf_iterate].
    destruct (hnf_reduce L s _ _) as [s1|] eqn:E1; [|discriminate]. cbn [obind].
    apply (hnf_reduce_dims m n) in E1; [|exact D].
    destruct (hnf_is_ok L s1 _) as [[|]|]; [| |discriminate]; cbn [obind].
    - destruct (ofold _ _ s1) as [s2|] eqn:E2; [|discriminate]. cbn [obind].
      intros H. injection H as <-. change (dims m n s2).
      eapply (ofold_inv _ (dims m n) (fun _ => True)); [| |exact E1|exact E2]; [|auto].
      intros x i x' _ Hx Hf. now apply (hnf_reduce_dims m n x i (step s)).
    - destruct (swap L s1 _) as [s2|] eqn:E2; [|discriminate]. cbn [obind].
      intros H. injection H as <-.
      apply swap_spec in E2. destruct E2 as (_ & _ & Hm2 & Hn2 & _ & W2 & _).
      destruct E1 as (_ & Hm1 & Hn1).
      assert (D2 : dims m n s2) by (unfold dims; msplit; [exact W2|congruence|congruence]).
      unfold back. destruct (_ <? _)%nat; [exact D2|exact D2].
  Qed.

  Lemma hnf_loop_dims m n fuel : forall s s', dims m n s -> hnf_loop L fuel s = Some s' -> dims m n s'.
  Proof.
    induction fuel as [|f IH]; intros s s' D; cbn [hnf_loop]; destruct (_ <? _)%nat; try discriminate;
      try (intros H; injection H as <-; exact D).
    destruct (hnf_iterate L s) as [s1|] eqn:E; [|discriminate]. cbn [obind].
    apply IH. now apply (hnf_iterate_dims m n s).
  Qed.

  (* the state after LLLHNFCalc::process *)
  Definition hfinal (s : lll_data) : Prop :=
    wfs s /\ ech s (nr s) /\ normal s (nr s) /\ small s (nr s).

  Lemma hnf_final_hfinal s s' : hinv s -> nr s <= step s -> hnf_final L s = Some s' -> hfinal s'.
  Proof.
    intros (W & Hst & Hle & HE & HN & HS) Hex. unfold hfinal. cbv beta zeta delta [hnf_final].
    destruct (Nat.ltb_spec 0 (nr s)) as [Hm|Hm].
    - assert (Hstep : step s = nr s) by lia. rewrite Hstep in *.
      destruct (nz s (nr s - 1)) as [j|] eqn:Enz.
      + destruct (nz_lt s (nr s - 1) j W ltac:(lia) Enz) as (Hjn & _).
        change (mget L (target s) (nr s - 1) j) with (T s (nr s - 1) j).
        destruct (reqb_spec o RL (lnunit L (T s (nr s - 1) j)) one) as [Eu|Eu].
        * intros H. injection H as <-. msplit; try assumption; try reflexivity.
          intros r j' Hr Hj'. destruct (Nat.eq_dec r (nr s - 1)) as [->|Hne].
          -- rewrite Enz in Hj'. injection Hj' as <-. exact Eu.
          -- apply HN; [lia|exact Hj'].
        * intros H. apply mul_row_spec in H. destruct H as (Hu & _ & Hm' & Hn' & _ & W' & HT).
          assert (Hz : forall a, a < nr s -> nz s' a = nz s a).
          { intros a Ha. destruct (Nat.eq_dec a (nr s - 1)) as [->|Hne].
            - apply (nz_scale s s' _ (lnunit L (T s (nr s - 1) j))); try assumption.
              intros b Hb. rewrite HT by lia. now rewrite Nat.eqb_refl.
            - apply nz_ext; try assumption. intros b Hb. rewrite HT by lia.
              destruct (Nat.eqb_spec a (nr s - 1)); [contradiction|reflexivity]. }
          rewrite Hm'. split; [exact W'|]. split; [|split].
          -- intros r Hr. rewrite !Hz by lia. now apply HE.
          -- intros r j' Hr Hj'. rewrite Hz in Hj' by lia.
             destruct (nz_lt s r j' W ltac:(lia) Hj') as (Hjn' & _).
             rewrite HT by lia. destruct (Nat.eqb_spec r (nr s - 1)) as [->|Hne].
             ++ rewrite Enz in Hj'. injection Hj' as <-. apply (ll_nunit_idem L LW).
             ++ apply HN; [lia|exact Hj'].
          -- intros r r' j' Hr Hr' Hj'. rewrite Hz in Hj' by lia.
             destruct (nz_lt s r j' W ltac:(lia) Hj') as (Hjn' & _).
             specialize (HS r r' j' Hr Hr' Hj').
             rewrite !HT by lia.
             destruct (Nat.eqb_spec r (nr s - 1)); [lia|].
             destruct (Nat.eqb_spec r' (nr s - 1)); [rewrite (ll_norm_unit L LW) by exact Hu|]; exact HS.
      + intros H. injection H as <-. msplit; try assumption; try reflexivity.
        intros r j' Hr Hj'. destruct (Nat.eq_dec r (nr s - 1)) as [->|Hne]; [congruence|].
        apply HN; [lia|exact Hj'].
    - intros H. injection H as <-. assert (E0 : nr s = 0) by lia. rewrite E0.
      split; [exact W|]. split; [intros r Hr; lia|]. split; [intros r j Hr; lia|]. intros r r' j Hr Hr'. lia.
  Qed.

  Lemma hnf_run_hfinal A fl fuel s : wf (length A) (lncols A) A -> hnf_run L A fl fuel = Some s ->
    hfinal s /\ nr s = length A /\ nc s = lncols A.
  Proof.
    intros W. unfold hnf_run, hnf_process.
    destruct (hnf_loop L fuel _) as [s1|] eqn:E; [|discriminate]. cbn [obind]. intros H.
    pose proof (hnf_loop_hinv fuel _ _ (hinv_init A fl W) E) as [HI Hex].
    split; [now apply (hnf_final_hfinal s1)|].
    assert (Hd : dims (length A) (lncols A) s1).
    { apply (hnf_loop_dims _ _ fuel (data_new L A fl) s1); [|exact E].
      unfold dims, wfs, data_new. cbn [nr nc target]. auto. }
    destruct Hd as (_ & Hm1 & Hn1).

    revert H. cbv beta zeta delta [hnf_final]. destruct (_ <? _)%nat; [|intros H; injection H as <-; split; assumption].
    destruct (nz s1 _) as [j|]; [|intros H; injection H as <-; split; assumption].
    destruct (reqb o _ _); [intros H; injection H as <-; split; assumption|].
    intros H. apply mul_row_spec in H. destruct H as (_ & _ & Hm' & Hn' & _). split; congruence.
  Qed.

  (* ---------- LLLHNFCalc::result reverses the rows ---------- *)
  Lemma fold_swap_rows m n : forall t T0, t <= m / 2 ->
    forall a b, a < m -> b < n ->
    lget o (fold_left (fun (M : lmat R) i => m_swap_rows L m n M i (m - i - 1)) (seq 0 t) T0) a b
    = lget o T0 (if (a <? t) || (m - t <=? a) then m - 1 - a else a) b.
  Proof.
    induction t as [|t IH]; intros T0 Ht a b Ha Hb.
    - cbn [seq fold_left]. destruct (Nat.ltb_spec a 0); [lia|]. destruct (Nat.leb_spec (m - 0) a); [lia|]. reflexivity.
    - pose proof (Nat.mul_div_le m 2 ltac:(lia)) as Hd.
      rewrite seq_S, fold_left_app. cbn [fold_left plus]. rewrite (lget_m_swap_rows L) by assumption.
      rewrite IH; try lia;
        [|destruct (Nat.eqb_spec a t); [lia|]; destruct (Nat.eqb_spec a (m - t - 1)); lia].
      destruct (Nat.eqb_spec a t) as [->|Hat].
      + destruct (Nat.ltb_spec (m - t - 1) t); [lia|]. destruct (Nat.leb_spec (m - t) (m - t - 1)); [lia|].
        destruct (Nat.ltb_spec t (S t)); [|lia]. cbn [orb]. f_equal. lia.
      + destruct (Nat.eqb_spec a (m - t - 1)) as [->|Hat'].
        * destruct (Nat.ltb_spec t t); [lia|]. destruct (Nat.leb_spec (m - t) t); [lia|].
          destruct (Nat.ltb_spec (m - t - 1) (S t)); destruct (Nat.leb_spec (m - S t) (m - t - 1)); cbn [orb]; try lia;
            f_equal; lia.
        * destruct (Nat.ltb_spec a t); destruct (Nat.leb_spec (m - t) a);
            destruct (Nat.ltb_spec a (S t)); destruct (Nat.leb_spec (m - S t) a); cbn [orb]; try lia; reflexivity.
  Qed.

  Lemma hnf_result_fst (s : lll_data (R := R)) : forall l x,
    fst (fst (fold_left (fun (x : lmat R * option (lmat R) * option (lmat R)) (i : nat) =>
        let '(t, p, pinv) := x in
        let j := (nr s - i - 1)%nat in
        (m_swap_rows L (nr s) (nc s) t i j,
         option_map (fun p => m_swap_rows L (nr s) (nr s) p i j) p,
         option_map (fun q => m_swap_cols L (nr s) (nr s) q i j) pinv)) l x))
    = fold_left (fun (M : lmat R) i => m_swap_rows L (nr s) (nc s) M i (nr s - i - 1)) l (fst (fst x)).
  Proof.
    induction l as [|i l IH]; intros x; cbn [fold_left]; [reflexivity|].
    rewrite IH. destruct x as [[t p] q]. reflexivity.
  Qed.

  Lemma hnf_result_rows s a b : a < nr s -> b < nc s ->
    lget o (fst (fst (hnf_result L s))) a b = T s (nr s - 1 - a) b.
  Proof.
    intros Ha Hb. cbv beta zeta delta [hnf_result]. rewrite hnf_result_fst. cbn [fst].
    rewrite fold_swap_rows by (try assumption; lia).
    pose proof (Nat.div_mod_eq (nr s) 2) as Hd. pose proof (Nat.mod_upper_bound (nr s) 2 ltac:(lia)) as Hr.
    destruct (Nat.ltb_spec a (nr s / 2)); destruct (Nat.leb_spec (nr s - nr s / 2) a); cbn [orb]; try reflexivity.
    f_equal. lia.
  Qed.

  (* ---------- the Hermite normal form shape ---------- *)
  (* for the m x n matrix H (as a function): row echelon form with the zero rows last, every pivot normalised,
     zeros below (and left-below) every pivot, and every entry above a pivot of strictly smaller norm *)
  Definition hnf_shape (m n : nat) (H : nat -> nat -> R) : Prop :=
    forall i, i < m ->
      ((forall b, b < n -> H i b = zero) /\ (forall i' b, i < i' -> i' < m -> b < n -> H i' b = zero))
      \/
      (exists j, j < n /\ H i j <> zero /\ (forall b, b < j -> H i b = zero) /\
                 lnunit L (H i j) = one /\
                 (forall i' b, i < i' -> i' < m -> b <= j -> H i' b = zero) /\
                 (forall i', i' < i -> (lnormz L (H i' j) < lnormz L (H i j))%Z)).

  Lemma hfinal_shape s (H : nat -> nat -> R) :
    hfinal s -> (forall a b, a < nr s -> b < nc s -> H a b = T s (nr s - 1 - a) b) ->
    hnf_shape (nr s) (nc s) H.
  Proof.
    intros (W & HE & HN & HS) HH i Hi.
    set (r := nr s - 1 - i). assert (Hr : r < nr s) by (unfold r; lia).
    destruct (nz s r) as [j|] eqn:Enz.
    - right. destruct (nz_lt s r j W Hr Enz) as (Hj & Hnz & Hz). exists j.
      split; [exact Hj|]. rewrite !HH by assumption. fold r.
      split; [exact Hnz|]. split; [|split; [|split]].
      + intros b Hb. rewrite HH by lia. fold r. now apply Hz.
      + now apply (HN r j).
      + intros i' b Hi' Hi'm Hb. rewrite HH by lia.
        set (r' := nr s - 1 - i'). assert (Hr' : r' < r) by (unfold r', r; lia).
        pose proof (ech_lt s (nr s) HE r r' Hr' Hr) as Hok. rewrite Enz in Hok.
        destruct (nz s r') as [j'|] eqn:Enz'.
        * cbn [ok2] in Hok. destruct (nz_lt s r' j' W ltac:(lia) Enz') as (_ & _ & Hz'). apply Hz'. lia.
        * apply (nz_none s r' W ltac:(lia) Enz'). lia.
      + intros i' Hi'. rewrite (HH i' j) by lia. apply (HS r (nr s - 1 - i') j); [unfold r; lia|lia|exact Enz].
    - left. split.
      + intros b Hb. rewrite HH by assumption. fold r. now apply (nz_none s r W Hr Enz).
      + intros i' b Hi' Hi'm Hb. rewrite HH by lia.
        set (r' := nr s - 1 - i'). assert (Hr' : r' < r) by (unfold r', r; lia).
        pose proof (ech_lt s (nr s) HE r r' Hr' Hr) as Hok. rewrite Enz in Hok.
        destruct (nz s r') as [j'|] eqn:Enz'; [cbn [ok2] in Hok; contradiction|].
        now apply (nz_none s r' W ltac:(lia) Enz').
  Qed.

  Theorem lll_hnf_shape A fl fuel H oP oQ :
    wf (length A) (lncols A) A ->
    lll_hnf L A fl fuel = Some (H, oP, oQ) ->
    wf (length A) (lncols A) H /\ hnf_shape (length A) (lncols A) (lget o H).
  Proof.
    intros W. unfold lll_hnf. destruct (hnf_run L A fl fuel) as [s|] eqn:E; [|discriminate]. cbn [obind].
    intros E1. injection E1 as E1.
    destruct (hnf_run_hfinal A fl fuel s W E) as (HF & Hm & Hn).
    assert (EH : H = fst (fst (hnf_result L s))) by now rewrite E1.
    split.
    - rewrite EH. cbv beta zeta delta [hnf_result]. rewrite hnf_result_fst. cbn [fst].
      rewrite <- Hm, <- Hn. destruct HF as (Ws & _).
      generalize (seq 0 (nr s / 2)). intros l. revert Ws. unfold wfs. generalize (target s).
      induction l as [|i l IH]; intros M WM; cbn [fold_left]; [exact WM|]. apply IH. apply wf_lmk.
    - rewrite <- Hm, <- Hn. apply (hfinal_shape s); [exact HF|].
      intros a b Ha Hb. rewrite EH. now apply hnf_result_rows.
  Qed.

  (* ---------- soundness of the executable checkers used by the correspondence run ---------- *)
  Lemma forallb_seq (f : nat -> bool) a n : forallb f (seq a n) = true <-> forall i, a <= i -> i < a + n -> f i = true.
  Proof.
    rewrite forallb_forall. split.
    - intros H i H1 H2. apply H. apply in_seq. lia.
    - intros H i Hi. apply in_seq in Hi. apply H; lia.
  Qed.

  Lemma hnf_shape_b_sound m n H : wf m n H -> hnf_shape_b L m n H = true -> hnf_shape m n (lget o H).
  Proof.
    intros [Hm Hf] Hb i Hi. unfold hnf_shape_b in Hb. rewrite forallb_seq in Hb. specialize (Hb i ltac:(lia) ltac:(lia)).
    assert (Hrow : forall a, a < m -> match first_nz L (mrow H a) 0 with
                                      | Some j => rowpiv n (lget o H a) (Some j)
                                      | None => rowpiv n (lget o H a) None end).
    { intros a Ha. unfold mrow.
      assert (Hl : length (nth a H []) = n) by (rewrite Forall_forall in Hf; apply Hf, nth_In; lia).
      pose proof (first_nz_rowpiv (nth a H []) 0) as Hx. rewrite Hl in Hx.
      destruct (first_nz L (nth a H []) 0) as [j|]; [|exact Hx]. destruct Hx as [_ Hx]. rewrite Nat.sub_0_r in Hx. exact Hx. }
    pose proof (Hrow i Hi) as Hri.
    destruct (first_nz L (mrow H i) 0) as [j|].
    - right. destruct Hri as (Hj & Hnz & Hz). exists j.
      rewrite !andb_true_iff in Hb. destruct Hb as [[Hb1 Hb2] Hb3].
      split; [exact Hj|]. split; [exact Hnz|]. split; [exact Hz|]. split; [|split].
      + now apply (reqb_eq o RL) in Hb1.
      + intros i' b Hi' Hi'm Hbj. rewrite forallb_seq in Hb2. specialize (Hb2 i' ltac:(lia) ltac:(lia)).
        rewrite forallb_seq in Hb2. specialize (Hb2 b ltac:(lia) ltac:(lia)). now apply (reqb_eq o RL) in Hb2.
      + intros i' Hi'. rewrite forallb_seq in Hb3. specialize (Hb3 i' ltac:(lia) ltac:(lia)). now apply Z.ltb_lt in Hb3.
    - left. split; [exact Hri|]. intros i' b Hi' Hi'm Hbn.
      rewrite forallb_seq in Hb. specialize (Hb i' ltac:(lia) ltac:(lia)).
      pose proof (Hrow i' Hi'm) as Hri'. destruct (first_nz L (mrow H i') 0); [discriminate|]. now apply Hri'.
  Qed.

  Lemma check_trans_sound m n A H P Q : check_trans L m n A H P Q = true ->
    meq m n (lget o H) (mmul o m (lget o P) (lget o A)) /\
    meq m m (mmul o m (lget o P) (lget o Q)) (mid o) /\
    meq m m (mmul o m (lget o Q) (lget o P)) (mid o).
  Proof.
    unfold check_trans, meqb. rewrite !andb_true_iff. intros [[[_ H1] H2] H3].
    apply (leqb_meq o RL) in H1, H2, H3. msplit.
    - intros a b Ha Hb. rewrite H1 by assumption. now apply lget_lmul.
    - intros a b Ha Hb. rewrite <- (lget_lmul o m m m) by assumption. rewrite H2 by assumption. now apply lget_lid.
    - intros a b Ha Hb. rewrite <- (lget_lmul o m m m) by assumption. rewrite H3 by assumption. now apply lget_lid.
  Qed.
End Hnf.
