(* C07 - universal coefficients, part 2: the statement for the output of the mirrored HomologyCalc.
   [calc_uct]      (rank, tors) = calculate d1 d2 and (_, tors') = calculate d2 d3 over Z, for ANY snf routine meeting
                   the C09 contract: for ANY Smith-type forms over F_p of d1 mod p and d2 mod p (sizes rp1, rp2)
                       n - rp1 - rp2 = rank + #{t in tors : p | t} + #{t in tors' : p | t};
   [calc_uct_fp]   hence the run of the same code over F_p on the reduced matrices (any snf routine over F_p meeting
                   the contract) reports exactly that rank, and no torsion;
   [mirror_uct]    closed instance: the snf parameter is the mirror of snf.rs over Z (with or without a preprocessing
                   step meeting its contract) and over F_p - the configuration the correspondence run executes;
   [calc_rank_Q], [mirror_rank_Q]  the same against Q: equal ranks, no torsion. *)
From Coq Require Import ZArith Znumtheory Arith List Lia Ring Bool QArith Qcanon.
Require Import Yui.Base.Ring Yui.Base.MatF Yui.Base.MatL Yui.Model.HomologyCalc.
Require Yui.Model.Snf.
Require Import Yui.Proofs.C07Algebra Yui.Proofs.C07Calc Yui.Proofs.C07Rank Yui.Proofs.C09UniqueModP Yui.Proofs.C07Uct.
Require Import Yui.Proofs.C09Inv Yui.Proofs.C09Run Yui.Proofs.C09Laws Yui.Proofs.C09Contract.
Import ListNotations.
Local Close Scope Q_scope.
Local Close Scope Qc_scope.
Local Close Scope Z_scope.

Module SNF := Yui.Model.Snf.
Local Notation fp_ring := SNF.fp_ring.
Local Notation fp := SNF.fp.
Local Notation fp_mk := SNF.fp_mk.

(* ---------- generic: base change of a dense matrix ---------- *)
Section BaseChange.
  Context {R R' : Type} (o : ring_ops R) (o' : ring_ops R') (phi : R -> R').
  Hypothesis phi0 : phi (rzero o) = rzero o'.

  Definition dmap (d : dmat R) : dmat R' := mkm (nr d) (nc d) (map (map phi) (ent d)).

  Lemma mget_dmap d i j : mget o' (dmap d) i j = phi (mget o d i j).
  Proof.
    unfold mget, dmap, lget. cbn [ent].
    change (@nil R') with (map phi []). rewrite map_nth. rewrite <- phi0. apply map_nth.
  Qed.

  Lemma mwf_dmap d : mwf d -> mwf (dmap d).
  Proof.
    unfold mwf, wf, dmap. cbn [nr nc ent]. intros [H1 H2]. split; [now rewrite map_length|].
    apply Forall_forall. intros r Hr. apply in_map_iff in Hr. destruct Hr as [r0 [<- Hr0]].
    rewrite map_length. rewrite Forall_forall in H2. now apply H2.
  Qed.
End BaseChange.

Lemma smith_form_ext {R} (o : ring_ops R) m n (A A' : mat R) r a :
  meq m n A A' -> smith_form o m n A r a -> smith_form o m n A' r a.
Proof.
  intros HA [P [Pi [Q [Qi [HP [HQ [He H]]]]]]]. exists P, Pi, Q, Qi.
  split; [exact HP|]. split; [exact HQ|]. split; [|exact H].
  intros i j Hi Hj. rewrite <- (He i j Hi Hj).
  apply (mmul_ext_r o). intros l Hl. apply (mmul_ext_l o). intros l' Hl'. symmetry. now apply HA.
Qed.

Lemma zdvd_of_mul (a b : Z) : (exists c, b = rmul Z_ring a c) -> (a | b)%Z.
Proof. intros [c ->]. exists c. cbn [rmul Z_ring]. apply Z.mul_comm. Qed.

(* ---------- over Z, against ranks modulo p ---------- *)
Section CalcUct.
  Variable isu : Z -> bool.
  Hypothesis isu_complete : forall a b : Z, rmul Z_ring a b = rone Z_ring -> isu a = true.
  Hypothesis isu_sound : forall a : Z, isu a = true -> exists b : Z, rmul Z_ring a b = rone Z_ring.
  Variable snf : dmat Z -> bool -> bool -> bool -> bool -> option (snf_result Z).
  Hypothesis HC : snf_contract Z_ring snf.

  Variable p : Z.
  Hypothesis Hp : prime p.

  (* what two consecutive calls give: chain Smith forms of d1 and d2 whose non-units are tors and tors' *)
  Lemma calc_two d1 d2 d3 wt wt' rank tors tr rank' tors' tr' :
    mwf d1 -> mwf d2 -> mwf d3 -> zero_prod Z_ring d1 d2 -> zero_prod Z_ring d2 d3 ->
    calculate Z_ring isu snf d1 d2 wt = Some (rank, tors, tr) ->
    calculate Z_ring isu snf d2 d3 wt' = Some (rank', tors', tr') ->
    nr d1 = nc d2 /\
    exists r1 a r2 b,
      smith_form Z_ring (nr d1) (nc d1) (mget Z_ring d1) r1 a /\ (forall k, (S k < r1)%nat -> (a k | a (S k))%Z) /\
      smith_form Z_ring (nr d2) (nr d1) (mget Z_ring d2) r2 b /\ (forall k, (S k < r2)%nat -> (b k | b (S k))%Z) /\
      (rank + r1 + r2 = nr d1)%nat /\
      tors = non_units isu (map a (seq 0 r1)) /\ tors' = non_units isu (map b (seq 0 r2)).
  Proof.
    intros W1 W2 W3 Z12 Z23 H1 H2.
    destruct (calculate_rank_tors Z_ring Z_ring_laws Z_integral isu isu_complete snf isu_sound
                d1 d2 wt rank tors tr HC W1 W2 Z12 H1)
      as [En [r1 [r2 [a [b [t [G1 [G2 [Hr [Hch [Ht _]]]]]]]]]]].
    destruct (calculate_rank_tors Z_ring Z_ring_laws Z_integral isu isu_complete snf isu_sound
                d2 d3 wt' rank' tors' tr' HC W2 W3 Z23 H2)
      as [_ [r1' [r2' [a' [b' [t' [G1' [_ [_ [Hch' [Ht' _]]]]]]]]]]].
    split; [exact En|].
    assert (E2 : r1' = r2).
    { exact (smith_form_rank_unique Z_ring Z_ring_laws Z_integral _ _ _ _ _ _ _ G1' G2). }
    subst r1'. exists r1, a, r2, a'.
    split; [exact G1|]. split; [intros k Hk; apply zdvd_of_mul; now apply Hch|].
    split; [rewrite En; exact G1'|]. split; [intros k Hk; apply zdvd_of_mul; now apply Hch'|].
    split; [exact Hr|]. split; [exact Ht|exact Ht'].
  Qed.

  Theorem calc_uct d1 d2 d3 wt wt' rank tors tr rank' tors' tr' :
    mwf d1 -> mwf d2 -> mwf d3 -> zero_prod Z_ring d1 d2 -> zero_prod Z_ring d2 d3 ->
    calculate Z_ring isu snf d1 d2 wt = Some (rank, tors, tr) ->
    calculate Z_ring isu snf d2 d3 wt' = Some (rank', tors', tr') ->
    forall rp1 c1 rp2 c2,
      smith_form (fp_ring p) (nr d1) (nc d1) (redp p (mget Z_ring d1)) rp1 c1 ->
      smith_form (fp_ring p) (nr d2) (nr d1) (redp p (mget Z_ring d2)) rp2 c2 ->
      (rp1 + rp2 <= nr d1)%nat /\
      (nr d1 - rp1 - rp2 = rank + length (filter (pdiv p) tors) + length (filter (pdiv p) tors'))%nat.
  Proof.
    intros W1 W2 W3 Z12 Z23 H1 H2 rp1 c1 rp2 c2 F1 F2.
    destruct (calc_two d1 d2 d3 wt wt' rank tors tr rank' tors' tr' W1 W2 W3 Z12 Z23 H1 H2)
      as [En [r1 [a [r2 [b [G1 [C1 [G2 [C2 [Hr [Ht Ht']]]]]]]]]]].
    destruct (uct_abstract p Hp (nc d1) (nr d1) (nr d2) (mget Z_ring d1) (mget Z_ring d2) r1 a r2 b rp1 c1 rp2 c2
                Z12 G1 C1 G2 C2 F1 F2) as [B [Bp [_ [_ [_ E]]]]].
    split; [exact Bp|]. rewrite E.
    rewrite (cnt_div_non_units p Hp isu a r1 isu_sound), (cnt_div_non_units p Hp isu b r2 isu_sound).
    fold (non_units isu (map a (seq 0 r1))). fold (non_units isu (map b (seq 0 r2))).
    rewrite <- Ht, <- Ht'. lia.
  Qed.

  (* the same code run over F_p on the reduced matrices *)
  Variable isup : fp p -> bool.
  Hypothesis isup_complete : forall a b : fp p, rmul (fp_ring p) a b = rone (fp_ring p) -> isup a = true.
  Hypothesis isup_sound : forall a : fp p, isup a = true -> exists b : fp p, rmul (fp_ring p) a b = rone (fp_ring p).
  Variable snfp : dmat (fp p) -> bool -> bool -> bool -> bool -> option (snf_result (fp p)).
  Hypothesis HCp : snf_contract (fp_ring p) snfp.

  Let Lp : ring_laws (fp_ring p) := fp_ring_laws p Hp.
  Let Ip : integral (fp_ring p) := sl_integral (SNF.fp_dict p) (fp_snf_laws p Hp).

  Definition dred : dmat Z -> dmat (fp p) := dmap (fp_mk p).

  Lemma mget_dred d i j : mget (fp_ring p) (dred d) i j = fp_mk p (mget Z_ring d i j).
  Proof. apply (mget_dmap Z_ring (fp_ring p) (fp_mk p) eq_refl). Qed.

  Lemma zero_prod_dred d1 d2 : zero_prod Z_ring d1 d2 -> zero_prod (fp_ring p) (dred d1) (dred d2).
  Proof.
    intros H. pose proof (redp_zero_prod p (nr d1) (nc d1) (nr d2) _ _ H) as H'.
    intros i j Hi Hj. cbn [dred dmap nr nc] in Hi, Hj |- *. rewrite <- (H' i j Hi Hj).
    apply (mmul_ext (fp_ring p) (nr d1) (nr d2) (nc d1)); try assumption; intros x y _ _; apply mget_dred.
  Qed.

  Theorem calc_uct_fp d1 d2 d3 wt wt' rank tors tr rank' tors' tr' wtp rankp torsp trp :
    mwf d1 -> mwf d2 -> mwf d3 -> zero_prod Z_ring d1 d2 -> zero_prod Z_ring d2 d3 ->
    calculate Z_ring isu snf d1 d2 wt = Some (rank, tors, tr) ->
    calculate Z_ring isu snf d2 d3 wt' = Some (rank', tors', tr') ->
    calculate (fp_ring p) isup snfp (dred d1) (dred d2) wtp = Some (rankp, torsp, trp) ->
    rankp = (rank + length (filter (pdiv p) tors) + length (filter (pdiv p) tors'))%nat /\ torsp = [].
  Proof.
    intros W1 W2 W3 Z12 Z23 H1 H2 Hq.
    destruct (calculate_rank_tors (fp_ring p) Lp Ip isup isup_complete snfp isup_sound
                (dred d1) (dred d2) wtp rankp torsp trp HCp
                (mwf_dmap (fp_mk p) d1 W1) (mwf_dmap (fp_mk p) d2 W2) (zero_prod_dred d1 d2 Z12) Hq)
      as [En [r1 [r2 [a [b [t [G1 [G2 [Hr [_ [Ht _]]]]]]]]]]].
    cbn [dred dmap nr nc] in En, G1, G2, Hr.
    assert (F1 : smith_form (fp_ring p) (nr d1) (nc d1) (redp p (mget Z_ring d1)) r1 a).
    { apply (smith_form_ext (fp_ring p) _ _ (mget (fp_ring p) (dred d1))); [|exact G1].
      intros i j _ _. apply mget_dred. }
    assert (F2 : smith_form (fp_ring p) (nr d2) (nr d1) (redp p (mget Z_ring d2)) r2 b).
    { rewrite En. apply (smith_form_ext (fp_ring p) _ _ (mget (fp_ring p) (dred d2))); [|exact G2].
      intros i j _ _. apply mget_dred. }
    destruct (calc_uct d1 d2 d3 wt wt' rank tors tr rank' tors' tr' W1 W2 W3 Z12 Z23 H1 H2 r1 a r2 b F1 F2) as [B E].
    split; [lia|].
    (* every non-zero element of F_p is a unit *)
    rewrite Ht. unfold non_units. apply filter_none. intros x Hx. apply in_map_iff in Hx.
    destruct Hx as [i [<- Hi]]. apply in_seq in Hi. apply negb_false_iff.
    destruct G1 as [_ [_ [_ [_ [_ [_ [_ [Hnz _]]]]]]]].
    apply (isup_complete (a i) (SNF.fp_inv p (a i))). apply (fp_inv_r p Hp). apply Hnz. lia.
  Qed.
End CalcUct.

(* ---------- closed instance: the mirror of snf.rs over Z and over F_p ---------- *)
Lemma Z_isu_complete : forall a b : Z, rmul Z_ring a b = rone Z_ring -> SNF.Z_is_unit a = true.
Proof. cbn [rmul rone Z_ring]. intros a b H. apply Z_is_unit_iff. now apply Z.mul_eq_1 in H. Qed.

Lemma Z_isu_sound : forall a : Z, SNF.Z_is_unit a = true -> exists b : Z, rmul Z_ring a b = rone Z_ring.
Proof. intros a H. apply Z_is_unit_iff in H. exists a. destruct H as [-> | ->]; reflexivity. Qed.

Definition field_isu {F} (o : ring_ops F) (a : F) : bool := negb (ris_zero o a).

Section FieldUnits.
  Context {F : Type} (o : ring_ops F) (L : ring_laws o) (Hint : integral o) (finv : F -> F).
  Hypothesis finv_r : forall a, a <> rzero o -> rmul o a (finv a) = rone o.

  Add Ring RringFU : (ring_theory_of_laws o L).

  Lemma field_isu_complete : forall a b : F, rmul o a b = rone o -> field_isu o a = true.
  Proof.
    intros a b H. unfold field_isu, ris_zero. apply negb_true_iff. apply (reqb_false o L). intros E. subst a.
    apply (proj1 Hint). rewrite <- H. ring.
  Qed.

  Lemma field_isu_sound : forall a : F, field_isu o a = true -> exists b : F, rmul o a b = rone o.
  Proof.
    intros a H. exists (finv a). apply finv_r. unfold field_isu, ris_zero in H. apply negb_true_iff in H.
    now apply (reqb_false o L) in H.
  Qed.
End FieldUnits.

Section Mirror.
  Variable pre : option (SNF.preproc Z).
  Hypothesis Hpre : pre_ok (SNF.Zpre_dict pre).
  Variable p : Z.
  Hypothesis Hp : prime p.

  Let snfZ := snf_adapter (SNF.Zpre_dict pre).
  Let snfP := snf_adapter (SNF.fp_dict p).

  Lemma mirror_contract_Z : snf_contract Z_ring snfZ.
  Proof. exact (snf_adapter_contract (SNF.Zpre_dict pre) (Zpre_snf_laws pre) Hpre). Qed.

  Lemma mirror_contract_fp : snf_contract (fp_ring p) snfP.
  Proof. exact (snf_adapter_contract (SNF.fp_dict p) (fp_snf_laws p Hp) I). Qed.

  Theorem mirror_uct d1 d2 d3 wt wt' rank tors tr rank' tors' tr' :
    mwf d1 -> mwf d2 -> mwf d3 -> zero_prod Z_ring d1 d2 -> zero_prod Z_ring d2 d3 ->
    calculate Z_ring SNF.Z_is_unit snfZ d1 d2 wt = Some (rank, tors, tr) ->
    calculate Z_ring SNF.Z_is_unit snfZ d2 d3 wt' = Some (rank', tors', tr') ->
    (forall rp1 c1 rp2 c2,
      smith_form (fp_ring p) (nr d1) (nc d1) (redp p (mget Z_ring d1)) rp1 c1 ->
      smith_form (fp_ring p) (nr d2) (nr d1) (redp p (mget Z_ring d2)) rp2 c2 ->
      (rp1 + rp2 <= nr d1)%nat /\
      (nr d1 - rp1 - rp2 = rank + length (filter (pdiv p) tors) + length (filter (pdiv p) tors'))%nat) /\
    (forall wtp rankp torsp trp,
      calculate (fp_ring p) (field_isu (fp_ring p)) snfP (dred p d1) (dred p d2) wtp = Some (rankp, torsp, trp) ->
      rankp = (rank + length (filter (pdiv p) tors) + length (filter (pdiv p) tors'))%nat /\ torsp = []).
  Proof.
    intros W1 W2 W3 Z12 Z23 H1 H2. split.
    - exact (calc_uct SNF.Z_is_unit Z_isu_complete Z_isu_sound snfZ mirror_contract_Z p Hp
               d1 d2 d3 wt wt' rank tors tr rank' tors' tr' W1 W2 W3 Z12 Z23 H1 H2).
    - intros wtp rankp torsp trp Hq.
      exact (calc_uct_fp SNF.Z_is_unit Z_isu_complete Z_isu_sound snfZ mirror_contract_Z p Hp
               (field_isu (fp_ring p))
               (field_isu_complete (fp_ring p) (fp_ring_laws p Hp) (sl_integral (SNF.fp_dict p) (fp_snf_laws p Hp)))
               (field_isu_sound (fp_ring p) (fp_ring_laws p Hp) (SNF.fp_inv p) (fp_inv_r p Hp))
               snfP mirror_contract_fp
               d1 d2 d3 wt wt' rank tors tr rank' tors' tr' wtp rankp torsp trp W1 W2 W3 Z12 Z23 H1 H2 Hq).
  Qed.
End Mirror.

(* ---------- against Q: the rational Betti number is the integral free rank ---------- *)
Lemma Q_inv_r : forall a : Qc, a <> rzero SNF.Q_ring -> rmul SNF.Q_ring a (Qcinv a) = rone SNF.Q_ring.
Proof. intros a Ha. cbn. now apply Qcmult_inv_r. Qed.

Section CalcQ.
  Variable isu : Z -> bool.
  Hypothesis isu_complete : forall a b : Z, rmul Z_ring a b = rone Z_ring -> isu a = true.
  Hypothesis isu_sound : forall a : Z, isu a = true -> exists b : Z, rmul Z_ring a b = rone Z_ring.
  Variable snf : dmat Z -> bool -> bool -> bool -> bool -> option (snf_result Z).
  Hypothesis HC : snf_contract Z_ring snf.

  Variable isuq : Qc -> bool.
  Hypothesis isuq_complete : forall a b : Qc, rmul SNF.Q_ring a b = rone SNF.Q_ring -> isuq a = true.
  Hypothesis isuq_sound : forall a : Qc, isuq a = true -> exists b : Qc, rmul SNF.Q_ring a b = rone SNF.Q_ring.
  Variable snfq : dmat Qc -> bool -> bool -> bool -> bool -> option (snf_result Qc).
  Hypothesis HCq : snf_contract SNF.Q_ring snfq.

  Let Iq : integral SNF.Q_ring := sl_integral SNF.Q_dict Q_snf_laws.

  Definition dredq : dmat Z -> dmat Qc := dmap z2q.

  Lemma mget_dredq d i j : mget SNF.Q_ring (dredq d) i j = z2q (mget Z_ring d i j).
  Proof. apply (mget_dmap Z_ring SNF.Q_ring z2q eq_refl). Qed.

  Lemma zero_prod_dredq d1 d2 : zero_prod Z_ring d1 d2 -> zero_prod SNF.Q_ring (dredq d1) (dredq d2).
  Proof.
    intros H. pose proof (redq_zero_prod (nr d1) (nc d1) (nr d2) _ _ H) as H'.
    intros i j Hi Hj. cbn [dredq dmap nr nc] in Hi, Hj |- *. rewrite <- (H' i j Hi Hj).
    apply (mmul_ext SNF.Q_ring (nr d1) (nr d2) (nc d1)); try assumption; intros x y _ _; apply mget_dredq.
  Qed.

  Theorem calc_rank_Q d1 d2 wt rank tors tr :
    mwf d1 -> mwf d2 -> zero_prod Z_ring d1 d2 ->
    calculate Z_ring isu snf d1 d2 wt = Some (rank, tors, tr) ->
    (forall rq1 c1 rq2 c2,
       smith_form SNF.Q_ring (nr d1) (nc d1) (redq (mget Z_ring d1)) rq1 c1 ->
       smith_form SNF.Q_ring (nr d2) (nr d1) (redq (mget Z_ring d2)) rq2 c2 ->
       (rq1 + rq2 <= nr d1)%nat /\ (nr d1 - rq1 - rq2 = rank)%nat) /\
    (forall wtq rankq torsq trq,
       calculate SNF.Q_ring isuq snfq (dredq d1) (dredq d2) wtq = Some (rankq, torsq, trq) ->
       rankq = rank /\ torsq = []).
  Proof.
    intros W1 W2 Z12 H1.
    destruct (calculate_rank_tors Z_ring Z_ring_laws Z_integral isu isu_complete snf isu_sound
                d1 d2 wt rank tors tr HC W1 W2 Z12 H1)
      as [En [r1 [r2 [a [b [t [G1 [G2 [Hr _]]]]]]]]].
    rewrite <- En in G2.
    assert (A : forall rq1 c1 rq2 c2,
       smith_form SNF.Q_ring (nr d1) (nc d1) (redq (mget Z_ring d1)) rq1 c1 ->
       smith_form SNF.Q_ring (nr d2) (nr d1) (redq (mget Z_ring d2)) rq2 c2 ->
       (rq1 + rq2 <= nr d1)%nat /\ (nr d1 - rq1 - rq2 = rank)%nat).
    { intros rq1 c1 rq2 c2 F1 F2.
      rewrite (rank_over_Q _ _ _ _ _ _ _ G1 F1), (rank_over_Q _ _ _ _ _ _ _ G2 F2). lia. }
    split; [exact A|].
    intros wtq rankq torsq trq Hq.
    destruct (calculate_rank_tors SNF.Q_ring Q_ring_laws Iq isuq isuq_complete snfq isuq_sound
                (dredq d1) (dredq d2) wtq rankq torsq trq HCq
                (mwf_dmap z2q d1 W1) (mwf_dmap z2q d2 W2) (zero_prod_dredq d1 d2 Z12) Hq)
      as [Enq [q1 [q2 [aq [bq [tq [Q1 [Q2 [Hrq [_ [Htq _]]]]]]]]]]].
    cbn [dredq dmap nr nc] in Enq, Q1, Q2, Hrq.
    assert (F1 : smith_form SNF.Q_ring (nr d1) (nc d1) (redq (mget Z_ring d1)) q1 aq).
    { apply (smith_form_ext SNF.Q_ring _ _ (mget SNF.Q_ring (dredq d1))); [|exact Q1].
      intros i j _ _. apply mget_dredq. }
    assert (F2 : smith_form SNF.Q_ring (nr d2) (nr d1) (redq (mget Z_ring d2)) q2 bq).
    { rewrite Enq. apply (smith_form_ext SNF.Q_ring _ _ (mget SNF.Q_ring (dredq d2))); [|exact Q2].
      intros i j _ _. apply mget_dredq. }
    destruct (A q1 aq q2 bq F1 F2) as [B E].
    split; [lia|].
    rewrite Htq. unfold non_units. apply filter_none. intros x Hx. apply in_map_iff in Hx.
    destruct Hx as [i [<- Hi]]. apply in_seq in Hi. apply negb_false_iff.
    destruct Q1 as [_ [_ [_ [_ [_ [_ [_ [Hnz _]]]]]]]].
    apply (isuq_complete (aq i) (Qcinv (aq i))). apply Q_inv_r. apply Hnz. lia.
  Qed.
End CalcQ.

Section MirrorQ.
  Variable pre : option (SNF.preproc Z).
  Hypothesis Hpre : pre_ok (SNF.Zpre_dict pre).

  Theorem mirror_rank_Q d1 d2 wt rank tors tr :
    mwf d1 -> mwf d2 -> zero_prod Z_ring d1 d2 ->
    calculate Z_ring SNF.Z_is_unit (snf_adapter (SNF.Zpre_dict pre)) d1 d2 wt = Some (rank, tors, tr) ->
    (forall rq1 c1 rq2 c2,
       smith_form SNF.Q_ring (nr d1) (nc d1) (redq (mget Z_ring d1)) rq1 c1 ->
       smith_form SNF.Q_ring (nr d2) (nr d1) (redq (mget Z_ring d2)) rq2 c2 ->
       (rq1 + rq2 <= nr d1)%nat /\ (nr d1 - rq1 - rq2 = rank)%nat) /\
    (forall wtq rankq torsq trq,
       calculate SNF.Q_ring (field_isu SNF.Q_ring) (snf_adapter SNF.Q_dict) (dredq d1) (dredq d2) wtq
         = Some (rankq, torsq, trq) ->
       rankq = rank /\ torsq = []).
  Proof.
    exact (calc_rank_Q SNF.Z_is_unit Z_isu_complete Z_isu_sound (snf_adapter (SNF.Zpre_dict pre))
             (mirror_contract_Z pre Hpre)
             (field_isu SNF.Q_ring)
             (field_isu_complete SNF.Q_ring Q_ring_laws (sl_integral SNF.Q_dict Q_snf_laws))
             (field_isu_sound SNF.Q_ring Q_ring_laws Qcinv Q_inv_r)
             (snf_adapter SNF.Q_dict) (snf_adapter_contract SNF.Q_dict Q_snf_laws I) d1 d2 wt rank tors tr).
  Qed.
End MirrorQ.
