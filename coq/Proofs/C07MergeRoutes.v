(* C07, composition of coordinate maps, part 4: the three ways of obtaining the homology summand of a complex whose
   summands carry coordinate maps agree:
     ChainComplexBase::homology_at                    (c.trans().merged(h.trans()), not reduced)       [b_homology_at]
     s = c[i].clone(); s.merge(h)                     (Summand::merge: merge + reduce)                 [b_homology_merge]
     s = from_raw_gens(..); s.merge(c[i]); s.merge(h) (merge of an already merged summand)             [b_homology_merge_twice]
   one returns a summand iff the others do, with the same rank and torsion, and vectorize / devectorize / gen agree on
   every input. *)
From Coq Require Import ZArith Arith List Lia Ring Bool.
Require Import Yui.Base.Ring Yui.Base.MatF Yui.Base.MatL Yui.Model.HomologyCalc Yui.Model.HomologyMerge.
Require Import Yui.Proofs.C07Calc Yui.Proofs.C07MergeTrans Yui.Proofs.C07Merge Yui.Proofs.C07MergeComplex.
Import ListNotations.

Section C07MergeRoutes.
  Context {R : Type} (o : ring_ops R) (L : ring_laws o).
  Variable isu : R -> bool.
  Variable snf : dmat R -> bool -> bool -> bool -> bool -> option (snf_result R).

  (* with_trans = true always yields a Trans *)
  Lemma calculate_true_some d1 d2 rank tors tr :
    calculate o isu snf d1 d2 true = Some (rank, tors, tr) -> exists t, tr = Some t.
  Proof.
    unfold calculate. intros H. destruct (negb (nr d1 =? nc d2)); [discriminate|].
    destruct (d_is_zero o d1 && d_is_zero o d2).
    - injection H as _ _ <-. eexists; reflexivity.
    - inv_bind H. inv_bind H. inv_bind H. injection H as _ _ <-. eexists; reflexivity.
  Qed.

  Lemma b_compute_ok C i h : b_compute_homology_at o isu snf C i = Some h -> summand_ok h.
  Proof.
    unfold b_compute_homology_at. intros E. inv_bind E. inv_bind E. inv_bind E.
    destruct p as [[rank tors] tr].
    destruct (calculate_true_some _ _ _ _ _ E2) as [t ->].
    pose proof (calculate_trans_ok o isu snf _ _ _ _ _ _ E2) as Okt.
    exact (proj1 (summand_generate_ok _ _ _ _ E Okt)).
  Qed.

  (* same rank / torsion / generators and the same action on every input *)
  Definition summand_equiv (a b : summand R) : Prop :=
    s_ngens a = s_ngens b /\ s_rank a = s_rank b /\ s_tors a = s_tors b /\
    (forall z, vectorize o a z = vectorize o b z) /\
    (forall v, devectorize o a v = devectorize o b v) /\
    (forall k, gen o a k = gen o b k).

  Lemma summand_equiv_of_parts a b :
    s_ngens a = s_ngens b -> s_rank a = s_rank b -> s_tors a = s_tors b ->
    (forall z, forward o (s_trans a) z = forward o (s_trans b) z) ->
    (forall v, backward o (s_trans a) v = backward o (s_trans b) v) ->
    summand_equiv a b.
  Proof.
    intros N1 N2 N3 HF HB. unfold summand_equiv.
    assert (Hdev : forall v, devectorize o a v = devectorize o b v).
    { intros v. unfold devectorize, s_dim. rewrite N2, N3, HB. reflexivity. }
    split; [exact N1|]. split; [exact N2|]. split; [exact N3|]. split; [|split].
    - intros z. unfold vectorize. rewrite N1, HF. reflexivity.
    - exact Hdev.
    - intros k. unfold gen, s_dim. rewrite N2, N3. destruct (unit_vec o _ k); cbn [obind]; [apply Hdev|reflexivity].
  Qed.

  (* ---------- homology_at  vs  merge ---------- *)
  Theorem b_routes_agree C i :
    bc_ok C i ->
    (forall hl, b_homology_at o isu snf C i = Some hl ->
       exists hm, b_homology_merge o isu snf C i = Some hm /\ summand_equiv hm hl) /\
    (forall hm, b_homology_merge o isu snf C i = Some hm ->
       exists hl, b_homology_at o isu snf C i = Some hl /\ summand_equiv hm hl).
  Proof.
    intros [[S1 [S2 S3]] _]. unfold b_homology_at, b_homology_merge.
    destruct (b_compute_homology_at o isu snf C i) as [h|] eqn:Eh; cbn [obind]; [|split; intros x Hx; discriminate].
    pose proof (b_compute_ok C i h Eh) as [H1 [H2 H3]].
    set (c := b_get C i) in *.
    unfold summand_merge, trans_merge.
    destruct (Nat.eqb_spec (tgt_dim (s_trans c)) (src_dim (s_trans h))) as [G|G].
    - destruct (trans_merged_spec o L _ _ S3 H3 G) as [tm [Etm [Okm [M1 [M2 _]]]]].
      rewrite Etm. cbn [obind].
      destruct (trans_reduce_spec o L tm Okm) as [t' [Et' [Ok' [T1 [T2 _]]]]].
      rewrite Et'. cbn [obind].
      assert (Enew : summand_new (s_ngens c) (s_rank h) (s_tors h) tm
                     = Some (mk_summand (s_ngens c) (s_rank h) (s_tors h) tm)).
      { unfold summand_new. rewrite M1, M2, S1, H2. unfold s_dim. now rewrite !Nat.eqb_refl. }
      rewrite Enew.
      assert (Q : summand_equiv (mk_summand (s_ngens c) (s_rank h) (s_tors h) t')
                                (mk_summand (s_ngens c) (s_rank h) (s_tors h) tm)).
      { apply summand_equiv_of_parts; try reflexivity; cbn [s_trans].
        - exact (trans_reduce_forward o L tm t' Okm Et').
        - exact (trans_reduce_backward o L tm t' Okm Et'). }
      split; intros x Hx; injection Hx as <-; eexists; (split; [reflexivity|exact Q]).
    - rewrite (trans_merged_none _ _ G). cbn [obind]. split; intros x Hx; discriminate.
  Qed.

  (* ---------- merge  vs  merge of an already merged summand ---------- *)
  Lemma vectorize_free n z : vectorize o (@summand_free R n) z = if length z =? n then Some z else None.
  Proof.
    unfold vectorize, summand_free, forward, trans_id. cbn [s_ngens s_trans src_dim f_mats ofold_vec].
    destruct (length z =? n); reflexivity.
  Qed.

  Lemma devectorize_free n v : devectorize o (@summand_free R n) v = if length v =? n then Some v else None.
  Proof.
    unfold devectorize, summand_free, backward, trans_id, s_dim.
    cbn [s_rank s_tors s_trans tgt_dim b_mats rev ofold_vec length]. rewrite Nat.add_0_r.
    destruct (length v =? n); reflexivity.
  Qed.

  Theorem b_merge_twice_agree C i :
    bc_ok C i ->
    (forall hm, b_homology_merge o isu snf C i = Some hm ->
       exists ht, b_homology_merge_twice o isu snf C i = Some ht /\ summand_equiv ht hm) /\
    (forall ht, b_homology_merge_twice o isu snf C i = Some ht ->
       exists hm, b_homology_merge o isu snf C i = Some hm /\ summand_equiv ht hm).
  Proof.
    intros [Okc _]. unfold b_homology_merge, b_homology_merge_twice.
    destruct (b_compute_homology_at o isu snf C i) as [h|] eqn:Eh; cbn [obind]; [|split; intros x Hx; discriminate].
    pose proof (b_compute_ok C i h Eh) as Okh.
    set (c := b_get C i) in *.
    pose proof (summand_free_ok (R := R) (s_ngens c)) as Okf.
    assert (Hfc : s_dim (@summand_free R (s_ngens c)) = s_ngens c).
    { unfold s_dim, summand_free. cbn. lia. }
    destruct (summand_merge_spec o L _ c Okf Okc Hfc) as [s1 [E1 [Ok1 [A1 [A2 [A3 _]]]]]].
    rewrite E1. cbn [obind].
    assert (D1 : s_dim s1 = s_dim c) by (unfold s_dim; congruence).
    (* s1 acts as c *)
    assert (V1 : forall z, vectorize o s1 z = vectorize o c z).
    { intros z. rewrite (merge_vectorize o L _ c s1 Okf Okc E1 z). rewrite vectorize_free.
      destruct (Nat.eqb_spec (length z) (s_ngens c)) as [Hz|Hz]; cbn [obind]; [reflexivity|].
      unfold vectorize. apply Nat.eqb_neq in Hz. now rewrite Hz. }
    assert (W1 : forall v, devectorize o s1 v = devectorize o c v).
    { intros v. rewrite (merge_devectorize o L _ c s1 Okf Okc E1 v).
      destruct (devectorize o c v) as [y|] eqn:Ey; cbn [obind]; [|reflexivity].
      rewrite devectorize_free.
      assert (Hy : length y = s_ngens c).
      { unfold devectorize in Ey. destruct (length v =? s_dim c); [|discriminate].
        destruct Okc as [C1 [C2 C3]]. destruct (backward_inv o L _ _ _ C3 Ey) as [_ [Y _]]. congruence. }
      rewrite Hy, Nat.eqb_refl. reflexivity. }
    destruct (Nat.eq_dec (s_dim c) (s_ngens h)) as [G|G].
    - destruct (summand_merge_spec o L c h Okc Okh G) as [hm [Em [Okm [B1 [B2 [B3 _]]]]]].
      assert (G' : s_dim s1 = s_ngens h) by congruence.
      destruct (summand_merge_spec o L s1 h Ok1 Okh G') as [ht [Et [Okt [C1 [C2 [C3 _]]]]]].
      rewrite Em, Et.
      assert (Q : summand_equiv ht hm).
      { unfold summand_equiv. split; [unfold summand_free in A1; cbn in A1; congruence|].
        split; [congruence|]. split; [congruence|]. split; [|split].
        - intros z. rewrite (merge_vectorize o L s1 h ht Ok1 Okh Et z), (merge_vectorize o L c h hm Okc Okh Em z).
          now rewrite V1.
        - intros v. rewrite (merge_devectorize o L s1 h ht Ok1 Okh Et v), (merge_devectorize o L c h hm Okc Okh Em v).
          destruct (devectorize o h v); cbn [obind]; [apply W1|reflexivity].
        - intros k. rewrite (merge_gen o L s1 h ht Ok1 Okh Et k), (merge_gen o L c h hm Okc Okh Em k).
          destruct (gen o h k); cbn [obind]; [apply W1|reflexivity]. }
      split; intros x Hx; injection Hx as <-; eexists; (split; [reflexivity|exact Q]).
    - rewrite (summand_merge_none o c h Okc Okh G).
      assert (G' : s_dim s1 <> s_ngens h) by congruence.
      rewrite (summand_merge_none o s1 h Ok1 Okh G').
      split; intros x Hx; discriminate.
  Qed.
End C07MergeRoutes.
