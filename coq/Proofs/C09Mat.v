(* C09 - entry lemmas for the list-matrix operations of Model/Snf.v and the elementary matrices
   they are multiplication by (DESIGN.md appendix A.3). *)
From Coq Require Import ZArith List Bool Arith Lia Ring.
Require Import Yui.Base.Ring Yui.Base.MatF Yui.Base.MatL Yui.Model.Snf.
Import ListNotations.

(* ---------- mapi ---------- *)
Section Mapi.
  Context {A : Type}.
  Lemma mapi_from_length k (f : nat -> A -> A) l : length (mapi_from k f l) = length l.
  Proof. revert k. induction l as [|x r IH]; intros k; cbn; [reflexivity|]. now rewrite IH. Qed.
  Lemma mapi_length (f : nat -> A -> A) l : length (mapi f l) = length l.
  Proof. apply mapi_from_length. Qed.
  Lemma mapi_from_nth k (f : nat -> A -> A) l i d :
    i < length l -> nth i (mapi_from k f l) d = f (k + i) (nth i l d).
  Proof.
    revert k i. induction l as [|x r IH]; intros k i Hi; cbn in Hi; [lia|].
    destruct i as [|i]; cbn.
    - now rewrite Nat.add_0_r.
    - rewrite IH by lia. f_equal. lia.
  Qed.
  Lemma mapi_nth (f : nat -> A -> A) l i d : i < length l -> nth i (mapi f l) d = f i (nth i l d).
  Proof. intros H. unfold mapi. now rewrite mapi_from_nth. Qed.
  Lemma mapi_from_in k (f : nat -> A -> A) l y :
    In y (mapi_from k f l) -> exists i x, In x l /\ y = f i x.
  Proof.
    revert k. induction l as [|x r IH]; intros k H; cbn in H; [contradiction|].
    destruct H as [<-|H].
    - exists k, x. split; [now left|reflexivity].
    - destruct (IH _ H) as [i [x' [Hin ->]]]. exists i, x'. split; [now right|reflexivity].
  Qed.
End Mapi.

(* case analysis on every [x =? y] in the goal *)
Ltac ncase0 :=
  repeat match goal with |- context [Nat.eqb ?x ?y] => destruct (Nat.eqb_spec x y) end; try subst.
Ltac ncase :=
  repeat match goal with |- context [Nat.eqb ?x ?y] => destruct (Nat.eqb_spec x y) end;
  try subst; try reflexivity; try contradiction; try congruence; try lia.

Section MatOps.
  Context {R : Type} (D : euc_dict R).
  Let o := ed_ring D.
  Context (L : ring_laws o).
  Add Ring Rring : (ring_theory_of_laws o L).

  Local Notation "0" := (rzero o).
  Local Notation "1" := (rone o).
  Local Infix "+" := (radd o).
  Local Infix "*" := (rmul o).
  Local Notation "- x" := (rneg o x).
  Local Notation get := (lget o).
  Implicit Types A : lmat R.
  Implicit Types M E : mat R.

  Lemma mget_lget A i j : mget D A i j = get A i j.
  Proof. reflexivity. Qed.

  Lemma wf_row m n A i : wf m n A -> i < m -> length (nth i A []) = n.
  Proof.
    intros [H1 H2] Hi. rewrite Forall_forall in H2. apply H2, nth_In. lia.
  Qed.

  Lemma wf_intro m n (A : lmat R) :
    length A = m -> (forall r, In r A -> length r = n) -> wf m n A.
  Proof. intros H1 H2. split; [exact H1|]. now apply Forall_forall. Qed.

  Lemma wf_in m n (A : lmat R) r : wf m n A -> In r A -> length r = n.
  Proof. intros [_ H] Hr. rewrite Forall_forall in H. now apply H. Qed.

  Lemma get_out_row m n A i j : wf m n A -> m <= i -> get A i j = 0.
  Proof.
    intros [H1 _] Hi. unfold lget. rewrite (nth_overflow A) by lia. now destruct j.
  Qed.
  Lemma get_out_col m n A i j : wf m n A -> n <= j -> get A i j = 0.
  Proof.
    intros W Hj. destruct (Nat.lt_ge_cases i m) as [Hi|Hi].
    - unfold lget. apply nth_overflow. rewrite (wf_row m n A i W Hi). lia.
    - now apply (get_out_row m n).
  Qed.

  (* ----- identity ----- *)
  Lemma id_mat_eq n : id_mat D n = lid o n.
  Proof. reflexivity. Qed.
  Lemma wf_id n : wf n n (id_mat D n).
  Proof. rewrite id_mat_eq. apply wf_lmk. Qed.
  Lemma get_id n i j : i < n -> j < n -> get (id_mat D n) i j = mid o i j.
  Proof. intros. rewrite id_mat_eq. now apply lget_lid. Qed.

  (* ----- swap rows ----- *)
  Definition swp (i j r : nat) : nat := if r =? i then j else if r =? j then i else r.

  Lemma wf_swap_rows m n i j A : wf m n A -> i < m -> j < m -> wf m n (m_swap_rows i j A).
  Proof.
    intros W Hi Hj. apply wf_intro.
    - unfold m_swap_rows. rewrite mapi_length. apply W.
    - intros r Hr. unfold m_swap_rows, mapi in Hr. apply mapi_from_in in Hr.
      destruct Hr as [k [x [Hx ->]]].
      destruct (k =? i); [|destruct (k =? j)].
      + apply (wf_in m n A); [exact W|]. apply nth_In. destruct W; lia.
      + apply (wf_in m n A); [exact W|]. apply nth_In. destruct W; lia.
      + now apply (wf_in m n A).
  Qed.

  Lemma get_swap_rows m n i j A r c :
    wf m n A -> i < m -> j < m -> r < m -> get (m_swap_rows i j A) r c = get A (swp i j r) c.
  Proof.
    intros W Hi Hj Hr. unfold lget, m_swap_rows, swp.
    rewrite mapi_nth by (destruct W; lia).
    destruct (r =? i); [|destruct (r =? j)]; try reflexivity;
      f_equal; apply nth_indep; destruct W; lia.
  Qed.

  (* ----- swap columns ----- *)
  Lemma l_swap_length i j (r : list R) : length (l_swap i j r) = length r.
  Proof. apply mapi_length. Qed.

  Lemma wf_swap_cols m n i j A : wf m n A -> wf m n (m_swap_cols i j A).
  Proof.
    intros W. apply wf_intro.
    - unfold m_swap_cols. rewrite map_length. apply W.
    - intros r Hr. unfold m_swap_cols in Hr. apply in_map_iff in Hr. destruct Hr as [x [<- Hx]].
      rewrite l_swap_length. now apply (wf_in m n A).
  Qed.

  Lemma nth_map_row (f : list R -> list R) A r : f [] = [] -> nth r (map f A) [] = f (nth r A []).
  Proof. intros H. rewrite <- H at 1. apply map_nth. Qed.

  Lemma get_swap_cols m n i j A r c :
    wf m n A -> i < n -> j < n -> r < m -> c < n -> get (m_swap_cols i j A) r c = get A r (swp i j c).
  Proof.
    intros W Hi Hj Hr Hc. unfold lget, m_swap_cols.
    rewrite nth_map_row by reflexivity.
    pose proof (wf_row m n A r W Hr) as Hl.
    unfold l_swap. rewrite mapi_nth by lia. unfold swp.
    destruct (c =? i); [|destruct (c =? j)]; try reflexivity; apply nth_indep; lia.
  Qed.

  (* ----- scaling ----- *)
  Lemma wf_mul_row m n i u A : wf m n A -> wf m n (m_mul_row D i u A).
  Proof.
    intros W. apply wf_intro.
    - unfold m_mul_row. rewrite mapi_length. apply W.
    - intros r Hr. unfold m_mul_row, mapi in Hr. apply mapi_from_in in Hr.
      destruct Hr as [k [x [Hx ->]]]. destruct (k =? i); [rewrite map_length|]; now apply (wf_in m n A).
  Qed.

  Lemma get_mul_row m n i u A r c :
    wf m n A -> r < m -> c < n ->
    get (m_mul_row D i u A) r c = if r =? i then get A r c * u else get A r c.
  Proof.
    intros W Hr Hc. unfold lget, m_mul_row. rewrite mapi_nth by (destruct W; lia).
    destruct (r =? i); [|reflexivity].
    pose proof (wf_row m n A r W Hr) as Hl.
    rewrite nth_indep with (d' := 0 * u) by (rewrite map_length; lia).
    now rewrite (map_nth (fun x => x * u)).
  Qed.

  Lemma wf_mul_col m n j u A : wf m n A -> wf m n (m_mul_col D j u A).
  Proof.
    intros W. apply wf_intro.
    - unfold m_mul_col. rewrite map_length. apply W.
    - intros r Hr. unfold m_mul_col in Hr. apply in_map_iff in Hr. destruct Hr as [x [<- Hx]].
      rewrite mapi_length. now apply (wf_in m n A).
  Qed.

  Lemma get_mul_col m n j u A r c :
    wf m n A -> r < m -> c < n ->
    get (m_mul_col D j u A) r c = if c =? j then get A r c * u else get A r c.
  Proof.
    intros W Hr Hc. unfold lget, m_mul_col. rewrite nth_map_row by reflexivity.
    pose proof (wf_row m n A r W Hr) as Hl. now rewrite mapi_nth by lia.
  Qed.

  (* ----- 2x2 row operation ----- *)
  Lemma comb_length a b (ri rj : list R) : length (comb D a b ri rj) = Nat.min (length ri) (length rj).
  Proof. unfold comb. now rewrite map_length, combine_length. Qed.

  Lemma combine_nth_lt {X Y : Type} (l : list X) (l' : list Y) k x y :
    k < length l -> k < length l' -> nth k (combine l l') (x, y) = (nth k l x, nth k l' y).
  Proof.
    revert l' k. induction l as [|a l IH]; intros [|b l'] k H1 H2; cbn in *; try lia.
    destruct k; [reflexivity|]. apply IH; lia.
  Qed.

  Lemma comb_nth a b (ri rj : list R) k :
    k < length ri -> k < length rj -> nth k (comb D a b ri rj) 0 = nth k ri 0 * a + nth k rj 0 * b.
  Proof.
    intros H1 H2. unfold comb.
    rewrite nth_indep with (d' := (fun p => fst p * a + snd p * b) (0, 0))
      by (rewrite map_length, combine_length; lia).
    rewrite (map_nth (fun p => fst p * a + snd p * b)), combine_nth_lt by lia. reflexivity.
  Qed.

  Lemma wf_left_elem m n a b c d i j A : wf m n A -> i < m -> j < m -> wf m n (m_left_elem D a b c d i j A).
  Proof.
    intros W Hi Hj. apply wf_intro.
    - unfold m_left_elem. rewrite mapi_length. apply W.
    - intros r Hr. unfold m_left_elem, mapi in Hr. apply mapi_from_in in Hr.
      destruct Hr as [k [x [Hx ->]]].
      pose proof (wf_row m n A i W Hi). pose proof (wf_row m n A j W Hj).
      destruct (k =? j); [|destruct (k =? i)]; try (rewrite comb_length; lia).
      now apply (wf_in m n A).
  Qed.

  Lemma get_left_elem m n a b c d i j A r k :
    wf m n A -> i < m -> j < m -> r < m -> k < n ->
    get (m_left_elem D a b c d i j A) r k =
      if r =? j then get A i k * c + get A j k * d
      else if r =? i then get A i k * a + get A j k * b
      else get A r k.
  Proof.
    intros W Hi Hj Hr Hk. unfold lget, m_left_elem. rewrite mapi_nth by (destruct W; lia).
    pose proof (wf_row m n A i W Hi). pose proof (wf_row m n A j W Hj).
    destruct (r =? j); [|destruct (r =? i)]; try reflexivity; now rewrite comb_nth by lia.
  Qed.

  (* ----- 2x2 column operation ----- *)
  Lemma wf_right_elem m n a b c d i j A : wf m n A -> wf m n (m_right_elem D a b c d i j A).
  Proof.
    intros W. apply wf_intro.
    - unfold m_right_elem. rewrite map_length. apply W.
    - intros r Hr. unfold m_right_elem in Hr. apply in_map_iff in Hr. destruct Hr as [x [<- Hx]].
      rewrite mapi_length. now apply (wf_in m n A).
  Qed.

  Lemma get_right_elem m n a b c d i j A r k :
    wf m n A -> r < m -> k < n ->
    get (m_right_elem D a b c d i j A) r k =
      if k =? j then get A r i * c + get A r j * d
      else if k =? i then get A r i * a + get A r j * b
      else get A r k.
  Proof.
    intros W Hr Hk. unfold lget, m_right_elem.
    rewrite (nth_map_row (fun r0 => mapi _ r0)) by reflexivity.
    pose proof (wf_row m n A r W Hr) as Hl. now rewrite mapi_nth by lia.
  Qed.

  (* =====================================================================================
     Elementary matrices (functional) and their action
     ===================================================================================== *)
  (* identity except for the 2x2 block [a b; c d] at rows/columns (i, j) *)
  Definition E2 (a b c d : R) (i j : nat) : mat R := fun r l =>
    if r =? j then (if l =? i then c else if l =? j then d else 0)
    else if r =? i then (if l =? i then a else if l =? j then b else 0)
    else if r =? l then 1 else 0.
  (* diagonal matrix: u at (i, i), 1 elsewhere *)
  Definition Esc (u : R) (i : nat) : mat R := fun r l => if r =? l then (if r =? i then u else 1) else 0.

  Lemma sum_two n i j (f g : nat -> R) :
    i <> j -> i < n -> j < n ->
    sum o n (fun l => if l =? i then f l else if l =? j then g l else 0) = f i + g j.
  Proof.
    intros Hij Hi Hj.
    rewrite (sum_ext o n _ (fun l => (if l =? i then f l else 0) + (if l =? j then g l else 0))).
    - rewrite (sum_add o L), (sum_delta o L), (sum_delta o L) by assumption. reflexivity.
    - intros l _. destruct (Nat.eqb_spec l i) as [E1|E1]; destruct (Nat.eqb_spec l j) as [E3|E3]; try ring.
      exfalso. congruence.
  Qed.

  (* left action of E2 *)
  Lemma E2_left n a b c d i j (M : mat R) r k :
    i <> j -> i < n -> j < n -> r < n ->
    mmul o n (E2 a b c d i j) M r k =
      if r =? j then c * M i k + d * M j k
      else if r =? i then a * M i k + b * M j k
      else M r k.
  Proof.
    intros Hij Hi Hj Hr. unfold mmul, E2.
    destruct (Nat.eqb_spec r j) as [->|Hrj]; [|destruct (Nat.eqb_spec r i) as [->|Hri]].
    - rewrite (sum_ext o n _ (fun l => if l =? i then c * M l k else if l =? j then d * M l k else 0)).
      + now rewrite sum_two.
      + intros l _. destruct (l =? i); [reflexivity|]. destruct (l =? j); [reflexivity|ring].
    - rewrite (sum_ext o n _ (fun l => if l =? i then a * M l k else if l =? j then b * M l k else 0)).
      + now rewrite sum_two.
      + intros l _. destruct (l =? i); [reflexivity|]. destruct (l =? j); [reflexivity|ring].
    - rewrite (sum_ext o n _ (fun l => if l =? r then M l k else 0)).
      + now rewrite (sum_delta o L).
      + intros l _. rewrite (Nat.eqb_sym r l). destruct (l =? r); ring.
  Qed.

  Lemma Esc_left n u i (M : mat R) r k :
    r < n -> mmul o n (Esc u i) M r k = if r =? i then u * M r k else M r k.
  Proof.
    intros Hr. unfold mmul, Esc.
    rewrite (sum_ext o n _ (fun l => if l =? r then (if r =? i then u * M l k else M l k) else 0)).
    - rewrite (sum_delta o L) by assumption. reflexivity.
    - intros l _. rewrite (Nat.eqb_sym r l). destruct (l =? r); [|ring]. destruct (r =? i); ring.
  Qed.

  (* right action, by transposition *)
  Lemma mmul_trans_r n (M E : mat R) r k : mmul o n M (mtrans E) r k = mmul o n E (mtrans M) k r.
  Proof. unfold mmul, mtrans. apply sum_ext. intros l _. ring. Qed.

  Lemma E2_trans a b c d i j r l : i <> j -> mtrans (E2 a b c d i j) r l = E2 a c b d i j r l.
  Proof.
    intros Hij. unfold mtrans, E2. ncase.
  Qed.

  Lemma E2_right n a b c d i j (M : mat R) r k :
    i <> j -> i < n -> j < n -> k < n ->
    mmul o n M (E2 a b c d i j) r k =
      if k =? j then M r i * b + M r j * d
      else if k =? i then M r i * a + M r j * c
      else M r k.
  Proof.
    intros Hij Hi Hj Hk.
    transitivity (mmul o n M (mtrans (E2 a c b d i j)) r k).
    { unfold mmul. apply sum_ext. intros l _. now rewrite E2_trans. }
    rewrite mmul_trans_r, E2_left by assumption. unfold mtrans.
    destruct (k =? j); [ring|]. destruct (k =? i); [ring|reflexivity].
  Qed.

  Lemma Esc_right n u i (M : mat R) r k :
    k < n -> mmul o n M (Esc u i) r k = if k =? i then M r k * u else M r k.
  Proof.
    intros Hk. unfold mmul, Esc.
    rewrite (sum_ext o n _ (fun l => if l =? k then (if k =? i then M r l * u else M r l) else 0)).
    - rewrite (sum_delta o L) by assumption. reflexivity.
    - intros l _. destruct (Nat.eqb_spec l k) as [->|]; [|ring]. destruct (k =? i); ring.
  Qed.

  (* products of elementary matrices *)
  Lemma E2_mul n a b c d a' b' c' d' i j r k :
    i <> j -> i < n -> j < n -> r < n ->
    a * a' + b * c' = 1 -> a * b' + b * d' = 0 -> c * a' + d * c' = 0 -> c * b' + d * d' = 1 ->
    mmul o n (E2 a b c d i j) (E2 a' b' c' d' i j) r k = mid o r k.
  Proof.
    intros Hij Hi Hj Hr H1 H2 H3 H4. rewrite E2_left by assumption. unfold E2, mid.
    ncase0; try assumption; try ring; exfalso; congruence.
  Qed.

  Lemma Esc_mul n u v i r k : r < n -> u * v = 1 -> mmul o n (Esc u i) (Esc v i) r k = mid o r k.
  Proof.
    intros Hr Huv. rewrite Esc_left by assumption. unfold Esc, mid.
    ncase0; try assumption; try ring; exfalso; congruence.
  Qed.

  (* ----- the list operations as multiplications ----- *)
  Lemma left_elem_mmul m n a b c d i j A r k :
    wf m n A -> i <> j -> i < m -> j < m -> r < m -> k < n ->
    get (m_left_elem D a b c d i j A) r k = mmul o m (E2 a b c d i j) (get A) r k.
  Proof.
    intros W Hij Hi Hj Hr Hk. rewrite (get_left_elem m n), E2_left by assumption.
    destruct (r =? j); [ring|]. destruct (r =? i); [ring|reflexivity].
  Qed.

  Lemma right_elem_mmul m n a b c d i j A r k :
    wf m n A -> i <> j -> i < n -> j < n -> r < m -> k < n ->
    get (m_right_elem D a b c d i j A) r k = mmul o n (get A) (E2 a c b d i j) r k.
  Proof.
    intros W Hij Hi Hj Hr Hk. rewrite (get_right_elem m n), E2_right by assumption. reflexivity.
  Qed.

  Lemma swap_rows_mmul m n i j A r k :
    wf m n A -> i <> j -> i < m -> j < m -> r < m -> k < n ->
    get (m_swap_rows i j A) r k = mmul o m (E2 0 1 1 0 i j) (get A) r k.
  Proof.
    intros W Hij Hi Hj Hr Hk. rewrite (get_swap_rows m n), E2_left by assumption. unfold swp.
    ncase0; try ring; exfalso; congruence.
  Qed.

  Lemma swap_cols_mmul m n i j A r k :
    wf m n A -> i <> j -> i < n -> j < n -> r < m -> k < n ->
    get (m_swap_cols i j A) r k = mmul o n (get A) (E2 0 1 1 0 i j) r k.
  Proof.
    intros W Hij Hi Hj Hr Hk. rewrite (get_swap_cols m n), E2_right by assumption. unfold swp.
    ncase0; try ring; exfalso; congruence.
  Qed.

  Lemma mul_row_mmul m n i u A r k :
    wf m n A -> r < m -> k < n -> get (m_mul_row D i u A) r k = mmul o m (Esc u i) (get A) r k.
  Proof.
    intros W Hr Hk. rewrite (get_mul_row m n), Esc_left by assumption. destruct (r =? i); [ring|reflexivity].
  Qed.

  Lemma mul_col_mmul m n j u A r k :
    wf m n A -> r < m -> k < n -> get (m_mul_col D j u A) r k = mmul o n (get A) (Esc u j) r k.
  Proof.
    intros W Hr Hk. rewrite (get_mul_col m n), Esc_right by assumption. reflexivity.
  Qed.
End MatOps.
