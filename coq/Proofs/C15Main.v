(* C15: the statements of Properties/C15.v, assembled from C15Int / C15Gcd / C15Quad / C15Field / C15Machine. *)
From Coq Require Import ZArith Lia Bool Znumtheory.
Require Import Yui.Base.Ring Yui.Model.Euclid.
Require Import Yui.Proofs.C15Gcd Yui.Proofs.C15Int Yui.Proofs.C15Quad Yui.Proofs.C15Field Yui.Proofs.C15Machine.
Local Open Scope Z_scope.

(* ---------- nearest-integer division ---------- *)
Lemma div_round_main a b : b <> 0 ->
  exists q, int_div_round a b = Some q /\
    2 * Z.abs (a - q * b) <= Z.abs b /\
    (2 * Z.abs (a - q * b) = Z.abs b -> Z.abs a < Z.abs (q * b)) /\
    (forall q', 2 * Z.abs (a - q' * b) <= Z.abs b ->
                (2 * Z.abs (a - q' * b) = Z.abs b -> Z.abs a < Z.abs (q' * b)) -> q' = q).
Proof.
  intros Hb. destruct (int_div_round_spec a b Hb) as (q & E & H1 & H2). exists q.
  split; [exact E|]. split; [exact H1|]. split; [exact H2|].
  intros q' A B. apply (round_spec_unique a b q' q Hb); split; assumption.
Qed.

(* machine widths: no silent wrap, and no spurious panic either *)
Lemma fits_spec k x : fits k x = true <-> - 2 ^ (k - 1) <= x < 2 ^ (k - 1).
Proof. unfold fits. rewrite andb_true_iff, Z.leb_le, Z.ltb_lt. tauto. Qed.
Lemma chk_fit k x : fits k x = true -> chk (Some k) x = Some x.
Proof. intros H. cbn. now rewrite H. Qed.

Lemma quot_bound M a b : 0 < M -> - M <= a < M -> b <> 0 -> ~ (a = - M /\ b = -1) -> - M <= Z.quot a b < M.
Proof.
  intros HM Ha Hb Hx. destruct (quot_rem_facts a b Hb) as (E & Hr & Hp & Hn).
  set (d := Z.quot a b) in *. set (r := Z.rem a b) in *. clearbody d r.
  nia.
Qed.

Lemma w_div_round_total k a b : 1 < k -> fits k a = true -> fits k b = true -> b <> 0 ->
  ~ (a = - 2 ^ (k - 1) /\ b = -1) -> exists q, w_div_round (Some k) a b = Some q.
Proof.
  intros Hk Fa Fb Hb Hx. apply fits_spec in Fa, Fb.
  set (M := 2 ^ (k - 1)) in *.
  assert (HM : 2 <= M).
  { unfold M. replace (k - 1) with (1 + (k - 2)) by lia. rewrite Z.pow_add_r by lia.
    pose proof (Z.pow_pos_nonneg 2 (k - 2)). lia. }
  pose proof (quot_bound M a b ltac:(lia) Fa Hb Hx) as Hq.
  destruct (quot_rem_facts a b Hb) as (E & Hr & Hp & Hn).
  unfold w_div_round, w_div, w_rem. destruct (Z.eqb_spec b 0) as [|_]; [contradiction|].
  set (d := Z.quot a b) in *. set (r := Z.rem a b) in *.
  assert (Fd : fits k d = true) by (apply fits_spec; exact Hq).
  rewrite (chk_fit k d Fd). cbn [obind].
  destruct (Z.eqb_spec r 0) as [Zr|NZr]; [eauto|].
  assert (F1 : forall x, - M <= x < M -> chk (Some k) x = Some x).
  { intros x Hxx. apply chk_fit, fits_spec. exact Hxx. }
  destruct (Z.ltb_spec 0 r) as [R|R]; destruct (Z.ltb_spec 0 b) as [B|B];
    try rewrite (F1 (- r)) by lia; try rewrite (F1 (- b)) by lia; cbn [obind];
    match goal with |- context [chk (Some k) (?x - ?y)] => rewrite (F1 (x - y)) by lia end; cbn [obind];
    match goal with |- context [negb (?x <=? ?y)] => destruct (Z.leb_spec x y) as [T|T] end; cbn [negb]; eauto;
    destruct (Bool.eqb _ _); rewrite F1; eauto; clearbody d r; nia.
Qed.

Lemma w_div_round_min k : 1 < k -> w_div_round (Some k) (- 2 ^ (k - 1)) (-1) = None.
Proof.
  intros Hk. unfold w_div_round, w_div. cbn [Z.eqb]. 
  assert (H : Z.quot (- 2 ^ (k - 1)) (-1) = 2 ^ (k - 1)).
  { change (-1) with (Z.opp 1). rewrite Z.quot_opp_opp by lia. apply Z.quot_1_r. }
  rewrite H. cbn [chk]. unfold fits. rewrite (proj2 (Z.ltb_ge _ _)) by lia. rewrite andb_false_r. reflexivity.
Qed.

Lemma machine_div_round k a b :
  w_div_round None a b = int_div_round a b /\
  (forall v, w_div_round (Some k) a b = Some v -> int_div_round a b = Some v /\ - 2 ^ (k - 1) <= v < 2 ^ (k - 1)) /\
  (1 < k -> fits k a = true -> fits k b = true -> b <> 0 -> ~ (a = - 2 ^ (k - 1) /\ b = -1) ->
     exists q, w_div_round (Some k) a b = Some q).
Proof.
  split; [apply w_div_round_none|]. split; [|apply w_div_round_total].
  intros v H. split; [eapply w_div_round_sound; exact H|].
  (* the result passed a width check, or is the checked truncated quotient *)
  unfold w_div_round in H.
  destruct (w_div (Some k) a b) as [d|] eqn:Ed; [|discriminate]. cbn [obind] in H.
  assert (Fd : - 2 ^ (k - 1) <= d < 2 ^ (k - 1)).
  { unfold w_div in Ed. destruct (b =? 0); [discriminate|]. eapply chk_fits; exact Ed. }
  destruct (w_rem (Some k) a b) as [r|]; [|discriminate]. cbn [obind] in H.
  destruct (r =? 0); [injection H as <-; exact Fd|].
  destruct (if 0 <? r then chk (Some k) (- r) else Some r) as [nr|]; [|discriminate]. cbn [obind] in H.
  destruct (if 0 <? b then chk (Some k) (- b) else Some b) as [nq|]; [|discriminate]. cbn [obind] in H.
  destruct (chk (Some k) (nq - nr)) as [df|]; [|discriminate]. cbn [obind] in H.
  destruct (negb (nr <=? df)); [injection H as <-; exact Fd|].
  destruct (Bool.eqb (a <? 0) (b <? 0)); eapply chk_fits; exact H.
Qed.

(* ---------- division with remainder, with the strict norm decrease ---------- *)
Lemma gauss_division u v : v <> q_zero ->
  exists q r, g_div u v = Some q /\ g_rem u v = Some r /\ u = q_add (g_mul q v) r /\
              2 * g_norm r <= g_norm v /\ (r = q_zero \/ g_norm r < g_norm v).
Proof.
  intros Hv. destruct (g_div_rem u v Hv) as (q & r & H1 & H2 & H3 & H4). exists q, r.
  repeat split; try assumption. right. pose proof (g_norm_pos v Hv). pose proof (g_norm_nonneg r). lia.
Qed.
Lemma eisen_division u v : v <> q_zero ->
  exists q r, e_div u v = Some q /\ e_rem u v = Some r /\ u = q_add (e_mul q v) r /\
              4 * e_norm r <= 3 * e_norm v /\ (r = q_zero \/ e_norm r < e_norm v).
Proof.
  intros Hv. destruct (e_div_rem u v Hv) as (q & r & H1 & H2 & H3 & H4). exists q, r.
  repeat split; try assumption. right. pose proof (e_norm_pos v Hv). pose proof (e_norm_nonneg r). lia.
Qed.
(* the quotient is the coordinatewise rounded exact quotient: for a multiple it is exact *)
Lemma gauss_div_exact c v : v <> q_zero -> g_div (g_mul c v) v = Some c /\ g_rem (g_mul c v) v = Some q_zero.
Proof.
  intros Hv. pose proof (g_norm_pos v Hv) as Hn.
  assert (E : g_div (g_mul c v) v = Some c).
  { unfold g_div, g_div_round. destruct (g_mul (g_mul c v) (g_conj v)) as [x y] eqn:Ew.
    rewrite !g_mul_eq in Ew. destruct c as [c1 c2], v as [a b]. unfold g_conj in Ew. cbn [fst snd] in Ew.
    injection Ew as Ex Ey. rewrite g_norm_eq in *. cbn [fst snd] in *.
    replace x with (c1 * (a * a + b * b)) by (rewrite <- Ex; ring).
    replace y with (c2 * (a * a + b * b)) by (rewrite <- Ey; ring).
    rewrite !int_div_round_exact by lia. reflexivity. }
  split; [exact E|]. unfold g_rem. rewrite E. cbn [obind]. f_equal.
  rewrite (rmul_comm gauss_ring gauss_ring_laws v c : g_mul v c = g_mul c v).
  unfold q_sub, q_zero. f_equal; ring.
Qed.
Lemma eisen_div_exact c v : v <> q_zero -> e_div (e_mul c v) v = Some c /\ e_rem (e_mul c v) v = Some q_zero.
Proof.
  intros Hv. pose proof (e_norm_pos v Hv) as Hn.
  assert (E : e_div (e_mul c v) v = Some c).
  { unfold e_div, e_div_round. destruct (e_mul (e_mul c v) (e_conj v)) as [x y] eqn:Ew.
    rewrite !e_mul_eq in Ew. destruct c as [c1 c2], v as [a b]. unfold e_conj in Ew. cbn [fst snd] in Ew.
    injection Ew as Ex Ey. rewrite e_norm_eq in *. cbn [fst snd] in *.
    replace (x + y) with ((c1 + c2) * (a * a + a * b + b * b)) by (rewrite <- Ex, <- Ey; ring).
    replace y with (c2 * (a * a + a * b + b * b)) by (rewrite <- Ey; ring).
    rewrite !int_div_round_exact by lia. cbn [obind]. replace (c1 + c2 - c2) with c1 by ring. reflexivity. }
  split; [exact E|]. unfold e_rem. rewrite E. cbn [obind]. f_equal.
  rewrite (rmul_comm eisen_ring eisen_ring_laws v c : e_mul v c = e_mul c v).
  unfold q_sub, q_zero. f_equal; ring.
Qed.

(* ---------- gcd / gcdx / lcm for every dictionary with laws ---------- *)
Section Generic.
  Context {R : Type} (D : euc_dict R) (Phi : R -> Z) (EL : euc_dict_laws D Phi).
  Notation o := (d_ring D).

  Lemma gcd_main fuel fuel' x y : good_fuel Phi fuel y -> good_fuel Phi fuel' x ->
    exists d s t,
      gcd D fuel x y = Some d /\ gcdx D fuel x y = Some (d, s, t) /\
      dvd D d x /\ dvd D d y /\ (forall c, dvd D c x -> dvd D c y -> dvd D c d) /\
      radd o (rmul o s x) (rmul o t y) = d /\
      d_nunit D d = rone o /\
      (d = rzero o <-> x = rzero o /\ y = rzero o) /\
      gcd D fuel' y x = Some d.
  Proof.
    intros F F'.
    destruct (gcdx_spec D Phi EL fuel x y F) as (d & s & t & E1 & E2 & B).
    destruct (gcd_spec D Phi EL fuel x y F) as (d1 & E3 & (G1 & G2 & G3) & N).
    rewrite E2 in E3. injection E3 as <-.
    destruct (gcd_spec D Phi EL fuel' y x F') as (d2 & E4 & _ & _).
    exists d, s, t. do 7 (split; [assumption|]). split.
    - apply (gcd_zero_iff D Phi EL fuel x y d F E2).
    - rewrite E4. f_equal. symmetry. exact (gcd_comm D Phi EL fuel fuel' x y d d2 F F' E2 E4).
  Qed.

  Lemma fuel_main y : good_fuel Phi (fuel_of (Phi y)) y /\
    forall fuel, (fuel_of (Phi y) <= fuel)%nat -> good_fuel Phi fuel y.
  Proof.
    split; [apply (good_fuel_of D Phi EL)|]. intros fuel H.
    destruct (good_fuel_of D Phi EL y) as (f & E & Hf). rewrite E in H.
    destruct fuel as [|g]; [lia|]. exists g. split; [reflexivity|].
    eapply Z.lt_le_trans; [exact Hf|]. apply Z.pow_le_mono_r; lia.
  Qed.

  Lemma lcm_main fuel x y : good_fuel Phi fuel y ->
    (x = rzero o /\ y = rzero o -> lcm D fuel x y = None) /\
    (~ (x = rzero o /\ y = rzero o) ->
       exists m g, lcm D fuel x y = Some m /\ gcd D fuel x y = Some g /\
                   assoc D (rmul o x y) (rmul o m g) /\ d_nunit D m = rone o).
  Proof.
    intros F. split.
    - intros [-> ->]. apply (lcm_zero_zero D Phi EL).
    - apply (lcm_spec D Phi EL fuel x y F).
  Qed.

  Lemma units_main :
    (forall a, d_is_unit D a = true <-> exists b, d_inv D a = Some b) /\
    (forall a b, d_inv D a = Some b -> rmul o a b = rone o) /\
    (forall a b, rmul o a b = rone o -> d_is_unit D a = true) /\
    (forall a, d_is_unit D (d_nunit D a) = true) /\
    (forall a, normalized D a = rmul o a (d_nunit D a)) /\
    (forall a, d_nunit D (normalized D a) = rone o) /\
    (forall a, normalized D (normalized D a) = normalized D a) /\
    (forall a v, d_is_unit D v = true -> normalized D (rmul o a v) = normalized D a).
  Proof.
    pose proof (l_units D Phi EL) as U.
    repeat split.
    - apply (rinv_unit _ _ U).
    - apply (rinv_unit _ _ U).
    - apply (rinv_some _ _ U).
    - apply (runit_complete _ _ U).
    - apply (rnunit_unit _ _ U).
    - apply (normalized_eq D Phi EL).
    - apply (nunit_normalized D Phi EL).
    - apply (normalized_idem D Phi EL).
    - apply (normalized_assoc D Phi EL).
  Qed.

  Lemma divides_main x y :
    exists b, divides D x y = Some b /\ (b = true <-> x <> rzero o /\ dvd D x y).
  Proof. apply (divides_spec D Phi EL). Qed.
End Generic.

(* ---------- Gaussian and Eisenstein integers with the fuel the model computes ---------- *)
Lemma gauss_gcd_main x y :
  exists d s t,
    g_gcd x y = Some d /\ g_gcdx x y = Some (d, s, t) /\
    (exists c, x = g_mul c d) /\ (exists c, y = g_mul c d) /\
    (forall c, (exists c', x = g_mul c' c) -> (exists c', y = g_mul c' c) -> exists c', d = g_mul c' c) /\
    q_add (g_mul s x) (g_mul t y) = d /\
    g_nunit d = q_one /\ (d = q_zero <-> x = q_zero /\ y = q_zero) /\
    g_gcd y x = Some d.
Proof.
  destruct (gcd_main gauss_dict g_norm gauss_laws (g_fuel y) (g_fuel x) x y
              (good_fuel_of _ _ gauss_laws y) (good_fuel_of _ _ gauss_laws x))
    as (d & s & t & H). exists d, s, t. exact H.
Qed.
Lemma eisen_gcd_main x y :
  exists d s t,
    e_gcd x y = Some d /\ e_gcdx x y = Some (d, s, t) /\
    (exists c, x = e_mul c d) /\ (exists c, y = e_mul c d) /\
    (forall c, (exists c', x = e_mul c' c) -> (exists c', y = e_mul c' c) -> exists c', d = e_mul c' c) /\
    q_add (e_mul s x) (e_mul t y) = d /\
    e_nunit d = q_one /\ (d = q_zero <-> x = q_zero /\ y = q_zero) /\
    e_gcd y x = Some d.
Proof.
  destruct (gcd_main eisen_dict e_phi eisen_laws (e_fuel y) (e_fuel x) x y
              (good_fuel_of _ _ eisen_laws y) (good_fuel_of _ _ eisen_laws x))
    as (d & s & t & H). exists d, s, t. exact H.
Qed.
Lemma gauss_lcm_main x y : ~ (x = q_zero /\ y = q_zero) ->
  exists m g, g_lcm x y = Some m /\ g_gcd x y = Some g /\
    (exists v, g_is_unit v = true /\ g_mul m g = g_mul (g_mul x y) v) /\ g_nunit m = q_one.
Proof.
  intros NZ. destruct (lcm_main gauss_dict g_norm gauss_laws (g_fuel y) x y (good_fuel_of _ _ gauss_laws y)) as [_ H].
  exact (H NZ).
Qed.
Lemma eisen_lcm_main x y : ~ (x = q_zero /\ y = q_zero) ->
  exists m g, e_lcm x y = Some m /\ e_gcd x y = Some g /\
    (exists v, e_is_unit v = true /\ e_mul m g = e_mul (e_mul x y) v) /\ e_nunit m = q_one.
Proof.
  intros NZ. destruct (lcm_main eisen_dict e_phi eisen_laws (e_fuel y) x y (good_fuel_of _ _ eisen_laws y)) as [_ H].
  exact (H NZ).
Qed.

(* canonical associates: first quadrant / first sextant *)
Lemma gauss_normal_form a b : g_nunit (a, b) = q_one <-> (a = 0 /\ b = 0) \/ (0 < a /\ 0 <= b).
Proof.
  unfold q_one.
  destruct (g_nunit_cases a b) as [(?&?&->)|[(?&?&->)|[(?&?&->)|[(?&?&->)|(?&?&->)]]]];
    split; intros HH; try discriminate HH; try lia; auto.
Qed.
Lemma eisen_normal_form a b : e_nunit (a, b) = q_one <-> (a = 0 /\ b = 0) \/ (0 < a /\ 0 <= b).
Proof.
  unfold q_one.
  destruct (e_nunit_cases a b) as [(?&?&->)|[(?&?&->)|[(?&?&->)|[(?&?&->)|[(?&?&->)|[(?&?&->)|(?&?&->)]]]]]];
    split; intros HH; try discriminate HH; try lia; auto.
Qed.
Lemma gauss_units u : g_is_unit u = true <-> u = (1, 0) \/ u = (-1, 0) \/ u = (0, 1) \/ u = (0, -1).
Proof. apply g_unit_cases. Qed.

(* ---------- integers: the num-integer overrides ---------- *)
Lemma int_gcd_main a b :
  exists s t,
    int_gcdx a b = Some (int_gcd a b, s, t) /\
    (int_gcd a b | a) /\ (int_gcd a b | b) /\ (forall c, (c | a) -> (c | b) -> (c | int_gcd a b)) /\
    s * a + t * b = int_gcd a b /\
    0 <= int_gcd a b /\ int_nunit (int_gcd a b) = 1 /\
    (int_gcd a b = 0 <-> a = 0 /\ b = 0) /\
    int_gcd b a = int_gcd a b /\
    int_lcm a b * int_gcd a b = Z.abs (a * b) /\ 0 <= int_lcm a b.
Proof.
  destruct (int_gcdx_spec a b) as (s & t & E & B). exists s, t. unfold int_gcd, int_lcm.
  split; [exact E|]. split; [apply Z.gcd_divide_l|]. split; [apply Z.gcd_divide_r|].
  split; [intros c; apply Z.gcd_greatest|]. split; [exact B|].
  pose proof (Z.gcd_nonneg a b) as Hn. split; [exact Hn|].
  split; [unfold int_nunit; destruct (Z.ltb_spec (Z.gcd a b) 0); [lia|reflexivity]|].
  split; [split; [apply Z.gcd_eq_0|intros [-> ->]; reflexivity]|].
  split; [apply Z.gcd_comm|]. split; [apply int_lcm_gcd|apply Z.lcm_nonneg].
Qed.

(* ---------- machine integers ---------- *)
Lemma w_inv_sound k a v : w_inv (Some k) a = Some v -> v = int_inv a.
Proof.
  unfold w_inv, int_inv. destruct (w_is_unit (Some k) a) as [u|] eqn:E; [|discriminate].
  apply w_is_unit_sound in E. subst u. cbn [obind]. intros [= <-]. reflexivity.
Qed.
Lemma machine_sound k a b :
  (forall v, w_div (Some k) a b = Some v -> int_div a b = Some v) /\
  (forall v, w_rem (Some k) a b = Some v -> int_rem a b = Some v) /\
  (forall v, w_divides (Some k) a b = Some v -> divides int_dict a b = Some v) /\
  (forall v, w_gcd (Some k) a b = Some v -> v = int_gcd a b) /\
  (forall v, w_lcm (Some k) a b = Some v -> v = int_lcm a b) /\
  (forall v, w_gcdx (Some k) a b = Some v -> int_gcdx a b = Some v) /\
  (forall v, w_is_unit (Some k) a = Some v -> v = int_is_unit a) /\
  (forall v, w_inv (Some k) a = Some v -> v = int_inv a) /\
  (forall v, w_normalized (Some k) a = Some v -> v = normalized int_dict a).
Proof.
  repeat split; intros v H.
  - eapply w_div_sound; exact H.
  - eapply w_rem_sound; exact H.
  - eapply w_divides_sound; exact H.
  - eapply w_gcd_sound; exact H.
  - eapply w_lcm_sound; exact H.
  - eapply w_gcdx_sound; exact H.
  - eapply w_is_unit_sound; exact H.
  - eapply w_inv_sound; exact H.
  - eapply w_normalized_sound; exact H.
Qed.
Lemma machine_big a b :
  w_div None a b = int_div a b /\ w_rem None a b = int_rem a b /\
  w_divides None a b = divides int_dict a b /\
  w_gcd None a b = Some (int_gcd a b) /\ w_lcm None a b = Some (int_lcm a b) /\ w_gcdx None a b = int_gcdx a b /\
  w_is_unit None a = Some (int_is_unit a) /\ w_inv None a = Some (int_inv a) /\
  w_normalized None a = Some (normalized int_dict a).
Proof.
  split; [apply w_div_none|]. split; [apply w_rem_none|]. split; [apply w_divides_none|].
  split; [apply w_gcd_none|]. split; [apply w_lcm_none|]. split; [apply w_gcdx_none|].
  split; [apply w_is_unit_none|]. split; [apply w_inv_none|apply w_normalized_none].
Qed.

(* ---------- F_p ---------- *)
Lemma ff_gcdx_main p : prime p -> forall (fuel : nat) (a b : Z), ff_rep p a -> ff_rep p b ->
  exists d s t, gcdx (ff_dict p) fuel a b = Some (d, s, t) /\ gcd (ff_dict p) fuel a b = Some d /\
                d = (if (a =? 0) && (b =? 0) then 0 else 1) /\
                ff_rep p s /\ ff_rep p t /\ ff_add p (ff_mul p s a) (ff_mul p t b) = d.
Proof.
  intros Pp fuel a b Ha Hb. destruct (ff_gcdx p Pp fuel a b Ha Hb) as (d & s & t & E1 & E2 & Hs & Ht & B).
  exists d, s, t. split; [exact E1|]. split; [exact E2|]. split; [|auto].
  rewrite (ff_gcd p Pp fuel a b Ha Hb) in E2. congruence.
Qed.
Lemma ff_units_main p : prime p -> forall a : Z, ff_rep p a ->
  (d_is_unit (ff_dict p) a = true <-> a <> 0) /\
  (d_is_unit (ff_dict p) a = true <-> exists i, d_inv (ff_dict p) a = Some i) /\
  (forall i, d_inv (ff_dict p) a = Some i -> ff_rep p i /\ ff_mul p a i = 1) /\
  normalized (ff_dict p) a = (if a =? 0 then 0 else 1).
Proof.
  intros Pp a Ha. destruct (ff_units p Pp a Ha) as (U1 & U2 & U3).
  split; [exact U1|]. split; [exact U2|]. split; [exact U3|]. apply (ff_normalized p Pp a Ha).
Qed.
Lemma ff_lcm_main p : prime p -> forall (fuel : nat) (a b : Z), ff_rep p a -> ff_rep p b -> ~ (a = 0 /\ b = 0) ->
  lcm (ff_dict p) fuel a b = Some (if (a =? 0) || (b =? 0) then 0 else 1).
Proof. exact (ff_lcm p). Qed.
Lemma prime_7 : prime 7.
Proof.
  apply prime_intro; [lia|]. intros n Hn. apply Zgcd_1_rel_prime.
  assert (C : n = 1 \/ n = 2 \/ n = 3 \/ n = 4 \/ n = 5 \/ n = 6) by lia.
  destruct C as [->|[->|[->|[->|[->| ->]]]]]; reflexivity.
Qed.
