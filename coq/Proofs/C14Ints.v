(* Lemmas about the checked integer primitives of Model/Ints.v:
   - [ck] never wraps: a result is the mathematical value, and it is produced exactly when it fits;
   - at width [Big] nothing panics except division by zero;
   - monotonicity: whatever a machine width computes, BigInt computes too ([ole]). *)
From Coq Require Import ZArith Bool Lia.
Require Import Yui.Model.Ints.
Open Scope Z_scope.

(* ---------- option order: "if the left run returns a value, the right run returns the same" ---------- *)
Definition ole {A} (x y : option A) : Prop := forall v, x = Some v -> y = Some v.

Lemma ole_refl {A} (x : option A) : ole x x.
Proof. intros v H; exact H. Qed.

Lemma ole_none {A} (y : option A) : ole None y.
Proof. intros v H; discriminate. Qed.

Lemma ole_bind {A B} (x y : option A) (f g : A -> option B) :
  ole x y -> (forall a, ole (f a) (g a)) -> ole (obind x f) (obind y g).
Proof.
  intros Hxy Hfg v H. destruct x as [a|]; cbn in H; [|discriminate].
  rewrite (Hxy a eq_refl). cbn. now apply Hfg.
Qed.

Lemma ole_if {A} (b : bool) (x x' y y' : option A) :
  ole x x' -> ole y y' -> ole (if b then x else y) (if b then x' else y').
Proof. destruct b; auto. Qed.

(* ---------- the overflow check ---------- *)
Lemma ck_inv w x v : ck w x = Some v -> v = x /\ fitsb w x = true.
Proof. unfold ck. destruct (fitsb w x); intros H; inversion H; auto. Qed.

Lemma ck_big x : ck Big x = Some x.
Proof. reflexivity. Qed.

Lemma ck_fits w x : fitsb w x = true -> ck w x = Some x.
Proof. unfold ck. now intros ->. Qed.

Lemma ck_spec w x : ck w x = if fitsb w x then Some x else None.
Proof. reflexivity. Qed.

Lemma fitsb_W b x : fitsb (W b) x = true <-> - 2 ^ (b - 1) <= x < 2 ^ (b - 1).
Proof. cbn. rewrite andb_true_iff, Z.leb_le, Z.ltb_lt. tauto. Qed.

Lemma fitsb_i64 x : fitsb i64 x = true <-> -9223372036854775808 <= x <= 9223372036854775807.
Proof. unfold i64. rewrite fitsb_W. change (2 ^ (64 - 1)) with 9223372036854775808. lia. Qed.

Lemma fitsb_i128 x : fitsb i128 x = true <->
  -170141183460469231731687303715884105728 <= x <= 170141183460469231731687303715884105727.
Proof.
  unfold i128. rewrite fitsb_W.
  change (2 ^ (128 - 1)) with 170141183460469231731687303715884105728. lia.
Qed.

Lemma fitsb_i32 x : fitsb i32 x = true <-> -2147483648 <= x <= 2147483647.
Proof. unfold i32. rewrite fitsb_W. change (2 ^ (32 - 1)) with 2147483648. lia. Qed.

Lemma ck_mono w x : ole (ck w x) (ck Big x).
Proof. intros v H. apply ck_inv in H as [-> _]. reflexivity. Qed.

(* ---------- exactness of every primitive: a returned value is the value over Z ---------- *)
Lemma iadd_inv w a b v : iadd w a b = Some v -> v = a + b.
Proof. intros H; now apply ck_inv in H. Qed.
Lemma isub_inv w a b v : isub w a b = Some v -> v = a - b.
Proof. intros H; now apply ck_inv in H. Qed.
Lemma imul_inv w a b v : imul w a b = Some v -> v = a * b.
Proof. intros H; now apply ck_inv in H. Qed.
Lemma ineg_inv w a v : ineg w a = Some v -> v = - a.
Proof. intros H; now apply ck_inv in H. Qed.
Lemma iabs_inv w a v : iabs w a = Some v -> v = Z.abs a.
Proof. intros H; now apply ck_inv in H. Qed.
Lemma iquot_inv w a b v : iquot w a b = Some v -> b <> 0 /\ v = Z.quot a b.
Proof.
  unfold iquot. destruct (b =? 0) eqn:E; [discriminate|]. intros H. apply ck_inv in H.
  split; [now apply Z.eqb_neq|tauto].
Qed.
Lemma irem_inv w a b v : irem w a b = Some v -> b <> 0 /\ v = Z.rem a b.
Proof.
  unfold irem. destruct (b =? 0) eqn:E; [discriminate|]. destruct (ck w (a ÷ b)); cbn; [|discriminate].
  intros H; inversion H. split; [now apply Z.eqb_neq|reflexivity].
Qed.
Lemma igcd_inv w a b v : igcd w a b = Some v -> v = Z.gcd a b.
Proof. intros H; now apply ck_inv in H. Qed.

(* the exact panic condition of the ring operations: the result does not fit *)
Lemma iadd_spec w a b : iadd w a b = if fitsb w (a + b) then Some (a + b) else None.
Proof. reflexivity. Qed.
Lemma isub_spec w a b : isub w a b = if fitsb w (a - b) then Some (a - b) else None.
Proof. reflexivity. Qed.
Lemma imul_spec w a b : imul w a b = if fitsb w (a * b) then Some (a * b) else None.
Proof. reflexivity. Qed.
Lemma ineg_spec w a : ineg w a = if fitsb w (- a) then Some (- a) else None.
Proof. reflexivity. Qed.

(* ---------- BigInt: total except for division by zero ---------- *)
Lemma iadd_big a b : iadd Big a b = Some (a + b). Proof. reflexivity. Qed.
Lemma isub_big a b : isub Big a b = Some (a - b). Proof. reflexivity. Qed.
Lemma imul_big a b : imul Big a b = Some (a * b). Proof. reflexivity. Qed.
Lemma ineg_big a : ineg Big a = Some (- a). Proof. reflexivity. Qed.
Lemma iabs_big a : iabs Big a = Some (Z.abs a). Proof. reflexivity. Qed.
Lemma igcd_big a b : igcd Big a b = Some (Z.gcd a b). Proof. reflexivity. Qed.
Lemma iquot_big a b : b <> 0 -> iquot Big a b = Some (Z.quot a b).
Proof. intros H. unfold iquot. apply Z.eqb_neq in H. now rewrite H. Qed.
Lemma iis_unit_big a : iis_unit Big a = Some ((a =? 1) || (a =? -1)).
Proof.
  unfold iis_unit. destruct (a =? 1) eqn:E; [reflexivity|]. cbn. f_equal.
  destruct (- a =? 1) eqn:F, (a =? -1) eqn:G; try reflexivity; lia.
Qed.
Lemma ilcm_big a b : ilcm Big a b = Some (Z.abs (a * Z.quot b (Z.gcd a b))).
Proof.
  unfold ilcm. destruct ((a =? 0) && (b =? 0)) eqn:E.
  - apply andb_true_iff in E as [Ea Eb]. apply Z.eqb_eq in Ea, Eb. subst. reflexivity.
  - rewrite igcd_big. cbn [obind]. rewrite iquot_big.
    + reflexivity.
    + intros G. apply Z.gcd_eq_0 in G as [-> ->]. discriminate.
Qed.

(* ---------- monotonicity of the primitives ---------- *)
Lemma iadd_mono w a b : ole (iadd w a b) (iadd Big a b). Proof. apply ck_mono. Qed.
Lemma isub_mono w a b : ole (isub w a b) (isub Big a b). Proof. apply ck_mono. Qed.
Lemma imul_mono w a b : ole (imul w a b) (imul Big a b). Proof. apply ck_mono. Qed.
Lemma ineg_mono w a : ole (ineg w a) (ineg Big a). Proof. apply ck_mono. Qed.
Lemma iabs_mono w a : ole (iabs w a) (iabs Big a). Proof. apply ck_mono. Qed.
Lemma igcd_mono w a b : ole (igcd w a b) (igcd Big a b). Proof. apply ck_mono. Qed.
Lemma iquot_mono w a b : ole (iquot w a b) (iquot Big a b).
Proof. unfold iquot. destruct (b =? 0); [apply ole_none|apply ck_mono]. Qed.
Lemma irem_mono w a b : ole (irem w a b) (irem Big a b).
Proof.
  unfold irem. destruct (b =? 0); [apply ole_none|].
  apply ole_bind; [apply ck_mono|intros; apply ole_refl].
Qed.
Lemma ilcm_mono w a b : ole (ilcm w a b) (ilcm Big a b).
Proof.
  unfold ilcm. apply ole_if; [apply ole_refl|].
  apply ole_bind; [apply igcd_mono|intros g].
  apply ole_bind; [apply iquot_mono|intros q].
  apply ole_bind; [apply imul_mono|intros m]. apply iabs_mono.
Qed.
Lemma iis_unit_mono w a : ole (iis_unit w a) (iis_unit Big a).
Proof.
  unfold iis_unit. apply ole_if; [apply ole_refl|].
  apply ole_bind; [apply ineg_mono|intros; apply ole_refl].
Qed.

(* ---------- the machine types never wrap: summary used by Properties/C14.v ---------- *)
Lemma int_ops_exact w a b :
  (forall v, iadd w a b = Some v -> v = a + b) /\
  (forall v, isub w a b = Some v -> v = a - b) /\
  (forall v, imul w a b = Some v -> v = a * b) /\
  (forall v, ineg w a = Some v -> v = - a) /\
  (iadd w a b = None <-> fitsb w (a + b) = false) /\
  (isub w a b = None <-> fitsb w (a - b) = false) /\
  (imul w a b = None <-> fitsb w (a * b) = false) /\
  (ineg w a = None <-> fitsb w (- a) = false).
Proof.
  repeat split; try (intros v H; now apply ck_inv in H);
    unfold iadd, isub, imul, ineg, ck;
    match goal with |- context [fitsb w ?x] => destruct (fitsb w x) end; congruence.
Qed.

Lemma int_ops_big a b :
  iadd Big a b = Some (a + b) /\ isub Big a b = Some (a - b) /\ imul Big a b = Some (a * b) /\
  ineg Big a = Some (- a).
Proof. repeat split. Qed.
