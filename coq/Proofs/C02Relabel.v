(* C02 invariance, part 3: relabelling the edges of a diagram.
   For rho injective on the edge labels the circles of every resolution of the relabelled diagram are
   the images of the circles of the original resolution, re-sorted ([circles_relabel]); when rho is
   strictly increasing on the edge labels nothing has to be re-sorted ([circles_relabel_mono]). *)
From Coq Require Import List Arith Bool Lia.
Require Import Yui.Model.KhCube Yui.Proofs.C02Sorted Yui.Proofs.C02Canon.
Import ListNotations.

Definition relabel_crossing (rho : nat -> nat) (c : crossing) : crossing :=
  let '(t, (e0, e1, e2, e3)) := c in (t, (rho e0, rho e1, rho e2, rho e3)).
Definition relabel (rho : nat -> nat) (l : link) : link := map (relabel_crossing rho) l.

Definition inj_on (rho : nat -> nat) (E : list nat) : Prop :=
  forall a b, In a E -> In b E -> rho a = rho b -> a = b.
Definition mono_on (rho : nat -> nat) (E : list nat) : Prop :=
  forall a b, In a E -> In b E -> a < b -> rho a < rho b.

Lemma mono_inj rho E : mono_on rho E -> inj_on rho E.
Proof.
  intros H a b Ha Hb E0. destruct (Nat.lt_trichotomy a b) as [L|[L|L]]; [|exact L|].
  - pose proof (H a b Ha Hb L). lia.
  - pose proof (H b a Hb Ha L). lia.
Qed.

Lemma inj_on_incl rho E E' : (forall e, In e E' -> In e E) -> inj_on rho E -> inj_on rho E'.
Proof. intros Hi H a b Ha Hb. apply H; now apply Hi. Qed.
Lemma mono_on_incl rho E E' : (forall e, In e E' -> In e E) -> mono_on rho E -> mono_on rho E'.
Proof. intros Hi H a b Ha Hb. apply H; now apply Hi. Qed.

(* ---------- structure ---------- *)
Lemma relabel_fst rho c : fst (relabel_crossing rho c) = fst c.
Proof. now destruct c as [t [[[e0 e1] e2] e3]]. Qed.

Lemma relabel_is_resolved rho c : is_resolved (relabel_crossing rho c) = is_resolved c.
Proof. unfold is_resolved. now rewrite relabel_fst. Qed.

Lemma relabel_crossing_num rho l : crossing_num (relabel rho l) = crossing_num l.
Proof.
  unfold crossing_num, relabel. induction l as [|c l IH]; [reflexivity|]. cbn [map filter].
  rewrite relabel_is_resolved. destruct (is_resolved c); cbn [negb length]; lia.
Qed.

Lemma relabel_retype rho t c : relabel_crossing rho (t, snd c) = (t, snd (relabel_crossing rho c)).
Proof. now destruct c as [t0 [[[e0 e1] e2] e3]]. Qed.

Lemma resolve_by_relabel rho l s : resolve_by (relabel rho l) s = relabel rho (resolve_by l s).
Proof.
  revert s. induction l as [|c l IH]; intros s; [reflexivity|].
  cbn [relabel map resolve_by]. fold (relabel rho l). rewrite relabel_is_resolved.
  destruct (is_resolved c).
  - cbn [relabel map]. now rewrite IH.
  - destruct s as [|b s]; cbn [relabel map]; rewrite IH; [reflexivity|].
    now rewrite relabel_fst, relabel_retype.
Qed.

Lemma relabel_crossing_edges rho c : crossing_edges (relabel_crossing rho c) = map rho (crossing_edges c).
Proof. now destruct c as [t [[[e0 e1] e2] e3]]. Qed.

Definition rho2 (rho : nat -> nat) (ab : nat * nat) : nat * nat := (rho (fst ab), rho (snd ab)).

Lemma relabel_arcs rho c : arcs (relabel_crossing rho c) = map (rho2 rho) (arcs c).
Proof. destruct c as [t [[[e0 e1] e2] e3]]. now destruct t. Qed.

Lemma relabel_all_edges rho l : all_edges (relabel rho l) = map rho (all_edges l).
Proof.
  unfold all_edges, relabel. induction l as [|c l IH]; [reflexivity|]. cbn [map flat_map].
  now rewrite map_app, IH, relabel_crossing_edges.
Qed.

Lemma relabel_all_arcs rho l : all_arcs (relabel rho l) = map (rho2 rho) (all_arcs l).
Proof.
  unfold all_arcs, relabel. induction l as [|c l IH]; [reflexivity|]. cbn [map flat_map].
  now rewrite map_app, IH, relabel_arcs.
Qed.

(* resolving does not change the edge labels *)
Lemma resolve_by_edges l s : all_edges (resolve_by l s) = all_edges l.
Proof.
  unfold all_edges. revert s. induction l as [|c l IH]; intros s; [reflexivity|]. cbn [resolve_by].
  destruct (is_resolved c); [cbn [flat_map]; now rewrite IH|].
  destruct s as [|b s]; cbn [flat_map]; rewrite IH; [reflexivity|]. f_equal.
  now destruct c as [t [[[e0 e1] e2] e3]].
Qed.

(* ---------- connectivity ---------- *)
Lemma conn_in_edges l a b : conn l a b -> In a (all_edges l) /\ In b (all_edges l).
Proof.
  intros H. induction H as [a b [<- H]|a b H|a b _ IH|a b c _ IH1 _ IH2].
  - auto.
  - now apply arcs_in_edges.
  - tauto.
  - tauto.
Qed.

Lemma conn_relabel_fwd rho l a b : conn l a b -> conn (relabel rho l) (rho a) (rho b).
Proof.
  intros H. induction H as [a b [<- H]|a b H|a b _ IH|a b c _ IH1 _ IH2].
  - apply gen_base. split; [reflexivity|]. rewrite relabel_all_edges. now apply in_map.
  - apply gen_arc. rewrite relabel_all_arcs. now apply (in_map (rho2 rho) _ (a, b)).
  - now apply gen_sym.
  - now apply gen_trans with (rho b).
Qed.

Lemma conn_relabel_bwd rho l : inj_on rho (all_edges l) ->
  forall a' b', conn (relabel rho l) a' b' -> exists a b, a' = rho a /\ b' = rho b /\ conn l a b.
Proof.
  intros Hinj a' b' H. induction H as [a' b' [<- H]|a' b' H|a' b' _ IH|a' b' c' _ IH1 _ IH2].
  - rewrite relabel_all_edges in H. apply in_map_iff in H. destruct H as [a [<- Ha]].
    exists a, a. split; [reflexivity|]. split; [reflexivity|]. now apply gen_base.
  - rewrite relabel_all_arcs in H. apply in_map_iff in H. destruct H as [[a b] [E Hab]].
    injection E as <- <-. exists a, b. split; [reflexivity|]. split; [reflexivity|]. now apply gen_arc.
  - destruct IH as [a [b [-> [-> H]]]]. exists b, a. split; [reflexivity|]. split; [reflexivity|]. now apply gen_sym.
  - destruct IH1 as [a [m1 [-> [-> H1]]]]. destruct IH2 as [m2 [b [E [-> H2]]]].
    assert (m1 = m2).
    { apply Hinj; [apply (conn_in_edges l a m1 H1)|apply (conn_in_edges l m2 b H2)|exact E]. }
    subst m2. exists a, b. split; [reflexivity|]. split; [reflexivity|]. now apply gen_trans with m1.
Qed.

(* ---------- the pushed-forward partition ---------- *)
Definition push (rho : nat -> nat) (c : circle) : circle := sort_nodup (map rho c).

Lemma push_In rho c e' : In e' (push rho c) <-> exists e, In e c /\ e' = rho e.
Proof.
  unfold push. rewrite sort_nodup_In, in_map_iff. split; intros [e [H1 H2]]; exists e; auto.
Qed.

Lemma NoDup_map_inj_on {A B} (f : A -> B) (l : list A) :
  NoDup l -> (forall x y, In x l -> In y l -> f x = f y -> x = y) -> NoDup (map f l).
Proof.
  induction l as [|x l IH]; intros Hnd Hinj; [constructor|]. inversion Hnd as [|? ? Hx Hnd']; subst.
  cbn [map]. constructor.
  - intros Hin. apply in_map_iff in Hin. destruct Hin as [y [E Hy]]. apply Hx.
    assert (y = x) by (apply Hinj; [now right|now left|exact E]). now subst.
  - apply IH; [exact Hnd'|]. intros a b Ha Hb. apply Hinj; now right.
Qed.

Lemma push_good rho p E :
  pgood p -> (forall c e, In c p -> In e c -> In e E) -> inj_on rho E -> pgood (map (push rho) p).
Proof.
  intros G HE Hinj.
  assert (Hshare : forall c d e', In c p -> In d p -> In e' (push rho c) -> In e' (push rho d) -> c = d).
  { intros c d e' Hc Hd H1 H2. apply push_In in H1, H2. destruct H1 as [a [Ha ->]], H2 as [b [Hb E0]].
    assert (a = b) by (apply Hinj; [now apply (HE c)|now apply (HE d)|exact E0]). subst b.
    exact (pg_disj p G c d a Hc Hd Ha Hb). }
  assert (Hne : forall c, In c p -> exists e', In e' (push rho c)).
  { intros c Hc. pose proof (pg_ne p G c Hc). destruct c as [|a c]; [congruence|].
    exists (rho a). apply push_In. exists a. split; [now left|reflexivity]. }
  constructor.
  - intros c' Hc'. apply in_map_iff in Hc'. destruct Hc' as [c [<- _]]. apply sort_nodup_sorted.
  - intros c' Hc'. apply in_map_iff in Hc'. destruct Hc' as [c [<- Hc]].
    destruct (Hne c Hc) as [e' He']. intros E0. rewrite E0 in He'. exact He'.
  - intros c' d' e' Hc' Hd'. apply in_map_iff in Hc', Hd'.
    destruct Hc' as [c [<- Hc]], Hd' as [d [<- Hd]]. intros H1 H2. now rewrite (Hshare c d e' Hc Hd H1 H2).
  - apply NoDup_map_inj_on; [exact (pg_nodup p G)|].
    intros c d Hc Hd E0. destruct (Hne c Hc) as [e' He']. apply (Hshare c d e' Hc Hd He'). now rewrite <- E0.
Qed.

Lemma push_cls rho p a' b' :
  cls (map (push rho) p) a' b' <-> exists a b, a' = rho a /\ b' = rho b /\ cls p a b.
Proof.
  split.
  - intros [c' [Hc' [Ha Hb]]]. apply in_map_iff in Hc'. destruct Hc' as [c [<- Hc]].
    apply push_In in Ha, Hb. destruct Ha as [a [Ha ->]], Hb as [b [Hb ->]].
    exists a, b. split; [reflexivity|]. split; [reflexivity|]. exists c. auto.
  - intros [a [b [-> [-> [c [Hc [Ha Hb]]]]]]]. exists (push rho c). split; [now apply in_map|].
    split; apply push_In; eauto.
Qed.

(* ---------- main theorems ---------- *)
Theorem circles_relabel rho l : inj_on rho (all_edges l) ->
  circles (relabel rho l) = sort_classes (map (push rho) (circles l)).
Proof.
  intros Hinj.
  destruct (circles_spec l) as [G [S [C K]]].
  destruct (circles_spec (relabel rho l)) as [G' [S' [C' K']]].
  assert (Gq : pgood (map (push rho) (circles l))).
  { apply (push_good rho (circles l) (all_edges l) G); [|exact Hinj].
    intros c e Hc He. apply C. exists c. auto. }
  destruct (sort_classes_good _ Gq) as [G2 S2].
  apply canon_unique; try assumption.
  intros a' b'. rewrite K', sort_classes_cls, push_cls. split.
  - intros H. destruct (conn_relabel_bwd rho l Hinj a' b' H) as [a [b [-> [-> H']]]].
    exists a, b. split; [reflexivity|]. split; [reflexivity|]. now apply K.
  - intros [a [b [-> [-> H]]]]. apply conn_relabel_fwd. now apply K.
Qed.

Lemma circles_in_edges l c e : In c (circles l) -> In e c -> In e (all_edges l).
Proof.
  intros Hc He. destruct (circles_spec l) as [_ [_ [C _]]]. apply C. exists c. auto.
Qed.

Lemma map_mono_sorted rho E c :
  mono_on rho E -> (forall e, In e c -> In e E) -> ksorted id c -> ksorted id (map rho c).
Proof.
  intros Hm HE S. apply ksorted_map. revert S. apply ksorted_ext.
  intros x y Hx Hy. unfold id. apply Hm; now apply HE.
Qed.

Theorem circles_relabel_mono rho l : mono_on rho (all_edges l) ->
  circles (relabel rho l) = map (map rho) (circles l).
Proof.
  intros Hm. rewrite circles_relabel by now apply mono_inj.
  destruct (circles_spec l) as [G [S _]].
  assert (E1 : map (push rho) (circles l) = map (map rho) (circles l)).
  { apply map_ext_in. intros c Hc. unfold push. apply sort_nodup_id.
    apply (map_mono_sorted rho (all_edges l)); [exact Hm| |now apply (pg_sorted _ G)].
    intros e He. now apply (circles_in_edges l c). }
  rewrite E1. apply sort_classes_id. apply ksorted_map. revert S. apply ksorted_ext.
  intros c d Hc Hd Hlt.
  pose proof (pg_ne _ G c Hc) as Nc. pose proof (pg_ne _ G d Hd) as Nd.
  destruct c as [|a c]; [congruence|]. destruct d as [|b d]; [congruence|]. cbn [map hd] in *.
  apply Hm; [apply (circles_in_edges l (a :: c)); [exact Hc|now left]
            |apply (circles_in_edges l (b :: d)); [exact Hd|now left]|exact Hlt].
Qed.

(* on every vertex of the cube *)
Corollary circles_resolve_relabel rho l s : inj_on rho (all_edges l) ->
  circles (resolve_by (relabel rho l) s) = sort_classes (map (push rho) (circles (resolve_by l s))).
Proof.
  intros H. rewrite resolve_by_relabel. apply circles_relabel. now rewrite resolve_by_edges.
Qed.

Corollary circles_resolve_relabel_mono rho l s : mono_on rho (all_edges l) ->
  circles (resolve_by (relabel rho l) s) = map (map rho) (circles (resolve_by l s)).
Proof.
  intros H. rewrite resolve_by_relabel. apply circles_relabel_mono. now rewrite resolve_by_edges.
Qed.

(* same number of circles, and circle by circle the same number of edges, for any injective rho *)
Corollary circles_relabel_length rho l s : inj_on rho (all_edges l) ->
  length (circles (resolve_by (relabel rho l) s)) = length (circles (resolve_by l s)).
Proof.
  intros H. rewrite circles_resolve_relabel by exact H.
  assert (L : forall p, length (sort_classes p) = length p).
  { unfold sort_classes. induction p as [|c p IH]; [reflexivity|]. cbn [fold_right length]. rewrite <- IH.
    generalize (fold_right insert_class [] p). intros q. induction q as [|d q IHq]; [reflexivity|].
    cbn [insert_class]. destruct (hd 0 c <? hd 0 d); cbn [length]; [reflexivity|]. now rewrite IHq. }
  now rewrite L, map_length.
Qed.
