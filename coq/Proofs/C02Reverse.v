(* C02 invariance, part 6: global orientation reversal.  Rewriting every crossing [a,b,c,d] as [c,d,a,b]
   (crossing type unchanged) reverses every strand.  The model never looks at orientations: every
   resolution has literally the same circles, so the whole cube - vertices, generators, sparse
   differentials - and the base edge chosen for the reduced complex are literally equal. *)
From Coq Require Import List Arith Bool ZArith Lia.
Require Import Yui.Model.KhCube Yui.Model.KhHomology.
Require Import Yui.Proofs.C02Sorted Yui.Proofs.C02Canon.
Import ListNotations.

Definition rot2_crossing (c : crossing) : crossing :=
  let '(t, (e0, e1, e2, e3)) := c in (t, (e2, e3, e0, e1)).
Definition reverse (l : link) : link := map rot2_crossing l.

Lemma rot2_invol c : rot2_crossing (rot2_crossing c) = c.
Proof. now destruct c as [t [[[e0 e1] e2] e3]]. Qed.

Lemma reverse_invol l : reverse (reverse l) = l.
Proof.
  unfold reverse. rewrite map_map. rewrite <- (map_id l) at 2. apply map_ext. apply rot2_invol.
Qed.

Lemma rot2_fst c : fst (rot2_crossing c) = fst c.
Proof. now destruct c as [t [[[e0 e1] e2] e3]]. Qed.

Lemma rot2_is_resolved c : is_resolved (rot2_crossing c) = is_resolved c.
Proof. unfold is_resolved. now rewrite rot2_fst. Qed.

Lemma reverse_crossing_num l : crossing_num (reverse l) = crossing_num l.
Proof.
  unfold crossing_num, reverse. induction l as [|c l IH]; [reflexivity|]. cbn [map filter].
  rewrite rot2_is_resolved. destruct (is_resolved c); cbn [negb length]; lia.
Qed.

Lemma rot2_retype t c : rot2_crossing (t, snd c) = (t, snd (rot2_crossing c)).
Proof. now destruct c as [t0 [[[e0 e1] e2] e3]]. Qed.

Lemma resolve_by_reverse l s : resolve_by (reverse l) s = reverse (resolve_by l s).
Proof.
  revert s. induction l as [|c l IH]; intros s; [reflexivity|].
  cbn [reverse map resolve_by]. fold (reverse l). rewrite rot2_is_resolved.
  destruct (is_resolved c).
  - cbn [reverse map]. now rewrite IH.
  - destruct s as [|b s]; cbn [reverse map]; rewrite IH; [reflexivity|].
    now rewrite rot2_fst, rot2_retype.
Qed.

Lemma reverse_edges l e : In e (all_edges (reverse l)) -> In e (all_edges l).
Proof.
  unfold all_edges, reverse. rewrite !in_flat_map. intros [c' [Hc' He]].
  apply in_map_iff in Hc'. destruct Hc' as [c [<- Hc]]. exists c. split; [exact Hc|].
  destruct c as [t [[[e0 e1] e2] e3]]. cbn in *. tauto.
Qed.

Lemma reverse_arcs l a b : In (a, b) (all_arcs (reverse l)) -> In (a, b) (all_arcs l) \/ In (b, a) (all_arcs l).
Proof.
  unfold all_arcs, reverse. rewrite !in_flat_map. intros [c' [Hc' He]].
  apply in_map_iff in Hc'. destruct Hc' as [c [<- Hc]].
  assert (In (a, b) (arcs c) \/ In (b, a) (arcs c)).
  { destruct c as [t [[[e0 e1] e2] e3]].
    destruct t; cbn in He |- *; destruct He as [E|[E|[]]]; injection E as <- <-; tauto. }
  destruct H; [left|right]; exists c; auto.
Qed.

Lemma conn_reverse_1 l a b : conn (reverse l) a b -> conn l a b.
Proof.
  apply conn_incl; [apply reverse_edges|].
  intros x y H. apply reverse_arcs in H. destruct H; [now apply gen_arc|now apply gen_sym, gen_arc].
Qed.

Theorem circles_reverse l : circles (reverse l) = circles l.
Proof.
  apply circles_ext. intros a b. split; [apply conn_reverse_1|].
  intros H. apply conn_reverse_1. now rewrite reverse_invol.
Qed.

Theorem circles_resolve_reverse l s : circles (resolve_by (reverse l) s) = circles (resolve_by l s).
Proof. rewrite resolve_by_reverse. apply circles_reverse. Qed.

Theorem first_edge_reverse l : first_edge (reverse l) = first_edge l.
Proof.
  destruct l as [|[t [[[a b] c] d]] l]; [reflexivity|].
  cbn [reverse map rot2_crossing first_edge crossing_edges hd fold_right]. f_equal. lia.
Qed.

Lemma make_vertex_reverse l red s : make_vertex (reverse l) red s = make_vertex l red s.
Proof. unfold make_vertex. now rewrite circles_resolve_reverse. Qed.

Lemma all_vertices_reverse l red : all_vertices (reverse l) red = all_vertices l red.
Proof.
  unfold all_vertices. rewrite reverse_crossing_num. apply map_ext. apply make_vertex_reverse.
Qed.

Theorem build_cube_reverse l red h t : build_cube (reverse l) red h t = build_cube l red h t.
Proof. unfold build_cube. now rewrite reverse_crossing_num, all_vertices_reverse. Qed.

Theorem build_cube_reverse_first l h t :
  build_cube (reverse l) (first_edge (reverse l)) h t = build_cube l (first_edge l) h t.
Proof. now rewrite first_edge_reverse, build_cube_reverse. Qed.
