(* Vertical composition, part 11: linear combinations of cobordisms (LcCob with integer coefficients).
   * the terms of a product are products of terms ([lc_mul_support]); with the degree theorem: the product of
     homogeneous combinations is homogeneous ([lc_mul_homogeneous]);
   * CobComp::part_eval on a closed component = the closed-cobordism evaluation of Model/CobEval.v (property C05) as a
     multiple of the empty cobordism ([cc_part_eval_closed]): the copy [pev] of the recursion in Model/TngStack.v agrees
     with Model/CobEval.v [pe]. *)
From Coq Require Import List Arith Bool Lia ZArith Permutation.
Import ListNotations.
Require Import Yui.Model.Link Yui.Model.Tng Yui.Model.TngCob Yui.Model.TngStack.
Require Yui.Model.CobEval.
Require Import Yui.Proofs.TngPCobDeg Yui.Proofs.TngPStackDeg.

Definition keys (l : lccob) : list cob := map fst l.

Lemma lc_insert_keys : forall l x r k, In k (keys (lc_insert l x r)) -> In k (keys l) \/ k = x.
Proof.
  induction l as [|[y s] l IH]; intros x r k; cbn [lc_insert].
  - cbn. intros [<-|[]]. auto.
  - destruct (cob_eqb y x); cbn [keys map fst]; intros [E|Hin].
    + left. left. exact E.
    + left. right. exact Hin.
    + left. left. exact E.
    + destruct (IH _ _ _ Hin) as [Hq|Hq]; [left; right; exact Hq|right; exact Hq].
Qed.

Lemma lc_add_pair_keys : forall l x r k, In k (keys (lc_add_pair l x r)) -> In k (keys l) \/ k = x.
Proof. intros l x r k. unfold lc_add_pair. destruct (r =? 0)%Z; [auto|apply lc_insert_keys]. Qed.

Lemma lc_clean_keys : forall l k, In k (keys (lc_clean l)) -> In k (keys l).
Proof.
  intros l k Hp0. unfold keys, lc_clean in *. apply in_map_iff in Hp0. destruct Hp0 as (p & <- & Hp).
  apply filter_In in Hp. apply in_map. apply Hp.
Qed.

Lemma lc_row_keys : forall f x r b acc acc', lc_combine_row f x r b acc = Some acc' ->
  forall k, In k (keys acc') -> In k (keys acc) \/ exists y, In y (keys b) /\ f x y = Some k.
Proof.
  intros f x r. induction b as [|[y s] b IH]; intros acc acc'; cbn [lc_combine_row].
  - intros E k Hk. inversion E; subst. auto.
  - destruct (f x y) as [xy|] eqn:Ef; [|discriminate]. intros E k Hk.
    destruct (IH _ _ E k Hk) as [Hp0|(y' & Hy' & Hf)].
    + destruct (lc_add_pair_keys _ _ _ _ Hp0) as [Hq| ->]; auto. right. exists y. split; [left; reflexivity|exact Ef].
    + right. exists y'. split; [right; exact Hy'|exact Hf].
Qed.

Lemma lc_loop_keys : forall f a b acc acc', lc_combine_loop f a b acc = Some acc' ->
  forall k, In k (keys acc') -> In k (keys acc) \/ exists x y, In x (keys a) /\ In y (keys b) /\ f x y = Some k.
Proof.
  intros f. induction a as [|[x r] a IH]; intros b acc acc'; cbn [lc_combine_loop].
  - intros E k Hk. inversion E; subst. auto.
  - destruct (lc_combine_row f x r b acc) as [acc1|] eqn:Er; [|discriminate]. intros E k Hk.
    destruct (IH _ _ _ E k Hk) as [Hp0|(x' & y & Hx & Hy & Hf)].
    + destruct (lc_row_keys _ _ _ _ _ _ Er k Hp0) as [Hq|(y & Hy & Hf)]; auto.
      right. exists x, y. split; [left; reflexivity|auto].
    + right. exists x', y. split; [right; exact Hx|auto].
Qed.

Theorem lc_combine_support : forall f a b r, lc_combine f a b = Some r ->
  forall k v, In (k, v) r -> exists x y, In x (map fst a) /\ In y (map fst b) /\ f x y = Some k.
Proof.
  intros f a b r. unfold lc_combine. destruct (lc_combine_loop f a b []) as [r0|] eqn:E; [|discriminate].
  intros Er k v Hk. inversion Er; subst r.
  assert (Hk' : In k (keys (lc_clean r0))) by (unfold keys; apply in_map_iff; exists (k, v); auto).
  apply lc_clean_keys in Hk'. destruct (lc_loop_keys _ _ _ _ _ E k Hk') as [[]|Hp0]. exact Hp0.
Qed.

Theorem lc_mul_support : forall a b r, lc_mul a b = Some r ->
  forall k v, In (k, v) r -> exists x y, In x (map fst a) /\ In y (map fst b) /\ cob_mul x y = Some k.
Proof. intros a b r. apply lc_combine_support. Qed.

Theorem lc_mul_homogeneous : forall a b r da db, lc_mul a b = Some r ->
  (forall x, In x (map fst a) -> cob_deg x = Some da) -> (forall y, In y (map fst b) -> cob_deg y = Some db) ->
  (forall x y, In x (map fst a) -> In y (map fst b) -> stack_wf y x) ->
  forall k v, In (k, v) r -> cob_deg k = Some (da + db)%Z.
Proof.
  intros a b r da db E Ha Hb W k v Hk. destruct (lc_mul_support a b r E k v Hk) as (x & y & Hx & Hy & Hm).
  unfold cob_mul in Hm. destruct (cob_stack_deg y x k (W x y Hx Hy) Hm) as (D & _). rewrite D, (Ha x Hx), (Hb y Hy).
  cbn. f_equal. lia.
Qed.

(* ---------- closed components ---------- *)
Definition lcz (v : Z) : lccob := if (v =? 0)%Z then [] else [([], v)].

Lemma lcz_add : forall u v, lc_add (lcz u) (lcz v) = lcz (u + v).
Proof.
  intros u v. unfold lcz, lc_add.
  destruct (u =? 0)%Z eqn:Eu, (v =? 0)%Z eqn:Ev; cbn [fold_left fst snd].
  - apply Z.eqb_eq in Eu, Ev. subst. reflexivity.
  - apply Z.eqb_eq in Eu. subst. unfold lc_add_pair. rewrite Ev. cbn. rewrite Ev. reflexivity.
  - apply Z.eqb_eq in Ev. subst. cbn. rewrite Eu, Z.add_0_r, Eu. reflexivity.
  - unfold lc_add_pair. rewrite Ev. cbn. destruct (u + v =? 0)%Z; reflexivity.
Qed.

Lemma lcz_scale : forall k v, lc_scale k (lcz v) = lcz (k * v).
Proof.
  intros k v. unfold lc_scale. destruct (k =? 1)%Z eqn:Ek.
  - apply Z.eqb_eq in Ek. subst. rewrite Z.mul_1_l. reflexivity.
  - unfold lcz. destruct (v =? 0)%Z eqn:Ev.
    + apply Z.eqb_eq in Ev. subst. rewrite Z.mul_0_r. reflexivity.
    + cbn. rewrite (Z.mul_comm v k). destruct (k * v =? 0)%Z; reflexivity.
Qed.

Section Closed.
  Variables h t : Z.
  Let P := pev lc_add lc_scale [] (lc_from []) (lc_from []) h t.
  Let Q := Yui.Model.CobEval.pe Z.opp Z.add Z.mul 0%Z 1%Z 1%Z h t.

  Lemma from_empty : lc_from [] = lcz 1.
  Proof. reflexivity. Qed.

  Lemma pev_x_closed : forall x,
    pev_x lc_add lc_scale [] (lc_from []) h t x = lcz (Yui.Model.CobEval.pe_x Z.add Z.mul 0%Z 1%Z h t x) /\
    pev_x lc_add lc_scale [] (lc_from []) h t (S x) = lcz (Yui.Model.CobEval.pe_x Z.add Z.mul 0%Z 1%Z h t (S x)).
  Proof.
    induction x as [|x [IH1 IH2]].
    - split; reflexivity.
    - split; [exact IH2|]. cbn [pev_x Yui.Model.CobEval.pe_x] in *. rewrite IH2, IH1, !lcz_scale, lcz_add. reflexivity.
  Qed.

  Lemma pev_y_closed : forall y,
    pev_y lc_add lc_scale [] (lc_from []) h t y = lcz (Yui.Model.CobEval.pe_y Z.opp Z.add Z.mul 0%Z 1%Z h t y) /\
    pev_y lc_add lc_scale [] (lc_from []) h t (S y) = lcz (Yui.Model.CobEval.pe_y Z.opp Z.add Z.mul 0%Z 1%Z h t (S y)).
  Proof.
    induction y as [|y [IH1 IH2]].
    - split; reflexivity.
    - split; [exact IH2|]. cbn [pev_y Yui.Model.CobEval.pe_y] in *. rewrite IH2, IH1, !lcz_scale, lcz_add. reflexivity.
  Qed.

  Lemma pev_0_closed : forall x y,
    pev_0 lc_add lc_scale [] (lc_from []) (lc_from []) h t x y = lcz (Yui.Model.CobEval.pe_0 Z.opp Z.add Z.mul 0%Z 1%Z 1%Z h t x y).
  Proof.
    induction x as [|x IH]; intros y.
    - destruct y as [|y]; [reflexivity|]. apply (proj2 (pev_y_closed y)).
    - destruct y as [|y].
      + apply (proj2 (pev_x_closed x)).
      + cbn [pev_0 Yui.Model.CobEval.pe_0]. rewrite IH, lcz_scale. reflexivity.
  Qed.

  Lemma pev_closed : forall g x y, P g x y = lcz (Q g x y).
  Proof.
    unfold P, Q. induction g as [|g IH]; intros x y; cbn [pev Yui.Model.CobEval.pe].
    - apply pev_0_closed.
    - rewrite !IH, lcz_add. reflexivity.
  Qed.
End Closed.

Theorem cc_part_eval_closed : forall h t g x y,
  cc_part_eval h t (mkCC [] [] g x y) = lcz (Yui.Model.CobEval.eval_closed g x y h t).
Proof. intros. unfold cc_part_eval. cbn [cc_is_closed csrc ctgt tng_is_empty is_nil andb cgenus cdx cdy]. apply pev_closed. Qed.
