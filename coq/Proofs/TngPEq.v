(* Tangle layer, part 10: the library's unoriented equality (Path::unori_eq = TngComp ==) holds between two simple
   components with the same segments; hence the normal form of a glued tangle is determined by its segments up to
   the library's Tng ==. *)
From Coq Require Import List Arith Bool Lia Permutation Sorted.
Import ListNotations.
Require Import Yui.Model.Link Yui.Model.Tng Yui.Proofs.TngPBase Yui.Proofs.TngPSegs Yui.Proofs.TngPDeg
  Yui.Proofs.TngPJoin Yui.Proofs.TngPStep Yui.Proofs.TngPSeq Yui.Proofs.TngPConn Yui.Proofs.TngPMain
  Yui.Proofs.TngPUniq.

Lemma list_sum_perm : forall a b, Permutation a b -> list_sum a = list_sum b.
Proof. intros a b Hp. unfold list_sum. induction Hp; cbn [fold_right]; lia. Qed.

Lemma index_of_middle : forall q1 a q2, ~ In a q1 -> index_of a (q1 ++ a :: q2) = Some (length q1).
Proof.
  induction q1 as [|x q1 IH]; intros a q2 Hn; cbn [app index_of length].
  - rewrite Nat.eqb_refl. reflexivity.
  - assert (x =? a = false) as -> by (apply Nat.eqb_neq; intros ->; apply Hn; left; reflexivity).
    rewrite IH; [reflexivity|]. intros Hi. apply Hn. right. auto.
Qed.

Lemma mod_wrap : forall m n, n <= m -> m < 2 * n -> m mod n = m - n.
Proof.
  intros m n H1 H2. assert (n <> 0) by lia.
  replace m with ((m - n) + 1 * n) at 1 by lia. rewrite Nat.mod_add by auto. apply Nat.mod_small. lia.
Qed.

Lemma nth_rot : forall q1 a q2 i, i < length (q1 ++ a :: q2) ->
  nth i (a :: q2 ++ q1) 0 = nth ((length q1 + i) mod length (q1 ++ a :: q2)) (q1 ++ a :: q2) 0.
Proof.
  intros q1 a q2 i Hi. rewrite app_length in *. cbn [length] in *.
  set (k := length q1) in *. set (m := length q2) in *.
  destruct (Nat.lt_ge_cases i (S m)) as [Hlt|Hge].
  - rewrite Nat.mod_small by lia. change (a :: q2 ++ q1) with ((a :: q2) ++ q1).
    rewrite app_nth1 by (cbn; lia). unfold k. rewrite app_nth2_plus. reflexivity.
  - rewrite mod_wrap by lia. change (a :: q2 ++ q1) with ((a :: q2) ++ q1).
    rewrite app_nth2 by (cbn; lia). cbn [length]. fold m.
    rewrite app_nth1 by lia. f_equal. lia.
Qed.

Lemma check_rot : forall q1 a q2, let q := q1 ++ a :: q2 in
  forallb (fun i => nth i (a :: q2 ++ q1) 0 =? nth ((length q1 + i) mod length q) q 0) (seq 0 (length q)) = true.
Proof.
  intros q1 a q2 q. apply forallb_forall. intros i Hi. apply in_seq in Hi. apply Nat.eqb_eq.
  apply nth_rot. unfold q in Hi. lia.
Qed.

Lemma check_rot_rev : forall q1 a q2, let q := q1 ++ a :: q2 in
  forallb (fun i => nth i (a :: rev (q2 ++ q1)) 0 =? nth ((length q1 + length q - i) mod length q) q 0)
          (seq 0 (length q)) = true.
Proof.
  intros q1 a q2 q. apply forallb_forall. intros i Hi. apply in_seq in Hi. apply Nat.eqb_eq.
  assert (Hn : length q = length q1 + S (length q2)) by (unfold q; rewrite app_length; reflexivity).
  destruct i as [|i].
  - rewrite Nat.sub_0_r. replace (length q1 + length q) with (length q1 + 1 * length q) by lia.
    rewrite Nat.mod_add by lia. rewrite Nat.mod_small by lia. unfold q. rewrite nth_middle. reflexivity.
  - cbn [nth]. assert (Hl : length (q2 ++ q1) = length q - 1) by (rewrite app_length; lia).
    rewrite rev_nth by lia. rewrite Hl.
    replace (length q1 + length q - S i) with (length q1 + (length q - S i)) by lia.
    unfold q at 3 4. rewrite <- (nth_rot q1 a q2 (length q - S i)) by (fold q; lia).
    assert (E : length q - S i = S (length q - 1 - S i)) by lia. rewrite E. reflexivity.
Qed.

Lemma nlist_eqb_refl : forall a, nlist_eqb a a = true.
Proof. intros a. apply nlist_eqb_eq. reflexivity. Qed.

Lemma combine_self : forall a : list nat, forallb (fun ef => fst ef =? snd ef) (combine a a) = true.
Proof. induction a as [|x a IH]; [reflexivity|]. cbn. rewrite Nat.eqb_refl. exact IH. Qed.

Lemma unori_eq_arc_true : forall p q, p = q \/ p = rev q -> unori_eq (mkP p false) (mkP q false) = true.
Proof.
  intros p q Hpq. unfold unori_eq, edge_sum. cbn [pedges pclosed Bool.eqb negb orb].
  assert (El : length p = length q) by (destruct Hpq as [->| ->]; [|rewrite rev_length]; reflexivity).
  assert (Es : list_sum p = list_sum q).
  { destruct Hpq as [->| ->]; [reflexivity|]. apply list_sum_perm. apply Permutation_sym, Permutation_rev. }
  rewrite El, Es, !Nat.eqb_refl. cbn [negb orb].
  destruct (nlist_eqb p q) eqn:En; [reflexivity|].
  destruct Hpq as [->| ->]; [rewrite nlist_eqb_refl in En; discriminate|]. apply combine_self.
Qed.

Lemma unori_eq_circ_true : forall p q1 a q2, ~ In a q1 ->
  p = a :: q2 ++ q1 \/ p = a :: rev (q2 ++ q1) ->
  unori_eq (mkP p true) (mkP (q1 ++ a :: q2) true) = true.
Proof.
  intros p q1 a q2 Hn Hp. unfold unori_eq, edge_sum. cbn [pedges pclosed Bool.eqb negb orb].
  assert (Pq : Permutation p (q1 ++ a :: q2)).
  { destruct Hp as [->| ->].
    - eapply perm_trans; [|apply Permutation_middle]. constructor. apply Permutation_app_comm.
    - eapply perm_trans; [|apply Permutation_middle]. constructor.
      eapply perm_trans; [apply Permutation_sym; apply Permutation_rev|apply Permutation_app_comm]. }
  rewrite (Permutation_length Pq), (list_sum_perm _ _ Pq), !Nat.eqb_refl. cbn [negb orb].
  destruct (nlist_eqb p (q1 ++ a :: q2)); [reflexivity|].
  assert (Eh : hd 0 p = a) by (destruct Hp as [->| ->]; reflexivity). rewrite Eh.
  rewrite index_of_middle by auto.
  destruct Hp as [->| ->].
  - rewrite (check_rot q1 a q2). reflexivity.
  - rewrite (check_rot_rev q1 a q2). apply orb_true_r.
Qed.

Theorem same_segs_unori_eq : forall c1 c2, simple c1 -> simple c2 -> pclosed c1 = pclosed c2 ->
  Permutation (segs c1) (segs c2) -> unori_eq c1 c2 = true.
Proof.
  intros [p cp] [q cq] [Np Lp] [Nq Lq] Ec Hperm. cbn [pedges pclosed] in *. subst cq.
  unfold segs in Hperm. cbn [pedges pclosed] in Hperm. destruct cp.
  - destruct (circ_unique p q Np Nq Lp Hperm) as (q1 & q2 & -> & Hp).
    apply unori_eq_circ_true; auto.
    apply NoDup_app_inv in Nq. destruct Nq as (_ & _ & Hd). intros Hi. apply (Hd _ Hi). left. reflexivity.
  - apply unori_eq_arc_true. apply arc_unique; auto.
Qed.

(* ---------- the segments of one component inside a tangle ---------- *)
Definition on_comp (c : path) (s : nat * nat) : bool := mem (fst s) (pedges c).

Lemma mem_in : forall e l, mem e l = true <-> In e l.
Proof.
  intros e l. unfold mem. rewrite existsb_exists. split.
  - intros (x & Hx & E). apply Nat.eqb_eq in E. subst. auto.
  - intros Hi. exists e. split; auto. apply Nat.eqb_refl.
Qed.

Lemma nseg_fst_in : forall a b, fst (nseg a b) = a \/ fst (nseg a b) = b.
Proof. intros a b. unfold nseg. cbn [fst]. lia. Qed.

Lemma filter_all : forall (A : Type) (f : A -> bool) l, (forall x, In x l -> f x = true) -> filter f l = l.
Proof.
  intros A f l. induction l as [|x l IH]; intros Hall; [reflexivity|]. cbn [filter].
  rewrite (Hall x (or_introl eq_refl)). f_equal. apply IH. intros y Hy. apply Hall. right. auto.
Qed.
Lemma filter_none : forall (A : Type) (f : A -> bool) l, (forall x, In x l -> f x = false) -> filter f l = [].
Proof.
  intros A f l. induction l as [|x l IH]; intros Hall; [reflexivity|]. cbn [filter].
  rewrite (Hall x (or_introl eq_refl)). apply IH. intros y Hy. apply Hall. right. auto.
Qed.

Lemma filter_on_comp : forall t c c', tng_inv t -> In c t -> (forall v, In v (pedges c') <-> In v (pedges c)) ->
  Permutation (filter (on_comp c') (tsegs t)) (segs c).
Proof.
  intros t c c' Hinv Hc Hset. destruct (in_split _ _ Hc) as (l1 & l2 & ->).
  eapply perm_trans; [apply filter_perm; apply tsegs_middle|]. rewrite filter_app.
  apply inv_middle in Hinv. destruct Hinv as (Sc & _ & Hd).
  rewrite filter_all, filter_none; [rewrite app_nil_r; apply Permutation_refl| |].
  - intros s Hs. unfold tsegs in Hs. apply in_flat_map in Hs. destruct Hs as (d & Hdl & Hs).
    destruct (segs_in _ _ Hs) as (a & b & -> & Ha & Hb).
    unfold on_comp. apply not_true_is_false. intros Hm. apply mem_in in Hm. apply Hset in Hm.
    apply (Hd _ Hm). apply in_verts. exists d. split; auto.
    destruct (nseg_fst_in a b) as [-> | ->]; auto.
  - intros s Hs. destruct (segs_in _ _ Hs) as (a & b & -> & Ha & Hb).
    unfold on_comp. apply mem_in. apply Hset. destruct (nseg_fst_in a b) as [-> | ->]; auto.
Qed.

Lemma same_comp_segs : forall t1 t2 c1 c2, tng_inv t1 -> tng_inv t2 -> Permutation (tsegs t1) (tsegs t2) ->
  In c1 t1 -> In c2 t2 -> same_comp c1 c2 -> Permutation (segs c1) (segs c2).
Proof.
  intros t1 t2 c1 c2 I1 I2 Hp H1 H2 [_ Hset].
  eapply perm_trans; [apply Permutation_sym; apply (filter_on_comp t1 c1 c1 I1 H1); tauto|].
  eapply perm_trans; [apply filter_perm; exact Hp|].
  apply (filter_on_comp t2 c2 c1 I2 H2). exact Hset.
Qed.

Theorem normal_form_eqb : forall t1 t2, tng_ok t1 -> tng_ok t2 -> Permutation (tsegs t1) (tsegs t2) ->
  tng_eqb t1 t2 = true.
Proof.
  intros t1 t2 O1 O2 Hp. pose proof (normal_form_unique t1 t2 O1 O2 Hp) as HF.
  assert (Hall : forall c1 c2, In c1 t1 -> In c2 t2 -> same_comp c1 c2 -> unori_eq c1 c2 = true).
  { intros c1 c2 H1 H2 R. destruct O1 as [[S1 N1] _]. destruct O2 as [[S2 N2] _].
    rewrite Forall_forall in S1, S2. apply same_segs_unori_eq; auto; [apply R|].
    eapply same_comp_segs; eauto; split; auto; apply Forall_forall; auto. }
  clear Hp O1 O2. induction HF as [|c1 c2 r1 r2 R HF IH]; [reflexivity|]. cbn [tng_eqb].
  rewrite (Hall c1 c2) by (auto; left; reflexivity). cbn [andb]. apply IH.
  intros d1 d2 H1 H2. apply Hall; right; auto.
Qed.

(* ---------- order independence up to the library's == ---------- *)
Theorem crossings_order_independent_eqb : forall xs ys, Permutation xs ys ->
  Forall (fun x => is_resolved x = true) xs -> labels_le2 xs ->
  exists t1 t2, tng_of_crossings xs = Some t1 /\ tng_of_crossings ys = Some t2 /\
                tng_ok t1 /\ tng_ok t2 /\ tng_eqb t1 t2 = true.
Proof.
  intros xs ys Hp Hr Hl.
  destruct (tng_of_crossings_ok xs Hr Hl) as (t1 & E1 & O1 & P1).
  destruct (tng_of_crossings_ok ys (Forall_perm _ _ _ _ Hp Hr) (labels_le2_perm _ _ Hp Hl)) as (t2 & E2 & O2 & P2).
  exists t1, t2. repeat split; auto; try apply O1; try apply O2.
  apply normal_form_eqb; auto.
  eapply perm_trans; [exact P1|]. eapply perm_trans; [|apply Permutation_sym; exact P2].
  apply Permutation_flat_map. exact Hp.
Qed.

Theorem arcs_order_independent_eqb : forall arcs arcs', Permutation arcs arcs' ->
  Forall simple_arc arcs -> deg_le2 (flat_map segs arcs) ->
  exists t1 t2, append_all [] arcs = Some t1 /\ append_all [] arcs' = Some t2 /\
                tng_ok t1 /\ tng_ok t2 /\ tng_eqb t1 t2 = true.
Proof.
  intros arcs arcs' Hp Ha Hd.
  destruct (append_all_ok arcs [] ok_nil Ha Hd) as (t1 & E1 & O1 & P1).
  assert (Hd' : deg_le2 (flat_map segs arcs')).
  { eapply deg_le2_perm; [|exact Hd]. apply Permutation_flat_map. exact Hp. }
  destruct (append_all_ok arcs' [] ok_nil (Forall_perm _ _ _ _ Hp Ha) Hd') as (t2 & E2 & O2 & P2).
  exists t1, t2. repeat split; auto; try apply O1; try apply O2.
  apply normal_form_eqb; auto. cbn [tsegs flat_map app] in P1, P2.
  eapply perm_trans; [exact P1|]. eapply perm_trans; [|apply Permutation_sym; exact P2].
  apply Permutation_flat_map. exact Hp.
Qed.

(* Tng::connect is commutative up to == *)
Theorem tng_connect_comm_eqb : forall a b, tng_inv a -> tng_inv b -> deg_le2 (tsegs a ++ tsegs b) ->
  exists t1 t2, tng_connect a b = Some t1 /\ tng_connect b a = Some t2 /\
                tng_ok t1 /\ tng_ok t2 /\ tng_eqb t1 t2 = true.
Proof.
  intros a b Ia Ib Hd.
  destruct (tng_connect_ok a b Ia (proj1 Ib) Hd) as (t1 & E1 & O1 & P1).
  assert (Hd' : deg_le2 (tsegs b ++ tsegs a)) by (eapply deg_le2_perm; [apply Permutation_app_comm|exact Hd]).
  destruct (tng_connect_ok b a Ib (proj1 Ia) Hd') as (t2 & E2 & O2 & P2).
  exists t1, t2. repeat split; auto; try apply O1; try apply O2.
  apply normal_form_eqb; auto.
  eapply perm_trans; [exact P1|]. eapply perm_trans; [|apply Permutation_sym; exact P2]. apply Permutation_app_comm.
Qed.

(* gluing a diagram in two halves = gluing it crossing by crossing *)
Theorem tng_connect_halves_eqb : forall xs ys, Forall (fun x => is_resolved x = true) (xs ++ ys) ->
  labels_le2 (xs ++ ys) ->
  exists ta tb t1 t2, tng_of_crossings xs = Some ta /\ tng_of_crossings ys = Some tb /\
    tng_connect ta tb = Some t1 /\ tng_of_crossings (xs ++ ys) = Some t2 /\ tng_ok t1 /\ tng_eqb t1 t2 = true.
Proof.
  intros xs ys Hr Hl. apply Forall_app in Hr. destruct Hr as [Hrx Hry].
  pose proof (labels_le2_deg _ Hl) as Hd. rewrite flat_map_app in Hd.
  assert (Hlx : labels_le2 xs).
  { intros v. specialize (Hl v). unfold edge_labels in *. rewrite flat_map_app, count_occ_app in Hl. lia. }
  assert (Hly : labels_le2 ys).
  { intros v. specialize (Hl v). unfold edge_labels in *. rewrite flat_map_app, count_occ_app in Hl. lia. }
  destruct (tng_of_crossings_ok xs Hrx Hlx) as (ta & Ea & Oa & Pa).
  destruct (tng_of_crossings_ok ys Hry Hly) as (tb & Eb & Ob & Pb).
  destruct (tng_connect_ok ta tb (proj1 Oa) (proj1 (proj1 Ob))) as (t1 & E1 & O1 & P1).
  { eapply deg_le2_perm; [|exact Hd]. apply Permutation_app; apply Permutation_sym; auto. }
  destruct (tng_of_crossings_ok (xs ++ ys)) as (t2 & E2 & O2 & P2); auto.
  { apply Forall_app. auto. }
  exists ta, tb, t1, t2. repeat split; auto; try apply O1.
  apply normal_form_eqb; auto.
  eapply perm_trans; [exact P1|]. eapply perm_trans; [|apply Permutation_sym; exact P2].
  rewrite flat_map_app. apply Permutation_app; auto.
Qed.
