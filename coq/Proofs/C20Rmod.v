(* C20: the strings produced by rmod_str are good table cells; "0" is printed exactly for the zero module. *)
From Coq Require Import ZArith NArith List Bool Arith Lia ZifyN ZifyBool ZifyNat.
Require Import Yui.Model.Table Yui.Proofs.C20Str Yui.Proofs.C20Layout Yui.Proofs.C20Table.
Import ListNotations.

Definition no_nl (s : str) : Prop := forall c, In c s -> c <> 10%N.

Lemma last_app_r : forall A (a b : list A) d, b <> [] -> last (a ++ b) d = last b d.
Proof.
  induction a as [|x a IH]; intros b d H; [reflexivity|].
  cbn [app]. destruct (a ++ b) as [|y q] eqn:E.
  - apply app_eq_nil in E. destruct E. contradiction.
  - change (last (x :: y :: q) d) with (last (y :: q) d). rewrite <- E. now apply IH.
Qed.

(* ---------- superscripts ---------- *)
Lemma superscript_digit_vis : forall d, (d <= 9)%N -> is_ws (superscript_digit d) = false.
Proof.
  intros d Hd. unfold superscript_digit.
  destruct (d =? 1)%N; [reflexivity|]. destruct (d =? 2)%N; [reflexivity|]. destruct (d =? 3)%N; [reflexivity|].
  unfold is_ws. lia.
Qed.
Lemma superscript_vis : forall n, superscript n <> [] /\ (forall c, In c (superscript n) -> is_ws c = false).
Proof.
  intro n. unfold superscript. destruct (str_of_N_spec n) as (Hd & Hne & _). split.
  - destruct (str_of_N n); [congruence | discriminate].
  - intros c Hc. apply in_map_iff in Hc. destruct Hc as (x & <- & Hx).
    unfold digit_str in Hd. rewrite Forall_forall in Hd. apply Hd, is_digit_spec in Hx.
    apply superscript_digit_vis. lia.
Qed.
Lemma vis_no_nl : forall s, (forall c, In c s -> is_ws c = false) -> no_nl s.
Proof. intros s H c Hc E. subst. specialize (H _ Hc). discriminate. Qed.

Lemma goodc_app_vis : forall a b, no_nl a -> b <> [] -> (forall c, In c b -> is_ws c = false) -> goodc (a ++ b).
Proof.
  intros a b Ha Hb Hv. split; [destruct a; [exact Hb | discriminate]|]. split.
  - intros c Hc. apply in_app_or in Hc. destruct Hc as [Hc|Hc]; [now apply Ha | now apply (vis_no_nl b Hv)].
  - rewrite last_app_r by exact Hb. apply Hv. now apply last_In.
Qed.

(* ---------- join ---------- *)
Lemma join_good : forall sep ps, no_nl sep -> ps <> [] -> Forall goodc ps -> goodc (join sep ps).
Proof.
  intros sep ps Hsep. induction ps as [|a ps IH]; intros Hne Hall; [congruence|].
  inversion Hall as [|a0 ps0 Ha Hps]; subst. cbn [join]. destruct ps as [|b ps']; [exact Ha|].
  specialize (IH ltac:(discriminate) Hps). destruct Ha as (Ha1 & Ha2 & _). destruct IH as (I1 & I2 & I3).
  split; [destruct a; [congruence | discriminate]|]. split.
  - intros c Hc. apply in_app_or in Hc. destruct Hc as [Hc|Hc]; [now apply Ha2|].
    apply in_app_or in Hc. destruct Hc as [Hc|Hc]; [now apply Hsep | now apply I2].
  - rewrite app_assoc, last_app_r by exact I1. exact I3.
Qed.
Lemma join_cases : forall sep ps, 2 <= length sep -> ps <> [] -> Forall (fun p => p <> []) ps ->
  (exists p, ps = [p] /\ join sep ps = p) \/ 2 <= length (join sep ps).
Proof.
  intros sep [|a [|b ps']] Hsep Hne Hall; [congruence | left; eauto | right].
  cbn [join]. rewrite !app_length. lia.
Qed.

(* ---------- the torsion table ---------- *)
Lemma tors_insert_nonempty : forall t acc, tors_insert t acc <> [].
Proof. intros t [|[k c] r]; cbn [tors_insert]; [discriminate|]. destruct (str_cmp t k); discriminate. Qed.
Lemma tors_fold_nonempty : forall ts acc, acc <> [] -> fold_left (fun acc t => tors_insert t acc) ts acc <> [].
Proof. induction ts as [|t ts IH]; intros acc H; [exact H|]. cbn [fold_left]. apply IH, tors_insert_nonempty. Qed.
Lemma tors_count_nonempty : forall ts, ts <> [] -> tors_count ts <> [].
Proof.
  intros [|t ts] H; [congruence|]. unfold tors_count. cbn [fold_left]. apply tors_fold_nonempty, tors_insert_nonempty.
Qed.
Lemma tors_insert_keys : forall t acc k c, In (k, c) (tors_insert t acc) -> k = t \/ exists c', In (k, c') acc.
Proof.
  induction acc as [|[k0 c0] r IH]; intros k c H; cbn [tors_insert] in H.
  - destruct H as [H|[]]. inversion H. now left.
  - destruct (str_cmp t k0).
    + destruct H as [H|H]; [injection H as E1 E2; right; exists c0; left; congruence | right; exists c; now right].
    + destruct H as [H|H]; [injection H as E1 E2; now left | right; exists c; exact H].
    + destruct H as [H|H]; [injection H as E1 E2; right; exists c0; left; congruence|].
      destruct (IH _ _ H) as [E|(c' & Hc')]; [now left | right; exists c'; now right].
Qed.
Lemma tors_fold_keys : forall ts acc k c, In (k, c) (fold_left (fun acc t => tors_insert t acc) ts acc) ->
  In k ts \/ exists c', In (k, c') acc.
Proof.
  induction ts as [|t ts IH]; intros acc k c H; [right; eauto|].
  cbn [fold_left] in H. destruct (IH _ _ _ H) as [Hk|(c' & Hc')]; [left; now right|].
  destruct (tors_insert_keys _ _ _ _ Hc') as [E|Hacc]; [left; now left | now right].
Qed.
Lemma tors_count_keys : forall ts k c, In (k, c) (tors_count ts) -> In k ts.
Proof. intros ts k c H. destruct (tors_fold_keys _ _ _ _ H) as [Hk|(c' & [])]. exact Hk. Qed.

(* ---------- rmod_str ---------- *)
Definition rmod_pieces (symbol : str) (m : summand) : list str :=
  (if (1 <? s_rank m)%N then [symbol ++ superscript (s_rank m)]
   else if (s_rank m =? 1)%N then [symbol] else []) ++
  map (fun tr : str * N =>
         let body := [40%N] ++ symbol ++ [47%N] ++ fst tr ++ [41%N] in
         if (1 <? snd tr)%N then body ++ superscript (snd tr) else body)
      (tors_count (s_tors m)).
Lemma rmod_str_unfold : forall symbol m,
  rmod_str symbol m = if (s_rank m =? 0)%N && (match s_tors m with [] => true | _ => false end)
                      then [48%N] else join oplus (rmod_pieces symbol m).
Proof.
  intros symbol m. unfold rmod_str, rmod_pieces.
  destruct (s_rank m) as [|p]; destruct (s_tors m); reflexivity.
Qed.

Lemma rmod_pieces_nonempty : forall symbol m,
  (s_rank m =? 0)%N && (match s_tors m with [] => true | _ => false end) = false -> rmod_pieces symbol m <> [].
Proof.
  intros symbol m H. unfold rmod_pieces. intro E. apply app_eq_nil in E. destruct E as [E1 E2].
  apply map_eq_nil in E2.
  destruct (s_tors m) as [|t ts] eqn:Et.
  - rewrite andb_true_r in H. destruct (1 <? s_rank m)%N eqn:L; [discriminate|].
    destruct (s_rank m =? 1)%N eqn:L1; [discriminate|]. lia.
  - apply (tors_count_nonempty (t :: ts)); [discriminate | exact E2].
Qed.

Lemma rmod_pieces_good : forall symbol m, goodc symbol -> Forall no_nl (s_tors m) ->
  Forall goodc (rmod_pieces symbol m).
Proof.
  intros symbol m Hs Ht. destruct Hs as (Hs1 & Hs2 & Hs3). unfold rmod_pieces. apply Forall_app. split.
  - destruct (1 <? s_rank m)%N.
    + constructor; [|constructor]. destruct (superscript_vis (s_rank m)) as [Hn Hv]. now apply goodc_app_vis.
    + destruct (s_rank m =? 1)%N; constructor; [|constructor]. repeat split; assumption.
  - apply Forall_forall. intros p Hp. apply in_map_iff in Hp. destruct Hp as ([k c] & <- & Hk).
    cbn [fst snd]. apply tors_count_keys in Hk. rewrite Forall_forall in Ht. specialize (Ht _ Hk).
    assert (Hbody : goodc ([40%N] ++ symbol ++ [47%N] ++ k ++ [41%N])).
    { rewrite !app_assoc. apply goodc_app_vis; [|discriminate | intros x [<-|[]]; reflexivity].
      intros x Hx. repeat (apply in_app_or in Hx; destruct Hx as [Hx|Hx]); try (now apply Hs2); try (now apply Ht);
        destruct Hx as [<-|[]]; discriminate. }
    destruct (1 <? c)%N; [|exact Hbody].
    destruct (superscript_vis c) as [Hn Hv]. apply goodc_app_vis; [exact (proj1 (proj2 Hbody)) | exact Hn | exact Hv].
Qed.

Lemma oplus_no_nl : no_nl oplus.
Proof. intros c Hc. cbn in Hc. destruct Hc as [<-|[<-|[<-|[]]]]; discriminate. Qed.

Theorem rmod_str_good : forall symbol m, goodc symbol -> Forall no_nl (s_tors m) -> goodc (rmod_str symbol m).
Proof.
  intros symbol m Hs Ht. rewrite rmod_str_unfold.
  destruct ((s_rank m =? 0)%N && (match s_tors m with [] => true | _ => false end)) eqn:E.
  - split; [discriminate|]. split; [intros c [<-|[]]; discriminate | reflexivity].
  - apply join_good; [apply oplus_no_nl | now apply rmod_pieces_nonempty | now apply rmod_pieces_good].
Qed.

(* the printed module is "0" for the zero module, and otherwise the bare symbol or at least two characters *)
Theorem rmod_str_cases : forall symbol m, symbol <> [] ->
  ((s_rank m = 0%N /\ s_tors m = []) /\ rmod_str symbol m = [48%N]) \/
  (~ (s_rank m = 0%N /\ s_tors m = []) /\ (rmod_str symbol m = symbol \/ 2 <= length (rmod_str symbol m))).
Proof.
  intros symbol m Hs. rewrite rmod_str_unfold.
  destruct ((s_rank m =? 0)%N && (match s_tors m with [] => true | _ => false end)) eqn:E.
  - left. apply andb_true_iff in E. destruct E as [E1 E2]. apply N.eqb_eq in E1.
    destruct (s_tors m); [auto | discriminate].
  - right. split.
    + intros [H1 H2]. rewrite H1, H2 in E. discriminate.
    + pose proof (rmod_pieces_nonempty symbol m E) as Hne.
      assert (Hall : Forall (fun p => p <> []) (rmod_pieces symbol m)).
      { unfold rmod_pieces. apply Forall_app. split.
        - destruct (1 <? s_rank m)%N; [constructor; [|constructor]; destruct symbol; [congruence|discriminate]|].
          destruct (s_rank m =? 1)%N; constructor; [exact Hs | constructor].
        - apply Forall_forall. intros p Hp. apply in_map_iff in Hp. destruct Hp as ([k c] & <- & _).
          cbn [fst snd]. destruct (1 <? c)%N; discriminate. }
      destruct (join_cases oplus _ ltac:(cbn; lia) Hne Hall) as [(p & Ep & Ej)|H]; [|now right].
      rewrite Ej. unfold rmod_pieces in Ep.
      (* a single piece: the symbol, the symbol with an exponent, or a torsion summand *)
      destruct (1 <? s_rank m)%N eqn:L.
      * cbn [app] in Ep. inversion Ep; subst. right. rewrite app_length.
        destruct (superscript_vis (s_rank m)) as [Hn _].
        destruct symbol; [congruence|]. destruct (superscript (s_rank m)); [congruence|]. cbn [length]. lia.
      * destruct (s_rank m =? 1)%N eqn:L1.
        -- cbn [app] in Ep. inversion Ep; subst. now left.
        -- cbn [app] in Ep. destruct (tors_count (s_tors m)) as [|[k c] r]; [discriminate|].
           cbn [map fst snd] in Ep. inversion Ep; subst. right.
           destruct (1 <? c)%N; cbn [length]; rewrite ?app_length; cbn [length]; rewrite ?app_length; cbn [length]; lia.
Qed.

Corollary rmod_str_not_dot : forall symbol m, symbol <> [] -> symbol <> dot -> rmod_str symbol m <> dot.
Proof.
  intros symbol m Hs Hd. destruct (rmod_str_cases symbol m Hs) as [[_ E]|[_ [E|E]]]; rewrite ?E.
  - discriminate.
  - exact Hd.
  - intro E'. rewrite E' in E. cbn in E. lia.
Qed.
Corollary rmod_str_zero : forall symbol m, symbol <> [] -> symbol <> [48%N] ->
  (rmod_str symbol m = [48%N] <-> s_rank m = 0%N /\ s_tors m = []).
Proof.
  intros symbol m Hs Hz. destruct (rmod_str_cases symbol m Hs) as [[Hm E]|[Hm [E|E]]].
  - split; auto.
  - split; [intro E'; congruence | intro; contradiction].
  - split; [intro E'; rewrite E' in E; cbn in E; lia | intro; contradiction].
Qed.
