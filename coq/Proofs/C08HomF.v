(* C08 (continued), function-matrix part: a matrix equivalent to the block sum  I_r (+) S  inherits the Smith forms of S
   with r leading units.  Matrices are functions nat -> nat -> R (Base/MatF.v), [smith_form] is the one of
   Proofs/C07Algebra.v (the vocabulary of C07 / C09).  No integrality is needed here: only 1 <> 0. *)
From Coq Require Import Arith List Lia Ring Bool.
Require Import Yui.Base.Ring Yui.Base.MatF Yui.Proofs.C07Algebra Yui.Proofs.C09UniqueKer.

Section HomF.
  Context {R : Type} (o : ring_ops R) (L : ring_laws o).

  Local Notation "0" := (rzero o).
  Local Notation "1" := (rone o).
  Local Infix "+" := (radd o).
  Local Infix "*" := (rmul o).
  Local Notation "- x" := (rneg o x).

  Add Ring RringHF : (ring_theory_of_laws o L).

  (* vertical / horizontal stacking of function matrices: the first r rows (columns) come from X *)
  Definition vst (r : nat) (X Y : mat R) : mat R := fun i j => if i <? r then X i j else Y (i - r)%nat j.
  Definition hst (r : nat) (X Y : mat R) : mat R := fun i j => if j <? r then X i j else Y i (j - r)%nat.

  Lemma mmul_vst_l n r X Y Z i j : mmul o n (vst r X Y) Z i j = vst r (mmul o n X Z) (mmul o n Y Z) i j.
  Proof. unfold vst, mmul. destruct (i <? r); reflexivity. Qed.

  Lemma mmul_hst_r n r Z X Y i j : mmul o n Z (hst r X Y) i j = hst r (mmul o n Z X) (mmul o n Z Y) i j.
  Proof. unfold hst, mmul. destruct (j <? r); reflexivity. Qed.

  Lemma mmul_hst_vst r k X Y Z W i j :
    mmul o (r + k) (hst r X Y) (vst r Z W) i j = mmul o r X Z i j + mmul o k Y W i j.
  Proof.
    rewrite (mmul_split o L). f_equal.
    - unfold mmul. apply sum_ext. intros l Hl. unfold hst, vst.
      destruct (Nat.ltb_spec l r); [reflexivity|lia].
    - unfold mmul. apply sum_ext. intros l Hl. unfold hst, vst.
      destruct (Nat.ltb_spec (r + l) r); [lia|]. replace (r + l - r)%nat with l by lia. reflexivity.
  Qed.

  (* the block sum I_r (+) S *)
  Definition bd (r : nat) (S : mat R) : mat R := vst r (hst r (mid o) (mzero o)) (hst r (mzero o) S).

  Lemma bd_entry r S i j :
    bd r S i j = if i <? r then (if j <? r then mid o i j else 0)
                 else (if j <? r then 0 else S (i - r)%nat (j - r)%nat).
  Proof. reflexivity. Qed.

  Lemma bd_mul r k X Y i j : mmul o (r + k) (bd r X) (bd r Y) i j = bd r (mmul o k X Y) i j.
  Proof.
    rewrite (bd_entry r (mmul o k X Y)).
    unfold bd at 1. rewrite mmul_vst_l. unfold vst at 1.
    destruct (Nat.ltb_spec i r) as [Hi|Hi].
    - unfold bd. rewrite mmul_hst_vst. rewrite (mmul_id_l o L) by exact Hi.
      rewrite (mmul_zero_l o L). unfold hst, mzero. destruct (j <? r); ring.
    - unfold bd. rewrite mmul_hst_vst. rewrite (mmul_zero_l o L).
      rewrite mmul_hst_r. unfold hst. destruct (j <? r).
      + rewrite (mmul_zero_r o L). ring.
      + ring.
  Qed.

  Lemma bd_id r k : meq (r + k) (r + k) (bd r (mid o)) (mid o).
  Proof.
    intros i j Hi Hj. rewrite bd_entry. unfold mid.
    destruct (Nat.ltb_spec i r); destruct (Nat.ltb_spec j r); try reflexivity.
    - destruct (Nat.eqb_spec i j); [lia|reflexivity].
    - destruct (Nat.eqb_spec i j); [lia|reflexivity].
    - destruct (Nat.eqb_spec (i - r) (j - r)); destruct (Nat.eqb_spec i j); try reflexivity; lia.
  Qed.

  Lemma bd_ext r k l X Y : meq k l X Y -> meq (r + k) (r + l) (bd r X) (bd r Y).
  Proof.
    intros H i j Hi Hj. rewrite !bd_entry.
    destruct (Nat.ltb_spec i r); destruct (Nat.ltb_spec j r); try reflexivity.
    apply H; lia.
  Qed.

  Lemma inv_pair_bd r k X Xi : inv_pair o k X Xi -> inv_pair o (r + k) (bd r X) (bd r Xi).
  Proof.
    intros [H1 H2]. split; intros i j Hi Hj; rewrite bd_mul.
    - rewrite (bd_ext r k k _ (mid o) H1) by assumption. now apply (bd_id r k).
    - rewrite (bd_ext r k k _ (mid o) H2) by assumption. now apply (bd_id r k).
  Qed.

  Lemma inv_pair_mul m X Xi Y Yi :
    inv_pair o m X Xi -> inv_pair o m Y Yi -> inv_pair o m (mmul o m X Y) (mmul o m Yi Xi).
  Proof.
    intros [HX1 HX2] [HY1 HY2]. split; intros i j Hi Hj.
    - rewrite (mmul_assoc o L).
      rewrite (mmul_ext_r o m X _ Xi) by (intros l Hl; now apply (mmul_cancel_l o L)).
      now apply HX1.
    - rewrite (mmul_assoc o L).
      rewrite (mmul_ext_r o m Yi _ Y) by (intros l Hl; now apply (mmul_cancel_l o L)).
      now apply HY2.
  Qed.

  (* the diagonal: r units followed by ds *)
  Definition lead1 (r : nat) (ds : nat -> R) : nat -> R := fun i => if i <? r then 1 else ds (i - r)%nat.

  Lemma bd_diag r k ds i j :
    bd r (fun i j => if (i =? j) && (i <? k) then ds i else 0) i j
    = if (i =? j) && (i <? r + k) then lead1 r ds i else 0.
  Proof.
    rewrite bd_entry. unfold lead1, mid.
    destruct (Nat.ltb_spec i r) as [Hi|Hi]; destruct (Nat.ltb_spec j r) as [Hj|Hj].
    - destruct (Nat.eqb_spec i j); cbn [andb]; [|reflexivity].
      destruct (Nat.ltb_spec i (r + k)); [reflexivity|lia].
    - destruct (Nat.eqb_spec i j); [lia|reflexivity].
    - destruct (Nat.eqb_spec i j); [lia|reflexivity].
    - destruct (Nat.eqb_spec (i - r) (j - r)); destruct (Nat.eqb_spec i j); try lia; cbn [andb]; [|reflexivity].
      destruct (Nat.ltb_spec (i - r) k); destruct (Nat.ltb_spec i (r + k)); try lia; reflexivity.
  Qed.

  (* ---------- the theorem ---------- *)
  Theorem equiv_bd_smith (Hone : 1 <> 0) r mr nr (A S U Ui V Vi : mat R) k ds :
    inv_pair o (r + mr) U Ui -> inv_pair o (r + nr) V Vi ->
    meq (r + mr) (r + nr) (mmul o (r + mr) U (mmul o (r + nr) A V)) (bd r S) ->
    smith_form o mr nr S k ds ->
    smith_form o (r + mr) (r + nr) A (r + k) (lead1 r ds).
  Proof.
    intros HU HV HE [Ps [Psi [Qs [Qsi [HP [HQ [HEs [Hnz Hk]]]]]]]].
    exists (mmul o (r + mr) (bd r Ps) U), (mmul o (r + mr) Ui (bd r Psi)),
           (mmul o (r + nr) V (bd r Qs)), (mmul o (r + nr) (bd r Qsi) Vi).
    split; [apply inv_pair_mul; [now apply inv_pair_bd|exact HU]|].
    split; [apply inv_pair_mul; [exact HV|now apply inv_pair_bd]|].
    split; [|split].
    - intros i j Hi Hj. rewrite (mmul_assoc o L).
      rewrite (mmul_ext_r o (r + mr) (bd r Ps) _ (bd r (mmul o nr S Qs))).
      + rewrite bd_mul. rewrite (bd_ext r mr nr _ _ HEs) by assumption. apply bd_diag.
      + intros l Hl.
        rewrite (mmul_ext_r o (r + mr) U _ (mmul o (r + nr) (mmul o (r + nr) A V) (bd r Qs)))
          by (intros l' _; symmetry; apply (mmul_assoc o L)).
        rewrite <- (mmul_assoc o L).
        rewrite (mmul_ext_l o (r + nr) _ (bd r S)) by (intros l' Hl'; now apply HE).
        apply bd_mul.
    - intros i Hi. unfold lead1. destruct (Nat.ltb_spec i r); [exact Hone|]. apply Hnz. lia.
    - apply Nat.min_glb; pose proof (Nat.le_min_l mr nr); pose proof (Nat.le_min_r mr nr); lia.
  Qed.

  (* a divisibility chain stays one when units are put in front *)
  Lemma lead1_chain r k ds : chain o k ds -> chain o (r + k) (lead1 r ds).
  Proof.
    intros C i Hi. unfold lead1.
    destruct (Nat.ltb_spec i r) as [H1|H1].
    - exists (if S i <? r then 1 else ds (S i - r)%nat). ring.
    - destruct (Nat.ltb_spec (S i) r); [lia|].
      replace (S i - r)%nat with (S (i - r)) by lia. apply C. lia.
  Qed.
End HomF.
