(* C13, sparse part, base lemmas: the abstraction [entry] (sum of the stored values at a position), sums
   over stored-entry lists selected by a predicate on the position ([psum]), the COO -> CSC assembly
   [canon] (keeps every sum, produces a strictly sorted list), and the CSC invariant. *)
From Coq Require Import Arith List Lia Bool Ring Sorted.
Require Import Yui.Base.Ring Yui.Base.MatF Yui.Base.MatL Yui.Model.Dense Yui.Model.Sparse.
Import ListNotations.

Ltac splits := repeat match goal with |- _ /\ _ => split end.

Ltac eqb_cases :=
  repeat (match goal with
          | |- context [Nat.eqb ?a ?b] => is_var a; is_var b; destruct (Nat.eqb_spec a b)
          | H : context [Nat.eqb ?a ?b] |- _ => is_var a; is_var b; destruct (Nat.eqb_spec a b)
          end; subst);
  repeat (match goal with
          | |- context [Nat.eqb ?a ?b] => destruct (Nat.eqb_spec a b)
          end; subst);
  try reflexivity; try congruence; try lia.

Section SpBase.
  Context {R : Type} (o : ring_ops R) (L : ring_laws o).

  Local Notation "0" := (rzero o).
  Local Notation "1" := (rone o).
  Local Infix "+" := (radd o).
  Local Infix "*" := (rmul o).
  Local Notation "- x" := (rneg o x).
  Local Notation ent := (ent R).
  Local Notation spmat := (spmat R).

  Add Ring Rring : (ring_theory_of_laws o L).

  (* ---------- sums selected by a predicate on the position ---------- *)
  Fixpoint psum (P : nat -> nat -> bool) (l : list ent) : R :=
    match l with
    | [] => 0
    | e :: r => if P (e_row e) (e_col e) then e_val e + psum P r else psum P r
    end.

  Lemma esum_psum l i j : esum o l i j = psum (fun i' j' => key_eq i' j' i j) l.
  Proof. induction l as [|e r IH]; cbn [esum psum]; [reflexivity|]. now rewrite IH. Qed.

  Lemma psum_ext P Q l :
    (forall e, In e l -> P (e_row e) (e_col e) = Q (e_row e) (e_col e)) -> psum P l = psum Q l.
  Proof.
    induction l as [|e r IH]; intros H; cbn [psum]; [reflexivity|].
    rewrite (H e (or_introl eq_refl)), IH; [reflexivity|]. intros e' He'. apply H. now right.
  Qed.

  Lemma psum_false P l : (forall e, In e l -> P (e_row e) (e_col e) = false) -> psum P l = 0.
  Proof.
    induction l as [|e r IH]; intros H; cbn [psum]; [reflexivity|].
    rewrite (H e (or_introl eq_refl)). apply IH. intros e' He'. apply H. now right.
  Qed.

  Lemma psum_app P l1 l2 : psum P (l1 ++ l2) = psum P l1 + psum P l2.
  Proof.
    induction l1 as [|e r IH]; cbn [app psum]; [ring|].
    destruct (P (e_row e) (e_col e)); rewrite IH; ring.
  Qed.

  (* filtering by the position *)
  Lemma psum_filter_key P F l :
    psum P (filter (fun e => F (e_row e) (e_col e)) l) = psum (fun i j => F i j && P i j) l.
  Proof.
    induction l as [|e r IH]; cbn [filter psum]; [reflexivity|].
    destruct (F (e_row e) (e_col e)); cbn [andb psum]; now rewrite IH.
  Qed.

  (* dropping zero values *)
  Lemma psum_nz P l : psum P (nz o l) = psum P l.
  Proof.
    unfold nz. induction l as [|e r IH]; cbn [filter psum]; [reflexivity|].
    destruct (ris_zero o (e_val e)) eqn:E; cbn [negb psum]; rewrite IH.
    - apply (reqb_eq o L) in E. destruct (P (e_row e) (e_col e)); [rewrite E; ring|reflexivity].
    - reflexivity.
  Qed.

  (* moving the positions *)
  Definition kmap (h : nat -> nat -> nat * nat) (l : list ent) : list ent :=
    map (fun e => (fst (h (e_row e) (e_col e)), snd (h (e_row e) (e_col e)), e_val e)) l.

  Lemma psum_kmap P h l : psum P (kmap h l) = psum (fun i j => P (fst (h i j)) (snd (h i j))) l.
  Proof.
    unfold kmap. induction l as [|e r IH]; cbn [map psum]; [reflexivity|].
    cbn [e_row e_col e_val fst snd]. now rewrite IH.
  Qed.

  (* changing the values *)
  Lemma psum_map_val P (g : R -> R) l :
    (forall x y, g (x + y) = g x + g y) -> g 0 = 0 ->
    psum P (map (fun e => (e_row e, e_col e, g (e_val e))) l) = g (psum P l).
  Proof.
    intros Hadd H0. induction l as [|e r IH]; cbn [map psum]; [now rewrite H0|].
    cbn [e_row e_col e_val fst snd]. rewrite IH. destruct (P (e_row e) (e_col e)); [now rewrite Hadd|reflexivity].
  Qed.

  (* a predicate that is a disjunction of two exclusive ones *)
  Lemma psum_split P Q l :
    (forall e, In e l -> P (e_row e) (e_col e) && Q (e_row e) (e_col e) = false) ->
    psum (fun i j => P i j || Q i j) l = psum P l + psum Q l.
  Proof.
    induction l as [|e r IH]; intros H; cbn [psum]; [ring|].
    rewrite IH by (intros e' He'; apply H; now right).
    specialize (H e (or_introl eq_refl)).
    destruct (P (e_row e) (e_col e)); destruct (Q (e_row e) (e_col e)); cbn [orb andb] in *;
      try discriminate; ring.
  Qed.

  (* grouping by the row index: a weighted sum over the selected stored entries is a finite sum over rows *)
  Lemma psum_group_rows (Q : nat -> bool) (F : nat -> R) n l :
    (forall e, In e l -> (e_row e < n)%nat) ->
    psum (fun _ j => Q j) (map (fun e => (e_row e, e_col e, F (e_row e) * e_val e)) l)
    = sum o n (fun k => F k * psum (fun i j => (i =? k) && Q j) l).
  Proof.
    induction l as [|e r IH]; intros Hb; cbn [map psum].
    - rewrite (sum_zero_ext o L); [reflexivity|]. intros; ring.
    - cbn [e_row e_col e_val fst snd].
      rewrite IH by (intros e' He'; apply Hb; now right).
      assert (He : (e_row e < n)%nat) by (apply Hb; now left).
      destruct (Q (e_col e)) eqn:EQ.
      + rewrite (sum_ext o n
          (fun k => F k * (if (e_row e =? k) && true
                           then e_val e + psum (fun i j => (i =? k) && Q j) r
                           else psum (fun i j => (i =? k) && Q j) r))
          (fun k => (if k =? e_row e then F k * e_val e else 0)
                    + F k * psum (fun i j => (i =? k) && Q j) r)).
        * rewrite (sum_add o L), (sum_delta o L) by exact He. reflexivity.
        * intros k _. rewrite andb_true_r, (Nat.eqb_sym (e_row e) k). destruct (k =? e_row e); ring.
      + apply (sum_ext o). intros k _. now rewrite andb_false_r.
  Qed.

  (* ---------- sums selected by a predicate on the whole stored entry ---------- *)
  Fixpoint gsum (S : ent -> bool) (l : list ent) : R :=
    match l with [] => 0 | e :: r => if S e then e_val e + gsum S r else gsum S r end.

  Lemma psum_gsum P l : psum P l = gsum (fun e => P (e_row e) (e_col e)) l.
  Proof. induction l as [|e r IH]; cbn [psum gsum]; [reflexivity|]. now rewrite IH. Qed.

  Lemma gsum_ext S T l : (forall e, In e l -> S e = T e) -> gsum S l = gsum T l.
  Proof.
    induction l as [|e r IH]; intros H; cbn [gsum]; [reflexivity|].
    rewrite (H e (or_introl eq_refl)), IH; [reflexivity|]. intros e' He'. apply H. now right.
  Qed.

  Lemma gsum_false S l : (forall e, In e l -> S e = false) -> gsum S l = 0.
  Proof.
    induction l as [|e r IH]; intros H; cbn [gsum]; [reflexivity|].
    rewrite (H e (or_introl eq_refl)). apply IH. intros e' He'. apply H. now right.
  Qed.

  Lemma gsum_app S l1 l2 : gsum S (l1 ++ l2) = gsum S l1 + gsum S l2.
  Proof.
    induction l1 as [|e r IH]; cbn [app gsum]; [ring|]. destruct (S e); rewrite IH; ring.
  Qed.

  (* new positions computed from the old entry, values kept *)
  Lemma gsum_map_key P (fr fc : ent -> nat) l :
    psum P (map (fun e => (fr e, fc e, e_val e)) l) = gsum (fun e => P (fr e) (fc e)) l.
  Proof.
    induction l as [|e r IH]; cbn [map psum gsum]; [reflexivity|].
    cbn [e_row e_col e_val fst snd]. now rewrite IH.
  Qed.

  Lemma gsum_filter S F l : gsum S (filter F l) = gsum (fun e => F e && S e) l.
  Proof.
    induction l as [|e r IH]; cbn [filter gsum]; [reflexivity|].
    destruct (F e); cbn [andb gsum]; now rewrite IH.
  Qed.

  Lemma gsum_nz S l : gsum S (nz o l) = gsum S l.
  Proof.
    unfold nz. induction l as [|e r IH]; cbn [filter gsum]; [reflexivity|].
    destruct (ris_zero o (e_val e)) eqn:E; cbn [negb gsum]; rewrite IH.
    - apply (reqb_eq o L) in E. destruct (S e); [rewrite E; ring|reflexivity].
    - reflexivity.
  Qed.

  Lemma esum_gsum l i j : esum o l i j = gsum (fun e => key_eq (e_row e) (e_col e) i j) l.
  Proof. now rewrite esum_psum, psum_gsum. Qed.

  (* ---------- the abstraction ---------- *)
  Lemma entry_psum (a : spmat) i j : entry o a i j = psum (fun i' j' => key_eq i' j' i j) (sp_st a).
  Proof. apply esum_psum. Qed.

  Lemma key_eq_true i j i' j' : key_eq i j i' j' = true <-> i = i' /\ j = j'.
  Proof. unfold key_eq. rewrite andb_true_iff, !Nat.eqb_eq. tauto. Qed.

  Lemma key_eq_refl i j : key_eq i j i j = true.
  Proof. now apply key_eq_true. Qed.

  Lemma key_eq_sym i j i' j' : key_eq i j i' j' = key_eq i' j' i j.
  Proof. unfold key_eq. now rewrite (Nat.eqb_sym i i'), (Nat.eqb_sym j j'). Qed.

  (* ---------- assembly keeps every sum ---------- *)
  Lemma psum_ins P i j a l : psum P (ins o i j a l) = (if P i j then a else 0) + psum P l.
  Proof.
    induction l as [|e r IH]; cbn [ins psum].
    - cbn [e_row e_col e_val fst snd]. destruct (P i j); ring.
    - destruct (key_eq i j (e_row e) (e_col e)) eqn:E.
      + apply key_eq_true in E. destruct E as [<- <-]. cbn [psum e_row e_col e_val fst snd].
        destruct (P i j); ring.
      + destruct (key_lt i j (e_row e) (e_col e)); cbn [psum e_row e_col e_val fst snd].
        * destruct (P i j); destruct (P (e_row e) (e_col e)); ring.
        * rewrite IH. destruct (P i j); destruct (P (e_row e) (e_col e)); ring.
  Qed.

  Lemma psum_canon P l : psum P (canon o l) = psum P l.
  Proof.
    unfold canon. induction l as [|e r IH]; cbn [fold_right psum]; [reflexivity|].
    rewrite psum_ins, IH. destruct (P (e_row e) (e_col e)); ring.
  Qed.

  Lemma esum_canon l i j : esum o (canon o l) i j = esum o l i j.
  Proof. rewrite !esum_psum. apply psum_canon. Qed.

  (* ---------- positions after assembly ---------- *)
  Definition same_key (e e' : ent) : Prop := e_row e = e_row e' /\ e_col e = e_col e'.

  Lemma ins_keys i j a l e :
    In e (ins o i j a l) -> (e_row e = i /\ e_col e = j) \/ exists e', In e' l /\ same_key e e'.
  Proof.
    induction l as [|x r IH]; cbn [ins]; intros H.
    - destruct H as [<-|[]]. now left.
    - destruct (key_eq i j (e_row x) (e_col x)) eqn:E.
      + destruct H as [<-|H]; [now left|]. right. exists e. split; [now right|]. now split.
      + destruct (key_lt i j (e_row x) (e_col x)).
        * destruct H as [<-|H]; [now left|]. right. exists e. split; [exact H|]. now split.
        * destruct H as [->|H].
          -- right. exists e. split; [now left|]. now split.
          -- destruct (IH H) as [K|[e' [He' K]]]; [now left|]. right. exists e'. split; [now right|exact K].
  Qed.

  Lemma canon_keys l e : In e (canon o l) -> exists e', In e' l /\ same_key e e'.
  Proof.
    unfold canon. revert e. induction l as [|x r IH]; cbn [fold_right]; intros e H; [destruct H|].
    apply ins_keys in H. destruct H as [[H1 H2]|[e' [He' K]]].
    - exists x. split; [now left|]. now split.
    - destruct (IH e' He') as [e'' [H1 H2]]. exists e''. split; [now right|].
      destruct K, H2. split; congruence.
  Qed.

  (* conversely every position of the input is present *)
  Lemma ins_has i j a l : exists b, In (i, j, b) (ins o i j a l).
  Proof.
    induction l as [|x r IH]; cbn [ins].
    - exists a. now left.
    - destruct (key_eq i j (e_row x) (e_col x)); [eexists; now left|].
      destruct (key_lt i j (e_row x) (e_col x)); [eexists; now left|].
      destruct IH as [b Hb]. exists b. now right.
  Qed.

  Lemma ins_keeps i j a l e : In e l -> exists e', In e' (ins o i j a l) /\ same_key e e'.
  Proof.
    induction l as [|x r IH]; cbn [ins]; intros H; [destruct H|].
    destruct (key_eq i j (e_row x) (e_col x)) eqn:E.
    - apply key_eq_true in E. destruct E as [E1 E2]. destruct H as [<-|H].
      + eexists. split; [now left|]. split; cbn [e_row e_col fst snd]; congruence.
      + exists e. split; [now right|now split].
    - destruct (key_lt i j (e_row x) (e_col x)).
      + exists e. split; [now right|now split].
      + destruct H as [<-|H].
        * exists x. split; [now left|now split].
        * destruct (IH H) as [e' [H1 H2]]. exists e'. split; [now right|exact H2].
  Qed.

  Lemma canon_has l e : In e l -> exists e', In e' (canon o l) /\ same_key e e'.
  Proof.
    unfold canon. induction l as [|x r IH]; cbn [fold_right]; intros H; [destruct H|].
    destruct H as [<-|H].
    - destruct (ins_has (e_row x) (e_col x) (e_val x) (fold_right (fun e acc => ins o (e_row e) (e_col e) (e_val e) acc) [] r)) as [b Hb].
      eexists. split; [exact Hb|]. now split.
    - destruct (IH H) as [e' [H1 H2]].
      destruct (ins_keeps (e_row x) (e_col x) (e_val x) _ e' H1) as [e'' [H3 H4]].
      exists e''. split; [exact H3|]. destruct H2, H4. split; congruence.
  Qed.

  (* ---------- bounds ---------- *)
  Lemma in_bounds_iff m n (l : list ent) :
    in_bounds m n l = true <-> forall e, In e l -> (e_row e < m)%nat /\ (e_col e < n)%nat.
  Proof.
    unfold in_bounds. rewrite forallb_forall. split; intros H e He; specialize (H e He).
    - apply andb_true_iff in H. now rewrite !Nat.ltb_lt in H.
    - apply andb_true_iff. now rewrite !Nat.ltb_lt.
  Qed.

  Lemma in_bounds_false m n (l : list ent) :
    in_bounds m n l = false <-> exists e, In e l /\ ~ ((e_row e < m)%nat /\ (e_col e < n)%nat).
  Proof.
    split.
    - intros H. induction l as [|e r IH]; [discriminate|].
      cbn [in_bounds forallb] in H. destruct ((e_row e <? m) && (e_col e <? n)) eqn:E.
      + cbn [andb] in H. destruct (IH H) as [e' [H1 H2]]. exists e'. split; [now right|exact H2].
      + exists e. split; [now left|]. intros [H1 H2]. apply Nat.ltb_lt in H1, H2. rewrite H1, H2 in E. discriminate.
    - intros [e [He Hn]]. destruct (in_bounds m n l) eqn:E; [|reflexivity].
      exfalso. apply Hn. now apply (proj1 (in_bounds_iff m n l) E).
  Qed.

  Lemma in_bounds_canon m n l : in_bounds m n (canon o l) = in_bounds m n l.
  Proof.
    destruct (in_bounds m n l) eqn:E.
    - apply in_bounds_iff. intros e He. destruct (canon_keys l e He) as [e' [H1 [H2 H3]]].
      rewrite H2, H3. now apply (proj1 (in_bounds_iff m n l) E).
    - apply in_bounds_false in E. destruct E as [e [He Hn]]. apply in_bounds_false.
      destruct (canon_has l e He) as [e' [H1 [H2 H3]]]. exists e'. split; [exact H1|]. now rewrite <- H2, <- H3.
  Qed.

  Lemma in_bounds_app m n (l1 l2 : list ent) : in_bounds m n (l1 ++ l2) = in_bounds m n l1 && in_bounds m n l2.
  Proof. unfold in_bounds. apply forallb_app. Qed.

  (* outside the bounds nothing is stored *)
  Lemma psum_out m n l P :
    in_bounds m n l = true -> (forall i j, (i < m)%nat -> (j < n)%nat -> P i j = false) -> psum P l = 0.
  Proof.
    intros B H. apply psum_false. intros e He.
    destruct (proj1 (in_bounds_iff m n l) B e He). now apply H.
  Qed.

  (* ---------- sortedness ---------- *)
  Definition klt (e e' : ent) : Prop := key_lt (e_row e) (e_col e) (e_row e') (e_col e') = true.

  Lemma key_lt_spec i j i' j' : key_lt i j i' j' = true <-> (j < j')%nat \/ (j = j' /\ (i < i')%nat).
  Proof. unfold key_lt. rewrite orb_true_iff, andb_true_iff, !Nat.ltb_lt, Nat.eqb_eq. tauto. Qed.

  Lemma klt_trans x y z : klt x y -> klt y z -> klt x z.
  Proof. unfold klt. rewrite !key_lt_spec. lia. Qed.

  Lemma klt_neq x y : klt x y -> key_eq (e_row x) (e_col x) (e_row y) (e_col y) = false.
  Proof.
    unfold klt. rewrite key_lt_spec. intros H.
    destruct (key_eq (e_row x) (e_col x) (e_row y) (e_col y)) eqn:E; [|reflexivity].
    apply key_eq_true in E. lia.
  Qed.

  Lemma sortedb_iff (l : list ent) : sortedb l = true <-> StronglySorted klt l.
  Proof.
    induction l as [|e r IH]; [split; [constructor|reflexivity]|].
    destruct r as [|e' r'].
    - split; [intros _; repeat constructor|reflexivity].
    - change (sortedb (e :: e' :: r')) with (key_lt (e_row e) (e_col e) (e_row e') (e_col e') && sortedb (e' :: r')).
      rewrite andb_true_iff, IH. split.
      + intros [H1 H2]. constructor; [exact H2|].
        constructor; [exact H1|]. apply StronglySorted_inv in H2. destruct H2 as [_ H2].
        eapply Forall_impl; [|exact H2]. intros z Hz. eapply klt_trans; [exact H1|exact Hz].
      + intros H. apply StronglySorted_inv in H. destruct H as [H1 H2]. split; [|exact H1].
        now inversion H2.
  Qed.

  Lemma ins_forall (x : ent) i j a l :
    klt x (i, j, a) -> Forall (klt x) l -> Forall (klt x) (ins o i j a l).
  Proof.
    intros Hx H. apply Forall_forall. intros e He. apply ins_keys in He.
    destruct He as [[E1 E2]|[e' [He' [E1 E2]]]].
    - unfold klt in *. cbn [e_row e_col fst snd] in Hx. now rewrite E1, E2.
    - rewrite Forall_forall in H. specialize (H e' He'). unfold klt in *. now rewrite E1, E2.
  Qed.

  Lemma ins_sorted i j a l : StronglySorted klt l -> StronglySorted klt (ins o i j a l).
  Proof.
    induction l as [|x r IH]; cbn [ins]; intros S.
    - repeat constructor.
    - apply StronglySorted_inv in S. destruct S as [S1 S2].
      destruct (key_eq i j (e_row x) (e_col x)) eqn:E.
      + apply key_eq_true in E. destruct E as [E1 E2]. constructor; [exact S1|].
        eapply Forall_impl; [|exact S2]. intros z Hz. unfold klt in *. cbn [e_row e_col fst snd]. now rewrite E1, E2.
      + destruct (key_lt i j (e_row x) (e_col x)) eqn:E'.
        * constructor; [constructor; assumption|]. constructor; [exact E'|].
          eapply Forall_impl; [|exact S2]. intros z Hz. eapply klt_trans; [|exact Hz]. exact E'.
        * constructor; [now apply IH|]. apply ins_forall; [|exact S2].
          unfold klt. cbn [e_row e_col fst snd].
          apply key_lt_spec. unfold key_eq in E. unfold key_lt in E'.
          apply orb_false_iff in E'. destruct E' as [E1 E2].
          apply Nat.ltb_ge in E1. apply andb_false_iff in E.
          destruct (Nat.eqb_spec j (e_col x)) as [->|Hne]; [|lia].
          cbn [andb] in E2. apply Nat.ltb_ge in E2. right. split; [reflexivity|].
          destruct E as [E|E]; [apply Nat.eqb_neq in E; lia|discriminate].
  Qed.

  Lemma canon_sorted l : StronglySorted klt (canon o l).
  Proof.
    unfold canon. induction l as [|e r IH]; cbn [fold_right]; [constructor|]. now apply ins_sorted.
  Qed.

  Lemma sortedb_canon l : sortedb (canon o l) = true.
  Proof. apply sortedb_iff, canon_sorted. Qed.

  Lemma sorted_app (l1 l2 : list ent) :
    StronglySorted klt l1 -> StronglySorted klt l2 ->
    (forall x y, In x l1 -> In y l2 -> klt x y) -> StronglySorted klt (l1 ++ l2).
  Proof.
    induction l1 as [|x r IH]; intros S1 S2 H; cbn [app]; [exact S2|].
    apply StronglySorted_inv in S1. destruct S1 as [S1 F1]. constructor.
    - apply IH; [exact S1|exact S2|]. intros a b Ha Hb. apply H; [now right|exact Hb].
    - apply Forall_app. split; [exact F1|]. apply Forall_forall. intros y Hy. apply H; [now left|exact Hy].
  Qed.

  Lemma sorted_map_mono (g : ent -> ent) l :
    (forall x y, klt x y -> klt (g x) (g y)) -> StronglySorted klt l -> StronglySorted klt (map g l).
  Proof.
    intros Hg. induction l as [|x r IH]; intros S; cbn [map]; [constructor|].
    apply StronglySorted_inv in S. destruct S as [S F]. constructor; [now apply IH|].
    apply Forall_forall. intros y Hy. apply in_map_iff in Hy. destruct Hy as [z [<- Hz]].
    apply Hg. rewrite Forall_forall in F. now apply F.
  Qed.

  Lemma sorted_filter (F : ent -> bool) l : StronglySorted klt l -> StronglySorted klt (filter F l).
  Proof.
    induction l as [|x r IH]; intros S; cbn [filter]; [constructor|].
    apply StronglySorted_inv in S. destruct S as [S Fx]. destruct (F x); [|now apply IH].
    constructor; [now apply IH|]. apply Forall_forall. intros y Hy. apply filter_In in Hy.
    rewrite Forall_forall in Fx. now apply Fx.
  Qed.

  (* in a sorted list a position is stored at most once: the sum at a stored position is the stored value *)
  Lemma sorted_psum_stored l e :
    StronglySorted klt l -> In e l -> psum (fun i j => key_eq i j (e_row e) (e_col e)) l = e_val e.
  Proof.
    induction l as [|x r IH]; intros S H; [destruct H|].
    apply StronglySorted_inv in S. destruct S as [S F]. rewrite Forall_forall in F. cbn [psum].
    destruct H as [->|H].
    - rewrite key_eq_refl. rewrite psum_false; [ring|].
      intros y Hy. rewrite key_eq_sym. apply klt_neq. now apply F.
    - rewrite (klt_neq x e (F e H)). now apply IH.
  Qed.

  Lemma psum_not_stored l i j :
    (forall e, In e l -> ~ (e_row e = i /\ e_col e = j)) -> psum (fun i' j' => key_eq i' j' i j) l = 0.
  Proof.
    intros H. apply psum_false. intros e He. destruct (key_eq (e_row e) (e_col e) i j) eqn:E; [|reflexivity].
    apply key_eq_true in E. exfalso. now apply (H e He).
  Qed.

  (* ---------- the CSC invariant ---------- *)
  Definition sp_wf (a : spmat) : Prop := sp_wfb a = true.

  Lemma sp_wf_iff (a : spmat) :
    sp_wf a <-> in_bounds (sp_m a) (sp_n a) (sp_st a) = true /\ StronglySorted klt (sp_st a).
  Proof. unfold sp_wf, sp_wfb, csc_validb. now rewrite andb_true_iff, sortedb_iff. Qed.

  Lemma sp_wf_canon m n l : in_bounds m n l = true -> sp_wf (mksp m n (canon o l)).
  Proof.
    intros B. apply sp_wf_iff. cbn [sp_m sp_n sp_st]. split; [now rewrite in_bounds_canon|apply canon_sorted].
  Qed.

  (* under the invariant: the entry at a stored position is the stored value, elsewhere (in particular
     outside the shape) it is zero *)
  Lemma entry_stored (a : spmat) i j v : sp_wf a -> In (i, j, v) (sp_st a) -> entry o a i j = v.
  Proof.
    intros W H. apply sp_wf_iff in W. destruct W as [_ S]. rewrite entry_psum.
    apply (sorted_psum_stored (sp_st a) (i, j, v) S H).
  Qed.

  Lemma entry_not_stored (a : spmat) i j : (forall v, ~ In (i, j, v) (sp_st a)) -> entry o a i j = 0.
  Proof.
    intros H. rewrite entry_psum. apply psum_not_stored. intros [[i' j'] v] He [E1 E2].
    cbn [e_row e_col fst snd] in E1, E2. subst. now apply (H v).
  Qed.

  Lemma entry_outside (a : spmat) i j : sp_wf a -> (sp_m a <= i)%nat \/ (sp_n a <= j)%nat -> entry o a i j = 0.
  Proof.
    intros W H. apply sp_wf_iff in W. destruct W as [B _]. rewrite entry_psum.
    apply (psum_out _ _ _ _ B). intros i' j' Hi Hj. unfold key_eq. eqb_cases.
  Qed.

  Lemma entry_cases (a : spmat) i j : sp_wf a ->
    (exists v, In (i, j, v) (sp_st a) /\ entry o a i j = v) \/
    ((forall v, ~ In (i, j, v) (sp_st a)) /\ entry o a i j = 0).
  Proof.
    intros W.
    destruct (existsb (fun e => key_eq (e_row e) (e_col e) i j) (sp_st a)) eqn:E.
    - apply existsb_exists in E. destruct E as [[[i' j'] v] [He K]]. apply key_eq_true in K.
      cbn [e_row e_col fst snd] in K. destruct K as [-> ->]. left. exists v. split; [exact He|]. now apply entry_stored.
    - right. assert (H : forall v, ~ In (i, j, v) (sp_st a)).
      { intros v Hv. assert (existsb (fun e => key_eq (e_row e) (e_col e) i j) (sp_st a) = true).
        { apply existsb_exists. exists (i, j, v). split; [exact Hv|]. apply key_eq_refl. }
        congruence. }
      split; [exact H|]. now apply entry_not_stored.
  Qed.
End SpBase.

