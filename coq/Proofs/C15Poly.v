(* C15, univariate polynomials over a field (poly.rs: div_rem; Model/EuclidPoly.v): the long division
   loop.  A polynomial is its coefficient list, lowest degree first, in normal form (no trailing zero,
   [p_norm f = f]).  For every normal f and every normal g <> 0 the loop returns (q, r), both normal, with
   f = q g + r (computed with the model's own + and * ) and r = 0 or deg r < deg g; division by 0 panics.
   Only what the loop needs is assumed of the coefficient dictionary F: the ring laws and that x / b is
   x * b^-1 for b <> 0 and panics for b = 0 (true of every field dictionary, C15Field.v). *)
From Coq Require Import ZArith Lia Bool Ring Arith List Setoid.
Require Import Yui.Base.Ring Yui.Model.Euclid Yui.Model.EuclidPoly.
Require Import Yui.Proofs.C15Gcd Yui.Proofs.C15Field.
Import ListNotations.

Section PolyDiv.
  Context {K : Type} (F : euc_dict K).
  Notation o := (d_ring F).
  Context (L : ring_laws o).
  Hypothesis one_neq_zero : rone o <> rzero o.
  Hypothesis div_by_zero : forall a, d_div F a (rzero o) = None.
  Hypothesis div_field : forall b, b <> rzero o ->
    exists i, rmul o b i = rone o /\ forall a, d_div F a b = Some (rmul o a i).
  Add Ring PKring : (ring_theory_of_laws o L).
  Declare Scope P_scope.
  Delimit Scope P_scope with P.
  Notation "0" := (rzero o) : P_scope.
  Notation "1" := (rone o) : P_scope.
  Notation "a + b" := (radd o a b) : P_scope.
  Notation "a * b" := (rmul o a b) : P_scope.
  Notation "a - b" := (rsub o a b) : P_scope.
  Notation "- a" := (rneg o a) : P_scope.

  Definition coef (f : list K) (n : nat) : K := nth n f 0%P.
  Definition peq (f g : list K) : Prop := forall n, coef f n = coef g n.
  Definition normal (f : list K) : Prop := p_norm F f = f.

  Lemma kz_reflect a : reflect (a = 0%P) (kzero F a).
  Proof. apply (reqb_spec o L). Qed.

  Lemma coef_nil n : coef [] n = 0%P.
  Proof. destruct n; reflexivity. Qed.
  Lemma coef_cons_0 a f : coef (a :: f) O = a.
  Proof. reflexivity. Qed.
  Lemma coef_cons_S a f m : coef (a :: f) (S m) = coef f m.
  Proof. reflexivity. Qed.
  Lemma coef_overflow f n : length f <= n -> coef f n = 0%P.
  Proof. apply nth_overflow. Qed.
  Lemma coef_last f : coef f (pred (length f)) = last f 0%P.
  Proof.
    induction f as [|a f IH]; [reflexivity|]. destruct f as [|b f]; [reflexivity|].
    change (coef (b :: f) (pred (length (b :: f))) = last (b :: f) 0%P). exact IH.
  Qed.

  (* ---------- normal forms ---------- *)
  Lemma coef_norm f n : coef (p_norm F f) n = coef f n.
  Proof.
    revert n. induction f as [|a f IH]; intros n; [reflexivity|]. cbn [p_norm].
    destruct (p_norm F f) as [|b r] eqn:E.
    - destruct (kz_reflect a) as [Z|NZ].
      + rewrite coef_nil. destruct n as [|m]; [symmetry; exact Z|]. rewrite coef_cons_S, <- (IH m). symmetry. apply coef_nil.
      + destruct n as [|m]; [reflexivity|]. rewrite !coef_cons_S, <- (IH m). reflexivity.
    - destruct n as [|m]; [reflexivity|]. rewrite !coef_cons_S. apply (IH m).
  Qed.
  Lemma norm_of_zero g : (forall n, coef g n = 0%P) -> p_norm F g = [].
  Proof.
    induction g as [|b g IH]; intros H; [reflexivity|]. cbn [p_norm].
    rewrite IH by (intros n; apply (H (S n))).
    destruct (kz_reflect b) as [_|N]; [reflexivity|]. exfalso. apply N. apply (H O).
  Qed.
  Lemma norm_peq f : forall g, peq f g -> p_norm F f = p_norm F g.
  Proof.
    induction f as [|a f IH]; intros g H.
    - symmetry. apply norm_of_zero. intros n. rewrite <- (H n). apply coef_nil.
    - destruct g as [|b g].
      + apply norm_of_zero. intros n. rewrite (H n). apply coef_nil.
      + cbn [p_norm]. rewrite (IH g) by (intros n; apply (H (S n))).
        pose proof (H O) as E. cbn in E. subst b. reflexivity.
  Qed.
  Lemma norm_idem f : normal (p_norm F f).
  Proof. apply norm_peq. intros n. apply coef_norm. Qed.
  Lemma normal_unique f g : normal f -> normal g -> peq f g -> f = g.
  Proof. intros Nf Ng H. rewrite <- Nf, <- Ng. now apply norm_peq. Qed.
  Lemma norm_last f : p_norm F f <> [] -> last (p_norm F f) 0%P <> 0%P.
  Proof.
    induction f as [|a f IH]; [intros H; contradiction|]. cbn [p_norm].
    destruct (p_norm F f) as [|b r] eqn:E.
    - destruct (kz_reflect a) as [Z|NZ]; [intros H; contradiction|]. intros _. exact NZ.
    - intros _. change (last (b :: r) 0%P <> 0%P). apply IH. discriminate.
  Qed.
  Lemma normal_last f : normal f -> f <> [] -> last f 0%P <> 0%P.
  Proof. intros N H. rewrite <- N. apply norm_last. rewrite N. exact H. Qed.
  Lemma last_normal f : last f 0%P <> 0%P -> normal f.
  Proof.
    unfold normal. induction f as [|a f IH]; intros H; [reflexivity|]. cbn [p_norm].
    destruct f as [|b f].
    - cbn. destruct (kz_reflect a) as [Z|_]; [contradiction|reflexivity].
    - rewrite IH by exact H. reflexivity.
  Qed.
  Lemma normal_length f m : normal f -> (forall n, m <= n -> coef f n = 0%P) -> length f <= m.
  Proof.
    intros N H. destruct (le_lt_dec (length f) m) as [|Gt]; [assumption|]. exfalso.
    assert (NE : f <> []) by (intros ->; cbn in Gt; lia).
    apply (normal_last f N NE). rewrite <- coef_last. apply H. lia.
  Qed.
  Lemma normal_nil : normal [].
  Proof. reflexivity. Qed.

  (* ---------- coefficients of the raw operations ---------- *)
  Lemma coef_add_raw f : forall g n, coef (p_add_raw F f g) n = (coef f n + coef g n)%P.
  Proof.
    induction f as [|a f IH]; intros g n.
    - cbn [p_add_raw]. rewrite coef_nil. ring.
    - destruct g as [|b g]; [cbn [p_add_raw]; rewrite coef_nil; ring|].
      cbn [p_add_raw]. destruct n as [|m]; [reflexivity|]. rewrite !coef_cons_S. apply IH.
  Qed.
  Lemma coef_neg f n : coef (p_neg F f) n = (- coef f n)%P.
  Proof.
    revert n. unfold p_neg. induction f as [|a f IH]; intros n; [cbn [map]; rewrite coef_nil; ring|].
    cbn [map]. destruct n as [|m]; [reflexivity|]. rewrite !coef_cons_S. apply IH.
  Qed.
  Lemma coef_scale c f n : coef (p_scale F c f) n = (c * coef f n)%P.
  Proof.
    revert n. unfold p_scale. induction f as [|a f IH]; intros n; [cbn [map]; rewrite coef_nil; ring|].
    cbn [map]. destruct n as [|m]; [reflexivity|]. rewrite !coef_cons_S. apply IH.
  Qed.

  (* sum_{i <= n} G i *)
  Fixpoint sumn (n : nat) (G : nat -> K) : K :=
    match n with O => G O | S m => (sumn m G + G (S m))%P end.
  Lemma sumn_ext n G G' : (forall i, i <= n -> G i = G' i) -> sumn n G = sumn n G'.
  Proof.
    induction n as [|n IH]; intros H; cbn; [apply H; lia|]. rewrite IH by (intros; apply H; lia).
    rewrite (H (S n)) by lia. reflexivity.
  Qed.
  Lemma sumn_add n G G' : sumn n (fun i => (G i + G' i)%P) = (sumn n G + sumn n G')%P.
  Proof. induction n as [|n IH]; cbn; [reflexivity|]. rewrite IH. ring. Qed.
  Lemma sumn_zero n : sumn n (fun _ => 0%P) = 0%P.
  Proof. induction n as [|n IH]; cbn; [reflexivity|]. rewrite IH. ring. Qed.
  Lemma sumn_shift n G : sumn (S n) G = (G O + sumn n (fun j => G (S j)))%P.
  Proof. induction n as [|n IH]; [reflexivity|]. cbn [sumn] in *. rewrite IH. ring. Qed.

  Definition conv (f g : list K) (n : nat) : K := sumn n (fun i => (coef f i * coef g (n - i))%P).

  Lemma coef_mul_raw f : forall g n, coef (p_mul_raw F f g) n = conv f g n.
  Proof.
    induction f as [|a f IH]; intros g n.
    - cbn [p_mul_raw]. rewrite coef_nil. unfold conv.
      rewrite (sumn_ext n _ (fun _ => 0%P)); [symmetry; apply sumn_zero|]. intros i _. rewrite coef_nil. ring.
    - cbn [p_mul_raw]. rewrite coef_add_raw, coef_scale. destruct n as [|m].
      + unfold conv. cbn. ring.
      + change (coef (0%P :: p_mul_raw F f g) (S m)) with (coef (p_mul_raw F f g) m). rewrite IH.
        unfold conv. rewrite sumn_shift. cbn [coef nth Nat.sub]. reflexivity.
  Qed.
  Lemma conv_ext_l f f' g n : peq f f' -> conv f g n = conv f' g n.
  Proof. intros H. apply sumn_ext. intros i _. now rewrite (H i). Qed.
  Lemma conv_add_l f f' g n : conv (p_add_raw F f f') g n = (conv f g n + conv f' g n)%P.
  Proof.
    unfold conv. rewrite <- sumn_add. apply sumn_ext. intros i _. rewrite coef_add_raw. ring.
  Qed.

  Lemma sumn_scale n a G : sumn n (fun i => (a * G i)%P) = (a * sumn n G)%P.
  Proof. induction n as [|n IH]; cbn; [reflexivity|]. rewrite IH. ring. Qed.
  Lemma sumn_all_zero n G : (forall i, i <= n -> G i = 0%P) -> sumn n G = 0%P.
  Proof. intros H. rewrite (sumn_ext n G (fun _ => 0%P) H). apply sumn_zero. Qed.
  Lemma sumn_rev n G : sumn n G = sumn n (fun i => G (n - i)).
  Proof.
    induction n as [|n IH]; [reflexivity|]. rewrite (sumn_shift n (fun i => G (S n - i))).
    cbn [sumn Nat.sub]. rewrite IH. ring.
  Qed.
  Lemma sumn_single n k G : k <= n -> (forall i, i <= n -> i <> k -> G i = 0%P) -> sumn n G = G k.
  Proof.
    induction n as [|n IH]; intros Hk H.
    - replace k with O by lia. reflexivity.
    - cbn [sumn]. destruct (Nat.eq_dec k (S n)) as [->|Ne].
      + rewrite sumn_all_zero by (intros i Hi; apply H; lia). ring.
      + rewrite IH by (try lia; intros i Hi Hik; apply H; lia). rewrite (H (S n)) by lia. ring.
  Qed.

  Lemma conv_comm f g n : conv f g n = conv g f n.
  Proof.
    unfold conv. rewrite sumn_rev. apply sumn_ext. intros i Hi.
    replace (n - (n - i)) with i by lia. ring.
  Qed.
  Lemma conv_ext_r f g g' n : peq g g' -> conv f g n = conv f g' n.
  Proof. intros H. apply sumn_ext. intros i _. now rewrite (H (n - i)). Qed.
  Lemma conv_add_r f g g' n : conv f (p_add_raw F g g') n = (conv f g n + conv f g' n)%P.
  Proof. rewrite conv_comm, conv_add_l, (conv_comm g), (conv_comm g'). reflexivity. Qed.
  Lemma conv_nil_l g n : conv [] g n = 0%P.
  Proof. unfold conv. apply sumn_all_zero. intros i _. rewrite coef_nil. ring. Qed.
  Lemma conv_cons a f g n :
    conv (a :: f) g n = (a * coef g n + match n with O => 0 | S m => conv f g m end)%P.
  Proof.
    rewrite <- coef_mul_raw. cbn [p_mul_raw]. rewrite coef_add_raw, coef_scale.
    destruct n as [|m]; [reflexivity|]. rewrite coef_cons_S, coef_mul_raw. reflexivity.
  Qed.
  Lemma conv_scale_l a g h n : conv (p_scale F a g) h n = (a * conv g h n)%P.
  Proof. unfold conv. rewrite <- sumn_scale. apply sumn_ext. intros i _. rewrite coef_scale. ring. Qed.
  Lemma conv_assoc f g h : forall n, conv (p_mul_raw F f g) h n = conv f (p_mul_raw F g h) n.
  Proof.
    induction f as [|a f IH]; intros n.
    - cbn [p_mul_raw]. rewrite !conv_nil_l. reflexivity.
    - cbn [p_mul_raw]. rewrite conv_add_l, conv_scale_l, !conv_cons, coef_mul_raw.
      destruct n as [|m]; [ring|]. rewrite IH. ring.
  Qed.

  (* c x^k * g *)
  Lemma coef_shift_mul c g : forall k n,
    coef (p_mul_raw F (repeat 0%P k ++ [c]) g) n = if n <? k then 0%P else (c * coef g (n - k))%P.
  Proof.
    induction k as [|k IH]; intros n.
    - cbn [repeat app p_mul_raw]. rewrite coef_add_raw, coef_scale. rewrite Nat.sub_0_r.
      replace (coef [0%P] n) with 0%P by (destruct n as [|[|m]]; reflexivity). cbn. ring.
    - cbn [repeat app p_mul_raw]. rewrite coef_add_raw, coef_scale. destruct n as [|m].
      + cbn. ring.
      + change (coef (0%P :: p_mul_raw F (repeat 0%P k ++ [c]) g) (S m))
          with (coef (p_mul_raw F (repeat 0%P k ++ [c]) g) m).
        rewrite IH. change (S m <? S k) with (m <? k). cbn [Nat.sub]. destruct (m <? k); ring.
  Qed.
  Lemma coef_mono_mul k c g n :
    coef (p_mul_raw F (p_mono F k c) g) n = if n <? k then 0%P else (c * coef g (n - k))%P.
  Proof.
    unfold p_mono. destruct (kz_reflect c) as [Z|_]; [|apply coef_shift_mul].
    cbn [p_mul_raw]. rewrite coef_nil, Z. destruct (n <? k); ring.
  Qed.
  Lemma normal_mono k c : normal (p_mono F k c).
  Proof.
    unfold p_mono. destruct (kz_reflect c) as [_|NZ]; [reflexivity|].
    apply last_normal. rewrite last_last. exact NZ.
  Qed.

  (* coefficients of the normalising operations *)
  Lemma coef_add f g n : coef (p_add F f g) n = (coef f n + coef g n)%P.
  Proof. unfold p_add. rewrite coef_norm. apply coef_add_raw. Qed.
  Lemma coef_mul f g n : coef (p_mul F f g) n = conv f g n.
  Proof. unfold p_mul. rewrite coef_norm. apply coef_mul_raw. Qed.
  Lemma coef_sub f g n : coef (p_sub F f g) n = (coef f n - coef g n)%P.
  Proof. unfold p_sub. rewrite coef_add, coef_neg. reflexivity. Qed.
  Lemma normal_add f g : normal (p_add F f g).
  Proof. apply norm_idem. Qed.

  (* ---------- the ring laws of +, -, * on normal forms ---------- *)
  Lemma poly_add_comm f g : p_add F f g = p_add F g f.
  Proof. apply norm_peq. intros n. rewrite !coef_add_raw. ring. Qed.
  Lemma poly_add_assoc f g h : p_add F f (p_add F g h) = p_add F (p_add F f g) h.
  Proof. apply norm_peq. intros n. rewrite !coef_add_raw, !coef_add. ring. Qed.
  Lemma poly_add_0_l f : normal f -> p_add F p_zero f = f.
  Proof. intros N. exact N. Qed.
  Lemma poly_add_neg f : p_add F f (p_neg F f) = p_zero.
  Proof. apply norm_of_zero. intros n. rewrite coef_add_raw, coef_neg. ring. Qed.
  Lemma poly_mul_comm f g : p_mul F f g = p_mul F g f.
  Proof. apply norm_peq. intros n. rewrite !coef_mul_raw. apply conv_comm. Qed.
  Lemma poly_mul_assoc f g h : p_mul F f (p_mul F g h) = p_mul F (p_mul F f g) h.
  Proof.
    apply norm_peq. intros n. rewrite !coef_mul_raw.
    rewrite (conv_ext_r f (p_mul F g h) (p_mul_raw F g h)) by (intros m; apply coef_norm).
    rewrite (conv_ext_l (p_mul F f g) (p_mul_raw F f g)) by (intros m; apply coef_norm).
    symmetry. apply conv_assoc.
  Qed.
  Lemma poly_mul_1_l f : normal f -> p_mul F (p_one F) f = f.
  Proof.
    intros N. unfold normal in N. rewrite <- N at 2. apply norm_peq. intros n. rewrite coef_mul_raw. unfold p_one.
    rewrite conv_cons. destruct n as [|m]; [ring|]. rewrite conv_nil_l. ring.
  Qed.
  Lemma poly_distr_l f g h : p_mul F (p_add F f g) h = p_add F (p_mul F f h) (p_mul F g h).
  Proof.
    apply norm_peq. intros n. rewrite coef_mul_raw, coef_add_raw, !coef_mul.
    rewrite (conv_ext_l (p_add F f g) (p_add_raw F f g)) by (intros m; apply coef_norm).
    apply conv_add_l.
  Qed.
  Lemma poly_eqb_eq f : forall g, p_eqb F f g = true <-> f = g.
  Proof.
    induction f as [|a f IH]; intros [|b g]; cbn [p_eqb]; try (split; [discriminate|congruence]); [tauto|].
    rewrite andb_true_iff, IH, (reqb_eq o L). split; [intros [-> ->]; reflexivity|intros [= -> ->]; auto].
  Qed.
  Lemma normal_mul f g : normal (p_mul F f g).
  Proof. apply norm_idem. Qed.
  Lemma normal_neg f : normal f -> normal (p_neg F f).
  Proof.
    intros N. destruct f as [|a f'] eqn:Ef; [reflexivity|]. rewrite <- Ef in *.
    apply last_normal. assert (NE : f <> []) by (rewrite Ef; discriminate).
    pose proof (normal_last f N NE) as H. unfold p_neg.
    assert (E : last (map (rneg o) f) 0%P = (- last f 0)%P).
    { clear -L. induction f as [|x [|y f] IH]; cbn [map last]; [ring|reflexivity|]. exact IH. }
    rewrite E. intros Z. apply H. transitivity (- - last f 0)%P; [ring|]. rewrite Z. ring.
  Qed.

  (* ---------- leading coefficient and length of a product ---------- *)
  Lemma conv_lead f g : conv f g (pred (length f) + pred (length g)) = (last f 0 * last g 0)%P.
  Proof.
    unfold conv. rewrite (sumn_single _ (pred (length f))); [|lia|].
    - replace (pred (length f) + pred (length g) - pred (length f)) with (pred (length g)) by lia.
      rewrite !coef_last. reflexivity.
    - intros i Hi Ne. destruct (le_lt_dec i (pred (length f))) as [Le|Gt].
      + rewrite (coef_overflow g) by lia. ring.
      + rewrite (coef_overflow f) by lia. ring.
  Qed.
  Lemma conv_high f g n : pred (length f) + pred (length g) < n -> conv f g n = 0%P.
  Proof.
    intros H. unfold conv. apply sumn_all_zero. intros i Hi.
    destruct (le_lt_dec i (pred (length f))) as [Le|Gt].
    - rewrite (coef_overflow g) by lia. ring.
    - rewrite (coef_overflow f) by lia. ring.
  Qed.
  Lemma mul_length_le f g : length (p_mul F f g) <= S (pred (length f) + pred (length g)).
  Proof.
    apply normal_length; [apply norm_idem|]. intros n Hn. rewrite coef_mul. apply conv_high. lia.
  Qed.
  Lemma mul_lead f g : (last f 0 * last g 0)%P <> 0%P ->
    length (p_mul F f g) = S (pred (length f) + pred (length g)) /\
    last (p_mul F f g) 0%P = (last f 0 * last g 0)%P.
  Proof.
    intros NZ.
    assert (E : coef (p_mul F f g) (pred (length f) + pred (length g)) = (last f 0 * last g 0)%P)
      by (rewrite coef_mul; apply conv_lead).
    assert (Len : length (p_mul F f g) = S (pred (length f) + pred (length g))).
    { pose proof (mul_length_le f g) as Hle.
      destruct (le_lt_dec (length (p_mul F f g)) (pred (length f) + pred (length g))) as [Le|Gt]; [|lia].
      exfalso. apply NZ. rewrite <- E. apply coef_overflow. exact Le. }
    split; [exact Len|]. rewrite <- coef_last, Len. exact E.
  Qed.
  Lemma mul_nil_l g : p_mul F [] g = [].
  Proof. reflexivity. Qed.
  Lemma mul_nil_r f : p_mul F f [] = [].
  Proof. rewrite poly_mul_comm. reflexivity. Qed.
  (* multiplication by a constant *)
  Lemma coef_mul_const f c n : coef (p_mul F f [c]) n = (coef f n * c)%P.
  Proof.
    rewrite coef_mul, conv_comm, conv_cons. destruct n as [|m]; [ring|]. rewrite conv_nil_l. ring.
  Qed.

  (* ---------- one step of the division loop ---------- *)
  Notation deg := (@p_lead_deg K).

  Lemma iter_small r g : (deg r <? deg g) = true -> p_iter F r g = Some (p_zero, r).
  Proof. intros H. unfold p_iter. rewrite H. reflexivity. Qed.

  Lemma iter_step r g : normal r -> normal g -> g <> [] -> (deg r <? deg g) = false ->
    exists q1 r1, p_iter F r g = Some (q1, r1) /\ normal q1 /\ normal r1 /\
      (forall n, (conv q1 g n + coef r1 n)%P = coef r n) /\
      length r1 <= pred (length r).
  Proof.
    intros Nr Ng NEg Hd. apply Nat.ltb_ge in Hd. unfold p_lead_deg in Hd.
    pose proof (normal_last g Ng NEg) as Lg.
    destruct (div_field (p_lead_coeff F g) Lg) as (i & Hi & Hdiv).
    unfold p_iter. rewrite (proj2 (Nat.ltb_ge _ _)) by exact Hd. rewrite Hdiv. cbn [obind].
    set (c := (p_lead_coeff F r * i)%P). set (k := p_lead_deg r - p_lead_deg g).
    do 2 eexists. split; [reflexivity|]. split; [apply normal_mono|]. split; [apply norm_idem|].
    assert (C : forall n, coef (p_sub F r (p_mul F (p_mono F k c) g)) n
                          = (coef r n - (if n <? k then 0 else c * coef g (n - k)))%P).
    { intros n. rewrite coef_sub, coef_mul, <- coef_mul_raw, coef_mono_mul. reflexivity. }
    split.
    - intros n. rewrite C, <- coef_mul_raw, coef_mono_mul. destruct (n <? k); ring.
    - apply normal_length; [apply norm_idem|]. intros n Hn. rewrite C.
      unfold k, p_lead_deg in *. destruct (Nat.ltb_spec n (pred (length r) - pred (length g))) as [Lt|Ge]; [lia|].
      destruct (Nat.eq_dec n (pred (length r))) as [->|Ne].
      + replace (pred (length r) - (pred (length r) - pred (length g))) with (pred (length g)) by lia.
        rewrite !coef_last. unfold c, p_lead_coeff.
        transitivity (last r 0 - last r 0 * (last g 0 * i))%P; [ring|]. fold (p_lead_coeff F g). rewrite Hi. ring.
      + rewrite (coef_overflow r n) by lia. rewrite (coef_overflow g) by (destruct g; [contradiction|cbn in *; lia]). ring.
  Qed.

  (* ---------- the loop ---------- *)
  Lemma div_loop_spec f g : normal g -> g <> [] -> forall n q r,
    normal q -> normal r -> (forall m, (conv q g m + coef r m)%P = coef f m) ->
    length r <= pred (length g) + n ->
    exists q' r', p_div_loop F n q r g = Some (q', r') /\ normal q' /\ normal r' /\
      (forall m, (conv q' g m + coef r' m)%P = coef f m) /\ length r' <= pred (length g).
  Proof.
    intros Ng NEg. induction n as [|n IH]; intros q r Nq Nr Inv Len.
    - exists q, r. cbn [p_div_loop]. repeat split; try assumption. lia.
    - cbn [p_div_loop]. destruct (deg r <? deg g) eqn:Hd.
      + rewrite (iter_small r g Hd). cbn [obind fst snd]. apply IH.
        * apply normal_add.
        * exact Nr.
        * intros m. rewrite (conv_ext_l (p_add F q p_zero) q); [apply Inv|].
          intros j. rewrite coef_add. unfold p_zero. rewrite coef_nil. ring.
        * apply Nat.ltb_lt in Hd. unfold p_lead_deg in Hd. lia.
      + destruct (iter_step r g Nr Ng NEg Hd) as (q1 & r1 & E & Nq1 & Nr1 & St & Len1).
        rewrite E. cbn [obind fst snd]. apply IH.
        * apply normal_add.
        * exact Nr1.
        * intros m. rewrite (conv_ext_l (p_add F q q1) (p_add_raw F q q1)) by (intros j; apply coef_norm).
          rewrite conv_add_l. rewrite <- (Inv m), <- (St m). ring.
        * lia.
  Qed.

  Theorem poly_div_rem f g : normal f -> normal g -> g <> [] ->
    exists q r, p_div_rem F f g = Some (q, r) /\ normal q /\ normal r /\
      f = p_add F (p_mul F q g) r /\ (r = [] \/ length r < length g).
  Proof.
    intros Nf Ng NEg. unfold p_div_rem.
    destruct (div_loop_spec f g Ng NEg
                (if p_lead_deg g <=? p_lead_deg f then S (p_lead_deg f - p_lead_deg g) else O) p_zero f)
      as (q & r & E & Nq & Nr & Inv & Len).
    - apply normal_nil.
    - exact Nf.
    - intros m. unfold conv, p_zero. rewrite (sumn_ext m _ (fun _ => 0%P)) by (intros i _; rewrite coef_nil; ring).
      rewrite sumn_zero. ring.
    - unfold p_lead_deg. destruct (Nat.leb_spec (pred (length g)) (pred (length f))); lia.
    - exists q, r. split; [exact E|]. split; [exact Nq|]. split; [exact Nr|]. split.
      + apply normal_unique; [exact Nf|apply normal_add|]. intros m. rewrite coef_add, coef_mul. symmetry. apply Inv.
      + destruct r as [|b r]; [left; reflexivity|right]. destruct g; [contradiction|]. cbn [length pred] in *. lia.
  Qed.

  Theorem poly_div_by_zero f : p_div_rem F f [] = None.
  Proof.
    unfold p_div_rem. change (p_lead_deg (@nil K)) with O. cbn [Nat.leb]. cbn [p_div_loop].
    unfold p_iter. replace (deg f <? deg []) with false by (symmetry; apply Nat.ltb_ge, Nat.le_0_l).
    change (p_lead_coeff F []) with 0%P. rewrite div_by_zero. reflexivity.
  Qed.
End PolyDiv.

(* every field dictionary qualifies *)
Section PolyField.
  Context {K : Type} (o : ring_ops K) (inv : K -> option K) (FL : field_laws o inv).
  Notation F := (field_dict o inv).

  Theorem poly_division_main (f g : list K) : p_norm F f = f -> p_norm F g = g ->
    (g <> [] ->
       exists q r, d_div (poly_dict F) f g = Some q /\ d_rem (poly_dict F) f g = Some r /\
         p_div_rem F f g = Some (q, r) /\ p_norm F q = q /\ p_norm F r = r /\
         f = p_add F (p_mul F q g) r /\ (r = [] \/ length r < length g)) /\
    (g = [] -> d_div (poly_dict F) f g = None /\ d_rem (poly_dict F) f g = None).
  Proof.
    intros Nf Ng.
    assert (D0 : forall a, d_div F a (rzero (d_ring F)) = None).
    { intros a. cbn. unfold f_div. destruct (f_zero_reflect o inv FL (rzero o)) as [_|N]; [reflexivity|contradiction]. }
    assert (D1 : forall b, b <> rzero (d_ring F) ->
               exists i, rmul (d_ring F) b i = rone (d_ring F) /\ forall a, d_div F a b = Some (rmul (d_ring F) a i)).
    { intros b NZ. cbn in *. destruct (fl_inv o inv FL b NZ) as (i & Ei & Hi). exists i. split; [exact Hi|].
      intros a. unfold f_div. destruct (f_zero_reflect o inv FL b) as [|_]; [contradiction|]. rewrite Ei. reflexivity. }
    split.
    - intros NE. destruct (poly_div_rem F (fl_ring o inv FL) D1 f g Nf Ng NE) as (q & r & E & H).
      exists q, r. cbn [d_div d_rem poly_dict]. unfold p_div, p_rem. rewrite E. cbn [obind fst snd].
      split; [reflexivity|]. split; [reflexivity|]. split; [reflexivity|]. exact H.
    - intros ->. cbn [d_div d_rem poly_dict]. unfold p_div, p_rem.
      rewrite (poly_div_by_zero F D0 f). split; reflexivity.
  Qed.

  (* ---------- gcd / gcdx over K[x]: termination on the model's fuel (no correctness claim) ---------- *)
  Notation P := (poly_dict (field_dict o inv)).
  Notation nf := (fun f : list K => p_norm (field_dict o inv) f = f).

  Lemma p_is_zero_spec (f : list K) : is_zero P f = true <-> f = [].
  Proof. unfold is_zero. cbn. destruct f; cbn; split; congruence. Qed.

  Lemma p_rem_total (x y : list K) : nf x -> nf y -> y <> [] ->
    exists q r, d_div P x y = Some q /\ d_rem P x y = Some r /\ nf q /\ nf r /\ length r < length y.
  Proof.
    intros Nx Ny NE. destruct (proj1 (poly_division_main x y Nx Ny) NE) as (q & r & E1 & E2 & _ & Nq & Nr & _ & H).
    exists q, r. repeat split; try assumption. destruct H as [->|H]; [|exact H].
    destruct y; [contradiction|cbn; lia].
  Qed.

  Lemma p_gcd_loop_total : forall fuel (x y : list K), nf x -> nf y -> length y < fuel ->
    exists d, gcd_loop P fuel x y = Some d /\ nf d.
  Proof.
    induction fuel as [|fuel IH]; intros x y Nx Ny Hf; [lia|]. cbn [gcd_loop].
    destruct (is_zero P y) eqn:Z.
    - exists x. split; [reflexivity|exact Nx].
    - assert (NE : y <> []) by (intros E; apply p_is_zero_spec in E; congruence).
      destruct (p_rem_total x y Nx Ny NE) as (q & r & _ & -> & _ & Nr & Hr). cbn [obind].
      apply IH; [exact Ny|exact Nr|lia].
  Qed.

  Lemma p_ring_ops_normal (a b : list K) :
    nf (radd (d_ring P) a b) /\ nf (rmul (d_ring P) a b) /\ nf (rsub (d_ring P) a b).
  Proof.
    pose proof (fl_ring o inv FL) as L.
    repeat split; cbn; unfold rsub; cbn; try apply (norm_idem (field_dict o inv) L).
  Qed.

  Lemma p_gcdx_loop_total : forall fuel (x y s0 s1 t0 t1 : list K), nf x -> nf y -> length y < fuel ->
    exists d s t, gcdx_loop P fuel x y s0 s1 t0 t1 = Some (d, s, t) /\ nf d.
  Proof.
    induction fuel as [|fuel IH]; intros x y s0 s1 t0 t1 Nx Ny Hf; [lia|]. cbn [gcdx_loop].
    destruct (is_zero P y) eqn:Z.
    - exists x, s0, t0. split; [reflexivity|exact Nx].
    - assert (NE : y <> []) by (intros E; apply p_is_zero_spec in E; congruence).
      destruct (p_rem_total x y Nx Ny NE) as (q & r & -> & -> & _ & Nr & Hr). cbn [obind].
      apply IH; [exact Ny|exact Nr|lia].
  Qed.

  Lemma p_divides_total (x y : list K) : nf x -> nf y -> exists b, divides P x y = Some b.
  Proof.
    intros Nx Ny. unfold divides. destruct (is_zero P x) eqn:Z; [eauto|].
    assert (NE : x <> []) by (intros E; apply p_is_zero_spec in E; congruence).
    destruct (p_rem_total y x Ny Nx NE) as (q & r & _ & -> & _). cbn [obind]. eauto.
  Qed.

  Lemma p_normalized_normal (x : list K) : nf x -> nf (normalized P x).
  Proof.
    intros Nx. unfold normalized. destruct (is_one P (d_nunit P x)); [exact Nx|]. apply p_ring_ops_normal.
  Qed.

  Theorem poly_gcd_total (f g : list K) : nf f -> nf g ->
    (exists d, p_gcd (field_dict o inv) f g = Some d /\ nf d) /\
    (exists d s t, p_gcdx (field_dict o inv) f g = Some (d, s, t) /\ nf d).
  Proof.
    intros Nf Ng. unfold p_gcd, p_gcdx, gcd, gcdx, p_fuel. split.
    - destruct (is_zero P f && is_zero P g); [exists []; split; reflexivity|].
      destruct (p_divides_total f g Nf Ng) as [b1 ->]. cbn [obind].
      destruct b1; [eexists; split; [reflexivity|apply p_normalized_normal; exact Nf]|].
      destruct (p_divides_total g f Ng Nf) as [b2 ->]. cbn [obind].
      destruct b2; [eexists; split; [reflexivity|apply p_normalized_normal; exact Ng]|].
      destruct (p_gcd_loop_total (S (S (length g))) f g Nf Ng ltac:(lia)) as (d & -> & Nd). cbn [obind].
      eexists; split; [reflexivity|apply p_normalized_normal; exact Nd].
    - destruct (is_zero P f && is_zero P g); [exists [], [], []; split; reflexivity|].
      destruct (p_divides_total f g Nf Ng) as [b1 ->]. cbn [obind].
      destruct b1; [do 3 eexists; split; [reflexivity|apply p_ring_ops_normal]|].
      destruct (p_divides_total g f Ng Nf) as [b2 ->]. cbn [obind].
      destruct b2; [do 3 eexists; split; [reflexivity|apply p_ring_ops_normal]|].
      destruct (p_gcdx_loop_total (S (S (length g))) f g (rone (d_ring P)) (rzero (d_ring P)) (rzero (d_ring P)) (rone (d_ring P))
                  Nf Ng ltac:(lia)) as (d & s & t & -> & Nd). cbn [obind].
      destruct (is_one P (d_nunit P d)); do 3 eexists; (split; [reflexivity|]); [exact Nd|apply p_ring_ops_normal].
  Qed.
End PolyField.
