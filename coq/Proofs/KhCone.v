(* The mapping cone of (1 + tau): for a complex (C, d) over a commutative ring of characteristic 2 and a
   chain map tau, the block matrix  D = [[d, 0], [1 + tau, d]]  (acting on C (+) Q C) squares to zero. *)
From Coq Require Import Arith List Lia Ring Bool.
Require Import Yui.Base.Ring Yui.Base.MatF.
Import ListNotations.

Section Cone.
  Context {R : Type} (o : ring_ops R) (L : ring_laws o).
  Hypothesis char2 : radd o (rone o) (rone o) = rzero o.

  Local Notation "0" := (rzero o).
  Local Notation "1" := (rone o).
  Local Infix "+" := (radd o).
  Local Infix "*" := (rmul o).

  Add Ring Rring : (ring_theory_of_laws o L).

  Lemma double_zero a : a + a = 0.
  Proof. replace (a + a) with ((1 + 1) * a) by ring. rewrite char2. ring. Qed.

  Variable n : nat.
  Variables d tau : mat R.

  Definition cone : mat R := fun i j =>
    if (i <? n)%nat then (if (j <? n)%nat then d i j else 0)
    else (if (j <? n)%nat then madd o (mid o) tau (i - n)%nat j else d (i - n)%nat (j - n)%nat).

  Hypothesis dd : meq n n (mmul o n d d) (mzero o).
  Hypothesis tau_chain : meq n n (mmul o n tau d) (mmul o n d tau).

  Lemma cone_split i j :
    mmul o (n + n)%nat cone cone i j
    = sum o n (fun k => cone i k * cone k j) + sum o n (fun k => cone i (n + k)%nat * cone (n + k)%nat j).
  Proof. unfold mmul. apply sum_split. exact L. Qed.

  Theorem cone_squares_to_zero : meq (n + n)%nat (n + n)%nat (mmul o (n + n)%nat cone cone) (mzero o).
  Proof.
    intros i j Hi Hj. rewrite cone_split. unfold mzero.
    destruct (Nat.ltb_spec i n) as [Hin|Hin]; destruct (Nat.ltb_spec j n) as [Hjn|Hjn].
    - (* top-left: d.d *)
      rewrite (sum_ext o n _ (fun k => d i k * d k j)).
      2:{ intros k Hk. unfold cone. rewrite (proj2 (Nat.ltb_lt i n) Hin), (proj2 (Nat.ltb_lt k n) Hk),
            (proj2 (Nat.ltb_lt j n) Hjn). reflexivity. }
      rewrite (sum_zero_ext o L n (fun k => cone i (n + k)%nat * cone (n + k)%nat j)).
      2:{ intros k Hk. unfold cone. rewrite (proj2 (Nat.ltb_lt i n) Hin).
          destruct (Nat.ltb_spec (n + k)%nat n); [lia|]. ring. }
      specialize (dd i j Hin Hjn). unfold mmul, mzero in dd. rewrite dd. ring.
    - (* top-right: 0 *)
      rewrite (sum_zero_ext o L n (fun k => cone i k * cone k j)).
      2:{ intros k Hk. unfold cone. rewrite (proj2 (Nat.ltb_lt k n) Hk).
          destruct (Nat.ltb_spec j n); [lia|]. ring. }
      rewrite (sum_zero_ext o L n (fun k => cone i (n + k)%nat * cone (n + k)%nat j)).
      2:{ intros k Hk. unfold cone. rewrite (proj2 (Nat.ltb_lt i n) Hin).
          destruct (Nat.ltb_spec (n + k)%nat n); [lia|]. ring. }
      ring.
    - (* bottom-left: (1 + tau) d + d (1 + tau) = 2 d + (tau d + d tau) = 0 *)
      set (i' := i - n).
      assert (Hi' : (i' < n)%nat) by (unfold i'; lia).
      rewrite (sum_ext o n _ (fun k => madd o (mid o) tau i' k * d k j)).
      2:{ intros k Hk. unfold cone. destruct (Nat.ltb_spec i n); [lia|].
          rewrite (proj2 (Nat.ltb_lt k n) Hk), (proj2 (Nat.ltb_lt j n) Hjn). reflexivity. }
      rewrite (sum_ext o n (fun k => cone i (n + k)%nat * cone (n + k)%nat j) (fun k => d i' k * madd o (mid o) tau k j)).
      2:{ intros k Hk. unfold cone. destruct (Nat.ltb_spec i n); [lia|].
          destruct (Nat.ltb_spec (n + k)%nat n); [lia|]. rewrite (proj2 (Nat.ltb_lt j n) Hjn).
          replace (n + k - n)%nat with k by lia. reflexivity. }
      change (sum o n (fun k => madd o (mid o) tau i' k * d k j)) with (mmul o n (madd o (mid o) tau) d i' j).
      change (sum o n (fun k => d i' k * madd o (mid o) tau k j)) with (mmul o n d (madd o (mid o) tau) i' j).
      rewrite (mmul_add_l o L), (mmul_add_r o L). unfold madd.
      rewrite (mmul_id_l o L) by exact Hi'. rewrite (mmul_id_r o L) by exact Hjn.
      rewrite (tau_chain i' j Hi' Hjn).
      replace (d i' j + mmul o n d tau i' j + (d i' j + mmul o n d tau i' j))
        with ((d i' j + d i' j) + (mmul o n d tau i' j + mmul o n d tau i' j)) by ring.
      rewrite !double_zero. ring.
    - (* bottom-right: d.d *)
      set (i' := i - n). set (j' := j - n).
      assert (Hi' : (i' < n)%nat) by (unfold i'; lia). assert (Hj' : (j' < n)%nat) by (unfold j'; lia).
      rewrite (sum_zero_ext o L n (fun k => cone i k * cone k j)).
      2:{ intros k Hk. unfold cone. rewrite (proj2 (Nat.ltb_lt k n) Hk).
          destruct (Nat.ltb_spec j n); [lia|]. ring. }
      rewrite (sum_ext o n (fun k => cone i (n + k)%nat * cone (n + k)%nat j) (fun k => d i' k * d k j')).
      2:{ intros k Hk. unfold cone. destruct (Nat.ltb_spec i n); [lia|].
          destruct (Nat.ltb_spec (n + k)%nat n); [lia|]. destruct (Nat.ltb_spec j n); [lia|].
          replace (n + k - n)%nat with k by lia. reflexivity. }
      specialize (dd i' j' Hi' Hj'). unfold mmul, mzero in dd. rewrite dd. ring.
  Qed.
End Cone.

(* the field F_2 as a ring dictionary (non-vacuity of the characteristic-2 hypothesis) *)
Definition F2_ring : ring_ops bool := mk_ring_ops bool false true xorb (fun b => b) andb Bool.eqb.

Lemma F2_ring_laws : ring_laws F2_ring.
Proof.
  constructor; cbn; try (intros [] [] []; reflexivity); try (intros [] []; reflexivity); try (intros []; reflexivity).
  intros a b. split; [apply eqb_prop|intros ->; apply eqb_reflx].
Qed.

Lemma F2_char2 : radd F2_ring (rone F2_ring) (rone F2_ring) = rzero F2_ring.
Proof. reflexivity. Qed.

(* what the per-instance checks of the oracle mean *)
Require Import Yui.Model.KhCube Yui.Model.KhHomology Yui.Model.KhI.

Lemma khi_dims_checked ic ds :
  khi_dims ic = Some ds ->
  cube_ok (ic_cube ic) = true /\ tau_defined ic = true /\ tau_involutive ic = true /\ tau_chain_map ic = true.
Proof.
  unfold khi_dims, khi_ok. intros H.
  destruct (cube_ok (ic_cube ic)); [|discriminate].
  destruct (tau_defined ic); [|discriminate].
  destruct (tau_involutive ic); [|discriminate].
  destruct (tau_chain_map ic); [|discriminate]. auto.
Qed.
