(* C11 - basic lemmas about the helpers of Model/Pivot.v, the well-formedness of a matrix structure,
   the pivot dependency graph and the pivot-set invariant. *)
From Coq Require Import ZArith List Bool Arith Lia Permutation Sorted.
Require Import Yui.Model.Pivot.
Import ListNotations.

Ltac splits := repeat match goal with |- _ /\ _ => split end.

(* ------------------------------------------------------------------------------------------------ *)
(* list helpers                                                                                     *)
(* ------------------------------------------------------------------------------------------------ *)
Lemma memb_In : forall x l, memb x l = true <-> In x l.
Proof.
  intros x l. unfold memb. rewrite existsb_exists. split.
  - intros [y [Hy He]]. apply Nat.eqb_eq in He. subst. exact Hy.
  - intros H. exists x. split; [exact H | apply Nat.eqb_refl].
Qed.

Lemma memb_false : forall x l, memb x l = false <-> ~ In x l.
Proof.
  intros x l. rewrite <- memb_In. destruct (memb x l); split; intros H.
  - discriminate.
  - exfalso. apply H. reflexivity.
  - intros H'. discriminate.
  - reflexivity.
Qed.

Lemma nodupb_NoDup : forall l, nodupb l = true <-> NoDup l.
Proof.
  induction l as [|x r IH]; cbn [nodupb].
  - split; [constructor | reflexivity].
  - rewrite andb_true_iff, negb_true_iff, memb_false, IH. split.
    + intros [H1 H2]. constructor; assumption.
    + intros H. inversion H; subst. split; assumption.
Qed.

Lemma NoDup_snoc : forall {A} (l : list A) x, NoDup l -> ~ In x l -> NoDup (l ++ [x]).
Proof.
  intros A l x. induction l as [|y r IH]; intros Hnd Hx; cbn [app].
  - constructor; [intros [] | constructor].
  - inversion Hnd as [|? ? Hy Hr]; subst. constructor.
    + intros Hin. apply in_app_or in Hin. destruct Hin as [Hin|[Hin|[]]]; [apply Hy; exact Hin|].
      apply Hx. left. symmetry. exact Hin.
    + apply IH; [exact Hr | intros Hin; apply Hx; right; exact Hin].
Qed.

Lemma fold_opt_app : forall {A B} (f : A -> B -> option A) l1 l2 a,
  fold_opt f (l1 ++ l2) a = match fold_opt f l1 a with Some a' => fold_opt f l2 a' | None => None end.
Proof.
  intros A B f l1. induction l1 as [|b r IH]; intros l2 a; cbn [fold_opt app].
  - reflexivity.
  - destruct (f a b); [apply IH | reflexivity].
Qed.

(* an invariant carried through fold_opt *)
Lemma fold_opt_inv : forall {A B} (f : A -> B -> option A) (I : A -> Prop) l a,
  I a -> (forall a b, In b l -> I a -> exists a', f a b = Some a' /\ I a') ->
  exists a', fold_opt f l a = Some a' /\ I a'.
Proof.
  intros A B f I l. induction l as [|b r IH]; intros a Ha Hstep; cbn [fold_opt].
  - exists a. split; [reflexivity | exact Ha].
  - destruct (Hstep a b (or_introl eq_refl) Ha) as [a' [E Ha']]. rewrite E.
    apply IH; [exact Ha' | intros a0 b0 Hb0; apply Hstep; right; exact Hb0].
Qed.

(* min_by picks a member; it finds one whenever the list is non-empty *)
Lemma min_by_In : forall key l x, min_by key l = Some x -> In x l.
Proof.
  intros key l. induction l as [|y r IH]; intros x H; cbn [min_by] in H.
  - discriminate.
  - destruct (min_by key r) as [z|] eqn:E.
    + destruct (key_lt (key z) (key y)); inversion H; subst.
      * right. apply IH. reflexivity.
      * left. reflexivity.
    + inversion H. left. reflexivity.
Qed.

Lemma min_by_None : forall key l, min_by key l = None -> l = [].
Proof.
  intros key [|y r] H; [reflexivity|]. cbn [min_by] in H.
  destruct (min_by key r) as [z|]; [destruct (key_lt (key z) (key y))|]; discriminate.
Qed.

(* sorting is a permutation *)
Lemma insert_by_perm : forall key x l, Permutation (insert_by key x l) (x :: l).
Proof.
  intros key x l. induction l as [|y r IH]; cbn [insert_by].
  - apply Permutation_refl.
  - destruct (key_lt (key x) (key y)).
    + apply Permutation_refl.
    + eapply Permutation_trans; [apply perm_skip, IH | apply perm_swap].
Qed.

Lemma sort_by_perm : forall key l, Permutation (sort_by key l) l.
Proof.
  intros key l. unfold sort_by. induction l as [|x r IH]; cbn [fold_right].
  - apply Permutation_refl.
  - eapply Permutation_trans; [apply insert_by_perm | apply perm_skip, IH].
Qed.

Lemma remove_row_In : forall x y l, In y (remove_row x l) -> In y l.
Proof.
  intros x y l. induction l as [|z r IH]; cbn [remove_row]; intros H.
  - exact H.
  - destruct (x =? z); [right; exact H|]. destruct H as [H|H]; [left; exact H | right; apply IH; exact H].
Qed.

Lemma remove_row_NoDup : forall x l, NoDup l -> NoDup (remove_row x l) /\ ~ In x (remove_row x l).
Proof.
  intros x l. induction l as [|z r IH]; cbn [remove_row]; intros H.
  - split; [constructor | intros []].
  - inversion H as [|? ? Hz Hr]; subst. destruct (x =? z) eqn:E.
    + apply Nat.eqb_eq in E. subst. split; assumption.
    + apply Nat.eqb_neq in E. destruct (IH Hr) as [H1 H2]. split.
      * constructor; [intros Hin; apply Hz; eapply remove_row_In; exact Hin | exact H1].
      * intros [Hx|Hx]; [apply E; symmetry; exact Hx | apply H2; exact Hx].
Qed.

Lemma remove_row_other : forall x y l, y <> x -> In y l -> In y (remove_row x l).
Proof.
  intros x y l Hne. induction l as [|z r IH]; cbn [remove_row]; intros H.
  - exact H.
  - destruct (x =? z) eqn:E.
    + apply Nat.eqb_eq in E. subst. destruct H as [H|H]; [exfalso; apply Hne; symmetry; exact H | exact H].
    + destruct H as [H|H]; [left; exact H | right; apply IH; exact H].
Qed.

(* ------------------------------------------------------------------------------------------------ *)
(* PivotData                                                                                        *)
(* ------------------------------------------------------------------------------------------------ *)
Definition pcol (P : plog) (j : nat) : Prop := exists i, In (i, j) P.
Definition prow (P : plog) (i : nat) : Prop := exists j, In (i, j) P.

Lemma has_col_pcol : forall P j, has_col P j = true <-> pcol P j.
Proof.
  intros P j. unfold has_col, pcol. rewrite existsb_exists. split.
  - intros [[i j'] [Hin He]]. cbn [snd] in He. apply Nat.eqb_eq in He. subst. exists i. exact Hin.
  - intros [i Hin]. exists (i, j). split; [exact Hin | cbn [snd]; apply Nat.eqb_refl].
Qed.

Lemma has_col_false : forall P j, has_col P j = false <-> ~ pcol P j.
Proof.
  intros P j. rewrite <- has_col_pcol. destruct (has_col P j); split; intros H.
  - discriminate.
  - exfalso. apply H. reflexivity.
  - intros H'. discriminate.
  - reflexivity.
Qed.

Lemma has_row_prow : forall P i, has_row P i = true <-> prow P i.
Proof.
  intros P i. unfold has_row, prow. rewrite existsb_exists. split.
  - intros [[i' j] [Hin He]]. cbn [fst] in He. apply Nat.eqb_eq in He. subst. exists j. exact Hin.
  - intros [j Hin]. exists (i, j). split; [exact Hin | cbn [fst]; apply Nat.eqb_refl].
Qed.

Lemma pcol_map : forall P j, pcol P j <-> In j (map snd P).
Proof.
  intros P j. unfold pcol. rewrite in_map_iff. split.
  - intros [i H]. exists (i, j). split; [reflexivity | exact H].
  - intros [[i j'] [E H]]. cbn [snd] in E. subst. exists i. exact H.
Qed.

Lemma prow_map : forall P i, prow P i <-> In i (map fst P).
Proof.
  intros P i. unfold prow. rewrite in_map_iff. split.
  - intros [j H]. exists (i, j). split; [reflexivity | exact H].
  - intros [[i' j] [E H]]. cbn [fst] in E. subst. exists j. exact H.
Qed.

Lemma row_for_Some : forall P j i, row_for P j = Some i -> In (i, j) P.
Proof.
  intros P j i. unfold row_for. destruct (find (fun p => snd p =? j) P) as [[i' j']|] eqn:E; [|discriminate].
  intros H. inversion H; subst. apply find_some in E. destruct E as [Hin He]. cbn [snd fst] in *.
  apply Nat.eqb_eq in He. subst. exact Hin.
Qed.

Lemma row_for_pcol : forall P j, pcol P j -> exists i, row_for P j = Some i.
Proof.
  intros P j [i Hin]. unfold row_for. destruct (find (fun p => snd p =? j) P) as [p|] eqn:E.
  - exists (fst p). reflexivity.
  - exfalso. apply (find_none _ _ E) in Hin. cbn [snd] in Hin. rewrite Nat.eqb_refl in Hin. discriminate.
Qed.

Lemma nodup_snd_fun : forall (P : plog) i i' j, NoDup (map snd P) -> In (i, j) P -> In (i', j) P -> i = i'.
Proof.
  intros P. induction P as [|[a b] r IH]; intros i i' j Hnd H1 H2; [destruct H1|].
  cbn [map snd] in Hnd. inversion Hnd as [|? ? Hb Hr]; subst.
  destruct H1 as [H1|H1]; destruct H2 as [H2|H2].
  - inversion H1; inversion H2; subst. reflexivity.
  - inversion H1; subst. exfalso. apply Hb. apply pcol_map. exists i'. exact H2.
  - inversion H2; subst. exfalso. apply Hb. apply pcol_map. exists i. exact H1.
  - eapply IH; eassumption.
Qed.

Lemma nodup_fst_fun : forall (P : plog) i j j', NoDup (map fst P) -> In (i, j) P -> In (i, j') P -> j = j'.
Proof.
  intros P. induction P as [|[a b] r IH]; intros i j j' Hnd H1 H2; [destruct H1|].
  cbn [map fst] in Hnd. inversion Hnd as [|? ? Ha Hr]; subst.
  destruct H1 as [H1|H1]; destruct H2 as [H2|H2].
  - inversion H1; inversion H2; subst. reflexivity.
  - inversion H1; subst. exfalso. apply Ha. apply prow_map. exists j'. exact H2.
  - inversion H2; subst. exfalso. apply Ha. apply prow_map. exists j. exact H1.
  - eapply IH; eassumption.
Qed.

Lemma pset_Some : forall P i j, ~ pcol P j -> pset P i j = Some (P ++ [(i, j)]).
Proof. intros P i j H. unfold pset. apply has_col_false in H. rewrite H. reflexivity. Qed.

Lemma pset_inv : forall P i j P', pset P i j = Some P' -> P' = P ++ [(i, j)] /\ ~ pcol P j.
Proof.
  intros P i j P'. unfold pset. destruct (has_col P j) eqn:E; [discriminate|].
  intros H. inversion H. split; [reflexivity | apply has_col_false; exact E].
Qed.

(* ------------------------------------------------------------------------------------------------ *)
(* well-formed structures: what MatrixStr::new guarantees for a CSC matrix                          *)
(* ------------------------------------------------------------------------------------------------ *)
Definition wf_str (M : mstr) : Prop :=
  length (m_ent M) = m_rows M /\
  (forall i j, In j (cols_in M i) -> j < m_cols M) /\
  (forall i, StronglySorted lt (cols_in M i)).

Lemma wf_row_lt : forall M i j, wf_str M -> In j (cols_in M i) -> i < m_rows M.
Proof.
  intros M i j [Hl _] Hin. unfold cols_in in Hin. rewrite <- Hl.
  destruct (Nat.lt_ge_cases i (length (m_ent M))) as [H|H]; [exact H|].
  rewrite nth_overflow in Hin by exact H. destruct Hin.
Qed.

Lemma sorted_NoDup : forall l, StronglySorted lt l -> NoDup l.
Proof.
  induction l as [|x r IH]; intros H; [constructor|].
  inversion H as [|? ? Hr Hx]; subst. constructor; [|apply IH; exact Hr].
  intros Hin. rewrite Forall_forall in Hx. specialize (Hx x Hin). lia.
Qed.

Lemma wf_row_NoDup : forall M i, wf_str M -> NoDup (cols_in M i).
Proof. intros M i [_ [_ H]]. apply sorted_NoDup. apply H. Qed.

Lemma wf_head_lt : forall M i j c, wf_str M -> head_col_in M i = Some j -> In c (cols_in M i) -> c <> j -> j < c.
Proof.
  intros M i j c [_ [_ Hs]] Hh Hc Hne. unfold head_col_in in Hh. specialize (Hs i).
  destruct (cols_in M i) as [|x r]; [discriminate|]. cbn [hd_error] in Hh. inversion Hh; subst.
  inversion Hs as [|? ? _ Hx]; subst. destruct Hc as [Hc|Hc]; [exfalso; apply Hne; symmetry; exact Hc|].
  rewrite Forall_forall in Hx. apply Hx. exact Hc.
Qed.

Lemma head_col_In : forall M i j, head_col_in M i = Some j -> In j (cols_in M i).
Proof.
  intros M i j. unfold head_col_in. destruct (cols_in M i) as [|x r]; [discriminate|].
  cbn [hd_error]. intros H. inversion H. left. reflexivity.
Qed.

(* ------------------------------------------------------------------------------------------------ *)
(* the pivot dependency graph and the pivot-set invariant                                           *)
(* ------------------------------------------------------------------------------------------------ *)
Section Graph.
Variable M : mstr.

(* j -> j' : j' is another pivot column occurring in the pivot row of j *)
Definition edge (P : plog) (j j' : nat) : Prop :=
  exists i, In (i, j) P /\ In j' (cols_in M i) /\ j' <> j /\ pcol P j'.

(* acyclic = there is a rank function strictly increasing along edges *)
Definition acyclic (P : plog) : Prop :=
  exists rk : nat -> nat, forall j j', edge P j j' -> rk j < rk j'.

Definition pivots_wf (P : plog) : Prop :=
  NoDup (map fst P) /\ NoDup (map snd P) /\
  (forall i j, In (i, j) P -> In j (cols_in M i) /\ is_cand M i j = true).

Definition PInv (P : plog) : Prop := pivots_wf P /\ acyclic P.

Lemma PInv_nil : PInv [].
Proof.
  split; [split; [constructor | split; [constructor | intros i j []]]|].
  exists (fun _ => 0). intros j j' [i [[] _]].
Qed.

(* a rank function excludes cycles *)
Lemma acyclic_no_cycle : forall P, acyclic P -> forall j, ~ Relation_Operators.clos_trans nat (edge P) j j.
Proof.
  intros P [rk Hrk] j Hc.
  assert (Hlt : forall a b, Relation_Operators.clos_trans nat (edge P) a b -> rk a < rk b).
  { intros a b H. induction H as [a b H | a b c _ IH1 _ IH2]; [apply Hrk; exact H | lia]. }
  specialize (Hlt j j Hc). lia.
Qed.

Lemma list_max_ge : forall (f : nat -> nat) l x, In x l -> f x <= list_max (map f l).
Proof.
  intros f l x. induction l as [|y r IH]; intros H; [destruct H|].
  cbn [map]. unfold list_max in *. cbn [fold_right]. destruct H as [H|H]; [subst; lia | specialize (IH H); lia].
Qed.

(* Lemma add (DESIGN.md appendix A.1) *)
Lemma acyclic_add : forall P i j (S : nat -> bool),
  acyclic P -> ~ pcol P j ->
  (forall c, In c (cols_in M i) -> c <> j -> S c = true) ->
  (forall r c, In (r, c) P -> S c = true -> forall c', In c' (cols_in M r) -> S c' = true) ->
  S j = false ->
  acyclic (P ++ [(i, j)]).
Proof.
  intros P i j S [rk Hrk] Hfresh Ha Hb Hc.
  set (N := Datatypes.S (list_max (map rk (map snd P)))).
  exists (fun c => if c =? j then N else if S c then N + 1 + rk c else rk c).
  intros a b [r [Hin [Hbr [Hne Hpb]]]].
  assert (HrkN : forall c, pcol P c -> rk c < N).
  { intros c Hc'. apply pcol_map in Hc'. pose proof (list_max_ge rk _ _ Hc'). unfold N. lia. }
  apply in_app_or in Hin. destruct Hin as [Hin | [Hin|[]]].
  - (* an old pivot row *)
    assert (Haj : a <> j) by (intros E; subst; apply Hfresh; exists r; exact Hin).
    apply Nat.eqb_neq in Haj. rewrite Haj.
    destruct (b =? j) eqn:Ebj.
    + apply Nat.eqb_eq in Ebj. subst b. destruct (S a) eqn:ESa.
      * exfalso. rewrite (Hb r a Hin ESa j Hbr) in Hc. discriminate.
      * apply HrkN. exists r. exact Hin.
    + assert (Hpb' : pcol P b).
      { destruct Hpb as [r' Hr']. apply in_app_or in Hr'. destruct Hr' as [Hr'|[Hr'|[]]]; [exists r'; exact Hr'|].
        inversion Hr'; subst. rewrite Nat.eqb_refl in Ebj. discriminate. }
      assert (He : edge P a b) by (exists r; repeat split; assumption).
      specialize (Hrk a b He). destruct (S a) eqn:ESa.
      * rewrite (Hb r a Hin ESa b Hbr). lia.
      * destruct (S b); lia.
  - (* the new pivot row *)
    inversion Hin; subst r a. rewrite Nat.eqb_refl.
    assert (Hbj : b <> j) by exact Hne. apply Nat.eqb_neq in Hbj. rewrite Hbj.
    rewrite (Ha b Hbr Hne). lia.
Qed.

(* adding a pivot whose column occurs in no pivot row (phase 2) *)
Lemma acyclic_add_source : forall P i j,
  acyclic P -> (forall r c, In (r, c) P -> ~ In j (cols_in M r)) ->
  (forall r c, In (r, c) P -> In c (cols_in M r)) ->
  acyclic (P ++ [(i, j)]).
Proof.
  intros P i j Hac Hnot Hent.
  apply acyclic_add with (S := fun c => negb (c =? j)).
  - exact Hac.
  - intros [r Hr]. apply (Hnot r j Hr). apply Hent. exact Hr.
  - intros c _ Hne. apply Nat.eqb_neq in Hne. rewrite Hne. reflexivity.
  - intros r c Hin _ c' Hc'. destruct (c' =? j) eqn:E; [|reflexivity].
    apply Nat.eqb_eq in E. subst. exfalso. apply (Hnot r c Hin). exact Hc'.
  - rewrite Nat.eqb_refl. reflexivity.
Qed.

(* extending a well-formed pivot set *)
Lemma pivots_wf_add : forall P i j,
  pivots_wf P -> ~ prow P i -> ~ pcol P j -> In j (cols_in M i) -> is_cand M i j = true ->
  pivots_wf (P ++ [(i, j)]).
Proof.
  intros P i j [Hr [Hc He]] Hi Hj Hin Hcand. split; [|split].
  - rewrite map_app. cbn [map fst]. apply NoDup_snoc; [exact Hr | rewrite <- prow_map; exact Hi].
  - rewrite map_app. cbn [map snd]. apply NoDup_snoc; [exact Hc | rewrite <- pcol_map; exact Hj].
  - intros i' j' H. apply in_app_or in H. destruct H as [H|[H|[]]]; [apply He; exact H|].
    inversion H; subst. split; assumption.
Qed.

End Graph.
