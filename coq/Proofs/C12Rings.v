(* Ring instances used by C12.
   [Z_units] with its laws is the instance that shows the hypotheses of the C12 theorems are satisfiable
   (non-vacuity).  The instances Q, F_7 and Z[i] are plain executable dictionaries: they are only used to
   *run* the ring-generic model in the correspondence check (the theorems quantify over every ring with
   laws and do not mention them); that they compute what Ratio<i64>, FF<7> and GaussInt<i64> compute is
   observed by that check. *)
From Coq Require Import ZArith QArith Bool List Lia.
Require Import Yui.Base.Ring.
Import ListNotations.

(* ---------- Z: units are 1 and -1 ---------- *)
Definition Z_units : unit_ops Z :=
  mk_unit_ops Z (fun a => (Z.abs a =? 1)%Z)
                (fun a => if (Z.abs a =? 1)%Z then Some a else None)
                (fun a => if (a <? 0)%Z then (-1)%Z else 1%Z).

Lemma Z_unit_laws : unit_laws Z_ring Z_units.
Proof.
  constructor; cbn.
  - intros a b H. destruct (Z.eqb_spec (Z.abs a) 1) as [E|E]; [|discriminate].
    injection H as <-. lia.
  - intros a. destruct (Z.eqb_spec (Z.abs a) 1) as [E|E]; split; intros H; try reflexivity; try discriminate.
    + now exists a.
    + destruct H as [b H]. discriminate.
  - intros a b H. apply Z.eqb_eq. destruct (Z.mul_eq_1 a b H) as [-> | ->]; reflexivity.
  - intros a. destruct (a <? 0)%Z; reflexivity.
  - intros a. destruct (Z.ltb_spec a 0) as [Ha|Ha].
    + destruct (Z.ltb_spec (a * -1) 0); [lia|reflexivity].
    + destruct (Z.ltb_spec (a * 1) 0); [lia|reflexivity].
  - intros a v Hv. apply Z.eqb_eq in Hv.
    assert (Hv' : v = 1%Z \/ v = (-1)%Z) by lia.
    destruct Hv' as [-> | ->].
    + rewrite Z.mul_1_r. reflexivity.
    + destruct (Z.ltb_spec (a * -1) 0), (Z.ltb_spec a 0); lia.
Qed.

(* ---------- Q: reduced fractions (Qred after every operation) ---------- *)
Definition Qc_eqb (a b : Q) : bool := (Qnum a =? Qnum b)%Z && (Qden a =? Qden b)%positive.
Definition Q_ring : ring_ops Q :=
  mk_ring_ops Q (0#1) (1#1) (fun a b => Qred (Qplus a b)) (fun a => Qred (Qopp a))
              (fun a b => Qred (Qmult a b)) Qc_eqb.
Definition Q_units : unit_ops Q :=
  mk_unit_ops Q (fun a => negb (Qnum a =? 0)%Z)
                (fun a => if (Qnum a =? 0)%Z then None else Some (Qred (Qinv a)))
                (fun a => if (Qnum a =? 0)%Z then (1#1) else Qred (Qinv a)).

(* ---------- F_7: residues 0..6 ---------- *)
Definition F7_ring : ring_ops Z :=
  mk_ring_ops Z 0%Z 1%Z (fun a b => ((a + b) mod 7)%Z) (fun a => ((- a) mod 7)%Z)
              (fun a b => ((a * b) mod 7)%Z) Z.eqb.
Definition F7_inv (a : Z) : Z := ((a * a * a * a * a) mod 7)%Z.          (* a^(p-2) *)
Definition F7_units : unit_ops Z :=
  mk_unit_ops Z (fun a => negb (a =? 0)%Z)
                (fun a => if (a =? 0)%Z then None else Some (F7_inv a))
                (fun a => if (a =? 0)%Z then 1%Z else F7_inv a).

(* ---------- Z[i]: pairs (re, im); units 1, -1, i, -i ---------- *)
Definition Gi := (Z * Z)%type.
Definition Gi_eqb (a b : Gi) : bool := (fst a =? fst b)%Z && (snd a =? snd b)%Z.
Definition Gi_ring : ring_ops Gi :=
  mk_ring_ops Gi (0, 0)%Z (1, 0)%Z
              (fun a b => (fst a + fst b, snd a + snd b)%Z)
              (fun a => (- fst a, - snd a)%Z)
              (fun a b => (fst a * fst b - snd a * snd b, fst a * snd b + snd a * fst b)%Z)
              Gi_eqb.
Definition Gi_norm (a : Gi) : Z := (fst a * fst a + snd a * snd a)%Z.
Definition Gi_units : unit_ops Gi :=
  mk_unit_ops Gi (fun a => (Gi_norm a =? 1)%Z)
                 (fun a => if (Gi_norm a =? 1)%Z then Some (fst a, - snd a)%Z else None)
                 (fun a => (1, 0)%Z).
