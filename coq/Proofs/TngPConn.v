(* Tangle layer, part 7: the components of a glued tangle are exactly the connected components of its segment graph,
   and the normal form is determined by the multiset of segments: same number of components, in the same order,
   each with the same kind (arc / circle) and the same label set. *)
From Coq Require Import List Arith Bool Lia Permutation Sorted Relations.
Import ListNotations.
Require Import Yui.Model.Link Yui.Model.Tng Yui.Proofs.TngPBase Yui.Proofs.TngPSegs Yui.Proofs.TngPDeg
  Yui.Proofs.TngPJoin Yui.Proofs.TngPStep Yui.Proofs.TngPSeq.

(* ---------- the segment graph ---------- *)
Definition adj (S : list (nat * nat)) (u v : nat) : Prop := In (nseg u v) S.
Definition conn (S : list (nat * nat)) : nat -> nat -> Prop := clos_refl_trans nat (adj S).

Lemma adj_sym : forall S u v, adj S u v -> adj S v u.
Proof. intros S u v. unfold adj. rewrite (nseg_sym u v). auto. Qed.
Lemma conn_sym : forall S u v, conn S u v -> conn S v u.
Proof.
  intros S u v Hc. induction Hc.
  - apply rt_step. apply adj_sym; auto.
  - apply rt_refl.
  - eapply rt_trans; eauto.
Qed.
Lemma conn_incl : forall S S' u v, incl S S' -> conn S u v -> conn S' u v.
Proof.
  intros S S' u v Hi Hc. induction Hc.
  - apply rt_step. apply Hi. auto.
  - apply rt_refl.
  - eapply rt_trans; eauto.
Qed.

Lemma nseg_inj : forall a b u v, nseg a b = nseg u v -> (a = u /\ b = v) \/ (a = v /\ b = u).
Proof. intros a b u v. unfold nseg. intros E. inversion E. lia. Qed.

Lemma arc_segs_in : forall l s, In s (arc_segs l) -> exists a b, s = nseg a b /\ In a l /\ In b l.
Proof.
  induction l as [|a l IH]; intros s Hs; [contradiction|].
  destruct l as [|b l]; [contradiction|]. rewrite arc_segs_cons2 in Hs. destruct Hs as [<-|Hs].
  - exists a, b. cbn. auto.
  - destruct (IH s Hs) as (u & v & E & Hu & Hv). exists u, v. split; auto. split; right; auto.
Qed.
Lemma segs_in : forall p s, In s (segs p) -> exists a b, s = nseg a b /\ In a (pedges p) /\ In b (pedges p).
Proof.
  intros p s. unfold segs. destruct (pclosed p); [|apply arc_segs_in].
  unfold circ_segs. destruct (pedges p) as [|x l] eqn:El; [contradiction|]. intros Hs.
  destruct (arc_segs_in _ _ Hs) as (a & b & E & Ha & Hb). exists a, b. split; auto.
  split; [apply in_app_or in Ha; destruct Ha as [|[<-|[]]]|apply in_app_or in Hb; destruct Hb as [|[<-|[]]]];
    auto; left; reflexivity.
Qed.
Lemma adj_segs_in : forall p u v, adj (segs p) u v -> In u (pedges p) /\ In v (pedges p).
Proof.
  intros p u v Ha. destruct (segs_in _ _ Ha) as (a & b & E & Hia & Hib).
  destruct (nseg_inj _ _ _ _ E) as [[-> ->]|[-> ->]]; auto.
Qed.

Lemma arc_conn_hd : forall l v, In v l -> conn (arc_segs l) (hd 0 l) v.
Proof.
  induction l as [|a l IH]; intros v Hv; [contradiction|].
  destruct l as [|b l].
  - destruct Hv as [<-|[]]. apply rt_refl.
  - destruct Hv as [<-|Hv]; [apply rt_refl|]. rewrite arc_segs_cons2. cbn [hd].
    eapply rt_trans; [apply rt_step; left; reflexivity|].
    eapply conn_incl; [|apply (IH v Hv)]. intros s Hs. right. auto.
Qed.
Lemma arc_conn : forall l u v, In u l -> In v l -> conn (arc_segs l) u v.
Proof.
  intros l u v Hu Hv. eapply rt_trans; [apply conn_sym; apply arc_conn_hd; auto|apply arc_conn_hd; auto].
Qed.
Lemma comp_conn : forall p u v, In u (pedges p) -> In v (pedges p) -> conn (segs p) u v.
Proof.
  intros p u v Hu Hv. unfold segs. destruct (pclosed p); [|apply arc_conn; auto].
  unfold circ_segs. destruct (pedges p) as [|x l]; [contradiction|].
  apply arc_conn; apply in_or_app; left; auto.
Qed.

(* ---------- components = connected components ---------- *)
Lemma inv_same_comp : forall t c c' a, tng_inv t -> In c t -> In c' t ->
  In a (pedges c) -> In a (pedges c') -> c = c'.
Proof.
  intros t c c' a Hinv Hc Hc' Ha Ha'. destruct (in_split _ _ Hc) as (l1 & l2 & ->).
  apply inv_middle in Hinv. destruct Hinv as (_ & _ & Hd).
  apply in_app_or in Hc'. destruct Hc' as [Hc'|[Hc'|Hc']]; auto; exfalso; apply (Hd a Ha); apply in_verts;
    exists c'; split; auto; apply in_or_app; auto.
Qed.

Lemma comp_closed_adj : forall t c a b, tng_inv t -> In c t -> adj (tsegs t) a b ->
  In a (pedges c) -> In b (pedges c).
Proof.
  intros t c a b Hinv Hc Hadj Ha. unfold adj, tsegs in Hadj. apply in_flat_map in Hadj.
  destruct Hadj as (c' & Hc' & Hs). destruct (adj_segs_in c' a b Hs) as [Ha' Hb'].
  rewrite (inv_same_comp t c c' a Hinv Hc Hc' Ha Ha'). exact Hb'.
Qed.

Theorem components_are_connected_components : forall t u v, tng_inv t -> In u (verts t) ->
  (conn (tsegs t) u v <-> exists c, In c t /\ In u (pedges c) /\ In v (pedges c)).
Proof.
  intros t u v Hinv Hu. split.
  - intros Hc. apply in_verts in Hu. destruct Hu as (c & Hc' & Huc). exists c. split; auto. split; auto.
    revert Huc. induction Hc; intros Huc; auto. eapply comp_closed_adj; eauto.
  - intros (c & Hc & Huc & Hvc). eapply conn_incl; [|apply comp_conn; eauto].
    intros s Hs. unfold tsegs. apply in_flat_map. eauto.
Qed.

(* ---------- exact degrees ---------- *)
Lemma count_notin : forall (l : list nat) v, ~ In v l -> count_occ Nat.eq_dec l v = 0.
Proof. intros. apply count_occ_not_In. auto. Qed.
Lemma count_nodup_in : forall (l : list nat) v, NoDup l -> In v l -> count_occ Nat.eq_dec l v = 1.
Proof.
  intros l v Hn Hi. pose proof (proj1 (NoDup_count_occ Nat.eq_dec l) Hn v).
  pose proof (count_in_ge1 l v Hi). lia.
Qed.

Lemma deg_arc_hd : forall t c, tng_inv t -> In c t -> pclosed c = false -> deg (tsegs t) (hd 0 (pedges c)) = 1.
Proof.
  intros t c Hinv Hc Hcc. destruct (in_split _ _ Hc) as (l1 & l2 & ->).
  rewrite (deg_perm _ _ _ (tsegs_middle l1 c l2)), deg_app.
  apply inv_middle in Hinv. destruct Hinv as ([Nc Lc] & [Sr _] & Hd). rewrite Hcc in Lc.
  assert (Hh : In (hd 0 (pedges c)) (pedges c)) by (apply hd_in; apply len2_ne; auto).
  assert (deg (tsegs (l1 ++ l2)) (hd 0 (pedges c)) = 0) as ->.
  { unfold deg. apply count_notin. intros Hi. apply (Hd _ Hh). apply verts_ends; auto. }
  unfold deg, segs. rewrite Hcc.
  rewrite (count_perm _ (removelast (pedges c) ++ tl (pedges c))) by apply ends_arc_segs.
  rewrite count_occ_app.
  rewrite (count_nodup_in (removelast (pedges c))).
  - rewrite (count_notin (tl (pedges c))); [lia|]. apply NoDup_hd_notin; auto. apply len2_ne; auto.
  - apply NoDup_removelast; auto.
  - rewrite <- (hd_removelast _ 0 Lc). apply hd_in. apply removelast_ne; auto.
Qed.

Lemma deg_closed_ge2' : forall t c v, tng_inv t -> In c t -> pclosed c = true -> In v (pedges c) ->
  2 <= deg (tsegs t) v.
Proof.
  intros t c v [Hs _] Hc Hcc Hv. rewrite Forall_forall in Hs.
  pose proof (deg_closed_ge2 c v (Hs c Hc) Hcc Hv). pose proof (deg_tsegs_ge t c v Hc). lia.
Qed.

(* ---------- least labels ---------- *)
Lemma fold_min_spec : forall r x, In (fold_right Nat.min x r) (x :: r) /\
  (forall y, In y (x :: r) -> fold_right Nat.min x r <= y).
Proof.
  induction r as [|z r IH]; intros x; cbn [fold_right].
  - split; [left; reflexivity|]. intros y [<-|[]]. lia.
  - destruct (IH x) as [Hin Hle]. split.
    + destruct (Nat.min_spec z (fold_right Nat.min x r)) as [[_ ->]|[_ ->]].
      * right. left. reflexivity.
      * destruct Hin as [E|Hin]; [left; auto|right; right; auto].
    + intros y [<-|[<-|Hy]].
      * specialize (Hle x (or_introl eq_refl)). lia.
      * lia.
      * specialize (Hle y (or_intror Hy)). lia.
Qed.
Lemma minv_spec : forall p, pedges p <> [] ->
  In (minv p) (pedges p) /\ (forall y, In y (pedges p) -> minv p <= y).
Proof.
  intros p Hne. unfold minv, p_min_edge, list_min. destruct (pedges p) as [|x r]; [contradiction|].
  apply fold_min_spec.
Qed.
Lemma minv_same_set : forall p q, pedges p <> [] -> pedges q <> [] ->
  (forall v, In v (pedges p) <-> In v (pedges q)) -> minv p = minv q.
Proof.
  intros p q Hp Hq Hs. destruct (minv_spec p Hp) as [I1 L1]. destruct (minv_spec q Hq) as [I2 L2].
  apply Nat.le_antisymm; [apply L1; apply Hs; auto|apply L2; apply Hs; auto].
Qed.

(* ---------- the normal form is determined by the segments ---------- *)
Definition same_comp (c1 c2 : path) : Prop :=
  pclosed c1 = pclosed c2 /\ (forall v, In v (pedges c1) <-> In v (pedges c2)).

Lemma same_comp_sym : forall a b, same_comp a b -> same_comp b a.
Proof. intros a b [H1 H2]. split; auto. intros v. symmetry. auto. Qed.

Lemma match_comp : forall t1 t2, tng_inv t1 -> tng_inv t2 -> Permutation (tsegs t1) (tsegs t2) ->
  forall c1, In c1 t1 -> exists c2, In c2 t2 /\ same_comp c1 c2.
Proof.
  intros t1 t2 I1 I2 Hp c1 Hc1.
  assert (S1 : simple c1). { destruct I1 as [Hs _]. rewrite Forall_forall in Hs. auto. }
  set (u := hd 0 (pedges c1)).
  assert (Hu1 : In u (pedges c1)) by (apply hd_in; apply simple_ne; auto).
  assert (Hv1 : In u (verts t1)) by (apply in_verts; eauto).
  assert (Hv2 : In u (verts t2)).
  { apply verts_ends; [apply I2|]. apply verts_ends in Hv1; [|apply I1].
    eapply Permutation_in; [|exact Hv1]. apply Permutation_flat_map. exact Hp. }
  pose proof Hv2 as Hv2'. apply in_verts in Hv2'. destruct Hv2' as (c2 & Hc2 & Hu2).
  exists c2. split; auto.
  assert (Hset : forall v, In v (pedges c1) <-> In v (pedges c2)).
  { intros v. split; intros Hv.
    - assert (Hc : conn (tsegs t1) u v) by (apply components_are_connected_components; eauto).
      assert (Hc' : conn (tsegs t2) u v).
      { eapply conn_incl; [|exact Hc]. intros s Hs. eapply Permutation_in; eauto. }
      apply components_are_connected_components in Hc'; auto. destruct Hc' as (c & Hc0 & Huc & Hvc).
      rewrite (inv_same_comp t2 c2 c u I2 Hc2 Hc0 Hu2 Huc). exact Hvc.
    - assert (Hc : conn (tsegs t2) u v) by (apply components_are_connected_components; eauto).
      assert (Hc' : conn (tsegs t1) u v).
      { eapply conn_incl; [|exact Hc]. intros s Hs. eapply Permutation_in; [apply Permutation_sym|]; eauto. }
      apply components_are_connected_components in Hc'; auto. destruct Hc' as (c & Hc0 & Huc & Hvc).
      rewrite (inv_same_comp t1 c1 c u I1 Hc1 Hc0 Hu1 Huc). exact Hvc. }
  split; auto.
  destruct (pclosed c1) eqn:E1, (pclosed c2) eqn:E2; auto; exfalso.
  - (* c1 circle, c2 arc *)
    set (w := hd 0 (pedges c2)).
    assert (S2 : simple c2). { destruct I2 as [Hs _]. rewrite Forall_forall in Hs. auto. }
    assert (Hw2 : In w (pedges c2)) by (apply hd_in; apply simple_ne; auto).
    pose proof (deg_arc_hd t2 c2 I2 Hc2 E2) as D2. fold w in D2.
    pose proof (deg_closed_ge2' t1 c1 w I1 Hc1 E1 (proj2 (Hset w) Hw2)) as D1.
    rewrite (deg_perm _ _ w Hp) in D1. lia.
  - pose proof (deg_arc_hd t1 c1 I1 Hc1 E1) as D1. fold u in D1.
    pose proof (deg_closed_ge2' t2 c2 u I2 Hc2 E2 Hu2) as D2.
    rewrite (deg_perm _ _ u Hp) in D1. lia.
Qed.

Lemma same_comp_le : forall a b a' b', same_comp a a' -> same_comp b b' ->
  pedges a <> [] -> pedges b <> [] -> pedges a' <> [] -> pedges b' <> [] ->
  comp_le a b = comp_le a' b'.
Proof.
  intros a b a' b' [Ca Sa] [Cb Sb] Na Nb Na' Nb'. unfold comp_le.
  rewrite Ca, Cb, (minv_same_set a a'), (minv_same_set b b'); auto.
Qed.

Lemma comp_le_antisym_same : forall c d, comp_le c d = true -> comp_le d c = true ->
  pclosed c = pclosed d /\ minv c = minv d.
Proof.
  intros c d. unfold comp_le. destruct (pclosed c), (pclosed d); cbn; try discriminate;
    intros H1 H2; apply Nat.leb_le in H1; apply Nat.leb_le in H2; split; auto; lia.
Qed.

Theorem normal_form_match : forall t1 t2, tng_ok t1 -> tng_ok t2 ->
  (forall c1, In c1 t1 -> exists c2, In c2 t2 /\ same_comp c1 c2) ->
  (forall c2, In c2 t2 -> exists c1, In c1 t1 /\ same_comp c1 c2) ->
  Forall2 same_comp t1 t2.
Proof.
  induction t1 as [|c1 r1 IH]; intros t2 [I1 So1] [I2 So2] M12 M21.
  - destruct t2 as [|d2 r2]; [constructor|]. destruct (M21 d2 (or_introl eq_refl)) as (c & [] & _).
  - destruct t2 as [|d2 r2]; [destruct (M12 c1 (or_introl eq_refl)) as (c & [] & _)|].
    apply inv_cons in I1. destruct I1 as (S1 & Ir1 & D1).
    apply inv_cons in I2. destruct I2 as (S2 & Ir2 & D2).
    inversion So1 as [|? ? Sr1 Hle1]; subst. inversion So2 as [|? ? Sr2 Hle2]; subst.
    rewrite Forall_forall in Hle1, Hle2.
    assert (Nall1 : forall c, In c (c1 :: r1) -> pedges c <> []).
    { intros c [<-|Hc]; [apply simple_ne; auto|]. destruct Ir1 as [Hs _]. rewrite Forall_forall in Hs.
      apply simple_ne; auto. }
    assert (Nall2 : forall c, In c (d2 :: r2) -> pedges c <> []).
    { intros c [<-|Hc]; [apply simple_ne; auto|]. destruct Ir2 as [Hs _]. rewrite Forall_forall in Hs.
      apply simple_ne; auto. }
    assert (Hhead : same_comp c1 d2).
    { destruct (M12 c1 (or_introl eq_refl)) as (c2 & Hc2 & R1).
      destruct (M21 d2 (or_introl eq_refl)) as (d1 & Hd1 & R2).
      destruct Hc2 as [<-|Hc2]; [exact R1|]. exfalso.
      assert (L1 : comp_le c1 d1 = true).
      { destruct Hd1 as [<-|Hd1]; [|apply Hle1; auto]. unfold comp_le. rewrite eqb_reflx. apply Nat.leb_refl. }
      assert (L2 : comp_le d2 c2 = true) by (apply Hle2; auto).
      rewrite (same_comp_le c1 d1 c2 d2 R1 R2 (Nall1 c1 (or_introl eq_refl)) (Nall1 d1 Hd1)
                 (Nall2 c2 (or_intror Hc2)) (Nall2 d2 (or_introl eq_refl))) in L1.
      destruct (comp_le_antisym_same _ _ L1 L2) as [_ Em].
      destruct (minv_spec c2 (Nall2 c2 (or_intror Hc2))) as [Hi2 _].
      destruct (minv_spec d2 (Nall2 d2 (or_introl eq_refl))) as [Hi1 _].
      rewrite <- Em in Hi1. apply (D2 _ Hi1). apply in_verts. eauto. }
    constructor; auto. apply IH; try (split; auto).
    + intros c Hc. destruct (M12 c (or_intror Hc)) as (c2 & [<-|Hc2] & R); [exfalso|eauto].
      assert (Hh : In (hd 0 (pedges c)) (pedges c)) by (apply hd_in; apply Nall1; right; auto).
      apply (D1 (hd 0 (pedges c))); [apply Hhead; apply R; auto|apply in_verts; eauto].
    + intros c Hc. destruct (M21 c (or_intror Hc)) as (c' & [<-|Hc'] & R); [exfalso|eauto].
      assert (Hh : In (hd 0 (pedges c)) (pedges c)) by (apply hd_in; apply Nall2; right; auto).
      apply (D2 (hd 0 (pedges c))); [apply Hhead; apply R; auto|apply in_verts; eauto].
Qed.

Theorem normal_form_unique : forall t1 t2, tng_ok t1 -> tng_ok t2 -> Permutation (tsegs t1) (tsegs t2) ->
  Forall2 same_comp t1 t2.
Proof.
  intros t1 t2 O1 O2 Hp. apply normal_form_match; auto.
  - apply match_comp; auto; [apply O1|apply O2].
  - intros c2 Hc2. destruct (match_comp t2 t1 (proj1 O2) (proj1 O1) (Permutation_sym Hp) c2 Hc2) as (c1 & Hc1 & R).
    exists c1. split; auto. apply same_comp_sym; auto.
Qed.
