(* Summary lemmas behind the theorems of Properties/C14.v: the clauses proved in
   C14Ints / C14Ratio / C14RatioQ / C14Fp / C14Quad / C14Rings gathered per clause of the property,
   plus the F_p histories and a few remaining facts. *)
From Coq Require Import ZArith QArith Bool Lia List Znumtheory.
Require Import Yui.Base.Ring Yui.Model.Ints Yui.Model.Ratio Yui.Model.Fp Yui.Model.QuadInt.
Require Import Yui.Proofs.C14Ints Yui.Proofs.C14Ratio Yui.Proofs.C14RatioQ Yui.Proofs.C14Fp
               Yui.Proofs.C14Quad Yui.Proofs.C14Rings.
Import ListNotations.
Open Scope Z_scope.

(* ================================ rationals ================================ *)
(* every operation of Ratio<BigInt> returns a value on canonical operands (division and inverse:
   on a non-zero divisor), the value is canonical and denotes the exact result in Q *)
Lemma ratio_ops_exact :
  (forall n d, d <> 0 -> exists r, rt_new Big n d = Some r /\ Canon r /\ (rt_val r == qfrac n d)%Q) /\
  (forall a, Canon (rt_from_int a) /\ (rt_val (rt_from_int a) == inject_Z a)%Q) /\
  (forall x y, Canon x -> Canon y -> exists r, rt_add Big x y = Some r /\ Canon r /\ (rt_val r == rt_val x + rt_val y)%Q) /\
  (forall x y, Canon x -> Canon y -> exists r, rt_sub Big x y = Some r /\ Canon r /\ (rt_val r == rt_val x - rt_val y)%Q) /\
  (forall x y, Canon x -> Canon y -> exists r, rt_mul Big x y = Some r /\ Canon r /\ (rt_val r == rt_val x * rt_val y)%Q) /\
  (forall x, Canon x -> exists r, rt_neg Big x = Some r /\ Canon r /\ (rt_val r == - rt_val x)%Q) /\
  (forall x, Canon x -> numer x <> 0 -> exists r, rt_inv Big x = Some (Some r) /\ Canon r /\ (rt_val r == / rt_val x)%Q) /\
  (forall x y, Canon x -> Canon y -> numer y <> 0 ->
     exists r, rt_div Big x y = Some r /\ Canon r /\ (rt_val r == rt_val x / rt_val y)%Q) /\
  (forall x, Canon x -> exists r, rt_abs Big x = Some r /\ Canon r /\ (rt_val r == Qabs.Qabs (rt_val x))%Q).
Proof.
  split; [exact new_exact|]. split; [intros a; split; [apply canon_from_int|apply val_from_int]|].
  split; [exact add_exact|]. split; [exact sub_exact|]. split; [exact mul_exact|]. split; [exact neg_exact|].
  split; [exact inv_exact|]. split; [exact div_exact|exact abs_exact].
Qed.

(* the rejected calls: exactly the zero denominator, the zero divisor; the inverse of zero is None *)
Lemma ratio_ops_rejected :
  (forall w n, rt_new w n 0 = None) /\
  (forall w x y, numer y = 0 -> rt_div w x y = None) /\
  (forall w x, numer x = 0 -> rt_inv w x = Some None).
Proof. split; [exact new_zero_denom|split; [exact div_zero|exact inv_zero]]. Qed.

Lemma ratio_eq_iff x y : Canon x -> Canon y ->
  (rt_eqb x y = true <-> (rt_val x == rt_val y)%Q) /\ (rt_eqb x y = true <-> x = y).
Proof. intros Hx Hy. split; [now apply canon_eq_iff|apply rt_eqb_eq]. Qed.

Lemma ratio_pred_spec x : Canon x ->
  (rt_is_zero x = true <-> (rt_val x == 0)%Q) /\ (rt_is_one x = true <-> (rt_val x == 1)%Q) /\
  (rt_is_int x = true <-> denom x = 1).
Proof.
  intros Hx. repeat split.
  - intros H. apply is_zero_spec in H. unfold Qeq. cbn. lia.
  - intros H. apply is_zero_spec. unfold Qeq in H. cbn in H. lia.
  - intros H. apply (is_one_spec x Hx) in H. now subst x.
  - intros H. apply (is_one_spec x Hx). apply canon_val_inj; auto. apply (canon_from_int 1).
  - unfold rt_is_int, iis_one. apply Z.eqb_eq.
  - unfold rt_is_int, iis_one. apply Z.eqb_eq.
Qed.

Lemma ratio_order x y : 0 < denom x -> 0 < denom y ->
  rt_cmp Big x y = Some (rt_val x ?= rt_val y)%Q /\
  (rt_cmp Big x y = Some Lt <-> (rt_val x < rt_val y)%Q) /\
  (rt_cmp Big x y = Some Gt <-> (rt_val y < rt_val x)%Q) /\
  (rt_cmp Big x y = Some Eq <-> (rt_val x == rt_val y)%Q) /\
  (exists c, rt_cmp Big x y = Some c /\ rt_cmp Big y x = Some (CompOpp c)).
Proof.
  intros Hx Hy. split; [now apply cmp_exact|]. split; [now apply cmp_lt_iff|]. split; [now apply cmp_gt_iff|].
  split; [|now apply cmp_antisym].
  rewrite cmp_exact by auto. rewrite Qeq_alt. split; [intros H; now inversion H|now intros ->].
Qed.

Lemma ratio_order_eq x y : Canon x -> Canon y ->
  (rt_cmp Big x y = Some Eq <-> rt_eqb x y = true).
Proof. intros Hx Hy. rewrite rt_eqb_eq. now apply cmp_eq_iff. Qed.

Lemma ratio_order_trans x y z c : 0 < denom x -> 0 < denom y -> 0 < denom z ->
  rt_cmp Big x y = Some c -> rt_cmp Big y z = Some c -> rt_cmp Big x z = Some c.
Proof.
  intros Hx Hy Hz. rewrite !cmp_exact by auto. intros H1 H2. inversion H1 as [E1]. inversion H2 as [E2].
  f_equal. destruct c.
  - rewrite E1. apply Qeq_alt. apply Qeq_alt in E1, E2. rewrite E1. now rewrite E2.
  - rewrite E1. apply Qlt_alt. apply Qlt_alt in E1, E2. eapply Qlt_trans; eauto.
  - rewrite E1. apply Qgt_alt. apply Qgt_alt in E1, E2. eapply Qlt_trans; eauto.
Qed.

(* machine widths *)
Lemma bounded_inv w x oi : Canon x -> rt_inv w x = Some oi ->
  match oi with
  | Some r => numer x <> 0 /\ Canon r /\ (rt_val r == / rt_val x)%Q
  | None => numer x = 0
  end.
Proof.
  intros Hx H. apply inv_mono in H. destruct (Z.eq_dec (numer x) 0) as [E|E].
  - rewrite inv_zero in H by exact E. inversion H. exact E.
  - destruct (inv_exact x Hx E) as (r & Hr & Hc & Hv). rewrite Hr in H. inversion H. auto.
Qed.

Lemma ratio_bounded w :
  (forall n d r, rt_new w n d = Some r -> d <> 0 /\ Canon r /\ (rt_val r == qfrac n d)%Q) /\
  (forall x y r, Canon x -> Canon y -> rt_add w x y = Some r -> Canon r /\ (rt_val r == rt_val x + rt_val y)%Q) /\
  (forall x y r, Canon x -> Canon y -> rt_sub w x y = Some r -> Canon r /\ (rt_val r == rt_val x - rt_val y)%Q) /\
  (forall x y r, Canon x -> Canon y -> rt_mul w x y = Some r -> Canon r /\ (rt_val r == rt_val x * rt_val y)%Q) /\
  (forall x r, Canon x -> rt_neg w x = Some r -> Canon r /\ (rt_val r == - rt_val x)%Q) /\
  (forall x y r, Canon x -> Canon y -> rt_div w x y = Some r ->
     numer y <> 0 /\ Canon r /\ (rt_val r == rt_val x / rt_val y)%Q) /\
  (forall x oi, Canon x -> rt_inv w x = Some oi ->
     match oi with Some r => numer x <> 0 /\ Canon r /\ (rt_val r == / rt_val x)%Q | None => numer x = 0 end) /\
  (forall x y c, 0 < denom x -> 0 < denom y -> rt_cmp w x y = Some c -> c = (rt_val x ?= rt_val y)%Q).
Proof.
  split; [intros n d r; apply bounded_new|]. split; [intros x y r; apply bounded_add|].
  split; [intros x y r; apply bounded_sub|]. split; [intros x y r; apply bounded_mul|].
  split; [intros x r; apply bounded_neg|]. split; [intros x y r; apply bounded_div|].
  split; [intros x oi; apply bounded_inv|intros x y c; apply bounded_cmp].
Qed.

Lemma ratio_bounded_history w ops x : Canon x ->
  Canon (fold_left (rt_run_step w) ops x) /\
  forall o, Canon (rt_run_step w x o) /\
            ((rt_val (rt_run_step w x o) == q_run_step (rt_val x) o)%Q \/ rt_step w x o = None).
Proof. intros Hx. split; [now apply bounded_history_canon|intros o; now apply bounded_run_step]. Qed.

(* ================================ F_p ================================ *)
Lemma fp_ops_spec p a b : SmallMod p -> InF p a -> InF p b ->
  (ff_add p a b = Some ((a + b) mod p) /\ InF p ((a + b) mod p)) /\
  (ff_sub p a b = Some ((a - b) mod p) /\ InF p ((a - b) mod p)) /\
  (ff_mul p a b = Some ((a * b) mod p) /\ InF p ((a * b) mod p)) /\
  (ff_neg p a = Some ((- a) mod p) /\ InF p ((- a) mod p)).
Proof.
  intros Hp Ha Hb. split; [now apply ff_add_spec|]. split; [now apply ff_sub_spec|].
  split; [now apply ff_mul_spec|now apply ff_neg_spec].
Qed.

Lemma fp_new_spec p a :
  (0 < p -> ff_new p a = Some (a mod p) /\ InF p (a mod p)) /\ (p <= 0 -> ff_new p a = None) /\
  (InF p a -> ff_new p a = Some a).
Proof. split; [apply ff_new_spec|]. split; [apply ff_new_nonpos|apply ff_new_id]. Qed.

Lemma fp_hom p x y : SmallMod p ->
  ff_add p (x mod p) (y mod p) = ff_new p (x + y) /\
  ff_sub p (x mod p) (y mod p) = ff_new p (x - y) /\
  ff_mul p (x mod p) (y mod p) = ff_new p (x * y) /\
  ff_neg p (x mod p) = ff_new p (- x).
Proof.
  intros Hp. split; [now apply ff_add_hom|]. split; [now apply ff_sub_hom|].
  split; [now apply ff_mul_hom|now apply ff_neg_hom].
Qed.

(* equality of representatives is congruence modulo p *)
Lemma fp_eq_iff p x y : 0 < p ->
  (ff_new p x = ff_new p y <-> x mod p = y mod p) /\
  (forall a b, InF p a -> InF p b -> (ff_eqb a b = true <-> a mod p = b mod p)).
Proof.
  intros Hp. split.
  - destruct (ff_new_spec p x Hp) as [-> _]. destruct (ff_new_spec p y Hp) as [-> _].
    split; [intros H; now inversion H|now intros ->].
  - intros a b Ha Hb. unfold ff_eqb. rewrite Z.eqb_eq. unfold InF in *. rewrite !Z.mod_small by lia. tauto.
Qed.

(* the inverse *)
Lemma fp_inv_spec p :
  ff_inv p 0 = Some None /\
  (forall a, prime p -> p < 2 ^ 30 -> 0 < a < p ->
     exists b, ff_inv p a = Some (Some b) /\ InF p b /\ (a * b) mod p = 1) /\
  (forall a b, InF p a -> ff_inv p a = Some (Some b) -> InF p b /\ (a * b) mod p = 1 mod p).
Proof. split; [apply ff_inv_zero|]. split; [intros a; apply ff_inv_spec|intros a b; apply ff_inv_sound]. Qed.

(* histories: x op= FF::new(b), x = -x.  Whatever sequence is applied to FF::new(x0), the value is
   FF::new of the same sequence applied to x0 in Z *)
Inductive ff_op := FAdd (b : Z) | FSub (b : Z) | FMul (b : Z) | FNeg.

Definition ff_step (p : Z) (a : Z) (o : ff_op) : option Z :=
  match o with
  | FAdd b => do y <- ff_new p b; ff_add p a y
  | FSub b => do y <- ff_new p b; ff_sub p a y
  | FMul b => do y <- ff_new p b; ff_mul p a y
  | FNeg => ff_neg p a
  end.
Definition z_step (x : Z) (o : ff_op) : Z :=
  match o with FAdd b => x + b | FSub b => x - b | FMul b => x * b | FNeg => - x end.
Fixpoint ff_run (p : Z) (ops : list ff_op) (a : Z) : option Z :=
  match ops with [] => Some a | o :: r => do a' <- ff_step p a o; ff_run p r a' end.

Lemma ff_step_hom p x o : SmallMod p -> ff_step p (x mod p) o = Some (z_step x o mod p).
Proof.
  intros Hp. assert (H0 : 0 < p) by (destruct Hp; lia).
  destruct o as [b|b|b|]; cbn [ff_step z_step].
  - destruct (ff_new_spec p b H0) as [-> _]. cbn [obind]. rewrite ff_add_hom by exact Hp. apply ff_new_spec. exact H0.
  - destruct (ff_new_spec p b H0) as [-> _]. cbn [obind]. rewrite ff_sub_hom by exact Hp. apply ff_new_spec. exact H0.
  - destruct (ff_new_spec p b H0) as [-> _]. cbn [obind]. rewrite ff_mul_hom by exact Hp. apply ff_new_spec. exact H0.
  - rewrite ff_neg_hom by exact Hp. apply ff_new_spec. exact H0.
Qed.

Lemma ff_history p ops : SmallMod p -> forall x,
  ff_run p ops (x mod p) = Some (fold_left z_step ops x mod p) /\ InF p (fold_left z_step ops x mod p).
Proof.
  intros Hp. assert (H0 : 0 < p) by (destruct Hp; lia).
  induction ops as [|o ops IH]; intros x; cbn [ff_run fold_left].
  - split; [reflexivity|]. apply Z.mod_pos_bound. exact H0.
  - rewrite ff_step_hom by exact Hp. cbn [obind]. apply IH.
Qed.

(* ================================ F_2 ================================ *)
Lemma f2_hom :
  (forall a, f2_from a = if fitsb i64 a then Some (Z.odd a) else None) /\
  (forall x y, Z.odd (x + y) = f2_add (Z.odd x) (Z.odd y)) /\
  (forall x y, Z.odd (x - y) = f2_sub (Z.odd x) (Z.odd y)) /\
  (forall x y, Z.odd (x * y) = f2_mul (Z.odd x) (Z.odd y)) /\
  (forall x, Z.odd (- x) = f2_neg (Z.odd x)) /\
  (forall a, match f2_inv a with Some b => f2_mul a b = true | None => a = false end).
Proof.
  split; [exact f2_from_spec|]. split; [exact f2_odd_add|]. split; [exact f2_odd_sub|].
  split; [exact f2_odd_mul|]. split; [exact f2_odd_neg|exact f2_inv_spec].
Qed.

(* ================================ quadratic integers ================================ *)
Lemma quad_big D x y : D mod 4 <> 0 ->
  qi_add Big x y = Some (qs_add x y) /\ qi_sub Big x y = Some (qs_sub x y) /\ qi_neg Big x = Some (qs_neg x) /\
  qi_mul Big D x y = Some (qs_mul (qi_t D) (qi_e D) x y) /\
  qi_conj Big D x = Some (qs_conj (qi_t D) x) /\ qi_norm Big D x = Some (qs_norm (qi_t D) (qi_e D) x).
Proof.
  intros HD. split; [apply qi_add_big|]. split; [apply qi_sub_big|]. split; [apply qi_neg_big|].
  split; [now apply qi_mul_big|]. split; [now apply qi_conj_big|now apply qi_norm_big].
Qed.

Lemma quad_bounded w D x y :
  (forall r, qi_add w x y = Some r -> r = qs_add x y) /\
  (forall r, qi_sub w x y = Some r -> r = qs_sub x y) /\
  (forall r, qi_neg w x = Some r -> r = qs_neg x) /\
  (forall r, qi_mul w D x y = Some r -> r = qs_mul (qi_t D) (qi_e D) x y) /\
  (forall r, D mod 4 <> 0 -> qi_conj w D x = Some r -> r = qs_conj (qi_t D) x) /\
  (forall r, D mod 4 <> 0 -> qi_norm w D x = Some r -> r = qs_norm (qi_t D) (qi_e D) x).
Proof.
  split; [intros r; apply qi_add_exact|]. split; [intros r; apply qi_sub_exact|].
  split; [intros r; apply qi_neg_exact|]. split; [intros r; apply qi_mul_exact|].
  split; [intros r; apply qi_conj_exact|intros r; apply qi_norm_exact].
Qed.

(* the reference operations are the operations of Z[X]/(X^2 - t X - e) on representatives a + b X *)
Lemma quad_sem t e u v X :
  qsem (qs_add u v) X = qsem u X + qsem v X /\
  qsem (qs_sub u v) X = qsem u X - qsem v X /\
  qsem (qs_neg u) X = - qsem u X /\
  qsem u X * qsem v X = qsem (qs_mul t e u v) X + (snd u * snd v) * (X * X - t * X - e) /\
  qsem qi_zero X = 0 /\ qsem qi_one X = 1 /\ qsem qi_omega X = X.
Proof.
  split; [apply qsem_add|]. split; [apply qsem_sub|]. split; [apply qsem_neg|]. split; [apply qsem_mul|].
  split; [apply qsem_zero|]. split; [apply qsem_one|apply qsem_omega].
Qed.

Lemma quad_poly D :
  (D mod 4 = 1 -> qi_t D = 1 /\ 4 * qi_e D = D - 1) /\
  (D mod 4 = 2 \/ D mod 4 = 3 -> qi_t D = 0 /\ qi_e D = D) /\
  (forall a b, qi_new D a b = if D mod 4 =? 0 then None else Some (a, b)).
Proof. split; [apply qi_poly_1|]. split; [apply qi_poly_23|apply qi_new_spec]. Qed.

Lemma quad_eq x y : (qi_eqb x y = true <-> x = y) /\ ((forall X, qsem x X = qsem y X) -> x = y).
Proof. split; [apply qi_eqb_eq|apply qsem_inj]. Qed.

Lemma quad_norm t e x y :
  qs_mul t e x (qs_conj t x) = (qs_norm t e x, 0) /\
  qs_norm t e (qs_mul t e x y) = qs_norm t e x * qs_norm t e y /\
  qs_conj t (qs_conj t x) = x.
Proof. split; [apply qs_conj_mul|]. split; [apply qs_norm_mul|apply qs_conj_invol]. Qed.

(* ================================ integers ================================ *)
Lemma width_ranges x :
  (fitsb i32 x = true <-> -2147483648 <= x <= 2147483647) /\
  (fitsb i64 x = true <-> -9223372036854775808 <= x <= 9223372036854775807) /\
  (fitsb i128 x = true <->
     -170141183460469231731687303715884105728 <= x <= 170141183460469231731687303715884105727) /\
  fitsb Big x = true.
Proof. split; [apply fitsb_i32|]. split; [apply fitsb_i64|]. split; [apply fitsb_i128|reflexivity]. Qed.

(* division, remainder, gcd, lcm: a returned value is the value over Z; BigInt returns it always *)
Lemma int_euc_exact w a b :
  (forall v, iquot w a b = Some v -> b <> 0 /\ v = Z.quot a b) /\
  (forall v, irem w a b = Some v -> b <> 0 /\ v = Z.rem a b) /\
  (forall v, igcd w a b = Some v -> v = Z.gcd a b) /\
  (forall v, ilcm w a b = Some v -> v = Z.abs (a * Z.quot b (Z.gcd a b))) /\
  (b <> 0 -> iquot Big a b = Some (Z.quot a b)) /\ igcd Big a b = Some (Z.gcd a b) /\
  ilcm Big a b = Some (Z.abs (a * Z.quot b (Z.gcd a b))).
Proof.
  split; [intros v; apply iquot_inv|]. split; [intros v; apply irem_inv|]. split; [intros v; apply igcd_inv|].
  split; [|split; [apply iquot_big|split; [apply igcd_big|apply ilcm_big]]].
  intros v H. apply ilcm_mono in H. rewrite ilcm_big in H. now inversion H.
Qed.

(* the dictionaries of C14Rings are the model's operations *)
Lemma Q_ring_model x y :
  rt_add Big (cr_val x) (cr_val y) = Some (cr_val (radd Q_ring x y)) /\
  rt_mul Big (cr_val x) (cr_val y) = Some (cr_val (rmul Q_ring x y)) /\
  rt_neg Big (cr_val x) = Some (cr_val (rneg Q_ring x)) /\
  reqb Q_ring x y = rt_eqb (cr_val x) (cr_val y) /\
  cr_val (rzero Q_ring) = rt_zero /\ cr_val (rone Q_ring) = rt_one.
Proof.
  split; [apply cr_add_ok|]. split; [apply cr_mul_ok|]. split; [apply cr_neg_ok|]. repeat split.
Qed.

Lemma Q_ring_values :
  (forall x y, (qv x == qv y)%Q -> x = y) /\ (forall n d, d <> 0 -> exists x, (qv x == qfrac n d)%Q) /\
  (forall x, Canon (cr_val x)).
Proof. split; [exact qv_inj|split; [exact qv_surj|exact cr_canon]]. Qed.

Lemma Fp_ring_model p (Hs : SmallMod p) (x y : fp p) :
  ff_add p (fp_val x) (fp_val y) = Some (fp_val (radd (Fp_ring p (proj1 Hs)) x y)) /\
  ff_mul p (fp_val x) (fp_val y) = Some (fp_val (rmul (Fp_ring p (proj1 Hs)) x y)) /\
  ff_neg p (fp_val x) = Some (fp_val (rneg (Fp_ring p (proj1 Hs)) x)) /\
  reqb (Fp_ring p (proj1 Hs)) x y = ff_eqb (fp_val x) (fp_val y) /\
  fp_val (rzero (Fp_ring p (proj1 Hs))) = ff_zero /\ fp_val (rone (Fp_ring p (proj1 Hs))) = ff_one /\
  InF p (fp_val x).
Proof.
  split; [apply (proj1 (fv_add p Hs x y))|]. split; [apply (proj1 (fv_mul p Hs x y))|].
  split; [apply (proj1 (fv_neg p Hs x))|]. repeat split; apply (fp_in x).
Qed.

(* ================================ examples (non-vacuity) ================================ *)
Example ex_canon : Canon (mkR (-3) 7).
Proof. split; [cbn; lia|reflexivity]. Qed.
Example ex_small : SmallMod 46337.
Proof. split; [lia|reflexivity]. Qed.
Example ex_not_small : ~ SmallMod 46349.
Proof. intros [_ H]. vm_compute in H. discriminate. Qed.
