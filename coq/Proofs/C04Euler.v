(* C04 - the graded Euler characteristic of the cube of resolutions is the state sum:
   sum over generators of (-1)^h q^j  =  jones_model,  for every diagram (as options: the two sides panic
   on the same inputs).  Per vertex: sum over labels of q^deg = (q + q^-1)^circles. *)
From Coq Require Import List Arith Bool ZArith Lia.
Require Import Yui.Model.Link Yui.Model.Jones Yui.Proofs.C04Poly.
Import ListNotations.
Local Open Scope Z_scope.

Definition sgn_nat (n : nat) : Z := if Nat.even n then 1 else -1.

Lemma sgn_nat_S : forall n, sgn_nat (S n) = - sgn_nat n.
Proof. intros. unfold sgn_nat. rewrite Nat.even_succ, <- Nat.negb_even. destruct (Nat.even n); reflexivity. Qed.
Lemma sgn_nat_cases : forall n, sgn_nat n = 1 \/ sgn_nat n = -1.
Proof. intros. unfold sgn_nat. destruct (Nat.even n); auto. Qed.

Lemma hsign_of_nat : forall n, hsign (Z.of_nat n) = sgn_nat n.
Proof.
  induction n as [|n IH]; [reflexivity|].
  rewrite sgn_nat_S, <- IH. unfold hsign. rewrite Nat2Z.inj_succ, Z.even_succ, <- Z.negb_even.
  destruct (Z.even (Z.of_nat n)); reflexivity.
Qed.
Lemma hsign_opp : forall h, hsign (- h) = hsign h.
Proof. intros. unfold hsign. rewrite Z.even_opp. reflexivity. Qed.
Lemma hsign_add : forall a b, hsign (a + b) = hsign a * hsign b.
Proof. intros. unfold hsign. rewrite Z.even_add. destruct (Z.even a), (Z.even b); reflexivity. Qed.
Lemma hsign_gen : forall nn w, hsign (- Z.of_nat nn + Z.of_nat w) = sgn_nat nn * sgn_nat w.
Proof. intros. rewrite hsign_add, hsign_opp, !hsign_of_nat. reflexivity. Qed.

(* (-q)^w is the monomial (-1)^w q^w *)
Lemma ppow_minus_q : forall w, ppow minus_q w = [(Z.of_nat w, sgn_nat w)].
Proof.
  induction w as [|w IH]; [reflexivity|].
  cbn [ppow]. rewrite IH, sgn_nat_S. unfold minus_q, pmul, pscale, padd. cbn [fold_right fst snd map].
  rewrite Nat2Z.inj_succ.
  destruct (sgn_nat_cases w) as [-> | ->]; cbn [Z.eqb Z.mul Z.opp padd_term Pos.mul];
    replace (Z.of_nat w + 1) with (Z.succ (Z.of_nat w)) by lia; reflexivity.
Qed.

(* the prefactor is the monomial (-1)^{n-} q^{n+ - 2 n-} *)
Lemma jones_prefactor_mono : forall np nn,
  jones_prefactor np nn = [(Z.of_nat np - 2 * Z.of_nat nn, sgn_nat nn)].
Proof.
  intros. unfold jones_prefactor, sgn_nat, qpow, pconst, pmul, pscale, padd.
  destruct (Nat.even nn); cbn [Z.eqb fold_right fst snd map padd_term Z.mul Z.add Pos.mul]; reflexivity.
Qed.

(* coefficients of (q + q^-1)^r : the number of labels of each degree *)
Definition lab_count (r : nat) (x : Z) : Z :=
  zsum (fun lab : list bool => if label_deg lab + Z.of_nat r =? x then 1 else 0) (all_states r).

Lemma coeff_q0_mul : forall p x, coeff (pmul q0 p) x = coeff p (x - -1) + coeff p (x - 1).
Proof. intros. rewrite coeff_pmul. unfold q0. rewrite !zsum_cons, zsum_nil. cbn [fst snd]. lia. Qed.

Lemma coeff_ppow_q0 : forall r x, coeff (ppow q0 r) x = lab_count r x.
Proof.
  induction r as [|r IH]; intros x.
  - unfold lab_count. cbn. destruct x; reflexivity.
  - cbn [ppow]. rewrite coeff_pmul_comm. rewrite coeff_q0_mul. rewrite !IH.
    unfold lab_count. cbn [all_states]. rewrite zsum_flat_map.
    rewrite <- zsum_add.
    transitivity (zsum (fun lab : list bool =>
                    (if label_deg lab + Z.of_nat r =? x - -1 then 1 else 0) +
                    (if label_deg lab + Z.of_nat r =? x - 1 then 1 else 0)) (all_states r)).
    { apply zsum_ext. intros; lia. }
    apply zsum_ext. intros lab _. rewrite !zsum_cons, zsum_nil. cbn [label_deg fold_right].
    fold (label_deg lab). rewrite Nat2Z.inj_succ.
    destruct (Z.eqb_spec (label_deg lab + Z.of_nat r) (x - -1));
    destruct (Z.eqb_spec (label_deg lab + Z.of_nat r) (x - 1));
    destruct (Z.eqb_spec (-2 + label_deg lab + Z.succ (Z.of_nat r)) x);
    destruct (Z.eqb_spec (0 + label_deg lab + Z.succ (Z.of_nat r)) x); lia.
Qed.

Lemma all_states_length : forall n s, In s (all_states n) -> length s = n.
Proof.
  induction n as [|n IH]; intros s H; cbn in H.
  - destruct H as [<-|[]]; reflexivity.
  - apply in_flat_map in H. destruct H as [t [Ht [<-|[<-|[]]]]]; cbn; rewrite (IH t); auto.
Qed.

(* one vertex of the cube *)
Lemma vertex_identity : forall np nn s r e,
  sgn_nat nn * coeff (jones_term (weight s) r) (e - (Z.of_nat np - 2 * Z.of_nat nn)) =
  zsum (fun x => if snd x =? e then hsign (fst x) else 0)
       (map (fun lab => (gen_hdeg nn s, gen_qdeg np nn s lab)) (all_states r)).
Proof.
  intros np nn s r e. unfold jones_term. rewrite ppow_minus_q, coeff_pmul_mono, coeff_ppow_q0.
  rewrite zsum_map. cbn [fst snd]. unfold lab_count. rewrite Z.mul_assoc, zsum_scal.
  apply zsum_ext. intros lab Hlab. unfold gen_hdeg, gen_qdeg. rewrite hsign_gen.
  rewrite (all_states_length r lab Hlab).
  destruct (Z.eqb_spec (label_deg lab + Z.of_nat r) (e - (Z.of_nat np - 2 * Z.of_nat nn) - Z.of_nat (weight s)));
  destruct (Z.eqb_spec (Z.of_nat np - 2 * Z.of_nat nn + label_deg lab + Z.of_nat r + Z.of_nat (weight s)) e); lia.
Qed.

Lemma body_vs_gens : forall l np nn states,
  match jones_body l states, kh_gens_loop l np nn states with
  | Some b, Some g => forall e,
      sgn_nat nn * coeff b (e - (Z.of_nat np - 2 * Z.of_nat nn)) = coeff (euler_poly g) e
  | None, None => True
  | _, _ => False
  end.
Proof.
  intros l np nn. induction states as [|s rest IH]; cbn [jones_body kh_gens_loop].
  - intros e. rewrite coeff_nil. cbn. lia.
  - destruct (circles l s) as [r|]; [|exact I].
    destruct (jones_body l rest) as [b|], (kh_gens_loop l np nn rest) as [g|]; try contradiction; auto.
    intros e. rewrite coeff_padd, coeff_euler_poly, zsum_app. rewrite <- (coeff_euler_poly g e), <- IH.
    rewrite Z.mul_add_distr_l. f_equal. apply vertex_identity.
Qed.

(* C04_euler : the generator sum and the state sum coincide, and they are defined on the same inputs *)
Theorem kh_euler_jones : forall l, kh_euler l = jones_model l.
Proof.
  intros l. unfold kh_euler, kh_gens, jones_model.
  destruct (signed_crossing_nums l) as [[np nn]|]; [|reflexivity].
  destruct (64 <? crossing_num l)%nat; [reflexivity|].
  pose proof (body_vs_gens l np nn (all_states (crossing_num l))) as H.
  destruct (jones_body l (all_states (crossing_num l))) as [b|],
           (kh_gens_loop l np nn (all_states (crossing_num l))) as [g|]; try contradiction; auto.
  cbn [option_map]. f_equal. apply canon_ext.
  - apply euler_poly_canon.
  - apply pmul_canon.
  - intros e. rewrite jones_prefactor_mono, coeff_pmul_mono. symmetry. apply H.
Qed.

(* number of generators at a vertex: 2^circles *)
Lemma all_states_count : forall n, length (all_states n) = Nat.pow 2 n.
Proof.
  induction n as [|n IH]; [reflexivity|]. cbn [all_states Nat.pow].
  assert (H : forall (l : list (list bool)),
            length (flat_map (fun t => [false :: t; true :: t]) l) = (2 * length l)%nat).
  { induction l as [|x l IHl]; [reflexivity|]. cbn [flat_map app length]. rewrite IHl. lia. }
  rewrite H, IH. reflexivity.
Qed.
