(* C18 - crossing indexing: crossing_at(i) / crossing_at_mut(i) address the i-th UNRESOLVED crossing of the
   data vector (not the i-th entry), resolved_at(i, r) rewrites exactly that entry, and smoothing two
   crossings one at a time gives the same diagram in either order. *)
From Coq Require Import List Arith Bool Lia.
Require Import Yui.Model.Link Yui.Model.LinkAt Yui.Proofs.C18Resolve.
Import ListNotations.

Definition unresolved (l : link) : list crossing := filter (fun c => negb (is_resolved c)) l.

Lemma crossing_num_unresolved : forall l, crossing_num l = length (unresolved l).
Proof. reflexivity. Qed.

(* the index found: it is in range, the entry is unresolved, exactly i unresolved entries precede it *)
Lemma crossing_index_from_spec : forall l j0 i,
  match crossing_index_from j0 l i with
  | Some j => exists k, j = j0 + k /\ k < length l /\
                        (exists c, nth_error l k = Some c /\ is_resolved c = false) /\
                        crossing_num (firstn k l) = i
  | None => crossing_num l <= i
  end.
Proof.
  induction l as [|c l IH]; intros j0 i; cbn [crossing_index_from].
  - cbn. lia.
  - destruct (is_resolved c) eqn:R.
    + specialize (IH (S j0) i). destruct (crossing_index_from (S j0) l i) as [j|].
      * destruct IH as (k & -> & Hk & (c' & Hn & Hc) & Hf). exists (S k). split; [lia|].
        split; [cbn; lia|]. split; [exists c'; auto|].
        cbn [firstn]. rewrite crossing_num_cons, R. exact Hf.
      * rewrite crossing_num_cons, R. lia.
    + destruct i as [|i].
      * exists 0. split; [lia|]. split; [cbn; lia|]. split; [exists c; auto|]. reflexivity.
      * specialize (IH (S j0) i). destruct (crossing_index_from (S j0) l i) as [j|].
        { destruct IH as (k & -> & Hk & (c' & Hn & Hc) & Hf). exists (S k). split; [lia|].
          split; [cbn; lia|]. split; [exists c'; auto|].
          cbn [firstn]. rewrite crossing_num_cons, R. lia. }
        { rewrite crossing_num_cons, R. lia. }
Qed.

Lemma crossing_index_spec : forall l i,
  match crossing_index l i with
  | Some j => j < length l /\ (exists c, nth_error l j = Some c /\ is_resolved c = false) /\
              crossing_num (firstn j l) = i
  | None => crossing_num l <= i
  end.
Proof.
  intros l i. unfold crossing_index. pose proof (crossing_index_from_spec l 0 i) as S.
  destruct (crossing_index_from 0 l i) as [j|]; [|exact S].
  destruct S as (k & -> & Hk & Hc & Hf). cbn. auto.
Qed.

Lemma crossing_index_some_iff : forall l i,
  (i < crossing_num l <-> exists j, crossing_index l i = Some j).
Proof.
  intros l i. pose proof (crossing_index_spec l i) as S. split.
  - intros Hi. destruct (crossing_index l i) as [j|]; [eauto|lia].
  - intros (j & E). rewrite E in S. destruct S as (Hj & (c & Hn & Hc) & Hf).
    rewrite <- Hf. clear Hf.
    rewrite <- (firstn_skipn j l) at 2. unfold crossing_num. rewrite filter_app, app_length.
    assert (Hs : exists t, skipn j l = c :: t).
    { clear -Hn. revert j Hn. induction l as [|a l IH]; intros [|j] Hn; cbn in *; try discriminate.
      - injection Hn as ->. eauto.
      - apply IH; exact Hn. }
    destruct Hs as (t & ->). cbn [filter]. rewrite Hc. cbn. lia.
Qed.

(* crossing_at(i) is the i-th element of the list of unresolved crossings; a panic iff i >= crossing_num *)
Lemma shift_index : forall l j0 i,
  crossing_index_from (S j0) l i = option_map S (crossing_index_from j0 l i).
Proof.
  induction l as [|c l IH]; intros j0 i; cbn [crossing_index_from]; [reflexivity|].
  destruct (is_resolved c); [apply IH|]. destruct i; [reflexivity|apply IH].
Qed.

Theorem crossing_at_nth : forall l i, crossing_at l i = nth_error (unresolved l) i.
Proof.
  unfold crossing_at, crossing_index, unresolved.
  induction l as [|c l IH]; intros i; cbn [crossing_index_from filter].
  - destruct i; reflexivity.
  - destruct (is_resolved c) eqn:R; cbn [negb].
    + rewrite shift_index. specialize (IH i).
      destruct (crossing_index_from 0 l i) as [j|]; cbn [option_map nth_error]; exact IH.
    + destruct i as [|i]; [reflexivity|]. cbn [nth_error]. rewrite shift_index. specialize (IH i).
      destruct (crossing_index_from 0 l i) as [j|]; cbn [option_map nth_error]; exact IH.
Qed.

(* resolved_at(i, r) = "find the index, resolve that entry in place" - the two call forms agree *)
Theorem resolve_at_via_index : forall l i r, resolve_at l i r = resolve_via_index l i r.
Proof.
  unfold resolve_via_index, crossing_index.
  induction l as [|c l IH]; intros i r; cbn [resolve_at crossing_index_from]; [reflexivity|].
  assert (Step : forall i,
    option_map (cons c) (resolve_at l i r) =
    match crossing_index_from 1 l i with
    | Some j => match nth_error (c :: l) j with
                | Some c0 => option_map (fun c' => firstn j (c :: l) ++ c' :: skipn (S j) (c :: l)) (resolve_c c0 r)
                | None => None
                end
    | None => None
    end).
  { intros i'. rewrite IH, shift_index.
    destruct (crossing_index_from 0 l i') as [j|]; cbn [option_map]; [|reflexivity].
    cbn [nth_error firstn skipn]. destruct (nth_error l j) as [c0|]; [|reflexivity].
    destruct (resolve_c c0 r); reflexivity. }
  destruct (is_resolved c) eqn:R; [apply Step|].
  destruct i as [|i]; [|apply Step].
  cbn [nth_error firstn skipn app]. reflexivity.
Qed.

(* the entry rewritten by resolved_at(i, r) is the i-th unresolved crossing, now smoothed; everything
   else is untouched *)
Theorem resolved_at_entry : forall l i r, i < crossing_num l ->
  exists j c c', crossing_index l i = Some j /\ nth_error l j = Some c /\ nth_error (unresolved l) i = Some c /\
                 resolve_c c r = Some c' /\ is_resolved c' = true /\
                 resolved_at l i r = Some (firstn j l ++ c' :: skipn (S j) l).
Proof.
  intros l i r Hi. unfold resolved_at. rewrite resolve_at_via_index. unfold resolve_via_index.
  pose proof (crossing_at_nth l i) as A. unfold crossing_at in A.
  pose proof (crossing_index_spec l i) as S.
  destruct (crossing_index l i) as [j|]; [|lia].
  destruct S as (Hj & (c & Hn & Hc) & Hf). rewrite Hn in *.
  destruct (resolve_c_spec c r Hc) as (c' & E & _ & RC).
  exists j, c, c'. rewrite E. cbn [option_map]. repeat split; auto.
Qed.

(* the unresolved crossings after one smoothing: the i-th one is removed, the order of the others is kept *)
Lemma unresolved_resolve_at : forall l i r l', resolve_at l i r = Some l' ->
  unresolved l' = firstn i (unresolved l) ++ skipn (S i) (unresolved l).
Proof.
  unfold unresolved.
  induction l as [|c l IH]; intros i r l' E; cbn [resolve_at] in E; [discriminate|].
  destruct (is_resolved c) eqn:R.
  - destruct (resolve_at l i r) as [l1|] eqn:E1; [|discriminate]. injection E as <-.
    cbn [filter]. rewrite R. cbn [negb]. eapply IH; eauto.
  - destruct i as [|i].
    + destruct (resolve_c c r) as [c'|] eqn:Ec; [|discriminate]. injection E as <-.
      cbn [filter]. rewrite R. cbn [negb firstn skipn app].
      assert (is_resolved c' = true) as ->.
      { destruct (resolve_c_spec c r R) as (c2 & E2 & _ & RC). congruence. }
      reflexivity.
    + destruct (resolve_at l i r) as [l1|] eqn:E1; [|discriminate]. injection E as <-.
      cbn [filter]. rewrite R. cbn [negb firstn skipn app]. f_equal. eapply IH; eauto.
Qed.

(* order independence: smoothing crossing i and crossing k (i < k, indices of the ORIGINAL diagram) one at a
   time gives the same diagram in both orders - after i is gone, the old k is addressed as k - 1 *)
Lemma bind_cons_resolved : forall c (o : option link) n r, is_resolved c = true ->
  match option_map (cons c) o with Some l1 => resolve_at l1 n r | None => None end =
  option_map (cons c) (match o with Some l1 => resolve_at l1 n r | None => None end).
Proof. intros c [l1|] n r R; cbn [option_map resolve_at]; [rewrite R|]; reflexivity. Qed.
Lemma bind_cons_unresolved : forall c (o : option link) n r, is_resolved c = false ->
  match option_map (cons c) o with Some l1 => resolve_at l1 (S n) r | None => None end =
  option_map (cons c) (match o with Some l1 => resolve_at l1 n r | None => None end).
Proof. intros c [l1|] n r R; cbn [option_map resolve_at]; [rewrite R|]; reflexivity. Qed.

Theorem resolved_at_commute : forall l i k a b, i < k ->
  match resolved_at l i a with Some l1 => resolved_at l1 (k - 1) b | None => None end =
  match resolved_at l k b with Some l2 => resolved_at l2 i a | None => None end.
Proof.
  unfold resolved_at.
  induction l as [|c l IH]; intros i k a b Hik; cbn [resolve_at]; [reflexivity|].
  destruct (is_resolved c) eqn:R.
  - rewrite !bind_cons_resolved by exact R. f_equal. apply IH; exact Hik.
  - destruct k as [|k]; [lia|]. replace (S k - 1) with k by lia.
    destruct i as [|i].
    + destruct (resolve_c_spec c a R) as (c' & E & _ & RC). rewrite E. cbn [option_map resolve_at].
      rewrite RC. destruct (resolve_at l k b) as [l2|]; cbn [option_map resolve_at]; [|reflexivity].
      rewrite R, E. reflexivity.
    + destruct k as [|k]; [lia|].
      rewrite !bind_cons_unresolved by exact R. f_equal.
      specialize (IH i (S k) a b ltac:(lia)). replace (S k - 1) with k in IH by lia. exact IH.
Qed.

Lemma crossing_at_none_iff : forall l i, crossing_at l i = None <-> crossing_num l <= i.
Proof. intros l i. rewrite crossing_at_nth, crossing_num_unresolved. apply nth_error_None. Qed.

Lemma crossing_index_some_spec : forall l i j, crossing_index l i = Some j ->
  j < length l /\ (exists c, nth_error l j = Some c /\ is_resolved c = false) /\ crossing_num (firstn j l) = i.
Proof. intros l i j E. pose proof (crossing_index_spec l i) as S. rewrite E in S. exact S. Qed.

(* non-vacuity / the situation of the seeded defect: the trefoil with crossing 0 already smoothed *)
Definition trefoil : link := [mkX X 1 4 2 5; mkX X 3 6 4 1; mkX X 5 2 6 3].
Lemma trefoil_example :
  exists l1, resolved_at trefoil 0 false = Some l1 /\
    crossing_index l1 1 = Some 2 /\ crossing_at l1 1 = Some (mkX X 5 2 6 3) /\
    resolved_at l1 1 true = Some [mkX H 1 4 2 5; mkX X 3 6 4 1; mkX V 5 2 6 3] /\
    crossing_at l1 2 = None.
Proof. eexists. repeat split. Qed.
