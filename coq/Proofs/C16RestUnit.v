(* C16 (rest): Ring::inv / is_unit / normalizing_unit of PolyBase, is_const / const_term / is_one, and pow
   (Model/Poly.v), for every monomial type with [mono_laws] + [mono_unit_laws] and every commutative ring
   with [ring_laws] and a unit dictionary with [unit_laws]. *)
From Coq Require Import List Bool Arith NArith ZArith Lia Permutation Ring.
Require Import Yui.Base.Ring Yui.Model.Lc Yui.Model.Mono Yui.Model.Poly.
Require Import Yui.Proofs.C16Lc Yui.Proofs.C16Mono Yui.Proofs.C16Poly Yui.Proofs.C16RestMono Yui.Proofs.C16RestPowZ.
Import ListNotations.

Section UnitProofs.
  Context {X R : Type} (m : mono_ops X) (o : ring_ops R) (ok : X -> Prop).
  Context (ML : mono_laws m ok) (L : ring_laws o).

  Add Ring Ru : (ring_theory_of_laws o L).

  Notation "0" := (rzero o).
  Notation "1" := (rone o).
  Infix "+" := (radd o).
  Infix "*" := (rmul o).
  Notation poly := (lc X R).
  Notation xeqb := (meqb m).
  Notation coeff := (coeff xeqb o).
  Notation delta := (delta xeqb o).
  Notation keys := (@keys X R).
  Notation WF := (WF o ok).
  Infix "**" := (mmul m) (at level 40, left associativity).
  Infix "==" := (peq m o) (at level 70).

  Let xeqb_eq : forall x y, xeqb x y = true <-> x = y := meqb_eq m ok ML.

  Ltac wf := repeat (assumption || apply (WF_mul m o ok ML L) || apply (WF_pow m o ok ML L) || apply (WF_one m o ok ML L)
                     || apply (WF_from_const m o ok ML L) || apply (WF_nil o ok)).

  (* ---------- small facts ---------- *)
  Lemma from_pair_nonzero x r : r <> 0 -> p_from_pair m o x r = [(x, r)].
  Proof.
    intros N. unfold p_from_pair, from_pair, from_iter. cbn [fold_left]. unfold add_pair. cbn [fst snd].
    destruct (ris_zero_spec o L r) as [E|_]; [contradiction|]. cbn [upd_add clean filter snd].
    destruct (ris_zero_spec o L r) as [E|_]; [contradiction|]. reflexivity.
  Qed.
  Lemma from_pair_zero x : p_from_pair m o x 0 = [].
  Proof.
    unfold p_from_pair, from_pair, from_iter. cbn [fold_left]. unfold add_pair. cbn [fst snd].
    destruct (ris_zero_spec o L 0) as [_|N]; [reflexivity|congruence].
  Qed.
  Lemma coeff_from_pair x r z : coeff (p_from_pair m o x r) z = delta z x r.
  Proof.
    unfold p_from_pair, from_pair. rewrite (coeff_from_iter xeqb o xeqb_eq L). unfold rcoeff.
    rewrite (lsum_cons o), (lsum_nil o). cbn [fst snd]. ring.
  Qed.
  Lemma delta_same x r : delta x x r = r.
  Proof. unfold Lc.delta. now rewrite (proj2 (xeqb_eq x x) eq_refl). Qed.
  Lemma delta_other z x r : x <> z -> delta z x r = 0.
  Proof. intros N. unfold Lc.delta. destruct (xeqb x z) eqn:E; [apply xeqb_eq in E; contradiction|reflexivity]. Qed.

  Lemma mul_nonzero_l a b : 1 <> 0 -> a * b = 1 -> a <> 0.
  Proof. intros N1 E Ea. apply N1. rewrite <- E, Ea. ring. Qed.
  Lemma nontrivial_of a : a <> 0 -> 1 <> 0.
  Proof. intros Na E. apply Na. replace a with (a * 1) by ring. rewrite E. ring. Qed.

  Lemma WF_single x a : WF [(x, a)] -> ok x /\ a <> 0.
  Proof.
    intros [[_ Nz] Ko]. unfold KeysOk in Ko. cbn in Ko. inversion Ko; subst. inversion Nz; subst. auto.
  Qed.
  Lemma WF_single_intro x a : ok x -> a <> 0 -> WF [(x, a)].
  Proof.
    intros Hx Na. split; [split|]; cbn.
    - constructor; [intros []|constructor].
    - constructor; [assumption|constructor].
    - constructor; [assumption|constructor].
  Qed.

  (* a WF polynomial with the coefficient function of a single term is that single term *)
  Lemma peq_single p x a : WF p -> a <> 0 -> (forall z, coeff p z = delta z x a) -> ok x -> p = [(x, a)].
  Proof.
    intros Hp Na E Hx. apply Permutation_length_1_inv.
    apply (peq_perm m o ok ML); [now apply WF_single_intro|assumption|].
    intros z. rewrite E. apply (coeff_single m o).
  Qed.

  (* ---------- is_const / const_term / is_one ---------- *)
  Theorem const_term_spec p : p_const_term m o p = coeff p (mone m).
  Proof. reflexivity. Qed.

  (* is_const: EVERY monomial of the support is 1 (not just the leading one) *)
  Theorem is_const_iff p : WF p -> (p_is_const m p = true <-> forall x, coeff p x <> 0 -> x = mone m).
  Proof.
    intros [Np Kp]. unfold p_is_const. rewrite forallb_forall. split.
    - intros H x Hx. apply (support_keys xeqb o xeqb_eq p Np) in Hx. unfold Lc.keys in Hx.
      apply in_map_iff in Hx as [t [<- It]]. specialize (H t It). unfold mis_one in H. now apply xeqb_eq.
    - intros H t It. unfold mis_one. apply xeqb_eq. apply H.
      apply (support_keys xeqb o xeqb_eq p Np). unfold Lc.keys. apply in_map_iff. now exists t.
  Qed.

  Theorem is_const_shape p : WF p -> (p_is_const m p = true <-> p = [] \/ exists c, c <> 0 /\ p = [(mone m, c)]).
  Proof.
    intros Hp. split.
    - intros H. destruct (is_const_cases m o ok ML p Hp H) as [->|[c ->]]; [now left|right].
      exists c. split; [apply (WF_single _ _ Hp)|reflexivity].
    - intros [->|[c [_ ->]]]; [reflexivity|]. cbn. unfold mis_one. now rewrite (proj2 (xeqb_eq _ _) eq_refl).
  Qed.

  Theorem is_const_from_const p : WF p -> (p_is_const m p = true <-> p = p_from_const m o (p_const_term m o p)).
  Proof.
    intros Hp. rewrite (is_const_shape p Hp). split.
    - intros [->|[c [Nc ->]]].
      + rewrite (const_term_nil m o). unfold p_from_const. now rewrite from_pair_zero.
      + rewrite (const_term_single m o ok ML). unfold p_from_const. now rewrite from_pair_nonzero.
    - intros E. destruct (ris_zero_spec o L (p_const_term m o p)) as [Z|N].
      + left. rewrite E, Z. unfold p_from_const. apply from_pair_zero.
      + right. exists (p_const_term m o p). split; [assumption|]. rewrite E at 1. unfold p_from_const. now apply from_pair_nonzero.
  Qed.

  Theorem is_one_iff p : WF p -> (p_is_one m o p = true <-> p == p_one m o).
  Proof.
    intros Hp. unfold p_is_one. rewrite andb_true_iff, (is_const_iff p Hp).
    split.
    - intros [Hc H1] z. destruct (ris_one_spec o L (p_const_term m o p)) as [E|]; [|discriminate].
      unfold p_one. rewrite coeff_from_pair. destruct (xeqb_spec xeqb xeqb_eq (mone m) z) as [<-|N].
      + rewrite delta_same. exact E.
      + rewrite delta_other by assumption. destruct (ris_zero_spec o L (coeff p z)) as [Z|NZ]; [assumption|].
        exfalso. apply N. symmetry. now apply Hc.
    - intros E. split.
      + intros x Hx. rewrite E in Hx. unfold p_one in Hx. rewrite coeff_from_pair in Hx.
        destruct (xeqb_spec xeqb xeqb_eq (mone m) x) as [<-|N]; [reflexivity|]. rewrite delta_other in Hx by assumption. congruence.
      + rewrite const_term_spec, E. unfold p_one. rewrite coeff_from_pair, delta_same. apply (reqb_refl o L).
  Qed.

  (* ---------- pow ---------- *)
  Lemma mul_1_l a : WF a -> p_mul m o (p_one m o) a == a.
  Proof.
    intros Ha. eapply (peq_trans m o); [apply (mul_comm m o ok ML L); wf|]. now apply (mul_1_r m o ok ML L).
  Qed.

  Theorem pow_0 a : p_pow m o a 0 = p_one m o.
  Proof. reflexivity. Qed.
  Theorem pow_1 a : WF a -> p_pow m o a 1 == a.
  Proof. intros Ha. cbn [p_pow]. now apply mul_1_l. Qed.
  Theorem pow_succ a n : p_pow m o a (S n) = p_mul m o (p_pow m o a n) a.
  Proof. reflexivity. Qed.

  Theorem pow_add a n k : WF a -> p_pow m o a (n + k) == p_mul m o (p_pow m o a n) (p_pow m o a k).
  Proof.
    intros Ha. induction k as [|k IH].
    - rewrite Nat.add_0_r. cbn [p_pow]. apply (peq_sym m o). apply (mul_1_r m o ok ML L). wf.
    - rewrite Nat.add_succ_r. cbn [p_pow].
      eapply (peq_trans m o); [apply (mul_congr m o ok ML L _ (p_mul m o (p_pow m o a n) (p_pow m o a k)) a a); try wf;
                                try exact IH; apply (peq_refl m o)|].
      apply (peq_sym m o). apply (mul_assoc m o ok ML L); wf.
  Qed.

  (* (x a)(y b) = (x y)(a b) *)
  Lemma mul4 x a y b : WF x -> WF a -> WF y -> WF b ->
    p_mul m o (p_mul m o x a) (p_mul m o y b) == p_mul m o (p_mul m o x y) (p_mul m o a b).
  Proof.
    intros Hx Ha Hy Hb.
    assert (E : p_mul m o a (p_mul m o y b) == p_mul m o y (p_mul m o a b)).
    { eapply (peq_trans m o); [apply (mul_assoc m o ok ML L); wf|].
      eapply (peq_trans m o); [apply (mul_congr m o ok ML L _ (p_mul m o y a) b b); try wf;
                                [apply (mul_comm m o ok ML L); wf|apply (peq_refl m o)]|].
      apply (peq_sym m o). apply (mul_assoc m o ok ML L); wf. }
    eapply (peq_trans m o); [apply (peq_sym m o); apply (mul_assoc m o ok ML L); wf|].
    eapply (peq_trans m o); [apply (mul_congr m o ok ML L x x _ (p_mul m o y (p_mul m o a b))); try wf;
                              try exact E; apply (peq_refl m o)|].
    apply (mul_assoc m o ok ML L); wf.
  Qed.

  Lemma pow_inverse a b k : WF a -> WF b -> p_mul m o a b == p_one m o ->
    p_mul m o (p_pow m o a k) (p_pow m o b k) == p_one m o.
  Proof.
    intros Ha Hb E. induction k as [|k IH]; cbn [p_pow].
    - apply mul_1_l. wf.
    - eapply (peq_trans m o); [apply mul4; wf|].
      eapply (peq_trans m o); [apply (mul_congr m o ok ML L _ (p_one m o) _ (p_one m o)); try wf; try exact IH; try exact E|].
      apply mul_1_l. wf.
  Qed.

  (* ---------- lead monomial: determined by the support ---------- *)
  Lemma lead_mono_unique a x : WF a -> a <> [] -> coeff a x <> 0 ->
    (forall y, coeff a y <> 0 -> y <> x -> mcmp_grlex m y x = Lt) -> p_lead_mono m o a = x.
  Proof.
    intros Ha Hne Hx Hmax. destruct (lead_term_spec m o ok ML a Ha Hne) as (_ & Hx' & Hmax').
    set (x' := p_lead_mono m o a) in *.
    destruct (xeqb_spec xeqb xeqb_eq x' x) as [E|N]; [assumption|]. exfalso.
    pose proof (Hmax x' Hx' N) as C1. assert (N' : x <> x') by congruence. pose proof (Hmax' x Hx N') as C2.
    destruct (mgrlex_ord m ok ML) as (_ & OA & _).
    destruct (p_support m o ok ML a Ha) as (_ & Hs & Hk & _). rewrite Forall_forall in Hk.
    rewrite (OA x' x) in C2 by (apply Hk, Hs; assumption). rewrite C1 in C2. discriminate.
  Qed.

  Lemma lead_mono_same_support a b : WF a -> WF b -> (forall z, coeff a z <> 0 <-> coeff b z <> 0) ->
    p_lead_mono m o a = p_lead_mono m o b.
  Proof.
    intros Ha Hb E. destruct b as [|tb b'] eqn:Eb.
    - assert (a = []); [|now subst].
      destruct a as [|[x r] a']; [reflexivity|]. exfalso.
      apply (proj1 (E x)); [|reflexivity]. apply (support_keys xeqb o xeqb_eq _ (proj1 Ha)). now left.
    - rewrite <- Eb in *. assert (Nb : b <> []) by (rewrite Eb; discriminate).
      destruct (lead_term_spec m o ok ML b Hb Nb) as (_ & Hx & Hmax). set (x := p_lead_mono m o b) in *.
      assert (Na : a <> []) by (intros ->; apply (proj2 (E x)) in Hx; now apply Hx).
      apply lead_mono_unique; try assumption; [now apply E|]. intros y Hy. apply Hmax. now apply E.
  Qed.

  (* ================= units ================= *)
  Context (MU : mono_unit_laws m ok) (u : unit_ops R) (UL : unit_laws o u).

  Theorem is_unit_shape p :
    p_is_unit m u p = true <-> exists x a, p = [(x, a)] /\ mis_unit m x = true /\ ris_unit u a = true.
  Proof.
    unfold p_is_unit. split.
    - destruct p as [|[x a] [|t p']]; try discriminate. rewrite andb_true_iff. intros [H1 H2]. now exists x, a.
    - intros (x & a & -> & H1 & H2). now rewrite H1, H2.
  Qed.

  Theorem inv_shape p q :
    p_inv m o u p = Some q <->
    exists x a xi ai, p = [(x, a)] /\ minv m x = Some xi /\ rinv u a = Some ai /\ q = p_from_pair m o xi ai.
  Proof.
    unfold p_inv. split.
    - destruct p as [|[x a] [|t p']]; try discriminate.
      destruct (minv m x) as [xi|] eqn:E1; cbn [obind]; [|discriminate].
      destruct (rinv u a) as [ai|] eqn:E2; cbn [obind]; [|discriminate]. intros [= <-]. now exists x, a, xi, ai.
    - intros (x & a & xi & ai & -> & E1 & E2 & ->). now rewrite E1, E2.
  Qed.

  (* inv p = Some q  ->  q is well formed and p * q is literally the polynomial one *)
  Theorem inv_sound p q : WF p -> p_inv m o u p = Some q ->
    WF q /\ p_mul m o p q = p_one m o /\ p_mul m o q p = p_one m o.
  Proof.
    intros Hp H. apply inv_shape in H as (x & a & xi & ai & -> & E1 & E2 & ->).
    destruct (WF_single _ _ Hp) as [Hx Na]. pose proof (nontrivial_of a Na) as N1.
    destruct (minv_some m ok MU x xi Hx E1) as [Hxi Ex]. pose proof (rinv_some o u UL a ai E2) as Ea.
    assert (Nai : ai <> 0). { apply (mul_nonzero_l ai a N1). rewrite <- Ea. ring. }
    rewrite (from_pair_nonzero xi ai Nai). assert (Hq : WF [(xi, ai)]) by now apply WF_single_intro.
    assert (E : p_mul m o [(x, a)] [(xi, ai)] == p_one m o).
    { intros z. rewrite (p_mul_spec m o ok ML L) by assumption. rewrite (coeff_lc_mul_terms m o ok ML L).
      rewrite !(lsum_cons o), !(lsum_nil o). cbn [fst snd]. rewrite Ex, Ea. unfold p_one. rewrite coeff_from_pair. ring. }
    assert (P1 : p_one m o = [(mone m, 1)]) by (unfold p_one; now apply from_pair_nonzero).
    assert (G : forall r, WF r -> r == p_one m o -> r = p_one m o).
    { intros r Hr Er. rewrite P1. apply peq_single; try assumption; [|apply (mone_ok m ok ML)].
      intros z. rewrite Er. unfold p_one. apply coeff_from_pair. }
    split; [assumption|]. split; apply G; try wf; try exact E.
    eapply (peq_trans m o); [apply (mul_comm m o ok ML L); wf|exact E].
  Qed.

  Theorem is_unit_iff_inv p : WF p -> (p_is_unit m u p = true <-> exists q, p_inv m o u p = Some q).
  Proof.
    intros Hp. unfold p_is_unit, p_inv. destruct p as [|[x a] [|t p']]; try (split; [discriminate|intros [q [=]]]).
    destruct (WF_single _ _ Hp) as [Hx Na].
    rewrite andb_true_iff, (mis_unit_iff m ok MU x Hx), (rinv_unit o u UL a). split.
    - intros [[xi ->] [ai ->]]. cbn [obind]. eauto.
    - destruct (minv m x) as [xi|]; cbn [obind]; [|intros [q [=]]].
      destruct (rinv u a) as [ai|]; cbn [obind]; [|intros [q [=]]]. eauto.
  Qed.

  (* a unit has an inverse in the polynomial ring *)
  Corollary is_unit_invertible p : WF p -> p_is_unit m u p = true -> exists q, WF q /\ p_mul m o p q = p_one m o.
  Proof.
    intros Hp H. apply (is_unit_iff_inv p Hp) in H as [q Hq]. exists q.
    destruct (inv_sound p q Hp Hq) as (H1 & H2 & _). auto.
  Qed.

  (* is_unit in terms of the monomial type: ordinary exponents -> constant units; Laurent -> unit monomials *)
  Corollary is_unit_unsigned p : 1 <> 0 -> (forall x, ok x -> (mis_unit m x = true <-> x = mone m)) -> WF p ->
    (p_is_unit m u p = true <-> exists a, ris_unit u a = true /\ p = p_from_const m o a).
  Proof.
    intros N1 HU Hp. rewrite is_unit_shape. split.
    - intros (x & a & -> & H1 & H2). destruct (WF_single _ _ Hp) as [Hx Na]. apply (HU x Hx) in H1. subst x.
      exists a. split; [assumption|]. unfold p_from_const. now rewrite from_pair_nonzero.
    - intros (a & H2 & ->). assert (Na : a <> 0).
      { apply (rinv_unit o u UL) in H2 as [b Hb]. apply (rinv_some o u UL) in Hb. now apply (mul_nonzero_l a b). }
      exists (mone m), a. unfold p_from_const. rewrite from_pair_nonzero by assumption.
      split; [reflexivity|]. split; [|assumption]. apply (HU _ (mone_ok m ok ML)). reflexivity.
  Qed.
  Corollary is_unit_signed p : (forall x, mis_unit m x = true) ->
    (p_is_unit m u p = true <-> exists x a, ris_unit u a = true /\ p = [(x, a)]).
  Proof.
    intros HU. rewrite is_unit_shape. split.
    - intros (x & a & -> & _ & H2). now exists x, a.
    - intros (x & a & H2 & ->). exists x, a. auto.
  Qed.

  (* ---------- normalizing_unit ---------- *)
  Lemma coeff_mul_const p c z : WF p -> coeff (p_mul m o p (p_from_const m o c)) z = coeff p z * c.
  Proof.
    intros Hp. rewrite <- (smul_mul_const m o ok ML L p c Hp z). now apply (coeff_p_smul m o ok ML L).
  Qed.

  Theorem normalizing_unit_spec p : 1 <> 0 -> WF p ->
    let c := rnunit u (p_lead_coeff m o p) in
    let nu := p_normalizing_unit m o u p in
    nu = [(mone m, c)] /\ WF nu /\ p_is_unit m u nu = true /\
    WF (p_mul m o p nu) /\
    (forall z, coeff (p_mul m o p nu) z = coeff p z * c) /\
    p_lead_mono m o (p_mul m o p nu) = p_lead_mono m o p /\
    p_lead_coeff m o (p_mul m o p nu) = p_lead_coeff m o p * c /\
    rnunit u (p_lead_coeff m o (p_mul m o p nu)) = 1.
  Proof.
    intros N1 Hp c nu.
    assert (Uc : ris_unit u c = true) by apply (rnunit_unit o u UL).
    assert (Hc : exists w, c * w = 1).
    { apply (rinv_unit o u UL) in Uc as [w Hw]. exists w. now apply (rinv_some o u UL). }
    destruct Hc as [w Hw]. assert (Nc : c <> 0) by now apply (mul_nonzero_l c w).
    assert (Enu : nu = [(mone m, c)]) by (unfold nu, p_normalizing_unit, p_from_const; now apply from_pair_nonzero).
    assert (Hnu : WF nu) by (unfold nu, p_normalizing_unit; wf).
    assert (Hq : WF (p_mul m o p nu)) by wf.
    assert (Hco : forall z, coeff (p_mul m o p nu) z = coeff p z * c) by (intros z; now apply coeff_mul_const).
    assert (Hsup : forall z, coeff (p_mul m o p nu) z <> 0 <-> coeff p z <> 0).
    { intros z. rewrite Hco. split; intros H E; apply H; [rewrite E; ring|].
      replace (coeff p z) with (coeff p z * c * w) by (rewrite <- (rmul_assoc o L), Hw; ring). rewrite E. ring. }
    assert (Hlm : p_lead_mono m o (p_mul m o p nu) = p_lead_mono m o p) by now apply lead_mono_same_support.
    assert (Hlc : forall a, WF a -> p_lead_coeff m o a = coeff a (p_lead_mono m o a)).
    { intros a Ha. destruct a as [|t a'] eqn:Ea; [reflexivity|]. rewrite <- Ea in *.
      apply (lead_term_spec m o ok ML a Ha). rewrite Ea. discriminate. }
    assert (Hl : p_lead_coeff m o (p_mul m o p nu) = p_lead_coeff m o p * c).
    { rewrite (Hlc _ Hq), Hlm, Hco, <- (Hlc _ Hp). reflexivity. }
    split; [assumption|]. split; [assumption|]. split.
    - rewrite Enu. cbn [p_is_unit]. rewrite Uc, andb_true_r.
      apply (munit_complete m ok MU (mone m) (mone m)); try apply (mone_ok m ok ML).
      apply (mmul_1_l m ok ML), (mone_ok m ok ML).
    - split; [assumption|]. split; [assumption|]. split; [assumption|]. split; [assumption|].
      rewrite Hl. apply (rnunit_idem o u UL).
  Qed.

  (* ---------- Pow with a signed exponent ---------- *)
  Theorem pow_z_nonneg a n : (0 <= n)%Z -> p_pow_z m o u a n = Some (p_pow m o a (Z.to_nat n)).
  Proof. intros H. unfold p_pow_z. destruct (Z.leb_spec 0 n); [reflexivity|lia]. Qed.

  Theorem pow_z_none a n : WF a -> (p_pow_z m o u a n = None <-> (n < 0)%Z /\ p_is_unit m u a = false).
  Proof.
    intros Ha. unfold p_pow_z. destruct (Z.leb_spec 0 n) as [H|H]; [split; [discriminate|lia]|].
    pose proof (is_unit_iff_inv a Ha) as HI. destruct (p_inv m o u a) as [i|]; cbn [obind].
    - split; [discriminate|]. intros [_ E]. rewrite (proj2 HI) in E by eauto. discriminate.
    - split; [|reflexivity]. intros _. split; [assumption|]. destruct (p_is_unit m u a); [|reflexivity].
      destruct (proj1 HI eq_refl) as [q [=]].
  Qed.

  (* a^(-k) is the inverse of a^k *)
  Theorem pow_z_neg a n q : WF a -> (n < 0)%Z -> p_pow_z m o u a n = Some q ->
    WF q /\ p_mul m o (p_pow m o a (Z.to_nat (- n))) q == p_one m o.
  Proof.
    intros Ha Hn. unfold p_pow_z. destruct (Z.leb_spec 0 n) as [H|_]; [lia|].
    destruct (p_inv m o u a) as [i|] eqn:Ei; cbn [obind]; [|discriminate]. intros [= <-].
    destruct (inv_sound a i Ha Ei) as (Hi & E & _). split; [wf|].
    apply pow_inverse; try assumption. rewrite E. apply (peq_refl m o).
  Qed.
End UnitProofs.
