(* C02 invariance, part 7: reordering the crossings.  Permuting the list of crossings permutes the state
   bits; signs of the differential change, so the cubes are only isomorphic.  Proved here: the multiset
   of (weight, circles) over all states is invariant ([W_perm]), hence the number of generators in every
   cube degree and every local quantum degree is invariant ([count_gens_perm]); the circles (and the
   position of the base circle) at corresponding states are literally equal. *)
From Coq Require Import List Arith Bool ZArith Lia Permutation.
Require Import Yui.Model.KhCube Yui.Model.KhHomology.
Require Import Yui.Proofs.C02Sorted Yui.Proofs.C02Canon Yui.Proofs.C02CubeMap.
Import ListNotations.
Close Scope Z_scope.

(* ---------- circles of a crossingless diagram do not depend on the order of its pieces ---------- *)
Lemma conn_perm l l' : Permutation l l' -> forall a b, conn l a b -> conn l' a b.
Proof.
  intros P. apply conn_incl.
  - intros e. apply Permutation_in. unfold all_edges. now apply Permutation_flat_map.
  - intros a b H. apply gen_arc. revert H. apply Permutation_in. unfold all_arcs. now apply Permutation_flat_map.
Qed.

Theorem circles_perm l l' : Permutation l l' -> circles l = circles l'.
Proof.
  intros P. apply circles_ext. intros a b. split; apply conn_perm; [exact P|now apply Permutation_sym].
Qed.

(* ---------- generic permutation lemmas ---------- *)
Lemma flat_map_cons_perm {A B} (h : A -> B) (t : A -> list B) l :
  Permutation (flat_map (fun a => h a :: t a) l) (map h l ++ flat_map t l).
Proof.
  induction l as [|a l IH]; [constructor|]. cbn [flat_map map app]. constructor.
  rewrite IH. rewrite !app_assoc. apply Permutation_app_tail. apply Permutation_app_comm.
Qed.

Lemma prod_comm_perm {A B C} (G : A -> B -> C) (la : list A) (lb : list B) :
  Permutation (flat_map (fun a => map (fun b => G a b) lb) la) (flat_map (fun b => map (fun a => G a b) la) lb).
Proof.
  induction la as [|a la IH].
  - cbn [flat_map map]. induction lb as [|b lb IHb]; [constructor|exact IHb].
  - cbn [flat_map map]. rewrite (flat_map_cons_perm (fun b => G a b) (fun b => map (fun a => G a b) la) lb).
    now apply Permutation_app_head.
Qed.

Lemma flat_map_perm_pointwise {A B} (f g : A -> list B) l :
  (forall a, In a l -> Permutation (f a) (g a)) -> Permutation (flat_map f l) (flat_map g l).
Proof.
  induction l as [|a l IH]; intros H; [constructor|]. cbn [flat_map].
  apply Permutation_app; [apply H; now left|]. apply IH. intros b Hb. apply H. now right.
Qed.

Lemma flat_map_flat_map {A B C} (f : B -> list C) (g : A -> list B) l :
  flat_map f (flat_map g l) = flat_map (fun a => flat_map f (g a)) l.
Proof. induction l as [|a l IH]; [reflexivity|]. cbn [flat_map]. now rewrite flat_map_app, IH. Qed.

Lemma list_sum_perm l l' : Permutation l l' -> list_sum l = list_sum l'.
Proof. intros P. induction P; unfold list_sum in *; cbn [fold_right] in *; lia. Qed.

(* ---------- all resolutions, as a recursion over the crossings ---------- *)
Definition opts (c : crossing) : list (nat * crossing) :=
  if is_resolved c then [(0, c)]
  else [(0, (resolve_type (fst c) false, snd c)); (1, (resolve_type (fst c) true, snd c))].
Definition ext1 (wL : nat * link) (o : nat * crossing) : nat * link := (fst o + fst wL, snd o :: snd wL).

Fixpoint res_all (l : link) : list (nat * link) :=
  match l with
  | [] => [(0, [])]
  | c :: r => flat_map (fun wL => map (ext1 wL) (opts c)) (res_all r)
  end.

Lemma crossing_num_cons c l :
  crossing_num (c :: l) = if is_resolved c then crossing_num l else S (crossing_num l).
Proof. unfold crossing_num. cbn [filter]. now destruct (is_resolved c). Qed.

Lemma flat_map_single {A B} (f : A -> B) l : flat_map (fun a => [f a]) l = map f l.
Proof. induction l as [|a l IH]; [reflexivity|]. cbn [flat_map map app]. now rewrite IH. Qed.

Lemma res_all_spec l :
  map (fun s => (weight s, resolve_by l s)) (all_lists (crossing_num l)) = res_all l.
Proof.
  induction l as [|c l IH]; [reflexivity|]. cbn [res_all]. rewrite <- IH, flat_map_map.
  rewrite crossing_num_cons. unfold opts. cbn [resolve_by].
  destruct (is_resolved c) eqn:Ec.
  - cbn [map]. now rewrite (flat_map_single (fun s => ext1 (weight s, resolve_by l s) (0, c))).
  - cbn [all_lists]. rewrite map_flat_map. apply flat_map_ext. intros s. reflexivity.
Qed.

(* (weight, circles of pre ++ resolution) *)
Definition Fp (pre : link) (wL : nat * link) : nat * partition := (fst wL, circles (pre ++ snd wL)).
Definition shift (d : nat) (wc : nat * partition) : nat * partition := (d + fst wc, snd wc).

Lemma Fp_ext1 pre wL o : Fp pre (ext1 wL o) = shift (fst o) (Fp (pre ++ [snd o]) wL).
Proof. unfold Fp, ext1, shift. cbn [fst snd]. now rewrite <- app_assoc. Qed.

Lemma res_all_perm l l' : Permutation l l' ->
  forall pre, Permutation (map (Fp pre) (res_all l)) (map (Fp pre) (res_all l')).
Proof.
  intros P. induction P as [|x l l' P IH|x y l|l l' l'' P1 IH1 P2 IH2]; intros pre.
  - apply Permutation_refl.
  - cbn [res_all]. rewrite !map_flat_map.
    assert (E : forall l0, Permutation
                  (flat_map (fun wL => map (Fp pre) (map (ext1 wL) (opts x))) (res_all l0))
                  (flat_map (fun o => map (shift (fst o)) (map (Fp (pre ++ [snd o])) (res_all l0))) (opts x))).
    { intros l0.
      rewrite (flat_map_ext _ (fun wL => map (fun o => shift (fst o) (Fp (pre ++ [snd o]) wL)) (opts x)))
        by (intros wL; rewrite map_map; apply map_ext; intros o; apply Fp_ext1).
      rewrite (prod_comm_perm (fun wL o => shift (fst o) (Fp (pre ++ [snd o]) wL)) (res_all l0) (opts x)).
      apply flat_map_perm_pointwise. intros o _. now rewrite map_map. }
    rewrite (E l), (E l'). apply flat_map_perm_pointwise. intros o _. apply Permutation_map. apply IH.
  - cbn [res_all]. rewrite !flat_map_flat_map, !map_flat_map.
    apply flat_map_perm_pointwise. intros wL _. rewrite !flat_map_map, !map_flat_map.
    rewrite (flat_map_ext (fun ox => map (Fp pre) (map (ext1 (ext1 wL ox)) (opts y)))
                          (fun ox => map (fun oy => Fp pre (ext1 (ext1 wL ox) oy)) (opts y)))
      by (intros ox; now rewrite map_map).
    rewrite (prod_comm_perm (fun ox oy => Fp pre (ext1 (ext1 wL ox) oy)) (opts x) (opts y)).
    rewrite (flat_map_ext (fun oy => map (Fp pre) (map (ext1 (ext1 wL oy)) (opts x)))
                          (fun oy => map (fun ox => Fp pre (ext1 (ext1 wL oy) ox)) (opts x)))
      by (intros oy; now rewrite map_map).
    apply flat_map_perm_pointwise. intros oy _.
    rewrite (map_ext (fun ox => Fp pre (ext1 (ext1 wL ox) oy)) (fun ox => Fp pre (ext1 (ext1 wL oy) ox)));
      [apply Permutation_refl|].
    intros ox. unfold Fp, ext1. cbn [fst snd]. f_equal; [lia|].
    apply circles_perm. apply Permutation_app_head. apply perm_swap.
  - eapply Permutation_trans; [apply IH1|apply IH2].
Qed.

(* the multiset of (weight of the state, circles of the resolution) *)
Definition W (l : link) : list (nat * partition) :=
  map (fun s => (weight s, circles (resolve_by l s))) (all_lists (crossing_num l)).

Theorem W_perm l l' : Permutation l l' -> Permutation (W l) (W l').
Proof.
  intros P.
  assert (E : forall l0, W l0 = map (Fp []) (res_all l0)).
  { intros l0. rewrite <- res_all_spec, map_map. reflexivity. }
  rewrite !E. now apply res_all_perm.
Qed.

Lemma crossing_num_perm l l' : Permutation l l' -> crossing_num l = crossing_num l'.
Proof.
  intros P. unfold crossing_num. apply Permutation_length.
  induction P as [|x l l' P IH|x y l|l l' l'' P1 IH1 P2 IH2]; cbn [filter].
  - constructor.
  - destruct (negb (is_resolved x)); [now constructor|exact IH].
  - destruct (negb (is_resolved x)), (negb (is_resolved y)); try apply Permutation_refl. apply perm_swap.
  - eapply Permutation_trans; eassumption.
Qed.

(* ---------- counting generators ---------- *)
(* selections that see a generator only through the weight of its state and its label *)
Definition sel_wx (sel : vertex * label -> bool) (sf : nat -> label -> bool) : Prop :=
  forall v x, sel (v, x) = sf (weight (v_state v)) x.

Definition cnt (red : option nat) (sf : nat -> label -> bool) (k : nat) (wc : nat * partition) : nat :=
  if fst wc =? k
  then length (filter (sf k) (labels_at (base_index red (snd wc)) (length (snd wc))))
  else 0.

Lemma count_states l red sel sf k (S : list (list bool)) : sel_wx sel sf ->
  length (filter sel (gens_of_weight (map (make_vertex l red) S) k))
  = list_sum (map (cnt red sf k) (map (fun s => (weight s, circles (resolve_by l s))) S)).
Proof.
  intros Hs. unfold gens_of_weight. induction S as [|s S IH]; [reflexivity|].
  cbn [map]. change (list_sum (?a :: ?r)) with (a + list_sum r). rewrite <- IH. clear IH.
  unfold cnt. cbn [filter fst snd]. cbn [make_vertex v_state].
  destruct (Nat.eqb_spec (weight s) k) as [E|_]; [|reflexivity].
  cbn [flat_map]. rewrite filter_app, app_length. f_equal.
  cbn [v_labels]. rewrite filter_map_comm, map_length. f_equal. apply filter_ext.
  intros x. rewrite Hs. cbn [make_vertex v_state]. now rewrite E.
Qed.

Lemma gens_at_build l red h t k :
  gens_at (build_cube l red h t) k
  = if k <=? crossing_num l then gens_of_weight (all_vertices l red) k else [].
Proof.
  unfold gens_at, build_cube. cbn [c_gens]. set (n := crossing_num l).
  destruct (Nat.leb_spec k n) as [Hk|Hk].
  - rewrite (nth_indep _ [] (gens_of_weight (all_vertices l red) 0)) by (rewrite map_length, seq_length; lia).
    rewrite (map_nth (gens_of_weight (all_vertices l red)) (seq 0 (S n)) 0 k). now rewrite seq_nth by lia.
  - apply nth_overflow. rewrite map_length, seq_length. lia.
Qed.

Lemma count_gens_W l red h t k sel sf : sel_wx sel sf ->
  count_gens (build_cube l red h t) k sel
  = if k <=? crossing_num l then list_sum (map (cnt red sf k) (W l)) else 0.
Proof.
  intros Hs. unfold count_gens. rewrite gens_at_build. destruct (k <=? crossing_num l); [|reflexivity].
  unfold all_vertices, W. now apply count_states.
Qed.

Theorem count_gens_perm l l' red h t k sel sf : Permutation l l' -> sel_wx sel sf ->
  count_gens (build_cube l' red h t) k sel = count_gens (build_cube l red h t) k sel.
Proof.
  intros P Hs. rewrite !(count_gens_W _ red h t k sel sf Hs). rewrite <- (crossing_num_perm l l' P).
  destruct (k <=? crossing_num l); [|reflexivity].
  apply list_sum_perm. apply Permutation_map. apply Permutation_sym. now apply W_perm.
Qed.

Lemma sel_wx_q q : sel_wx (fun g => Z.eqb (q_local g) q)
  (fun w x => Z.eqb (Z.of_nat (length (filter negb x)) - Z.of_nat (length (filter (fun b => b) x)) + Z.of_nat w)%Z q).
Proof. intros v x. reflexivity. Qed.

Lemma sel_wx_all : sel_wx (fun _ => true) (fun _ _ => true).
Proof. intros v x. reflexivity. Qed.
