(* Cobordism bookkeeping, part 2: the end points of a glued tangle are the labels of degree 1 of its step graph;
   the end points of Tng::connect are the symmetric difference; hence CobComp::deg is additive under
   CobComp::connect and Cob::deg under Cob::connect / connect_comp / connected. *)
From Coq Require Import List Arith Bool Lia ZArith Permutation Sorted.
Import ListNotations.
Require Import Yui.Model.Link Yui.Model.Tng Yui.Model.TngCob.
Require Import Yui.Proofs.TngPBase Yui.Proofs.TngPSegs Yui.Proofs.TngPDeg Yui.Proofs.TngPJoin Yui.Proofs.TngPStep
  Yui.Proofs.TngPSeq Yui.Proofs.TngPConn Yui.Proofs.TngPMain Yui.Proofs.TngPCob.

(* ---------- end points = labels of degree 1 ---------- *)
Lemma deg_arc_last : forall t c, tng_inv t -> In c t -> pclosed c = false ->
  deg (tsegs t) (last (pedges c) 0) = 1.
Proof.
  intros t c Hinv Hc Hcc. destruct (in_split _ _ Hc) as (l1 & l2 & ->).
  rewrite (deg_perm _ _ _ (tsegs_middle l1 c l2)), deg_app.
  apply inv_middle in Hinv. destruct Hinv as ([Nc Lc] & [Sr _] & Hd). rewrite Hcc in Lc.
  assert (Hne : pedges c <> []) by (apply len2_ne; auto).
  assert (Hh : In (last (pedges c) 0) (pedges c)) by (apply last_in; auto).
  assert (deg (tsegs (l1 ++ l2)) (last (pedges c) 0) = 0) as ->.
  { unfold deg. apply count_notin. intros Hi. apply (Hd _ Hh). apply verts_ends; auto. }
  unfold deg, segs. rewrite Hcc.
  rewrite (count_perm _ (removelast (pedges c) ++ tl (pedges c))) by apply ends_arc_segs.
  rewrite count_occ_app.
  rewrite (count_notin (removelast (pedges c))) by (apply NoDup_last_notin; auto).
  rewrite (count_nodup_in (tl (pedges c))); [lia|apply NoDup_tl; auto|].
  destruct (pedges c) as [|a [|b l]] eqn:El; cbn in Lc; try lia.
  cbn [tl]. rewrite last_cons_ne by discriminate. apply last_in. discriminate.
Qed.

Lemma endpts_cons : forall c t, tng_endpts (c :: t) =
  (match p_ends c with Some (a, b) => [a; b] | None => [] end) ++ tng_endpts t.
Proof. reflexivity. Qed.

Lemma endpts_in_verts : forall t v, In v (tng_endpts t) ->
  exists c, In c t /\ pclosed c = false /\ is_end c v.
Proof.
  induction t as [|c t IH]; intros v Hv; [contradiction|]. rewrite endpts_cons in Hv.
  apply in_app_or in Hv. destruct Hv as [Hv|Hv].
  - unfold p_ends in Hv. destruct (pclosed c) eqn:Ec; [contradiction|]. exists c. split; [left; auto|]. split; auto.
    unfold is_end. destruct Hv as [<-|[<-|[]]]; auto.
  - destruct (IH v Hv) as (d & Hd & H1 & H2). exists d. split; [right; auto|auto].
Qed.

Lemma endpts_of_arc : forall t c v, In c t -> pclosed c = false -> is_end c v -> In v (tng_endpts t).
Proof.
  induction t as [|d t IH]; intros c v Hc Hcc He; [contradiction|]. rewrite endpts_cons. apply in_or_app.
  destruct Hc as [->|Hc].
  - left. unfold p_ends. rewrite Hcc. destruct He as [->| ->]; cbn; auto.
  - right. eapply IH; eauto.
Qed.

Lemma endpts_nodup : forall t, tng_inv t -> NoDup (tng_endpts t).
Proof.
  induction t as [|c t IH]; intros Hinv; [constructor|]. apply inv_cons in Hinv. destruct Hinv as (Sc & Ir & Hd).
  rewrite endpts_cons. apply NoDup_app_intro; [|apply IH; auto|].
  - unfold p_ends. destruct (pclosed c) eqn:Ec; [constructor|]. destruct Sc as [Nc Lc]. rewrite Ec in Lc.
    constructor; [|constructor; [intros []|constructor]]. intros [E|[]].
    apply (NoDup_last_notin (pedges c) 0 Nc (len2_ne _ Lc)). rewrite E, <- (hd_removelast _ 0 Lc).
    apply hd_in. apply removelast_ne; auto.
  - intros v H1 H2. destruct (endpts_in_verts t v H2) as (d & Hd' & _ & He).
    apply (Hd v).
    + unfold p_ends in H1. destruct (pclosed c); [contradiction|].
      destruct H1 as [<-|[<-|[]]]; [apply hd_in|apply last_in]; apply simple_ne; auto.
    + apply in_verts. exists d. split; auto. apply is_end_in; auto.
      destruct Ir as [Hs _]. rewrite Forall_forall in Hs. auto.
Qed.

Lemma endpts_deg1 : forall t v, tng_inv t -> (In v (tng_endpts t) <-> deg (tsegs t) v = 1).
Proof.
  intros t v Hinv. split.
  - intros Hv. destruct (endpts_in_verts t v Hv) as (c & Hc & Hcc & [->| ->]);
      [apply deg_arc_hd|apply deg_arc_last]; auto.
  - intros Hd. assert (Hv : In v (verts t)).
    { apply verts_ends; [apply Hinv|]. apply (count_occ_In Nat.eq_dec). unfold deg in Hd. lia. }
    apply in_verts in Hv. destruct Hv as (c & Hc & Hvc).
    destruct Hinv as [Hs Hn]. pose proof Hs as Hs'. rewrite Forall_forall in Hs'.
    pose proof (deg_tsegs_ge t c v Hc) as Hge.
    destruct (pclosed c) eqn:Ec.
    + pose proof (deg_closed_ge2 c v (Hs' c Hc) Ec Hvc). lia.
    + destruct (end_or_interior _ _ Hvc) as [E|[E|[H1 H2]]].
      * eapply endpts_of_arc; eauto. left; auto.
      * eapply endpts_of_arc; eauto. right; auto.
      * pose proof (deg_arc_interior_ge2 c v Ec H1 H2). lia.
Qed.

Lemma endpts_length : forall t, length (tng_endpts t) = 2 * tng_euler_num t.
Proof.
  induction t as [|c t IH]; [reflexivity|]. rewrite endpts_cons, app_length, IH.
  assert (Ee : tng_euler_num (c :: t) = (if pclosed c then 0 else 1) + tng_euler_num t).
  { unfold tng_euler_num. cbn [filter]. unfold p_is_arc at 1. destruct (pclosed c); reflexivity. }
  rewrite Ee. unfold p_ends. destruct (pclosed c); cbn [length]; lia.
Qed.

Lemma endpts_set_inv : forall t, tng_inv t -> endpts_set t = tng_endpts t.
Proof. intros t Hinv. unfold endpts_set. apply nodup_fixed_point. apply endpts_nodup; auto. Qed.

(* ---------- the end points after gluing ---------- *)
Lemma nodup_same_length : forall l l' : list nat, NoDup l -> NoDup l' -> (forall v, In v l <-> In v l') ->
  length l = length l'.
Proof. intros l l' N N' H. apply Permutation_length. apply NoDup_Permutation; auto. Qed.

Lemma filter_split_length : forall (f : nat -> bool) l,
  length l = length (filter f l) + length (filter (fun x => negb (f x)) l).
Proof. intros f l. induction l as [|x l IH]; [reflexivity|]. cbn [filter]. destruct (f x); cbn [negb length]; lia. Qed.

Lemma mem_iff : forall e l, mem e l = true <-> In e l.
Proof.
  intros e l. unfold mem. rewrite existsb_exists. split.
  - intros (x & Hx & E). apply Nat.eqb_eq in E. subst. auto.
  - intros Hi. exists e. split; auto. apply Nat.eqb_refl.
Qed.
Lemma mem_false_iff : forall e l, mem e l = false <-> ~ In e l.
Proof. intros e l. rewrite <- mem_iff. destruct (mem e l); split; congruence. Qed.

Lemma glued_endpts_length : forall t1 t2 t', tng_inv t1 -> tng_inv t2 -> tng_inv t' ->
  Permutation (tsegs t') (tsegs t1 ++ tsegs t2) -> deg_le2 (tsegs t1 ++ tsegs t2) ->
  length (tng_endpts t') + 2 * length (filter (fun v => mem v (tng_endpts t2)) (tng_endpts t1))
  = length (tng_endpts t1) + length (tng_endpts t2).
Proof.
  intros t1 t2 t' I1 I2 I' Hp Hd.
  set (E1 := tng_endpts t1). set (E2 := tng_endpts t2).
  pose proof (endpts_nodup t1 I1) as N1. pose proof (endpts_nodup t2 I2) as N2. fold E1 in N1. fold E2 in N2.
  set (A1 := filter (fun v => negb (mem v E2)) E1). set (A2 := filter (fun v => negb (mem v E1)) E2).
  set (B1 := filter (fun v => mem v E2) E1). set (B2 := filter (fun v => mem v E1) E2).
  assert (HE1 : forall v, In v E1 <-> deg (tsegs t1) v = 1) by (intros v; apply endpts_deg1; auto).
  assert (HE2 : forall v, In v E2 <-> deg (tsegs t2) v = 1) by (intros v; apply endpts_deg1; auto).
  assert (Hlen : length (tng_endpts t') = length (A1 ++ A2)).
  { apply nodup_same_length.
    - apply endpts_nodup; auto.
    - apply NoDup_app_intro; [apply NoDup_filter; auto|apply NoDup_filter; auto|].
      intros v H1 H2. unfold A1, A2 in *. apply filter_In in H1, H2. destruct H1 as [H1 _], H2 as [_ H2].
      apply negb_true_iff, mem_false_iff in H2. contradiction.
    - intros v. rewrite (endpts_deg1 t' v I'), (deg_perm _ _ v Hp), deg_app.
      pose proof (Hd v) as Hb. rewrite deg_app in Hb.
      rewrite in_app_iff. unfold A1, A2. rewrite !filter_In, !negb_true_iff, !mem_false_iff, !HE1, !HE2. lia. }
  assert (Hb : length B1 = length B2).
  { apply nodup_same_length; [apply NoDup_filter; auto|apply NoDup_filter; auto|].
    intros v. unfold B1, B2. rewrite !filter_In, !mem_iff. tauto. }
  assert (S1 : length E1 = length B1 + length A1) by (apply (filter_split_length (fun v => mem v E2) E1)).
  assert (S2 : length E2 = length B2 + length A2) by (apply (filter_split_length (fun v => mem v E1) E2)).
  rewrite app_length in Hlen. lia.
Qed.

(* ---------- CobComp::connect: the degree is additive ---------- *)
Lemma half_double : forall k, (2 * k) / 2 = k.
Proof. intros k. rewrite Nat.mul_comm. apply Nat.div_mul. lia. Qed.

Theorem cc_connect_deg : forall c o r, cc_connect c o = Some r ->
  tng_inv (csrc c) -> tng_inv (csrc o) -> deg_le2 (tsegs (csrc c) ++ tsegs (csrc o)) ->
  exists d1 d2, cc_deg c = Some d1 /\ cc_deg o = Some d2 /\ cc_deg r = Some (d1 + d2)%Z /\
    tng_ok (csrc r) /\ Permutation (tsegs (csrc r)) (tsegs (csrc c) ++ tsegs (csrc o)).
Proof.
  intros c o r E I1 I2 Hd.
  destruct (cc_connect_euler c o r E) as (x1 & x2 & E1 & E2 & Er & Ha & Es & Et & Edx & Edy).
  destruct (tng_connect_ok (csrc c) (csrc o) I1 (proj1 I2) Hd) as (t' & Et' & Ot' & Pt').
  rewrite Es in Et'. inversion Et'; subst t'; clear Et'.
  pose proof (glued_endpts_length (csrc c) (csrc o) (csrc r) I1 I2 (proj1 Ot') Pt' Hd) as Hlen.
  unfold cc_deg. rewrite E1, E2, Er.
  rewrite (endpts_set_inv _ I1), (endpts_set_inv _ I2), (endpts_set_inv _ (proj1 Ot')).
  unfold shared_endpts in *. rewrite (endpts_set_inv _ I1), (endpts_set_inv _ I2) in *.
  set (a := length (filter (fun v => mem v (tng_endpts (csrc o))) (tng_endpts (csrc c)))) in *.
  rewrite (endpts_length (csrc c)), (endpts_length (csrc o)) in *.
  set (k1 := tng_euler_num (csrc c)) in *. set (k2 := tng_euler_num (csrc o)) in *.
  assert (Hm : length (tng_endpts (csrc r)) = 2 * (k1 + k2 - a)) by lia.
  rewrite Hm, !half_double. unfold cc_ndots. rewrite Edx, Edy.
  eexists. eexists. split; [reflexivity|]. split; [reflexivity|]. split; [|split; auto].
  f_equal. lia.
Qed.

(* ---------- Cob ---------- *)
Definition ssegs (s : list cobcomp) : list (nat * nat) := flat_map (fun c => tsegs (csrc c)) s.
Definition cob_wf (s : list cobcomp) : Prop := Forall (fun c => tng_inv (csrc c)) s /\ deg_le2 (ssegs s).

Lemma cob_wf_perm : forall a b, Permutation a b -> cob_wf a -> cob_wf b.
Proof.
  intros a b Hp [Hf Hd]. split.
  - rewrite Forall_forall in *. intros x Hx. apply Hf. eapply Permutation_in; [apply Permutation_sym; exact Hp|exact Hx].
  - eapply deg_le2_perm; [|exact Hd]. unfold ssegs. apply Permutation_flat_map. exact Hp.
Qed.

Lemma sum_opt_perm : forall a b, Permutation a b -> sum_opt a = sum_opt b.
Proof.
  intros a b Hp. induction Hp; cbn [sum_opt].
  - reflexivity.
  - destruct x; [rewrite IHHp|]; reflexivity.
  - destruct x as [x|], y as [y|]; try reflexivity; destruct (sum_opt l); try reflexivity. f_equal. lia.
  - congruence.
Qed.

Lemma sum_opt_app : forall a b, sum_opt (a ++ b) =
  match sum_opt a, sum_opt b with Some x, Some y => Some (x + y)%Z | _, _ => None end.
Proof.
  induction a as [|[x|] a IH]; intros b; cbn [app sum_opt].
  - destruct (sum_opt b); reflexivity.
  - rewrite IH. destruct (sum_opt a), (sum_opt b); try reflexivity. f_equal. lia.
  - reflexivity.
Qed.

Definition degs (s : list cobcomp) : option Z := sum_opt (map cc_deg s).

Lemma degs_perm : forall a b, Permutation a b -> degs a = degs b.
Proof. intros a b Hp. unfold degs. apply sum_opt_perm. apply Permutation_map. exact Hp. Qed.

Lemma cc_isort_perm : forall l, Permutation (cc_isort l) l.
Proof.
  induction l as [|x l IH]; [constructor|]. cbn [cc_isort fold_right].
  assert (Hi : forall y m, Permutation (cc_ins y m) (y :: m)).
  { intros y m. induction m as [|z m IHm]; cbn [cc_ins]; [apply Permutation_refl|].
    destruct (cc_le y z); [apply Permutation_refl|].
    eapply perm_trans; [apply perm_skip; exact IHm|apply perm_swap]. }
  eapply perm_trans; [apply Hi|]. constructor. exact IH.
Qed.
Lemma cob_sort_perm : forall cs t, cob_sort cs = Some t -> Permutation t cs.
Proof.
  intros cs t. unfold cob_sort. destruct (_ && _); [discriminate|]. intros E. inversion E. apply cc_isort_perm.
Qed.

(* Cob::_connect_comp with a frame of untouched components *)
Lemma connect_comp_loop_deg : forall rest c kept fr res, cob_wf (c :: rest ++ kept ++ fr) ->
  connect_comp_loop c rest kept = Some res ->
  cob_wf (res ++ fr) /\ degs (res ++ fr) = degs (c :: rest ++ kept ++ fr).
Proof.
  induction rest as [|c2 r IH]; intros c kept fr res Hwf; cbn [connect_comp_loop].
  - intros E. inversion E; subst res; clear E. cbn [app] in *.
    assert (Hp : Permutation ((kept ++ [c]) ++ fr) (c :: kept ++ fr)).
    { rewrite <- app_assoc. cbn [app]. apply Permutation_sym. apply Permutation_middle. }
    split; [eapply cob_wf_perm; [apply Permutation_sym; exact Hp|exact Hwf]|apply degs_perm; exact Hp].
  - destruct (cc_is_connectable c c2).
    + destruct (cc_connect c c2) as [c'|] eqn:Ec; [|discriminate]. intros E.
      destruct Hwf as [Hf Hd]. inversion Hf as [|? ? I1 Hf1]; subst. cbn [app] in Hf1.
      inversion Hf1 as [|? ? I2 Hf2]; subst.
      assert (Hd12 : deg_le2 (tsegs (csrc c) ++ tsegs (csrc c2))).
      { unfold ssegs in Hd. cbn [app flat_map] in Hd. rewrite app_assoc in Hd. apply deg_le2_app_l in Hd. exact Hd. }
      destruct (cc_connect_deg c c2 c' Ec I1 I2 Hd12) as (d1 & d2 & D1 & D2 & D' & O' & P').
      destruct (IH c' kept fr res) as [W R]; auto.
      { split; [constructor; [apply O'|exact Hf2]|].
        eapply deg_le2_perm; [|exact Hd]. unfold ssegs. cbn [app flat_map]. rewrite app_assoc.
        apply Permutation_app_tail. apply Permutation_sym. exact P'. }
      split; auto. rewrite R. unfold degs. cbn [app map sum_opt]. rewrite D1, D2, D'.
      destruct (sum_opt _); [f_equal; lia|reflexivity].
    + intros E.
      assert (Hp : Permutation (c :: r ++ (kept ++ [c2]) ++ fr) (c :: (c2 :: r) ++ kept ++ fr)).
      { constructor. cbn [app]. apply Permutation_sym.
        replace (r ++ (kept ++ [c2]) ++ fr) with ((r ++ kept) ++ c2 :: fr) by (rewrite <- !app_assoc; reflexivity).
        apply Permutation_cons_app. rewrite <- app_assoc. apply Permutation_refl. }
      destruct (IH c (kept ++ [c2]) fr res) as [W R]; auto.
      { eapply cob_wf_perm; [apply Permutation_sym; exact Hp|exact Hwf]. }
      split; auto. rewrite R. apply degs_perm. exact Hp.
Qed.

Lemma cob_connect_loop_deg : forall other s res, cob_wf (s ++ other) ->
  cob_connect_loop s other = Some res -> cob_wf res /\ degs res = degs (s ++ other).
Proof.
  induction other as [|c r IH]; intros s res Hwf; cbn [cob_connect_loop].
  - intros E. inversion E; subst. rewrite app_nil_r in *. auto.
  - unfold cob_connect_comp_raw. destruct (connect_comp_loop c s []) as [s'|] eqn:Ec; [|discriminate]. intros E.
    assert (Hp : Permutation (c :: s ++ [] ++ r) (s ++ c :: r)) by (cbn [app]; apply Permutation_middle).
    destruct (connect_comp_loop_deg s c [] r s') as [W R]; auto.
    { eapply cob_wf_perm; [apply Permutation_sym; exact Hp|exact Hwf]. }
    destruct (IH s' res W E) as [W' R']. split; auto. rewrite R', R. apply degs_perm. exact Hp.
Qed.

(* Cob::connect / Cob::connected: the degree is additive (None = some nbdr_comps panics) *)
Theorem cob_connect_deg : forall a b c, cob_wf (a ++ b) -> cob_connect a b = Some c ->
  cob_wf c /\
  cob_deg c = match cob_deg a, cob_deg b with Some x, Some y => Some (x + y)%Z | _, _ => None end.
Proof.
  intros a b c Hwf. unfold cob_connect.
  destruct (cob_connect_loop a b) as [cs|] eqn:El; [|discriminate]. intros Es.
  destruct (cob_connect_loop_deg b a cs Hwf El) as [W R].
  pose proof (cob_sort_perm _ _ Es) as Hp. split.
  - eapply cob_wf_perm; [apply Permutation_sym; exact Hp|exact W].
  - change (cob_deg c) with (degs c). rewrite (degs_perm _ _ Hp), R. unfold degs. rewrite map_app. apply sum_opt_app.
Qed.

(* Cob::connect_comp *)
Theorem cob_connect_comp_deg : forall s c r, cob_wf (c :: s) -> cob_connect_comp s c = Some r ->
  cob_wf r /\
  cob_deg r = match cob_deg s, cc_deg c with Some x, Some y => Some (x + y)%Z | _, _ => None end.
Proof.
  intros s c r Hwf. unfold cob_connect_comp, cob_connect_comp_raw.
  destruct (connect_comp_loop c s []) as [cs|] eqn:El; [|discriminate]. intros Es.
  destruct (connect_comp_loop_deg s c [] [] cs) as [W R]; auto.
  { cbn [app]. rewrite app_nil_r. exact Hwf. }
  rewrite !app_nil_r in *. cbn [app] in R.
  pose proof (cob_sort_perm _ _ Es) as Hp. split.
  - eapply cob_wf_perm; [apply Permutation_sym; exact Hp|exact W].
  - change (cob_deg r) with (degs r). rewrite (degs_perm _ _ Hp), R. unfold degs, cob_deg. cbn [map sum_opt].
    destruct (cc_deg c), (sum_opt (map cc_deg s)); try reflexivity. f_equal. lia.
Qed.
