(* Vertical composition, part 10: the normal form of a Cob.  The derived Ord of CobComp (lexicographic: src, tgt,
   genus, dots; tangles compared component by component by (is_circle, min_edge)) is a total preorder; on the components
   of a cobordism with pairwise disjoint source tangles and pairwise disjoint target tangles two components that
   compare Equal are equal; hence the sorted Vec is determined by the multiset of the components, and the identity /
   inverse laws of Cob::stack hold as EQUALITIES of the normalised representation. *)
From Coq Require Import List Arith Bool Lia ZArith Permutation Sorted.
Import ListNotations.
Require Import Yui.Model.Link Yui.Model.Tng Yui.Model.TngCob Yui.Model.TngStack.
Require Import Yui.Proofs.TngPBase Yui.Proofs.TngPSegs Yui.Proofs.TngPDeg Yui.Proofs.TngPJoin Yui.Proofs.TngPStep
  Yui.Proofs.TngPSeq Yui.Proofs.TngPConn Yui.Proofs.TngPMain Yui.Proofs.TngPCob Yui.Proofs.TngPCobDeg
  Yui.Proofs.TngPStackBase Yui.Proofs.TngPStackBfs Yui.Proofs.TngPStackWf Yui.Proofs.TngPStackDeg
  Yui.Proofs.TngPStackAssoc Yui.Proofs.TngPStackId Yui.Proofs.TngPStackIdL Yui.Proofs.TngPStackIdR Yui.Proofs.TngPStackInv.

(* ---------- comparison functions ---------- *)
Definition cmp_ok {A : Type} (cmp : A -> A -> comparison) : Prop :=
  (forall x y, cmp y x = CompOpp (cmp x y)) /\
  (forall x y z, cmp x y = Eq -> cmp x z = cmp y z) /\
  (forall x y z, cmp x y = Lt -> cmp y z = Lt -> cmp x z = Lt).

Lemma cmp_ok_eq_r : forall (A : Type) (cmp : A -> A -> comparison) x y z, cmp_ok cmp -> cmp y z = Eq -> cmp x y = cmp x z.
Proof.
  intros A cmp x y z (Ha & He & _) E.
  assert (E' : cmp z y = Eq) by (rewrite Ha, E; reflexivity).
  pose proof (He z y x E') as H. rewrite (Ha x z), (Ha x y) in H.
  destruct (cmp x z), (cmp x y); cbn in H; congruence.
Qed.

Lemma nat_cmp_ok : cmp_ok Nat.compare.
Proof.
  split; [|split].
  - intros x y. apply Nat.compare_antisym.
  - intros x y z E. apply Nat.compare_eq in E. subst. reflexivity.
  - intros x y z H1 H2. apply Nat.compare_lt_iff in H1, H2. apply Nat.compare_lt_iff. lia.
Qed.

Lemma proj_cmp_ok : forall (A B : Type) (f : A -> B) cmp, cmp_ok cmp -> cmp_ok (fun x y => cmp (f x) (f y)).
Proof. intros A B f cmp (Ha & He & Ht). split; [|split]; intros; eauto. Qed.

Lemma lex_cmp_ok : forall (A : Type) (c1 c2 : A -> A -> comparison), cmp_ok c1 -> cmp_ok c2 ->
  cmp_ok (fun x y => cmp_then (c1 x y) (c2 x y)).
Proof.
  intros A c1 c2 O1 O2. pose proof O1 as (A1 & E1 & T1). pose proof O2 as (A2 & E2 & T2). split; [|split].
  - intros x y. rewrite A1, A2. destruct (c1 x y); reflexivity.
  - intros x y z H. destruct (c1 x y) eqn:C; cbn in H; try discriminate.
    rewrite (E1 x y z C), (E2 x y z H). reflexivity.
  - intros x y z H1 H2. destruct (c1 x y) eqn:C1; cbn in H1; try discriminate.
    + rewrite (E1 x y z C1). destruct (c1 y z) eqn:C2; cbn in H2; try discriminate; cbn; auto. eapply T2; eauto.
    + destruct (c1 y z) eqn:C2; cbn in H2; try discriminate.
      * rewrite <- (cmp_ok_eq_r A c1 x y z O1 C2), C1. reflexivity.
      * rewrite (T1 x y z C1 C2). reflexivity.
Qed.

Fixpoint lcmp {A : Type} (c : A -> A -> comparison) (a b : list A) : comparison :=
  match a, b with
  | [], [] => Eq
  | [], _ :: _ => Lt
  | _ :: _, [] => Gt
  | x :: a', y :: b' => cmp_then (c x y) (lcmp c a' b')
  end.

Lemma lcmp_ok : forall (A : Type) (c : A -> A -> comparison), cmp_ok c -> cmp_ok (lcmp c).
Proof.
  intros A c Oc. pose proof Oc as (Ac & Ec & Tc).
  assert (HA : forall a b, lcmp c b a = CompOpp (lcmp c a b)).
  { induction a as [|x a IH]; intros [|y b]; cbn; auto. rewrite Ac, IH. destruct (c x y); reflexivity. }
  assert (HE : forall a b z, lcmp c a b = Eq -> lcmp c a z = lcmp c b z).
  { induction a as [|x a IH]; intros [|y b] z H; cbn in H; try discriminate; auto.
    destruct (c x y) eqn:C; cbn in H; try discriminate. destruct z as [|w z]; cbn; auto.
    rewrite (Ec x y w C), (IH b z H). reflexivity. }
  split; [exact HA|]. split; [exact HE|].
  induction x as [|u x IH]; intros [|v y] [|w z] H1 H2; cbn in *; try discriminate; auto.
  destruct (c u v) eqn:C1; cbn in H1; try discriminate.
  - rewrite (Ec u v w C1). destruct (c v w) eqn:C2; cbn in H2; try discriminate; cbn; auto. eapply IH; eauto.
  - destruct (c v w) eqn:C2; cbn in H2; try discriminate.
    + rewrite <- (cmp_ok_eq_r A c u v w Oc C2), C1. reflexivity.
    + rewrite (Tc u v w C1 C2). reflexivity.
Qed.

(* TngComp::cmp *)
Definition b2n (b : bool) : nat := if b then 1 else 0.
Definition elem_cmp (x y : path) : comparison :=
  cmp_then (Nat.compare (b2n (pclosed x)) (b2n (pclosed y))) (Nat.compare (minv x) (minv y)).

Lemma tng_cmp_total_lcmp : forall a b, tng_cmp_total a b = lcmp elem_cmp a b.
Proof.
  induction a as [|x a IH]; intros [|y b]; cbn [tng_cmp_total lcmp]; auto. rewrite IH. f_equal.
  unfold elem_cmp. destruct (pclosed x), (pclosed y); reflexivity.
Qed.

Lemma elem_cmp_ok : cmp_ok elem_cmp.
Proof.
  apply (lex_cmp_ok path (fun x y => Nat.compare (b2n (pclosed x)) (b2n (pclosed y))) (fun x y => Nat.compare (minv x) (minv y)));
    apply (proj_cmp_ok path nat); apply nat_cmp_ok.
Qed.

Lemma cc_cmp_ok : cmp_ok cc_cmp.
Proof.
  unfold cc_cmp.
  apply (lex_cmp_ok cobcomp (fun c d => tng_cmp_total (csrc c) (csrc d))).
  { assert (H : cmp_ok (fun c d => lcmp elem_cmp (csrc c) (csrc d))) by (apply (proj_cmp_ok cobcomp tng csrc); apply lcmp_ok; apply elem_cmp_ok).
    destruct H as (H1 & H2 & H3). split; [|split]; intros; rewrite ?tng_cmp_total_lcmp in *; eauto. }
  apply (lex_cmp_ok cobcomp (fun c d => tng_cmp_total (ctgt c) (ctgt d))).
  { assert (H : cmp_ok (fun c d => lcmp elem_cmp (ctgt c) (ctgt d))) by (apply (proj_cmp_ok cobcomp tng ctgt); apply lcmp_ok; apply elem_cmp_ok).
    destruct H as (H1 & H2 & H3). split; [|split]; intros; rewrite ?tng_cmp_total_lcmp in *; eauto. }
  apply (lex_cmp_ok cobcomp (fun c d => Nat.compare (cgenus c) (cgenus d))); [apply (proj_cmp_ok cobcomp nat); apply nat_cmp_ok|].
  apply (lex_cmp_ok cobcomp (fun c d => Nat.compare (cdx c) (cdx d))); apply (proj_cmp_ok cobcomp nat); apply nat_cmp_ok.
Qed.

(* ---------- the stable sort sorts, and sorted permutations agree ---------- *)
Definition cob_sorted (l : list cobcomp) : Prop := StronglySorted (fun a b => cc_le a b = true) l.

Lemma cc_le_total : forall x y, cc_le x y = false -> cc_le y x = true.
Proof.
  intros x y. unfold cc_le. destruct cc_cmp_ok as (Ha & _). rewrite (Ha x y). destruct (cc_cmp x y); cbn; congruence.
Qed.

Lemma cc_le_trans : forall x y z, cc_le x y = true -> cc_le y z = true -> cc_le x z = true.
Proof.
  intros x y z. unfold cc_le. pose proof cc_cmp_ok as O. destruct O as (Ha & He & Ht).
  destruct (cc_cmp x y) eqn:C1; try discriminate; intros _.
  - rewrite (He x y z C1). auto.
  - destruct (cc_cmp y z) eqn:C2; try discriminate; intros _.
    + rewrite <- (cmp_ok_eq_r _ cc_cmp x y z cc_cmp_ok C2), C1. reflexivity.
    + rewrite (Ht x y z C1 C2). reflexivity.
Qed.

Lemma cc_ins_sorted : forall x l, cob_sorted l -> cob_sorted (cc_ins x l).
Proof.
  intros x l. induction l as [|y r IH]; intros Hs; cbn [cc_ins].
  - repeat constructor.
  - inversion Hs as [|? ? Sr Hle]; subst. destruct (cc_le x y) eqn:E.
    + constructor; [exact Hs|]. constructor; [exact E|]. rewrite Forall_forall in *. intros z Hz.
      eapply cc_le_trans; [exact E|apply Hle; exact Hz].
    + constructor; [apply IH; exact Sr|]. rewrite Forall_forall in *. intros z Hz.
      assert (Hz' : In z (x :: r)).
      { assert (P : forall m, Permutation (cc_ins x m) (x :: m)).
        { induction m as [|w m IHm]; cbn [cc_ins]; [apply Permutation_refl|]. destruct (cc_le x w); [apply Permutation_refl|].
          eapply perm_trans; [apply perm_skip; exact IHm|apply perm_swap]. }
        eapply Permutation_in; [apply P|exact Hz]. }
      destruct Hz' as [<-|Hz']; [apply cc_le_total; exact E|apply Hle; exact Hz'].
Qed.

Lemma cc_isort_sorted : forall l, cob_sorted (cc_isort l).
Proof. induction l as [|x l IH]; [constructor|]. cbn [cc_isort fold_right]. apply cc_ins_sorted. exact IH. Qed.

Theorem cob_sorted_perm_eq : forall l1 l2, cob_sorted l1 -> cob_sorted l2 -> Permutation l1 l2 ->
  (forall x y, In x l1 -> In y l1 -> cc_cmp x y = Eq -> x = y) -> l1 = l2.
Proof.
  induction l1 as [|x r1 IH]; intros l2 S1 S2 Hp Hanti.
  - apply Permutation_nil in Hp. auto.
  - destruct l2 as [|y r2]; [apply Permutation_sym, Permutation_nil in Hp; discriminate|].
    inversion S1 as [|? ? Sr1 H1]; subst. inversion S2 as [|? ? Sr2 H2]; subst. rewrite Forall_forall in H1, H2.
    assert (Hy : In y (x :: r1)) by (eapply Permutation_in; [apply Permutation_sym; exact Hp|left; reflexivity]).
    assert (Hx : In x (y :: r2)) by (eapply Permutation_in; [exact Hp|left; reflexivity]).
    assert (E : x = y).
    { destruct Hy as [Hy|Hy]; [exact Hy|]. destruct Hx as [Hx|Hx]; [symmetry; exact Hx|].
      apply Hanti; [left; reflexivity|right; exact Hy|].
      pose proof (H1 y Hy) as L1. pose proof (H2 x Hx) as L2. unfold cc_le in L1, L2.
      destruct cc_cmp_ok as (Ha & _). rewrite (Ha x y) in L2. destruct (cc_cmp x y); cbn in *; congruence. }
    subst y. f_equal. apply IH; auto.
    + eapply Permutation_cons_inv; exact Hp.
    + intros a b Ha Hb. apply Hanti; right; assumption.
Qed.

(* ---------- components that compare Equal ---------- *)
Lemma cmp_then_eq : forall a b, cmp_then a b = Eq -> a = Eq /\ b = Eq.
Proof. intros [| |] b; cbn; intros H; try discriminate; auto. Qed.

Lemma elem_cmp_eq : forall p q, elem_cmp p q = Eq -> minv p = minv q.
Proof. intros p q H. apply cmp_then_eq in H. destruct H as [_ H]. apply Nat.compare_eq in H. exact H. Qed.

Lemma minv_in : forall p, simple p -> In (minv p) (pedges p).
Proof. intros p Sp. apply (minv_spec p (simple_ne p Sp)). Qed.

Lemma head_eq_same_owner : forall sel (a : list cobcomp) x y, tng_inv (flat sel a) -> In x a -> In y a ->
  sel x <> [] -> tng_cmp_total (sel x) (sel y) = Eq -> x = y.
Proof.
  intros sel a x y Hi Hx Hy Hne Hc. rewrite tng_cmp_total_lcmp in Hc.
  destruct (sel x) as [|p r] eqn:Ex; [congruence|]. destruct (sel y) as [|q r'] eqn:Ey; [discriminate|].
  cbn [lcmp] in Hc. apply cmp_then_eq in Hc. destruct Hc as [Hc _]. apply elem_cmp_eq in Hc.
  assert (Sp : simple p) by (apply (inv_simple_in _ _ Hi); apply (flat_in sel a x); auto; rewrite Ex; left; reflexivity).
  assert (Sq : simple q) by (apply (inv_simple_in _ _ Hi); apply (flat_in sel a y); auto; rewrite Ey; left; reflexivity).
  apply (owner_unique' sel a x y (minv p) Hi Hx Hy).
  - apply in_verts. exists p. split; [rewrite Ex; left; reflexivity|apply minv_in; exact Sp].
  - apply in_verts. exists q. split; [rewrite Ey; left; reflexivity|rewrite Hc; apply minv_in; exact Sq].
Qed.

Lemma tng_cmp_nil : forall t, tng_cmp_total [] t = Eq -> t = [].
Proof. intros [|p r]; cbn; congruence. Qed.

Theorem cc_cmp_eq_in : forall a x y, tng_inv (flat csrc a) -> tng_inv (flat ctgt a) -> In x a -> In y a ->
  cc_cmp x y = Eq -> x = y.
Proof.
  intros a x y Is It Hx Hy Hc. unfold cc_cmp in Hc.
  apply cmp_then_eq in Hc. destruct Hc as [C1 Hc]. apply cmp_then_eq in Hc. destruct Hc as [C2 Hc].
  apply cmp_then_eq in Hc. destruct Hc as [C3 Hc]. apply cmp_then_eq in Hc. destruct Hc as [C4 C5].
  apply Nat.compare_eq in C3, C4, C5.
  destruct (csrc x) as [|p r] eqn:Ex.
  - destruct (ctgt x) as [|q r'] eqn:Et.
    + apply tng_cmp_nil in C1, C2. destruct x, y. cbn in *. subst. reflexivity.
    + apply (head_eq_same_owner ctgt a x y It Hx Hy); [rewrite Et; discriminate|rewrite Et; exact C2].
  - apply (head_eq_same_owner csrc a x y Is Hx Hy); [rewrite Ex; discriminate|rewrite Ex; exact C1].
Qed.

(* a normalised cobordism is the only sorted arrangement of its components *)
Theorem cob_normal_form_unique : forall a c, tng_inv (flat csrc a) -> tng_inv (flat ctgt a) ->
  cob_sorted a -> cob_sorted c -> Permutation c a -> c = a.
Proof.
  intros a c Is It Sa Sc Hp. symmetry. apply cob_sorted_perm_eq; auto.
  - apply Permutation_sym. exact Hp.
  - intros x y Hx Hy. apply (cc_cmp_eq_in a); auto.
Qed.

(* ---------- the laws as equalities ---------- *)
Lemma cob_stack_sorted : forall a b c, a <> [] -> b <> [] -> cob_stack a b = Some c -> cob_sorted c.
Proof.
  intros a b c Na Nb. unfold cob_stack, cob_stack_fuel. apply is_nil_false in Na, Nb. rewrite Na, Nb.
  destruct (stack_loop _ a b []) as [[out|]|]; try discriminate. unfold cob_sort. destruct (_ && _); [discriminate|].
  intros E. inversion E. apply cc_isort_sorted.
Qed.

Theorem cob_stack_id_l_eq : forall a, cob_okl a -> tng_inv (flat ctgt a) -> cob_sorted a ->
  exists S ids, cob_src a = Some S /\ cob_id S = Some ids /\ cob_stack ids a = Some a.
Proof.
  intros a OK It Sa. destruct (cob_stack_id_l a OK) as (S & ids & c & E1 & E2 & E3 & Hp). exists S, ids.
  split; [exact E1|]. split; [exact E2|]. rewrite E3. f_equal.
  destruct ids as [|i0 ids'].
  { cbn in E3. inversion E3. reflexivity. }
  destruct a as [|a0 a'].
  { apply Permutation_sym, Permutation_nil in Hp. exact Hp. }
  apply cob_normal_form_unique; auto; [apply OK|]. eapply cob_stack_sorted; [| |exact E3]; discriminate.
Qed.

Theorem cob_stack_id_r_eq : forall a, cob_okr a -> cob_sorted a ->
  exists T ids, cob_tgt a = Some T /\ cob_id T = Some ids /\ cob_stack a ids = Some a.
Proof.
  intros a OK Sa. destruct (cob_stack_id_r a OK) as (T & ids & c & E1 & E2 & E3 & Hp). exists T, ids.
  split; [exact E1|]. split; [exact E2|]. rewrite E3. f_equal.
  destruct a as [|a0 a'].
  { apply Permutation_sym, Permutation_nil in Hp. exact Hp. }
  destruct ids as [|i0 ids'].
  { cbn in E3. inversion E3. reflexivity. }
  destruct OK as (Is & It & _).
  apply cob_normal_form_unique; auto. eapply cob_stack_sorted; [| |exact E3]; discriminate.
Qed.

Lemma cob_id_sorted : forall U ids, cob_id U = Some ids -> cob_sorted ids.
Proof.
  intros U ids. unfold cob_id, cob_new, cob_sort. destruct (_ && _); [discriminate|]. intros E. inversion E. apply cc_isort_sorted.
Qed.

Lemma cob_id_flat : forall U ids, cob_id U = Some ids -> Permutation (flat csrc ids) U /\ Permutation (flat ctgt ids) U.
Proof.
  intros U ids E. assert (Hp : Permutation ids (ids_of U)).
  { unfold cob_id, cob_new in E. apply cob_sort_perm in E. exact E. }
  split; [rewrite <- (flat_src_ids U)|rewrite <- (flat_tgt_ids U)]; apply flat_perm; exact Hp.
Qed.

Theorem cob_stack_inv_eq : forall c, cob_inv_ok c ->
  exists ic S T ids idt,
    cob_inv c = Some (Some ic) /\ cob_src c = Some S /\ cob_id S = Some ids /\ cob_tgt c = Some T /\ cob_id T = Some idt /\
    cob_stack c ic = Some ids /\ cob_stack ic c = Some idt.
Proof.
  intros c OK. destruct (cob_stack_inv c OK) as (ic & r1 & r2 & S & T & ids & idt & Ei & E1 & ES & EI & P1 & E2 & ET & EJ & P2).
  exists ic, S, T, ids, idt. repeat (split; [assumption|]).
  destruct OK as (Is & It & _).
  destruct (fold_connect_disjoint (map csrc c)) as (S' & ES' & PS & _); [rewrite concat_map_flat; exact Is|].
  destruct (fold_connect_disjoint (map ctgt c)) as (T' & ET' & PT & _); [rewrite concat_map_flat; exact It|].
  rewrite concat_map_flat in PS, PT. unfold cob_src in ES. unfold cob_tgt in ET. rewrite ES in ES'. rewrite ET in ET'.
  inversion ES'; subst S'. inversion ET'; subst T'.
  assert (IS : tng_inv S) by (eapply inv_perm; [apply Permutation_sym; exact PS|exact Is]).
  assert (ITT : tng_inv T) by (eapply inv_perm; [apply Permutation_sym; exact PT|exact It]).
  destruct (cob_id_flat _ _ EI) as [F1 F2]. destruct (cob_id_flat _ _ EJ) as [G1 G2].
  assert (Hic : c = [] -> ic = []).
  { intros ->. cbn in Ei. inversion Ei. reflexivity. }
  assert (Hci : ic = [] -> c = []).
  { intros ->. unfold cob_inv in Ei. destruct (cob_is_invertible c); [|discriminate]. inversion Ei as [E]. unfold cob_new in E.
    apply cob_sort_perm in E. apply Permutation_nil in E. destruct c; [reflexivity|discriminate]. }
  split.
  - rewrite E1. f_equal. destruct c as [|c0 c']; [rewrite (Hic eq_refl) in E1; cbn in E1; inversion E1; subst; apply Permutation_nil in P1; auto|].
    destruct ic as [|i0 ic']; [specialize (Hci eq_refl); discriminate|].
    apply cob_normal_form_unique; auto.
    + eapply inv_perm; [apply Permutation_sym; exact F1|exact IS].
    + eapply inv_perm; [apply Permutation_sym; exact F2|exact IS].
    + eapply cob_id_sorted; eauto.
    + eapply cob_stack_sorted; [| |exact E1]; discriminate.
  - rewrite E2. f_equal. destruct c as [|c0 c']; [rewrite (Hic eq_refl) in E2; cbn in E2; inversion E2; subst; apply Permutation_nil in P2; auto|].
    destruct ic as [|i0 ic']; [specialize (Hci eq_refl); discriminate|].
    apply cob_normal_form_unique; auto.
    + eapply inv_perm; [apply Permutation_sym; exact G1|exact ITT].
    + eapply inv_perm; [apply Permutation_sym; exact G2|exact ITT].
    + eapply cob_id_sorted; eauto.
    + eapply cob_stack_sorted; [| |exact E2]; discriminate.
Qed.
